/-
  Y0.Lemmas.CanonScopeW — the widened scope predicate `Expr.wssW S` (SemScopeW.lean: multi-world joint leaves, children
  sharing a base variable) is preserved by every constructor / operator the canonicaliser uses, hence by `canonL` itself.
  Same structure as CanonScope.lean; the leaf clause has no "distinct names" / "one world" part any more, and
  `Sum.simplify` only rebuilds a leaf when the guard of the repaired code passes (pairwise distinct base variables).
-/
import Y0.Lemmas.CanonScope
import Y0.Lemmas.SemScopeW

namespace Y0
set_option linter.unusedSimpArgs false
set_option linter.unusedVariables false
set_option linter.unusedTactic false
set_option linter.unreachableTactic false

/-! ### the widened leaf clause as a proposition -/

structure LeafOKWP (S : List Name) (c p : List Var) : Prop where
  nonempty : c ≠ []
  subs : ∀ v ∈ c ++ p, ∀ w ∈ c ++ p, ∀ i ∈ w.ivs, i.name = v.name → i.star = true ∨ v.name ∉ S
  plus : ∀ v ∈ c ++ p, v.star = some true → v.name ∉ S

theorem leafOKW_iff {S : List Name} {c p : List Var} : leafOKW S c p = true ↔ LeafOKWP S c p := by
  unfold leafOKW
  simp only [Bool.and_eq_true, Bool.not_eq_true', List.isEmpty_eq_false_iff, List.all_eq_true, Bool.or_eq_true,
    bne_iff_ne, ne_eq, Bool.and_eq_false_imp, beq_iff_eq, List.contains_eq_mem, decide_eq_true_eq, decide_eq_false_iff_not]
  constructor
  · rintro ⟨⟨h1, h2⟩, h3⟩
    refine ⟨h1, ?_, fun v hv hs => by simpa using h3 v hv hs⟩
    intro v hv w hw i hi hiv
    rcases h2 v hv w hw i hi with (h | h) | h
    · exact absurd hiv h
    · exact Or.inl h
    · exact Or.inr (by simpa using h)
  · rintro ⟨h1, h2, h3⟩
    refine ⟨⟨h1, ?_⟩, fun v hv hs => by simpa using h3 v hv hs⟩
    intro v hv w hw i hi
    by_cases hiv : i.name = v.name
    · rcases h2 v hv w hw i hi hiv with h | h
      · exact Or.inl (Or.inr h)
      · exact Or.inr (by simpa using h)
    · exact Or.inl (Or.inl hiv)

/-- the leaf clause is inherited by any re-arrangement of a sub-collection of the variables -/
theorem LeafOKWP.of_perm_sub {S : List Name} {c p c' p' l : List Var} (h : LeafOKWP S c p) (hc : c' ≠ [])
    (hp : (c' ++ p').Perm l) (hs : l.Sublist (c ++ p)) : LeafOKWP S c' p' := by
  have hsub : ∀ v ∈ c' ++ p', v ∈ c ++ p := fun v hv => hs.subset (hp.subset hv)
  refine ⟨hc, ?_, ?_⟩
  · intro v hv w hw; exact h.subs v (hsub v hv) w (hsub w hw)
  · intro v hv; exact h.plus v (hsub v hv)

/-- the single-world clause implies the widened one -/
theorem leafOKW_of_leafOK {S : List Name} {c p : List Var} (h : leafOK S c p = true) : leafOKW S c p = true := by
  have h' := leafOK_iff.mp h
  exact leafOKW_iff.mpr ⟨h'.nonempty, fun v hv w hw i hi e => absurd e (h'.subs v hv w hw i hi), h'.plus⟩

/-! ### lists of expressions -/

theorem wssWList_iff {S : List Name} {fs : List Expr} : Expr.wssWList S fs = true ↔ ∀ e ∈ fs, Expr.wssW S e = true := by
  induction fs with
  | nil => simp [Expr.wssWList]
  | cons a l ih => simp [Expr.wssWList, ih]

/-! ### Product.safe, flattening -/

theorem wssW_productSafe {S : List Name} {es : List Expr} (h : ∀ e ∈ es, Expr.wssW S e = true) :
    Expr.wssW S (productSafe es) = true := by
  unfold productSafe
  simp only
  have hf : ∀ e ∈ es.filter (fun e => !e.isOne), Expr.wssW S e = true :=
    fun e he => h e (List.mem_filter.mp he).1
  generalize es.filter (fun e => !e.isOne) = l at hf
  split
  · rfl
  · match l, hf with
    | [], _ => rfl
    | [e], hf => exact hf e (List.mem_singleton.mpr rfl)
    | a :: b :: r, hf =>
      simp only [Expr.wssW]
      exact wssWList_iff.mpr fun e he => hf e ((sortStable_perm _ _).subset he)

mutual
theorem wssW_flattenFactors {S : List Name} : ∀ (es : List Expr), (∀ e ∈ es, Expr.wssW S e = true) →
    ∀ e ∈ flattenFactors es, Expr.wssW S e = true
  | [], _, e, he => by simp [flattenFactors] at he
  | a :: rest, h, e, he => by
    simp only [flattenFactors, List.mem_append] at he
    rcases he with he | he
    · exact wssW_flattenFactor a (h a List.mem_cons_self) e he
    · exact wssW_flattenFactors rest (fun x hx => h x (List.mem_cons_of_mem _ hx)) e he
theorem wssW_flattenFactor {S : List Name} : ∀ (a : Expr), Expr.wssW S a = true →
    ∀ e ∈ flattenFactor a, Expr.wssW S e = true
  | .prod gs, h, e, he => by
    simp only [flattenFactor] at he
    simp only [Expr.wssW] at h
    exact wssW_flattenFactors gs (wssWList_iff.mp h) e he
  | .prob _ _ _, h, e, he => by simp only [flattenFactor, List.mem_singleton] at he; exact he ▸ h
  | .sum _ _, h, e, he => by simp only [flattenFactor, List.mem_singleton] at he; exact he ▸ h
  | .frac _ _, h, e, he => by simp only [flattenFactor, List.mem_singleton] at he; exact he ▸ h
  | .one, h, e, he => by simp only [flattenFactor, List.mem_singleton] at he; exact he ▸ h
  | .zero, h, e, he => by simp only [flattenFactor, List.mem_singleton] at he; exact he ▸ h
  | .q _ _, h, e, he => by simp only [flattenFactor, List.mem_singleton] at he; exact he ▸ h
end

/-! ### `*`, `/` -/

theorem wssW_mkFrac {S : List Name} {n d c : Expr} (hn : Expr.wssW S n = true) (hd : Expr.wssW S d = true)
    (h : mkFrac n d = .ok c) : Expr.wssW S c = true := by
  unfold mkFrac at h
  split at h
  · cases h
  · cases h; simp [Expr.wssW, hn, hd]

theorem wssW_frac_iff {S : List Name} {n d : Expr} :
    Expr.wssW S (.frac n d) = true ↔ Expr.wssW S n = true ∧ Expr.wssW S d = true := by simp [Expr.wssW]

theorem wssW_prod_iff {S : List Name} {fs : List Expr} :
    Expr.wssW S (.prod fs) = true ↔ ∀ e ∈ fs, Expr.wssW S e = true := by simp [Expr.wssW, wssWList_iff]

theorem wssW_mulR {S : List Name} (a : Expr) (ha : Expr.wssW S a = true) : ∀ (b c : Expr), Expr.wssW S b = true →
    Expr.mulR a b = .ok c → Expr.wssW S c = true
  | .frac n d, c, hb, h => by
    have hnd := wssW_frac_iff.mp hb
    unfold Expr.mulR at h
    cases a with
    | sum e r =>
      cases h
      exact wssW_productSafe (by intro x hx; simp at hx; rcases hx with rfl | rfl <;> assumption)
    | prob pop ch pa =>
      obtain ⟨x, hx, hc⟩ := bind_ok h
      exact wssW_mkFrac (wssW_mulR _ ha n x hnd.1 hx) hnd.2 hc
    | prod fs =>
      obtain ⟨x, hx, hc⟩ := bind_ok h
      exact wssW_mkFrac (wssW_mulR _ ha n x hnd.1 hx) hnd.2 hc
    | frac n1 d1 =>
      obtain ⟨x, hx, hc⟩ := bind_ok h
      exact wssW_mkFrac (wssW_mulR _ ha n x hnd.1 hx) hnd.2 hc
    | one =>
      obtain ⟨x, hx, hc⟩ := bind_ok h
      exact wssW_mkFrac (wssW_mulR _ ha n x hnd.1 hx) hnd.2 hc
    | zero =>
      obtain ⟨x, hx, hc⟩ := bind_ok h
      exact wssW_mkFrac (wssW_mulR _ ha n x hnd.1 hx) hnd.2 hc
    | q dd cc => simp [Expr.wssW] at ha
  | .zero, c, hb, h => by
    unfold Expr.mulR at h
    cases a <;> cases h <;> first | rfl | (simp [Expr.wssW] at ha)
  | .one, c, hb, h => by
    unfold Expr.mulR at h
    cases a <;> cases h <;> first
      | exact ha
      | (apply wssW_productSafe; intro x hx; simp at hx; rcases hx with hx | rfl
         · exact wssW_prod_iff.mp ha x hx
         · rfl)
      | (apply wssW_productSafe; intro x hx; simp at hx; rcases hx with rfl | rfl <;> first | exact ha | rfl)
  | .prod gs, c, hb, h => by
    unfold Expr.mulR at h
    have hg := wssW_prod_iff.mp hb
    cases a <;> cases h <;> first
      | (apply wssW_productSafe; intro x hx; simp at hx; rcases hx with hx | hx
         · exact wssW_prod_iff.mp ha x hx
         · exact hg x hx)
      | (apply wssW_productSafe; intro x hx; simp at hx; rcases hx with rfl | hx
         · exact ha
         · exact hg x hx)
  | .prob pop ch pa, c, hb, h => by
    unfold Expr.mulR at h
    cases a <;> cases h <;> first
      | (apply wssW_productSafe; intro x hx; simp at hx; rcases hx with hx | rfl
         · exact wssW_prod_iff.mp ha x hx
         · exact hb)
      | (apply wssW_productSafe; intro x hx; simp at hx; rcases hx with rfl | rfl <;> assumption)
  | .sum e r, c, hb, h => by
    unfold Expr.mulR at h
    cases a <;> cases h <;> first
      | (apply wssW_productSafe; intro x hx; simp at hx; rcases hx with hx | rfl
         · exact wssW_prod_iff.mp ha x hx
         · exact hb)
      | (apply wssW_productSafe; intro x hx; simp at hx; rcases hx with rfl | rfl <;> assumption)
  | .q dd cc, c, hb, h => by simp [Expr.wssW] at hb

theorem wssW_mul {S : List Name} : ∀ (a b c : Expr), Expr.wssW S a = true → Expr.wssW S b = true →
    Expr.mul a b = .ok c → Expr.wssW S c = true
  | .one, b, c, ha, hb, h => by unfold Expr.mul at h; cases h; exact hb
  | .zero, b, c, ha, hb, h => by unfold Expr.mul at h; cases h; rfl
  | .frac n d, .zero, c, ha, hb, h => by unfold Expr.mul at h; cases h; rfl
  | .frac n d, .frac n2 d2, c, ha, hb, h => by
    unfold Expr.mul at h
    obtain ⟨x, hx, h⟩ := bind_ok h
    obtain ⟨y, hy, hc⟩ := bind_ok h
    have h1 := wssW_frac_iff.mp ha
    have h2 := wssW_frac_iff.mp hb
    exact wssW_mkFrac (wssW_mul n n2 x h1.1 h2.1 hx) (wssW_mul d d2 y h1.2 h2.2 hy) hc
  | .frac n d, .one, c, ha, hb, h => by
    unfold Expr.mul at h
    obtain ⟨x, hx, hc⟩ := bind_ok h
    have h1 := wssW_frac_iff.mp ha
    exact wssW_mkFrac (wssW_mul n _ x h1.1 hb hx) h1.2 hc
  | .frac n d, .prob pop ch pa, c, ha, hb, h => by
    unfold Expr.mul at h
    obtain ⟨x, hx, hc⟩ := bind_ok h
    have h1 := wssW_frac_iff.mp ha
    exact wssW_mkFrac (wssW_mul n _ x h1.1 hb hx) h1.2 hc
  | .frac n d, .prod gs, c, ha, hb, h => by
    unfold Expr.mul at h
    obtain ⟨x, hx, hc⟩ := bind_ok h
    have h1 := wssW_frac_iff.mp ha
    exact wssW_mkFrac (wssW_mul n _ x h1.1 hb hx) h1.2 hc
  | .frac n d, .sum e r, c, ha, hb, h => by
    unfold Expr.mul at h
    obtain ⟨x, hx, hc⟩ := bind_ok h
    have h1 := wssW_frac_iff.mp ha
    exact wssW_mkFrac (wssW_mul n _ x h1.1 hb hx) h1.2 hc
  | .frac n d, .q dd cc, c, ha, hb, h => by simp [Expr.wssW] at hb
  | .prob pop ch pa, b, c, ha, hb, h => by unfold Expr.mul at h; exact wssW_mulR _ ha b c hb h
  | .prod fs, b, c, ha, hb, h => by unfold Expr.mul at h; exact wssW_mulR _ ha b c hb h
  | .sum e r, b, c, ha, hb, h => by unfold Expr.mul at h; exact wssW_mulR _ ha b c hb h
  | .q dd cc, b, c, ha, hb, h => by simp [Expr.wssW] at ha

theorem wssW_div {S : List Name} (a b c : Expr) (ha : Expr.wssW S a = true) (hb : Expr.wssW S b = true)
    (h : Expr.div a b = .ok c) : Expr.wssW S c = true := by
  cases a <;> cases b <;> simp only [Expr.div] at h <;>
  first
    | (cases h; first | exact ha | rfl)
    | (exact wssW_mkFrac ha hb h)
    | (obtain ⟨x, hx, h⟩ := bind_ok h
       obtain ⟨y, hy, hc⟩ := bind_ok h
       have h1 := wssW_frac_iff.mp ha
       have h2 := wssW_frac_iff.mp hb
       exact wssW_mkFrac (wssW_mul _ _ x h1.1 h2.2 hx) (wssW_mul _ _ y h1.2 h2.1 hy) hc)
    | (obtain ⟨x, hx, hc⟩ := bind_ok h
       have h1 := wssW_frac_iff.mp ha
       exact wssW_mkFrac h1.1 (wssW_mul _ _ x h1.2 hb hx) hc)
    | (obtain ⟨x, hx, hc⟩ := bind_ok h
       have h2 := wssW_frac_iff.mp hb
       exact wssW_mkFrac (wssW_mul _ _ x ha h2.2 hx) h2.1 hc)
    | (split at h
       · cases h
       · cases h; rfl)
    | (simp [Expr.wssW] at ha; done)
    | (simp [Expr.wssW] at hb; done)

/-! ### Sum.safe / Sum.simplify -/

theorem wssW_sum_iff {S : List Name} {e : Expr} {r : List Var} :
    Expr.wssW S (.sum e r) = true ↔ rangesOK S r = true ∧ Expr.wssW S e = true := by simp [Expr.wssW]

theorem wssW_sumSafe0 {S : List Name} {e : Expr} {r : List Var} (he : Expr.wssW S e = true)
    (hr : rangesOK S r = true) : Expr.wssW S (sumSafe0 e r) = true := by
  have hr' : rangesOK S (upgradeOrdering r) = true := rangesOK_of_subset hr (nodup_upgradeOrdering _) (fun v hv => mem_upgradeOrdering.mp hv)
  unfold sumSafe0
  simp only
  split
  · exact he
  · cases e <;> simp only <;> first
      | rfl
      | exact wssW_sum_iff.mpr ⟨hr', he⟩

theorem wssW_sumSimplify {S : List Name} {e : Expr} {rs : List Var} (he : Expr.wssW S e = true)
    (hr : rangesOK S rs = true) : Expr.wssW S (sumSimplify e rs) = true := by
  by_cases hdup : ∃ pop c, e = .prob pop c [] ∧ dupBase c = true
  · obtain ⟨pop, c, rfl, hd⟩ := hdup
    rw [sumSimplify_dup hd]; exact wssW_sum_iff.mpr ⟨hr, he⟩
  unfold sumSimplify
  split
  · rename_i pop c
    have hleaf : LeafOKWP S c [] := leafOKW_iff.mp (by simpa [Expr.wssW] using he)
    have hn : (c.map (·.name)).Nodup := by
      apply dupBase_false_iff.mp
      cases hd : dupBase c with
      | false => rfl
      | true => exact absurd ⟨pop, c, rfl, hd⟩ hdup
    have hcn : c.Nodup := nodup_of_nodup_map_name hn
    have hsubleaf : ∀ ks : List Var, c.filter (fun v => memb v.base ks) ≠ [] →
        Expr.wssW S (.prob pop (upgradeOrdering ((inter' (dedup' (c.map Var.base)) ks).filterMap (lastWithBase c))) []) = true := by
      intro ks hne
      rw [dictVals_eq_filter hn]
      simp only [Expr.wssW]
      apply leafOKW_iff.mpr
      have hperm := upgradeOrdering_perm_of_nodup (hcn.filter (fun v => memb v.base ks))
      refine hleaf.of_perm_sub ?_ (by simpa using hperm) (by simpa using List.filter_sublist)
      intro h0
      rw [h0] at hperm
      exact hne hperm.symm.eq_nil
    have hg : ((dedup' (c.map Var.base)).length != c.length) = false := dupBase_false_iff.mpr hn
    simp only [hg, Bool.false_eq_true, if_false]
    rw [dedup'_of_nodup (nodup_map_base hn)] at *
    split
    · rfl
    · split
      · exact wssW_sumSafe0 rfl (rangesOK_of_subset hr (nodup_diff' (nodup_of_rangesOK hr) _) (fun v hv => (mem_diff'.mp hv).1))
      · rename_i hnk
        split
        · rename_i hsub
          apply hsubleaf
          -- some child is not summed out, otherwise keys ⊆ rs
          intro h0
          apply hnk
          apply subset'_iff.mpr
          intro k hk
          obtain ⟨v, hv, rfl⟩ := List.mem_map.mp hk
          by_contra hnot
          have : v ∈ c.filter (fun v => memb v.base (diff' (c.map Var.base) rs)) := by
            rw [List.mem_filter]; exact ⟨hv, by simp [memb, mem_diff', List.mem_map_of_mem hv, hnot]⟩
          rw [h0] at this; cases this
        · apply wssW_sumSafe0
          · apply hsubleaf
            intro h0
            apply hnk
            apply subset'_iff.mpr
            intro k hk
            obtain ⟨v, hv, rfl⟩ := List.mem_map.mp hk
            by_contra hnot
            have : v ∈ c.filter (fun v => memb v.base (diff' (c.map Var.base) (inter' rs (c.map Var.base)))) := by
              rw [List.mem_filter]
              exact ⟨hv, by simp [memb, mem_diff', mem_inter', List.mem_map_of_mem hv, hnot]⟩
            rw [h0] at this; cases this
          · exact rangesOK_of_subset hr (nodup_diff' (nodup_of_rangesOK hr) _) (fun v hv => (mem_diff'.mp hv).1)
  · exact wssW_sum_iff.mpr ⟨hr, he⟩

theorem wssW_sumSafe {S : List Name} {e : Expr} {r : List Var} (b : Bool) (he : Expr.wssW S e = true)
    (hr : rangesOK S r = true) : Expr.wssW S (sumSafe e r b) = true := by
  have hr' : rangesOK S (upgradeOrdering r) = true := rangesOK_of_subset hr (nodup_upgradeOrdering _) (fun v hv => mem_upgradeOrdering.mp hv)
  unfold sumSafe
  simp only
  split
  · exact he
  · cases e <;> simp only <;> first
      | rfl
      | (split
         · exact wssW_sumSimplify he hr'
         · exact wssW_sum_iff.mpr ⟨hr', he⟩)

/-! ### the canonicaliser -/

theorem wssW_postFrac {S : List Name} {rv : Expr} (h : Expr.wssW S rv = true) : Expr.wssW S (postFrac rv) = true := by
  unfold postFrac
  split
  · rename_i a b
    have := wssW_frac_iff.mp h
    split
    · exact this.1
    · split
      · rfl
      · exact h
  · exact h

mutual
theorem wssW_canonL {S : List Name} {lvl : Name → Option Nat} : ∀ (e e' : Expr), Expr.wssW S e = true →
    canonL lvl e = .ok e' → Expr.wssW S e' = true
  | .prob pop c p, e', hw, h => by
    unfold canonL at h
    obtain ⟨c', hc, h⟩ := bind_ok h
    obtain ⟨p', hp, h⟩ := bind_ok h
    cases h
    have hleaf : LeafOKWP S c p := leafOKW_iff.mp (by simpa [Expr.wssW] using hw)
    simp only [Expr.wssW]
    apply leafOKW_iff.mpr
    have hcp := sortVars_perm hc
    have hpp := sortVars_perm hp
    refine hleaf.of_perm_sub ?_ (hcp.append hpp) (List.Sublist.refl _)
    intro h0; rw [h0] at hcp; exact hleaf.nonempty hcp.symm.eq_nil
  | .sum e r, e', hw, h => by
    unfold canonL at h
    obtain ⟨x, hx, h⟩ := bind_ok h
    cases h
    simp only [Expr.wssW, Bool.and_eq_true] at hw
    exact wssW_sumSafe true (wssW_canonL e x hw.2 hx) hw.1
  | .prod fs, e', hw, h => by
    unfold canonL at h
    obtain ⟨x, hx, h⟩ := bind_ok h
    cases h
    apply wssW_productSafe
    apply wssW_flattenFactors
    exact wssW_canonFactors fs x (wssW_prod_iff.mp hw) hx
  | .frac n d, e', hw, h => by
    unfold canonL at h
    obtain ⟨n', hn, h⟩ := bind_ok h
    obtain ⟨d', hd, h⟩ := bind_ok h
    have h12 := wssW_frac_iff.mp hw
    have hn' := wssW_canonL n n' h12.1 hn
    have hd' := wssW_canonL d d' h12.2 hd
    split at h
    · cases h; exact hn'
    · split at h
      · cases h; rfl
      · obtain ⟨rv, hrv, h⟩ := bind_ok h
        cases h
        exact wssW_postFrac (wssW_div _ _ _ hn' hd' hrv)
  | .one, e', hw, h => by unfold canonL at h; cases h; rfl
  | .zero, e', hw, h => by unfold canonL at h; cases h; rfl
  | .q _ _, e', hw, h => by simp [Expr.wssW] at hw
theorem wssW_canonFactors {S : List Name} {lvl : Name → Option Nat} : ∀ (fs fs' : List Expr),
    (∀ e ∈ fs, Expr.wssW S e = true) → canonFactors lvl fs = .ok fs' → ∀ e ∈ fs', Expr.wssW S e = true
  | [], fs', hw, h => by
    unfold canonFactors at h; cases h; intro e he; cases he
  | .prod gs :: rest, fs', hw, h => by
    unfold canonFactors at h
    obtain ⟨a, ha, h⟩ := bind_ok h
    obtain ⟨b, hb, h⟩ := bind_ok h
    cases h
    intro e he
    rcases List.mem_append.mp he with he | he
    · exact wssW_canonFactors gs a (wssW_prod_iff.mp (hw _ List.mem_cons_self)) ha e he
    · exact wssW_canonFactors rest b (fun x hx => hw x (List.mem_cons_of_mem _ hx)) hb e he
  | .prob pop c p :: rest, fs', hw, h => by
    unfold canonFactors at h
    obtain ⟨a, ha, h⟩ := bind_ok h
    obtain ⟨b, hb, h⟩ := bind_ok h
    cases h
    intro e he
    rcases List.mem_cons.mp he with rfl | he
    · exact wssW_canonL _ _ (hw _ List.mem_cons_self) ha
    · exact wssW_canonFactors rest b (fun x hx => hw x (List.mem_cons_of_mem _ hx)) hb e he
  | .sum e0 r :: rest, fs', hw, h => by
    unfold canonFactors at h
    obtain ⟨a, ha, h⟩ := bind_ok h
    obtain ⟨b, hb, h⟩ := bind_ok h
    cases h
    intro e he
    rcases List.mem_cons.mp he with rfl | he
    · exact wssW_canonL _ _ (hw _ List.mem_cons_self) ha
    · exact wssW_canonFactors rest b (fun x hx => hw x (List.mem_cons_of_mem _ hx)) hb e he
  | .frac n d :: rest, fs', hw, h => by
    unfold canonFactors at h
    obtain ⟨a, ha, h⟩ := bind_ok h
    obtain ⟨b, hb, h⟩ := bind_ok h
    cases h
    intro e he
    rcases List.mem_cons.mp he with rfl | he
    · exact wssW_canonL _ _ (hw _ List.mem_cons_self) ha
    · exact wssW_canonFactors rest b (fun x hx => hw x (List.mem_cons_of_mem _ hx)) hb e he
  | .one :: rest, fs', hw, h => by
    unfold canonFactors at h
    obtain ⟨a, ha, h⟩ := bind_ok h
    obtain ⟨b, hb, h⟩ := bind_ok h
    cases h
    intro e he
    rcases List.mem_cons.mp he with rfl | he
    · exact wssW_canonL _ _ (hw _ List.mem_cons_self) ha
    · exact wssW_canonFactors rest b (fun x hx => hw x (List.mem_cons_of_mem _ hx)) hb e he
  | .zero :: rest, fs', hw, h => by
    unfold canonFactors at h
    obtain ⟨a, ha, h⟩ := bind_ok h
    obtain ⟨b, hb, h⟩ := bind_ok h
    cases h
    intro e he
    rcases List.mem_cons.mp he with rfl | he
    · exact wssW_canonL _ _ (hw _ List.mem_cons_self) ha
    · exact wssW_canonFactors rest b (fun x hx => hw x (List.mem_cons_of_mem _ hx)) hb e he
  | .q dd cc :: rest, fs', hw, h => by
    have := hw _ List.mem_cons_self
    simp [Expr.wssW] at this
end

/-! ### the single-world class is contained in the widened one -/

mutual
theorem wssW_of_wss {S : List Name} : ∀ e : Expr, Expr.wss S e = true → Expr.wssW S e = true
  | .prob _ c p, h => by
    simp only [Expr.wss] at h
    simp only [Expr.wssW]
    exact leafOKW_of_leafOK h
  | .prod fs, h => by
    simp only [Expr.wss] at h
    simp only [Expr.wssW]
    exact wssWList_of_wssList fs h
  | .sum e r, h => by
    simp only [Expr.wss, Bool.and_eq_true] at h
    simp only [Expr.wssW, Bool.and_eq_true]
    exact ⟨h.1, wssW_of_wss e h.2⟩
  | .frac n d, h => by
    simp only [Expr.wss, Bool.and_eq_true] at h
    simp only [Expr.wssW, Bool.and_eq_true]
    exact ⟨wssW_of_wss n h.1, wssW_of_wss d h.2⟩
  | .one, _ => rfl
  | .zero, _ => rfl
  | .q _ _, h => by simp [Expr.wss] at h
theorem wssWList_of_wssList {S : List Name} : ∀ fs : List Expr, Expr.wssList S fs = true → Expr.wssWList S fs = true
  | [], _ => rfl
  | e :: es, h => by
    simp only [Expr.wssList, Bool.and_eq_true] at h
    simp only [Expr.wssWList, Bool.and_eq_true]
    exact ⟨wssW_of_wss e h.1, wssWList_of_wssList es h.2⟩
end

end Y0
