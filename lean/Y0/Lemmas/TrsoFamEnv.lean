/-
  Y0.Lemmas.TrsoFamEnv — the leaves of a multi-domain `Family` (Y0/Spec/Scm.lean) satisfy the leaf laws `LeafSem`
  (Lemmas/TrsoSemDefs): a single-world leaf tagged with a domain `π` whose model is compatible with the graph is the
  conditional `F X (C ∪ Pa) / F X Pa` of that model's truncated factorisation (Lemmas/TianProb).  The target context
  `famCtx`, the invariant of the initial TRSO query, and the "coin" family (all variables binary, all mechanisms
  uniform, no latents) that the soundness engine uses to tell canonical products from joints.
-/
import Y0.Lemmas.TrsoSemAll
import Y0.Lemmas.TianSound
import Y0.Spec.FamilySpec

namespace Y0
namespace Trso
open TrDsl MG IdAux TianProb

/-- the domains an estimand may mention read positive models compatible with the graph, with the target's
cardinalities -/
structure FamOK (Fam : Family) (G : MG Name) (pops : List Name) : Prop where
  graph : ∀ pop, Fam.graph pop = G
  target : (Fam.dom none).Compatible G
  compat : ∀ n ∈ pops, (Fam.dom (some n)).Compatible G
  card : ∀ n ∈ pops, (Fam.dom (some n)).card = (Fam.dom none).card
  wf : G.WF
  rank : G.Ranked

theorem F_nil {M : Scm} {G : MG Name} (hM : M.Compatible G) (hG : G.WF) (hrank : G.Ranked) (X : List Name) (σ : Val) :
    F M G X [] σ = 1 := by
  unfold F
  have : G.nodes.filter (fun v => v ∉ X ∧ v ∉ ([] : List Name)) = G.nodes.filter (· ∉ X) := by
    apply List.filter_congr
    intro x _
    simp
  rw [this]
  exact TianSound.sumVars_Q_self hM hrank _ (hG.nodup.filter _) (fun v hv => (List.mem_filter.1 hv).1) σ

/-- **the leaves of a family satisfy the leaf laws** (worlds: un-starred subscripts; names: nodes outside the
subscripts; every name may be summed) -/
def famLeafSem (Fam : Family) (G : MG Name) (pops : List Name) (σ' : Val) (h : FamOK Fam G pops) :
    LeafSem (Fam.dom none).card (envLeaf Fam.env σ') where
  okW pop w := (∃ t : Var, pop = some t ∧ t.name ∈ pops) ∧ ∀ i ∈ w, i.star = false
  okN _ w x := x ∈ G.nodes ∧ x ∉ w.map (·.name)
  U _ := True
  Φ pop w E := TianProb.F (Fam.dom (pop.map (·.name))) G (w.map (·.name)) E
  card_pos := h.target.card_pos
  leaf_eq := by
    rintro pop w c p ⟨⟨t, rfl, ht⟩, hw⟩ hv σ
    have hM := h.compat t.name ht
    have key : ∀ vs : List Var, (∀ v ∈ vs, v ∈ c ++ p) →
        Fam.env.pr (some t.name) (vs.map (Var.atom σ σ')) =
          TianProb.F (Fam.dom (some t.name)) G (w.map (·.name)) (vnames vs) σ := by
      intro vs hvs
      show (Fam.dom (some t.name)).prAtoms (Fam.graph (some t.name)) _ = _
      rw [h.graph]
      by_cases hne : vs = []
      · subst hne
        simp only [List.map_nil, Scm.prAtoms]
        exact (F_nil hM h.wf h.rank _ σ).symm
      · exact prAtoms_world hM h.wf σ σ' w hw vs hne (fun v hv' => ⟨(hv v (hvs v hv')).1, by rw [(hv v (hvs v hv')).2.1]; simp⟩)
    unfold envLeaf
    simp only [Option.map_some]
    rw [key (c ++ p) (fun v hv => hv), key p (fun v hv => List.mem_append_right _ hv)]
  nil := by
    rintro pop w ⟨⟨t, rfl, ht⟩, _⟩ σ
    exact F_nil (h.compat t.name ht) h.wf h.rank _ σ
  congr := by
    intro pop w E E' hE
    exact F_congr _ hE
  pos := by
    rintro pop w E ⟨⟨t, rfl, ht⟩, _⟩ σ
    exact F_pos (h.compat t.name ht) _ _ σ
  marg := by
    rintro pop w x E ⟨⟨t, rfl, ht⟩, _⟩ ⟨hx, hxw⟩ _ hxE σ
    have := F_marg (M := Fam.dom (some t.name)) h.wf (w.map (·.name)) E x hx hxw hxE
    rw [h.card t.name ht] at this
    exact congrFun this σ

/-- the target context of a family: the target model, the leaves as `Family.env` reads them -/
def famCtx (Fam : Family) (G : MG Name) (pops : List Name) (σ' : Val) (h : FamOK Fam G pops) : Ctx where
  M := Fam.dom none
  G0 := G
  leaf := envLeaf Fam.env σ'
  S := famLeafSem Fam G pops σ' h
  sctx := ⟨h.target, h.wf, h.rank⟩
  ign := []
  mark d v := (Fam.dom (some d)).kern v ≠ (Fam.dom none).kern v
  dom d := d ∈ pops

theorem rsub_self {G : MG Name} : RSub G G :=
  ⟨fun v hv => (mem_regularNodes.1 hv).1, fun u v _ _ h => MG.mem_parents.1 h, fun u v _ _ h => (hasBi_iff G u v).1 h⟩

/-- a selection diagram of `G` (marked variables among the nodes, names below 100) is an induced super-graph of `G`
on its regular nodes -/
theorem rsub_ctd {G : MG Name} (hsmall : ∀ v ∈ G.nodes, v < 100) {ns : List Name} (hns : ∀ s ∈ ns, s ∈ G.nodes) :
    RSub G (createTransportDiagram G ns) := by
  refine ⟨?_, ?_, ?_⟩
  · intro v hv
    obtain ⟨hv1, hv2⟩ := mem_regularNodes.1 hv
    rcases (ctd_mem_nodes G ns v).1 hv1 with h | ⟨s, hs, rfl | rfl⟩
    · exact h
    · rw [isTnode_tnode (hsmall s (hns s hs))] at hv2; cases hv2
    · exact hns _ hs
  · intro u v _ _ h
    exact (ctd_mem_di G ns (u, v)).2 (Or.inl (MG.mem_parents.1 h))
  · intro u v _ _ h
    have := (hasBi_iff G u v).1 h
    unfold MG.BiEdge at this ⊢
    rw [ctd_bi]
    exact this

/-- **the initial query of `identify_target_outcomes` satisfies the semantic invariant** in the target context of every
family whose target tag reads the target model, provided every diagram of the query is a selection diagram of `G`
(`hsub`) that carries a selection node at every variable where its domain may differ (`hmarks`) -/
theorem famCtx_initial {Fam : Family} {G : MG Name} {pops : List Name} (σ' : Val) (h : FamOK Fam G pops)
    (htag : targetPop ∈ pops) (hT : Fam.dom (some targetPop) = Fam.dom none) (hnoT : ∀ v ∈ G.nodes, isTnode v = false)
    (Y X : List Name) (graphs : List (Pop × MG Name)) (interventions : List (Pop × List Name))
    (hsub : ∀ p ∈ graphs, RSub G p.2)
    (hmarks : ∀ p ∈ graphs, ∀ v, (Fam.dom (some p.1)).kern v ≠ (Fam.dom none).kern v → v ∈ regularNodes p.2 →
      (tnode v, v) ∈ p.2.di)
    (hdoms : ∀ p ∈ graphs, p.1 ∈ pops) :
    SemInv (famCtx Fam G pops σ' h) (initialQuery G Y X graphs interventions) G := by
  have hreg : regularNodes G = G.nodes := regularNodes_eq_of_noT hnoT
  have hokW : (famCtx Fam G pops σ' h).S.okW (some (popVar targetPop)) [] :=
    ⟨⟨popVar targetPop, rfl, htag⟩, by simp⟩
  have jc : JC (famCtx Fam G pops σ' h) (initialQuery G Y X graphs interventions) G (plainVars G.nodes) := by
    refine ⟨hokW, ?_, ?_, ?_, (fun z hz => by cases hz), ?_, ?_, plainVars_nodup _⟩
    · intro v hv
      rcases hv with hv | hv
      · exact ⟨(mem_regularNodes.1 hv).1, by simp⟩
      · cases hv
    · intro v hv
      rw [hreg] at hv
      exact List.mem_map.2 ⟨Var.plain v, (mem_plainVars _ _).2 ⟨v, hv, rfl⟩, rfl⟩
    · intro n hn
      obtain ⟨v, hv, rfl⟩ := List.mem_map.1 hn
      obtain ⟨m, hm, rfl⟩ := (mem_plainVars v _).1 hv
      left; rw [hreg]; exact hm
    · intro v hv
      obtain ⟨m, _, rfl⟩ := (mem_plainVars v _).1 hv
      exact ⟨rfl, rfl, rfl⟩
    · intro S _ σ
      show TianProb.F (Fam.dom (some targetPop)) G [] S σ = _
      rw [hT, hreg]
      unfold F
      have e1 : G.nodes.filter (fun v => v ∉ ([] : List Name) ∧ v ∉ S) = G.nodes.filter (· ∉ S) := by
        apply List.filter_congr; intro x _; simp
      have e2 : G.nodes.filter (· ∉ ([] : List Name)) = G.nodes := by simp
      rw [e1, e2]
      rfl
  have hplain : ∀ v ∈ plainVars G.nodes, v.ivs = [] ∧ v.star = none ∧ v.isIv = false := jc.plain
  have hin : ∀ n ∈ vnames (plainVars G.nodes), n ∈ regularNodes G ∨ n ∈ (famCtx Fam G pops σ' h).ign := jc.within
  refine ⟨rsub_self, ⟨trivial, ?_⟩, trivial, ?_, fun _ _ => trivial, fun z hz => (by cases hz),
    Or.inl ⟨popVar targetPop, plainVars G.nodes, rfl, jc⟩, fun _ _ => ⟨hsub, ?_, ⟨_, _, rfl⟩, hmarks, hdoms⟩⟩
  rotate_left 2
  · intro a _ r hr
    rw [hreg]
    exact (h.wf.di_mem _ (MG.mem_parents.1 hr)).1
  · exact jc.adm (c' := plainVars G.nodes) (p' := []) (by simpa using hplain)
      (by intro v hv; rw [List.append_nil] at hv; exact hin v.name (List.mem_map_of_mem hv))
  · intro σ
    show (famCtx Fam G pops σ' h).leaf (some (popVar targetPop)) (plainVars G.nodes) [] σ = _
    refine (jc.leaf_val hplain hin σ).trans ?_
    have hnil : (regularNodes G).filter (· ∉ vnames (plainVars G.nodes)) = [] := by
      apply List.filter_eq_nil_iff.mpr
      intro v hv
      simpa using jc.cover v hv
    rw [hnil]
    rfl

/-! ### the coin family -/

/-- all variables binary, all mechanisms uniform, no latent -/
def coinScm : Scm :=
  { card := fun _ => 2, lat := [], prior := fun _ _ => 1, latOf := fun _ => [], kern := fun _ _ => 1 / 2 }

theorem coinScm_compatible (G : MG Name) : coinScm.Compatible G := by
  refine ⟨fun _ => by simp [coinScm], by simp [coinScm], by simp [coinScm], by simp [coinScm], by simp [coinScm],
    by simp [coinScm], ?_, ?_, ?_, ?_⟩
  · intro v _ σ τ _; rfl
  · intro v _ σ; simp [coinScm]
  · intro v _ σ
    rw [sumVar_const _ _ _ _ (fun _ _ => rfl)]
    simp [coinScm]
  · intro v _ w _ _ h
    obtain ⟨u, hu, _⟩ := h
    simp [coinScm] at hu

/-- every domain is the coin model -/
def coinFam (G : MG Name) : Family := { dom := fun _ => coinScm, graph := fun _ => G }

theorem coinFam_ok (G : MG Name) (hG : G.WF) (hr : G.Ranked) (pops : List Name) : FamOK (coinFam G) G pops :=
  ⟨fun _ => rfl, coinScm_compatible G, fun _ _ => coinScm_compatible G, fun _ _ => rfl, hG, hr⟩

theorem coinScm_Q (T : List Name) (σ : Val) : coinScm.Q T σ = (1 / 2 : Rat) ^ T.length := by
  unfold Scm.Q Scm.weight
  simp only [coinScm, sumVars, List.map_nil, List.prod_nil, one_mul]
  induction T with
  | nil => simp
  | cons a T ih => simp [pow_succ, ih, mul_comm]

theorem sumVars_const_coin (xs : List Name) (c : Rat) (σ : Val) :
    sumVars coinScm.card xs (fun _ => c) σ = c * 2 ^ xs.length := by
  induction xs generalizing σ with
  | nil => simp [sumVars]
  | cons x xs ih =>
    simp only [sumVars]
    have : sumVars coinScm.card xs (fun _ => c) = fun _ => c * 2 ^ xs.length := funext ih
    rw [this, sumVar_const _ _ _ _ (fun _ _ => rfl)]
    simp only [coinScm, List.length_cons, pow_succ]
    push_cast
    ring

/-- the single-world distribution of the coin model: `(1/2)^(number of event variables that are nodes outside X)` -/
theorem coin_F (G : MG Name) (X E : List Name) (σ : Val) :
    F coinScm G X E σ = (1 / 2 : Rat) ^ ((G.nodes.filter (· ∉ X)).filter (· ∈ E)).length := by
  unfold F
  have h1 : coinScm.Q (G.nodes.filter (· ∉ X)) = fun _ => (1 / 2 : Rat) ^ (G.nodes.filter (· ∉ X)).length :=
    funext (coinScm_Q _)
  rw [h1, sumVars_const_coin]
  have hsplit : (G.nodes.filter (· ∉ X)).length =
      ((G.nodes.filter (· ∉ X)).filter (· ∈ E)).length + (G.nodes.filter (fun v => v ∉ X ∧ v ∉ E)).length := by
    have := List.length_eq_length_filter_add (l := G.nodes.filter (· ∉ X)) (fun v => decide (v ∈ E))
    rw [this]
    congr 1
    rw [List.filter_filter]
    congr 1
    apply List.filter_congr
    intro x _
    simp [Bool.and_comm]
  rw [hsplit, pow_add, mul_assoc, ← mul_pow]
  norm_num

/-- **the target context of the coin family is a coin context** -/
theorem coin_famCtx (G : MG Name) (hG : G.WF) (hr : G.Ranked) (pops : List Name) (σ' : Val) :
    Coin (famCtx (coinFam G) G pops σ' (coinFam_ok G hG hr pops)) := by
  refine ⟨fun T _ _ σ => coinScm_Q T σ, ?_⟩
  rintro pop c ⟨w, hw, hv⟩ hone σ
  show envLeaf (coinFam G).env σ' pop c [] σ = 1 ∨ envLeaf (coinFam G).env σ' pop c [] σ = 1 / 2
  have hle := (famLeafSem (coinFam G) G pops σ' (coinFam_ok G hG hr pops)).leaf_eq pop w c [] hw hv σ
  rw [hle]
  show F coinScm G (w.map (·.name)) (vnames (c ++ [])) σ / F coinScm G (w.map (·.name)) (vnames []) σ = 1 ∨
    F coinScm G (w.map (·.name)) (vnames (c ++ [])) σ / F coinScm G (w.map (·.name)) (vnames []) σ = 1 / 2
  rw [coin_F, coin_F]
  simp only [List.append_nil, vnames, List.map_nil, List.not_mem_nil, decide_false, List.filter_false,
    List.length_nil, pow_zero, div_one]
  -- the event names are all the same name, a node outside the world
  cases c with
  | nil => left; simp
  | cons v0 c' =>
    right
    have hname : ∀ v ∈ v0 :: c', v.name = v0.name := fun v hv => hone v hv v0 List.mem_cons_self
    have hv0 := (hv v0 (by simp)).2.2.2
    have hfil : ((G.nodes.filter (· ∉ w.map (·.name))).filter (· ∈ (v0 :: c').map (·.name))).length = 1 := by
      have hnd : (G.nodes.filter (· ∉ w.map (·.name))).Nodup := hG.nodup.filter _
      have hmem : v0.name ∈ G.nodes.filter (· ∉ w.map (·.name)) := by
        rw [List.mem_filter]; exact ⟨hv0.1, by simpa using hv0.2⟩
      have : (G.nodes.filter (· ∉ w.map (·.name))).filter (· ∈ (v0 :: c').map (·.name)) =
          (G.nodes.filter (· ∉ w.map (·.name))).filter (· == v0.name) := by
        apply List.filter_congr
        intro x _
        have hiff : x ∈ (v0 :: c').map (·.name) ↔ x = v0.name := by
          rw [List.mem_map]
          constructor
          · rintro ⟨v, hv', rfl⟩; exact hname v hv'
          · intro hx; exact ⟨v0, List.mem_cons_self, hx.symm⟩
        by_cases hx : x = v0.name
        · rw [decide_eq_true (hiff.2 hx)]; simp [hx]
        · rw [decide_eq_false (fun a => hx (hiff.1 a))]; simp [hx]
      rw [this, ← List.count_eq_length_filter, List.count_eq_one_of_mem hnd hmem]
    rw [hfil]
    norm_num

end Trso
end Y0
