/-
  Y0.Lemmas.CtfTrAlg3Line2 — lines 1-2 of Algorithm 3 (`CtfTr.line2C`: `get_ancestral_components` and
  `_transport_conditional_counterfactual_query_line_2`) never raise on a well-formed graph when the query variables are
  named after nodes, and what the derived event `D*` looks like; the input classes (decidable predicates) that the
  totality theorem of Algorithm 3 excludes.
-/
import Y0.Lemmas.CtfRoot

namespace Y0.CtfTr
open Ctf Relation Y0.MG

/-! ### the variables of `D*` (`dstarVars`; the crash classes `OutcomesFound`, `DstarOneWorld`, `OutcomeNotCondition` are
defined next to the model in Y0/Model/CtfTr.lean) -/

theorem line2C_eq (g : MG Name) (o c : Event) :
    line2C g o c = (condComps g o c).bind fun comps => (lookupOutcomes g o c).bind fun lk => line2COf g comps lk := by
  unfold line2C
  simp only [bind, Except.bind]

theorem dstarVars_eq (g : MG Name) (o c : Event) :
    dstarVars g o c = (condComps g o c).bind fun comps => (lookupOutcomes g o c).bind fun lk =>
      .ok (deriveVars comps (eventVars lk)) := by
  unfold dstarVars
  simp only [bind, Except.bind, pure, Except.pure]

/-- lines 1-2 as they were before `fix:` f335599 (the outcomes looked up under their raw form); equal to `line2C` when
every outcome is given in the form the components store (`lookupOutcomes g o c = .ok o`); the value theorems of
Algorithm 3 are proved for this case -/
def line2CRaw (g : MG Name) (o c : Event) : Except Err (Event × List Name) :=
  (condComps g o c).bind fun comps => line2COf g comps o

def dstarVarsRaw (g : MG Name) (o c : Event) : Except Err (List Var) :=
  (condComps g o c).bind fun comps => .ok (deriveVars comps (eventVars o))

theorem line2C_eq_raw (g : MG Name) (o c : Event) (h : lookupOutcomes g o c = .ok o) :
    line2C g o c = line2CRaw g o c ∧ dstarVars g o c = dstarVarsRaw g o c := by
  rw [line2C_eq, dstarVars_eq, h]
  unfold line2CRaw dstarVarsRaw
  constructor <;> cases condComps g o c <;> rfl

/-! ### small list facts -/

theorem perm_sortBy_local {α : Type} (lt : α → α → Bool) (l : List α) : (sortBy lt l).Perm l := by
  have ins : ∀ (x : α) (l : List α), (insertBy lt x l).Perm (x :: l) := by
    intro x l
    induction l with
    | nil => exact List.Perm.refl _
    | cons y ys ih =>
      unfold insertBy
      split
      · exact (List.Perm.cons y ih).trans (List.Perm.swap x y ys)
      · exact List.Perm.refl _
  induction l with
  | nil => exact List.Perm.refl _
  | cons x xs ih =>
    show (insertBy lt x (sortBy lt xs)).Perm (x :: xs)
    exact (ins x _).trans (List.Perm.cons x ih)

theorem mem_eventVars (e : Event) (v : Var) : v ∈ eventVars e ↔ ∃ p ∈ e, p.1 = v := by
  simp [eventVars, mem_dedup']

theorem mem_unionVars' (a b : List Var) (v : Var) : v ∈ unionVars a b ↔ v ∈ a ∨ v ∈ b := by
  simp only [unionVars, List.mem_append, List.mem_filter, Bool.not_eq_eq_eq_not, Bool.not_true]
  constructor
  · rintro (h | ⟨h, _⟩)
    · exact Or.inl h
    · exact Or.inr h
  · rintro (h | h)
    · exact Or.inl h
    · by_cases ha : v ∈ a
      · exact Or.inl ha
      · refine Or.inr ⟨h, ?_⟩
        cases hm : mem' v a
        · rfl
        · exact absurd ((mem'_iff v a).1 hm) ha

theorem mem_deriveVars (comps : List (List Var)) (outVars : List Var) (v : Var) :
    v ∈ deriveVars comps outVars ↔ ∃ C ∈ comps, v ∈ C ∧ ∃ w ∈ C, w ∈ outVars := by
  simp only [deriveVars, mem_dedup', List.mem_flatten, List.mem_filter, List.any_eq_true, mem'_iff]
  constructor
  · rintro ⟨C, ⟨hC, w, hw, hwo⟩, hv⟩; exact ⟨C, hC, hv, w, hw, hwo⟩
  · rintro ⟨C, hC, hv, w, hw, hwo⟩; exact ⟨C, ⟨hC, w, hw, hwo⟩, hv⟩

/-- the entries of the derived event: an outcome variable of `D*` with each of its values, any other variable of `D*`
without a value -/
theorem mem_deriveEvent (o : Event) (D : List Var) (q : Var × Ctf.Val) :
    q ∈ deriveEvent o D ↔ q.1 ∈ D ∧ ((q.1, q.2) ∈ o ∨ ((∀ p ∈ o, p.1 ≠ q.1) ∧ q.2 = none)) := by
  obtain ⟨v, x⟩ := q
  simp only [deriveEvent, List.mem_flatMap]
  constructor
  · rintro ⟨w, hw, hq⟩
    split at hq
    · obtain ⟨y, hy, hyq⟩ := List.mem_map.1 hq
      cases hyq
      refine ⟨hw, Or.inl ?_⟩
      simp only [outcomeValues, mem_dedup', List.mem_map, List.mem_filter, decide_eq_true_eq] at hy
      obtain ⟨p, ⟨hp, hpv⟩, hpx⟩ := hy
      obtain ⟨p1, p2⟩ := p
      simp only at hpv hpx
      subst hpv hpx
      exact hp
    · rename_i hno
      simp only [List.mem_singleton, Prod.mk.injEq] at hq
      obtain ⟨rfl, rfl⟩ := hq
      refine ⟨hw, Or.inr ⟨?_, rfl⟩⟩
      intro p hp hpv
      exact hno (List.any_eq_true.2 ⟨p, hp, by simpa using hpv⟩)
  · rintro ⟨hv, h⟩
    refine ⟨v, hv, ?_⟩
    rcases h with h | ⟨hno, hx⟩
    · have hany : (o.any fun p => decide (p.1 = v)) = true := List.any_eq_true.2 ⟨(v, x), h, by simp⟩
      simp only [hany, ↓reduceIte]
      refine List.mem_map.2 ⟨x, ?_, rfl⟩
      simp only [outcomeValues, mem_dedup', List.mem_map, List.mem_filter, decide_eq_true_eq]
      exact ⟨(v, x), ⟨h, rfl⟩, rfl⟩
    · subst hx
      have hany : (o.any fun p => decide (p.1 = v)) = false := by
        cases h : (o.any fun p => decide (p.1 = v))
        · rfl
        · obtain ⟨p, hp, hpv⟩ := List.any_eq_true.1 h
          exact absurd (by simpa using hpv) (hno p hp)
      simp only [hany, Bool.false_eq_true, ↓reduceIte, List.mem_singleton]

/-! ### line 1: the ancestral components are computed without an error -/

/-- what lines 1-2 need from a query variable: it is named after a node and is a counterfactual variable or an unstarred
plain `Variable` (what `_event_from_counterfactuals_strict` builds) -/
def VarOK (g : MG Name) (v : Var) : Prop :=
  v.name ∈ g.nodes ∧ (v.isCf = true ∨ (v.isIv = false ∧ v.star = none))

theorem ancestralSetAfter_ok (g : MG Name) (hg : g.WF) (cond : List Var) (hc : ∀ x ∈ cond, x.name ∈ g.nodes)
    (root : Var) (hr : VarOK g root) :
    ∃ A, ancestralSetAfter g cond root = .ok A ∧ ∀ w ∈ A, w.name ∈ g.nodes := by
  obtain ⟨ms, hms⟩ := mapM_ok_of_forall (minimize g) cond (fun x hx => minimize_total g hg x (hc x hx))
  obtain ⟨A₀, hA₀, _⟩ := ctfAncestors_ok g hg root hr.1 hr.2
  have hwf' : ∀ X, (g.removeOutEdges X).WF := fun X => wf_fromEdges _ _ _
  have hcond : ∃ cs, condInAncestralSet g cond root = .ok cs := by
    unfold condInAncestralSet minimizeSet
    simp only [bind, Except.bind, hms, pure, Except.pure, hA₀]
    exact ⟨_, rfl⟩
  obtain ⟨cs, hcs⟩ := hcond
  obtain ⟨A, hA, hAn⟩ := ctfAncestors_ok (g.removeOutEdges cs) (hwf' cs) root
    ((mem_nodes_removeOutEdges g hg cs root.name).2 hr.1) hr.2
  refine ⟨A, ?_, fun w hw => (mem_nodes_removeOutEdges g hg cs w.name).1 (hAn w hw)⟩
  unfold ancestralSetAfter
  simp only [bind, Except.bind, hcs]
  exact hA

/-- `get_ancestral_components` returns without an error, every variable of every component is named after a node, and
every root is in some component -/
theorem ancestralComponents_ok (g : MG Name) (hg : g.WF) (cond roots : List Var)
    (hc : ∀ x ∈ cond, x.name ∈ g.nodes) (hr : ∀ r ∈ roots, VarOK g r) :
    ∃ comps, ancestralComponents g cond roots = .ok comps ∧ ∀ C ∈ comps, ∀ w ∈ C, w.name ∈ g.nodes := by
  obtain ⟨sets, hsets⟩ := mapM_ok_of_forall (ancestralSetAfter g cond) roots (fun r hrr => by
    obtain ⟨A, hA, _⟩ := ancestralSetAfter_ok g hg cond hc r (hr r hrr)
    exact ⟨A, hA⟩)
  refine ⟨componentsFromSets g sets, ?_, ?_⟩
  · unfold ancestralComponents
    simp only [bind, Except.bind, hsets, pure, Except.pure]
  · intro C hC w hw
    obtain ⟨s, _, _, hchar⟩ := (ancestral_components_spec g sets).1 C hC
    obtain ⟨t, ht, _, hwt⟩ := (hchar w).1 hw
    obtain ⟨r, hrr, hrt⟩ := (mapM_ok_mem _ _ _ hsets t).1 ht
    obtain ⟨A, hA, hAn⟩ := ancestralSetAfter_ok g hg cond hc r (hr r hrr)
    rw [hA] at hrt
    cases hrt
    exact hAn w hwt

/-! ### line 2 -/

/-- the facts about `D*` that the rest of Algorithm 3 uses -/
structure DstarFacts (g : MG Name) (o : Event) (D : List Var) (dstar : Event) (dNames : List Name) : Prop where
  names : dNames = dedup' (D.map (·.name))
  /-- every entry is the conversion of an entry of the derived event -/
  origin : ∀ q ∈ dstar, ∃ p ∈ deriveEvent o D, convertOne g p.1 = .ok q.1 ∧ q.2 = p.2
  /-- and every entry of the derived event is converted -/
  cover : ∀ p ∈ deriveEvent o D, ∃ q ∈ dstar, convertOne g p.1 = .ok q.1 ∧ q.2 = p.2

theorem convertEvent_mem (g : MG Name) (e ev : Event) (h : convertEvent g e = .ok ev) (q : Var × Ctf.Val) :
    q ∈ ev ↔ ∃ p ∈ e, convertOne g p.1 = .ok q.1 ∧ q.2 = p.2 := by
  unfold convertEvent at h
  rw [mapM_ok_mem _ _ _ h q]
  constructor
  · rintro ⟨p, hp, hpq⟩
    simp only [bind, Except.bind] at hpq
    cases hc : convertOne g p.1 with
    | error e => rw [hc] at hpq; cases hpq
    | ok w =>
      rw [hc] at hpq
      simp only [pure, Except.pure, Except.ok.injEq] at hpq
      subst hpq
      exact ⟨p, hp, hc, rfl⟩
  · rintro ⟨p, hp, hc, hv⟩
    refine ⟨p, hp, ?_⟩
    simp only [bind, Except.bind, hc, pure, Except.pure]
    obtain ⟨q1, q2⟩ := q
    simp only at hv
    subst hv
    rfl

/-- `_transport_conditional_counterfactual_query_line_2` never raises for components over nodes -/
theorem line2COf_ok (g : MG Name) (comps : List (List Var)) (hnodes : ∀ C ∈ comps, ∀ w ∈ C, w.name ∈ g.nodes)
    (lk : Event) :
    ∃ dstar, line2COf g comps lk = .ok (dstar, dedup' ((deriveVars comps (eventVars lk)).map (·.name))) ∧
      (∀ w ∈ deriveVars comps (eventVars lk), w.name ∈ g.nodes) ∧
      DstarFacts g lk (deriveVars comps (eventVars lk)) dstar (dedup' ((deriveVars comps (eventVars lk)).map (·.name))) := by
  have hDn : ∀ w ∈ deriveVars comps (eventVars lk), w.name ∈ g.nodes := by
    intro w hw
    obtain ⟨C, hC, hwC, _⟩ := (mem_deriveVars comps _ w).1 hw
    exact hnodes C hC w hwC
  obtain ⟨ev, hev⟩ := mapM_ok_of_forall (fun p : Var × Ctf.Val => do pure ((← convertOne g p.1), p.2))
    (deriveEvent lk (deriveVars comps (eventVars lk))) (fun p hp => by
      obtain ⟨w, hw⟩ := convertOne_total g p.1 (hDn p.1 ((mem_deriveEvent lk _ p).1 hp).1)
      exact ⟨(w, p.2), by simp only [bind, Except.bind, hw, pure, Except.pure]⟩)
  have hev' : convertEvent g (deriveEvent lk (deriveVars comps (eventVars lk))) = .ok ev := hev
  refine ⟨ev, ?_, hDn, ⟨rfl, ?_, ?_⟩⟩
  · unfold line2COf
    simp only [bind, Except.bind, hev', pure, Except.pure]
  · intro q hq; exact (convertEvent_mem g _ ev hev' q).1 hq
  · intro p hp
    obtain ⟨w, hw⟩ := convertOne_total g p.1 (hDn p.1 ((mem_deriveEvent lk _ p).1 hp).1)
    exact ⟨(w, p.2), (convertEvent_mem g _ ev hev' (w, p.2)).2 ⟨p, hp, hw, rfl⟩, hw, rfl⟩

/-- line 1 never raises, and every root has its ancestral set inside one component -/
theorem condComps_ok (g : MG Name) (hg : g.WF) (o c : Event)
    (ho : ∀ p ∈ o, VarOK g p.1) (hc : ∀ p ∈ c, VarOK g p.1) :
    ∃ comps, condComps g o c = .ok comps ∧ (∀ C ∈ comps, ∀ w ∈ C, w.name ∈ g.nodes) ∧
      ∀ p ∈ o, ∀ A, ancestralSetAfter g (eventVars c) p.1 = .ok A → ∀ x ∈ A, ∃ C ∈ comps, x ∈ C := by
  have hcond : ∀ x ∈ eventVars c, x.name ∈ g.nodes := by
    intro x hx
    obtain ⟨p, hp, rfl⟩ := (mem_eventVars c x).1 hx
    exact (hc p hp).1
  have hroots : ∀ r ∈ unionVars (eventVars c) (eventVars o), VarOK g r := by
    intro r hr
    rcases (mem_unionVars' _ _ r).1 hr with h | h
    · obtain ⟨p, hp, rfl⟩ := (mem_eventVars c r).1 h; exact hc p hp
    · obtain ⟨p, hp, rfl⟩ := (mem_eventVars o r).1 h; exact ho p hp
  obtain ⟨comps, hcomps, hnodes⟩ := ancestralComponents_ok g hg _ _ hcond hroots
  refine ⟨comps, hcomps, hnodes, ?_⟩
  intro p hp A hA x hx
  unfold ancestralComponents at hcomps
  simp only [bind, Except.bind] at hcomps
  cases hsets : (unionVars (eventVars c) (eventVars o)).mapM (ancestralSetAfter g (eventVars c)) with
  | error e => rw [hsets] at hcomps; cases hcomps
  | ok sets =>
    rw [hsets] at hcomps
    simp only [pure, Except.pure, Except.ok.injEq] at hcomps
    subst hcomps
    have hroot : p.1 ∈ unionVars (eventVars c) (eventVars o) :=
      (mem_unionVars' _ _ _).2 (Or.inr ((mem_eventVars o _).2 ⟨p, hp, rfl⟩))
    have hAs : A ∈ sets := (mapM_ok_mem _ _ _ hsets A).2 ⟨p.1, hroot, hA⟩
    exact (ancestral_components_spec g sets).2.1 A hAs x hx

/-- the lookup keys of Algorithm 3 have the names and values of the outcomes -/
def LookupOf (o lk : Event) : Prop := List.Forall₂ (fun p p' => p'.1.name = p.1.name ∧ p'.2 = p.2) o lk

theorem LookupOf.refl (o : Event) : LookupOf o o := by
  unfold LookupOf
  induction o with
  | nil => exact .nil
  | cons a l ih => exact .cons ⟨rfl, rfl⟩ ih

theorem LookupOf.of_out {o lk : Event} (h : LookupOf o lk) (p : Var × Ctf.Val) (hp : p ∈ o) :
    ∃ p' ∈ lk, p'.1.name = p.1.name ∧ p'.2 = p.2 := by
  unfold LookupOf at h
  induction h with
  | nil => cases hp
  | cons hab _ ih =>
    rcases List.mem_cons.1 hp with rfl | hp
    · exact ⟨_, List.mem_cons_self, hab⟩
    · obtain ⟨p', hp', h'⟩ := ih hp
      exact ⟨p', List.mem_cons_of_mem _ hp', h'⟩

theorem LookupOf.of_lk {o lk : Event} (h : LookupOf o lk) (p' : Var × Ctf.Val) (hp' : p' ∈ lk) :
    ∃ p ∈ o, p'.1.name = p.1.name ∧ p'.2 = p.2 := by
  unfold LookupOf at h
  induction h with
  | nil => cases hp'
  | cons hab _ ih =>
    rcases List.mem_cons.1 hp' with rfl | hp'
    · exact ⟨_, List.mem_cons_self, hab⟩
    · obtain ⟨p, hp, h'⟩ := ih hp'
      exact ⟨p, List.mem_cons_of_mem _ hp, h'⟩

/-- **the lookup keys are computed without an error, and each is a member of the ancestral set of its outcome**
(`Ctf.ancestralSetRoot_mem`) -/
theorem lookupOutcomes_ok (g : MG Name) (hg : g.WF) (o c : Event) (hc : ∀ p ∈ c, p.1.name ∈ g.nodes) :
    ∀ (l : Event), (∀ p ∈ l, p.1.name ∈ g.nodes ∧ p.1.star = none ∧ (p.1.isCf = true ∨ p.1.isIv = false)) →
    ∃ lk, l.mapM (fun p => do pure (← ancestralSetRoot g (eventVars c) p.1, p.2)) = .ok lk ∧ LookupOf l lk ∧
      ∀ p' ∈ lk, ∃ p ∈ l, ∃ A, ancestralSetAfter g (eventVars c) p.1 = .ok A ∧ p'.1 ∈ A := by
  have hcond : ∀ x ∈ eventVars c, x.name ∈ g.nodes := by
    intro x hx
    obtain ⟨p, hp, rfl⟩ := (mem_eventVars c x).1 hx
    exact hc p hp
  intro l
  induction l with
  | nil => intro _; exact ⟨[], rfl, .nil, fun p' hp' => by cases hp'⟩
  | cons a l ih =>
    intro hl
    obtain ⟨lk, hlk, hrel, hmem⟩ := ih (fun p hp => hl p (List.mem_cons_of_mem _ hp))
    obtain ⟨hn, hs, hk⟩ := hl a List.mem_cons_self
    obtain ⟨s, A, hsr, hA, hsA, hsn⟩ := ancestralSetRoot_mem g hg (eventVars c) hcond a.1 hn hs hk
    refine ⟨(s, a.2) :: lk, ?_, .cons ⟨hsn, rfl⟩ hrel, ?_⟩
    · have hlk' := hlk
      simp only [bind, Except.bind, pure, Except.pure] at hlk'
      simp only [List.mapM_cons, bind, Except.bind, hsr, pure, Except.pure, hlk']
    · intro p' hp'
      rcases List.mem_cons.1 hp' with rfl | hp'
      · exact ⟨a, List.mem_cons_self, A, hA, hsA⟩
      · obtain ⟨p, hp, A', hA', hpA'⟩ := hmem p' hp'
        exact ⟨p, List.mem_cons_of_mem _ hp, A', hA', hpA'⟩

/-- **lines 1-2 never raise** on a well-formed graph for query variables named after nodes, and — after `fix:` f335599 —
**every outcome is found**: its lookup key is a variable of `D*` -/
theorem line2C_ok (g : MG Name) (hg : g.WF) (o c : Event)
    (ho : ∀ p ∈ o, VarOK g p.1) (hc : ∀ p ∈ c, VarOK g p.1) (hos : ∀ p ∈ o, p.1.star = none) :
    ∃ lk D dstar dNames, lookupOutcomes g o c = .ok lk ∧ LookupOf o lk ∧ (∀ p ∈ lk, p.1 ∈ D) ∧
      dstarVars g o c = .ok D ∧ line2C g o c = .ok (dstar, dNames) ∧
      (∀ w ∈ D, w.name ∈ g.nodes) ∧ DstarFacts g lk D dstar dNames := by
  obtain ⟨comps, hcomps, hnodes, hcover⟩ := condComps_ok g hg o c ho hc
  obtain ⟨lk, hlk, hrel, hmem⟩ := lookupOutcomes_ok g hg o c (fun p hp => (hc p hp).1) o (fun p hp => by
    refine ⟨(ho p hp).1, hos p hp, ?_⟩
    rcases (ho p hp).2 with h | ⟨h, _⟩
    · exact Or.inl h
    · exact Or.inr h)
  have hlk' : lookupOutcomes g o c = .ok lk := hlk
  obtain ⟨dstar, h2, hDn, hfacts⟩ := line2COf_ok g comps hnodes lk
  refine ⟨lk, _, dstar, _, hlk', hrel, ?_, ?_, ?_, hDn, hfacts⟩
  · intro p' hp'
    obtain ⟨p, hp, A, hA, hpA⟩ := hmem p' hp'
    obtain ⟨C, hC, hpC⟩ := hcover p hp A hA p'.1 hpA
    exact (mem_deriveVars comps _ _).2 ⟨C, hC, hpC, p'.1, hpC, (mem_eventVars lk _).2 ⟨p', hp', rfl⟩⟩
  · rw [dstarVars_eq, hcomps, hlk']; rfl
  · rw [line2C_eq, hcomps, hlk']; exact h2

/-- lines 1-2 with the raw lookup (`line2CRaw`) never raise either -/
theorem line2CRaw_ok (g : MG Name) (hg : g.WF) (o c : Event)
    (ho : ∀ p ∈ o, VarOK g p.1) (hc : ∀ p ∈ c, VarOK g p.1) :
    ∃ D dstar dNames, dstarVarsRaw g o c = .ok D ∧ line2CRaw g o c = .ok (dstar, dNames) ∧
      (∀ w ∈ D, w.name ∈ g.nodes) ∧ DstarFacts g o D dstar dNames := by
  obtain ⟨comps, hcomps, hnodes, _⟩ := condComps_ok g hg o c ho hc
  obtain ⟨dstar, h2, hDn, hfacts⟩ := line2COf_ok g comps hnodes o
  refine ⟨_, dstar, _, ?_, ?_, hDn, hfacts⟩
  · unfold dstarVarsRaw; rw [hcomps]; rfl
  · unfold line2CRaw; rw [hcomps]; exact h2

/-! ### what `D*` looks like -/

section facts
variable {g : MG Name} {o : Event} {D : List Var} {dstar : Event} {dNames : List Name}

/-- the entries of `D*` are ctf-factor-form variables: named after a node, no value mark, not an `Intervention`,
duplicate-free subscripts, every subscript a parent -/
theorem DstarFacts.var (h : DstarFacts g o D dstar dNames) (hD : ∀ w ∈ D, w.name ∈ g.nodes) (q : Var × Ctf.Val)
    (hq : q ∈ dstar) :
    q.1.name ∈ g.nodes ∧ q.1.star = none ∧ q.1.isIv = false ∧ q.1.ivs.Nodup ∧
      ∀ i ∈ q.1.ivs, g.DiEdge i.name q.1.name := by
  obtain ⟨p, hp, hc, _⟩ := h.origin q hq
  obtain ⟨hn, hs, hi, _, hivs⟩ := convertOne_spec g p.1 q.1 hc
  refine ⟨by rw [hn]; exact hD p.1 ((mem_deriveEvent o D p).1 hp).1, hs, hi, ?_, ?_⟩
  · unfold convertOne at hc
    simp only [bind, Except.bind] at hc
    cases hpd : predecessors g p.1.name with
    | error e => rw [hpd] at hc; cases hc
    | ok cand =>
      rw [hpd] at hc
      simp only [pure, Except.pure, Except.ok.injEq] at hc
      split at hc
      · rw [← hc]; exact List.nodup_nil
      · rw [← hc]
        show (convertIvs cand p.1).Nodup
        unfold convertIvs
        exact (perm_sortBy_local _ _).nodup_iff.2 (nodup_dedup' _)
  · intro i hi'
    rw [hn]
    exact ((hivs i).1 hi').1

/-- a value in `D*` is the value the query gives to an outcome with that graph vertex -/
theorem DstarFacts.value (h : DstarFacts g o D dstar dNames) (q : Var × Ctf.Val) (hq : q ∈ dstar) (i : Iv)
    (hv : q.2 = some i) : ∃ p ∈ o, p.1.name = q.1.name ∧ p.2 = some i ∧ p.1 ∈ D := by
  obtain ⟨p, hp, hc, hqv⟩ := h.origin q hq
  obtain ⟨hn, _⟩ := convertOne_spec g p.1 q.1 hc
  obtain ⟨hpD, hpo | ⟨_, hnone⟩⟩ := (mem_deriveEvent o D p).1 hp
  · exact ⟨(p.1, p.2), hpo, hn.symm, by rw [← hqv, hv], hpD⟩
  · rw [hqv, hnone] at hv; cases hv

theorem DstarFacts.mem_names (h : DstarFacts g o D dstar dNames) (n : Name) :
    n ∈ dNames ↔ ∃ q ∈ dstar, q.1.name = n := by
  rw [h.names, mem_dedup', List.mem_map]
  constructor
  · rintro ⟨v, hv, rfl⟩
    -- `v` has at least one entry in the derived event
    have : ∃ p ∈ deriveEvent o D, p.1 = v := by
      by_cases hvo : ∃ p ∈ o, p.1 = v
      · obtain ⟨p, hp, rfl⟩ := hvo
        exact ⟨(p.1, p.2), (mem_deriveEvent o D _).2 ⟨hv, Or.inl hp⟩, rfl⟩
      · exact ⟨(v, none), (mem_deriveEvent o D _).2 ⟨hv, Or.inr ⟨fun p hp hpv => hvo ⟨p, hp, hpv⟩, rfl⟩⟩, rfl⟩
    obtain ⟨p, hp, rfl⟩ := this
    obtain ⟨q, hq, hc, _⟩ := h.cover p hp
    exact ⟨q, hq, (convertOne_spec g p.1 q.1 hc).1⟩
  · rintro ⟨q, hq, rfl⟩
    obtain ⟨p, hp, hc, _⟩ := h.origin q hq
    exact ⟨p.1, ((mem_deriveEvent o D p).1 hp).1, ((convertOne_spec g p.1 q.1 hc).1).symm⟩

/-- an outcome that is found in the components is in `D*` with its value -/
theorem DstarFacts.found (h : DstarFacts g o D dstar dNames) (p : Var × Ctf.Val) (hp : p ∈ o) (hpD : p.1 ∈ D) :
    ∃ q ∈ dstar, q.1.name = p.1.name ∧ q.2 = p.2 := by
  obtain ⟨q, hq, hc, hv⟩ := h.cover (p.1, p.2) ((mem_deriveEvent o D _).2 ⟨hpD, Or.inl hp⟩)
  exact ⟨q, hq, (convertOne_spec g p.1 q.1 hc).1, hv⟩

/-- in a one-world `D*` whose outcomes all carry a value, two entries with the same graph vertex both have a value or
both have none -/
theorem DstarFacts.same_name (h : DstarFacts g o D dstar dNames) (hnd : (D.map (·.name)).Nodup)
    (hstrict : ∀ p ∈ o, p.2.isSome = true) (q q' : Var × Ctf.Val) (hq : q ∈ dstar) (hq' : q' ∈ dstar)
    (hn : q.1.name = q'.1.name) : q.2.isSome = q'.2.isSome := by
  obtain ⟨p, hp, hc, hv⟩ := h.origin q hq
  obtain ⟨p', hp', hc', hv'⟩ := h.origin q' hq'
  have hpn : p.1.name = p'.1.name := by
    rw [← (convertOne_spec g p.1 q.1 hc).1, ← (convertOne_spec g p'.1 q'.1 hc').1]; exact hn
  obtain ⟨hpD, hpo⟩ := (mem_deriveEvent o D p).1 hp
  obtain ⟨hpD', hpo'⟩ := (mem_deriveEvent o D p').1 hp'
  have hsame : p.1 = p'.1 := by
    have := List.inj_on_of_nodup_map hnd hpD hpD' hpn
    exact this
  rw [hv, hv']
  rcases hpo with h1 | ⟨hno, h1⟩ <;> rcases hpo' with h2 | ⟨hno', h2⟩
  · have a := hstrict _ h1; have b := hstrict _ h2; simp only at a b; rw [a, b]
  · exact absurd hsame (fun e => hno' _ h1 e)
  · exact absurd hsame.symm (fun e => hno _ h2 e)
  · rw [h1, h2]

end facts

end Y0.CtfTr
