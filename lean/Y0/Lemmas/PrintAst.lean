/-
  Y0.Lemmas.PrintAst — the syntax tree every printed form must have (`astOf`: the operator tree of the OBJECT),
  and the proof that the model of Python's parser reads exactly that tree off the printed tokens, printer by
  printer: interventions, variables, distributions, probabilities, expressions.
-/
import Y0.Lemmas.PrintParse

namespace Y0
namespace Print
open PyParse

/-! ### the operator tree of an object -/

def astSign : Option Bool → Ast → Ast
  | none, a => a
  | some true, a => .un .pos a
  | some false, a => .un .neg a

def astIv (i : Iv) : Ast := .un (if i.star then .pos else .neg) (.name i.name)

def astIvs (base : Ast) : List Iv → Ast
  | [] => base
  | [i] => .bin .matmul base (astIv i)
  | is => .bin .matmul base (.tuple (is.map astIv))

def astVar (v : Var) : Ast := astIvs (astSign v.star (.name v.name)) (normIvs v.ivs)

/-- the arguments of `P(…)`: the last child and the first parent are joined by `|` -/
def astDistArgs : List Var → List Var → List Ast
  | [], _ => []
  | [x], [] => [astVar x]
  | [x], q :: ps => .bin .bor (astVar x) (astVar q) :: ps.map astVar
  | x :: y :: cs, p => astVar x :: astDistArgs (y :: cs) p

def astL2 (i : Iv) : Ast := if i.star then .un .pos (.name i.name) else .name i.name

/-- the population inside `PP[…]`: the constant `TARGET_DOMAIN` for the target domain, the variable otherwise -/
def astPop (v : Var) : Ast := if v = targetDomain then .kw .TargetDomain else astVar v

def astProbHead : Option Var → Ast
  | none => .kw .P
  | some pop => .sub (.kw .PP) (astPop pop)

def astProb (pop : Option Var) (c p : List Var) : Ast :=
  match level2 c p with
  | none => .call (astProbHead pop) (astDistArgs c p)
  | some is => .call (.sub (astProbHead pop) (tupleOf (is.map astL2))) (astDistArgs (c.map strip) (p.map strip))

/-- `a₁ * a₂ * … * aₖ` read left-associatively -/
def mulChain : List Ast → Ast
  | [] => .tuple []
  | a :: as => as.foldl (fun acc x => .bin .mul acc x) a

mutual
/-- the operator tree of the object `e` in Python syntax -/
def astOf : Expr → Ast
  | .prob pop c p => astProb pop c p
  | .prod fs => mulChain (astOfs fs)
  | .sum e rs => .call (.sub (.kw .Sum) (tupleOf ((byName rs).map astVar))) [astOf e]
  | .frac n d => .bin .div (astOf n) (astOf d)
  | .one => .call (.kw .One) []
  | .zero => .call (.kw .Zero) []
  | .q dom cod => .call (.sub (.kw .Q) (tupleOf ((byName cod).map astVar))) ((byName dom).map astVar)
def astOfs : List Expr → List Ast
  | [] => []
  | e :: es => astOf e :: astOfs es
end

theorem astOfs_eq_map (es : List Expr) : astOfs es = es.map astOf := by
  induction es with
  | nil => rfl
  | cons e es ih => simp [astOfs, ih]

/-! ### induction over expressions -/

theorem Expr.ind {P : Expr → Prop}
    (hprob : ∀ pop c p, P (.prob pop c p))
    (hprod : ∀ fs, (∀ f ∈ fs, P f) → P (.prod fs))
    (hsum : ∀ e rs, P e → P (.sum e rs))
    (hfrac : ∀ n d, P n → P d → P (.frac n d))
    (hone : P .one) (hzero : P .zero)
    (hq : ∀ d c, P (.q d c)) : ∀ e, P e := by
  intro e
  exact Expr.rec (motive_1 := P) (motive_2 := fun fs => ∀ f ∈ fs, P f)
    hprob (fun fs ih => hprod fs ih) (fun e rs ih => hsum e rs ih) (fun n d ihn ihd => hfrac n d ihn ihd)
    hone hzero hq
    (by intro f hf; cases hf)
    (fun hd tl ih1 ih2 => by
      intro f hf
      cases hf with
      | head => exact ih1
      | tail _ h => exact ih2 f h)
    e

theorem wfFactors_iff (fs : List Expr) : wfFactors fs = true ↔ ∀ f ∈ fs, wf f = true ∧ isProd f = false := by
  induction fs with
  | nil => simp [wfFactors]
  | cons f fs ih => simp [wfFactors, ih, Bool.and_assoc, and_assoc]

/-! ### comma lists of independently parsed items -/

theorem listParses_sepBy (items : List (List Tok × Ast)) (hne : items ≠ [])
    (h : ∀ it ∈ items, ParsesAt 0 it.1 it.2) :
    ListParses (sepBy .comma (items.map (·.1))) (items.map (·.2)) := by
  induction items with
  | nil => exact absurd rfl hne
  | cons it its ih =>
    cases its with
    | nil => simpa [sepBy] using ListParses.single (h it (by simp))
    | cons it' its' =>
      have := ListParses.cons (h it (by simp)) (ih (by simp) (fun x hx => h x (by simp [hx])))
      simpa [sepBy] using this

theorem listParses_map {α} (f : α → List Tok) (g : α → Ast) (xs : List α) (hne : xs ≠ [])
    (h : ∀ x ∈ xs, ParsesAt 0 (f x) (g x)) :
    ListParses (sepBy .comma (xs.map f)) (xs.map g) := by
  have := listParses_sepBy (xs.map fun x => (f x, g x)) (by simpa using hne)
    (by intro it hit; simp at hit; obtain ⟨x, hx, rfl⟩ := hit; exact h x hx)
  simpa [List.map_map, Function.comp_def] using this

/-! ### interventions and variables -/

theorem unary_iv (i : Iv) : UnaryParses (iv i) (astIv i) := by
  have h := UnaryParses.name i.name [] (by simp)
  simp only [postToks, postAst] at h
  unfold iv astIv
  cases i.star
  · simpa using h.neg
  · simpa using h.pos

theorem unary_signed (s : Option Bool) (x : Name) : UnaryParses (sign s ++ [.name x]) (astSign s (.name x)) := by
  have h := UnaryParses.name x [] (by simp)
  simp only [postToks, postAst] at h
  cases s with
  | none => simpa [sign, astSign] using h
  | some b =>
    cases b
    · simpa [sign, astSign] using h.neg
    · simpa [sign, astSign] using h.pos

theorem var_eq (v : Var) : var v = (sign v.star ++ [.name v.name]) ++ ivsToks (normIvs v.ivs) := by
  simp [var]

theorem parses_ivs {first : List Tok} {base : Ast} (hbase : ParsesAt 4 first base) :
    ∀ is : List Iv, ParsesAt 3 (first ++ ivsToks is) (astIvs base is)
  | [] => by simpa [ivsToks, astIvs] using hbase.lift (by omega)
  | [i] => by
    have := ParsesAt.chain (lvl := 3) (by omega) hbase [⟨.at, .matmul, iv i, astIv i⟩]
      (by intro it hit; simp at hit; subst hit; exact ⟨rfl, ParsesAt.of_unary (unary_iv i)⟩)
    simpa [chainToks, chainAst, ivsToks, astIvs] using this
  | i :: j :: is => by
    have hl : ListParses (sepBy .comma ((i :: j :: is).map iv)) ((i :: j :: is).map astIv) :=
      listParses_map iv astIv _ (by simp) (fun x _ => (unary_iv x).at 0 (by omega))
    have hp := UnaryParses.paren hl
    have := ParsesAt.chain (lvl := 3) (by omega) hbase
      [⟨.at, .matmul, .lpar :: sepBy .comma ((i :: j :: is).map iv) ++ [.rpar], tupleOf ((i :: j :: is).map astIv)⟩]
      (by intro it hit; simp at hit; subst hit; exact ⟨rfl, ParsesAt.of_unary hp⟩)
    simpa [chainToks, chainAst, tupleOf, ivsToks, astIvs] using this

/-- a printed variable is a complete operand of the `@` level -/
theorem parses_var (v : Var) : ParsesAt 3 (var v) (astVar v) := by
  rw [var_eq]
  exact parses_ivs (ParsesAt.of_unary (unary_signed _ _)) _

/-- a printed population is a complete operand of the `@` level -/
theorem parses_pop (v : Var) : ParsesAt 3 (pop v) (astPop v) := by
  unfold pop astPop
  split
  · have := UnaryParses.kw .TargetDomain [] (by simp)
    exact (by simpa [postToks, postAst] using this : UnaryParses [.kw .TargetDomain] (.kw .TargetDomain)).at 3 (by omega)
  · exact parses_var v

theorem var_head (v : Var) : ∃ t ts, var v = t :: ts ∧ t ≠ .rpar := by
  unfold var
  cases v.star with
  | none => exact ⟨_, _, rfl, by simp⟩
  | some b => cases b <;> exact ⟨_, _, rfl, by simp⟩

/-! ### distributions -/

theorem dist_cons₂ (x y : Var) (cs p : List Var) : dist (x :: y :: cs) p = var x ++ .comma :: dist (y :: cs) p := by
  unfold dist vars
  by_cases hp : p.isEmpty <;> simp [hp, sepBy]

theorem listParses_vars (vs : List Var) (hne : vs ≠ []) : ListParses (vars vs) (vs.map astVar) :=
  listParses_map var astVar vs hne (fun v _ => (parses_var v).lift_to (by omega) (by omega))

theorem listParses_dist : ∀ (c p : List Var), c ≠ [] → ListParses (dist c p) (astDistArgs c p)
  | [], _, h => absurd rfl h
  | [x], [], _ => by
    simpa [dist, vars, sepBy, astDistArgs] using ListParses.single ((parses_var x).lift_to (by omega) (by omega))
  | [x], q :: ps, _ => by
    have hx : ParsesAt 1 (var x) (astVar x) := (parses_var x).lift_to (by omega) (by omega)
    have hq : ParsesAt 1 (var q) (astVar q) := (parses_var q).lift_to (by omega) (by omega)
    have hbar := ParsesAt.chain (lvl := 0) (by omega) hx [⟨.bar, .bor, var q, astVar q⟩]
      (by intro it hit; simp at hit; subst hit; exact ⟨rfl, hq⟩)
    simp only [chainToks, chainAst, List.append_nil] at hbar
    cases ps with
    | nil =>
      simpa [dist, vars, sepBy, astDistArgs] using ListParses.single hbar
    | cons r rs =>
      have := ListParses.cons hbar (listParses_vars (r :: rs) (by simp))
      simpa [dist, vars, sepBy, astDistArgs] using this
  | x :: y :: cs, p, _ => by
    rw [dist_cons₂]
    have := ListParses.cons ((parses_var x).lift_to (Nat.zero_le _) (by omega)) (listParses_dist (y :: cs) p (by simp))
    simpa [astDistArgs] using this

theorem dist_head (c p : List Var) (hne : c ≠ []) : ∃ t ts, dist c p = t :: ts ∧ t ≠ .rpar := by
  cases c with
  | nil => exact absurd rfl hne
  | cons x cs =>
    obtain ⟨t, ts, hv, ht⟩ := var_head x
    have : ∃ more, dist (x :: cs) p = var x ++ more := by
      cases cs with
      | nil => unfold dist vars; by_cases hp : p.isEmpty <;> simp [hp, sepBy]
      | cons y cs' => exact ⟨_, dist_cons₂ x y cs' p⟩
    obtain ⟨more, hm⟩ := this
    exact ⟨t, ts ++ more, by rw [hm, hv]; rfl, ht⟩

/-! ### probabilities -/

theorem parses_l2 (i : Iv) : ParsesAt 0 (if i.star then [.plus, .name i.name] else [.name i.name]) (astL2 i) := by
  have h := UnaryParses.name i.name [] (by simp)
  simp only [postToks, postAst] at h
  unfold astL2
  cases i.star
  · simpa using h.at 0 (by omega)
  · simpa using h.pos.at 0 (by omega)

theorem level2_ne_nil {c p : List Var} {is : List Iv} (h : level2 c p = some is) : is ≠ [] := by
  unfold level2 at h
  split at h
  · rename_i s _
    by_cases hs : s.isEmpty
    · simp [hs] at h
    · simp [hs] at h
      subst h
      intro h0
      simp [h0] at hs
  · cases h

/-- `P(…)`, `P[…](…)`, `PP[pop](…)`, `PP[pop][…](…)` are `factor`s with the tree `astProb` -/
theorem unary_prob (pop : Option Var) (c p : List Var) (hc : c ≠ []) : UnaryParses (prob pop c p) (astProb pop c p) := by
  -- the optional population subscript
  let popItems : List PostItem := match pop with
    | none => []
    | some v => [.sub (Print.pop v) [astPop v]]
  have hpop : ∀ it ∈ popItems, it.Ok := by
    intro it hit
    cases pop with
    | none => simp [popItems] at hit
    | some v =>
      simp [popItems] at hit
      subst hit
      exact ListParses.single ((parses_pop v).lift_to (by omega) (by omega))
  have hhead : ∀ more : List Tok, probHead pop ++ more = (match pop with | none => Tok.kw .P | some _ => Tok.kw .PP) :: (postToks popItems ++ more) := by
    intro more
    cases pop <;> simp [probHead, popItems, postToks, PostItem.toks]
  have hheadAst : ∀ its, postAst (match pop with | none => Ast.kw .P | some _ => Ast.kw .PP) (popItems ++ its) = postAst (astProbHead pop) its := by
    intro its
    cases pop <;> simp [popItems, postAst, PostItem.apply, astProbHead, tupleOf]
  unfold prob astProb
  match hl : level2 c p with
  | none =>
    simp only []
    have hcall : (PostItem.call (dist c p) (astDistArgs c p)).Ok := ⟨listParses_dist c p hc, dist_head c p hc⟩
    have hall : ∀ it ∈ popItems ++ [PostItem.call (dist c p) (astDistArgs c p)], it.Ok := by
      intro it hit
      rcases List.mem_append.mp hit with h | h
      · exact hpop it h
      · simp at h; subst h; exact hcall
    cases pop with
    | none =>
      have := UnaryParses.kw .P _ hall
      simpa [probHead, popItems, postToks, PostItem.toks, postAst, PostItem.apply, astProbHead] using this
    | some v =>
      have := UnaryParses.kw .PP _ hall
      simpa [probHead, popItems, postToks, PostItem.toks, postAst, PostItem.apply, astProbHead, tupleOf] using this
  | some is =>
    simp only []
    have hne := level2_ne_nil hl
    have hsub : (PostItem.sub (l2ivs is) (is.map astL2)).Ok :=
      listParses_map (fun i : Iv => if i.star then [.plus, .name i.name] else [.name i.name]) astL2 is hne
        (fun i _ => parses_l2 i)
    have hc' : c.map strip ≠ [] := by simpa using hc
    have hcall : (PostItem.call (dist (c.map strip) (p.map strip)) (astDistArgs (c.map strip) (p.map strip))).Ok :=
      ⟨listParses_dist _ _ hc', dist_head _ _ hc'⟩
    have hall : ∀ it ∈ popItems ++ [PostItem.sub (l2ivs is) (is.map astL2),
        PostItem.call (dist (c.map strip) (p.map strip)) (astDistArgs (c.map strip) (p.map strip))], it.Ok := by
      intro it hit
      rcases List.mem_append.mp hit with h | h
      · exact hpop it h
      · simp at h
        rcases h with h | h
        · subst h; exact hsub
        · subst h; exact hcall
    cases pop with
    | none =>
      have := UnaryParses.kw .P _ hall
      simpa [probHead, popItems, postToks, PostItem.toks, postAst, PostItem.apply, astProbHead] using this
    | some v =>
      have := UnaryParses.kw .PP _ hall
      simpa [probHead, popItems, postToks, PostItem.toks, postAst, PostItem.apply, astProbHead, tupleOf] using this

end Print
end Y0
