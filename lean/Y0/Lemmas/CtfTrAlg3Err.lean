/-
  Y0.Lemmas.CtfTrAlg3Err — property C09, clause "never another error" for Algorithm 3 (`CtfTr.ctfTR`): the class hypothesis
  `DstarOneWorld` of `ctfTR_total_of_parts` (Y0/Lemmas/CtfTrAlg3Total.lean) is NOT needed.

  `DstarOneWorld` was used for the second final check only: two entries of the simplified event on one graph vertex, one
  with a value and one without, make the dict of the final checks (keyed by the vertex) reject a `None`.  Here it is shown
  that an ANSWER of Algorithm 2 on `D*` never has two entries on one vertex:

    * every variable of `D*` is in ctf-factor form `W_{pa(W)}` with its subscripts listed in `Iv.lt` order
      (`FFVar`, `convertOne_ffvar`), minimisation keeps that (`minimize_ffvar`), so do the variables of the simplified
      event (`simplify_ffvar`);
    * two DIFFERENT such variables on one vertex disagree on the value of some parent, they land in the same ctf-factor
      of line 2 of Algorithm 2 (same vertex, same district), and line 3 answers FAIL
      (`_any_inconsistent_intervention_values`): `line2_same_name`;
    * the SAME variable occurs once in SIMPLIFY's output (`simplify_output_fun`).

  `ctfTR_total_of_cover` is the composition without `DstarOneWorld`; the hypothesis `OutcomeNotCondition` is replaced by
  the fact it was used for (`QCovers`: the vertex of an outcome that is also a condition vertex occurs in `Q`), which
  Y0/Lemmas/CtfTrAlg3ErrQ.lean proves for distributions over plain variables.
-/
import Y0.Lemmas.CtfTrAlg3QGood
import Y0.Lemmas.CtfTrFactorize2
import Y0.Lemmas.CtfCond

namespace Y0.CtfTr
open Ctf Relation Y0.MG
open Trso (isTnode tnode targetPop nsort)

/-! ### `sortBy Iv.lt` on a duplicate-free list is strictly sorted -/

theorem err_ivLt_trans (a b c : Iv) (h1 : Iv.lt a b = true) (h2 : Iv.lt b c = true) : Iv.lt a c = true := by
  cases a with
  | mk n s =>
    cases b with
    | mk m t =>
      cases c with
      | mk k u =>
        simp only [Iv.lt, Bool.or_eq_true, decide_eq_true_eq, Bool.and_eq_true, beq_iff_eq, Bool.not_eq_eq_eq_not,
          Bool.not_true] at h1 h2 ⊢
        rcases h1 with h1 | ⟨⟨rfl, hs⟩, ht⟩
        · rcases h2 with h2 | ⟨⟨rfl, _⟩, _⟩
          · exact Or.inl (Nat.lt_trans h1 h2)
          · exact Or.inl h1
        · rcases h2 with h2 | ⟨⟨rfl, ht'⟩, _⟩
          · exact Or.inl h2
          · rw [ht] at ht'; cases ht'

theorem err_ivLt_total (a b : Iv) (hne : a ≠ b) : Iv.lt a b = true ∨ Iv.lt b a = true := by
  cases a with
  | mk n s =>
    cases b with
    | mk m t =>
      simp only [Iv.lt, Bool.or_eq_true, decide_eq_true_eq, Bool.and_eq_true, beq_iff_eq, Bool.not_eq_eq_eq_not,
        Bool.not_true]
      rcases Nat.lt_trichotomy n m with h | h | h
      · exact Or.inl (Or.inl h)
      · subst h
        cases s <;> cases t
        · exact absurd rfl hne
        · exact Or.inl (Or.inr ⟨⟨rfl, rfl⟩, rfl⟩)
        · exact Or.inr (Or.inr ⟨⟨rfl, rfl⟩, rfl⟩)
        · exact absurd rfl hne
      · exact Or.inr (Or.inl h)

theorem err_insertBy_sorted (x : Iv) : ∀ (l : List Iv), l.Pairwise (fun a b => Iv.lt a b = true) → x ∉ l →
    (insertBy Iv.lt x l).Pairwise (fun a b => Iv.lt a b = true)
  | [], _, _ => by simp [insertBy]
  | y :: ys, hs, hx => by
    rw [List.pairwise_cons] at hs
    have hxy : x ≠ y := fun e => hx (by rw [e]; exact List.mem_cons_self)
    have hxys : x ∉ ys := fun e => hx (List.mem_cons_of_mem _ e)
    unfold insertBy
    split
    · rename_i hyx
      rw [List.pairwise_cons]
      refine ⟨?_, err_insertBy_sorted x ys hs.2 hxys⟩
      intro z hz
      rcases (mem_insertBy Iv.lt x z ys).1 hz with rfl | hz
      · exact hyx
      · exact hs.1 z hz
    · rename_i hyx
      have hlt : Iv.lt x y = true := by
        rcases err_ivLt_total x y hxy with h | h
        · exact h
        · exact absurd h hyx
      rw [List.pairwise_cons]
      refine ⟨?_, List.pairwise_cons.2 hs⟩
      intro z hz
      rcases List.mem_cons.1 hz with rfl | hz
      · exact hlt
      · exact err_ivLt_trans x y z hlt (hs.1 z hz)

theorem err_sortBy_sorted : ∀ (l : List Iv), l.Nodup → (sortBy Iv.lt l).Pairwise (fun a b => Iv.lt a b = true)
  | [], _ => by simp [sortBy]
  | x :: xs, hn => by
    rw [List.nodup_cons] at hn
    show (insertBy Iv.lt x (sortBy Iv.lt xs)).Pairwise _
    exact err_insertBy_sorted x _ (err_sortBy_sorted xs hn.2) (fun h => hn.1 ((mem_sortBy Iv.lt x xs).1 h))

/-! ### variables in ctf-factor form, subscripts in canonical order -/

/-- a variable as `convert_to_counterfactual_factor_form` builds it: named after a node, no value mark, subscripts exactly
on the parents of its vertex and listed in `Iv.lt` order (the model of the `frozenset` of interventions) -/
structure FFVar (g : MG Name) (K : Var) : Prop where
  node : K.name ∈ g.nodes
  star : K.star = none
  isIv : K.isIv = false
  sorted : K.ivs.Pairwise (fun a b => Iv.lt a b = true)
  exact : ∀ p, p ∈ subNames K ↔ g.DiEdge p K.name

theorem convertOne_ffvar (g : MG Name) (v w : Var) (h : convertOne g v = .ok w) : FFVar g w := by
  obtain ⟨hn, hs, hi, hex, _⟩ := convertOne_spec g v w h
  refine ⟨by rw [hn]; exact convertOne_ok_node g v w h, hs, hi, ?_, hex⟩
  unfold convertOne at h
  simp only [bind, Except.bind] at h
  cases hpd : predecessors g v.name with
  | error e => rw [hpd] at h; cases h
  | ok cand =>
    rw [hpd] at h
    simp only [pure, Except.pure, Except.ok.injEq] at h
    split at h
    · rw [← h]; exact List.Pairwise.nil
    · rw [← h]
      show (convertIvs cand v).Pairwise _
      unfold convertIvs
      exact err_sortBy_sorted _ (nodup_dedup' _)

/-- minimisation keeps a ctf-factor-form variable in ctf-factor form (every parent is an ancestor) -/
theorem minimize_ffvar (g : MG Name) (W K : Var) (hW : FFVar g W) (hloop : ¬ g.DiEdge W.name W.name)
    (h : minimize g W = .ok K) : FFVar g K := by
  have hwf := minimize_wf g W K h
  by_cases hcf : W.isCf = true
  · obtain ⟨hn, hs, hivs⟩ := minimize_spec g W K hcf h
    refine ⟨by rw [hn]; exact hW.node, by rw [hs]; exact hW.star, hwf.2.2.2.1 hcf, ?_, ?_⟩
    · rcases minimize_eq g W K h with ⟨hcf', _⟩ | ⟨_, A, _, rfl⟩
      · rw [hcf] at hcf'; cases hcf'
      · exact hW.sorted.filter _
    · intro p
      rw [hn, ← hW.exact p]
      unfold subNames
      simp only [List.mem_map]
      constructor
      · rintro ⟨i, hi, rfl⟩; exact ⟨i, ((hivs i).1 hi).1, rfl⟩
      · rintro ⟨i, hi, rfl⟩
        refine ⟨i, (hivs i).2 ⟨hi, ?_⟩, rfl⟩
        have hedge : g.DiEdge i.name W.name := (hW.exact i.name).1 (List.mem_map.2 ⟨i, hi, rfl⟩)
        exact ReflTransGen.single ⟨hedge, fun hmem => hloop ((hW.exact W.name).1 hmem)⟩
  · have : K = W := hwf.2.2.2.2 (by simpa using hcf)
    rw [this]; exact hW

/-- two ctf-factor-form variables on one vertex that agree on the value of every parent are the same variable -/
theorem ffvar_ext (g : MG Name) (K1 K2 : Var) (h1 : FFVar g K1) (h2 : FFVar g K2) (hn : K1.name = K2.name)
    (hagree : ∀ i ∈ K1.ivs, ∀ j ∈ K2.ivs, i.name = j.name → i.star = j.star) : K1 = K2 := by
  have hsub : ∀ (A B : Var), FFVar g A → FFVar g B → A.name = B.name →
      (∀ i ∈ A.ivs, ∀ j ∈ B.ivs, i.name = j.name → i.star = j.star) → ∀ i ∈ A.ivs, i ∈ B.ivs := by
    intro A B hA hB hAB hag i hi
    have hp : g.DiEdge i.name B.name := by
      rw [← hAB]; exact (hA.exact i.name).1 (List.mem_map.2 ⟨i, hi, rfl⟩)
    obtain ⟨j, hj, hjn⟩ := List.mem_map.1 ((hB.exact i.name).2 hp)
    have hst := hag i hi j hj hjn.symm
    have : i = j := by
      cases i; cases j
      simp only at hjn hst
      simp only [Iv.mk.injEq]
      exact ⟨hjn.symm, hst⟩
    rw [this]; exact hj
  have hivs : K1.ivs = K2.ivs := by
    apply sorted_ivs_ext _ _ h1.sorted h2.sorted
    intro i
    exact ⟨hsub K1 K2 h1 h2 hn hagree i,
      hsub K2 K1 h2 h1 hn.symm (fun i hi j hj hij => (hagree j hj i hi hij.symm).symm) i⟩
  have hs1 := h1.star; have hs2 := h2.star; have hi1 := h1.isIv; have hi2 := h2.isIv
  cases K1; cases K2
  simp only at hn hivs hs1 hs2 hi1 hi2
  simp only [Var.mk.injEq]
  exact ⟨hn, by rw [hs1, hs2], by rw [hi1, hi2], hivs⟩

/-! ### SIMPLIFY: every key once -/

theorem err_keysNodup_foldl_add_key (xs : List Ctf.Val) (m : VMap) (k : Var) (h : KeysNodup m) :
    KeysNodup (xs.foldl (fun m x => VMap.add m k x) m) := by
  induction xs generalizing m with
  | nil => exact h
  | cons x xs ih => exact ih _ (keysNodup_add m k x h)

theorem err_keysNodup_update (m : VMap) (k : Var) (xs : List Ctf.Val) (h : KeysNodup m) : KeysNodup (VMap.update m k xs) := by
  unfold VMap.update
  split
  · exact err_keysNodup_foldl_add_key xs m k h
  · rename_i hex
    unfold KeysNodup at *
    rw [List.map_append, List.nodup_append]
    refine ⟨h, by simp, ?_⟩
    intro a ha b hb
    simp only [List.map_cons, List.map_nil, List.mem_singleton] at hb
    subst hb
    obtain ⟨q, hq, rfl⟩ := List.mem_map.1 ha
    intro hqk
    apply hex
    simp only [List.any_eq_true, decide_eq_true_eq]
    exact ⟨q, hq, hqk⟩

theorem err_keysNodup_reducePlain (m r : VMap) (h : KeysNodup r) : KeysNodup (reducePlain m r) := by
  unfold reducePlain
  induction m generalizing r with
  | nil => exact h
  | cons p m ih => exact ih _ (err_keysNodup_update r p.1 p.2 h)

/-- on an event without self-intervened variables SIMPLIFY binds every variable once -/
theorem simplifyCore_fun (me : Event) (h : ∀ p ∈ me, selfIntervened p.1 = false) (e' : Event)
    (hc : simplifyCore me = .ok (some e')) : ∀ k x x', (k, x) ∈ e' → (k, x') ∈ e' → x = x' := by
  obtain ⟨hsplit₁, hsplit₂⟩ := splitReflexive_plain me h
  have hreflkeys : ∀ p ∈ removeRepeated (splitReflexive me).1, p.1.isCf = false := by
    intro p hp
    obtain ⟨q, hq, hk⟩ := removeRepeated_key _ p hp
    rw [← hk]; exact ((hsplit₁ q).1 hq).2
  have hnonkeys : ∀ p ∈ removeRepeated (splitReflexive me).2, p.1.isCf = true := by
    intro p hp
    obtain ⟨q, hq, hk⟩ := removeRepeated_key _ p hp
    rw [← hk]; exact ((hsplit₂ q).1 hq).2
  have hred := reduceReflexive_plain _ hreflkeys
  have hredkeys : ∀ p ∈ dropNone (reducePlain (removeRepeated (splitReflexive me).1) []), p.1.isCf = false := by
    intro p hp
    obtain ⟨p', hp', hk'⟩ := dropNone_key _ p hp
    rw [← hk']
    rcases reducePlain_key _ _ p' hp' with ⟨q, hq, _⟩ | ⟨q, hq, hk⟩
    · cases hq
    · rw [← hk]; exact hreflkeys q hq
  unfold simplifyCore at hc
  simp only [bind, Except.bind, hred] at hc
  cases h1 : anyInconsistent (removeRepeated (splitReflexive me).2) (removeRepeated (splitReflexive me).1) with
  | error e => rw [h1] at hc; cases hc
  | ok b1 =>
    rw [h1] at hc
    cases b1 with
    | true => simp [pure, Except.pure] at hc
    | false =>
      simp only [Bool.false_eq_true, ↓reduceIte] at hc
      cases h2 : anyInconsistent (removeRepeated (splitReflexive me).2)
          (dropNone (reducePlain (removeRepeated (splitReflexive me).1) [])) with
      | error e => rw [h2] at hc; cases hc
      | ok b2 =>
        rw [h2] at hc
        cases b2 with
        | true => simp [pure, Except.pure] at hc
        | false =>
          simp only [Bool.false_eq_true, ↓reduceIte] at hc
          cases ha : popAll (removeRepeated (splitReflexive me).2) with
          | error e => rw [ha] at hc; cases hc
          | ok a =>
            rw [ha] at hc
            cases hb : popAll (dropNone (reducePlain (removeRepeated (splitReflexive me).1) [])) with
            | error e => rw [hb] at hc; cases hc
            | ok b =>
              rw [hb] at hc
              simp only [pure, Except.pure, Except.ok.injEq, Option.some.injEq] at hc
              subst hc
              intro k x x' hkx hkx'
              rw [List.mem_append, popAll_ok _ _ ha, popAll_ok _ _ hb] at hkx hkx'
              rcases hkx with ⟨rest, hp⟩ | ⟨rest, hp⟩ <;> rcases hkx' with ⟨rest', hp'⟩ | ⟨rest', hp'⟩
              · have := assoc_unique _ (removeRepeated_keysNodup _) k _ _ hp hp'
                simp only [List.cons.injEq] at this
                exact this.1
              · have a1 := hnonkeys _ hp
                have a2 := hredkeys _ hp'
                simp only at a1 a2
                rw [a1] at a2; cases a2
              · have a1 := hnonkeys _ hp'
                have a2 := hredkeys _ hp
                simp only at a1 a2
                rw [a1] at a2; cases a2
              · have := assoc_unique _ (by
                  rw [dropNone_keys]
                  exact err_keysNodup_reducePlain _ [] (by simp [KeysNodup])) k _ _ hp hp'
                simp only [List.cons.injEq] at this
                exact this.1

/-- what SIMPLIFY returns for an event without self-intervened variables: every item is the minimisation of an item of
the input with the same value, and every variable is bound once -/
theorem simplify_sub (g : MG Name) (e ev : Event) (hs : simplify g e = .ok (some ev))
    (hrefl : ∀ p ∈ e, selfIntervened p.1 = false) :
    (∀ k x, (k, x) ∈ ev → ∃ v, (v, x) ∈ e ∧ minimize g v = .ok k) ∧
    (∀ k x x', (k, x) ∈ ev → (k, x') ∈ ev → x = x') ∧
    (∀ v i, (v, some i) ∈ e → ∃ k, minimize g v = .ok k ∧ (k, some i) ∈ ev) := by
  unfold simplify at hs
  split at hs
  · simp [bind, Except.bind, throw, throwThe, MonadExceptOf.throw] at hs
  · simp only [bind, Except.bind] at hs
    cases hme : minimizeEvent g e with
    | error err => rw [hme] at hs; cases hs
    | ok me =>
      rw [hme] at hs
      simp only at hs
      have hmem := minimizeEvent_mem g e me hme
      have hrefl' : ∀ p ∈ me, selfIntervened p.1 = false := by
        rintro ⟨k, x⟩ hp
        obtain ⟨v, hv, hm⟩ := (hmem k x).1 hp
        have hwf := minimize_wf g v k hm
        have h0 := hrefl (v, x) hv
        simp only [selfIntervened, List.any_eq_false, beq_iff_eq] at h0 ⊢
        intro i hi
        rw [hwf.1]
        exact h0 i (hwf.2.2.1 i hi)
      refine ⟨?_, simplifyCore_fun me hrefl' ev hs, ?_⟩
      · intro k x hp
        exact (hmem k x).1 (simplifyCore_sub me hrefl' ev hs k x hp)
      · intro v i hv
        obtain ⟨k, hk⟩ : ∃ k, minimize g v = .ok k := by
          unfold minimizeEvent at hme
          obtain ⟨y, hy⟩ := mapM_ok_each _ e me hme (v, some i) hv
          simp only [bind, Except.bind] at hy
          cases hm : minimize g v with
          | error err => rw [hm] at hy; cases hy
          | ok k => exact ⟨k, rfl⟩
        refine ⟨k, hk, ?_⟩
        exact ((simplifyCore_spec me hrefl').2 ev hs k i).2 ((hmem k (some i)).2 ⟨v, hv, hk⟩)

/-! ### line 2 of Algorithm 2: two event variables on one vertex are the same variable, or line 3 answers FAIL -/

/-- **a vertex in two worlds makes Algorithm 2 answer FAIL.**  When line 2 succeeds on an event of minimised
ctf-factor-form variables and no ctf-factor is inconsistent (line 3 does not answer FAIL), two event variables on one
graph vertex are the same variable: both are among the accumulated ancestors, their conversions land in the same
ctf-factor (same vertex), and `_any_inconsistent_intervention_values` finds no parent with two values. -/
theorem line2_same_name (g : MG Name) (hg : g.WF) (ev anc : Event) (factors : List Event)
    (hff : ∀ p ∈ ev, FFVar g p.1) (hmin : ∀ p ∈ ev, minimize g p.1 = .ok p.1)
    (h : line2 g ev = .ok (anc, factors)) (hcons : factors.any factorInconsistent = false) :
    ∀ p ∈ ev, ∀ p' ∈ ev, p.1.name = p'.1.name → p.1 = p'.1 := by
  rw [line2_eq] at h
  cases hD : ev.foldlM (ancStep g) [] with
  | error e => rw [hD] at h; cases h
  | ok D =>
  rw [hD] at h
  simp only [Except.bind] at h
  cases hcv : (withValues ev D).mapM (convStep g) with
  | error e => rw [hcv] at h; cases h
  | ok cv =>
  rw [hcv] at h
  simp only at h
  cases hfac : ctfFactorsValues (g.subgraph (dedup' (D.map (·.name)))) (dedup' cv) with
  | error e => rw [hfac] at h; cases h
  | ok factors' =>
  rw [hfac] at h
  simp only [Except.ok.injEq, Prod.mk.injEq] at h
  obtain ⟨_, hfeq⟩ := h
  subst hfeq
  obtain ⟨_, hgrp⟩ := ctfFactorsValues_unfold _ _ _ hfac
  obtain ⟨hcover, hsame⟩ := groupByDistrict_spec _ _ _ _ hgrp
  have hinD := event_vars_in_ancestors g hg ev D hmin (fun p hp _ => (hff p hp).star) hD
  have hentry : ∀ p ∈ ev, ∃ q ∈ dedup' (dedup' cv), q.1.name = p.1.name ∧ ∀ i, i ∈ q.1.ivs ↔ i ∈ p.1.ivs := by
    intro p hp
    obtain ⟨w, hw, hwK⟩ := withValues_cover ev D p.1 (hinD p hp)
    obtain ⟨q, hq⟩ := mapM_ok_each _ _ _ hcv w hw
    have hqcv : q ∈ cv := (mapM_ok_mem _ _ _ hcv q).2 ⟨w, hw, hq⟩
    obtain ⟨hconv, _⟩ := convStep_ok g w q hq
    rw [hwK] at hconv
    obtain ⟨hn, _, _, _, hivs⟩ := convertOne_spec g p.1 q.1 hconv
    refine ⟨q, mem_dedup'.2 (mem_dedup'.2 hqcv), hn, fun i => ?_⟩
    rw [hivs i]
    constructor
    · rintro ⟨hedge, hi | ⟨_, hno⟩⟩
      · exact hi
      · obtain ⟨j, hj, hjn⟩ := List.mem_map.1 (((hff p hp).exact i.name).2 hedge)
        exact absurd hjn (hno j hj)
    · intro hi
      exact ⟨((hff p hp).exact i.name).1 (List.mem_map.2 ⟨i, hi, rfl⟩), Or.inl hi⟩
  intro p hp p' hp' hn
  obtain ⟨q, hq, hqn, hqi⟩ := hentry p hp
  obtain ⟨q', hq', hqn', hqi'⟩ := hentry p' hp'
  obtain ⟨f, hf, hqf⟩ := (hcover q).2 hq
  have hq'f : q' ∈ f := (hsame f hf q hqf q').2 ⟨hq', by simp only [hqn', hqn, hn]⟩
  apply ffvar_ext g p.1 p'.1 (hff p hp) (hff p' hp') hn
  intro i hi j hj hij
  by_contra hne
  have hbad : factorInconsistent f = true := by
    unfold factorInconsistent inconsistentInterventionValues
    simp only [Bool.or_eq_true, List.any_eq_true, List.mem_flatMap, Bool.and_eq_true, decide_eq_true_eq,
      bne_iff_ne, ne_eq]
    exact Or.inr ⟨i, ⟨q, hqf, (hqi i).2 hi⟩, j, ⟨q', hq'f, (hqi' j).2 hj⟩, hij, hne⟩
  have := List.any_eq_false.1 hcons f hf
  exact this hbad

/-! ### Algorithm 2 on `D*`: an answer binds every graph vertex once -/

/-- `ctfTRu_answer_inv` with the verdict of line 3: no ctf-factor of an answered query is inconsistent -/
theorem ctfTRu_answer_consistent (target : MG Name) (ds : List Domain) (e ev : Event) (x : Expr)
    (h : ctfTRu target ds e = .ok (some (x, some ev))) :
    simplify target e = .ok (some ev) ∧
    ∃ anc factors, line2 target ev = .ok (anc, factors) ∧ factors.any factorInconsistent = false := by
  unfold ctfTRu at h
  split at h
  · cases h
  · have h' := afterValidation_ok' h
    simp only [bind, Except.bind] at h'
    cases hs : simplify target e with
    | error err => rw [hs] at h'; cases h'
    | ok o =>
      rw [hs] at h'
      cases o with
      | none => simp [pure, Except.pure] at h'
      | some ev' =>
        simp only [] at h'
        split at h'
        · cases h'
        · rename_i l2 hl2
          obtain ⟨anc, factors⟩ := l2
          simp only [] at h'
          split at h'
          · simp [pure, Except.pure] at h'
          · rename_i hcons
            split at h'
            · cases h'
            · rename_i t ht
              cases t with
              | none => simp [pure, Except.pure] at h'
              | some qs =>
                simp [pure, Except.pure] at h'
                obtain ⟨_, hev⟩ := h'
                subst hev
                exact ⟨rfl, anc, factors, hl2, by simpa using hcons⟩

/-- **an answer of Algorithm 2 on an event of ctf-factor-form variables binds every graph vertex once**: two entries of
the simplified event on one vertex carry the same value (they are the same entry) -/
theorem ffEvent_answer_fun (target : MG Name) (hwf : target.WF) (hloop : ∀ v, ¬ target.DiEdge v v)
    (ds : List Domain) (dstar : Event) (hff : ∀ r ∈ dstar, FFVar target r.1) (q : Expr) (simplified : Event)
    (hu : ctfTRu target ds dstar = .ok (some (q, some simplified))) :
    ∀ p ∈ simplified, ∀ p' ∈ simplified, p.1.name = p'.1.name → p.2 = p'.2 := by
  obtain ⟨hsimp, anc, factors, hl2, hcons⟩ := ctfTRu_answer_consistent target ds dstar simplified q hu
  have hrefl : ∀ r ∈ dstar, selfIntervened r.1 = false := by
    intro r hr
    cases hsi : selfIntervened r.1 with
    | false => rfl
    | true =>
      exfalso
      unfold selfIntervened at hsi
      obtain ⟨i, hi, hin⟩ := List.any_eq_true.1 hsi
      have : r.1.name ∈ subNames r.1 := List.mem_map.2 ⟨i, hi, by simpa using hin⟩
      exact hloop _ (((hff r hr).exact r.1.name).1 this)
  obtain ⟨hsub, hfun, _⟩ := simplify_sub target dstar simplified hsimp hrefl
  have hffs : ∀ p ∈ simplified, FFVar target p.1 := by
    rintro ⟨k, x⟩ hp
    obtain ⟨v, hv, hm⟩ := hsub k x hp
    exact minimize_ffvar target v k (hff (v, x) hv) (hloop _) hm
  have hmin := simplify_output_minimal target hwf dstar simplified hsimp hrefl (fun r hr => (hff r hr).node)
  intro p hp p' hp' hn
  have hvar := line2_same_name target hwf simplified anc factors hffs hmin hl2 hcons p hp p' hp' hn
  obtain ⟨k, x⟩ := p
  obtain ⟨k', x'⟩ := p'
  simp only at hvar ⊢
  subst hvar
  exact hfun k x x' hp hp'

/-! ### line 4 without the one-world hypothesis -/

theorem iterVars_sub_sumSafe (q : Expr) (R : List Var) (hq : TrDsl.isZero q = false) (v : Var)
    (hv : v ∈ Expr.iterVars q) : v ∈ Expr.iterVars (TrDsl.sumSafe q R) := by
  unfold TrDsl.sumSafe
  simp only [hq, Bool.false_eq_true, ↓reduceIte]
  split
  · exact hv
  · rw [iterVars_sum, List.mem_append]; exact Or.inl hv

/-- **line 4 never raises** (`line4C_ok` with the two class hypotheses replaced by the facts they were used for):
* every graph vertex is bound once in the simplified event (instead of `DstarOneWorld`: second final check),
* the vertex of an outcome that is also the vertex of a condition occurs in `Q` (instead of `OutcomeNotCondition`:
  fifth final check). -/
theorem line4C_ok_of_cover (target : MG Name) (ds : List Domain) (o c : Event) (lk : Event) (D : List Var)
    (dstar : Event) (dNames : List Name) (q : Expr) (simplified : Event)
    (hrel : LookupOf o lk) (hfacts : DstarFacts target lk D dstar dNames)
    (hstrict : ∀ p ∈ o ++ c, p.2.isSome = true)
    (hsim : ∀ p ∈ simplified, ∃ r ∈ dstar, r.1.name = p.1.name ∧ r.2 = p.2)
    (hfun : ∀ p ∈ simplified, ∀ p' ∈ simplified, p.1.name = p'.1.name → p.2 = p'.2)
    (hfound : ∀ p ∈ lk, p.1 ∈ D)
    (hcov : ∀ p ∈ o, p.1.name ∈ eventNames c → Var.plain p.1.name ∈ Expr.iterVars q)
    (hqnz : TrDsl.isZero q = false) (hvocab : VocabOK target ds q) (hpop : PopsCoverNodes target ds) :
    ∃ a, line4C ds o c dNames q simplified = .ok a := by
  -- the lookup keys carry the names and values of the outcomes
  have hvalue : ∀ r ∈ dstar, ∀ i, r.2 = some i → ∃ p ∈ o, p.1.name = r.1.name ∧ p.2 = some i := by
    intro r hr i hi
    obtain ⟨p', hp', hn, hv, _⟩ := hfacts.value r hr i hi
    obtain ⟨p, hp, hpn, hpv⟩ := hrel.of_lk p' hp'
    exact ⟨p, hp, by rw [← hpn, hn], by rw [← hpv, hv]⟩
  have hfoundo : ∀ p ∈ o, ∃ r ∈ dstar, r.1.name = p.1.name ∧ r.2 = p.2 := by
    intro p hp
    obtain ⟨p', hp', hn, hv⟩ := hrel.of_out p hp
    obtain ⟨r, hr, hrn, hrv⟩ := hfacts.found p' hp' (hfound p' hp')
    exact ⟨r, hr, by rw [hrn, hn], by rw [hrv, hv]⟩
  -- the expression
  have hden : TrDsl.isZero (TrDsl.sumSafe q ((diff' dNames (eventNames c)).map Var.plain)) = false :=
    isZero_sumSafe q _ hqnz
  have hexpr : line4Expr q dNames (eventNames (c ++ o)) (eventNames c) =
      .ok (.frac (TrDsl.sumSafe q ((diff' dNames (eventNames (c ++ o))).map Var.plain))
        (TrDsl.sumSafe q ((diff' dNames (eventNames c)).map Var.plain))) := by
    unfold line4Expr TrDsl.mkFrac
    simp only [hden, Bool.false_eq_true, ↓reduceIte]
  generalize hE : Expr.frac (TrDsl.sumSafe q ((diff' dNames (eventNames (c ++ o))).map Var.plain))
        (TrDsl.sumSafe q ((diff' dNames (eventNames c)).map Var.plain)) = expr at hexpr
  -- check 1
  have h1 : ¬ (simplified.any fun p => (lastValue simplified p.1.name).isSome &&
      decide (p.1.name ∉ eventNames (c ++ o))) = true := by
    intro h
    obtain ⟨p, hp, hcond⟩ := List.any_eq_true.1 h
    simp only [Bool.and_eq_true, decide_eq_true_eq] at hcond
    obtain ⟨hsome, hnot⟩ := hcond
    obtain ⟨i, hi⟩ := Option.isSome_iff_exists.1 hsome
    obtain ⟨p', hp', hn', hv'⟩ := lastValue_some simplified _ i hi
    obtain ⟨r, hr, hrn, hrv⟩ := hsim p' hp'
    obtain ⟨p0, hp0, hp0n, _⟩ := hvalue r hr i (by rw [hrv, hv'])
    apply hnot
    exact (mem_eventNames (c ++ o) _).2 ⟨p0, List.mem_append_right _ hp0, by rw [hp0n, hrn, hn']⟩
  -- check 2
  have h2 : ¬ (simplified.any fun p => (lastValue simplified p.1.name).isSome &&
      !mem' p.2 (namesToValues o c p.1.name)) = true := by
    intro h
    obtain ⟨p, hp, hcond⟩ := List.any_eq_true.1 h
    simp only [Bool.and_eq_true, Bool.not_eq_eq_eq_not, Bool.not_true] at hcond
    obtain ⟨hsome, hnot⟩ := hcond
    obtain ⟨i, hi⟩ := Option.isSome_iff_exists.1 hsome
    obtain ⟨p', hp', hn', hv'⟩ := lastValue_some simplified _ i hi
    have hsame := hfun p hp p' hp' hn'.symm
    rw [hv'] at hsame
    obtain ⟨r, hr, hrn, hrv⟩ := hsim p hp
    obtain ⟨p0, hp0, hp0n, hp0v⟩ := hvalue r hr i (by rw [hrv, hsame])
    have : mem' p.2 (namesToValues o c p.1.name) = true := by
      rw [mem'_iff, hsame]
      simp only [namesToValues, mem_dedup', List.mem_map, List.mem_filter, decide_eq_true_eq]
      exact ⟨p0, ⟨List.mem_append_left _ hp0, by rw [hp0n, hrn]⟩, hp0v⟩
    rw [this] at hnot; cases hnot
  -- check 3
  have hrange : ∀ n ∈ dNames, plainIn (Var.plain n) (diff' dNames (eventNames (c ++ o))) = true ∨
      plainIn (Var.plain n) (eventNames (c ++ o)) = true := by
    intro n hn
    by_cases hoc : n ∈ eventNames (c ++ o)
    · exact Or.inr ((plainIn_iff _ _).2 ⟨n, hoc, rfl⟩)
    · exact Or.inl ((plainIn_iff _ _).2 ⟨n, by simp [diff', hn, hoc], rfl⟩)
  have h3 : ¬ (!(Expr.iterVars expr).all (fun v => plainIn v (diff' dNames (eventNames (c ++ o))) ||
      plainIn v (eventNames (c ++ o)) || ds.any fun d => mem' v (Expr.iterVars d.pop))) = true := by
    suffices hall : (Expr.iterVars expr).all (fun v => plainIn v (diff' dNames (eventNames (c ++ o))) ||
        plainIn v (eventNames (c ++ o)) || ds.any fun d => mem' v (Expr.iterVars d.pop)) = true by
      rw [hall]; simp
    apply List.all_eq_true.2
    intro v hv
    have hq : ∀ w ∈ Expr.iterVars q, (plainIn w (diff' dNames (eventNames (c ++ o))) ||
        plainIn w (eventNames (c ++ o)) || ds.any fun d => mem' w (Expr.iterVars d.pop)) = true := by
      intro w hw
      rcases hvocab w hw with ⟨n, hn, rfl⟩ | ⟨d, hd, hwd⟩
      · obtain ⟨d, hd, hnd⟩ := hpop n hn
        simp only [Bool.or_eq_true]
        exact Or.inr (List.any_eq_true.2 ⟨d, hd, (mem'_iff _ _).2 hnd⟩)
      · simp only [Bool.or_eq_true]
        exact Or.inr (List.any_eq_true.2 ⟨d, hd, (mem'_iff _ _).2 hwd⟩)
    have hr : ∀ names : List Name, (∀ n ∈ names, n ∈ dNames) → ∀ w ∈ names.map Var.plain,
        (plainIn w (diff' dNames (eventNames (c ++ o))) || plainIn w (eventNames (c ++ o)) ||
          ds.any fun d => mem' w (Expr.iterVars d.pop)) = true := by
      intro names hsub w hw
      obtain ⟨n, hn, rfl⟩ := List.mem_map.1 hw
      simp only [Bool.or_eq_true]
      rcases hrange n (hsub n hn) with h | h
      · exact Or.inl (Or.inl h)
      · exact Or.inl (Or.inr h)
    rw [← hE, iterVars_frac, List.mem_append] at hv
    rcases hv with hv | hv
    · rcases mem_iterVars_sumSafe q _ v hv with h | h
      · exact hq v h
      · exact hr _ (fun n hn => (List.mem_filter.1 hn).1) v h
    · rcases mem_iterVars_sumSafe q _ v hv with h | h
      · exact hq v h
      · exact hr _ (fun n hn => (List.mem_filter.1 hn).1) v h
  -- check 4
  have h4 : ¬ ((line4Event expr o c).any fun p => p.2.isNone) = true := by
    intro h
    obtain ⟨p, hp, hnone⟩ := List.any_eq_true.1 h
    unfold line4Event at hp
    rcases List.mem_append.1 hp with hp | hp
    · obtain ⟨p0, hp0, rfl⟩ := List.mem_map.1 hp
      have := hstrict p0 (List.mem_append_left _ hp0)
      simp only at hnone
      cases h0 : p0.2 <;> simp_all
    · obtain ⟨p0, hp0, rfl⟩ := List.mem_map.1 hp
      have := hstrict p0 (List.mem_append_right _ (List.mem_filter.1 hp0).1)
      simp only at hnone
      cases h0 : p0.2 <;> simp_all
  -- check 5
  have h5 : ¬ (!(line4Event expr o c).all fun p => mem' p.1 (Expr.iterVars expr)) = true := by
    suffices hall : ((line4Event expr o c).all fun p => mem' p.1 (Expr.iterVars expr)) = true by
      rw [hall]; simp
    apply List.all_eq_true.2
    intro p hp
    unfold line4Event at hp
    rcases List.mem_append.1 hp with hp | hp
    · obtain ⟨p0, hp0, rfl⟩ := List.mem_map.1 hp
      simp only
      rw [mem'_iff, ← hE, iterVars_frac, List.mem_append]
      by_cases hc : p0.1.name ∈ eventNames c
      · exact Or.inr (iterVars_sub_sumSafe q _ hqnz _ (hcov p0 hp0 hc))
      · refine Or.inr (range_mem_iterVars_sumSafe q _ hqnz _ ?_)
        refine List.mem_map.2 ⟨p0.1.name, ?_, rfl⟩
        obtain ⟨r, hr, hrn, _⟩ := hfoundo p0 hp0
        simp only [diff', List.mem_filter, decide_eq_true_eq]
        exact ⟨(hfacts.mem_names _).2 ⟨r, hr, hrn⟩, hc⟩
    · obtain ⟨p0, hp0, rfl⟩ := List.mem_map.1 hp
      exact (List.mem_filter.1 hp0).2
  refine ⟨(expr, some (line4Event expr o c)), ?_⟩
  unfold line4C
  simp only [bind, Except.bind, hexpr]
  unfold finalChecks
  rw [if_neg h1, if_neg h2, if_neg h3, if_neg h4, if_neg h5]
  rfl

/-! ### the composition -/

/-- the fact `OutcomeNotCondition` was used for: in the expression `Q` that Algorithm 2 returns for `D*`, the vertex of
an outcome that is also the vertex of a condition occurs as a variable (for the other outcomes the vertex is a range of
the denominator's sum) -/
def QCovers (target : MG Name) (ds : List Domain) (o c : Event) : Prop :=
  ∀ dstar dNames q simplified, line2C target o c = .ok (dstar, dNames) →
    ctfTRu target ds dstar = .ok (some (q, some simplified)) →
    ∀ p ∈ o, p.1.name ∈ eventNames c → Var.plain p.1.name ∈ Expr.iterVars q

theorem qCovers_of_disjoint (target : MG Name) (ds : List Domain) (o c : Event)
    (hdisj : OutcomeNotCondition o c = true) : QCovers target ds o c := by
  intro dstar dNames q simplified _ _ p hp hc
  exfalso
  obtain ⟨r, hr, hrn⟩ := (mem_eventNames c _).1 hc
  unfold OutcomeNotCondition at hdisj
  have := List.all_eq_true.1 (List.all_eq_true.1 hdisj p hp) r hr
  simp only [bne_iff_ne, ne_eq] at this
  exact this hrn.symm

/-- **Algorithm 3 never raises when `Q` covers the shared vertices** — neither `DstarOneWorld` nor (after `fix:` f335599)
`OutcomesFound` is needed: every outcome is found under its lookup key (`line2C_ok`); `OutcomeNotCondition` is weakened
to `QCovers` -/
theorem ctfTR_total_of_cover (target : MG Name) (ds : List Domain) (o c : Event)
    (hv : validateC target ds o c = .ok ()) (hwf : target.WF) (hds : ∀ d ∈ ds, d.graph.WF)
    (hdom : DomainsAgree target ds) (hplain : EventVarsPlain (o ++ c))
    (hcov : QCovers target ds o c)
    (hpop : PopsCoverNodes target ds) (hq : QGood target ds o c) :
    ∀ err, ctfTR target ds o c ≠ .error err := by
  obtain ⟨hstrict, hone', _, hnodes, _, hac, _⟩ := validateC_facts target ds o c hv
  have hloop : ∀ v, ¬ target.DiEdge v v := fun v hvv =>
    ((isAcyclic_iff target hwf).1 hac) v (TransGen.single hvv)
  have hok : ∀ p ∈ o ++ c, VarOK target p.1 := by
    intro p hp
    refine ⟨hnodes p ?_, Or.inr ⟨(hplain p hp).2.1, (hplain p hp).1⟩⟩
    rcases List.mem_append.1 hp with h | h
    · exact List.mem_append_right _ h
    · exact List.mem_append_left _ h
  obtain ⟨lk, D, dstar, dNames, _, hrel, hfound', _, h2, hDn, hfacts⟩ := line2C_ok target hwf o c
    (fun p hp => hok p (List.mem_append_left _ hp)) (fun p hp => hok p (List.mem_append_right _ hp))
    (fun p hp => (hplain p (List.mem_append_left _ hp)).1)
  -- D* is accepted by the unconditional validator
  obtain ⟨p0, hp0⟩ := List.exists_mem_of_ne_nil _ hone'
  obtain ⟨p0', hp0', _, hp0v⟩ := hrel.of_out p0 hp0
  obtain ⟨q0, hq0, _, hq0v⟩ := hfacts.found p0' hp0' (hfound' p0' hp0')
  have hvU : validateU target ds dstar = .ok () := by
    apply validateU_dstar target ds o c hv dstar
    · intro h0; rw [h0] at hq0; cases hq0
    · intro q hq; exact (hfacts.var hDn q hq).1
    · exact ⟨q0, hq0, by rw [hq0v, hp0v]; exact hstrict p0 (List.mem_append_left _ hp0)⟩
    · intro q hq
      cases hsi : selfIntervened q.1 with
      | false => rfl
      | true =>
        exfalso
        unfold selfIntervened at hsi
        obtain ⟨i, hi, hin⟩ := List.any_eq_true.1 hsi
        have hedge := (hfacts.var hDn q hq).2.2.2.2 i hi
        rw [show i.name = q.1.name by simpa using hin] at hedge
        exact hloop _ hedge
    · intro q hq i hi
      obtain ⟨p', hp', hpn', hpv', _⟩ := hfacts.value q hq i hi
      obtain ⟨p, hp, hpn, hpv⟩ := hrel.of_lk p' hp'
      exact ⟨p, hp, by rw [← hpn, hpn'], by rw [← hpv, hpv']⟩
  -- Algorithm 2 on D*
  have hcls : CrashClassU dstar = false := by
    have : Reflexive dstar = false := by
      cases hr : Reflexive dstar with
      | false => rfl
      | true =>
        exfalso
        unfold Reflexive at hr
        obtain ⟨p, hp, hpr⟩ := List.any_eq_true.1 hr
        obtain ⟨i, hi, hin⟩ := List.any_eq_true.1 hpr
        have hedge := (hfacts.var hDn p hp).2.2.2.2 i hi
        rw [show i.name = p.1.name by simpa using hin] at hedge
        exact hloop _ hedge
    simp [CrashClassU, this]
  have hplainD : EventVarsPlain dstar := by
    intro p hp
    obtain ⟨_, hs, hi, hn, _⟩ := hfacts.var hDn p hp
    exact ⟨hs, hi, hn⟩
  have hUtotal := ctfTRu_total_of_class target ds dstar hvU hwf hds hcls hplainD hdom
  have hU : ∃ r, ctfTRu target ds dstar = .ok r := by
    cases hr : ctfTRu target ds dstar with
    | ok r => exact ⟨r, rfl⟩
    | error err => exact absurd hr (hUtotal err)
  have hffD : ∀ r ∈ dstar, FFVar target r.1 := by
    intro r hr
    obtain ⟨p, _, hc, _⟩ := hfacts.origin r hr
    exact convertOne_ffvar target p.1 r.1 hc
  -- line 4
  obtain ⟨r, hr⟩ := ctfTR_of_parts target ds o c hv dstar dNames h2 hU (by
    intro q simplified hqs
    obtain ⟨hqnz, hvocab⟩ := hq dstar dNames q simplified h2 hqs
    have hsim := simplify_output_values target dstar simplified (ctfTRu_simplified target ds dstar simplified q hqs)
    have hfun := ffEvent_answer_fun target hwf hloop ds dstar hffD q simplified hqs
    exact line4C_ok_of_cover target ds o c lk D dstar dNames q simplified hrel hfacts hstrict hsim hfun hfound'
      (hcov dstar dNames q simplified h2 hqs) hqnz hvocab hpop)
  intro err herr
  rw [hr] at herr
  cases herr

/-- **neither `OutcomesFound` nor `DstarOneWorld` is needed**: Algorithm 3 never raises after validation when no outcome
shares its vertex with a condition (arbitrary domain distributions) -/
theorem ctfTR_total_without_oneWorld (target : MG Name) (ds : List Domain) (o c : Event)
    (hv : validateC target ds o c = .ok ()) (hwf : target.WF) (hds : ∀ d ∈ ds, d.graph.WF)
    (hdom : DomainsAgree target ds) (hplain : EventVarsPlain (o ++ c))
    (hdisj : OutcomeNotCondition o c = true) :
    ∀ err, ctfTR target ds o c ≠ .error err :=
  ctfTR_total_of_cover target ds o c hv hwf hds hdom hplain (qCovers_of_disjoint target ds o c hdisj)
    (popsCover_of_validateC target ds o c hv)
    (qGood_holds target ds o c hv hwf hds (fun d hd => (hdom d hd).2) hplain)

end Y0.CtfTr
