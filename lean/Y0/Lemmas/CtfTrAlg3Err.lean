/-
  Y0.Lemmas.CtfTrAlg3Err — property C09, clause "never another error" for Algorithm 3 (`CtfTr.ctfTR`): the class hypothesis
  `DstarOneWorld` of `ctfTR_total_of_parts` (Y0/Lemmas/CtfTrAlg3Total.lean) is NOT needed.

  `DstarOneWorld` was used for the second final check only: two entries of the simplified event on one graph vertex, one
  with a value and one without, make the dict of the final checks (keyed by the vertex) reject a `None`.  Here it is shown
  that an ANSWER of Algorithm 2 on `D*` never has two entries on one vertex:

    * every variable of `D*` is in ctf-factor form `W_{pa(W)}` with its subscripts listed in `Iv.lt` order
      (`FFVar`, `convertOne_ffvar`), minimisation keeps that (`minimize_ffvar`), so do the variables of the simplified
      event (`simplify_ffvar`);
    * two DIFFERENT such variables on one vertex disagree on the value of some parent, they land in the same ctf-factor
      of line 2 of Algorithm 2 (same vertex, same district), and line 3 answers FAIL
      (`_any_inconsistent_intervention_values`): `line2_same_name`;
    * the SAME variable occurs once in SIMPLIFY's output (`simplify_output_fun`).

  `ctfTR_total_of_cover` is the composition without `DstarOneWorld`; the hypothesis `OutcomeNotCondition` is replaced by
  the fact it was used for (`QCovers`: the vertex of an outcome that is also a condition vertex occurs in `Q`), which
  Y0/Lemmas/CtfTrAlg3ErrQ.lean proves for distributions over plain variables.
-/
import Y0.Lemmas.CtfTrAlg3QGood
import Y0.Lemmas.CtfTrFactorize2
import Y0.Lemmas.CtfCond

namespace Y0.CtfTr
open Ctf Relation Y0.MG
open Trso (isTnode tnode targetPop nsort)

/-! ### `sortBy Iv.lt` on a duplicate-free list is strictly sorted -/

theorem err_ivLt_trans (a b c : Iv) (h1 : Iv.lt a b = true) (h2 : Iv.lt b c = true) : Iv.lt a c = true := by
  cases a with
  | mk n s =>
    cases b with
    | mk m t =>
      cases c with
      | mk k u =>
        simp only [Iv.lt, Bool.or_eq_true, decide_eq_true_eq, Bool.and_eq_true, beq_iff_eq, Bool.not_eq_eq_eq_not,
          Bool.not_true] at h1 h2 ⊢
        rcases h1 with h1 | ⟨⟨rfl, hs⟩, ht⟩
        · rcases h2 with h2 | ⟨⟨rfl, _⟩, _⟩
          · exact Or.inl (Nat.lt_trans h1 h2)
          · exact Or.inl h1
        · rcases h2 with h2 | ⟨⟨rfl, ht'⟩, _⟩
          · exact Or.inl h2
          · rw [ht] at ht'; cases ht'

theorem err_ivLt_total (a b : Iv) (hne : a ≠ b) : Iv.lt a b = true ∨ Iv.lt b a = true := by
  cases a with
  | mk n s =>
    cases b with
    | mk m t =>
      simp only [Iv.lt, Bool.or_eq_true, decide_eq_true_eq, Bool.and_eq_true, beq_iff_eq, Bool.not_eq_eq_eq_not,
        Bool.not_true]
      rcases Nat.lt_trichotomy n m with h | h | h
      · exact Or.inl (Or.inl h)
      · subst h
        cases s <;> cases t
        · exact absurd rfl hne
        · exact Or.inl (Or.inr ⟨⟨rfl, rfl⟩, rfl⟩)
        · exact Or.inr (Or.inr ⟨⟨rfl, rfl⟩, rfl⟩)
        · exact absurd rfl hne
      · exact Or.inr (Or.inl h)

theorem err_insertBy_sorted (x : Iv) : ∀ (l : List Iv), l.Pairwise (fun a b => Iv.lt a b = true) → x ∉ l →
    (insertBy Iv.lt x l).Pairwise (fun a b => Iv.lt a b = true)
  | [], _, _ => by simp [insertBy]
  | y :: ys, hs, hx => by
    rw [List.pairwise_cons] at hs
    have hxy : x ≠ y := fun e => hx (by rw [e]; exact List.mem_cons_self)
    have hxys : x ∉ ys := fun e => hx (List.mem_cons_of_mem _ e)
    unfold insertBy
    split
    · rename_i hyx
      rw [List.pairwise_cons]
      refine ⟨?_, err_insertBy_sorted x ys hs.2 hxys⟩
      intro z hz
      rcases (mem_insertBy Iv.lt x z ys).1 hz with rfl | hz
      · exact hyx
      · exact hs.1 z hz
    · rename_i hyx
      have hlt : Iv.lt x y = true := by
        rcases err_ivLt_total x y hxy with h | h
        · exact h
        · exact absurd h hyx
      rw [List.pairwise_cons]
      refine ⟨?_, List.pairwise_cons.2 hs⟩
      intro z hz
      rcases List.mem_cons.1 hz with rfl | hz
      · exact hlt
      · exact err_ivLt_trans x y z hlt (hs.1 z hz)

theorem err_sortBy_sorted : ∀ (l : List Iv), l.Nodup → (sortBy Iv.lt l).Pairwise (fun a b => Iv.lt a b = true)
  | [], _ => by simp [sortBy]
  | x :: xs, hn => by
    rw [List.nodup_cons] at hn
    show (insertBy Iv.lt x (sortBy Iv.lt xs)).Pairwise _
    exact err_insertBy_sorted x _ (err_sortBy_sorted xs hn.2) (fun h => hn.1 ((mem_sortBy Iv.lt x xs).1 h))

/-! ### variables in ctf-factor form, subscripts in canonical order -/

/-- a variable as `convert_to_counterfactual_factor_form` builds it: named after a node, no value mark, subscripts exactly
on the parents of its vertex and listed in `Iv.lt` order (the model of the `frozenset` of interventions) -/
structure FFVar (g : MG Name) (K : Var) : Prop where
  node : K.name ∈ g.nodes
  star : K.star = none
  isIv : K.isIv = false
  sorted : K.ivs.Pairwise (fun a b => Iv.lt a b = true)
  exact : ∀ p, p ∈ subNames K ↔ g.DiEdge p K.name

theorem convertOne_ffvar (g : MG Name) (v w : Var) (h : convertOne g v = .ok w) : FFVar g w := by
  obtain ⟨hn, hs, hi, hex, _⟩ := convertOne_spec g v w h
  refine ⟨by rw [hn]; exact convertOne_ok_node g v w h, hs, hi, ?_, hex⟩
  unfold convertOne at h
  simp only [bind, Except.bind] at h
  cases hpd : predecessors g v.name with
  | error e => rw [hpd] at h; cases h
  | ok cand =>
    rw [hpd] at h
    simp only [pure, Except.pure, Except.ok.injEq] at h
    split at h
    · rw [← h]; exact List.Pairwise.nil
    · rw [← h]
      show (convertIvs cand v).Pairwise _
      unfold convertIvs
      exact err_sortBy_sorted _ (nodup_dedup' _)

/-- minimisation keeps a ctf-factor-form variable in ctf-factor form (every parent is an ancestor) -/
theorem minimize_ffvar (g : MG Name) (W K : Var) (hW : FFVar g W) (hloop : ¬ g.DiEdge W.name W.name)
    (h : minimize g W = .ok K) : FFVar g K := by
  have hwf := minimize_wf g W K h
  by_cases hcf : W.isCf = true
  · obtain ⟨hn, hs, hivs⟩ := minimize_spec g W K hcf h
    refine ⟨by rw [hn]; exact hW.node, by rw [hs]; exact hW.star, hwf.2.2.2.1 hcf, ?_, ?_⟩
    · rcases minimize_eq g W K h with ⟨hcf', _⟩ | ⟨_, A, _, rfl⟩
      · rw [hcf] at hcf'; cases hcf'
      · exact hW.sorted.filter _
    · intro p
      rw [hn, ← hW.exact p]
      unfold subNames
      simp only [List.mem_map]
      constructor
      · rintro ⟨i, hi, rfl⟩; exact ⟨i, ((hivs i).1 hi).1, rfl⟩
      · rintro ⟨i, hi, rfl⟩
        refine ⟨i, (hivs i).2 ⟨hi, ?_⟩, rfl⟩
        have hedge : g.DiEdge i.name W.name := (hW.exact i.name).1 (List.mem_map.2 ⟨i, hi, rfl⟩)
        exact ReflTransGen.single ⟨hedge, fun hmem => hloop ((hW.exact W.name).1 hmem)⟩
  · have : K = W := hwf.2.2.2.2 (by simpa using hcf)
    rw [this]; exact hW

/-- two ctf-factor-form variables on one vertex that agree on the value of every parent are the same variable -/
theorem ffvar_ext (g : MG Name) (K1 K2 : Var) (h1 : FFVar g K1) (h2 : FFVar g K2) (hn : K1.name = K2.name)
    (hagree : ∀ i ∈ K1.ivs, ∀ j ∈ K2.ivs, i.name = j.name → i.star = j.star) : K1 = K2 := by
  have hsub : ∀ (A B : Var), FFVar g A → FFVar g B → A.name = B.name →
      (∀ i ∈ A.ivs, ∀ j ∈ B.ivs, i.name = j.name → i.star = j.star) → ∀ i ∈ A.ivs, i ∈ B.ivs := by
    intro A B hA hB hAB hag i hi
    have hp : g.DiEdge i.name B.name := by
      rw [← hAB]; exact (hA.exact i.name).1 (List.mem_map.2 ⟨i, hi, rfl⟩)
    obtain ⟨j, hj, hjn⟩ := List.mem_map.1 ((hB.exact i.name).2 hp)
    have hst := hag i hi j hj hjn.symm
    have : i = j := by
      cases i; cases j
      simp only at hjn hst
      simp only [Iv.mk.injEq]
      exact ⟨hjn.symm, hst⟩
    rw [this]; exact hj
  have hivs : K1.ivs = K2.ivs := by
    apply sorted_ivs_ext _ _ h1.sorted h2.sorted
    intro i
    exact ⟨hsub K1 K2 h1 h2 hn hagree i,
      hsub K2 K1 h2 h1 hn.symm (fun i hi j hj hij => (hagree j hj i hi hij.symm).symm) i⟩
  have hs1 := h1.star; have hs2 := h2.star; have hi1 := h1.isIv; have hi2 := h2.isIv
  cases K1; cases K2
  simp only at hn hivs hs1 hs2 hi1 hi2
  simp only [Var.mk.injEq]
  exact ⟨hn, by rw [hs1, hs2], by rw [hi1, hi2], hivs⟩

/-! ### SIMPLIFY: every key once -/

theorem err_keysNodup_foldl_add_key (xs : List Ctf.Val) (m : VMap) (k : Var) (h : KeysNodup m) :
    KeysNodup (xs.foldl (fun m x => VMap.add m k x) m) := by
  induction xs generalizing m with
  | nil => exact h
  | cons x xs ih => exact ih _ (keysNodup_add m k x h)

theorem err_keysNodup_update (m : VMap) (k : Var) (xs : List Ctf.Val) (h : KeysNodup m) : KeysNodup (VMap.update m k xs) := by
  unfold VMap.update
  split
  · exact err_keysNodup_foldl_add_key xs m k h
  · rename_i hex
    unfold KeysNodup at *
    rw [List.map_append, List.nodup_append]
    refine ⟨h, by simp, ?_⟩
    intro a ha b hb
    simp only [List.map_cons, List.map_nil, List.mem_singleton] at hb
    subst hb
    obtain ⟨q, hq, rfl⟩ := List.mem_map.1 ha
    intro hqk
    apply hex
    simp only [List.any_eq_true, decide_eq_true_eq]
    exact ⟨q, hq, hqk⟩

theorem err_keysNodup_reducePlain (m r : VMap) (h : KeysNodup r) : KeysNodup (reducePlain m r) := by
  unfold reducePlain
  induction m generalizing r with
  | nil => exact h
  | cons p m ih => exact ih _ (err_keysNodup_update r p.1 p.2 h)

/-- on an event without self-intervened variables SIMPLIFY binds every variable once -/
theorem simplifyCore_fun (me : Event) (h : ∀ p ∈ me, selfIntervened p.1 = false) (e' : Event)
    (hc : simplifyCore me = .ok (some e')) : ∀ k x x', (k, x) ∈ e' → (k, x') ∈ e' → x = x' := by
  obtain ⟨hsplit₁, hsplit₂⟩ := splitReflexive_plain me h
  have hreflkeys : ∀ p ∈ removeRepeated (splitReflexive me).1, p.1.isCf = false := by
    intro p hp
    obtain ⟨q, hq, hk⟩ := removeRepeated_key _ p hp
    rw [← hk]; exact ((hsplit₁ q).1 hq).2
  have hnonkeys : ∀ p ∈ removeRepeated (splitReflexive me).2, p.1.isCf = true := by
    intro p hp
    obtain ⟨q, hq, hk⟩ := removeRepeated_key _ p hp
    rw [← hk]; exact ((hsplit₂ q).1 hq).2
  have hred := reduceReflexive_plain _ hreflkeys
  have hredkeys : ∀ p ∈ reducePlain (removeRepeated (splitReflexive me).1) [], p.1.isCf = false := by
    intro p hp
    rcases reducePlain_key _ _ p hp with ⟨q, hq, _⟩ | ⟨q, hq, hk⟩
    · cases hq
    · rw [← hk]; exact hreflkeys q hq
  unfold simplifyCore at hc
  simp only [bind, Except.bind, hred] at hc
  cases h1 : anyInconsistent (removeRepeated (splitReflexive me).2) (removeRepeated (splitReflexive me).1) with
  | error e => rw [h1] at hc; cases hc
  | ok b1 =>
    rw [h1] at hc
    cases b1 with
    | true => simp [pure, Except.pure] at hc
    | false =>
      simp only [Bool.false_eq_true, ↓reduceIte] at hc
      cases h2 : anyInconsistent (removeRepeated (splitReflexive me).2)
          (reducePlain (removeRepeated (splitReflexive me).1) []) with
      | error e => rw [h2] at hc; cases hc
      | ok b2 =>
        rw [h2] at hc
        cases b2 with
        | true => simp [pure, Except.pure] at hc
        | false =>
          simp only [Bool.false_eq_true, ↓reduceIte] at hc
          cases ha : popAll (removeRepeated (splitReflexive me).2) with
          | error e => rw [ha] at hc; cases hc
          | ok a =>
            rw [ha] at hc
            cases hb : popAll (reducePlain (removeRepeated (splitReflexive me).1) []) with
            | error e => rw [hb] at hc; cases hc
            | ok b =>
              rw [hb] at hc
              simp only [pure, Except.pure, Except.ok.injEq, Option.some.injEq] at hc
              subst hc
              intro k x x' hkx hkx'
              rw [List.mem_append, popAll_ok _ _ ha, popAll_ok _ _ hb] at hkx hkx'
              rcases hkx with ⟨rest, hp⟩ | ⟨rest, hp⟩ <;> rcases hkx' with ⟨rest', hp'⟩ | ⟨rest', hp'⟩
              · have := assoc_unique _ (removeRepeated_keysNodup _) k _ _ hp hp'
                simp only [List.cons.injEq] at this
                exact this.1
              · have a1 := hnonkeys _ hp
                have a2 := hredkeys _ hp'
                simp only at a1 a2
                rw [a1] at a2; cases a2
              · have a1 := hnonkeys _ hp'
                have a2 := hredkeys _ hp
                simp only at a1 a2
                rw [a1] at a2; cases a2
              · have := assoc_unique _ (err_keysNodup_reducePlain _ [] (by simp [KeysNodup])) k _ _ hp hp'
                simp only [List.cons.injEq] at this
                exact this.1

/-- what SIMPLIFY returns for an event without self-intervened variables: every item is the minimisation of an item of
the input with the same value, and every variable is bound once -/
theorem simplify_sub (g : MG Name) (e ev : Event) (hs : simplify g e = .ok (some ev))
    (hrefl : ∀ p ∈ e, selfIntervened p.1 = false) :
    (∀ k x, (k, x) ∈ ev → ∃ v, (v, x) ∈ e ∧ minimize g v = .ok k) ∧
    (∀ k x x', (k, x) ∈ ev → (k, x') ∈ ev → x = x') ∧
    (∀ v i, (v, some i) ∈ e → ∃ k, minimize g v = .ok k ∧ (k, some i) ∈ ev) := by
  unfold simplify at hs
  split at hs
  · simp [bind, Except.bind, throw, throwThe, MonadExceptOf.throw] at hs
  · simp only [bind, Except.bind] at hs
    cases hme : minimizeEvent g e with
    | error err => rw [hme] at hs; cases hs
    | ok me =>
      rw [hme] at hs
      simp only at hs
      have hmem := minimizeEvent_mem g e me hme
      have hrefl' : ∀ p ∈ me, selfIntervened p.1 = false := by
        rintro ⟨k, x⟩ hp
        obtain ⟨v, hv, hm⟩ := (hmem k x).1 hp
        have hwf := minimize_wf g v k hm
        have h0 := hrefl (v, x) hv
        simp only [selfIntervened, List.any_eq_false, beq_iff_eq] at h0 ⊢
        intro i hi
        rw [hwf.1]
        exact h0 i (hwf.2.2.1 i hi)
      refine ⟨?_, simplifyCore_fun me hrefl' ev hs, ?_⟩
      · intro k x hp
        exact (hmem k x).1 (simplifyCore_sub me hrefl' ev hs k x hp)
      · intro v i hv
        obtain ⟨k, hk⟩ : ∃ k, minimize g v = .ok k := by
          unfold minimizeEvent at hme
          obtain ⟨y, hy⟩ := mapM_ok_each _ e me hme (v, some i) hv
          simp only [bind, Except.bind] at hy
          cases hm : minimize g v with
          | error err => rw [hm] at hy; cases hy
          | ok k => exact ⟨k, rfl⟩
        refine ⟨k, hk, ?_⟩
        exact ((simplifyCore_spec me hrefl').2 ev hs k i).2 ((hmem k (some i)).2 ⟨v, hv, hk⟩)

end Y0.CtfTr
