/-
  Y0.Lemmas.SemPos — positivity: in a positive environment every well-scoped expression without `Zero()` denotes a
  positive number at in-range valuations; hence `DenNZ` holds as soon as no denominator contains `Zero()`.
-/
import Y0.Lemmas.SemCanon

namespace Y0
set_option linter.unusedSimpArgs false
set_option linter.unusedVariables false

variable {env : Env} {σ' : Val}

mutual
/-- no `Zero()` anywhere -/
def Expr.zeroFree : Expr → Bool
  | .prod fs => Expr.zeroFreeList fs
  | .sum e _ => Expr.zeroFree e
  | .frac n d => Expr.zeroFree n && Expr.zeroFree d
  | .zero => false
  | _ => true
def Expr.zeroFreeList : List Expr → Bool
  | [] => true
  | e :: es => Expr.zeroFree e && Expr.zeroFreeList es
end

mutual
/-- no `Zero()` inside a denominator -/
def Expr.zfd : Expr → Bool
  | .prod fs => Expr.zfdList fs
  | .sum e _ => Expr.zfd e
  | .frac n d => Expr.zfd n && Expr.zeroFree d
  | _ => true
def Expr.zfdList : List Expr → Bool
  | [] => true
  | e :: es => Expr.zfd e && Expr.zfdList es
end

theorem sumVars_pos (card : Name → Nat) (hc : ∀ x, 0 < card x) (xs : List Name) (f : Val → Rat)
    (P : Val → Prop) (hP : ∀ τ x k, P τ → k < card x → P (τ.set x k)) (hf : ∀ τ, P τ → 0 < f τ) :
    ∀ σ, P σ → 0 < sumVars card xs f σ := by
  induction xs with
  | nil => exact hf
  | cons x xs ih =>
    intro σ hσ
    simp only [sumVars, sumVar_eq_sum]
    apply Finset.sum_pos
    · intro k hk
      exact ih _ (hP σ x k hσ (Finset.mem_range.mp hk))
    · exact ⟨0, Finset.mem_range.mpr (hc x)⟩

theorem atoms_pos (hP : env.Positive) (pop : Option Name) (vs : List Var) (σ : Val)
    (hσ : InRange env σ) (hσ' : InRange env σ') (hn : (vs.map (·.name)).Nodup) :
    0 < env.pr pop (vs.map (Var.atom σ σ')) := by
  apply hP
  · intro a ha
    obtain ⟨v, _, rfl⟩ := List.mem_map.mp ha
    simp only [Var.atom, Var.value]
    split
    · exact hσ' _
    · exact hσ _
  · intro a ha b hb
    obtain ⟨v, hv, rfl⟩ := List.mem_map.mp ha
    obtain ⟨w, hw, rfl⟩ := List.mem_map.mp hb
    by_cases e : v = w
    · subst e; simp [Atom.conflicts]
    · have : v.name ≠ w.name := by
        intro hne
        exact e (List.inj_on_of_nodup_map hn hv hw hne)
      simp [Atom.conflicts, Var.atom, this]

mutual
theorem den_pos (hF : ProbFamily env) (hP : env.Positive) (hσ' : InRange env σ') {S : List Name} : ∀ (e : Expr),
    Expr.wss S e = true → e.zeroFree = true → ∀ σ, InRange env σ → 0 < den env σ' e σ
  | .prob pop c p, hw, _, σ, hσ => by
    have hleaf : LeafOKP S c p := leafOK_iff.mp (by simpa [Expr.wss] using hw)
    rw [den_prob]
    apply div_pos
    · exact atoms_pos hP _ _ σ hσ hσ' hleaf.names
    · refine atoms_pos hP _ _ σ hσ hσ' ?_
      have := hleaf.names
      rw [List.map_append] at this
      exact (List.nodup_append.mp this).2.1
  | .prod fs, hw, hz, σ, hσ => by
    rw [den_prod]
    exact denProd_pos hF hP hσ' fs (wss_prod_iff.mp hw) (by simpa [Expr.zeroFree] using hz) σ hσ
  | .sum e r, hw, hz, σ, hσ => by
    rw [den_sum]
    obtain ⟨_, hwe⟩ := wss_sum_iff.mp hw
    exact sumVars_pos env.card hF.card_pos _ _ (InRange env) (fun τ x k h hk => h.set x hk)
      (fun τ hτ => den_pos hF hP hσ' e hwe (by simpa [Expr.zeroFree] using hz) τ hτ) σ hσ
  | .frac n d, hw, hz, σ, hσ => by
    rw [den_frac]
    obtain ⟨h1, h2⟩ := wss_frac_iff.mp hw
    simp only [Expr.zeroFree, Bool.and_eq_true] at hz
    exact div_pos (den_pos hF hP hσ' n h1 hz.1 σ hσ) (den_pos hF hP hσ' d h2 hz.2 σ hσ)
  | .one, _, _, σ, _ => by simp
  | .zero, _, hz, _, _ => by simp [Expr.zeroFree] at hz
  | .q _ _, hw, _, _, _ => by simp [Expr.wss] at hw
theorem denProd_pos (hF : ProbFamily env) (hP : env.Positive) (hσ' : InRange env σ') {S : List Name} :
    ∀ (fs : List Expr), (∀ e ∈ fs, Expr.wss S e = true) → Expr.zeroFreeList fs = true →
    ∀ σ, InRange env σ → 0 < denProd env σ' fs σ
  | [], _, _, σ, _ => by simp
  | e :: es, hw, hz, σ, hσ => by
    simp only [Expr.zeroFreeList, Bool.and_eq_true] at hz
    rw [denProd_cons]
    exact mul_pos (den_pos hF hP hσ' e (hw e List.mem_cons_self) hz.1 σ hσ)
      (denProd_pos hF hP hσ' es (fun x hx => hw x (List.mem_cons_of_mem _ hx)) hz.2 σ hσ)
end

mutual
theorem denNZ_of_zeroFree (hF : ProbFamily env) (hP : env.Positive) (hσ' : InRange env σ') {S : List Name} :
    ∀ (e : Expr), Expr.wss S e = true → e.zeroFree = true → DenNZ env σ' e
  | .prob _ _ _, _, _ => by simp
  | .prod fs, hw, hz => by
    simp only [DenNZ]
    exact denNZList_of_zeroFree hF hP hσ' fs (wss_prod_iff.mp hw) (by simpa [Expr.zeroFree] using hz)
  | .sum e r, hw, hz => denNZ_sum_iff.mpr
      (denNZ_of_zeroFree hF hP hσ' e (wss_sum_iff.mp hw).2 (by simpa [Expr.zeroFree] using hz))
  | .frac n d, hw, hz => by
    obtain ⟨h1, h2⟩ := wss_frac_iff.mp hw
    simp only [Expr.zeroFree, Bool.and_eq_true] at hz
    refine denNZ_frac_iff.mpr ⟨denNZ_of_zeroFree hF hP hσ' n h1 hz.1, denNZ_of_zeroFree hF hP hσ' d h2 hz.2, ?_⟩
    intro σ hσ; exact (den_pos hF hP hσ' d h2 hz.2 σ hσ).ne'
  | .one, _, _ => by simp
  | .zero, _, _ => by simp
  | .q _ _, _, _ => by simp
theorem denNZList_of_zeroFree (hF : ProbFamily env) (hP : env.Positive) (hσ' : InRange env σ') {S : List Name} :
    ∀ (fs : List Expr), (∀ e ∈ fs, Expr.wss S e = true) → Expr.zeroFreeList fs = true → DenNZList env σ' fs
  | [], _, _ => by simp [DenNZList]
  | a :: rest, hw, hz => by
    simp only [Expr.zeroFreeList, Bool.and_eq_true] at hz
    simp only [DenNZList]
    exact ⟨denNZ_of_zeroFree hF hP hσ' a (hw _ List.mem_cons_self) hz.1,
      denNZList_of_zeroFree hF hP hσ' rest (fun x hx => hw x (List.mem_cons_of_mem _ hx)) hz.2⟩
end

mutual
/-- **positivity discharges the non-vanishing hypothesis**: in a positive environment, a well-scoped expression with no
`Zero()` inside a denominator has no vanishing denominator -/
theorem denNZ_of_positive (hF : ProbFamily env) (hP : env.Positive) (hσ' : InRange env σ') {S : List Name} :
    ∀ (e : Expr), Expr.wss S e = true → e.zfd = true → DenNZ env σ' e
  | .prob _ _ _, _, _ => by simp
  | .prod fs, hw, hz => by
    simp only [DenNZ]
    exact denNZList_of_positive hF hP hσ' fs (wss_prod_iff.mp hw) (by simpa [Expr.zfd] using hz)
  | .sum e r, hw, hz => denNZ_sum_iff.mpr
      (denNZ_of_positive hF hP hσ' e (wss_sum_iff.mp hw).2 (by simpa [Expr.zfd] using hz))
  | .frac n d, hw, hz => by
    obtain ⟨h1, h2⟩ := wss_frac_iff.mp hw
    simp only [Expr.zfd, Bool.and_eq_true] at hz
    refine denNZ_frac_iff.mpr ⟨denNZ_of_positive hF hP hσ' n h1 hz.1, ?_, ?_⟩
    · exact denNZ_of_zeroFree hF hP hσ' d h2 hz.2
    · intro σ hσ; exact (den_pos hF hP hσ' d h2 hz.2 σ hσ).ne'
  | .one, _, _ => by simp
  | .zero, _, _ => by simp
  | .q _ _, _, _ => by simp
theorem denNZList_of_positive (hF : ProbFamily env) (hP : env.Positive) (hσ' : InRange env σ') {S : List Name} :
    ∀ (fs : List Expr), (∀ e ∈ fs, Expr.wss S e = true) → Expr.zfdList fs = true → DenNZList env σ' fs
  | [], _, _ => by simp [DenNZList]
  | a :: rest, hw, hz => by
    simp only [Expr.zfdList, Bool.and_eq_true] at hz
    simp only [DenNZList]
    exact ⟨denNZ_of_positive hF hP hσ' a (hw _ List.mem_cons_self) hz.1,
      denNZList_of_positive hF hP hσ' rest (fun x hx => hw x (List.mem_cons_of_mem _ hx)) hz.2⟩
end

end Y0
