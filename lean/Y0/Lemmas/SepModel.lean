/-
  Y0.Lemmas.SepModel — what the executable model of `are_d_separated` computes, in relational terms:
  the evidence graph is the augmented ancestral graph (`AugEdge`), `has_path` is `ReflTransGen`, and the
  verdict is `AugSeparated` of Y0/Spec/SepSpec.lean.  Helper lemmas only.
-/
import Y0.Spec.SepSpec
import Y0.Props.C14
import Y0.Model.Sep

namespace Y0

theorem mapM_ok_of_forall {α β : Type} (f : α → Except Err β) (g : α → β) (l : List α)
    (h : ∀ x ∈ l, f x = .ok (g x)) : l.mapM f = .ok (l.map g) := by
  induction l with
  | nil => rfl
  | cons x xs ih =>
    have hx := h x (by simp)
    have hxs := ih (fun y hy => h y (by simp [hy]))
    simp [List.mapM_cons, hx, hxs, bind, Except.bind, pure, Except.pure]

theorem rtg_of_imp_or_eq {α : Type} {R S : α → α → Prop} (h : ∀ u v, R u v → S u v ∨ u = v) {a b : α}
    (hab : Relation.ReflTransGen R a b) : Relation.ReflTransGen S a b := by
  induction hab with
  | refl => exact .refl
  | tail _ hbc ih =>
    rcases h _ _ hbc with h' | rfl
    · exact ih.tail h'
    · exact ih

namespace MG
variable {α : Type} [DecidableEq α]
open Relation

/-! ### small facts about the graph model (the corresponding lemmas of Props/C14 are private) -/

theorem mem_pairs_sub {l : List α} {x y : α} (h : (x, y) ∈ pairs l) : x ∈ l ∧ y ∈ l := by
  induction l with
  | nil => simp [pairs] at h
  | cons z zs ih =>
    simp only [pairs, List.mem_append, List.mem_map, Prod.mk.injEq] at h
    rcases h with ⟨w, hw, rfl, rfl⟩ | h
    · exact ⟨by simp, by simp [hw]⟩
    · have := ih h; exact ⟨by simp [this.1], by simp [this.2]⟩

theorem mem_pairs_of_mem {l : List α} {x y : α} (hx : x ∈ l) (hy : y ∈ l) (hne : x ≠ y) :
    (x, y) ∈ pairs l ∨ (y, x) ∈ pairs l := by
  induction l with
  | nil => simp at hx
  | cons z zs ih =>
    simp only [pairs, List.mem_append, List.mem_map, Prod.mk.injEq]
    rcases List.mem_cons.1 hx with rfl | hx'
    · rcases List.mem_cons.1 hy with rfl | hy'
      · exact absurd rfl hne
      · exact Or.inl (Or.inl ⟨y, hy', rfl, rfl⟩)
    · rcases List.mem_cons.1 hy with rfl | hy'
      · exact Or.inr (Or.inl ⟨x, hx', rfl, rfl⟩)
      · rcases ih hx' hy' with h | h
        · exact Or.inl (Or.inr h)
        · exact Or.inr (Or.inr h)

/-! ### moralize -/

theorem mem_moralLinks_iff (G : MG α) (u v : α) :
    (u, v) ∈ G.moralLinks ↔ ∃ n ∈ G.nodes, (u, v) ∈ pairs (G.parents n) := by
  simp [moralLinks, List.mem_flatMap]

theorem biEdge_moralize_links (G : MG α) (u v : α) :
    G.moralize.BiEdge u v ↔ G.BiEdge u v ∨ (u, v) ∈ G.moralLinks ∨ (v, u) ∈ G.moralLinks := by
  simp [moralize, biEdge_foldl_addBi]

theorem moralLink_coparents (G : MG α) {u v : α} (h : (u, v) ∈ G.moralLinks) :
    ∃ n, G.DiEdge u n ∧ G.DiEdge v n := by
  obtain ⟨n, _, hp⟩ := (mem_moralLinks_iff G u v).1 h
  have := mem_pairs_sub hp
  exact ⟨n, (mem_parents_iff G n u).1 this.1, (mem_parents_iff G n v).1 this.2⟩

/-! ### the clique step -/

theorem biEdge_addClique (E : MG α) (cl : List α) (u v : α) :
    (addClique E cl).BiEdge u v ↔ E.BiEdge u v ∨ (u, v) ∈ pairs cl ∨ (v, u) ∈ pairs cl := by
  simp [addClique, biEdge_foldl_addBi]

theorem mem_nodes_addClique (E : MG α) (cl : List α) (v : α) :
    v ∈ (addClique E cl).nodes ↔ v ∈ E.nodes ∨ ∃ e ∈ pairs cl, v = e.1 ∨ v = e.2 := by
  simp [addClique, mem_nodes_foldl_addBi]

theorem biEdge_foldl_addClique (cls : List (List α)) (E : MG α) (u v : α) :
    (cls.foldl addClique E).BiEdge u v ↔
      E.BiEdge u v ∨ ∃ cl ∈ cls, (u, v) ∈ pairs cl ∨ (v, u) ∈ pairs cl := by
  induction cls generalizing E with
  | nil => simp
  | cons c cs ih =>
    simp only [List.foldl_cons, ih, biEdge_addClique, List.mem_cons, exists_eq_or_imp]
    exact or_assoc

theorem mem_nodes_foldl_addClique (cls : List (List α)) (E : MG α) (v : α) :
    v ∈ (cls.foldl addClique E).nodes ↔
      v ∈ E.nodes ∨ ∃ cl ∈ cls, ∃ e ∈ pairs cl, v = e.1 ∨ v = e.2 := by
  induction cls generalizing E with
  | nil => simp
  | cons c cs ih =>
    simp only [List.foldl_cons, ih, mem_nodes_addClique, List.mem_cons, exists_eq_or_imp]
    exact or_assoc

/-! ### `augment` -/

theorem sepMarkovPillow_ok (A : MG α) (d : List α) (hd : ∀ x ∈ d, x ∈ A.nodes) :
    A.markovPillow d = .ok (dedup' ((d.flatMap A.parents).filter (· ∉ d))) := by
  have : d.all (· ∈ A.nodes) = true := by simpa using hd
  simp [markovPillow, checkSources, this, bind, Except.bind, pure, Except.pure]

/-- the district closures the (fixed) code makes cliques of -/
def closures (A : MG α) : List (List α) :=
  A.districts.map (fun d => d ++ dedup' ((d.flatMap A.parents).filter (· ∉ d)))

theorem augment_ok (A : MG α) (hA : A.WF) :
    A.augment = .ok ((closures A).foldl addClique A.moralize.disorient) := by
  have h : A.districts.mapM A.districtClosure = .ok (closures A) := by
    apply mapM_ok_of_forall
    intro d hd
    have hsub : ∀ x ∈ d, x ∈ A.nodes := fun x hx => (districts_cover A hA x).2 ⟨d, hd, hx⟩
    simp [districtClosure, sepMarkovPillow_ok A d hsub, bind, Except.bind, pure, Except.pure]
  simp [augment, h, bind, Except.bind, pure, Except.pure]

theorem mem_closures (A : MG α) (cl : List α) (w : α) (hcl : cl ∈ closures A) (hw : w ∈ cl) :
    ∃ d ∈ A.districts, cl = d ++ dedup' ((d.flatMap A.parents).filter (· ∉ d)) ∧
      ∃ x ∈ d, w = x ∨ A.DiEdge w x := by
  simp only [closures, List.mem_map] at hcl
  obtain ⟨d, hd, rfl⟩ := hcl
  refine ⟨d, hd, rfl, ?_⟩
  rcases List.mem_append.1 hw with hw | hw
  · exact ⟨w, hw, Or.inl rfl⟩
  · simp only [mem_dedup', List.mem_filter, List.mem_flatMap, decide_eq_true_eq] at hw
    obtain ⟨⟨x, hx, hwx⟩, _⟩ := hw
    exact ⟨x, hx, Or.inr ((mem_parents_iff A x w).1 hwx)⟩

theorem mem_closure_of (A : MG α) (d : List α) (x w : α) (hx : x ∈ d) (hw : w = x ∨ A.DiEdge w x) :
    w ∈ d ++ dedup' ((d.flatMap A.parents).filter (· ∉ d)) := by
  by_cases hwd : w ∈ d
  · exact List.mem_append.2 (Or.inl hwd)
  · rcases hw with rfl | hw
    · exact absurd hx hwd
    · refine List.mem_append.2 (Or.inr ?_)
      simp only [mem_dedup', List.mem_filter, List.mem_flatMap, decide_eq_true_eq]
      exact ⟨⟨x, hx, (mem_parents_iff A x w).2 hw⟩, hwd⟩

/-- bidirected reachability inside a well-formed graph stays inside the node set -/
theorem biChain_of_sameDistrict (A : MG α) (hA : A.WF) {x y : α} (hx : x ∈ A.nodes)
    (h : A.SameDistrict x y) : ReflTransGen (A.BiIn (· ∈ A.nodes)) x y := by
  induction h with
  | refl => exact .refl
  | tail _ hbc ih =>
    refine ih.tail ⟨hbc, ?_, ?_⟩
    · rcases hbc with h | h
      · exact (hA.bi_mem _ h).1
      · exact (hA.bi_mem _ h).2
    · rcases hbc with h | h
      · exact (hA.bi_mem _ h).2
      · exact (hA.bi_mem _ h).1

theorem sameDistrict_of_biChain (A : MG α) {P : α → Prop} {x y : α}
    (h : ReflTransGen (A.BiIn P) x y) : A.SameDistrict x y := by
  induction h with
  | refl => exact .refl
  | tail _ hbc ih => exact ih.tail hbc.1

theorem adj_mem_nodes (A : MG α) (hA : A.WF) {u v : α} (h : A.Adj u v) : u ∈ A.nodes ∧ v ∈ A.nodes := by
  rcases h with h | h | h | h
  · exact hA.di_mem _ h
  · exact (hA.di_mem _ h).symm
  · exact hA.bi_mem _ h
  · exact (hA.bi_mem _ h).symm

/-- every edge of the evidence graph is an edge of the augmented graph (relational definition) -/
theorem augEdge_of_biEdge_augment (A : MG α) (hA : A.WF) (u v : α)
    (h : ((closures A).foldl addClique A.moralize.disorient).BiEdge u v) :
    A.AugEdge (· ∈ A.nodes) u v := by
  rw [biEdge_foldl_addClique] at h
  rcases h with h | ⟨cl, hcl, h⟩
  · rw [edge_disorient, diEdge_moralize, diEdge_moralize, biEdge_moralize_links] at h
    rcases h with h | h | h | h | h
    · exact ⟨(hA.di_mem _ h).1, (hA.di_mem _ h).2, Or.inl (Or.inl h)⟩
    · exact ⟨(hA.di_mem _ h).2, (hA.di_mem _ h).1, Or.inl (Or.inr (Or.inl h))⟩
    · have := adj_mem_nodes A hA (Or.inr (Or.inr h))
      exact ⟨this.1, this.2, Or.inl (Or.inr (Or.inr h))⟩
    · obtain ⟨n, hu, hv⟩ := moralLink_coparents A h
      exact ⟨(hA.di_mem _ hu).1, (hA.di_mem _ hv).1, Or.inr ⟨n, n, (hA.di_mem _ hu).2, (hA.di_mem _ hu).2,
        .refl, Or.inr hu, Or.inr hv⟩⟩
    · obtain ⟨n, hv, hu⟩ := moralLink_coparents A h
      exact ⟨(hA.di_mem _ hu).1, (hA.di_mem _ hv).1, Or.inr ⟨n, n, (hA.di_mem _ hu).2, (hA.di_mem _ hu).2,
        .refl, Or.inr hu, Or.inr hv⟩⟩
  · have huv : u ∈ cl ∧ v ∈ cl := by
      rcases h with h | h
      · exact mem_pairs_sub h
      · exact (mem_pairs_sub h).symm
    obtain ⟨d0, hd0, hcl0, x0, hx0, hux0⟩ := mem_closures A cl u hcl huv.1
    -- use one decomposition for both endpoints
    obtain ⟨y0, hy0, hvy0⟩ : ∃ y0 ∈ d0, v = y0 ∨ A.DiEdge v y0 := by
      have hv' : v ∈ d0 ++ dedup' ((d0.flatMap A.parents).filter (· ∉ d0)) := hcl0 ▸ huv.2
      rcases List.mem_append.1 hv' with hv' | hv'
      · exact ⟨v, hv', Or.inl rfl⟩
      · simp only [mem_dedup', List.mem_filter, List.mem_flatMap, decide_eq_true_eq] at hv'
        obtain ⟨⟨y0, hy0, hvy0⟩, _⟩ := hv'
        exact ⟨y0, hy0, Or.inr ((mem_parents_iff A y0 v).1 hvy0)⟩
    have hx0n : x0 ∈ A.nodes := (districts_cover A hA x0).2 ⟨d0, hd0, hx0⟩
    have hy0n : y0 ∈ A.nodes := (districts_cover A hA y0).2 ⟨d0, hd0, hy0⟩
    have hsd : A.SameDistrict x0 y0 := (districts_spec A hA d0 hd0 x0 hx0 y0).1 hy0
    have hun : u ∈ A.nodes := by
      rcases hux0 with rfl | h'
      · exact hx0n
      · exact (hA.di_mem _ h').1
    have hvn : v ∈ A.nodes := by
      rcases hvy0 with rfl | h'
      · exact hy0n
      · exact (hA.di_mem _ h').1
    exact ⟨hun, hvn, Or.inr ⟨x0, y0, hx0n, hy0n, biChain_of_sameDistrict A hA hx0n hsd, hux0, hvy0⟩⟩

/-- every edge of the augmented graph between distinct nodes is an edge of the evidence graph -/
theorem biEdge_augment_of_augEdge (A : MG α) (hA : A.WF) (u v : α) (hne : u ≠ v)
    (h : A.AugEdge (· ∈ A.nodes) u v) :
    ((closures A).foldl addClique A.moralize.disorient).BiEdge u v := by
  rw [biEdge_foldl_addClique]
  obtain ⟨_, _, h | ⟨x, y, hxn, _, hchain, hux, hvy⟩⟩ := h
  · left
    rw [edge_disorient, diEdge_moralize, diEdge_moralize, biEdge_moralize_links]
    rcases h with h | h | h
    · exact Or.inl h
    · exact Or.inr (Or.inl h)
    · exact Or.inr (Or.inr (Or.inl h))
  · right
    obtain ⟨d, hd, hxd⟩ := (districts_cover A hA x).1 hxn
    have hyd : y ∈ d := (districts_spec A hA d hd x hxd y).2 (sameDistrict_of_biChain A hchain)
    refine ⟨d ++ dedup' ((d.flatMap A.parents).filter (· ∉ d)), ?_, ?_⟩
    · simp only [closures, List.mem_map]; exact ⟨d, hd, rfl⟩
    · exact mem_pairs_of_mem (mem_closure_of A d x u hxd hux) (mem_closure_of A d y v hyd hvy) hne

theorem mem_nodes_evidence (A : MG α) (hA : A.WF) (v : α) :
    v ∈ ((closures A).foldl addClique A.moralize.disorient).nodes ↔ v ∈ A.nodes := by
  rw [mem_nodes_foldl_addClique]
  constructor
  · rintro (h | ⟨cl, hcl, ⟨x, y⟩, he, h⟩)
    · simp only [disorient, mem_nodes_fromEdges, List.not_mem_nil, false_and, exists_false, false_or,
        List.mem_append] at h
      rcases h with h | ⟨e, he | he, h⟩
      · exact (mem_nodes_moralize A hA v).1 h
      · have he' : A.DiEdge e.1 e.2 := (diEdge_moralize A e.1 e.2).1 he
        rcases h with rfl | rfl
        · exact (hA.di_mem _ he').1
        · exact (hA.di_mem _ he').2
      · have he' : A.moralize.BiEdge e.1 e.2 := Or.inl he
        have := augEdge_of_biEdge_augment A hA e.1 e.2 (by
          rw [biEdge_foldl_addClique]; left
          rw [edge_disorient]; exact Or.inr (Or.inr he'))
        rcases h with rfl | rfl
        · exact this.1
        · exact this.2.1
    · have := augEdge_of_biEdge_augment A hA x y (by
        rw [biEdge_foldl_addClique]; right; exact ⟨cl, hcl, Or.inl he⟩)
      rcases h with rfl | rfl
      · exact this.1
      · exact this.2.1
  · intro h
    left
    simp only [disorient, mem_nodes_fromEdges]
    exact Or.inl ((mem_nodes_moralize A hA v).2 h)

/-! ### the ancestral sub-graph -/

theorem augEdge_congr (G : MG α) {P Q : α → Prop} (h : ∀ w, P w ↔ Q w) (u v : α) :
    G.AugEdge P u v ↔ G.AugEdge Q u v := by
  have : P = Q := funext fun w => propext (h w)
  rw [this]

theorem biIn_subgraph (G : MG α) (K : List α) :
    (G.subgraph K).BiIn (· ∈ (G.subgraph K).nodes) = G.BiIn (· ∈ K) := by
  funext x y
  apply propext
  simp only [BiIn, biEdge_subgraph, mem_nodes_subgraph]
  tauto

theorem augEdge_subgraph (G : MG α) (K : List α) (u v : α) :
    (G.subgraph K).AugEdge (· ∈ (G.subgraph K).nodes) u v ↔ G.AugEdge (· ∈ K) u v := by
  unfold AugEdge
  rw [biIn_subgraph]
  simp only [mem_nodes_subgraph, Adj, diEdge_subgraph, biEdge_subgraph]
  constructor
  · rintro ⟨hu, hv, h | ⟨x, y, hx, hy, hc, hux, hvy⟩⟩
    · exact ⟨hu, hv, Or.inl (by tauto)⟩
    · exact ⟨hu, hv, Or.inr ⟨x, y, hx, hy, hc, by tauto, by tauto⟩⟩
  · rintro ⟨hu, hv, h | ⟨x, y, hx, hy, hc, hux, hvy⟩⟩
    · exact ⟨hu, hv, Or.inl (by tauto)⟩
    · exact ⟨hu, hv, Or.inr ⟨x, y, hx, hy, hc, by tauto, by tauto⟩⟩

/-! ### reachability -/

theorem mem_reach (F : MG α) (hF : F.WF) (a : α) (ha : a ∈ F.nodes) (b : α) :
    b ∈ F.reach a ↔ ReflTransGen F.BiEdge a b := mem_districtOf F hF a ha b

end MG
end Y0
