/-
  Y0.Lemmas.FscmObs — on the estimands of ID (purely observational, well scoped: `ObsOnly`, `ObsWS`) the environment of
  a functional SCM (`M.fscmEnv card`, Y0/Spec/FscmEnv.lean) and the environment of the semi-Markovian model it induces
  (`(M.toScm card base).env G`, Y0/Spec/FscmToScm.lean, Scm.lean) give the same denotation (`den_fscmEnv_eq_toScm`).
  With `fscm_toScm_F` this transports C01 `id_sound` to functional SCMs (Y0/Props/C10SemId.lean: `id_sound_fscm`).
-/
import Y0.Lemmas.FscmToScm
import Y0.Lemmas.ScmEnvXAgree
import Y0.Lemmas.IdObsWS

namespace Y0
namespace Fscm
open TianProb

variable {M : Model} {card : Name → Nat} {base : Nat} {G : MG Name}

theorem sumVars_congr_card (c₁ c₂ : Name → Nat) (P : Val → Prop)
    (hP : ∀ τ x k, P τ → k < c₁ x → P (Val.set τ x k)) : ∀ (xs : List Name) (f g : Val → Rat), (∀ x ∈ xs, c₁ x = c₂ x) →
    (∀ τ, P τ → f τ = g τ) → ∀ σ, P σ → sumVars c₁ xs f σ = sumVars c₂ xs g σ
  | [], f, g, _, h, σ, hσ => h σ hσ
  | x :: xs, f, g, hc, h, σ, hσ => by
    simp only [sumVars, sumVar_eq_sum]
    rw [← hc x List.mem_cons_self]
    apply Finset.sum_congr rfl
    intro k hk
    exact sumVars_congr_card c₁ c₂ P hP xs f g (fun y hy => hc y (List.mem_cons_of_mem _ hy)) h _
      (hP σ x k hσ (Finset.mem_range.mp hk))

/-- the conjunction denoted by plain variables with pairwise distinct names that are nodes: same probability in both
environments -/
theorem pr_plain_eq (hOK : ToScmOK M card base G) (σ σ' : Val) (vs : List Var)
    (hp : ∀ v ∈ vs, v = Var.plain v.name) (hn : (vs.map (·.name)).Nodup) (hV : ∀ v ∈ vs, v.name ∈ G.nodes)
    (hσ : ∀ x, σ x < card x) :
    (M.fscmEnv card).pr none (vs.map (Var.atom σ σ')) =
      ((M.toScm card base).env G).pr none (vs.map (Var.atom σ σ')) := by
  have hatom : ∀ v ∈ vs, Var.atom σ σ' v = ⟨v.name, [], σ v.name⟩ := by
    intro v hv
    rw [hp v hv]
    rfl
  by_cases hne : vs = []
  · subst hne
    show prob M [] = Scm.prAtoms (M.toScm card base) G []
    rw [prob_nil hOK.wf]
    rfl
  show _ = Scm.prAtoms (M.toScm card base) G (vs.map (Var.atom σ σ'))
  rw [Scm.prAtoms_sameWorld [] (vs.map (Var.atom σ σ')) (by simpa using hne)
    (fun a ha => by
      obtain ⟨v, hv, rfl⟩ := List.mem_map.mp ha
      rw [hatom v hv])]
  rw [fscm_toScm_prDo hOK [] _ ⟨by simp, by simp⟩
    (by
      have : ((vs.map (Var.atom σ σ')).map (fun b : Atom => (b.name, b.val))).map (·.1) = vs.map (·.name) := by
        rw [List.map_map, List.map_map]
        apply List.map_congr_left
        intro v hv
        simp [hatom v hv]
      rw [this]
      exact hn)
    (by
      intro p hp'
      simp only [List.mem_map] at hp'
      obtain ⟨a, ⟨v, hv, rfl⟩, rfl⟩ := hp'
      rw [hatom v hv]
      exact ⟨hV v hv, by simp⟩)
    (by
      intro p hp'
      simp only [List.mem_map] at hp'
      obtain ⟨a, ⟨v, hv, rfl⟩, rfl⟩ := hp'
      rw [hatom v hv]
      exact hσ _)]
  congr 1
  rw [List.map_map, List.map_map]
  apply List.map_congr_left
  intro v hv
  simp [hatom v hv]

mutual
/-- **on ID estimands the functional model and its induced semi-Markovian model give the same denotation** -/
theorem den_fscmEnv_eq_toScm (hOK : ToScmOK M card base G) (σ' : Val) : ∀ (e : Expr), ObsOnly G.nodes e → ObsWS e →
    ∀ σ, (∀ x, σ x < card x) → den (M.fscmEnv card) σ' e σ = den ((M.toScm card base).env G) σ' e σ
  | .prob pop c p, ho, hw, σ, hσ => by
    cases ho with
    | prob _ _ hc hp =>
      cases hw with
      | prob _ _ _ _ hn hpl =>
        have hall : ∀ v ∈ c ++ p, v.PlainIn G.nodes := by
          intro v hv
          rcases List.mem_append.mp hv with h | h
          · exact hc v h
          · exact hp v h
        simp only [den, Option.map_none]
        rw [pr_plain_eq hOK σ σ' (c ++ p) (fun v hv => (hall v hv).1) hn (fun v hv => (hall v hv).2) hσ,
          pr_plain_eq hOK σ σ' p (fun v hv => (hp v hv).1)
            (by rw [List.map_append] at hn; exact (List.nodup_append.mp hn).2.1) (fun v hv => (hp v hv).2) hσ]
  | .prod fs, ho, hw, σ, hσ => by
    simp only [den]
    exact denProd_fscmEnv_eq_toScm hOK σ' fs (obsOnly_prod_inv ho) (obsWS_prod_inv hw) σ hσ
  | .sum e r, ho, hw, σ, hσ => by
    cases ho with
    | sum _ _ he hr =>
      cases hw with
      | sum _ _ hwe _ _ =>
        simp only [den]
        apply sumVars_congr_card (M.fscmEnv card).card ((M.toScm card base).env G).card (fun τ => ∀ x, τ x < card x)
        · intro τ x k hτ hk y
          by_cases e : y = x
          · subst e; rw [Val.set_same]; exact hk
          · rw [Val.set_other _ _ e]; exact hτ y
        · intro x hx
          obtain ⟨v, hv, rfl⟩ := List.mem_map.mp hx
          have hvb : v.name < base := hOK.base_gt _ ((mem_nodes_iff hOK).mp (hr v hv).2)
          show card v.name = M.cardS card base v.name
          rw [cardS_node M card hvb]
        · intro τ hτ
          exact den_fscmEnv_eq_toScm hOK σ' e he hwe τ hτ
        · exact hσ
  | .frac n d, ho, hw, σ, hσ => by
    obtain ⟨h1, h2⟩ := obsOnly_frac_inv ho
    obtain ⟨w1, w2⟩ := obsWS_frac_inv hw
    simp only [den]
    rw [den_fscmEnv_eq_toScm hOK σ' n h1 w1 σ hσ, den_fscmEnv_eq_toScm hOK σ' d h2 w2 σ hσ]
  | .one, _, _, σ, _ => by simp [den]
  | .zero, _, _, σ, _ => by simp [den]
  | .q _ _, ho, _, _, _ => by cases ho
theorem denProd_fscmEnv_eq_toScm (hOK : ToScmOK M card base G) (σ' : Val) : ∀ (fs : List Expr),
    (∀ f ∈ fs, ObsOnly G.nodes f) → (∀ f ∈ fs, ObsWS f) →
    ∀ σ, (∀ x, σ x < card x) → denProd (M.fscmEnv card) σ' fs σ = denProd ((M.toScm card base).env G) σ' fs σ
  | [], _, _, σ, _ => by simp [denProd]
  | e :: es, ho, hw, σ, hσ => by
    simp only [denProd]
    rw [den_fscmEnv_eq_toScm hOK σ' e (ho e List.mem_cons_self) (hw e List.mem_cons_self) σ hσ,
      denProd_fscmEnv_eq_toScm hOK σ' es (fun f hf => ho f (List.mem_cons_of_mem _ hf))
        (fun f hf => hw f (List.mem_cons_of_mem _ hf)) σ hσ]
end

end Fscm
end Y0
