/-
  Y0.Lemmas.CtfTrPopDen — the declared distribution `P^t(V)` of a source domain of a counterfactual-transport query
  denotes Tian's `Q[V]` of the semi-Markovian model induced by the functional model of that domain
  (hypothesis `hpop` of `sigmaTRDomain_sound`, Y0/Lemmas/CtfTrSigma.lean), and the glue around it:

    pop_den_eq_Q                   den (toScm S).env σ' P^t(regular G) σ = (toScm S).Q (topo ∩ regular G) σ      (every σ)
    pop_probShape                  the leaf has the shape `ProbShape` that `computeCFactor` is proved for
    topoOrdered_of_validTopoList   `_valid_topo_list` accepts  ⇒  `TianSpec.TopoOrdered`
    ranked_of_isAcyclic            `is_directed_acyclic_graph`  ⇒  `G.Ranked`
    toScmOK_of_proper / toScm_compatible_of_proper

  The selection nodes `T_v` of the selection diagram are nodes of the functional model that are inert
  (`Fscm.SelectionInert`): one value, no arguments, read by nobody.  So their kernel is `1`, summing over them is
  evaluating at `0`, and the kernels of the regular nodes do not look at them.
-/
import Y0.Spec.CtfFamilySpec
import Y0.Lemmas.FscmToScmCompat
import Y0.Lemmas.ScmEnvXAgree
import Y0.Lemmas.CtfTrShape
import Y0.Lemmas.IdRank
import Y0.Props.C14

namespace Y0.CtfTr
open Trso (isTnode)
open Fscm TianProb

variable {S : Fscm.Model} {card : Name → Nat} {base : Nat} {G : MG Name}

/-! ### small arithmetic -/

/-- summing over variables with a single value is evaluating at that value -/
theorem sumVars_card_one (card : Name → Nat) : ∀ (xs : List Name) (f : Val → Rat) (σ : Val),
    (∀ x ∈ xs, card x = 1) → (∀ x ∈ xs, σ x = 0) → sumVars card xs f σ = f σ
  | [], _, _, _, _ => rfl
  | x :: xs, f, σ, hc, hz => by
    simp only [sumVars, sumVar, sumRange]
    rw [hc x List.mem_cons_self]
    simp only [List.range_one, List.map_cons, List.map_nil, List.sum_cons, List.sum_nil, add_zero]
    have hset : σ.set x 0 = σ := by
      have := Val.set_self σ x
      rwa [hz x List.mem_cons_self] at this
    rw [hset]
    exact sumVars_card_one card xs f σ (fun y hy => hc y (List.mem_cons_of_mem _ hy))
      (fun y hy => hz y (List.mem_cons_of_mem _ hy))

/-- factors equal to one can be filtered out of a product -/
theorem prod_map_filter_one {α} (p : α → Bool) (f : α → Rat) : ∀ (l : List α), (∀ a ∈ l, p a = false → f a = 1) →
    (l.map f).prod = ((l.filter p).map f).prod
  | [], _ => rfl
  | a :: l, h => by
    have ih := prod_map_filter_one p f l (fun b hb => h b (List.mem_cons_of_mem _ hb))
    by_cases hp : p a = true
    · rw [List.filter_cons_of_pos hp, List.map_cons, List.map_cons, List.prod_cons, List.prod_cons, ih]
    · have hp' : p a = false := by simpa using hp
      rw [List.filter_cons_of_neg hp, List.map_cons, List.prod_cons, h a List.mem_cons_self hp', one_mul, ih]

/-! ### kernels of the induced model and selection nodes -/

/-- the kernel of a selection node at its only value is `1` -/
theorem kernOf_sel (hOK : ToScmOK S card base G) {sel : List Name} (hsel : SelectionInert S card sel) {t : Name}
    (ht : t ∈ sel) {τ : Val} (h0 : τ t = 0) : S.kernOf card base t τ = 1 := by
  have hc := hsel.card_one t ht
  unfold Model.kernOf
  rw [if_pos (by rw [h0, hc]; exact Nat.one_pos)]
  have hp : S.privOf base t = [] := by
    unfold Model.privOf
    rw [hsel.no_lat t ht]
    rfl
  rw [hp]
  simp only [sumVars, List.map_nil, List.prod_nil, one_mul]
  unfold Model.eqn
  rw [hsel.no_pa t ht, hsel.no_lat t ht, h0]
  have hf := hOK.wf.f_range t [] []
  rw [hc] at hf
  have : S.f t [] [] = 0 := by omega
  simp [this]

/-- the kernel of `v` reads `v`, the observed arguments `S.pa v` of its mechanism and its shared noise (sharper than
`toScm_kern_dep`, which allows all graph parents — in a selection diagram these include the selection node of `v`) -/
theorem kernOf_dependsOnly_pa (S : Fscm.Model) (card : Name → Nat) (base : Nat) (v : Name) :
    DependsOnly (S.kernOf card base v) (v :: S.pa v ++ (S.toScm card base).latOf v) := by
  set K := v :: S.pa v ++ (S.toScm card base).latOf v with hK
  have hsum : DependsOnly (sumVars (S.cardS card base) (S.privOf base v) (kInt S base v)) K := by
    apply dependsOnly_restrict (S.privOf base v)
    · intro x hx _
      exact sumVars_indep_mem _ _ _ hx
    · apply sumVars_dependsOnly
      intro σ τ h
      unfold kInt
      have h1 : prL S base (S.privOf base v) σ = prL S base (S.privOf base v) τ := by
        unfold prL
        congr 1
        apply List.map_congr_left
        intro n hn
        rw [h n (List.mem_append_left _ hn)]
      have hv' : σ v = τ v := h v (List.mem_append_right _ (by rw [hK]; simp))
      have hpa : (S.pa v).map σ = (S.pa v).map τ := by
        apply List.map_congr_left
        intro p hp
        apply h p
        apply List.mem_append_right
        rw [hK]
        apply List.mem_cons_of_mem
        exact List.mem_append_left _ hp
      have hlat : (S.lat v).map (fun j => σ (base + j)) = (S.lat v).map fun j => τ (base + j) := by
        apply List.map_congr_left
        intro j hj
        apply h
        by_cases hp : S.isPriv j = true
        · exact List.mem_append_left _ (mem_privOf.mpr ⟨j, hj, hp, rfl⟩)
        · apply List.mem_append_right
          rw [hK]
          apply List.mem_cons_of_mem
          apply List.mem_append_right
          simp only [Model.toScm, List.mem_map, List.mem_filter, Bool.not_eq_true']
          exact ⟨j, ⟨hj, by simpa using hp⟩, rfl⟩
      unfold Model.eqn
      rw [h1, hpa, hlat, hv']
  intro σ τ h
  have hv' : σ v = τ v := h v (by rw [hK]; simp)
  unfold Model.kernOf
  rw [hv']
  split
  · exact hsum σ τ h
  · rfl

/-- `Q[R]` of the induced model depends only on the values of `R`, when the mechanisms of `R` read only members of `R` -/
theorem toScm_Q_dependsOnly (hOK : ToScmOK S card base G) (R : List Name) (hpa : ∀ v ∈ R, ∀ p ∈ S.pa v, p ∈ R) :
    DependsOnly ((S.toScm card base).Q R) R := by
  set Ms := S.toScm card base with hMs
  have hlatsub : ∀ v, ∀ u ∈ Ms.latOf v, u ∈ Ms.lat := by
    intro v u hu
    simp only [hMs, Model.toScm, List.mem_map, List.mem_filter, Bool.not_eq_true'] at hu
    obtain ⟨j, ⟨hj, hs⟩, rfl⟩ := hu
    exact mem_toScm_lat.mpr ⟨j, hOK.lat_lt v j hj, hs, rfl⟩
  have hw : DependsOnly (Ms.weight R) (Ms.lat ++ R) := by
    apply DependsOnly.mul
    · apply dependsOnly_listProd Ms.lat (fun u τ => Ms.prior u (τ u))
      intro u hu σ τ h
      show Ms.prior u (σ u) = Ms.prior u (τ u)
      rw [h u (List.mem_append_left _ hu)]
    · apply dependsOnly_listProd R (fun v τ => Ms.kern v τ)
      intro v hv
      apply (kernOf_dependsOnly_pa S card base v).mono
      intro x hx
      rw [List.cons_append, List.mem_cons, List.mem_append] at hx
      rcases hx with rfl | hx | hx
      · exact List.mem_append_right _ hv
      · exact List.mem_append_right _ (hpa _ hv x hx)
      · exact List.mem_append_left _ (hlatsub v x hx)
  unfold Scm.Q
  apply dependsOnly_restrict Ms.lat
  · intro u hu _
    exact sumVars_indep_mem Ms.card Ms.lat _ hu
  · exact sumVars_dependsOnly Ms.card Ms.lat hw

/-- `Q[∅] = 1`: the shared noise sums to one -/
theorem toScm_Q_nil (hOK : ToScmOK S card base G) (σ : Val) : (S.toScm card base).Q [] σ = 1 := by
  have h := sumVars_prL_one hOK (S.toScm card base).lat toScm_lat_nodup (fun n hn => by
    obtain ⟨j, hj, _, rfl⟩ := mem_toScm_lat.mp hn
    rw [mem_noiseNames]; omega) σ
  unfold Scm.Q Scm.weight
  simp only [List.map_nil, List.prod_nil, mul_one]
  exact h

/-! ### the distribution of a source domain -/

theorem plainVars_perm (ns : List Name) (hnd : ns.Nodup) : (TrDsl.plainVars ns).Perm (ns.map Var.plain) := by
  unfold TrDsl.plainVars TrDsl.sortVars
  have h1 : (TrDsl.ssort Var.keyLt (dedup' (ns.map Var.plain))).Perm (dedup' (ns.map Var.plain)) := ssort_perm _ _
  have hnd' : (ns.map Var.plain).Nodup := by
    apply List.Nodup.map _ hnd
    intro a b hab
    have : (Var.plain a).name = (Var.plain b).name := by rw [hab]
    exact this
  rw [dedup'_of_nodup hnd'] at h1 ⊢
  exact h1

theorem mem_regular {G : MG Name} {v : Name} : v ∈ regular G ↔ v ∈ G.nodes ∧ isTnode v = false := by
  unfold regular
  simp [List.mem_filter]

/-- the filtered topological order lists the regular nodes -/
theorem topo_filter_regular_perm (hnd : G.nodes.Nodup) (topo : List Name) (htnd : topo.Nodup)
    (hcov : ∀ v, v ∈ topo ↔ v ∈ G.nodes) : (topo.filter (· ∈ regular G)).Perm (regular G) := by
  have hregnd : (regular G).Nodup := hnd.filter _
  rw [List.perm_ext_iff_of_nodup (htnd.filter _) hregnd]
  intro v
  simp only [List.mem_filter, decide_eq_true_eq]
  constructor
  · exact fun h => h.2
  · intro h
    exact ⟨(hcov v).mpr (mem_regular.mp h).1, h⟩

/-- **the declared distribution `P^t(V)` of a source domain denotes `Q[V]` of the induced semi-Markovian model**
(`V` = the regular nodes of the selection diagram in the order `topo`), at EVERY valuation `σ` -/
theorem pop_den_eq_Q (S : Fscm.Model) (card : Name → Nat) (base : Nat) (G : MG Name)
    (hOK : Fscm.ToScmOK S card base G)
    (hsel : Fscm.SelectionInert S card (G.nodes.filter Trso.isTnode))
    (topo : List Name) (htnd : topo.Nodup) (hcov : ∀ v, v ∈ topo ↔ v ∈ G.nodes) (t : Name) (σ' : Val) :
    ∀ σ, den ((S.toScm card base).env G) σ' (.prob (some (Var.plain t)) (TrDsl.plainVars (regular G)) []) σ =
          (S.toScm card base).Q (topo.filter (· ∈ regular G)) σ := by
  intro σ
  set Ms := S.toScm card base with hMs
  have hnd : G.nodes.Nodup := nodes_nodup hOK
  have hregnd : (regular G).Nodup := hnd.filter _
  rw [Scm.Q_perm Ms (topo_filter_regular_perm hnd topo htnd hcov)]
  show Ms.prAtoms G ((TrDsl.plainVars (regular G) ++ []).map (Var.atom σ σ')) /
      Ms.prAtoms G (([] : List Var).map (Var.atom σ σ')) = _
  have hnil : Ms.prAtoms G (([] : List Var).map (Var.atom σ σ')) = 1 := rfl
  rw [hnil, div_one, List.append_nil]
  have hvs := plainVars_perm (regular G) hregnd
  by_cases hempty : regular G = []
  · rw [hempty] at hvs ⊢
    have : TrDsl.plainVars [] = [] := List.Perm.eq_nil hvs
    rw [this]
    exact (toScm_Q_nil hOK σ).symm
  -- the atoms
  set vs := TrDsl.plainVars (regular G) with hvsdef
  have hplain : ∀ v ∈ vs, ∃ n, n ∈ regular G ∧ v = Var.plain n := by
    intro v hv
    obtain ⟨n, hn, rfl⟩ := List.mem_map.mp (hvs.mem_iff.mp hv)
    exact ⟨n, hn, rfl⟩
  have hne : vs.map (Var.atom σ σ') ≠ [] := by
    intro h
    have h2 : vs = [] := List.map_eq_nil_iff.mp h
    rw [h2] at hvs
    exact hempty (List.map_eq_nil_iff.mp (List.Perm.nil_eq hvs).symm)
  have hdos : ∀ a ∈ vs.map (Var.atom σ σ'), a.dos = [] := by
    intro a ha
    obtain ⟨v, hv, rfl⟩ := List.mem_map.mp ha
    obtain ⟨n, _, rfl⟩ := hplain v hv
    rfl
  set names := vs.map (·.name) with hnamesdef
  have hnames : names.Perm (regular G) := sortVars_plain_names (regular G) hregnd
  set ev := names.map (fun n => (n, σ n)) with hevdef
  have hev : (vs.map (Var.atom σ σ')).map (fun b => (b.name, b.val)) = ev := by
    rw [hevdef, hnamesdef, List.map_map, List.map_map]
    apply List.map_congr_left
    intro v hv
    obtain ⟨n, _, rfl⟩ := hplain v hv
    rfl
  rw [Scm.prAtoms_sameWorld [] _ hne hdos, hev]
  -- the valuation at which `prDo` evaluates
  set σ₁ : Val := fun n => if n ∈ regular G then σ n else 0 with hσ₁
  have hevfst : ev.map (·.1) = names := by
    rw [hevdef, List.map_map]
    conv_rhs => rw [← List.map_id names]
    apply List.map_congr_left
    intro n _
    rfl
  have hread : ∀ a ∈ ([] : List (Name × Nat)) ++ ev, a.2 = σ₁ a.1 := by
    intro a ha
    rw [List.nil_append] at ha
    obtain ⟨n, hn, rfl⟩ := List.mem_map.mp ha
    show σ n = σ₁ n
    rw [hσ₁]
    simp only
    rw [if_pos (hnames.mem_iff.mp hn)]
  have hcons : Scm.consistent (([] : List (Name × Nat)) ++ ev) = true := consistent_of_read σ₁ _ hread
  have hσ₀ : Val.setMany (fun _ => 0) (([] : List (Name × Nat)) ++ ev) = σ₁ := by
    funext n
    apply setMany_agrees σ₁ _ _ n hread
    by_cases hn : n ∈ regular G
    · left
      rw [List.nil_append, hevfst]
      exact hnames.mem_iff.mpr hn
    · right
      rw [hσ₁]
      simp only
      rw [if_neg hn]
  have hprDo : Ms.prDo G [] ev =
      sumVars Ms.card (G.nodes.filter (fun v => v ∉ ([] : List Name) ∧ v ∉ ev.map (·.1)))
        (Ms.Q (G.nodes.filter (· ∉ ([] : List Name)))) (Val.setMany (fun _ => 0) (([] : List (Name × Nat)) ++ ev)) := by
    unfold Scm.prDo
    rw [hcons]
    rfl
  rw [hprDo, hσ₀]
  have hf1 : G.nodes.filter (fun v => decide (v ∉ ([] : List Name) ∧ v ∉ ev.map (·.1))) = G.nodes.filter isTnode := by
    apply List.filter_congr
    intro v hv
    rw [hevfst]
    by_cases hT : isTnode v = true
    · have : v ∉ names := fun h => by
        have := (mem_regular.mp (hnames.mem_iff.mp h)).2
        rw [hT] at this
        cases this
      simp [hT, this]
    · have hT' : isTnode v = false := by simpa using hT
      have : v ∈ names := hnames.mem_iff.mpr (mem_regular.mpr ⟨hv, hT'⟩)
      simp [hT', this]
  have hf2 : G.nodes.filter (fun v => decide (v ∉ ([] : List Name))) = G.nodes := by
    apply List.filter_eq_self.mpr
    intro v _
    simp
  rw [hf1, hf2]
  -- selection nodes have one value
  have hlt : ∀ v ∈ G.nodes, v < base := fun v hv => hOK.base_gt v ((mem_nodes_iff hOK).mp hv)
  have hσ₁T : ∀ x ∈ G.nodes.filter isTnode, σ₁ x = 0 := by
    intro x hx
    have hxT := (List.mem_filter.mp hx).2
    rw [hσ₁]
    simp only
    rw [if_neg]
    intro h
    have := (mem_regular.mp h).2
    rw [hxT] at this
    cases this
  rw [sumVars_card_one Ms.card (G.nodes.filter isTnode) _ σ₁
    (fun x hx => by
      show S.cardS card base x = 1
      rw [cardS_node S card (hlt x (List.mem_filter.mp hx).1)]
      exact hsel.card_one x hx) hσ₁T]
  -- their kernels are one
  have hQ : Ms.Q G.nodes σ₁ = Ms.Q (regular G) σ₁ := by
    unfold Scm.Q
    apply sumVars_congr_outside
    intro τ hτ
    unfold Scm.weight
    congr 1
    unfold regular
    apply prod_map_filter_one (fun n => !isTnode n) (fun v => Ms.kern v τ)
    intro x hx hxT
    have hxsel : x ∈ G.nodes.filter isTnode := List.mem_filter.mpr ⟨hx, by simpa using hxT⟩
    apply kernOf_sel hOK hsel hxsel
    rw [hτ x, hσ₁T x hxsel]
    intro hxl
    obtain ⟨j, _, _, e⟩ := mem_toScm_lat.mp hxl
    exact ne_base_add (hlt x hx) e
  rw [hQ]
  -- the regular kernels do not read the selection nodes
  apply toScm_Q_dependsOnly hOK (regular G)
  · intro v hv p hp
    have hvn := (mem_regular.mp hv).1
    have hvo := (mem_nodes_iff hOK).mp hvn
    obtain ⟨l₁, l₂, hord⟩ := List.append_of_mem hvo
    have hpo : p ∈ S.order := by
      rw [hord]
      exact List.mem_append_left _ (hOK.compat.topo l₁ v l₂ hord p hp)
    refine mem_regular.mpr ⟨(mem_nodes_iff hOK).mpr hpo, ?_⟩
    by_contra hT
    have hT' : isTnode p = true := by simpa using hT
    exact hsel.unread v p (List.mem_filter.mpr ⟨(mem_nodes_iff hOK).mpr hpo, hT'⟩) hp
  · intro v hv
    rw [hσ₁]
    simp only
    rw [if_pos hv]

/-- **shape of the declared distribution**: a leaf over the plain regular variables, in the empty world, without
conditioning part -/
theorem pop_probShape (G : MG Name) (hnd : G.nodes.Nodup) (topo : List Name) (htnd : topo.Nodup)
    (hcov : ∀ v, v ∈ topo ↔ v ∈ G.nodes) (t : Name) :
    TianSpec.ProbShape (.prob (some (Var.plain t)) (TrDsl.plainVars (regular G)) [])
      (topo.filter (· ∈ regular G)) := by
  have hregnd : (regular G).Nodup := hnd.filter _
  apply TianSpec.probShape_of_exact _ _ _ _ []
  · exact (sortVars_plain_names (regular G) hregnd).trans (topo_filter_regular_perm hnd topo htnd hcov).symm
  · intro v hv
    rw [List.append_nil] at hv
    obtain ⟨n, _, rfl⟩ := List.mem_map.mp ((plainVars_perm (regular G) hregnd).mem_iff.mp hv)
    exact ⟨rfl, by simp [Var.plain]⟩
  · intro i hi
    cases hi
  · intro p hp
    cases hp

/-! ### the topological order and acyclicity checks of the validator -/

/-- `_valid_topo_list` accepts a duplicate-free order only if no element is a parent of an earlier one -/
theorem topoOrdered_of_validTopoList (topo : List Name) (G : MG Name) (h : validTopoList topo G = .ok true)
    (htnd : topo.Nodup) : TianSpec.TopoOrdered G topo := by
  unfold validTopoList at h
  split at h
  · simp only [Except.ok.injEq, Bool.not_eq_true', List.any_eq_false, decide_eq_true_eq] at h
    intro l1 l2 hsplit a ha r hr hpar
    have he : (r, a) ∈ G.di := MG.mem_parents.mp hpar
    have hle := h (r, a) he
    simp only at hle
    rw [hsplit] at htnd
    have hdisj := (List.nodup_append.mp htnd).2.2
    have hrl1 : r ∉ l1 := fun hr1 => hdisj r hr1 r hr rfl
    have ha' : List.findIdx (fun x => decide (x = a)) topo < l1.length := by
      rw [hsplit, List.findIdx_append]
      have : List.findIdx (fun x => decide (x = a)) l1 < l1.length :=
        List.findIdx_lt_length_of_exists ⟨a, ha, by simp⟩
      rw [if_pos this]
      exact this
    have hr' : l1.length ≤ List.findIdx (fun x => decide (x = r)) topo := by
      rw [hsplit, List.findIdx_append]
      have : ¬ List.findIdx (fun x => decide (x = r)) l1 < l1.length := by
        intro hlt
        obtain ⟨x, hx, hxr⟩ := List.findIdx_lt_length.mp hlt
        have : x = r := by simpa using hxr
        exact hrl1 (this ▸ hx)
      rw [if_neg this]
      omega
    omega
  · cases h

/-- the acyclicity check of the validator gives a rank function -/
theorem ranked_of_isAcyclic (G : MG Name) (hG : G.WF) (h : G.isAcyclic = true) : G.Ranked :=
  MG.acyclic_ranked hG ((MG.isAcyclic_iff G hG).mp h)

/-! ### `Fscm.Proper` packages the hypotheses of `toScm_compatible` -/

theorem toScmOK_of_proper {M : Fscm.Model} (h : Fscm.Proper M card base G) : Fscm.ToScmOK M card base G :=
  ⟨h.wf, h.compat, h.base_gt, h.lat_lt, h.lat_nodup⟩

theorem toScm_compatible_of_proper {M : Fscm.Model} (h : Fscm.Proper M card base G) :
    (M.toScm card base).Compatible G :=
  toScm_compatible (toScmOK_of_proper h) h.normalised h.kern_pos

/-! ### non-vacuity: a selection diagram `T_0 → 0` with a binary variable driven by a fair coin -/

section example_popEx

/-- the selection diagram: the regular node `0` and its selection node `200 = T_0` -/
def popExG : MG Name := ⟨[0, 200], [(200, 0)], []⟩

/-- the functional model of the domain: `0 := u_0 mod 2`, the selection node is the constant `0` -/
def popExS : Fscm.Model :=
  { order := [200, 0]
    noise := [[1/2, 1/2]]
    pa := fun _ => []
    lat := fun v => if v = 0 then [0] else []
    f := fun v _ u => if v = 0 then u.getD 0 0 % 2 else 0 }

def popExCard : Name → Nat := fun v => if v = 0 then 2 else 1

theorem popEx_toScmOK : Fscm.ToScmOK popExS popExCard 1000 popExG := by
  refine ⟨⟨?_, ?_, ?_, ?_⟩, ⟨?_, ?_, ?_, ?_, ?_⟩, ?_, ?_, ?_⟩
  · intro x; unfold popExCard; split <;> omega
  · intro v a b
    unfold popExCard
    by_cases hv : v = 0
    · simp only [popExS, hv, if_true]; omega
    · simp [popExS, hv]
  · intro pmf hp p hpp
    simp only [popExS, List.mem_cons, List.not_mem_nil, or_false] at hp
    subst hp
    simp only [List.mem_cons, List.not_mem_nil, or_false] at hpp
    rcases hpp with rfl | rfl <;> norm_num
  · intro pmf hp
    simp only [popExS, List.mem_cons, List.not_mem_nil, or_false] at hp
    subst hp
    norm_num
  · exact List.Perm.swap _ _ _
  · decide
  · intro v p hp; simp [popExS] at hp
  · intro l₁ v l₂ _ p hp; simp [popExS] at hp
  · intro v w hne h
    obtain ⟨j, hj1, hj2⟩ := h
    have hv : v = 0 := by
      by_contra hv; simp [popExS, hv] at hj1
    have hw : w = 0 := by
      by_contra hw; simp [popExS, hw] at hj2
    exact absurd (hv.trans hw.symm) hne
  · decide
  · intro v j hj
    by_cases hv : v = 0
    · simp [popExS, hv] at hj ⊢; omega
    · simp [popExS, hv] at hj
  · intro v
    by_cases hv : v = 0
    · simp [popExS, hv]
    · simp [popExS, hv]

theorem popEx_selectionInert : Fscm.SelectionInert popExS popExCard (popExG.nodes.filter Trso.isTnode) := by
  have hsel : popExG.nodes.filter Trso.isTnode = [200] := by decide
  rw [hsel]
  refine ⟨?_, ?_, ?_, ?_⟩
  · intro t ht; rw [List.mem_singleton] at ht; subst ht; rfl
  · intro t _; rfl
  · intro t ht; rw [List.mem_singleton] at ht; subst ht; rfl
  · intro v t _ h; simp [popExS] at h

/-- the hypotheses of `pop_den_eq_Q` are satisfiable (with a non-trivial selection node) -/
example (t : Name) (σ' σ : Val) :
    den ((popExS.toScm popExCard 1000).env popExG) σ'
        (.prob (some (Var.plain t)) (TrDsl.plainVars (regular popExG)) []) σ =
      (popExS.toScm popExCard 1000).Q ([200, 0].filter (· ∈ regular popExG)) σ :=
  pop_den_eq_Q popExS popExCard 1000 popExG popEx_toScmOK popEx_selectionInert [200, 0] (by decide)
    (by intro v; simp [popExG]; tauto) t σ' σ

end example_popEx

end Y0.CtfTr
