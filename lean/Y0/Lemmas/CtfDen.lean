/-
  Y0.Lemmas.CtfDen — graph-side facts for the value theorem of the ctf-factor factorisation
  (`factorisation_den_partial`, Y0/Props/C19.lean):

    * the members of `An(Y_x)` (Def. 2.1), for plain and counterfactual `Y_x` alike, with the concrete list form of their
      subscripts (`CtfAnc`);
    * a member of `An(Y_x)` is not a subscript of `Y_x` (when `Y_x` does not intervene on itself), is the same random
      variable as its vertex in the world `x`, and its unintervened parents are members again, looked at in an
      agreeing world.
-/
import Y0.Lemmas.CtfAncSpec
import Y0.Lemmas.CtfCompose

namespace Y0.Ctf
open Relation Y0.MG Y0.Fscm

/-- `w ∈ An(v)` with the list form of the subscripts: `w.ivs` is a sublist of `v.ivs` selected by name -/
def CtfAnc (g : MG Name) (v w : Var) : Prop :=
  IsCtfAncestor g v w ∧ ∃ P : Name → Bool, w.ivs = v.ivs.filter (fun i => P i.name)

theorem ancUnder_nil (g : MG Name) (y a : Name) : AncUnder g [] y a ↔ ReflTransGen g.DiEdge a y := by
  constructor <;> intro h
  · exact ReflTransGen.mono (fun _ _ huv => huv.1) _ _ h
  · exact ReflTransGen.mono (fun _ _ huv => ⟨huv, by simp⟩) _ _ h

/-- a variable that is not counterfactual and passes `get_ancestors_of_counterfactual` is `Variable(name)` -/
theorem plain_of_ctfAncestors (g : MG Name) (v : Var) (A : List Var) (hcf : v.isCf = false)
    (h : ctfAncestors g v = .ok A) : v = Var.plain v.name := by
  unfold ctfAncestors at h
  simp only [hcf, Bool.not_false, ↓reduceIte] at h
  split at h
  · cases h
  · rename_i hiv
    split at h
    · cases h
    · rename_i hstar
      have hnil : v.ivs = [] := by simpa [Var.isCf] using hcf
      cases v
      simp only [Var.plain, Var.mk.injEq, true_and]
      simp only at hiv hstar hnil
      refine ⟨?_, by simpa using hiv, hnil⟩
      cases hs : ‹Option Bool› with
      | none => rfl
      | some b => rw [hs] at hstar; simp at hstar

/-- **Def. 2.1 for every argument.**  Whatever variable `get_ancestors_of_counterfactual` accepts, its result consists
of members of `An(v)` and contains every member up to `==`. -/
theorem ctfAncestors_all (g : MG Name) (hg : g.WF) (v : Var) (A : List Var) (h : ctfAncestors g v = .ok A) :
    (∀ w ∈ A, CtfAnc g v w) ∧ (∀ w, IsCtfAncestor g v w → ∃ w' ∈ A, SameVar w' w) := by
  by_cases hcf : v.isCf = true
  · obtain ⟨hs, hc⟩ := ctf_ancestors_spec' g hg v hcf A h
    refine ⟨fun w hw => ⟨hs w hw, ?_⟩, hc⟩
    -- the list form, from the model
    unfold ctfAncestors at h
    simp only [hcf, Bool.not_true, Bool.false_eq_true, ↓reduceIte, bind, Except.bind] at h
    cases hU : (g.removeOutEdges (ivNames v)).ancestorsInclusive [v.name] with
    | error e => rw [hU] at h; cases h
    | ok U =>
      rw [hU] at h
      obtain ⟨a, _, haw⟩ := (mapM_ok_mem _ _ _ h w).1 hw
      obtain ⟨Aa, _, rfl⟩ := ancestorVar_eq' _ _ _ _ haw
      exact ⟨fun n => decide (n ∈ Aa), rfl⟩
  · have hcf' : v.isCf = false := by simpa using hcf
    have hv := plain_of_ctfAncestors g v A hcf' h
    have hnil : v.ivs = [] := by rw [hv]; rfl
    rw [hv] at h
    have hmem := ctf_ancestors_plain' g hg v.name A h
    have hsub : subNames v = [] := by simp [subNames, hnil]
    constructor
    · intro w hw
      obtain ⟨a, ha, rfl⟩ := (hmem w).1 hw
      refine ⟨⟨?_, rfl, rfl, fun i => ?_⟩, fun _ => true, ?_⟩
      · rw [hsub, ancUnder_nil]
        obtain ⟨s, hs, hreach⟩ := ha
        simp only [List.mem_singleton] at hs
        subst hs
        exact hreach
      · simp [Var.plain, hnil]
      · simp [Var.plain, hnil]
    · intro w hw
      obtain ⟨hanc, hstar, hiv, hivs⟩ := hw
      rw [hsub, ancUnder_nil] at hanc
      refine ⟨Var.plain w.name, (hmem _).2 ⟨w.name, ⟨v.name, by simp, hanc⟩, rfl⟩, rfl, hstar.symm, hiv.symm, fun i => ?_⟩
      simp only [Var.plain, List.not_mem_nil, false_iff]
      intro hi
      have := (hivs i).1 hi
      rw [hnil] at this
      exact absurd this.1 (by simp)

/-! ### one query variable `v` and the members of `An(v)` -/

section OneVar
variable (g : MG Name) (v : Var)

/-- a member of `An(Y_x)` is not a subscript of `Y_x`, unless `Y_x` intervenes on itself -/
theorem ctfAnc_not_sub (hself : v.name ∉ subNames v) (w : Var) (hw : IsCtfAncestor g v w) :
    w.name ∉ subNames v := by
  intro hmem
  have hanc := hw.1
  unfold AncUnder at hanc
  rcases ReflTransGen.cases_head hanc with heq | ⟨b, hab, _⟩
  · rw [heq] at hmem; exact hself hmem
  · exact hab.2 hmem

theorem ctfAnc_ivs_sub (w : Var) (hw : IsCtfAncestor g v w) (i : Iv) (hi : i ∈ w.ivs) : i ∈ v.ivs :=
  ((hw.2.2.2 i).1 hi).1

theorem ctfAnc_not_self (hself : v.name ∉ subNames v) (w : Var) (hw : IsCtfAncestor g v w) :
    w.name ∉ subNames w := by
  intro hmem
  obtain ⟨i, hi, hin⟩ := List.mem_map.1 hmem
  exact ctfAnc_not_sub g v hself w hw (List.mem_map.2 ⟨i, ctfAnc_ivs_sub g v w hw i hi, hin⟩)

theorem consistent_of_sub (S T : List Iv) (hT : ConsistentSubs T) (h : ∀ i ∈ S, i ∈ T) : ConsistentSubs S :=
  fun i hi j hj hij => hT i (h i hi) j (h j hj) hij

/-- on the ancestors (in `G_{\overline X}`) of a member `W`, the world of the member and the world `x` force the same
values -/
theorem forced_ctfAnc (ν : BaseValues) (hcons : ConsistentSubs v.ivs) (w : Var) (hw : IsCtfAncestor g v w)
    (a : Name) (ha : AncBar g (subNames v) w.name a) :
    forced (worldOf ν w.ivs) a = forced (worldOf ν v.ivs) a := by
  by_cases hax : a ∈ subNames v
  · obtain ⟨i, hi, rfl⟩ := List.mem_map.1 hax
    have hiw : i ∈ w.ivs := (hw.2.2.2 i).2 ⟨hi, ha⟩
    rw [forced_worldOf ν v.ivs i hi hcons,
      forced_worldOf ν w.ivs i hiw (consistent_of_sub _ _ hcons (ctfAnc_ivs_sub g v w hw))]
  · rw [forced_worldOf_none ν v.ivs a hax, forced_worldOf_none]
    intro hmem
    obtain ⟨i, hi, rfl⟩ := List.mem_map.1 hmem
    exact hax (List.mem_map.2 ⟨i, ctfAnc_ivs_sub g v w hw i hi, rfl⟩)

/-- two worlds that agree with the world `x` on `An(a)_{G_{\overline X}}` give `a` the same value -/
theorem solve_agree_ancBar (M : Model) (hM : Compatible M g) (u : NoisePoint) (X : List Name) (d₁ d₂ : Do) (a : Name)
    (hforced : ∀ b, AncBar g X a b → forced d₁ b = forced d₂ b)
    (hX : ∀ b, AncBar g X a b → forced d₁ b = none → b ∉ X) :
    solve M u d₁ a = solve M u d₂ a := by
  apply solve_agree M u d₁ d₂ (AncBar g X a) hforced
  · intro b hb hnone p hp
    exact ReflTransGen.head ⟨hM.pa_sub b p hp, hX b hb hnone⟩ hb
  · exact hM.nodup
  · exact hM.topo
  · exact ReflTransGen.refl

/-- **a member of `An(Y_x)` is its vertex looked at in the world `x`** -/
theorem sameRV_ctfAnc (ν : BaseValues) (hcons : ConsistentSubs v.ivs) (w : Var) (hw : IsCtfAncestor g v w)
    (M : Model) (hM : Compatible M g) (u : NoisePoint) :
    solve M u (worldOf ν v.ivs) w.name = solve M u (worldOf ν w.ivs) w.name := by
  apply solve_agree_ancBar g M hM u (subNames v)
  · intro b hb; exact (forced_ctfAnc g v ν hcons w hw b hb).symm
  · intro b _ hnone hmem
    obtain ⟨x, hx⟩ := forced_worldOf_mem ν v.ivs b hmem
    rw [hx] at hnone; cases hnone

/-- an edge into a member of `An(Y_x)` survives in `G_{\overline X}` -/
theorem edgeBar_into_ctfAnc (hself : v.name ∉ subNames v) (w : Var) (hw : IsCtfAncestor g v w) (p : Name)
    (hp : g.DiEdge p w.name) : EdgeBar g (subNames v) p w.name :=
  ⟨hp, ctfAnc_not_sub g v hself w hw⟩

/-- a subscripted parent of a member keeps its subscript in the member -/
theorem parent_sub_mem (hself : v.name ∉ subNames v) (w : Var) (hw : IsCtfAncestor g v w) (i : Iv) (hi : i ∈ v.ivs)
    (hp : g.DiEdge i.name w.name) : i ∈ w.ivs :=
  (hw.2.2.2 i).2 ⟨hi, ReflTransGen.single (edgeBar_into_ctfAnc g v hself w hw i.name hp)⟩

/-- a parent of a member that is not a subscript of `Y_x` is (the vertex of) a member -/
theorem parent_isCtfAnc (w : Var) (hw : IsCtfAncestor g v w) (p : Name)
    (hp : g.DiEdge p w.name) (hpX : p ∉ subNames v) :
    ∃ w', IsCtfAncestor g v w' ∧ w'.name = p := by
  classical
  refine ⟨{ name := p, ivs := v.ivs.filter (fun i => decide (AncBar g (subNames v) p i.name)) }, ⟨?_, rfl, rfl, ?_⟩, rfl⟩
  · exact ReflTransGen.head ⟨hp, hpX⟩ hw.1
  · intro i
    simp only [List.mem_filter, decide_eq_true_eq]

/-- the world of a member `W` and the world of a member `P` that is a parent of `W` give `P` the same value -/
theorem solve_parent_agree (ν : BaseValues) (hself : v.name ∉ subNames v) (hcons : ConsistentSubs v.ivs)
    (w w' : Var) (hw : IsCtfAncestor g v w) (hw' : IsCtfAncestor g v w') (hp : g.DiEdge w'.name w.name)
    (M : Model) (hM : Compatible M g) (u : NoisePoint) :
    solve M u (worldOf ν w.ivs) w'.name = solve M u (worldOf ν w'.ivs) w'.name := by
  have hup : ∀ b, AncBar g (subNames v) w'.name b → AncBar g (subNames v) w.name b :=
    fun b hb => ReflTransGen.tail hb (edgeBar_into_ctfAnc g v hself w hw w'.name hp)
  apply solve_agree_ancBar g M hM u (subNames v)
  · intro b hb
    rw [forced_ctfAnc g v ν hcons w hw b (hup b hb), forced_ctfAnc g v ν hcons w' hw' b hb]
  · intro b hb hnone hmem
    obtain ⟨i, hi, rfl⟩ := List.mem_map.1 hmem
    have hiw : i ∈ w.ivs := (hw.2.2.2 i).2 ⟨hi, hup _ hb⟩
    rw [forced_worldOf ν w.ivs i hiw (consistent_of_sub _ _ hcons (ctfAnc_ivs_sub g v w hw))] at hnone
    cases hnone

end OneVar

/-! ### the ancestral set `D_* = An(Y_*)` of a query -/

theorem ancFold_each (g : MG Name) (q : Event) (acc D : List Var) (h : q.foldlM (ancStep g) acc = .ok D) :
    ∀ p ∈ q, ∃ A, ctfAncestors g p.1 = .ok A := by
  induction q generalizing acc with
  | nil => intro p hp; cases hp
  | cons p q ih =>
    simp only [List.foldlM_cons, bind, Except.bind] at h
    cases hA : ctfAncestors g p.1 with
    | error e => simp only [ancStep, bind, Except.bind, hA] at h; cases h
    | ok A =>
      simp only [ancStep, bind, Except.bind, hA, pure, Except.pure] at h
      intro p' hp'
      rcases List.mem_cons.1 hp' with rfl | hp'
      · exact ⟨A, hA⟩
      · exact ih _ h p' hp'

/-- soundness and completeness of `D_*` with respect to Def. 2.1, variable by variable of the query -/
theorem ancestralSet_spec (g : MG Name) (hg : g.WF) (q : Event) (D : List Var) (h : ancestralSet g q = .ok D) :
    (∀ w ∈ D, ∃ p ∈ q, CtfAnc g p.1 w) ∧
    (∀ p ∈ q, ∀ w, IsCtfAncestor g p.1 w → ∃ w' ∈ D, CtfAnc g p.1 w' ∧ w'.name = w.name) := by
  unfold ancestralSet at h
  have hmem := ancFold_mem' g q [] D h
  constructor
  · intro w hw
    rcases (hmem w).1 hw with hnil | ⟨p, hp, A, hA, hwA⟩
    · cases hnil
    · exact ⟨p, hp, (ctfAncestors_all g hg p.1 A hA).1 w hwA⟩
  · intro p hp w hw
    obtain ⟨A, hA⟩ := ancFold_each g q [] D h p hp
    obtain ⟨hs, hc⟩ := ctfAncestors_all g hg p.1 A hA
    obtain ⟨w', hw', hsame⟩ := hc w hw
    exact ⟨w', (hmem w').2 (Or.inr ⟨p, hp, A, hA, hw'⟩), hs w' hw', hsame.1⟩

theorem multiWorld_false (D : List Var) (h : multiWorld D = false) :
    ∀ a ∈ D, ∀ b ∈ D, a.name = b.name → a = b := by
  intro a ha b hb hab
  unfold multiWorld at h
  rw [List.any_eq_false] at h
  have h1 := h a ha
  simp only [Bool.not_eq_true] at h1
  rw [List.any_eq_false] at h1
  have h2 := h1 b hb
  simp only [decide_eq_true_eq, not_and, not_not] at h2
  exact h2 hab

theorem literalBound_false (q : Event) (D : List Var) (h : literalBound q D = false) :
    ∀ p ∈ q, ∀ i ∈ p.1.ivs, i.star = false → i.name ∈ D.map (·.name) → i.name ∈ q.map (·.1.name) := by
  intro p hp i hi hstar hD
  unfold literalBound at h
  rw [List.any_eq_false] at h
  have h1 := h p hp
  simp only [Bool.not_eq_true] at h1
  rw [List.any_eq_false] at h1
  have h2 := h1 i hi
  simp only [Bool.and_eq_true, Bool.not_eq_eq_eq_not, Bool.not_true, decide_eq_true_eq, not_and, not_not] at h2
  exact h2 ⟨hstar, hD⟩

theorem outcomeParentValue_false (g : MG Name) (q : Event) (D : List Var) (h : outcomeParentValue g q D = false) :
    ∀ w ∈ D, ∀ p, g.DiEdge p w.name → p ∉ subNames w → p ∈ D.map (·.name) →
      ∀ it ∈ q, it.1.name = p → it.2 = some ⟨p, false⟩ := by
  intro w hw p hp hsub hD it hit hname
  unfold outcomeParentValue at h
  rw [List.any_eq_false] at h
  have h1 := h w hw
  simp only [Bool.not_eq_true] at h1
  rw [List.any_eq_false] at h1
  have h2 := h1 p ((mem_parents g p w.name).2 hp)
  simp only [Bool.and_eq_true, decide_eq_true_eq, not_and, Bool.not_eq_true] at h2
  have h3 := h2 ⟨hsub, hD⟩
  rw [List.any_eq_false] at h3
  have h4 := h3 it hit
  simp only [decide_eq_true_eq, not_and, not_not] at h4
  exact h4 hname

theorem readableQuery_true (q : Event) (h : readableQuery q = true) :
    (∀ p ∈ q, p.1.name ∉ subNames p.1) ∧ (∀ p ∈ q, ConsistentSubs p.1.ivs) := by
  unfold readableQuery at h
  rw [List.all_eq_true] at h
  constructor
  · intro p hp hmem
    have := (h p hp)
    simp only [Bool.and_eq_true, Bool.not_eq_eq_eq_not, Bool.not_true, List.any_eq_false, beq_iff_eq] at this
    obtain ⟨i, hi, hin⟩ := List.mem_map.1 hmem
    exact this.1 i hi hin
  · intro p hp i hi j hj hij
    have := (h p hp)
    simp only [Bool.and_eq_true, List.all_eq_true, decide_eq_true_eq] at this
    exact this.2 i hi j hj hij

/-- everything the value theorem assumes about a query, and what `factorizeClasses` says about it -/
structure QCtx (g : MG Name) (q : Event) (D : List Var) : Prop where
  wf : g.WF
  anc : ancestralSet g q = .ok D
  self : ∀ p ∈ q, p.1.name ∉ subNames p.1
  cons : ∀ p ∈ q, ConsistentSubs p.1.ivs
  single : ∀ a ∈ D, ∀ b ∈ D, a.name = b.name → a = b
  lit : ∀ p ∈ q, ∀ i ∈ p.1.ivs, i.star = false → i.name ∈ D.map (·.name) → i.name ∈ q.map (·.1.name)
  opv : ∀ w ∈ D, ∀ p, g.DiEdge p w.name → p ∉ subNames w → p ∈ D.map (·.name) →
    ∀ it ∈ q, it.1.name = p → it.2 = some ⟨p, false⟩
  /-- no member sits on a self-loop of `g` (`get_counterfactual_factors` rejects the query otherwise) -/
  noLoop : ∀ w ∈ D, ¬ g.DiEdge w.name w.name

theorem QCtx.of_classes (g : MG Name) (hg : g.WF) (q : Event) (hread : readableQuery q = true)
    (hcls : factorizeClasses g q = .ok (false, false, false))
    (hloop : ∀ D, ancestralSet g q = .ok D → ∀ w ∈ D, ¬ g.DiEdge w.name w.name) : ∃ D, QCtx g q D := by
  unfold factorizeClasses at hcls
  simp only [bind, Except.bind] at hcls
  cases hD : ancestralSet g q with
  | error e => rw [hD] at hcls; cases hcls
  | ok D =>
    rw [hD] at hcls
    simp only [pure, Except.pure, Except.ok.injEq, Prod.mk.injEq] at hcls
    obtain ⟨h1, h2, h3⟩ := hcls
    obtain ⟨hs, hc⟩ := readableQuery_true q hread
    exact ⟨D, hg, hD, hs, hc, multiWorld_false D h1, literalBound_false q D h2, outcomeParentValue_false g q D h3,
      hloop D hD⟩

namespace QCtx
variable {g : MG Name} {q : Event} {D : List Var} (C : QCtx g q D)
include C

/-- every member of `D_*` comes from a query variable -/
theorem src (w : Var) (hw : w ∈ D) : ∃ p ∈ q, CtfAnc g p.1 w := (ancestralSet_spec g C.wf q D C.anc).1 w hw

theorem complete (p : Var × Val) (hp : p ∈ q) (w : Var) (hw : IsCtfAncestor g p.1 w) :
    ∃ w' ∈ D, CtfAnc g p.1 w' ∧ w'.name = w.name := (ancestralSet_spec g C.wf q D C.anc).2 p hp w hw

/-- the member of `D_*` on the vertex of a query variable -/
theorem selfVar (p : Var × Val) (hp : p ∈ q) : ∃ w ∈ D, CtfAnc g p.1 w ∧ w.name = p.1.name := by
  classical
  apply C.complete p hp
    { name := p.1.name, ivs := p.1.ivs.filter (fun i => decide (AncBar g (subNames p.1) p.1.name i.name)) }
  refine ⟨ReflTransGen.refl, rfl, rfl, fun i => ?_⟩
  simp only [List.mem_filter, decide_eq_true_eq]

/-- an unintervened parent of a member is the vertex of a member -/
theorem parentVar (p : Var × Val) (hp : p ∈ q) (w : Var) (hw : IsCtfAncestor g p.1 w) (a : Name)
    (ha : g.DiEdge a w.name) (haX : a ∉ subNames p.1) : ∃ w' ∈ D, CtfAnc g p.1 w' ∧ w'.name = a := by
  obtain ⟨w₀, hw₀, hn⟩ := parent_isCtfAnc g p.1 w hw a ha haX
  obtain ⟨w', hw', hanc, hname⟩ := C.complete p hp w₀ hw₀
  exact ⟨w', hw', hanc, by rw [hname, hn]⟩

theorem not_self (w : Var) (hw : w ∈ D) : w.name ∉ subNames w := by
  obtain ⟨p, hp, hanc⟩ := C.src w hw
  exact ctfAnc_not_self g p.1 (C.self p hp) w hanc.1

end QCtx

end Y0.Ctf
