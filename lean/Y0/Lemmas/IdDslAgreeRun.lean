/-
  Y0.Lemmas.IdDslAgreeRun — every expression ID / IDC carry or return is constructible (`KeyOk`: each probability term has
  a child), so the agreement theorems of Y0/Lemmas/IdDslAgreeCtor.lean (`productSafe_agree`, `sumSafe_agree`, `mul_agree`,
  `div_agree`, `normalizeMarginalize_agree`) apply to EVERY constructor call the two algorithms make: on these runs the
  `id` family's model of the DSL (Y0/Model/IdDsl.lean) and the `expr` family's (Y0/Model/Dsl.lean) are the same functions.
-/
import Y0.Lemmas.IdDslAgreeCtor
import Y0.Lemmas.IdcStep

namespace Y0
open IdDsl IdAux

theorem IdAux.keyOk_pParents {order : List Name} {est : Expr} {child : Name} {e : Expr} (hest : KeyOk est)
    (h : pParents order est child = .ok e) : KeyOk e := by
  obtain ⟨_, i, _, h | h⟩ := pParents_ok h
  · rw [h.2]; exact keyOk_pCond _ _
  · exact keyOk_div (keyOk_sumSafe hest _) (keyOk_sumSafe hest _) h.2

theorem IdAux.keyOk_mapM_pParents {order : List Name} {est : Expr} {S : List Name} {fs : List Expr}
    (hest : KeyOk est) (h : S.mapM (pParents order est) = .ok fs) : ∀ f ∈ fs, KeyOk f := by
  intro f hf
  obtain ⟨v, _, hv⟩ := forall₂_right ((mapM_ok_iff _ _ _).mp h) f hf
  exact keyOk_pParents hest hv

/-- invariant of the recursion: constructible estimand in, constructible estimand out — and every intermediate one -/
theorem idAlg_keyOk (topo : MG Name → Except Err (List Name)) :
    ∀ I e, idAlg topo I = .ok e → KeyOk I.est → KeyOk e := by
  apply idAlg_ok_induct topo (fun I e => KeyOk I.est → KeyOk e)
  · intro I e hs hest
    cases step_ok hs with
    | l1 _ => exact keyOk_sumSafe hest _
    | l6 anc anc' S D order fs _ _ _ _ _ _ _ ho hf =>
      exact keyOk_sumSafe (keyOk_productSafe (keyOk_mapM_pParents hest hf)) _
  · intro I J e hs _ ih hest
    cases step_ok hs with
    | l2 anc _ hanc _ => exact ih (keyOk_sumSafe hest _)
    | l3 anc anc' _ _ _ _ _ => exact ih hest
    | l7 anc anc' S D order fs _ _ _ _ _ _ _ ho hf =>
      exact ih (keyOk_productSafe (keyOk_mapM_pParents hest hf))
  · intro I Js ranges es hs hall hest
    cases step_ok hs with
    | l4 anc anc' _ _ _ =>
      apply keyOk_sumSafe
      apply keyOk_productSafe
      intro f hf
      obtain ⟨J, hJ, _, hP⟩ := forall₂_right hall f hf
      simp only [List.mem_map] at hJ
      obtain ⟨S, _, rfl⟩ := hJ
      exact hP hest

/-- every estimand `identify` returns is constructible -/
theorem identify_keyOk (topo : MG Name → Except Err (List Name)) (G : MG Name) (X Y : List Name) (e : Expr)
    (h : identify topo G X Y = .ok e) : KeyOk e := by
  unfold identify at h
  obtain ⟨est, hest, h⟩ := bind_ok h
  exact idAlg_keyOk topo _ e h (keyOk_pJoint hest)

/-- … and so is every estimand `idc` returns; its final `e₀ / Σ_Y e₀` is the `expr` family's
`Expr.normalizeMarginalize` -/
theorem idcAlg_keyOk (sep : SepTest) (topo : MG Name → Except Err (List Name)) (G : MG Name) (est : Expr)
    (hest : KeyOk est) (Y : List Name) :
    ∀ (fuel : Nat) (X Z : List Name) (e : Expr), idcAlg sep topo G est fuel X Y Z = .ok e → KeyOk e := by
  intro fuel
  induction fuel with
  | zero =>
    intro X Z e h
    rcases idcAlg_ok h with ⟨c, f', _, hf, _⟩ | ⟨_, e0, he0, hn⟩
    · cases hf
    · have h0 := idAlg_keyOk topo _ e0 he0 hest
      exact keyOk_div h0 (keyOk_sumSafe h0 _) hn
  | succ n ih =>
    intro X Z e h
    rcases idcAlg_ok h with ⟨c, f', _, hf, hrec⟩ | ⟨_, e0, he0, hn⟩
    · cases hf
      exact ih _ _ e hrec
    · have h0 := idAlg_keyOk topo _ e0 he0 hest
      exact keyOk_div h0 (keyOk_sumSafe h0 _) hn

theorem idc_keyOk (sep : SepTest) (topo : MG Name → Except Err (List Name)) (G : MG Name) (X Y Z : List Name)
    (e : Expr) (h : idc sep topo G X Y Z = .ok e) : KeyOk e := by
  unfold idc at h
  obtain ⟨est, hest, h⟩ := bind_ok h
  exact idcAlg_keyOk sep topo G est (keyOk_pJoint hest) Y _ _ _ e h

/-- the line-6 / line-7 conditional `Σ_later Q / Σ_{child, later} Q` computed with the `expr` family's constructors -/
theorem IdAux.pParents_carried_agree {order : List Name} {est : Expr} (hest : KeyOk est) (i : Nat) :
    IdDsl.div (IdDsl.sumSafe est (order.drop (i + 1))) (IdDsl.sumSafe est (order.drop i)) =
      Expr.div (Y0.sumSafe0 est ((order.drop (i + 1)).map Var.plain)) (Y0.sumSafe0 est ((order.drop i).map Var.plain)) := by
  rw [← sumSafe_agree, ← sumSafe_agree]
  exact div_agree _ _ (keyOk_sumSafe hest _) (keyOk_sumSafe hest _)

end Y0
