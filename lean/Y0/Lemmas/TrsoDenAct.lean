/-
  Y0.Lemmas.TrsoDenAct — what `activate_domain_and_interventions` (Y0.Model.Trso.activate) means: the activated
  expression denotes, at the given leaves, what the ORIGINAL expression denotes when every leaf is read as the leaf
  activation turns it into (`leafAct`).  This gives the expression carried through a source-domain run of TRSO its
  meaning before the activation has happened.
-/
import Y0.Lemmas.TrsoDenOps
import Y0.Lemmas.TrsoActivate

namespace Y0
namespace Trso
open TrDsl

variable {card : Name → Nat} {leaf : LeafFn}

/-- the variables `activate` keeps: those that are not one of the intervened variables -/
def actKeep (zs : List Name) (v : Var) : Bool := !(zs.any fun z => decide (Var.plain z = v))

/-- the leaf `activate zs d` turns `P[pop](c | p)` into, read by `leaf`; `1` when all children are intervened on -/
def leafAct (zs : List Name) (d : Pop) (leaf : LeafFn) : LeafFn := fun _ c p σ =>
  if (c.filter (actKeep zs)).isEmpty then 1
  else match interveneVars (zs.map Var.plain) (sortVars (c.filter (actKeep zs))),
             interveneVars (zs.map Var.plain) (sortVars (p.filter (actKeep zs))) with
    | .ok c', .ok p' => leaf (some (popVar d)) c' p' σ
    | _, _ => 0

/-! ### `sortVars` of a duplicate-free list is a permutation of it -/

theorem denAct_insertStable_perm {α} (lt : α → α → Bool) (x : α) (l : List α) :
    (insertStable lt x l).Perm (x :: l) := by
  induction l with
  | nil => exact List.Perm.refl _
  | cons y ys ih =>
    unfold insertStable
    split
    · exact (List.Perm.cons y ih).trans (List.Perm.swap x y ys)
    · exact List.Perm.refl _

theorem denAct_ssort_perm {α} (lt : α → α → Bool) (l : List α) : (ssort lt l).Perm l := by
  induction l with
  | nil => exact List.Perm.refl _
  | cons x xs ih =>
    show (insertStable lt x (ssort lt xs)).Perm (x :: xs)
    exact (denAct_insertStable_perm lt x _).trans (List.Perm.cons x ih)

theorem denAct_dedup_of_nodup {α} [DecidableEq α] : ∀ (l : List α), l.Nodup → dedup' l = l
  | [], _ => rfl
  | x :: xs, h => by
    have hx : x ∉ xs := (List.nodup_cons.mp h).1
    have hxs := (List.nodup_cons.mp h).2
    simp only [dedup']
    rw [denAct_dedup_of_nodup xs hxs]
    congr 1
    apply List.filter_eq_self.mpr
    intro a ha
    simp only [ne_eq, decide_not, Bool.not_eq_eq_eq_not, Bool.not_true, decide_eq_false_iff_not]
    exact fun e => hx (e ▸ ha)

theorem denAct_sortVars_perm {r : List Var} (h : r.Nodup) : (sortVars r).Perm r := by
  unfold sortVars
  rw [denAct_dedup_of_nodup r h]
  exact denAct_ssort_perm _ _

/-! ### the induction -/

mutual
theorem denL_activate_aux (S : LeafSem card leaf) (zs : List Name) (d : Pop)
    (L' : Option Var → List Var → List Var → Prop) (R' : Var → Prop)
    (hleaf : ∀ pop c p, L' pop c p → (c.filter (actKeep zs)).isEmpty = false → ∀ c' p',
      interveneVars (zs.map Var.plain) (sortVars (c.filter (actKeep zs))) = .ok c' →
      interveneVars (zs.map Var.plain) (sortVars (p.filter (actKeep zs))) = .ok p' → S.Adm (some (popVar d)) c' p')
    (hR : ∀ v, R' v → S.Rng v) :
    ∀ (e e' : Expr), Clean e → Wf L' R' e → SumND e → activate zs d e = .ok e' →
      Good S e' ∧ ∀ σ, denL card leaf e' σ = denL card (leafAct zs d leaf) e σ
  | .prob none _ _, _, hc, _, _, _ => hc.elim
  | .prob (some pop) c p, e', _, hw, _, h => by
    have hk : (fun v => !(zs.any fun z => decide (Var.plain z = v))) = actKeep zs := rfl
    simp only [activate, hk] at h
    cases hE : (c.filter (actKeep zs)).isEmpty with
    | true =>
      simp only [hE, if_true, pure, Except.pure] at h
      cases h
      refine ⟨⟨trivial, trivial⟩, fun σ => ?_⟩
      simp only [denL, leafAct, hE, if_true]
    | false =>
      simp only [hE, Bool.false_eq_true, if_false] at h
      cases hc' : interveneVars (zs.map Var.plain) (sortVars (c.filter (actKeep zs))) with
      | error x => simp [hc', bind, Except.bind] at h
      | ok c' =>
        cases hp' : interveneVars (zs.map Var.plain) (sortVars (p.filter (actKeep zs))) with
        | error x => simp [hc', hp', bind, Except.bind] at h
        | ok p' =>
          simp only [hc', hp', bind, Except.bind, pure, Except.pure] at h
          cases h
          refine ⟨⟨trivial, hleaf (some pop) c p hw hE c' p' hc' hp'⟩, fun σ => ?_⟩
          simp only [denL, leafAct, hE, Bool.false_eq_true, if_false, hc', hp']
  | .sum e r, e', hc, hw, hnd, h => by
    simp only [activate] at h
    cases ha : activate zs d e with
    | error x => simp [ha, bind, Except.bind] at h
    | ok e₁ =>
      simp only [ha, bind, Except.bind, pure, Except.pure] at h
      cases h
      obtain ⟨hg, hd⟩ := denL_activate_aux S zs d L' R' hleaf hR e e₁ hc hw.1 hnd.1 ha
      refine ⟨good_sumSafe S false hg (fun v hv => hR v (hw.2 v hv)), fun σ => ?_⟩
      rw [denL_sumSafe_false]
      simp only [denL]
      rw [sumVars_perm card ((denAct_sortVars_perm hnd.2).map (·.name))]
      exact sumVars_congr card _ hd σ
  | .frac n dn, e', hc, hw, hnd, h => by
    simp only [activate] at h
    cases hn : activate zs d n with
    | error x => simp [hn, bind, Except.bind] at h
    | ok n' =>
      cases hdn : activate zs d dn with
      | error x => simp [hn, hdn, bind, Except.bind] at h
      | ok d' =>
        cases ht : truediv n' d' with
        | error x => simp [hn, hdn, ht, bind, Except.bind] at h
        | ok t =>
          simp only [hn, hdn, ht, bind, Except.bind] at h
          obtain ⟨hgn, hvn⟩ := denL_activate_aux S zs d L' R' hleaf hR n n' hc.1 hw.1 hnd.1 hn
          obtain ⟨hgd, hvd⟩ := denL_activate_aux S zs d L' R' hleaf hR dn d' hc.2 hw.2 hnd.2 hdn
          have hgt : Good S t := good_truediv S hgn hgd ht
          have hvt : ∀ σ, denL card leaf t σ = denL card (leafAct zs d leaf) (.frac n dn) σ := fun σ => by
            rw [denL_truediv ht σ, hvn σ, hvd σ]; simp only [denL]
          split at h
          · rename_i a b
            have hga : Good S a := ⟨hgt.1.1, hgt.2.1⟩
            have hgb : Good S b := ⟨hgt.1.2, hgt.2.2⟩
            refine ⟨good_fracSimplify S hga hgb h, fun σ => ?_⟩
            rw [denL_fracSimplify S hga hgb h σ, ← hvt σ]
            simp only [denL]
          · cases h
            exact ⟨hgt, hvt⟩
  | .prod fs, e', hc, hw, hnd, h => by
    simp only [activate] at h
    cases ha : activate.activateList zs d fs with
    | error x => simp [ha, bind, Except.bind] at h
    | ok fs' =>
      simp only [ha, bind, Except.bind, pure, Except.pure] at h
      cases h
      obtain ⟨hg, hv⟩ := denL_activateList_aux S zs d L' R' hleaf hR fs fs' hc hw hnd ha
      refine ⟨good_productSafe S hg, fun σ => ?_⟩
      rw [denL_productSafe, ← denLProd_eq, hv σ]
      simp only [denL]
  | .one, _, _, _, _, h => by simp [activate] at h
  | .zero, _, hc, _, _, _ => hc.elim
  | .q _ _, _, hc, _, _, _ => hc.elim
theorem denL_activateList_aux (S : LeafSem card leaf) (zs : List Name) (d : Pop)
    (L' : Option Var → List Var → List Var → Prop) (R' : Var → Prop)
    (hleaf : ∀ pop c p, L' pop c p → (c.filter (actKeep zs)).isEmpty = false → ∀ c' p',
      interveneVars (zs.map Var.plain) (sortVars (c.filter (actKeep zs))) = .ok c' →
      interveneVars (zs.map Var.plain) (sortVars (p.filter (actKeep zs))) = .ok p' → S.Adm (some (popVar d)) c' p')
    (hR : ∀ v, R' v → S.Rng v) :
    ∀ (es es' : List Expr), CleanList es → WfList L' R' es → SumNDList es → activate.activateList zs d es = .ok es' →
      (∀ e ∈ es', Good S e) ∧ ∀ σ, denLProd card leaf es' σ = denLProd card (leafAct zs d leaf) es σ
  | [], es', _, _, _, h => by
    simp only [activate.activateList] at h
    cases h
    exact ⟨fun e he => (by cases he), fun σ => (by simp only [denLProd])⟩
  | e :: es, es', hc, hw, hnd, h => by
    simp only [activate.activateList] at h
    cases ha : activate zs d e with
    | error x => simp [ha, bind, Except.bind] at h
    | ok a =>
      cases has : activate.activateList zs d es with
      | error x => simp [ha, has, bind, Except.bind] at h
      | ok as =>
        simp only [ha, has, bind, Except.bind, pure, Except.pure] at h
        cases h
        obtain ⟨hg, hv⟩ := denL_activate_aux S zs d L' R' hleaf hR e a hc.1 hw.1 hnd.1 ha
        obtain ⟨hgs, hvs⟩ := denL_activateList_aux S zs d L' R' hleaf hR es as hc.2 hw.2 hnd.2 has
        refine ⟨fun x hx => ?_, fun σ => ?_⟩
        · rcases List.mem_cons.1 hx with rfl | hx
          · exact hg
          · exact hgs x hx
        · simp only [denLProd, hv σ, hvs σ]
end

/-- **activation = reading the leaves as their activated versions.**  `L'` / `R'` describe the leaves and ranges of
the expression before activation; activated leaves are admissible for `S`, ranges stay summable. -/
theorem denL_activate (S : LeafSem card leaf) (zs : List Name) (d : Pop)
    (L' : Option Var → List Var → List Var → Prop) (R' : Var → Prop)
    (hleaf : ∀ pop c p, L' pop c p → (c.filter (actKeep zs)).isEmpty = false → ∀ c' p',
      interveneVars (zs.map Var.plain) (sortVars (c.filter (actKeep zs))) = .ok c' →
      interveneVars (zs.map Var.plain) (sortVars (p.filter (actKeep zs))) = .ok p' → S.Adm (some (popVar d)) c' p')
    (hR : ∀ v, R' v → S.Rng v) :
    ∀ (e e' : Expr), Clean e → Wf L' R' e → SumND e → activate zs d e = .ok e' →
      Good S e' ∧ ∀ σ, denL card leaf e' σ = denL card (leafAct zs d leaf) e σ := by
  exact denL_activate_aux S zs d L' R' hleaf hR

end Trso
end Y0
