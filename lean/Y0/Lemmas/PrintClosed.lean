/-
  Y0.Lemmas.PrintClosed — the invariant `built` is preserved by the DSL operators the parser reaches:
  `Product.safe`, `*`, `/`, `Sum.safe`.  (`lt` only has to be asymmetric.)
-/
import Y0.Lemmas.PrintDenEval

namespace Y0
namespace PyEval
open Print

variable (lt : Expr → Expr → Bool)

/-! ### a stable sort produces a list without descents -/

theorem length_insertBy {α} (lt : α → α → Bool) (x : α) (l : List α) : (insertBy lt x l).length = l.length + 1 := by
  induction l with
  | nil => rfl
  | cons y ys ih => simp only [insertBy]; split <;> simp [ih]

theorem length_sortBy {α} (lt : α → α → Bool) (l : List α) : (sortBy lt l).length = l.length := by
  induction l with
  | nil => rfl
  | cons x xs ih =>
    show (insertBy lt x (sortBy lt xs)).length = _
    rw [length_insertBy, ih]; rfl

theorem noDescent_cons {α} (lt : α → α → Bool) (x : α) : ∀ l : List α, noDescent lt l = true →
    (∀ y, l.head? = some y → lt y x = false) → noDescent lt (x :: l) = true
  | [], _, _ => rfl
  | y :: r, h, hx => by simp [noDescent, hx y rfl, h]

theorem noDescent_insertBy {α} (lt : α → α → Bool) (hasym : ∀ a b, lt a b = true → lt b a = false) (x : α) :
    ∀ l : List α, noDescent lt l = true →
      noDescent lt (insertBy lt x l) = true ∧
        (∀ z, l.head? = some z → (insertBy lt x l).head? = some z ∨ (insertBy lt x l).head? = some x)
  | [], _ => ⟨rfl, by simp⟩
  | y :: r, h => by
    simp only [insertBy]
    by_cases hyx : lt y x = true
    · simp only [hyx, if_true]
      have htail : noDescent lt r = true := by
        cases r with
        | nil => rfl
        | cons z r' => simp only [noDescent, Bool.and_eq_true] at h; exact h.2
      obtain ⟨ih1, ih2⟩ := noDescent_insertBy lt hasym x r htail
      refine ⟨noDescent_cons lt y _ ih1 ?_, by simp⟩
      intro w hw
      cases r with
      | nil =>
        simp [insertBy] at hw
        subst hw
        exact hasym _ _ hyx
      | cons z r' =>
        rcases ih2 z rfl with h' | h'
        · rw [h'] at hw; cases hw
          simp only [noDescent, Bool.and_eq_true, Bool.not_eq_true'] at h
          exact h.1
        · rw [h'] at hw; cases hw
          exact hasym _ _ hyx
    · have hyx' : lt y x = false := by simpa using hyx
      simp only [hyx', Bool.false_eq_true, if_false]
      refine ⟨?_, by simp⟩
      simp [noDescent, hyx', h]

theorem noDescent_sortBy {α} (lt : α → α → Bool) (hasym : ∀ a b, lt a b = true → lt b a = false) (l : List α) :
    noDescent lt (sortBy lt l) = true := by
  induction l with
  | nil => rfl
  | cons x xs ih => exact (noDescent_insertBy lt hasym x _ ih).1

/-! ### `Product.safe`, `*`, `/` -/

/-- the only property of the sort order the closure needs -/
def Asymm : Prop := ∀ a b, lt a b = true → lt b a = false

theorem built_productSafe (hasym : Asymm lt) (l : List Expr) (h : ∀ f ∈ l, built lt f = true ∧ isProd f = false) :
    built lt (productSafe lt l) = true := by
  unfold productSafe
  have hm : ∀ f ∈ l.filter (fun e => !isOne e), built lt f = true ∧ isProd f = false ∧ isOne f = false := by
    intro f hf
    obtain ⟨h1, h2⟩ := List.mem_filter.mp hf
    exact ⟨(h f h1).1, (h f h1).2, by simpa using h2⟩
  generalize l.filter (fun e => !isOne e) = m at hm
  by_cases hz : m.any isZero = true
  · simp [hz, built]
  · have hz' : m.any isZero = false := by simpa using hz
    simp only [hz', Bool.false_eq_true, if_false]
    match m, hm, hz' with
    | [], _, _ => rfl
    | [e], hm, _ => exact (hm e (by simp)).1
    | a :: b :: r, hm, hz' =>
      simp only [built, Bool.and_eq_true, decide_eq_true_eq]
      refine ⟨⟨by rw [length_sortBy]; simp, ?_⟩, noDescent_sortBy lt hasym _⟩
      rw [builtFactors_iff]
      intro f hf
      have hf' := (mem_sortBy lt).mp hf
      obtain ⟨h1, h2, h3⟩ := hm f hf'
      have h4 : isZero f = false := by
        rw [List.any_eq_false] at hz'
        simpa using hz' f hf'
      exact ⟨h1, h2, h3, h4⟩

theorem built_factors {fs : List Expr} (h : built lt (.prod fs) = true) :
    ∀ f ∈ fs, built lt f = true ∧ isProd f = false := by
  simp only [built, Bool.and_eq_true] at h
  intro f hf
  have := (builtFactors_iff lt fs).mp h.1.2 f hf
  exact ⟨this.1, this.2.1⟩

theorem built_mulFlat (hasym : Asymm lt) (a b : Expr) (ha : built lt a = true) (hb : built lt b = true) (hfa : isFrac a = false) :
    built lt (mulFlat lt a b) = true := by
  have hp : ∀ {x : Expr}, built lt x = true → isProd x = false → ∀ f ∈ [x], built lt f = true ∧ isProd f = false := by
    intro x hx hxp f hf; simp at hf; subst hf; exact ⟨hx, hxp⟩
  cases a <;> simp [isFrac] at hfa <;> cases b <;> simp only [mulFlat] <;>
    first
      | assumption
      | (apply built_productSafe lt hasym
         intro f hf
         simp only [List.mem_cons, List.mem_append, List.not_mem_nil, or_false] at hf
         rcases hf with h | h | h <;>
           first
             | (subst h; exact ⟨by assumption, rfl⟩)
             | exact built_factors lt ha f h
             | exact built_factors lt hb f h)
      | (apply built_productSafe lt hasym
         intro f hf
         simp only [List.mem_cons, List.mem_append, List.not_mem_nil, or_false] at hf
         rcases hf with h | h <;>
           first
             | (subst h; exact ⟨by assumption, rfl⟩)
             | exact built_factors lt ha f h
             | exact built_factors lt hb f h)

/-- `built` and `Zero()`-free -/
def Good (e : Expr) : Prop := built lt e = true ∧ nz e = true

theorem good_mkFrac {n d c : Expr} (hn : Good lt n) (hd : Good lt d) (h : mkFrac n d = .ok c) : Good lt c := by
  unfold mkFrac at h
  simp only [not_isZero_of_nz hd.2, Bool.false_eq_true, if_false, Except.ok.injEq] at h
  subst h
  exact ⟨by simp [built, hn.1, hd.1, not_isZero_of_nz hd.2, not_isZero_of_nz hn.2], by simp [nz, hn.2, hd.2]⟩

theorem good_mulNF (hasym : Asymm lt) (a : Expr) (ha : Good lt a) (hfa : isFrac a = false) : ∀ b, Good lt b → ∀ c, mulNF lt a b = .ok c → Good lt c := by
  apply Expr.ind
  case hfrac =>
    intro n d ihn _ hb c hc
    have hbn : Good lt n := by
      have := hb.1; simp only [built, Bool.and_eq_true] at this
      have hz := hb.2; simp only [nz, Bool.and_eq_true] at hz
      exact ⟨this.1.1.1, hz.1⟩
    have hbd : Good lt d := by
      have := hb.1; simp only [built, Bool.and_eq_true] at this
      have hz := hb.2; simp only [nz, Bool.and_eq_true] at hz
      exact ⟨this.1.1.2, hz.2⟩
    have hflat : mulNF lt a (.frac n d) = .ok (mulFlat lt a (.frac n d)) → Good lt (mulFlat lt a (.frac n d)) :=
      fun _ => ⟨built_mulFlat lt hasym a _ ha.1 hb.1 hfa, nz_mulFlat lt a _ ha.2 hb.2⟩
    have hrec : (do mkFrac (← mulNF lt a n) d) = .ok c → Good lt c := by
      intro h
      cases hr : mulNF lt a n with
      | error e => simp [hr, bind, Except.bind] at h
      | ok r =>
        simp only [hr, bind, Except.bind] at h
        exact good_mkFrac lt (ihn hbn r hr) hbd h
    cases a <;> simp [isFrac] at hfa <;> simp only [mulNF] at hc <;>
      first
        | exact hrec hc
        | (cases hc; exact hflat rfl)
  all_goals
    intros
    rename_i hb c hc
    simp only [mulNF] at hc
    cases hc
    exact ⟨built_mulFlat lt hasym a _ ha.1 hb.1 hfa, nz_mulFlat lt a _ ha.2 hb.2⟩

theorem bind2_ok {r1 r2 : E Expr} {c : Expr} (h : (do mkFrac (← r1) (← r2)) = .ok c) :
    ∃ x y, r1 = .ok x ∧ r2 = .ok y ∧ mkFrac x y = .ok c := by
  cases r1 with
  | error e => simp [bind, Except.bind] at h
  | ok x =>
    cases r2 with
    | error e => simp [bind, Except.bind] at h
    | ok y => exact ⟨x, y, rfl, rfl, by simpa [bind, Except.bind] using h⟩

theorem good_frac_parts {n d : Expr} (h : Good lt (.frac n d)) : Good lt n ∧ Good lt d := by
  have h1 := h.1; simp only [built, Bool.and_eq_true] at h1
  have h2 := h.2; simp only [nz, Bool.and_eq_true] at h2
  exact ⟨⟨h1.1.1.1, h2.1⟩, ⟨h1.1.1.2, h2.2⟩⟩

/-- `*` preserves "built and `Zero()`-free" -/
theorem good_mul (hasym : Asymm lt) : ∀ a, Good lt a → ∀ b, Good lt b → ∀ c, mul lt a b = .ok c → Good lt c := by
  apply Expr.ind
  case hfrac =>
    intro n d ihn ihd ha b hb c hc
    obtain ⟨hn, hd⟩ := good_frac_parts lt ha
    cases b with
    | zero => exact absurd hb.2 (by simp [nz])
    | frac n2 d2 =>
      obtain ⟨hn2, hd2⟩ := good_frac_parts lt hb
      simp only [mul] at hc
      obtain ⟨x, y, hx, hy, hxy⟩ := bind2_ok hc
      exact good_mkFrac lt (ihn hn _ hn2 x hx) (ihd hd _ hd2 y hy) hxy
    | prob pop c' p =>
      simp only [mul] at hc
      obtain ⟨x, y, hx, hy, hxy⟩ := bind2_ok (r2 := .ok d) (by simpa [bind, Except.bind] using hc)
      cases hy
      exact good_mkFrac lt (ihn hn _ hb x hx) hd hxy
    | prod fs =>
      simp only [mul] at hc
      obtain ⟨x, y, hx, hy, hxy⟩ := bind2_ok (r2 := .ok d) (by simpa [bind, Except.bind] using hc)
      cases hy
      exact good_mkFrac lt (ihn hn _ hb x hx) hd hxy
    | sum e rs =>
      simp only [mul] at hc
      obtain ⟨x, y, hx, hy, hxy⟩ := bind2_ok (r2 := .ok d) (by simpa [bind, Except.bind] using hc)
      cases hy
      exact good_mkFrac lt (ihn hn _ hb x hx) hd hxy
    | one =>
      simp only [mul] at hc
      obtain ⟨x, y, hx, hy, hxy⟩ := bind2_ok (r2 := .ok d) (by simpa [bind, Except.bind] using hc)
      cases hy
      exact good_mkFrac lt (ihn hn _ hb x hx) hd hxy
    | q dom cod =>
      simp only [mul] at hc
      obtain ⟨x, y, hx, hy, hxy⟩ := bind2_ok (r2 := .ok d) (by simpa [bind, Except.bind] using hc)
      cases hy
      exact good_mkFrac lt (ihn hn _ hb x hx) hd hxy
  case hprob => intro pop c p ha b hb r hr; exact good_mulNF lt hasym _ ha rfl b hb r (by simpa [mul] using hr)
  case hprod => intro fs _ ha b hb r hr; exact good_mulNF lt hasym _ ha rfl b hb r (by simpa [mul] using hr)
  case hsum => intro e rs _ ha b hb r hr; exact good_mulNF lt hasym _ ha rfl b hb r (by simpa [mul] using hr)
  case hone => intro ha b hb r hr; exact good_mulNF lt hasym _ ha rfl b hb r (by simpa [mul] using hr)
  case hzero => intro ha; exact absurd ha.2 (by simp [nz])
  case hq => intro d c ha b hb r hr; exact good_mulNF lt hasym _ ha rfl b hb r (by simpa [mul] using hr)

/-- `/` preserves "built and `Zero()`-free" -/
theorem good_div (hasym : Asymm lt) (a b c : Expr) (ha : Good lt a) (hb : Good lt b) (hc : div lt a b = .ok c) : Good lt c := by
  have hplain : mkFrac a b = .ok c → Good lt c := good_mkFrac lt ha hb
  cases a with
  | zero => exact absurd ha.2 (by simp [nz])
  | frac n d =>
    obtain ⟨hn, hd⟩ := good_frac_parts lt ha
    cases b with
    | zero => exact absurd hb.2 (by simp [nz])
    | one => simp only [div] at hc; cases hc; exact ha
    | frac n2 d2 =>
      obtain ⟨hn2, hd2⟩ := good_frac_parts lt hb
      simp only [div] at hc
      obtain ⟨x, y, hx, hy, hxy⟩ := bind2_ok hc
      exact good_mkFrac lt (good_mul lt hasym n hn d2 hd2 x hx) (good_mul lt hasym d hd n2 hn2 y hy) hxy
    | prob pop c' p =>
      simp only [div] at hc
      obtain ⟨x, y, hx, hy, hxy⟩ := bind2_ok (r1 := .ok n) (by simpa [bind, Except.bind] using hc)
      cases hx
      exact good_mkFrac lt hn (good_mul lt hasym d hd _ hb y hy) hxy
    | prod fs =>
      simp only [div] at hc
      obtain ⟨x, y, hx, hy, hxy⟩ := bind2_ok (r1 := .ok n) (by simpa [bind, Except.bind] using hc)
      cases hx
      exact good_mkFrac lt hn (good_mul lt hasym d hd _ hb y hy) hxy
    | sum e rs =>
      simp only [div] at hc
      obtain ⟨x, y, hx, hy, hxy⟩ := bind2_ok (r1 := .ok n) (by simpa [bind, Except.bind] using hc)
      cases hx
      exact good_mkFrac lt hn (good_mul lt hasym d hd _ hb y hy) hxy
    | q dom cod =>
      simp only [div] at hc
      obtain ⟨x, y, hx, hy, hxy⟩ := bind2_ok (r1 := .ok n) (by simpa [bind, Except.bind] using hc)
      cases hx
      exact good_mkFrac lt hn (good_mul lt hasym d hd _ hb y hy) hxy
  | prob pop c' p =>
    cases b with
    | zero => exact absurd hb.2 (by simp [nz])
    | one => simp only [div] at hc; cases hc; exact ha
    | frac n2 d2 =>
      obtain ⟨hn2, hd2⟩ := good_frac_parts lt hb
      simp only [div] at hc
      obtain ⟨x, y, hx, hy, hxy⟩ := bind2_ok (r2 := .ok n2) (by simpa [bind, Except.bind] using hc)
      cases hy
      exact good_mkFrac lt (good_mul lt hasym _ ha d2 hd2 x hx) hn2 hxy
    | _ => exact hplain (by simpa [div] using hc)
  | prod fs =>
    cases b with
    | zero => exact absurd hb.2 (by simp [nz])
    | one => simp only [div] at hc; cases hc; exact ha
    | frac n2 d2 =>
      obtain ⟨hn2, hd2⟩ := good_frac_parts lt hb
      simp only [div] at hc
      obtain ⟨x, y, hx, hy, hxy⟩ := bind2_ok (r2 := .ok n2) (by simpa [bind, Except.bind] using hc)
      cases hy
      exact good_mkFrac lt (good_mul lt hasym _ ha d2 hd2 x hx) hn2 hxy
    | _ => exact hplain (by simpa [div] using hc)
  | sum e rs =>
    cases b with
    | zero => exact absurd hb.2 (by simp [nz])
    | one => simp only [div] at hc; cases hc; exact ha
    | frac n2 d2 =>
      obtain ⟨hn2, hd2⟩ := good_frac_parts lt hb
      simp only [div] at hc
      obtain ⟨x, y, hx, hy, hxy⟩ := bind2_ok (r2 := .ok n2) (by simpa [bind, Except.bind] using hc)
      cases hy
      exact good_mkFrac lt (good_mul lt hasym _ ha d2 hd2 x hx) hn2 hxy
    | _ => exact hplain (by simpa [div] using hc)
  | one =>
    cases b with
    | zero => exact absurd hb.2 (by simp [nz])
    | one => simp only [div] at hc; cases hc; exact ha
    | frac n2 d2 =>
      obtain ⟨hn2, hd2⟩ := good_frac_parts lt hb
      simp only [div] at hc
      obtain ⟨x, y, hx, hy, hxy⟩ := bind2_ok (r2 := .ok n2) (by simpa [bind, Except.bind] using hc)
      cases hy
      exact good_mkFrac lt (good_mul lt hasym _ ha d2 hd2 x hx) hn2 hxy
    | _ => exact hplain (by simpa [div] using hc)
  | q dom cod =>
    cases b with
    | zero => exact absurd hb.2 (by simp [nz])
    | one => simp only [div] at hc; cases hc; exact ha
    | frac n2 d2 =>
      obtain ⟨hn2, hd2⟩ := good_frac_parts lt hb
      simp only [div] at hc
      obtain ⟨x, y, hx, hy, hxy⟩ := bind2_ok (r2 := .ok n2) (by simpa [bind, Except.bind] using hc)
      cases hy
      exact good_mkFrac lt (good_mul lt hasym _ ha d2 hd2 x hx) hn2 hxy
    | _ => exact hplain (by simpa [div] using hc)

/-! ### with `Zero()` operands -/

theorem good_of_built {e : Expr} (hb : built lt e = true) (hz : isZero e = false) : Good lt e :=
  ⟨hb, nz_of_built lt e hb hz⟩

theorem eq_zero_of_isZero {e : Expr} (h : isZero e = true) : e = .zero := by
  cases e <;> simp [isZero] at h; rfl

theorem mul_zero_right (a : Expr) : mul lt a .zero = .ok .zero := by
  cases a <;> simp [mul, mulNF, mulFlat, productSafe, isOne, isZero]

/-- **`*` preserves `built`** -/
theorem built_mul (hasym : Asymm lt) (a b c : Expr) (ha : built lt a = true) (hb : built lt b = true)
    (hc : mul lt a b = .ok c) : built lt c = true := by
  by_cases hza : isZero a = true
  · have := eq_zero_of_isZero hza; subst this
    simp only [mul, mulNF, mulFlat] at hc
    cases b <;> simp only [mulNF, mulFlat] at hc <;> cases hc <;> rfl
  · by_cases hzb : isZero b = true
    · have := eq_zero_of_isZero hzb; subst this
      rw [mul_zero_right] at hc; cases hc; rfl
    · exact (good_mul lt hasym a (good_of_built lt ha (by simpa using hza)) b
        (good_of_built lt hb (by simpa using hzb)) c hc).1

/-- **`/` preserves `built`** -/
theorem built_div (hasym : Asymm lt) (a b c : Expr) (ha : built lt a = true) (hb : built lt b = true)
    (hc : div lt a b = .ok c) : built lt c = true := by
  by_cases hzb : isZero b = true
  · have := eq_zero_of_isZero hzb; subst this
    cases a <;> simp [div, mkFrac, isZero, mul_zero_right, bind, Except.bind, zeroDivision] at hc
  · by_cases hza : isZero a = true
    · have := eq_zero_of_isZero hza; subst this
      cases b <;> simp [div, isZero] at hc hzb <;> subst hc <;> rfl
    · exact (good_div lt hasym a b c (good_of_built lt ha (by simpa using hza))
        (good_of_built lt hb (by simpa using hzb)) hc).1

/-- **`Sum[rs](e)` preserves `built`** when the ranges are plain variables listed once, in order -/
theorem built_sumSafe (e c : Expr) (rs : List Var) (he : built lt e = true) (hinc : incBy Var.name rs = true)
    (hplain : rs.all plainVar = true) (hc : sumSafe e rs = .ok c) : built lt c = true := by
  unfold sumSafe at hc
  rw [upgradeOrdering_fix hinc] at hc
  by_cases hemp : rs.isEmpty = true
  · simp only [hemp, if_true, Except.ok.injEq] at hc; subst hc; exact he
  · have hemp' : rs.isEmpty = false := by simpa using hemp
    simp only [hemp', Bool.false_eq_true, if_false] at hc
    by_cases hz : isZero e = true
    · simp only [hz, if_true, Except.ok.injEq] at hc; subst hc; exact he
    · have hz' : isZero e = false := by simpa using hz
      have hany : rs.any (fun r => r.isIv || !r.ivs.isEmpty) = false := by
        rw [List.any_eq_false]
        intro v hv
        have := List.all_eq_true.mp hplain v hv
        simp only [plainVar, Bool.and_eq_true, Bool.not_eq_true', List.isEmpty_iff] at this
        simp [this.1.2, this.2]
      simp only [hz', hany, Bool.false_eq_true, if_false, Except.ok.injEq] at hc
      subst hc
      simp [built, hemp', hinc, hplain, he, hz']

/-! ### the pinned `_get_key` order is asymmetric -/

mutual
theorem Key.cmp_swap : ∀ a b : Key, Key.cmp b a = (Key.cmp a b).swap
  | .int a, .int b => by simp only [Key.cmp]; exact Std.OrientedOrd.eq_swap
  | .str a, .str b => by simp only [Key.cmp]; exact Std.OrientedOrd.eq_swap
  | .var a s, .var b t => by
    simp only [Key.cmp, Ordering.swap_then]
    rw [Std.OrientedOrd.eq_swap (a := b) (b := a), Std.OrientedOrd.eq_swap (a := starRank t) (b := starRank s)]
  | .tup as, .tup bs => by simp only [Key.cmp]; exact Key.cmpList_swap as bs
  | .int _, .str _ => rfl
  | .int _, .var _ _ => rfl
  | .int _, .tup _ => rfl
  | .str _, .int _ => rfl
  | .str _, .var _ _ => rfl
  | .str _, .tup _ => rfl
  | .var _ _, .int _ => rfl
  | .var _ _, .str _ => rfl
  | .var _ _, .tup _ => rfl
  | .tup _, .int _ => rfl
  | .tup _, .str _ => rfl
  | .tup _, .var _ _ => rfl
theorem Key.cmpList_swap : ∀ as bs : List Key, Key.cmpList bs as = (Key.cmpList as bs).swap
  | [], [] => rfl
  | [], _ :: _ => rfl
  | _ :: _, [] => rfl
  | a :: as, b :: bs => by
    simp only [Key.cmpList, Ordering.swap_then]
    rw [Key.cmp_swap a b, Key.cmpList_swap as bs]
end

theorem asymm_exprLt : Asymm exprLt := by
  intro a b h
  unfold exprLt at h ⊢
  rw [Key.cmpList_swap (key a) (key b)]
  simp only [beq_iff_eq] at h
  rw [h]
  rfl

end PyEval
end Y0
