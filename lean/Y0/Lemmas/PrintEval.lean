/-
  Y0.Lemmas.PrintEval — evaluating the operator tree of a built object with the DSL's builders and operators
  (`PyEval.eval`, the model of `eval(·, {}, LOCALS)`) rebuilds the object: variables, distributions, probabilities.
-/
import Y0.Lemmas.PrintEvalBasic
import Y0.Lemmas.PrintAst

namespace Y0
namespace PyEval
open Print

variable (lt : Expr → Expr → Bool)

/-! ### variables -/

/-- the `Intervention` object `+X` / `-X` -/
def ivVar (i : Iv) : Var := { name := i.name, star := some i.star, isIv := true, ivs := [] }

theorem eval_astIv (i : Iv) : eval lt (astIv i) = .ok (.var (ivVar i)) := by
  cases i with
  | mk n s => cases s <;> rfl

theorem eval_astSign (s : Option Bool) (n : Name) :
    eval lt (astSign s (.name n)) = .ok (.var { name := n, star := s, isIv := s.isSome, ivs := [] }) := by
  cases s with
  | none => rfl
  | some b => cases b <;> rfl

theorem toIvs_ivVar (is : List Iv) : toIvs (is.map ivVar) = is := by
  induction is with
  | nil => rfl
  | cons i is ih =>
    simp only [toIvs, List.map_cons, List.map_map] at ih ⊢
    rw [ih]
    rfl

theorem evalList_map {α} (f : α → Ast) (g : α → Val) (xs : List α) (h : ∀ x ∈ xs, eval lt (f x) = .ok (g x)) :
    evalList lt (xs.map f) = .ok (xs.map g) := by
  induction xs with
  | nil => rfl
  | cons x xs ih =>
    simp only [List.map_cons, evalList, h x (by simp), ih (fun y hy => h y (by simp [hy]))]
    rfl

theorem var_eta (v : Var) : ({ name := v.name, star := v.star, isIv := v.isIv, ivs := v.ivs } : Var) = v := by
  cases v; rfl

theorem varIntervene_base (n : Name) (s : Option Bool) (b : Bool) (is : List Iv) (hne : is ≠ [])
    (hinc : incBy Iv.name is = true) :
    varIntervene { name := n, star := s, isIv := b, ivs := [] } (is.map ivVar) =
      .ok { name := n, star := s, isIv := false, ivs := is } := by
  unfold varIntervene
  simp only [List.isEmpty_nil, if_true, toIvs_ivVar, normIvs_fix hinc]
  cases is with
  | nil => exact absurd rfl hne
  | cons i is => rfl

/-- evaluating the tree of a canonical variable rebuilds it -/
theorem eval_astVar (v : Var) (h : canonVar v = true) : eval lt (astVar v) = .ok (.var v) := by
  unfold canonVar at h
  simp only [Bool.and_eq_true] at h
  obtain ⟨hinc, hcls⟩ := h
  unfold astVar
  rw [normIvs_fix hinc]
  match hv : v.ivs with
  | [] =>
    simp only [astIvs, eval_astSign]
    simp only [hv, List.isEmpty_nil, if_true, beq_iff_eq] at hcls
    rw [← hcls, ← hv]
  | [i] =>
    simp only [hv, List.isEmpty_cons, Bool.false_eq_true, if_false, Bool.not_eq_true'] at hcls
    simp only [astIvs, eval, eval_astSign, eval_astIv]
    have := varIntervene_base v.name v.star v.star.isSome [i] (by simp) (by rw [← hv]; exact hinc)
    simp only [List.map_cons, List.map_nil] at this
    simp only [bind, Except.bind, binop, hintVars, this]
    rw [← hv, ← hcls]
    exact congrArg _ (congrArg _ (var_eta v))
  | i :: j :: is =>
    simp only [hv, List.isEmpty_cons, Bool.false_eq_true, if_false, Bool.not_eq_true'] at hcls
    simp only [astIvs, eval, eval_astSign]
    rw [evalList_map lt astIv (fun i => .var (ivVar i)) _ (fun x _ => eval_astIv lt x)]
    have := varIntervene_base v.name v.star v.star.isSome (i :: j :: is) (by simp) (by rw [← hv]; exact hinc)
    simp only [bind, Except.bind, pure, Except.pure, binop, hintVars]
    have hm : ((i :: j :: is).map (fun i => Val.var (ivVar i))).mapM asVar = .ok ((i :: j :: is).map ivVar) := by
      have := mapM_asVar_vars ((i :: j :: is).map ivVar)
      simpa [List.map_map, Function.comp_def] using this
    rw [hm]
    simp only [this]
    rw [← hv, ← hcls]

/-! ### distributions -/

/-- the values of the printed arguments of a distribution: the last child and the first parent arrive as one
`Distribution` object (`child | parent`) -/
def distVals : List Var → List Var → List Val
  | [], _ => []
  | [x], [] => [.var x]
  | [x], q :: ps => .dist [x] [q] :: ps.map .var
  | x :: y :: cs, p => .var x :: distVals (y :: cs) p

theorem orOp_vars (x q : Var) : orOp (.var x) (.var q) = .ok (.dist [x] [q]) := rfl

theorem evalList_vars (vs : List Var) (h : vs.all canonVar = true) : evalList lt (vs.map astVar) = .ok (vs.map .var) :=
  evalList_map lt astVar Val.var vs (fun v hv => eval_astVar lt v (List.all_eq_true.mp h v hv))

theorem evalList_astDistArgs : ∀ (c p : List Var), c.all canonVar = true → p.all canonVar = true →
    evalList lt (astDistArgs c p) = .ok (distVals c p)
  | [], _, _, _ => rfl
  | [x], [], hc, _ => by
    simp only [List.all_cons, List.all_nil, Bool.and_true] at hc
    simp only [astDistArgs, distVals, evalList, eval_astVar lt x hc]
    rfl
  | [x], q :: ps, hc, hp => by
    simp only [List.all_cons, List.all_nil, Bool.and_true, Bool.and_eq_true] at hc hp
    simp only [astDistArgs, distVals, evalList, eval, eval_astVar lt x hc, eval_astVar lt q hp.1,
      evalList_vars lt ps hp.2, bind, Except.bind, binop, orOp_vars]
    rfl
  | x :: y :: cs, p, hc, hp => by
    have hc' : (y :: cs).all canonVar = true := by
      simp only [List.all_cons, Bool.and_eq_true] at hc ⊢; exact hc.2
    have hx : canonVar x = true := by
      simp only [List.all_cons, Bool.and_eq_true] at hc; exact hc.1
    simp only [astDistArgs, distVals, evalList, eval_astVar lt x hx, evalList_astDistArgs (y :: cs) p hc' hp]
    rfl

theorem distVals_nil_parents : ∀ c : List Var, distVals c [] = c.map .var
  | [] => rfl
  | [x] => rfl
  | x :: y :: cs => by simp [distVals, distVals_nil_parents (y :: cs)]

theorem distVals_snoc (q : Var) (ps : List Var) : ∀ (pre : List Var) (last : Var),
    distVals (pre ++ [last]) (q :: ps) = pre.map .var ++ .dist [last] [q] :: ps.map .var
  | [], last => rfl
  | [x], last => by simp [distVals]
  | x :: y :: pre, last => by
    have := distVals_snoc q ps (y :: pre) last
    simp only [List.cons_append] at this ⊢
    simp [distVals, this]

theorem filter_isDist_vars (vs : List Var) : (vs.map Val.var).filter isDistVal = [] := by
  induction vs with
  | nil => rfl
  | cons v vs ih => simp [isDistVal, ih]

theorem takeWhile_vars (vs : List Var) (rest : List Val) (c p : List Var) :
    (vs.map Val.var ++ .dist c p :: rest).takeWhile (fun x => !isDistVal x) = vs.map Val.var := by
  induction vs with
  | nil => simp [isDistVal]
  | cons v vs _ => simp [List.takeWhile, isDistVal]

theorem dropWhile_vars (vs : List Var) (rest : List Val) (c p : List Var) :
    (vs.map Val.var ++ .dist c p :: rest).dropWhile (fun x => !isDistVal x) = .dist c p :: rest := by
  induction vs with
  | nil => simp [isDistVal]
  | cons v vs _ => simp [List.dropWhile, isDistVal]

theorem distSafeExt_vars (c : List Var) (hne : c ≠ []) (hinc : incBy Var.name c = true) :
    distSafeExt (c.map .var) = .ok (c, []) := by
  unfold distSafeExt
  rw [filter_isDist_vars]
  simp only [List.length_nil, mapM_asVar_vars, bind, Except.bind, upgradeOrdering_fix hinc, mkDist]
  cases c with
  | nil => exact absurd rfl hne
  | cons x xs => rfl

theorem distSafeExt_mixed (pre : List Var) (last q : Var) (ps : List Var)
    (hc : incBy Var.name (pre ++ [last]) = true) (hp : incBy Var.name (q :: ps) = true) :
    distSafeExt (pre.map .var ++ .dist [last] [q] :: ps.map .var) = .ok (pre ++ [last], q :: ps) := by
  unfold distSafeExt
  have hf : (pre.map Val.var ++ Val.dist [last] [q] :: ps.map Val.var).filter isDistVal = [Val.dist [last] [q]] := by
    rw [List.filter_append, filter_isDist_vars, List.filter_cons, filter_isDist_vars]
    rfl
  rw [hf]
  simp only [List.length_cons, List.length_nil, takeWhile_vars, dropWhile_vars, mapM_asVar_vars, bind, Except.bind]
  rw [upgradeOrdering_fix (incBy_append_left _ _ _ hc), upgradeOrdering_fix (incBy_tail _ hp), sortedVars_fix hc]
  simp only [List.singleton_append, sortedVars_fix hp, mkDist]
  cases pre <;> rfl

/-- `Distribution.safe` on the printed arguments of a canonical distribution rebuilds it -/
theorem distSafe_distVals (c p : List Var) (hne : c ≠ []) (hc : incBy Var.name c = true) (hp : incBy Var.name p = true) :
    distSafe (distVals c p) = .ok (c, p) := by
  cases p with
  | nil =>
    rw [distVals_nil_parents]
    cases c with
    | nil => exact absurd rfl hne
    | cons x xs =>
      have := distSafeExt_vars (x :: xs) (by simp) hc
      simpa [distSafe] using this
  | cons q ps =>
    have hsplit : c = c.dropLast ++ [c.getLast hne] := (List.dropLast_concat_getLast hne).symm
    rw [hsplit, distVals_snoc]
    have := distSafeExt_mixed c.dropLast (c.getLast hne) q ps (by rw [← hsplit]; exact hc) hp
    cases hd : c.dropLast with
    | nil => simpa [hd, distSafe] using this
    | cons x xs => simpa [hd, distSafe] using this

/-! ### probabilities -/

theorem mem_dedup'_iff {α} [DecidableEq α] (x : α) : ∀ l : List α, x ∈ dedup' l ↔ x ∈ l
  | [] => by simp [dedup']
  | y :: ys => by
    simp only [dedup', List.mem_cons, List.mem_filter, mem_dedup'_iff x ys, ne_eq, decide_not, Bool.not_eq_true',
      decide_eq_false_iff_not]
    constructor
    · rintro (h | ⟨h, _⟩)
      · exact Or.inl h
      · exact Or.inr h
    · intro h
      by_cases hxy : x = y
      · exact Or.inl hxy
      · rcases h with h | h
        · exact Or.inl h
        · exact Or.inr ⟨h, hxy⟩

theorem level2_some {c p : List Var} {is : List Iv} (h : level2 c p = some is) :
    is ≠ [] ∧ ∀ v ∈ c ++ p, normIvs v.ivs = is := by
  unfold level2 at h
  split at h
  · rename_i s hs
    by_cases he : s.isEmpty
    · simp [he] at h
    · simp only [he, Bool.false_eq_true, if_false, Option.some.injEq] at h
      subst h
      refine ⟨by intro h0; simp [h0] at he, ?_⟩
      intro v hv
      have hmem : normIvs v.ivs ∈ dedup' ((c ++ p).map fun v => normIvs v.ivs) :=
        (mem_dedup'_iff _ _).mpr (List.mem_map.mpr ⟨v, hv, rfl⟩)
      rw [hs] at hmem
      simpa using hmem
  · cases h

theorem eval_astPop (v : Var) (h : canonVar v = true) : eval lt (astPop v) = .ok (.var v) := by
  unfold astPop
  split
  · rename_i hv
    subst hv
    rfl
  · exact eval_astVar lt v h

theorem eval_probHead (pop : Option Var) (h : canonPop pop = true) :
    eval lt (astProbHead pop) = .ok (.pBuilder pop none) := by
  cases pop with
  | none => rfl
  | some v =>
    simp only [astProbHead, eval, eval_astPop lt v h]
    rfl

/-- the object `+X` / `X` written in a `P[…]` subscript -/
def l2var (i : Iv) : Var := if i.star then ivVar i else Var.plain i.name

theorem eval_astL2 (i : Iv) : eval lt (astL2 i) = .ok (.var (l2var i)) := by
  cases i with
  | mk n s => cases s <;> rfl

theorem toIvs_l2var (is : List Iv) : toIvs (is.map l2var) = is := by
  induction is with
  | nil => rfl
  | cons i is ih =>
    simp only [toIvs, List.map_cons, List.map_map] at ih ⊢
    rw [ih]
    cases i with
    | mk n s => cases s <;> rfl

theorem eval_l2_subscript (is : List Iv) (hne : is ≠ []) :
    ∃ val, eval lt (PyParse.tupleOf (is.map astL2)) = .ok val ∧ hintVars val = .ok (is.map l2var) := by
  match is, hne with
  | [i], _ => exact ⟨_, eval_astL2 lt i, rfl⟩
  | i :: j :: r, _ =>
    refine ⟨.tuple ((i :: j :: r).map fun x => .var (l2var x)), ?_, ?_⟩
    · simp only [PyParse.tupleOf, List.map_cons, eval]
      have := evalList_map lt astL2 (fun x => Val.var (l2var x)) (i :: j :: r) (fun x _ => eval_astL2 lt x)
      simp only [List.map_cons] at this
      rw [this]
      rfl
    · have := mapM_asVar_vars ((i :: j :: r).map l2var)
      simpa [hintVars, List.map_map, Function.comp_def] using this

/-- the stripped variable as the parser rebuilds it: a value mark makes it an `Intervention` -/
def strip' (v : Var) : Var := { name := v.name, star := v.star, isIv := v.star.isSome, ivs := [] }

theorem astVar_strip (v : Var) : astVar (strip v) = astVar (strip' v) := rfl

theorem astDistArgs_strip : ∀ c p : List Var,
    astDistArgs (c.map strip) (p.map strip) = astDistArgs (c.map strip') (p.map strip')
  | [], _ => rfl
  | [x], [] => rfl
  | [x], q :: ps => by
    simp only [List.map_cons, List.map_nil, astDistArgs, List.map_map, astVar_strip]
    congr 1
  | x :: y :: cs, p => by
    have := astDistArgs_strip (y :: cs) p
    simp only [List.map_cons] at this ⊢
    simp only [astDistArgs, astVar_strip, this]

theorem canonVar_strip' (v : Var) : canonVar (strip' v) = true := by
  simp [canonVar, strip', incBy]

theorem mapM_map_ok {α β} (f : α → E β) (g : β → α) : ∀ l : List β, (∀ x ∈ l, f (g x) = .ok x) →
    (l.map g).mapM f = .ok l
  | [], _ => rfl
  | x :: xs, h => by
    simp only [List.map_cons, List.mapM_cons, h x (by simp), mapM_map_ok f g xs (fun y hy => h y (by simp [hy]))]
    rfl

theorem distIntervene_strip' (c p : List Var) (is : List Iv) (hne : is ≠ []) (hinc : incBy Iv.name is = true)
    (hcne : c ≠ []) (hall : ∀ v ∈ c ++ p, v.ivs = is ∧ v.isIv = false) :
    distIntervene (c.map strip') (p.map strip') (is.map l2var) = .ok (c, p) := by
  have hnames : incBy Var.name (is.map l2var) = true := by
    rw [incBy_map Var.name l2var Iv.name (fun i => by cases i with | mk n s => cases s <;> rfl)]
    exact hinc
  have hone : ∀ v ∈ c ++ p, varIntervene (strip' v) (is.map l2var) = .ok v := by
    intro v hv
    obtain ⟨h1, h2⟩ := hall v hv
    unfold varIntervene strip'
    simp only [List.isEmpty_nil, if_true, toIvs_l2var, normIvs_fix hinc]
    have : is.isEmpty = false := by cases is with | nil => exact absurd rfl hne | cons _ _ => rfl
    simp only [this, Bool.false_eq_true, if_false]
    rw [← h1, ← h2]
  unfold distIntervene
  rw [upgradeOrdering_fix hnames]
  simp only [bind, Except.bind]
  rw [mapM_map_ok _ strip' c (fun v hv => hone v (by simp [hv])),
    mapM_map_ok _ strip' p (fun v hv => hone v (by simp [hv]))]
  simp only [mkDist]
  cases c with
  | nil => exact absurd rfl hcne
  | cons x xs => rfl

/-- evaluating the tree of a canonical probability with the builders `P`, `P[…]`, `PP[…]`, `PP[…][…]` rebuilds it -/
theorem eval_astProb (pop : Option Var) (c p : List Var)
    (hne : c ≠ []) (hc : incBy Var.name c = true) (hp : incBy Var.name p = true)
    (hcc : c.all canonVar = true) (hpc : p.all canonVar = true) (hpop : canonPop pop = true) :
    eval lt (astProb pop c p) = .ok (.expr (.prob pop c p)) := by
  unfold astProb
  match hl : level2 c p with
  | none =>
    simp only [eval, eval_probHead lt pop hpop, evalList_astDistArgs lt c p hcc hpc, bind, Except.bind, callVal,
      probSafe, distSafe_distVals c p hne hc hp]
    rfl
  | some is =>
    obtain ⟨hisne, hall⟩ := level2_some hl
    have hcanon : ∀ v ∈ c ++ p, canonVar v = true := by
      intro v hv
      rcases List.mem_append.mp hv with h | h
      · exact List.all_eq_true.mp hcc v h
      · exact List.all_eq_true.mp hpc v h
    have hivs : ∀ v ∈ c ++ p, v.ivs = is ∧ v.isIv = false := by
      intro v hv
      have hcv := hcanon v hv
      unfold canonVar at hcv
      simp only [Bool.and_eq_true] at hcv
      have h1 : v.ivs = is := by rw [← hall v hv, normIvs_fix hcv.1]
      refine ⟨h1, ?_⟩
      have : v.ivs.isEmpty = false := by
        rw [h1]; cases is with | nil => exact absurd rfl hisne | cons _ _ => rfl
      simpa [this] using hcv.2
    have hinc : incBy Iv.name is = true := by
      cases c with
      | nil => exact absurd rfl hne
      | cons x xs =>
        have hcv := hcanon x (by simp)
        unfold canonVar at hcv
        simp only [Bool.and_eq_true] at hcv
        rw [← (hivs x (by simp)).1]
        exact hcv.1
    obtain ⟨val, hval, hhint⟩ := eval_l2_subscript lt is hisne
    have hc' : (c.map strip').all canonVar = true := by simp [List.all_map, canonVar_strip']
    have hp' : (p.map strip').all canonVar = true := by simp [List.all_map, canonVar_strip']
    have hcn : incBy Var.name (c.map strip') = true := by
      rw [incBy_map Var.name strip' Var.name (fun _ => rfl)]; exact hc
    have hpn : incBy Var.name (p.map strip') = true := by
      rw [incBy_map Var.name strip' Var.name (fun _ => rfl)]; exact hp
    simp only [eval, eval_probHead lt pop hpop, hval, astDistArgs_strip,
      evalList_astDistArgs lt (c.map strip') (p.map strip') hc' hp', bind, Except.bind, subscript, callVal, probSafe,
      distSafe_distVals (c.map strip') (p.map strip') (by simpa using hne) hcn hpn, hhint,
      distIntervene_strip' c p is hisne hinc hne hivs]
    rfl

end PyEval
end Y0
