/-
  Y0.Lemmas.Prob — algebra of `sumRange` / `sumVar` / `sumVars` (Y0.Spec.Prob), by transport to `Finset.sum`.
  Shared by every semantic development (C01, C03, C05, C10, C13, C17).
-/
import Y0.Spec.Prob
import Mathlib.Algebra.BigOperators.Ring.Finset
import Mathlib.Algebra.Order.Field.Rat
import Mathlib.Algebra.Order.BigOperators.Ring.Finset

namespace Y0
open Finset

theorem sumRange_eq_sum (n : Nat) (f : Nat → Rat) : sumRange n f = ∑ k ∈ range n, f k := by
  unfold sumRange
  induction n with
  | zero => simp
  | succ n ih => rw [List.range_succ, List.map_append, List.sum_append, ih, Finset.sum_range_succ]; simp

@[simp] theorem Val.set_same (σ : Val) (x : Name) (k : Nat) : σ.set x k x = k := by simp [Val.set]
@[simp] theorem Val.set_other (σ : Val) {x y : Name} (k : Nat) (h : y ≠ x) : σ.set x k y = σ y := by
  simp [Val.set, h]
theorem Val.set_set (σ : Val) (x : Name) (j k : Nat) : (σ.set x j).set x k = σ.set x k := by
  funext y; by_cases h : y = x <;> simp [Val.set, h]
theorem Val.set_comm (σ : Val) {x y : Name} (h : x ≠ y) (j k : Nat) :
    (σ.set x j).set y k = (σ.set y k).set x j := by
  funext z
  by_cases hx : z = x
  · by_cases hy : z = y
    · exact absurd (hx.symm.trans hy) h
    · have : x ≠ y := h
      simp [Val.set, hx, this]
  · by_cases hy : z = y
    · have : y ≠ x := fun e => h e.symm
      simp [Val.set, hy, this]
    · simp [Val.set, hx, hy]
theorem Val.set_self (σ : Val) (x : Name) : σ.set x (σ x) = σ := by
  funext y; by_cases h : y = x <;> simp [Val.set, h]

theorem sumVar_eq_sum (card : Name → Nat) (x : Name) (f : Val → Rat) (σ : Val) :
    sumVar card x f σ = ∑ k ∈ range (card x), f (σ.set x k) := by
  simp [sumVar, sumRange_eq_sum]

theorem sumVar_congr (card : Name → Nat) (x : Name) {f g : Val → Rat} (σ : Val)
    (h : ∀ k, k < card x → f (σ.set x k) = g (σ.set x k)) : sumVar card x f σ = sumVar card x g σ := by
  simp only [sumVar_eq_sum]
  exact Finset.sum_congr rfl fun k hk => h k (Finset.mem_range.mp hk)

theorem sumVar_comm (card : Name → Nat) {x y : Name} (h : x ≠ y) (f : Val → Rat) (σ : Val) :
    sumVar card x (sumVar card y f) σ = sumVar card y (sumVar card x f) σ := by
  simp only [sumVar_eq_sum]
  rw [Finset.sum_comm]
  refine Finset.sum_congr rfl fun k _ => Finset.sum_congr rfl fun j _ => ?_
  rw [Val.set_comm _ h]

theorem sumVar_add (card : Name → Nat) (x : Name) (f g : Val → Rat) (σ : Val) :
    sumVar card x (fun τ => f τ + g τ) σ = sumVar card x f σ + sumVar card x g σ := by
  simp only [sumVar_eq_sum, Finset.sum_add_distrib]

theorem sumVar_mul_left (card : Name → Nat) (x : Name) (g f : Val → Rat) (σ : Val) (hg : IndepOf g x) :
    sumVar card x (fun τ => g τ * f τ) σ = g σ * sumVar card x f σ := by
  simp only [sumVar_eq_sum]
  rw [Finset.mul_sum]
  exact Finset.sum_congr rfl fun k _ => by rw [hg]

theorem sumVar_mul_right (card : Name → Nat) (x : Name) (f g : Val → Rat) (σ : Val) (hg : IndepOf g x) :
    sumVar card x (fun τ => f τ * g τ) σ = sumVar card x f σ * g σ := by
  simp only [sumVar_eq_sum]
  rw [Finset.sum_mul]
  exact Finset.sum_congr rfl fun k _ => by rw [hg]

theorem sumVar_div_right (card : Name → Nat) (x : Name) (f g : Val → Rat) (σ : Val) (hg : IndepOf g x) :
    sumVar card x (fun τ => f τ / g τ) σ = sumVar card x f σ / g σ := by
  simp only [div_eq_mul_inv]
  exact sumVar_mul_right card x f (fun τ => (g τ)⁻¹) σ (fun τ k => by show (g (τ.set x k))⁻¹ = (g τ)⁻¹; rw [hg])

/-- summing something that does not depend on `x` multiplies by the cardinality -/
theorem sumVar_const (card : Name → Nat) (x : Name) (f : Val → Rat) (σ : Val) (hf : IndepOf f x) :
    sumVar card x f σ = (card x : Rat) * f σ := by
  simp only [sumVar_eq_sum]
  rw [Finset.sum_congr rfl (fun k _ => hf σ k)]
  simp

/-- the result of summing over `x` no longer depends on `x` -/
theorem sumVar_indep (card : Name → Nat) (x : Name) (f : Val → Rat) : IndepOf (sumVar card x f) x := by
  intro σ k
  simp only [sumVar_eq_sum, Val.set_set]

theorem sumVar_indep_of_indep (card : Name → Nat) {x y : Name} (f : Val → Rat) (h : IndepOf f y) :
    IndepOf (sumVar card x f) y := by
  intro σ k
  by_cases hxy : x = y
  · subst hxy; exact sumVar_indep card x f σ k
  · simp only [sumVar_eq_sum]
    refine Finset.sum_congr rfl fun j _ => ?_
    rw [Val.set_comm _ (Ne.symm hxy), h]

/-- one-variable core of the (sink) lemma: a normalised kernel in `x` times something free of `x` -/
theorem sink_core (card : Name → Nat) (x : Name) (g k : Val → Rat) (σ : Val)
    (hg : IndepOf g x) (hk : ∀ τ, sumVar card x k τ = 1) :
    sumVar card x (fun τ => g τ * k τ) σ = g σ := by
  rw [sumVar_mul_left card x g k σ hg, hk, mul_one]

theorem sumVar_nonneg (card : Name → Nat) (x : Name) (f : Val → Rat) (σ : Val) (h : ∀ τ, 0 ≤ f τ) :
    0 ≤ sumVar card x f σ := by
  rw [sumVar_eq_sum]; exact Finset.sum_nonneg fun k _ => h _

theorem sumVar_pos (card : Name → Nat) (x : Name) (f : Val → Rat) (σ : Val) (hc : 0 < card x)
    (h : ∀ τ, 0 < f τ) : 0 < sumVar card x f σ := by
  rw [sumVar_eq_sum]
  exact Finset.sum_pos (fun k _ => h _) ⟨0, Finset.mem_range.mpr hc⟩

/-! ### lists of variables -/

theorem sumVars_congr (card : Name → Nat) (xs : List Name) {f g : Val → Rat} (h : ∀ τ, f τ = g τ) (σ : Val) :
    sumVars card xs f σ = sumVars card xs g σ := by
  have : f = g := funext h
  rw [this]

theorem sumVars_append (card : Name → Nat) (xs ys : List Name) (f : Val → Rat) :
    sumVars card (xs ++ ys) f = sumVars card xs (sumVars card ys f) := by
  induction xs with
  | nil => rfl
  | cons x xs ih => simp [sumVars, ih]

theorem sumVar_sumVars_comm (card : Name → Nat) (x : Name) (ys : List Name) (f : Val → Rat) :
    sumVar card x (sumVars card ys f) = sumVars card ys (sumVar card x f) := by
  induction ys generalizing f with
  | nil => rfl
  | cons y ys ih =>
    simp only [sumVars]
    rw [← ih]
    by_cases h : x = y
    · subst h; rfl
    · funext σ; exact sumVar_comm card h _ σ

/-- the order of summation is irrelevant -/
theorem sumVars_perm (card : Name → Nat) {xs ys : List Name} (h : xs.Perm ys) (f : Val → Rat) :
    sumVars card xs f = sumVars card ys f := by
  induction h generalizing f with
  | nil => rfl
  | cons x _ ih => simp [sumVars, ih]
  | swap x y l =>
    simp only [sumVars]
    by_cases hxy : x = y
    · subst hxy; rfl
    · funext σ; exact (sumVar_comm card hxy _ σ).symm
  | trans _ _ ih₁ ih₂ => rw [ih₁, ih₂]

theorem sumVars_mul_left (card : Name → Nat) (xs : List Name) (g f : Val → Rat) (σ : Val)
    (hg : ∀ x ∈ xs, IndepOf g x) :
    sumVars card xs (fun τ => g τ * f τ) σ = g σ * sumVars card xs f σ := by
  induction xs generalizing σ with
  | nil => rfl
  | cons x xs ih =>
    simp only [sumVars]
    have : sumVars card xs (fun τ => g τ * f τ) = fun τ => g τ * sumVars card xs f τ :=
      funext fun τ => ih τ (fun y hy => hg y (List.mem_cons_of_mem _ hy))
    rw [this]
    exact sumVar_mul_left card x g _ σ (hg x List.mem_cons_self)

theorem sumVars_indep (card : Name → Nat) (xs : List Name) (f : Val → Rat) {y : Name} (h : IndepOf f y) :
    IndepOf (sumVars card xs f) y := by
  induction xs with
  | nil => exact h
  | cons x xs ih => exact sumVar_indep_of_indep card _ ih

theorem sumVars_indep_mem (card : Name → Nat) (xs : List Name) (f : Val → Rat) {y : Name} (h : y ∈ xs) :
    IndepOf (sumVars card xs f) y := by
  induction xs with
  | nil => cases h
  | cons x xs ih =>
    simp only [sumVars]
    rcases List.mem_cons.mp h with rfl | h'
    · exact sumVar_indep card _ _
    · exact sumVar_indep_of_indep card _ (ih h')

theorem DependsOnly.indepOf {f : Val → Rat} {S : List Name} (h : DependsOnly f S) {x : Name} (hx : x ∉ S) :
    IndepOf f x := by
  intro σ k
  apply h
  intro v hv
  have : v ≠ x := fun e => hx (e ▸ hv)
  simp [Val.set, this]

theorem DependsOnly.mono {f : Val → Rat} {S T : List Name} (h : DependsOnly f S) (hST : ∀ v ∈ S, v ∈ T) :
    DependsOnly f T := fun σ τ hστ => h σ τ fun v hv => hστ v (hST v hv)

end Y0
