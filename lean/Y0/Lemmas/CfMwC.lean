/-
  Y0.Lemmas.CfMwC — MULTI-WORLD events, part C: lines 4–9 of the TOP-LEVEL call on an event that is still multi-world after line 3.

  `Frag3At G g nev` (a decidable condition on the counterfactual graph `g` and the relabelled event `nev`):
    (a) at most one non-self-intervened node per variable (else F10/M3a, D1);
    (b) no non-self-intervened node is named like a subscript of a node of `g` (else F10/M3b, M5, D2);
    (c) all subscripts of all nodes of `g` are mutually consistent;
    (d) the bidirected edges of `G` between non-self-intervened nodes are edges of `g` (a checked property of the construction);
    (e) line 9: the subscript by which a self-intervened node is intervened is a subscript of a non-self-intervened node;
        line 6: no starred-valued key is a parent (in `G`) of a non-self-intervened node (else F10/M1) and no node is self-intervened on
        a starred subscript (else F10/M2).
  `lines4to9_sound_mw`: then the estimand equals P(event) under the conflating reading `cden` with the values `sigma0` (the
  event's values; `x'` for a variable with a starred subscript) — the recursive calls are calls on single-world events
  (Lemmas/CfFragC.lean), the top-level decomposition is `mw_local` + `mw_marginal` + the c-component factorisation.
-/
import Y0.Lemmas.CfMwB
import Y0.Lemmas.CfStarZero

namespace Y0.Cf
open Relation MG Fscm

structure Frag3At (G : MG Name) (g : MG Var) (nev : Event) : Prop where
  inj : ∀ a ∈ (nsiSubgraph g).nodes, ∀ b ∈ (nsiSubgraph g).nodes, a.name = b.name → a = b
  sepSubs : ∀ n ∈ (nsiSubgraph g).nodes, ∀ x ∈ g.nodes, ∀ i ∈ x.ivs, i.name ≠ n.name
  cons : ConsistentSubs (cfInterventions g.nodes)
  biRep : BiRep G g
  line9 : isConnected (nsiSubgraph g) = .ok true → ∀ x ∈ g.nodes, isNotSelfIntervened x = false → ∀ i ∈ x.ivs,
    i.name = x.name → i ∈ cfInterventions (nsiSubgraph g).nodes
  line6 : isConnected (nsiSubgraph g) = .ok false →
    (∀ k ∈ nev.keys, starOf nev k.name = true → ∀ n ∈ (nsiSubgraph g).nodes, (k.name, n.name) ∉ G.di) ∧
    (∀ x ∈ g.nodes, isNotSelfIntervened x = false → ∀ i ∈ x.ivs, i.name = x.name → i.star = false)

/-- the values of the top-level reading: `x'` for a key with a starred value and for a variable with a starred subscript
somewhere in the counterfactual graph, `x` otherwise -/
def sigma0 (ν : BaseValues) (g : MG Var) (nev : Event) : Valuation :=
  fun n => if starOf nev n || (cfInterventions g.nodes).any (fun i => i.name == n && i.star) then ν n true else ν n false

theorem mem_cfInterventions (nodes : List Var) (i : Iv) : i ∈ cfInterventions nodes ↔ ∃ n ∈ nodes, i ∈ n.ivs := by
  unfold cfInterventions
  rw [mem_dedup']
  simp only [List.mem_flatMap]

/-- the names line 6 / line 9 sum over, in terms of the relabelled event -/
theorem free_spec_nev (cf : MG Var) (g : MG Var) (nev : Event)
    (hcf : ∀ n, (n ∈ cf.nodes ∧ isNotSelfIntervened n = true) ↔ n ∈ (nsiSubgraph g).nodes) :
    let rs := (upgradeOrdering ((freeVariables cf nev).map Var.plain)).map (·.name)
    rs.Nodup ∧ ∀ V, V ∈ rs ↔ V ∈ (nsiSubgraph g).nodes.map (·.name) ∧ V ∉ nev.keys.map (·.name) := by
  intro rs
  obtain ⟨h1, h2⟩ := ranges_spec (freeVariables cf nev)
  refine ⟨h1, fun V => ?_⟩
  rw [h2 V]
  unfold freeVariables
  simp only [diff', List.mem_filter, mem_dedup', decide_eq_true_eq]
  constructor
  · rintro ⟨hV, hVk⟩
    refine ⟨?_, hVk⟩
    obtain ⟨n, hn, rfl⟩ := List.mem_map.1 hV
    rw [List.mem_filter] at hn
    exact List.mem_map.2 ⟨n, (hcf n).1 hn, rfl⟩
  · rintro ⟨hV, hVk⟩
    refine ⟨?_, hVk⟩
    obtain ⟨n, hn, rfl⟩ := List.mem_map.1 hV
    exact List.mem_map.2 ⟨n, List.mem_filter.2 ((hcf n).2 hn), rfl⟩

section
variable {M : Model} {ν : BaseValues} {G : MG Name} {topo : List Name} {ev : Event} {g : MG Var} {nev : Event}

/-- the district facts of a multi-world counterfactual graph that satisfies `Frag3At` -/
theorem dfacts_of_mw (facts : MWFacts M ν G topo ev g nev) (h3 : Frag3At G g nev)
    (hkeysnsi : ∀ k ∈ nev.keys, isNotSelfIntervened k = true) : DFacts G (starOf nev) g nev where
  wf := facts.wf
  nodeOK := facts.nodeOK
  inj := fun x hx y hy hxn hyn hxy =>
    h3.inj x ((mem_nsiSubgraph_iff g x).2 ⟨hx, hxn⟩) y ((mem_nsiSubgraph_iff g y).2 ⟨hy, hyn⟩) hxy
  rep := facts.repG
  biRep := h3.biRep
  sep := by
    intro v hv hvn n hn hnn hname
    obtain ⟨i, hi, hin⟩ := exists_self_iv v hvn
    exact h3.sepSubs n ((mem_nsiSubgraph_iff g n).2 ⟨hn, hnn⟩) v hv i hi (by rw [hin, hname])
  nevVals := by
    intro p hp
    have hname := facts.nevOK.names p hp
    have hkp : p.1 ∈ nev.keys := (mem_keys_iff nev p.1).2 ⟨p.2, hp⟩
    have hstar : p.2.star = starOf nev p.1.name := by
      unfold starOf
      cases hs : p.2.star with
      | true =>
        symm
        rw [List.any_eq_true]
        exact ⟨p, hp, by simp [hs]⟩
      | false =>
        symm
        rw [List.any_eq_false]
        intro q hq
        simp only [Bool.and_eq_true, beq_iff_eq, not_and, Bool.not_eq_true]
        intro hqn
        have hkq : q.1 ∈ nev.keys := (mem_keys_iff nev q.1).2 ⟨q.2, hq⟩
        have hqp : q.1 = p.1 := h3.inj q.1 ((mem_nsiSubgraph_iff g q.1).2 ⟨facts.keysNodes q.1 hkq, hkeysnsi q.1 hkq⟩) p.1
          ((mem_nsiSubgraph_iff g p.1).2 ⟨facts.keysNodes p.1 hkp, hkeysnsi p.1 hkp⟩) hqn
        have h1 := Event.get?_of_mem_nodup facts.nevOK.nodup hq
        have h2 := Event.get?_of_mem_nodup facts.nevOK.nodup hp
        rw [hqp, h2] at h1
        simp only [Option.some.injEq] at h1
        rw [← h1, hs]
    rcases p with ⟨k, ⟨n, b⟩⟩
    simp only at hname hstar ⊢
    rw [hname, hstar]
  nevOK := facts.nevOK
  keysNodes := facts.keysNodes
  proj := facts.proj

/-- what `sigma0` gives the keys, the self-intervened nodes and the starred subscripts -/
theorem sigma0_facts (facts : MWFacts M ν G topo ev g nev) (h3 : Frag3At G g nev)
    (hkeysnsi : ∀ k ∈ nev.keys, isNotSelfIntervened k = true) :
    (∀ p ∈ nev, sigma0 ν g nev p.1.name = ivValue ν p.2) ∧
    (∀ x ∈ g.nodes, ∀ i ∈ x.ivs, sigma0 ν g nev i.name = ivValue ν i) := by
  have hD := dfacts_of_mw facts h3 hkeysnsi
  have hany : ∀ n, (cfInterventions g.nodes).any (fun i => i.name == n && i.star) = true →
      ∃ i ∈ cfInterventions g.nodes, i.name = n ∧ i.star = true := by
    intro n hb
    rw [List.any_eq_true] at hb
    obtain ⟨i, hi, h⟩ := hb
    simp only [Bool.and_eq_true, beq_iff_eq] at h
    exact ⟨i, hi, h.1, h.2⟩
  constructor
  · intro p hp
    have hk : p.1 ∈ nev.keys := (mem_keys_iff nev p.1).2 ⟨p.2, hp⟩
    have hval : p.2 = ⟨p.1.name, starOf nev p.1.name⟩ := hD.nevVals p hp
    have hnoS : (cfInterventions g.nodes).any (fun i => i.name == p.1.name && i.star) = false := by
      cases hb : (cfInterventions g.nodes).any (fun i => i.name == p.1.name && i.star) with
      | false => rfl
      | true =>
        obtain ⟨i, hi, hin, _⟩ := hany _ hb
        obtain ⟨x, hx, hix⟩ := (mem_cfInterventions _ i).1 hi
        exact absurd hin (h3.sepSubs p.1 ((mem_nsiSubgraph_iff g p.1).2 ⟨facts.keysNodes p.1 hk, hkeysnsi p.1 hk⟩) x hx i hix)
    unfold sigma0
    rw [hnoS, hval]
    cases hs : starOf nev p.1.name <;> simp [ivValue]
  · intro x hx i hi
    have hiW : i ∈ cfInterventions g.nodes := (mem_cfInterventions _ i).2 ⟨x, hx, hi⟩
    -- `i.name` is not a key name
    have hnk : starOf nev i.name = false := by
      cases hs : starOf nev i.name with
      | false => rfl
      | true =>
        obtain ⟨k, hk, hkn⟩ := List.mem_map.1 (sKeys_starOf nev i.name hs)
        exact absurd hkn.symm
          (h3.sepSubs k ((mem_nsiSubgraph_iff g k).2 ⟨facts.keysNodes k hk, hkeysnsi k hk⟩) x hx i hi)
    unfold sigma0
    rw [hnk]
    cases his : i.star with
    | true =>
      have : (cfInterventions g.nodes).any (fun j => j.name == i.name && j.star) = true := by
        rw [List.any_eq_true]
        exact ⟨i, hiW, by simp [his]⟩
      simp [this, ivValue, his]
    | false =>
      have : (cfInterventions g.nodes).any (fun j => j.name == i.name && j.star) = false := by
        cases hb : (cfInterventions g.nodes).any (fun j => j.name == i.name && j.star) with
        | false => rfl
        | true =>
          obtain ⟨j, hj, hjn, hjs⟩ := hany _ hb
          have := h3.cons j hj i hiW hjn
          rw [this, his] at hjs
          cases hjs
      simp [this, ivValue, his]

end

section
variable (M : Model) (ν : BaseValues) (dom : Name → Nat) {G : MG Name}

/-- **lines 4–9 of the top-level call on a multi-world event are sound under the conflating reading**, when the counterfactual
graph satisfies `Frag3At` -/
theorem lines4to9_sound_mw (hM : Compatible M G) (hn : ∀ pmf ∈ M.noise, pmf.sum = 1) (hν : ν.Distinct)
    (hdom : ∀ v ps us, M.f v ps us < dom v) (hG : G.WF) (hdl : ∀ e ∈ G.di, e.1 ≠ e.2) (hbl : ∀ e ∈ G.bi, e.1 ≠ e.2)
    {ordf : List World → List World} (hord : PermOrder ordf) {dordf : List Var → List Var} (hdo : PermDistrict dordf)
    (ev : Event) (hev : GoodEv G ev) (hk : KeysNSI ev) (f : Nat) (e : Expr)
    (h : idStarLines4to9 ordf dordf G (idStarFuel ordf dordf G f) ev = .ok e)
    (g : MG Var) (nev : Event) (hcg : makeCounterfactualGraph ordf G ev = .ok (g, some nev)) (h3 : Frag3At G g nev) :
    cden M ν dom e (sigma0 ν g nev) = probEvent M ν ev := by
  obtain ⟨topo, facts⟩ := mw_facts M ν hν hM hG hdl hbl hord hev hcg
  have hkeysnsi : ∀ k ∈ nev.keys, isNotSelfIntervened k = true := by
    obtain ⟨⟨_, hnsi⟩, _⟩ := cg_event_inv hord.good hcg hk hev.ok
    intro k hkk
    obtain ⟨v, hv⟩ := (mem_keys_iff nev k).1 hkk
    exact hnsi _ hv
  have hD := dfacts_of_mw facts h3 hkeysnsi
  obtain ⟨hσk, hσi⟩ := sigma0_facts facts h3 hkeysnsi
  set σ := sigma0 ν g nev with hσ
  set N := (nsiSubgraph g).nodes with hN
  have hNg : ∀ n ∈ N, n ∈ g.nodes ∧ isNotSelfIntervened n = true := fun n hn => (mem_nsiSubgraph_iff g n).1 hn
  have hT : ∀ V, V ∈ N.map (·.name) ↔ ∃ n ∈ (nsiSubgraph g).nodes, n.name = V := by
    intro V; simp only [List.mem_map, hN]
  have hwfn := wf_nsiSubgraph g
  have hsk : SKeys (starOf nev) nev := sKeys_starOf nev
  -- P(event) as the event of the key nodes
  have hPev : probEvent M ν ev = mass M.noise (fun u => nev.all fun q => valueOf M ν u q.1 == ivValue ν q.2) := by
    have h1 : probEvent M ν nev = probEvent M ν ev := by
      apply probEvent_congr
      intro u
      rw [← allHoldN_true, ← allHoldN_true]
      exact facts.sup (fun _ => True) (fun _ _ _ _ => trivial) u
    rw [← h1]
    unfold probEvent
    rw [prob_eq_mass]
    apply mass_congr
    intro u
    apply Bool.eq_iff_iff.2
    simp only [List.all_eq_true, List.mem_map, forall_exists_index, and_imp, forall_apply_eq_imp_iff₂, beq_iff_eq]
    constructor
    · intro h' q hq
      exact (holds_conjunctOf M ν u q.1 q.2).1 (h' q hq)
    · intro h' q hq
      exact (holds_conjunctOf M ν u q.1 q.2).2 (h' q hq)
  -- the generic step: a sum over the free variables of the joint local event is P(event)
  have hsum : ∀ (rs : List Name), rs.Nodup → (∀ V, V ∈ rs ↔ V ∈ N.map (·.name) ∧ V ∉ nev.keys.map (·.name)) →
      sumOver dom rs (fun τ => mass M.noise (fun u => (N.map (·.name)).all (localOK M τ u))) σ = probEvent M ν ev := by
    intro rs hrsnd hrsm
    -- valuations reached by re-binding the free variables read keys and subscripts as `σ` does
    have hagree : ∀ τ ∈ assignments dom rs σ, (∀ p ∈ nev, τ p.1.name = ivValue ν p.2) ∧
        (∀ x ∈ g.nodes, ∀ i ∈ x.ivs, τ i.name = ivValue ν i) := by
      intro τ hτm
      constructor
      · intro p hp
        rw [assignments_agree dom rs σ τ hτm p.1.name
          (fun h' => ((hrsm _).1 h').2 (List.mem_map.2 ⟨p.1, (mem_keys_iff nev p.1).2 ⟨p.2, hp⟩, rfl⟩))]
        exact hσk p hp
      · intro x hx i hi
        rw [assignments_agree dom rs σ τ hτm i.name (fun h' => by
          obtain ⟨n, hnN, hnn⟩ := List.mem_map.1 ((hrsm _).1 h').1
          exact h3.sepSubs n hnN x hx i hi hnn.symm)]
        exact hσi x hx i hi
    rw [sumOver_congr_mem dom rs _ (fun τ => mass M.noise (fun u => N.all fun n => valueOf M ν u n == τ n.name)) σ]
    · rw [mw_marginal M.noise N (fun n u => valueOf M ν u n) dom h3.inj rs hrsnd
        (fun V hV => by
          obtain ⟨n, hnN, hnn⟩ := List.mem_map.1 ((hrsm V).1 hV).1
          exact ⟨n, hnN, hnn⟩)
        (fun n hnN _ u => by
          obtain ⟨hng, hnsi⟩ := hNg n hnN
          rw [valueOf_nsi hM n (facts.nodeOK n hng) hnsi u]
          exact hdom _ _ _) σ, hPev]
      apply mass_congr
      intro u
      apply Bool.eq_iff_iff.2
      simp only [List.all_eq_true, List.mem_filter, decide_eq_true_eq, and_imp, beq_iff_eq]
      constructor
      · intro h' q hq
        have hkq : q.1 ∈ nev.keys := (mem_keys_iff nev q.1).2 ⟨q.2, hq⟩
        have hqN : q.1 ∈ N := (mem_nsiSubgraph_iff g q.1).2 ⟨facts.keysNodes q.1 hkq, hkeysnsi q.1 hkq⟩
        rw [h' q.1 hqN (fun hr => ((hrsm _).1 hr).2 (List.mem_map.2 ⟨q.1, hkq, rfl⟩)), hσk q hq]
      · intro h' n hnN hnr
        -- a non-free node is a key
        have hkn : n.name ∈ nev.keys.map (·.name) := by
          by_contra hno
          exact hnr ((hrsm _).2 ⟨List.mem_map.2 ⟨n, hnN, rfl⟩, hno⟩)
        obtain ⟨k, hkk, hkname⟩ := List.mem_map.1 hkn
        have hkN : k ∈ N := (mem_nsiSubgraph_iff g k).2 ⟨facts.keysNodes k hkk, hkeysnsi k hkk⟩
        have : k = n := h3.inj k hkN n hnN hkname
        subst this
        obtain ⟨v, hv⟩ := (mem_keys_iff nev k).1 hkk
        rw [h' (k, v) hv, ← hσk (k, v) hv]
    · intro τ hτm
      obtain ⟨hτk, hτi⟩ := hagree τ hτm
      apply mass_congr
      intro u
      apply Bool.eq_iff_iff.2
      simp only [List.all_eq_true, List.mem_map, forall_exists_index, and_imp, forall_apply_eq_imp_iff₂, beq_iff_eq]
      exact (mw_local facts hM τ hτk hkeysnsi (fun x hx _ i hi _ => by
        have := hτi x hx i hi
        rwa [show i.name = x.name from ‹i.name = x.name›] at this) u).symm
  unfold49 at h
  rw [hcg] at h
  simp only at h
  cases hc : isConnected (nsiSubgraph g) with
  | error err => rw [hc] at h; cases h
  | ok c =>
    rw [hc] at h
    simp only at h
    split at h
    · -- line 6
      rename_i hnc
      have hcfalse : c = false := by simpa using hnc
      subst hcfalse
      obtain ⟨hc1, hc2⟩ := h3.line6 hc
      cases hevs : eventsOfEachDistrict dordf g nev with
      | error err => rw [hevs] at h; cases h
      | ok evs =>
        rw [hevs] at h
        simp only at h
        split at h
        · cases h
        · cases hm : evs.mapM (idStarFuel ordf dordf G f) with
          | error err => rw [hm] at h; cases h
          | ok fs =>
            rw [hm] at h
            simp only [Except.ok.injEq] at h
            subst h
            obtain ⟨hrsnd, hrsm⟩ := free_spec_nev g g nev (fun n => ((mem_nsiSubgraph_iff g n)).symm)
            rw [cden_sumSafe, ← hsum _ hrsnd hrsm]
            apply sumOver_congr_mem
            intro τ hτm
            -- `τ` reads the keys as the event does
            have hτk : ∀ p ∈ nev, τ p.1.name = ivValue ν p.2 := by
              intro p hp
              rw [assignments_agree dom _ σ τ hτm p.1.name
                (fun h' => ((hrsm _).1 h').2 (List.mem_map.2 ⟨p.1, (mem_keys_iff nev p.1).2 ⟨p.2, hp⟩, rfl⟩))]
              exact hσk p hp
            have hτn : ∀ n ∈ N, starOf nev n.name = true → τ n.name = ν n.name true := by
              intro n hnN hs
              obtain ⟨k, hkk, hkn⟩ := List.mem_map.1 (hsk n.name hs)
              have hkN : k ∈ N := (mem_nsiSubgraph_iff g k).2 ⟨facts.keysNodes k hkk, hkeysnsi k hkk⟩
              have : k = n := h3.inj k hkN n hnN hkn
              subst this
              obtain ⟨v, hv⟩ := (mem_keys_iff nev k).1 hkk
              rw [hτk (k, v) hv, hD.nevVals (k, v) hv, hs]
              rfl
            rw [cden_productSafe]
            have hstep1 : fs.map (fun f' => cden M ν dom f' τ) = evs.map (fun x => probEvent M (nuOf ν τ) x) := by
              apply mapM_map_eq (idStarFuel ordf dordf G f) evs fs hm
              intro x hx f' hf'
              have hxD : ∃ D ∈ (nsiSubgraph g).districts, eventsOfDistrict g (dordf D) nev = .ok x := by
                unfold eventsOfEachDistrict at hevs
                exact mapM_ok_mem _ _ _ hevs x hx
              obtain ⟨D, hD', hDx⟩ := hxD
              obtain ⟨pillow, _, _, hfrx, hwU, hnoself, hkD⟩ :=
                frag_of_district hord hdo hG hdl hbl hev hcg hD hsk hkeysnsi hevs D hD' x hDx
              refine idStarFuel_sound_sw M ν dom hM hn hdom hG hdl hbl hord hdo f _ _ x f' (frag2_restrictS hfrx)
                (sKeys_restrictS _ x) (violates_false_of_noSelf hfrx.keysIn hfrx.good.ok.names hnoself) hf' τ ?_ ?_
              · intro k hkx hs
                obtain ⟨n, hnD, hnk⟩ := List.mem_map.1 (hkD k hkx)
                rw [← hnk]
                exact hτn n ((districts_cover _ hwfn n).2 ⟨D, hD', hnD⟩) (by rw [hnk]; exact restrictS_true hs)
              · intro i hi hs
                rw [hwU i hi] at hs
                cases hs
            have hstep2 : evs.map (fun x => probEvent M (nuOf ν τ) x) =
                (nsiSubgraph g).districts.map (fun D => mass M.noise (fun u => (D.map (·.name)).all (localOK M τ u))) := by
              unfold eventsOfEachDistrict at hevs
              apply mapM_map_eq _ _ _ hevs
              intro D hD' x hDx
              have hevs' : eventsOfEachDistrict dordf g nev = .ok evs := hevs
              obtain ⟨pillow, hp, hxeq, _⟩ :=
                frag_of_district hord hdo hG hdl hbl hev hcg hD hsk hkeysnsi hevs' D hD' x hDx
              exact probEvent_district M ν hM hD hdo D hD' pillow hp x hxeq
                (fun n hnD => nodeEvent_district hD hsk hkeysnsi n ((districts_cover _ hwfn n).2 ⟨D, hD', hnD⟩)) τ
                (fun n hnD => hτn n ((districts_cover _ hwfn n).2 ⟨D, hD', hnD⟩))
            rw [hstep1, hstep2, ← mass_districts M hM hn hD _ hT τ]
    · rename_i hcn
      have hct : c = true := by simpa using hcn
      subst hct
      split at h
      · cases h
      · -- line 9
        cases h9 : line9 (nsiSubgraph g) with
        | error err => rw [h9] at h; cases h
        | ok e9 =>
          rw [h9] at h
          simp only [Except.ok.injEq] at h
          subst h
          have hsubnodes : ∀ n, (n ∈ (nsiSubgraph g).nodes ∧ isNotSelfIntervened n = true) ↔ n ∈ (nsiSubgraph g).nodes :=
            fun n => ⟨fun h => h.1, fun h => ⟨h, ((mem_nsiSubgraph_iff g n).1 h).2⟩⟩
          obtain ⟨hrsnd, hrsm⟩ := free_spec_nev (nsiSubgraph g) g nev hsubnodes
          rw [cden_sumSafe, ← hsum _ hrsnd hrsm]
          apply sumOver_congr_mem
          intro τ hτm
          have hτi : ∀ x ∈ g.nodes, ∀ i ∈ x.ivs, τ i.name = ivValue ν i := by
            intro x hx i hi
            rw [assignments_agree dom _ σ τ hτm i.name (fun h' => by
              obtain ⟨n, hnN, hnn⟩ := List.mem_map.1 ((hrsm _).1 h').1
              exact h3.sepSubs n hnN x hx i hi hnn.symm)]
            exact hσi x hx i hi
          rw [line9_reading M ν dom (nsiSubgraph g) e9 h9 τ]
          set W := cfInterventions (nsiSubgraph g).nodes with hW
          have hWsub : ∀ i ∈ ivsCanon W, i ∈ cfInterventions g.nodes := by
            intro i hi
            rw [mem_ivsCanon, hW, mem_cfInterventions] at hi
            obtain ⟨n, hnN, hin⟩ := hi
            exact (mem_cfInterventions _ i).2 ⟨n, (hNg n hnN).1, hin⟩
          have hWc : ConsistentSubs (ivsCanon W) := consistentSubs_subset h3.cons hWsub
          have hT9 := ranges_spec ((nsiSubgraph g).nodes.map (·.name))
          have hLS : LocalSet M (worldOf (nuOf ν τ) (ivsCanon W)) τ
              ((upgradeOrdering (((nsiSubgraph g).nodes.map (·.name)).map Var.plain)).map (·.name)) := by
            intro V hV
            rw [hT9.2 V] at hV
            obtain ⟨n, hnN, rfl⟩ := List.mem_map.1 hV
            obtain ⟨hng, hnsi⟩ := hNg n hnN
            refine ⟨(hM.perm.mem_iff).2 (facts.nodeOK n hng).inG, ?_, ?_⟩
            · apply forced_worldOf_none'
              intro hmem
              obtain ⟨i, hi, hin⟩ := List.mem_map.1 hmem
              obtain ⟨x, hx, hix⟩ := (mem_cfInterventions _ i).1 (hWsub i hi)
              exact h3.sepSubs n hnN x hx i hix hin
            · intro p hp
              obtain ⟨x, hxn, hxname⟩ := facts.repG n hng hnsi p (hM.pa_sub n.name p hp)
              have hxg : x ∈ g.nodes := (facts.wf.di_mem _ hxn).1
              by_cases hxnsi : isNotSelfIntervened x = true
              · left
                rw [hT9.2 p]
                exact List.mem_map.2 ⟨x, (mem_nsiSubgraph_iff g x).2 ⟨hxg, hxnsi⟩, hxname⟩
              · right
                have hxf : isNotSelfIntervened x = false := by simpa using hxnsi
                obtain ⟨i, hi, hin⟩ := exists_self_iv x hxf
                have hiW : i ∈ ivsCanon W := by
                  rw [mem_ivsCanon]
                  exact h3.line9 hc x hxg hxf i hi hin
                apply forced_nuOf ν τ (ivsCanon W) hWc _ p (List.mem_map.2 ⟨i, hiW, by rw [hin, hxname]⟩)
                intro j hj hjs
                obtain ⟨y, hy, hjy⟩ := (mem_cfInterventions _ j).1 (hWsub j hj)
                rw [hτi y hy j hjy]
                simp [ivValue, hjs]
          rw [prob_eq_local M hM.topoOrder _ τ _ hLS]
          apply mass_congr
          intro u
          apply Bool.eq_iff_iff.2
          simp only [List.all_eq_true]
          constructor
          · intro h' V hV; exact h' V ((hT9.2 V).2 hV)
          · intro h' V hV; exact h' V ((hT9.2 V).1 hV)

end

end Y0.Cf
