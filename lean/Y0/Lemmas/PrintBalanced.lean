/-
  Y0.Lemmas.PrintBalanced — every printer emits a token list whose parentheses and square brackets are balanced
  and properly nested (for ALL expressions, well formed or not).
-/
import Y0.Lemmas.PrintAst

namespace Y0
namespace Print

/-- scan with a stack of currently open brackets -/
def balancedFrom : List Tok → List Tok → Bool
  | stack, [] => stack.isEmpty
  | stack, .lpar :: ts => balancedFrom (.lpar :: stack) ts
  | stack, .lbr :: ts => balancedFrom (.lbr :: stack) ts
  | .lpar :: stack, .rpar :: ts => balancedFrom stack ts
  | _, .rpar :: _ => false
  | .lbr :: stack, .rbr :: ts => balancedFrom stack ts
  | _, .rbr :: _ => false
  | stack, _ :: ts => balancedFrom stack ts

def balanced (ts : List Tok) : Bool := balancedFrom [] ts

/-- `ts` is a balanced segment: scanning it returns to the same stack -/
def Bal (ts : List Tok) : Prop := ∀ stack rest, balancedFrom stack (ts ++ rest) = balancedFrom stack rest

theorem Bal.nil : Bal [] := fun _ _ => rfl

theorem Bal.append {a b : List Tok} (ha : Bal a) (hb : Bal b) : Bal (a ++ b) := by
  intro s r
  rw [List.append_assoc, ha, hb]

theorem Bal.tok {t : Tok} (h1 : t ≠ .lpar) (h2 : t ≠ .rpar) (h3 : t ≠ .lbr) (h4 : t ≠ .rbr) : Bal [t] := by
  intro s r
  cases t <;> simp_all [balancedFrom]

theorem Bal.cons {t : Tok} {ts : List Tok} (h1 : t ≠ .lpar) (h2 : t ≠ .rpar) (h3 : t ≠ .lbr) (h4 : t ≠ .rbr)
    (h : Bal ts) : Bal (t :: ts) := (Bal.tok h1 h2 h3 h4).append h

theorem Bal.paren {ts : List Tok} (h : Bal ts) : Bal (.lpar :: ts ++ [.rpar]) := by
  intro s r
  simp only [List.cons_append, List.append_assoc, List.nil_append, balancedFrom]
  rw [h]
  simp [balancedFrom]

theorem Bal.bracket {ts : List Tok} (h : Bal ts) : Bal (.lbr :: ts ++ [.rbr]) := by
  intro s r
  simp only [List.cons_append, List.append_assoc, List.nil_append, balancedFrom]
  rw [h]
  simp [balancedFrom]

theorem Bal.balanced {ts : List Tok} (h : Bal ts) : balanced ts = true := by
  have := h [] []
  simpa [Print.balanced, balancedFrom] using this

theorem Bal.sepBy {parts : List (List Tok)} (h : ∀ p ∈ parts, Bal p) : Bal (sepBy .comma parts) := by
  induction parts with
  | nil => exact Bal.nil
  | cons p ps ih =>
    cases ps with
    | nil => simpa [Print.sepBy] using h p (by simp)
    | cons q qs =>
      simp only [Print.sepBy]
      exact (h p (by simp)).append (Bal.cons (by simp) (by simp) (by simp) (by simp) (ih (fun x hx => h x (by simp [hx]))))

theorem bal_sign (s : Option Bool) : Bal (sign s) := by
  cases s with
  | none => exact Bal.nil
  | some b => cases b <;> exact Bal.tok (by simp) (by simp) (by simp) (by simp)

theorem bal_iv (i : Iv) : Bal (iv i) := by
  unfold iv
  cases i.star <;> exact Bal.cons (by simp) (by simp) (by simp) (by simp) (Bal.tok (by simp) (by simp) (by simp) (by simp))

theorem bal_ivsToks : ∀ is : List Iv, Bal (ivsToks is)
  | [] => Bal.nil
  | [i] => Bal.cons (by simp) (by simp) (by simp) (by simp) (bal_iv i)
  | i :: j :: r => by
    have := Bal.paren (Bal.sepBy (parts := (i :: j :: r).map iv) (by
      intro p hp; simp only [List.mem_map] at hp; obtain ⟨x, _, rfl⟩ := hp; exact bal_iv x))
    exact Bal.cons (by simp) (by simp) (by simp) (by simp) (by simpa [ivsToks] using this)

theorem bal_var (v : Var) : Bal (var v) :=
  (bal_sign _).append (Bal.cons (by simp) (by simp) (by simp) (by simp) (bal_ivsToks _))

theorem bal_vars (vs : List Var) : Bal (vars vs) :=
  Bal.sepBy (by intro p hp; simp only [List.mem_map] at hp; obtain ⟨x, _, rfl⟩ := hp; exact bal_var x)

theorem bal_dist (c p : List Var) : Bal (dist c p) := by
  unfold dist
  split
  · exact bal_vars c
  · exact (bal_vars c).append (Bal.cons (by simp) (by simp) (by simp) (by simp) (bal_vars p))

theorem bal_l2ivs (is : List Iv) : Bal (l2ivs is) :=
  Bal.sepBy (by
    intro p hp
    simp only [List.mem_map] at hp
    obtain ⟨x, _, rfl⟩ := hp
    split
    · exact Bal.cons (by simp) (by simp) (by simp) (by simp) (Bal.tok (by simp) (by simp) (by simp) (by simp))
    · exact Bal.tok (by simp) (by simp) (by simp) (by simp))

theorem bal_probHead (pop : Option Var) : Bal (probHead pop) := by
  cases pop with
  | none => exact Bal.tok (by simp) (by simp) (by simp) (by simp)
  | some v =>
    have hp : Bal (Print.pop v) := by
      unfold Print.pop
      split
      · exact Bal.tok (by simp) (by simp) (by simp) (by simp)
      · exact bal_var v
    have := Bal.bracket hp
    exact Bal.cons (by simp) (by simp) (by simp) (by simp) (by simpa [probHead] using this)

theorem bal_prob (pop : Option Var) (c p : List Var) : Bal (prob pop c p) := by
  unfold prob
  split
  · have := (bal_probHead pop).append (Bal.paren (bal_dist c p))
    simpa using this
  · rename_i is _
    have := (bal_probHead pop).append ((Bal.bracket (bal_l2ivs is)).append (Bal.paren (bal_dist (c.map strip) (p.map strip))))
    simpa using this

theorem bal_exprs_of {fs : List Expr} (h : ∀ f ∈ fs, Bal (exprM .full f)) : Bal (exprs fs) := by
  induction fs with
  | nil => exact Bal.nil
  | cons f gs ih =>
    cases gs with
    | nil => simpa [exprs] using h f (by simp)
    | cons g gs' =>
      simp only [exprs]
      exact (h f (by simp)).append (Bal.cons (by simp) (by simp) (by simp) (by simp) (ih (fun x hx => h x (by simp [hx]))))

theorem bal_exprM : ∀ e m, Bal (exprM m e) := by
  apply Expr.ind
  · intro pop c p m; simpa [exprM] using bal_prob pop c p
  · intro fs ih m
    have := bal_exprs_of (fun f hf => ih f hf .full)
    simp only [exprM]
    split
    · simpa [paren] using Bal.paren this
    · exact this
  · intro e rs ih m
    simp only [exprM]
    have hb : Bal (paren (exprM .bare e)) := by simpa [paren] using Bal.paren (ih .bare)
    split
    · exact Bal.cons (by simp) (by simp) (by simp) (by simp) hb
    · have := (Bal.bracket (bal_vars (byName rs))).append hb
      exact Bal.cons (by simp) (by simp) (by simp) (by simp) (by simpa using this)
  · intro n d ihn ihd m
    have hin : Bal (paren (exprM .full n ++ .slash :: exprM .denom d)) := by
      have := Bal.paren ((ihn .full).append (Bal.cons (t := .slash) (by simp) (by simp) (by simp) (by simp) (ihd .denom)))
      simpa [paren] using this
    simp only [exprM]
    split
    · exact hin
    · simpa [paren] using Bal.paren hin
  · intro m
    have := Bal.cons (t := .kw .One) (by simp) (by simp) (by simp) (by simp) (Bal.paren Bal.nil)
    simpa [exprM] using this
  · intro m
    have := Bal.cons (t := .kw .Zero) (by simp) (by simp) (by simp) (by simp) (Bal.paren Bal.nil)
    simpa [exprM] using this
  · intro dom cod m
    have := (Bal.bracket (bal_vars (byName cod))).append (Bal.paren (bal_vars (byName dom)))
    simp only [exprM]
    exact Bal.cons (by simp) (by simp) (by simp) (by simp) (by simpa [paren] using this)

end Print
end Y0
