/-
  Y0.Lemmas.CtfTrCondSplit — the normalisation identities of Algorithm 3 (ctfTR), still free of any syntax:

  the vertices of the ancestral sets split into `ND` (the components that hold an outcome: `V(D_*)`) and `NR` (the
  others); no exogenous variable is shared across the two, and no mechanism of one side reads a summed vertex of the
  other.  With `Q_D τ = P(every mechanism of ND fed τ returns τ)` (`localProb`, the c-factor `Q[ND]`):

    `cond_parts`   `P(outcomes ∧ conditions) = (Σ_{rD} Q_D) · c`   and   `P(conditions) = (Σ_{O ++ rD} Q_D) · c`
                   for the same `c = Σ_{rR} Q_R`, `O` the outcome vertices — the two hypotheses of
                   `ctfTR_sound_of_parts`.
-/
import Y0.Lemmas.CtfTrCondSem

namespace Y0.CtfTr
open Fscm Ctf

/-- `P(every mechanism of N, fed τ, returns τ)`: the local form of the c-factor `Q[N](τ)` -/
def localProb (M : Model) (N : List Name) (τ : Y0.Val) : Rat :=
  wsum M.noise (fun u => ind (localAll M τ N u))

theorem localAll_congr_set (M : Model) (τ : Y0.Val) (A B : List Name) (h : ∀ n, n ∈ A ↔ n ∈ B) (u : NoisePoint) :
    localAll M τ A u = localAll M τ B u := by
  unfold localAll
  rw [Bool.eq_iff_iff, List.all_eq_true, List.all_eq_true]
  exact ⟨fun hA n hn => hA n ((h n).2 hn), fun hB n hn => hB n ((h n).1 hn)⟩

theorem localAll_append (M : Model) (τ : Y0.Val) (A B : List Name) (u : NoisePoint) :
    localAll M τ (A ++ B) u = (localAll M τ A u && localAll M τ B u) := by
  unfold localAll
  rw [List.all_append]

theorem mech_depOn (M : Model) (τ : Y0.Val) (v : Name) (u u' : NoisePoint)
    (h : ∀ j ∈ M.lat v, u.getD j 0 = u'.getD j 0) : M.mech u τ v = M.mech u' τ v := by
  unfold Model.mech
  congr 1
  exact List.map_congr_left h

theorem localAll_depOn (M : Model) (τ : Y0.Val) (A : List Name) :
    DepOn (fun u => ind (localAll M τ A u)) (fun j => ∃ v ∈ A, j ∈ M.lat v) := by
  intro u u' h
  show ind (localAll M τ A u) = ind (localAll M τ A u')
  congr 1
  unfold localAll
  rw [Bool.eq_iff_iff, List.all_eq_true, List.all_eq_true]
  constructor
  · intro hA v hv
    rw [← mech_depOn M τ v u u' (fun j hj => h j ⟨v, hv, hj⟩)]
    exact hA v hv
  · intro hA v hv
    rw [mech_depOn M τ v u u' (fun j hj => h j ⟨v, hv, hj⟩)]
    exact hA v hv

/-- **independence across the two sides**: no shared exogenous variable -/
theorem localProb_split (M : Model) (hnorm : ∀ pmf ∈ M.noise, pmf.sum = 1) (A B : List Name)
    (hlat : ∀ a ∈ A, ∀ b ∈ B, ∀ j ∈ M.lat a, j ∉ M.lat b) (τ : Y0.Val) :
    localProb M (A ++ B) τ = localProb M A τ * localProb M B τ := by
  unfold localProb
  rw [← wsum_split M.noise hnorm _ _ _ _ (localAll_depOn M τ A) (localAll_depOn M τ B)
    (by rintro j ⟨a, ha, hja⟩ ⟨b, hb, hjb⟩; exact hlat a ha b hb j hja hjb)]
  apply wsum_congr
  intro u
  rw [localAll_append, ind_and]

theorem mech_set_other (M : Model) (u : NoisePoint) (τ : Y0.Val) (v y : Name) (k : Nat) (hy : y ∉ M.pa v) :
    M.mech u (τ.set y k) v = M.mech u τ v := by
  unfold Model.mech
  congr 1
  apply List.map_congr_left
  intro p hp
  have : p ≠ y := fun e => hy (e ▸ hp)
  exact Val.set_other τ k this

/-- `Q[N]` ignores a vertex that is neither in `N` nor read by a mechanism of `N` -/
theorem localProb_indep (M : Model) (N : List Name) (y : Name) (hy : y ∉ N) (hpa : ∀ v ∈ N, y ∉ M.pa v) :
    IndepOf (localProb M N) y := by
  intro τ k
  unfold localProb
  apply wsum_congr
  intro u
  congr 1
  unfold localAll
  rw [Bool.eq_iff_iff, List.all_eq_true, List.all_eq_true]
  have hstep : ∀ v ∈ N, (M.mech u (τ.set y k) v == τ.set y k v) = (M.mech u τ v == τ v) := by
    intro v hv
    have hvy : v ≠ y := fun e => hy (e ▸ hv)
    rw [mech_set_other M u τ v y k (hpa v hv), Val.set_other τ k hvy]
  constructor
  · intro hA v hv
    rw [← hstep v hv]
    exact hA v hv
  · intro hA v hv
    rw [hstep v hv]
    exact hA v hv

theorem sumVars_split_prod (card : Name → Nat) (xs ys : List Name) (FA FB : Y0.Val → Rat)
    (hA : ∀ y ∈ ys, IndepOf FA y) (hB : ∀ x ∈ xs, IndepOf FB x) (σ : Y0.Val) :
    sumVars card (xs ++ ys) (fun τ => FA τ * FB τ) σ = sumVars card xs FA σ * sumVars card ys FB σ := by
  rw [sumVars_append]
  have h1 : sumVars card ys (fun τ => FA τ * FB τ) = fun τ => FA τ * sumVars card ys FB τ :=
    funext fun τ => sumVars_mul_left card ys FA FB τ hA
  rw [h1]
  have h2 : (fun τ => FA τ * sumVars card ys FB τ) = (fun τ => sumVars card ys FB τ * FA τ) :=
    funext fun τ => mul_comm _ _
  rw [h2, sumVars_mul_left card xs (sumVars card ys FB) FA σ (fun x hx => sumVars_indep card ys FB (hB x hx)), mul_comm]

/-- the hypotheses of `CondSem` only read `σ` at the forced mechanism arguments -/
theorem CondSem.of_agree {M : Model} {σ σ' : Y0.Val} {I R Rc : List Item} {range : List Name}
    (h : CondSem M σ I R Rc range)
    (hσ : ∀ i ∈ I, ∀ p ∈ M.pa i.1, ∀ x, forced i.2 p = some x → σ' p = σ p) : CondSem M σ' I R Rc range where
  nodup := h.nodup
  topo := h.topo
  mem := h.mem
  root := h.root
  cond := h.cond
  range_iff := h.range_iff
  lit := fun i hi p hp x hx => ⟨by rw [hσ i hi p hp x hx]; exact (h.lit i hi p hp x hx).1, (h.lit i hi p hp x hx).2⟩
  parents := h.parents
  oneWorld := h.oneWorld

theorem worldAt_of_nodup (Ro : List Item) (hnd : (Ro.map (·.1)).Nodup) (j : Item) (hj : j ∈ Ro) :
    worldAt Ro j.1 = j.2 := by
  have hm := worldAt_mem Ro j.1 ⟨j, hj, rfl⟩
  have := List.inj_on_of_nodup_map hnd hm hj rfl
  exact congrArg Prod.snd this

/-- **marginalising the outcomes**: `P(conditions) = Σ_{outcome vertices} P(outcomes ∧ conditions)` -/
theorem prob_cond_marginal (M : Model) (hnodup : M.order.Nodup)
    (htopo : ∀ l₁ v l₂, M.order = l₁ ++ v :: l₂ → ∀ p ∈ M.pa v, p ∈ l₁)
    (σ : Y0.Val) (R Ro Rc : List Item) (card : Name → Nat) (hcard : ∀ v pa lat, M.f v pa lat < card v)
    (hRo : ∀ j ∈ Ro, j.1 ∈ M.order ∧ forced j.2 j.1 = none)
    (hR : ∀ j, j ∈ R ↔ j ∈ Ro ∨ j ∈ Rc) (hOn : (Ro.map (·.1)).Nodup) (hOc : ∀ j ∈ Rc, j.1 ∉ Ro.map (·.1)) :
    wsum M.noise (fun u => ind (rootsHold M σ Rc u)) =
      sumVars card (Ro.map (·.1)) (fun σ' => wsum M.noise (fun u => ind (rootsHold M σ' R u))) σ := by
  let X : Name → NoisePoint → Nat := fun n u => solve M u (worldAt Ro n) n
  have hX : ∀ x ∈ Ro.map (·.1), ∀ u, X x u < card x := by
    intro x hx u
    obtain ⟨j, hj, rfl⟩ := List.mem_map.1 hx
    show solve M u (worldAt Ro j.1) j.1 < card j.1
    rw [worldAt_of_nodup Ro hOn j hj, solve_unforced M u _ j.1 hnodup htopo (hRo j hj).1 (hRo j hj).2]
    exact hcard _ _ _
  rw [wsum_marginals M.noise card X (Ro.map (·.1)) hX]
  apply sumAssign_eq_sumVars card _ hOn _ _ σ
  intro r hr
  apply wsum_congr
  intro u
  rw [← ind_and]
  apply ind_congr
  have hnd : (r.map (·.1)).Nodup := by rw [hr]; exact hOn
  rw [Bool.and_eq_true, assignHolds_iff X r hnd u]
  unfold rootsHold
  simp only [List.all_eq_true, beq_iff_eq]
  constructor
  · rintro ⟨hc, ha⟩ j hj
    rcases (hR j).1 hj with hjo | hjc
    · obtain ⟨k, hk⟩ := forced_of_mem_keys r j.1 (by rw [hr]; exact List.mem_map.2 ⟨j, hjo, rfl⟩)
      have := ha j.1 k hk
      change solve M u (worldAt Ro j.1) j.1 = k at this
      rw [worldAt_of_nodup Ro hOn j hjo] at this
      rw [this]
      unfold overrideVal
      rw [hk]
      rfl
    · rw [hc j hjc]
      unfold overrideVal
      rw [forced_none_of_not_mem r j.1 (by rw [hr]; exact hOc j hjc)]
      rfl
  · intro hall
    constructor
    · intro j hjc
      rw [hall j ((hR j).2 (Or.inr hjc))]
      unfold overrideVal
      rw [forced_none_of_not_mem r j.1 (by rw [hr]; exact hOc j hjc)]
      rfl
    · intro n k hk
      have hn : n ∈ Ro.map (·.1) := by
        rw [← hr]
        exact List.mem_map.2 ⟨(n, k), forced_some_mem r n k hk, rfl⟩
      obtain ⟨j, hj, rfl⟩ := List.mem_map.1 hn
      show solve M u (worldAt Ro j.1) j.1 = k
      rw [worldAt_of_nodup Ro hOn j hj, hall j ((hR j).2 (Or.inl hj))]
      unfold overrideVal
      rw [hk]
      rfl

/-- **the two identities of Algorithm 3, semantic form.**  `Ro` are the outcomes over vertices that no condition names,
`Rx` the other roots: the conditions, and the outcomes that share their vertex with a condition (redundant by
consistency). -/
theorem cond_parts {M : Model} {σ : Y0.Val} {I R Rc : List Item} {range : List Name}
    (h : CondSem M σ I R Rc range) (hnorm : ∀ pmf ∈ M.noise, pmf.sum = 1)
    (card : Name → Nat) (hcard : ∀ v pa lat, M.f v pa lat < card v)
    (Ro Rx : List Item) (hR : ∀ j, j ∈ R ↔ j ∈ Ro ∨ j ∈ Rx) (hRxc : ∀ j ∈ Rc, j ∈ Rx)
    (hRx : ∀ j ∈ Rx, ∃ k ∈ Rc, k.1 = j.1) (hOn : (Ro.map (·.1)).Nodup)
    (hOc : ∀ j ∈ Rx, j.1 ∉ Ro.map (·.1))
    (litO : ∀ i ∈ I, ∀ p ∈ M.pa i.1, ∀ x, forced i.2 p = some x → p ∉ Ro.map (·.1))
    (ND NR rD rR : List Name) (hN : ∀ n, (n ∈ ND ∨ n ∈ NR) ↔ ∃ i ∈ I, i.1 = n)
    (hrn : range.Nodup) (hperm : range.Perm (rD ++ rR))
    (hlat : ∀ a ∈ ND, ∀ b ∈ NR, ∀ j ∈ M.lat a, j ∉ M.lat b)
    (hDi : ∀ y ∈ rR, y ∉ ND ∧ ∀ v ∈ ND, y ∉ M.pa v)
    (hRi : ∀ x, (x ∈ rD ∨ x ∈ Ro.map (·.1)) → x ∉ NR ∧ ∀ v ∈ NR, x ∉ M.pa v) :
    wsum M.noise (fun u => ind (rootsHold M σ R u)) =
        sumVars card rD (localProb M ND) σ * sumVars card rR (localProb M NR) σ ∧
    wsum M.noise (fun u => ind (rootsHold M σ Rc u)) =
        sumVars card (Ro.map (·.1) ++ rD) (localProb M ND) σ * sumVars card rR (localProb M NR) σ := by
  -- the numerator identity, at every valuation that agrees with `σ` off the outcome vertices
  have hnum : ∀ σ' : Y0.Val, (∀ n, n ∉ Ro.map (·.1) → σ' n = σ n) →
      wsum M.noise (fun u => ind (rootsHold M σ' R u)) =
        sumVars card rD (localProb M ND) σ' * sumVars card rR (localProb M NR) σ' := by
    intro σ' hσ'
    have h' : CondSem M σ' I R Rc range :=
      h.of_agree (fun i hi p hp x hx => hσ' p (litO i hi p hp x hx))
    have hNmem : ∀ n, n ∈ ND ++ NR ↔ ∃ i ∈ I, i.1 = n := by
      intro n; rw [List.mem_append]; exact hN n
    rw [h'.prob_roots card hcard hrn (ND ++ NR) hNmem, sumVars_perm card hperm]
    have hfun : (fun τ => wsum M.noise (fun u => ind (localAll M τ (ND ++ NR) u))) =
        fun τ => localProb M ND τ * localProb M NR τ := by
      funext τ
      exact localProb_split M hnorm ND NR hlat τ
    rw [hfun]
    exact sumVars_split_prod card rD rR _ _
      (fun y hy => localProb_indep M ND y (hDi y hy).1 (hDi y hy).2)
      (fun x hx => localProb_indep M NR x (hRi x (Or.inl hx)).1 (hRi x (Or.inl hx)).2) σ'
  refine ⟨hnum σ (fun _ _ => rfl), ?_⟩
  have hRo : ∀ j ∈ Ro, j.1 ∈ M.order ∧ forced j.2 j.1 = none :=
    fun j hj => h.mem j (h.root j ((hR j).2 (Or.inl hj)))
  -- an outcome that shares its vertex with a condition holds whenever the conditions hold (consistency)
  have hcx : wsum M.noise (fun u => ind (rootsHold M σ Rc u)) = wsum M.noise (fun u => ind (rootsHold M σ Rx u)) := by
    apply wsum_congr
    intro u
    apply ind_congr
    constructor
    · intro hEc
      unfold rootsHold
      rw [List.all_eq_true]
      intro j hj
      obtain ⟨k, hk, hkj⟩ := hRx j hj
      have hc := h.consistent u hEc j (h.root j ((hR j).2 (Or.inr hj))) k (h.root k (h.cond k hk)) hkj.symm
      rw [hc, CondSem.root_holds u hEc k hk, hkj]
      simp
    · exact CondSem.rootsHold_sub u Rx Rc hRxc
  rw [hcx, prob_cond_marginal M h.nodup h.topo σ R Ro Rx card hcard hRo hR hOn hOc]
  have hstep : sumVars card (Ro.map (·.1)) (fun σ' => wsum M.noise (fun u => ind (rootsHold M σ' R u))) σ =
      sumVars card (Ro.map (·.1))
        (fun σ' => sumVars card rD (localProb M ND) σ' * sumVars card rR (localProb M NR) σ') σ := by
    apply sumVars_congr_outside
    intro τ hτ
    exact hnum τ hτ
  rw [hstep, sumVars_append]
  have hind : ∀ x ∈ Ro.map (·.1), IndepOf (sumVars card rR (localProb M NR)) x := fun x hx =>
    sumVars_indep card rR _ (localProb_indep M NR x (hRi x (Or.inr hx)).1 (hRi x (Or.inr hx)).2)
  have hcomm : (fun σ' => sumVars card rD (localProb M ND) σ' * sumVars card rR (localProb M NR) σ') =
      (fun σ' => sumVars card rR (localProb M NR) σ' * sumVars card rD (localProb M ND) σ') :=
    funext fun _ => mul_comm _ _
  rw [hcomm, sumVars_mul_left card _ _ _ σ hind, mul_comm]

end Y0.CtfTr
