/-
  Y0.Lemmas.CtfAncSpec — the characterisations of `get_ancestors_of_counterfactual` (Def. 2.1), of one step of
  `convert_to_counterfactual_factor_form` and of the accumulated ancestral set, in the form used both by the property
  theorems (Y0/Props/C19.lean restates them under their public names) and by the value theorem of the factorisation
  (Y0/Lemmas/CtfDen.lean).
-/
import Y0.Lemmas.Ctf
import Y0.Lemmas.CtfScm
import Y0.Lemmas.CtfComponents
import Y0.Lemmas.CtfFactor

namespace Y0.Ctf
open Relation Y0.MG

/-- the element of `An(Y_x)` built for the graph ancestor `a` -/
theorem ancestorVar_eq' (gin : MG Name) (v : Var) (a : Name) (w : Var) (h : ancestorVar gin v a = .ok w) :
    ∃ Aa, gin.ancestorsInclusive [a] = .ok Aa ∧
      w = { name := a, ivs := v.ivs.filter (fun i => decide (i.name ∈ Aa)) } := by
  unfold ancestorVar at h
  simp only [bind, Except.bind] at h
  cases hA : gin.ancestorsInclusive [a] with
  | error e => rw [hA] at h; cases h
  | ok Aa =>
    rw [hA] at h
    refine ⟨Aa, rfl, ?_⟩
    simp only [pure, Except.pure, Except.ok.injEq] at h
    rw [← h]
    split
    · rename_i hemp
      simp only [List.isEmpty_iff] at hemp
      rw [hemp]; rfl
    · rfl

/-- **Def. 2.1, soundness and completeness.**  For a counterfactual variable `Y_x` the model returns exactly the
variables `W_z` with `W ∈ An(Y)_{G_{\underline X}}` and `z = x ∩ An(W)_{G_{\overline X}}` (completeness up to `==` of
the Python objects, i.e. up to the order in which a frozenset of interventions is listed). -/
theorem ctf_ancestors_spec' (g : MG Name) (hg : g.WF) (v : Var) (hcf : v.isCf = true) (A : List Var)
    (h : ctfAncestors g v = .ok A) :
    (∀ w ∈ A, IsCtfAncestor g v w) ∧ (∀ w, IsCtfAncestor g v w → ∃ w' ∈ A, SameVar w' w) := by
  unfold ctfAncestors at h
  simp only [hcf, Bool.not_true, Bool.false_eq_true, ↓reduceIte, bind, Except.bind] at h
  cases hU : (g.removeOutEdges (ivNames v)).ancestorsInclusive [v.name] with
  | error e => rw [hU] at h; cases h
  | ok U =>
    rw [hU] at h
    have hmem := mapM_ok_mem _ _ _ h
    have hchar : ∀ w, w ∈ A → IsCtfAncestor g v w := by
      intro w hw
      obtain ⟨a, haU, haw⟩ := (hmem w).1 hw
      obtain ⟨Aa, hAa, rfl⟩ := ancestorVar_eq' _ _ _ _ haw
      refine ⟨?_, rfl, rfl, fun i => ?_⟩
      · exact (ancUnder_congr g _ _ (mem_ivNames v) _ _).1 ((mem_anc_removeOut g _ _ _ hU a).1 haU)
      · simp only [List.mem_filter, decide_eq_true_eq]
        rw [mem_anc_removeIn g _ _ _ hAa, ancBar_congr g (ivNames v) (subNames v) (mem_ivNames v)]
    refine ⟨hchar, fun w hw => ?_⟩
    have haU : w.name ∈ U :=
      (mem_anc_removeOut g _ _ _ hU w.name).2 ((ancUnder_congr g _ _ (mem_ivNames v) _ _).2 hw.1)
    -- the model's element for the ancestor `w.name`
    have hnode : w.name ∈ (g.removeInEdges (ivNames v)).nodes := by
      have hyn : v.name ∈ (g.removeOutEdges (ivNames v)).nodes := by
        by_contra hn
        have := ancestorsInclusive_error (g.removeOutEdges (ivNames v)) [v.name]
          (by intro hall; exact hn (hall _ (by simp)))
        rw [this] at hU; cases hU
      have hy : v.name ∈ g.nodes := (mem_nodes_removeOutEdges g hg _ _).1 hyn
      exact (mem_nodes_removeInEdges g hg _ _).2
        (ancUnder_mem_nodes g hg _ _ _ hy hw.1)
    obtain ⟨Aa, hAa⟩ := ancestorsInclusive_total (g.removeInEdges (ivNames v)) [w.name]
      (by intro s hs; simp only [List.mem_singleton] at hs; subst hs; exact hnode)
    have hok : ancestorVar (g.removeInEdges (ivNames v)) v w.name =
        .ok { name := w.name, ivs := v.ivs.filter (fun i => decide (i.name ∈ Aa)) } := by
      unfold ancestorVar
      simp only [bind, Except.bind, hAa, pure, Except.pure]
      split
      · rename_i hemp
        simp only [List.isEmpty_iff] at hemp
        rw [hemp]; rfl
      · rfl
    refine ⟨_, (hmem _).2 ⟨w.name, haU, hok⟩, rfl, hw.2.1.symm, hw.2.2.1.symm, fun i => ?_⟩
    rw [hw.2.2.2 i]
    simp only [List.mem_filter, decide_eq_true_eq]
    rw [mem_anc_removeIn g _ _ _ hAa, ancBar_congr g (ivNames v) (subNames v) (mem_ivNames v)]

/-- a variable without subscripts: its counterfactual ancestors are its graph ancestors, as plain variables -/
theorem ctf_ancestors_plain' (g : MG Name) (hg : g.WF) (y : Name) (A : List Var)
    (h : ctfAncestors g (Var.plain y) = .ok A) (w : Var) :
    w ∈ A ↔ ∃ a, g.Anc [y] a ∧ w = Var.plain a := by
  unfold ctfAncestors at h
  simp only [Var.plain, Var.isCf, List.isEmpty_nil, Bool.not_true, Bool.not_false, ↓reduceIte,
    Bool.false_eq_true, Option.isSome_none, bind, Except.bind] at h
  cases hU : g.ancestorsInclusive [y] with
  | error e => rw [hU] at h; cases h
  | ok U =>
    rw [hU] at h
    simp only [pure, Except.pure, Except.ok.injEq] at h
    subst h
    simp only [List.mem_map, ancestorsInclusive_spec g hg _ _ hU, Var.plain]
    constructor
    · rintro ⟨a, ha, rfl⟩; exact ⟨a, ha, rfl⟩
    · rintro ⟨a, ha, rfl⟩; exact ⟨a, ha, rfl⟩

/-- **conversion to ctf-factor form.**  `convert_to_counterfactual_factor_form` turns `W_s` into `W_{pa_W}`: the subscript
names are exactly the parents of `W` (Def. 3.4), no value mark; the interventions of the input on parents are kept
with their values, a parent that was not intervened on enters as `-P`. -/
theorem convertOne_spec' (g : MG Name) (v w : Var) (h : convertOne g v = .ok w) :
    w.name = v.name ∧ w.star = none ∧ w.isIv = false ∧ ExactFactorForm g w ∧
    (∀ i, i ∈ w.ivs ↔ g.DiEdge i.name v.name ∧
      (i ∈ v.ivs ∨ (i.star = false ∧ ∀ j ∈ v.ivs, j.name ≠ i.name))) := by
  unfold convertOne at h
  by_cases hv : v.name ∈ g.nodes
  swap
  · simp only [predecessors, hv, ↓reduceIte, bind, Except.bind] at h; cases h
  simp only [predecessors, hv, ↓reduceIte, bind, Except.bind, pure, Except.pure, Except.ok.injEq] at h
  have hw : w = { name := v.name, ivs := convertIvs (g.parents v.name) v } := by
    rw [← h]
    split
    · rename_i hemp
      simp only [List.isEmpty_iff] at hemp
      rw [hemp]; rfl
    · rfl
  subst hw
  have hmem := mem_convertIvs g v
  refine ⟨rfl, rfl, rfl, fun p => ?_, hmem⟩
  simp only [subNames, List.mem_map]
  constructor
  · rintro ⟨i, hi, rfl⟩; exact ((hmem i).1 hi).1
  · intro hp
    by_cases hex : ∃ j ∈ v.ivs, j.name = p
    · obtain ⟨j, hj, rfl⟩ := hex
      exact ⟨j, (hmem j).2 ⟨hp, Or.inl hj⟩, rfl⟩
    · exact ⟨⟨p, false⟩, (hmem _).2 ⟨hp, Or.inr ⟨rfl, fun j hj hjp => hex ⟨j, hj, hjp⟩⟩⟩, rfl⟩

/-- the accumulated ancestral set `D_* = An(Y_*)` -/
theorem ancFold_mem' (g : MG Name) (q : Event) (acc anc : List Var) (h : q.foldlM (ancStep g) acc = .ok anc)
    (w : Var) : w ∈ anc ↔ w ∈ acc ∨ ∃ p ∈ q, ∃ A, ctfAncestors g p.1 = .ok A ∧ w ∈ A := by
  induction q generalizing acc with
  | nil =>
    simp only [List.foldlM_nil, pure, Except.pure, Except.ok.injEq] at h
    subst h; simp
  | cons p q ih =>
    simp only [List.foldlM_cons, bind, Except.bind] at h
    cases hA : ctfAncestors g p.1 with
    | error e => simp only [ancStep, bind, Except.bind, hA] at h; cases h
    | ok A =>
      simp only [ancStep, bind, Except.bind, hA, pure, Except.pure] at h
      rw [ih _ h]
      simp only [unionVars, List.mem_append, List.mem_filter, Bool.not_eq_eq_eq_not, Bool.not_true, List.mem_cons,
        exists_eq_or_imp]
      constructor
      · rintro ((hw | ⟨hw, _⟩) | ⟨p', hp', A', hA', hw⟩)
        · exact Or.inl hw
        · exact Or.inr (Or.inl ⟨A, hA, hw⟩)
        · exact Or.inr (Or.inr ⟨p', hp', A', hA', hw⟩)
      · rintro (hw | ⟨A', hA', hw⟩ | ⟨p', hp', A', hA', hw⟩)
        · exact Or.inl (Or.inl hw)
        · rw [hA] at hA'
          simp only [Except.ok.injEq] at hA'
          subst hA'
          by_cases hacc : w ∈ acc
          · exact Or.inl (Or.inl hacc)
          · exact Or.inl (Or.inr ⟨hw, by simpa [mem'] using hacc⟩)
        · exact Or.inr ⟨p', hp', A', hA', hw⟩

end Y0.Ctf
