/-
  Y0.Lemmas.TrsoSemL6 — line 6 of TRSO (using a source experiment) is sound.

    srcCtx_initial   the sub-query of line 6 for a usable domain `d` satisfies the semantic invariant in the SOURCE
                     context of every family (model of `d`, leaves read as activation will turn them): the carried joint
                     `P(V_cur)` read under `do(Z ∩ X)` in `d` is the c-factor `Q^d[V_cur ∖ (Z ∩ X)]`;
    spec_transport   if the separation test of line 6 succeeds, the distribution asked from the sub-query in domain `d`
                     is the distribution asked from the query in the target domain: no variable of `V_cur ∖ X` carries a
                     selection node (it would be d-connected to an outcome by a directed path, all of `V_cur ∖ X` being
                     ancestors of `Y` when line 3 does not fire), so the c-factors `Q[V_cur ∖ X]` of the two models are
                     made of the same mechanisms;
    h67_target       hence whatever lines 6/7 return is sound in the target context (the hook of the soundness engine).
-/
import Y0.Lemmas.TrsoSrcCtx

namespace Y0
namespace Trso
open TrDsl MG IdAux TianProb Relation

/-- the same exogenous part: cardinalities, latent variables and their priors -/
structure SameExo (T S : Scm) : Prop where
  card : S.card = T.card
  lat : S.lat = T.lat
  prior : S.prior = T.prior

/-- c-factors over variables with the same mechanisms coincide -/
theorem Q_agree {T S : Scm} (h : SameExo T S) (D : List Name) (hk : ∀ v ∈ D, S.kern v = T.kern v) :
    S.Q D = T.Q D := by
  unfold Scm.Q
  rw [h.card, h.lat]
  congr 1
  funext σ
  unfold Scm.weight
  rw [h.lat, h.prior]
  congr 1
  congr 1
  apply List.map_congr_left
  intro v hv
  rw [hk v hv]

section
variable {Fam : Family} {G : MG Name} {pops : List Name} {σ' : Val} {h : FamOK Fam G pops}
  {Mb : Nat} {q : Query} {Gc : MG Name}

/-- facts about the sub-query of line 6 and its graph -/
theorem l6_facts (hq : QInv Mb q Gc) (_hT : SemInv (famCtx Fam G pops σ' h) q Gc) (hact : q.active = [])
    (hsurr : q.surr ≠ []) {d : Pop} {g : MG Name} (hp : (d, g) ∈ q.graphs) (Z : List Name) :
    (∀ v, v ∈ regularNodes (g.removeNodes (inter' Z q.X)) ↔ v ∈ regularNodes Gc ∧ v ∉ inter' Z q.X) ∧
    (∀ z ∈ inter' Z q.X, z ∈ regularNodes Gc) ∧ RegEq g Gc ∧ (∀ v ∈ Gc.nodes, isTnode v = false) := by
  obtain ⟨_, hnoT, _, hreg⟩ := hq.phaseT0 hact hsurr
  have hgG : RegEq g Gc := hreg _ hp
  refine ⟨?_, ?_, hgG, hnoT⟩
  · intro v
    rw [mem_regularNodes, mem_nodes_removeNodes g (hq.wf _ hp), mem_regularNodes]
    constructor
    · rintro ⟨⟨h1, h2⟩, h3⟩; exact ⟨⟨(hgG.1 v h3).1 h1, h3⟩, h2⟩
    · rintro ⟨⟨h1, h3⟩, h2⟩; exact ⟨⟨(hgG.1 v h3).2 h1, h2⟩, h3⟩
  · intro z hz
    have hzX : z ∈ q.X := (mem_inter'.1 hz).2
    exact mem_regularNodes.2 ⟨hq.Xin z hzX, hnoT z (hq.Xin z hzX)⟩

/-- **the sub-query of line 6 satisfies the semantic invariant in the source context** -/
theorem srcCtx_initial (hq : QInv Mb q Gc) (hT : SemInv (famCtx Fam G pops σ' h) q Gc) (hact : q.active = [])
    (hsurr : q.surr ≠ []) {d : Pop} {g : MG Name} {Z : List Name} (hp : (d, g) ∈ q.graphs) (hd : d ∈ pops)
    (hne : inter' Z q.X ≠ []) :
    SemInv (srcCtx Fam G pops σ' h d hd (nsort (inter' Z q.X)) (nsort_nonempty hne)) (line6Query q d g Z)
      (g.removeNodes (inter' Z q.X)) := by
  obtain ⟨hVs, hZc, hgG, hnoT⟩ := l6_facts hq hT hact hsurr hp Z
  have t0 := hT.t0 hact hsurr
  have hgsub : RSub G g := t0.allsub _ hp
  have hgwf : g.WF := hq.wf _ hp
  set Z' := inter' Z q.X with hZ'
  set zs := nsort Z' with hzs
  have hzsZ : ∀ v, v ∈ zs ↔ v ∈ Z' := fun v => mem_nsort v Z'
  have hVc := regularNodes_nodup hq.wfG
  have hVsnd : (regularNodes (g.removeNodes Z')).Nodup := regularNodes_nodup (MG.wf_removeNodes g Z')
  have hVcG : ∀ v ∈ regularNodes Gc, v ∈ G.nodes := hT.rsub.nodes
  -- the carried expression is the joint
  obtain ⟨pop, c, hexpr, jcT⟩ : ∃ pop c, q.expr = .prob (some pop) c [] ∧ JC (famCtx Fam G pops σ' h) q Gc c := by
    rcases hT.shape with hl | ⟨hnj, _⟩
    · exact hl
    · obtain ⟨pop, c, hj⟩ := t0.joint
      exact absurd hj (hnj pop c)
  have hcV : ∀ n ∈ vnames c, n ∈ regularNodes Gc := fun n hn => (jcT.within n hn).elim id (fun a => by cases a)
  -- the joint clause in the source context
  have jc : JC (srcCtx Fam G pops σ' h d hd zs (nsort_nonempty hne)) (line6Query q d g Z) (g.removeNodes Z') c := by
    refine ⟨rfl, ?_, ?_, ?_, ?_, jcT.plain, ?_, jcT.nodup⟩
    pick_goal 4
    · intro z hz
      exact jcT.cover z (hZc z ((hzsZ z).1 hz))
    · intro v hv
      rcases hv with hv | hv
      · exact hVcG v ((hVs v).1 hv).1
      · exact hVcG v (hZc v ((hzsZ v).1 hv))
    · intro v hv
      exact jcT.cover v ((hVs v).1 hv).1
    · intro n hn
      by_cases hz : n ∈ Z'
      · exact Or.inr ((hzsZ n).2 hz)
      · exact Or.inl ((hVs n).2 ⟨hcV n hn, hz⟩)
    · intro S hS σ
      show F (Fam.dom (some d)) G ((actWorld zs).map (·.name)) (S.filter (· ∉ zs)) σ = _
      unfold F
      set M := Fam.dom (some d) with hM
      set W := (actWorld zs).map (·.name) with hW
      have hWZ : ∀ v, v ∈ W ↔ v ∈ Z' := fun v => by rw [hW, mem_actWorld_names, hzsZ]
      set T := G.nodes.filter (· ∉ W) with hTdef
      have hTnd : T.Nodup := h.wf.nodup.filter _
      have hTG : ∀ v ∈ T, v ∈ G.nodes := fun v hv => (List.mem_filter.1 hv).1
      let p : Name → Bool := fun v => decide (v ∈ regularNodes (g.removeNodes Z'))
      have hsctx : SCtx M G := ⟨h.compat d hd, h.wf, h.rank⟩
      have hQT : sumVars M.card (T.filter (fun v => !p v)) (M.Q T) = M.Q (T.filter p) := by
        apply Q_sum_closed hsctx T hTnd hTG p
        intro a _ hpa r hr hpr hra
        have haVs : a ∈ regularNodes (g.removeNodes Z') := by simpa [p] using hpa
        have hrVc : r ∈ regularNodes Gc := t0.closed a ((hVs a).1 haVs).1 r hra
        have hrW : r ∉ W := by simpa [hTdef] using (List.mem_filter.1 hr).2
        have : r ∈ regularNodes (g.removeNodes Z') := (hVs r).2 ⟨hrVc, fun hz => hrW ((hWZ r).2 hz)⟩
        simp [p, this] at hpr
      have hQ2 : M.Q (T.filter p) = M.Q (regularNodes (g.removeNodes Z')) := by
        apply M.Q_congr_set (hTnd.filter _) hVsnd
        intro v
        simp only [hTdef, List.mem_filter, p, decide_eq_true_eq]
        constructor
        · exact fun a => a.2
        · intro a
          obtain ⟨a1, a2⟩ := (hVs v).1 a
          exact ⟨⟨hVcG v a1, fun hw => a2 ((hWZ v).1 hw)⟩, a⟩
      -- names of `S` outside `zs` are current nodes
      have hS' : ∀ n ∈ S.filter (· ∉ zs), n ∈ regularNodes (g.removeNodes Z') := by
        intro n hn
        obtain ⟨hn1, hn2⟩ := List.mem_filter.1 hn
        rcases hS n hn1 with a | a
        · exact a
        · exact absurd (show n ∈ zs from a) (by simpa using hn2)
      rw [sumVars_filter_split M.card (G.nodes.filter (fun v => v ∉ W ∧ v ∉ S.filter (· ∉ zs))) p]
      have e1 : sumVars M.card ((G.nodes.filter (fun v => v ∉ W ∧ v ∉ S.filter (· ∉ zs))).filter (fun v => !p v))
          (M.Q T) = sumVars M.card (T.filter (fun v => !p v)) (M.Q T) := by
        apply sumVars_congr_set M.card ((h.wf.nodup.filter _).filter _) (hTnd.filter _)
        intro v
        simp only [hTdef, List.mem_filter, decide_eq_true_eq, Bool.not_eq_true', Bool.and_eq_true, Bool.decide_and, p,
          decide_eq_false_iff_not]
        constructor
        · rintro ⟨⟨a, b, _⟩, c'⟩; exact ⟨⟨a, b⟩, c'⟩
        · rintro ⟨⟨a, b⟩, c'⟩
          exact ⟨⟨a, b, fun hs => c' (hS' v (List.mem_filter.2 (by simpa using hs)))⟩, c'⟩
      show sumVars M.card _ (sumVars M.card _ (M.Q T)) σ = _
      rw [e1, hQT, hQ2]
      refine congrFun (sumVars_congr_set M.card ((h.wf.nodup.filter _).filter _) (hVsnd.filter _) (fun v => ?_) _) σ
      simp only [List.mem_filter, decide_eq_true_eq, Bool.and_eq_true, Bool.decide_and, p]
      constructor
      · rintro ⟨⟨_, _, b⟩, a⟩
        refine ⟨a, fun hs => b ⟨hs, ?_⟩⟩
        have := ((hVs v).1 a).2
        simpa [hzsZ] using this
      · rintro ⟨a, b⟩
        obtain ⟨a1, a2⟩ := (hVs v).1 a
        exact ⟨⟨hVcG v a1, fun hw => a2 ((hWZ v).1 hw), fun hs => b hs.1⟩, a⟩
  have hin : ∀ n ∈ vnames c, n ∈ regularNodes (g.removeNodes Z') ∨
      n ∈ (srcCtx Fam G pops σ' h d hd zs (nsort_nonempty hne)).ign := jc.within
  refine ⟨?_, ⟨?_, ?_⟩, ?_, ?_, ?_, ?_, Or.inl ⟨pop, c, hexpr, jc⟩, ?_⟩
  · -- the regular part of the new graph is an induced sub-graph of the user's graph
    refine ⟨fun v hv => hVcG v ((hVs v).1 hv).1, ?_, ?_⟩
    · intro u v hu hv huv
      obtain ⟨hu1, hu2⟩ := (hVs u).1 hu
      obtain ⟨hv1, hv2⟩ := (hVs v).1 hv
      have hug : u ∈ regularNodes g := mem_regularNodes.2
        ⟨(hgG.1 u (regular_notT hu1)).2 (mem_regularNodes.1 hu1).1, regular_notT hu1⟩
      have hvg : v ∈ regularNodes g := mem_regularNodes.2
        ⟨(hgG.1 v (regular_notT hv1)).2 (mem_regularNodes.1 hv1).1, regular_notT hv1⟩
      exact (mem_di_removeNodes g Z' (u, v)).2 ⟨hgsub.di u v hug hvg huv, hu2, hv2⟩
    · intro u v hu hv huv
      obtain ⟨hu1, hu2⟩ := (hVs u).1 hu
      obtain ⟨hv1, hv2⟩ := (hVs v).1 hv
      have hug : u ∈ regularNodes g := mem_regularNodes.2
        ⟨(hgG.1 u (regular_notT hu1)).2 (mem_regularNodes.1 hu1).1, regular_notT hu1⟩
      have hvg : v ∈ regularNodes g := mem_regularNodes.2
        ⟨(hgG.1 v (regular_notT hv1)).2 (mem_regularNodes.1 hv1).1, regular_notT hv1⟩
      exact (biEdge_removeNodes g Z' u v).2 ⟨hgsub.bi u v hug hvg huv, hu2, hv2⟩
  · show Clean q.expr
    rw [hexpr]; trivial
  · show Wf _ _ q.expr
    rw [hexpr]
    exact jc.adm (c' := c) (p' := []) (by simpa using jcT.plain)
      (by intro v hv; rw [List.append_nil] at hv; exact hin v.name (List.mem_map_of_mem hv))
  · show SumND q.expr
    rw [hexpr]; trivial
  · intro σ
    show denL _ _ q.expr σ = _
    rw [hexpr]
    show (srcCtx Fam G pops σ' h d hd zs (nsort_nonempty hne)).leaf (some (popVar (line6Query q d g Z).domain)) c [] σ = _
    rw [jc.leaf_val jcT.plain hin σ]
    have hnil : (regularNodes (g.removeNodes Z')).filter (· ∉ vnames c) = [] := by
      apply List.filter_eq_nil_iff.mpr
      intro v hv
      simpa using jc.cover v hv
    rw [hnil]
    rfl
  · intro v hv
    show v ∉ zs
    rw [hzsZ]
    exact ((hVs v).1 hv).2
  · intro z hz hz'
    exact ((hVs z).1 hz').2 ((hzsZ z).1 hz)
  · intro ha
    exact absurd ha (nsort_nonempty hne)

/-- **transport**: when the separation test of line 6 succeeds (and line 3 does not fire), the distribution asked
from the sub-query in the source domain is the one asked from the query in the target domain -/
theorem spec_transport (hsmall : ∀ v ∈ G.nodes, v < 100) (hq : QInv Mb q Gc)
    (hT : SemInv (famCtx Fam G pops σ' h) q Gc) (hact : q.active = []) (hsurr : q.surr ≠ [])
    {extra : List Name} (hex : noEffectOnOutcomes Gc q.X q.Y = .ok extra) (hemp : extra.isEmpty = true)
    {d : Pop} {g : MG Name} {Z : List Name} (hp : (d, g) ∈ q.graphs)
    (htrue : allTransportsDSeparated dSeparated g q.X q.Y = .ok true)
    (hexo : SameExo (Fam.dom none) (Fam.dom (some d))) (σ : Val) :
    Spec (Fam.dom (some d)) (regularNodes (g.removeNodes (inter' Z q.X))) (diff' q.X Z) q.Y σ =
      Spec (Fam.dom none) (regularNodes Gc) q.X q.Y σ := by
  obtain ⟨hVs, hZc, hgG, hnoT⟩ := l6_facts hq hT hact hsurr hp Z
  have t0 := hT.t0 hact hsurr
  have hgwf : g.WF := hq.wf _ hp
  have hVc := regularNodes_nodup hq.wfG
  have hVsnd : (regularNodes (g.removeNodes (inter' Z q.X))).Nodup := regularNodes_nodup (MG.wf_removeNodes g _)
  -- membership: `V_s ∖ (X ∖ Z) = V_c ∖ X`
  have hD : ∀ v, (v ∈ regularNodes (g.removeNodes (inter' Z q.X)) ∧ v ∉ diff' q.X Z) ↔ (v ∈ regularNodes Gc ∧ v ∉ q.X) := by
    intro v
    rw [hVs v, mem_inter', mem_diff']
    constructor
    · rintro ⟨⟨a, b⟩, c⟩
      refine ⟨a, fun hx => ?_⟩
      by_cases hz : v ∈ Z
      · exact b ⟨hz, hx⟩
      · exact c ⟨hx, hz⟩
    · rintro ⟨a, b⟩
      exact ⟨⟨a, fun hz => b hz.2⟩, fun hx => b hx.1⟩
  -- no variable of `V_c ∖ X` is marked for `d`
  have hk : ∀ v ∈ (regularNodes Gc).filter (· ∉ q.X), (Fam.dom (some d)).kern v = (Fam.dom none).kern v := by
    intro v hv
    obtain ⟨hv1, hv2⟩ := List.mem_filter.1 hv
    have hvX : v ∉ q.X := by simpa using hv2
    by_contra hne
    have hvT : isTnode v = false := regular_notT hv1
    have hvg : v ∈ regularNodes g := mem_regularNodes.2 ⟨(hgG.1 v hvT).2 (mem_regularNodes.1 hv1).1, hvT⟩
    have hedge : (tnode v, v) ∈ g.di := t0.marks _ hp v hne hvg
    obtain ⟨y, hy, hpath⟩ := noEffect_empty_anc hex hemp v (mem_regularNodes.1 hv1).1 hvX
    have hpath' : ReflTransGen (g.removeInEdges q.X).DiEdge v y := by
      refine ReflTransGen.mono ?_ _ _ hpath
      intro a b hab
      obtain ⟨hab1, hab2⟩ := (diEdge_removeInEdges Gc q.X a b).1 hab
      have haT : isTnode a = false := hnoT a (hq.wfG.di_mem _ hab1).1
      exact (diEdge_removeInEdges g q.X a b).2 ⟨(hgG.2 (a, b) haT).2 hab1, hab2⟩
    exact allTransportsDSeparated_true_blocks g hgwf q.X q.Y htrue (tnode v) v y
      (isTnode_tnode (hsmall v (hT.rsub.nodes v hv1))) hedge hvX hy hpath'
  unfold Spec
  have hQ : (Fam.dom (some d)).Q ((regularNodes (g.removeNodes (inter' Z q.X))).filter (· ∉ diff' q.X Z)) =
      (Fam.dom none).Q ((regularNodes Gc).filter (· ∉ q.X)) := by
    rw [← Q_agree hexo _ hk]
    apply Scm.Q_congr_set _ (hVsnd.filter _) (hVc.filter _)
    intro v
    simp only [List.mem_filter, decide_eq_true_eq]
    exact hD v
  rw [hQ, hexo.card]
  refine congrFun (sumVars_congr_set _ (hVsnd.filter _) (hVc.filter _) (fun v => ?_) _) σ
  simp only [List.mem_filter, decide_eq_true_eq, Bool.and_eq_true, Bool.decide_and]
  constructor
  · rintro ⟨a, b, c⟩; exact ⟨((hD v).1 ⟨a, b⟩).1, ((hD v).1 ⟨a, b⟩).2, c⟩
  · rintro ⟨a, b, c⟩; exact ⟨((hD v).2 ⟨a, b⟩).1, ((hD v).2 ⟨a, b⟩).2, c⟩

end

end Trso
end Y0
