/-
  Y0.Lemmas.FscmEnvLaws — **the environment of every well-formed functional SCM satisfies the laws of probability**
  (`fscmEnv_probFamily`), so the meaning-preservation theorems stated for all `ProbFamily` environments (C10, C12, C13)
  speak about the counterfactual distributions of actual causal models.

  Section "raw": the same environment WITHOUT the convention for ill-formed worlds (`fscmEnvRaw`, first binding wins,
  out-of-range bindings taken literally) satisfies
      pr_nil, pr_nonneg, pr_perm, pr_dup, pr_conflict                unconditionally,
      pr_dos_perm                                                     iff-style: for single-valued `a.dos` (`Functional`),
      pr_marg, pr_range                                               for worlds whose used bindings are in range (`DoInRange`),
  and the three conditional laws FAIL without their side condition (`raw_dos_perm_fails`, `raw_marg_fails`,
  `raw_range_fails`: concrete one-variable model).  On valid worlds the two environments coincide (`fscmEnv_pr_valid`).
-/
import Y0.Lemmas.FscmEnv
import Mathlib.Tactic.NormNum.Inv
import Mathlib.Tactic.NormNum.Ineq

namespace Y0
namespace Fscm

variable {M : Model} {card : Name → Nat}

theorem holds_atomConj (M : Model) (card : Name → Nat) (u : NoisePoint) (a : Atom) :
    holds M u (atomConj card a) = (solve M u (normDo card a.dos) a.name == a.val) := rfl

theorem holds_atomConjRaw (M : Model) (u : NoisePoint) (a : Atom) :
    holds M u (atomConjRaw a) = (solve M u a.dos a.name == a.val) := rfl

theorem fscmEnv_pr (M : Model) (card : Name → Nat) (pop : Option Name) (l : List Atom) :
    (M.fscmEnv card).pr pop l = prob M (l.map (atomConj card)) := rfl

theorem fscmEnvRaw_pr (M : Model) (card : Name → Nat) (pop : Option Name) (l : List Atom) :
    (M.fscmEnvRaw card).pr pop l = prob M (l.map atomConjRaw) := rfl

/-- on atoms with well-formed worlds the environment is `Fscm.prob` verbatim -/
theorem fscmEnv_pr_valid (M : Model) (card : Name → Nat) (pop : Option Name) (l : List Atom)
    (h : ∀ a ∈ l, AtomValid card a) : (M.fscmEnv card).pr pop l = prob M (l.map atomConjRaw) := by
  rw [fscmEnv_pr]
  congr 1
  apply List.map_congr_left
  intro a ha
  simp only [atomConj, atomConjRaw, normDo_of_valid (h a ha)]

theorem fscmEnv_eq_raw_valid (M : Model) (card : Name → Nat) (pop : Option Name) (l : List Atom)
    (h : ∀ a ∈ l, AtomValid card a) : (M.fscmEnv card).pr pop l = (M.fscmEnvRaw card).pr pop l :=
  fscmEnv_pr_valid M card pop l h

/-! ### the laws that need nothing -/

theorem prob_nil (hM : WellFormed M card) : prob M [] = 1 := by
  rw [prob_eq_massOn]
  simp only [List.all_nil]
  rw [massOn_true, space_mass_one hM.noise_sum]

theorem prob_nonneg (hM : WellFormed M card) (cs : List Conjunct) : 0 ≤ prob M cs := by
  rw [prob_eq_massOn]
  exact massOn_nonneg _ _ (space_weight_nonneg hM.noise_nonneg)

theorem prob_perm (M : Model) {l₁ l₂ : List Conjunct} (h : l₁.Perm l₂) : prob M l₁ = prob M l₂ := by
  apply prob_congr
  intro u
  rw [Bool.eq_iff_iff]
  simp only [List.all_eq_true]
  exact ⟨fun h1 c hc => h1 c (h.mem_iff.mpr hc), fun h1 c hc => h1 c (h.mem_iff.mp hc)⟩

theorem prob_dup (M : Model) (c : Conjunct) (l : List Conjunct) : prob M (c :: c :: l) = prob M (c :: l) := by
  apply prob_congr
  intro u
  simp only [List.all_cons]
  cases holds M u c <;> simp

/-- marginalising one counterfactual variable whose values are in range -/
theorem prob_marg (M : Model) (x : Name) (d : Do) (n : Nat) (cs : List Conjunct)
    (hlt : ∀ u, solve M u d x < n) :
    sumRange n (fun k => prob M (⟨x, d, k⟩ :: cs)) = prob M cs := by
  have := massOn_marg (space M.noise) (fun u => cs.all (holds M u)) (fun u => solve M u d x) n (fun pt _ => hlt pt.1)
  simp only [prob_eq_massOn]
  rw [← this]
  rfl

/-! ### the theorem -/

/-- **Every well-formed functional SCM induces a family of distributions satisfying all laws of `ProbFamily`.**
`pr_dos_perm` holds as stated in `Spec/Sem.lean` because the world an atom denotes is the NORMAL FORM `normDo` of its
`dos` list (out-of-range bindings ignored, smallest in-range value per variable), which is invariant under
permutation; `pr_marg` holds even without its side condition. -/
theorem fscmEnv_probFamily (hM : WellFormed M card) : ProbFamily (M.fscmEnv card) where
  card_pos := hM.card_pos
  pr_nil := fun _ => prob_nil hM
  pr_nonneg := fun _ l => prob_nonneg hM _
  pr_perm := fun _ l₁ l₂ h => prob_perm M (h.map _)
  pr_dup := fun _ a l => prob_dup M _ _
  pr_dos_perm := fun _ a dos' l h => by
    simp only [fscmEnv_pr, List.map_cons]
    apply prob_congr
    intro u
    simp only [List.all_cons, holds_atomConj]
    rw [solve_normDo_perm M u card h]
  pr_conflict := fun _ a b l h => by
    simp only [Atom.conflicts, Bool.and_eq_true, beq_iff_eq, bne_iff_ne, ne_eq] at h
    obtain ⟨⟨h1, h2⟩, h3⟩ := h
    simp only [fscmEnv_pr, List.map_cons]
    apply prob_eq_zero_of_never
    intro u
    simp only [List.all_cons, holds_atomConj, h1, h2]
    by_cases e : solve M u (normDo card b.dos) b.name = a.val
    · have : ¬ solve M u (normDo card b.dos) b.name = b.val := fun e' => h3 (e.symm.trans e')
      simp [this]
    · simp [e]
  pr_marg := fun _ x dos l _ => by
    simp only [fscmEnv_pr, List.map_cons]
    exact prob_marg M x (normDo card dos) (card x) _ (fun u => solve_lt hM u (normDo_doInRange card dos) x)
  pr_range := fun _ a l h => by
    simp only [fscmEnv_pr, List.map_cons]
    apply prob_eq_zero_of_never
    intro u
    simp only [List.all_cons, holds_atomConj]
    have := solve_lt hM u (normDo_doInRange card a.dos) a.name
    have hne : ¬ solve M u (normDo card a.dos) a.name = a.val := by
      intro e; rw [e] at this; exact absurd this (Nat.not_lt.mpr h)
    simp [hne]

/-- `Fscm.Model.Normalised` (positive pmfs) is more than enough for the noise clauses -/
theorem wellFormed_of_normalised (hc : ∀ x, 0 < card x) (hf : ∀ v a b, M.f v a b < card v) (hn : M.Normalised) :
    WellFormed M card :=
  ⟨hc, hf, fun pmf hp p hpp => le_of_lt ((hn pmf hp).1 p hpp), fun pmf hp => (hn pmf hp).2⟩

/-! ### raw worlds: which laws survive without the normal form -/

section raw

theorem fscmEnvRaw_card_pos (hM : WellFormed M card) (x : Name) : 0 < (M.fscmEnvRaw card).card x := hM.card_pos x
theorem fscmEnvRaw_pr_nil (hM : WellFormed M card) (pop : Option Name) : (M.fscmEnvRaw card).pr pop [] = 1 := prob_nil hM
theorem fscmEnvRaw_pr_nonneg (hM : WellFormed M card) (pop : Option Name) (l : List Atom) :
    0 ≤ (M.fscmEnvRaw card).pr pop l := prob_nonneg hM _
theorem fscmEnvRaw_pr_perm (M : Model) (card : Name → Nat) (pop : Option Name) {l₁ l₂ : List Atom} (h : l₁.Perm l₂) :
    (M.fscmEnvRaw card).pr pop l₁ = (M.fscmEnvRaw card).pr pop l₂ := prob_perm M (h.map _)
theorem fscmEnvRaw_pr_dup (M : Model) (card : Name → Nat) (pop : Option Name) (a : Atom) (l : List Atom) :
    (M.fscmEnvRaw card).pr pop (a :: a :: l) = (M.fscmEnvRaw card).pr pop (a :: l) := prob_dup M _ _

theorem fscmEnvRaw_pr_conflict (M : Model) (card : Name → Nat) (pop : Option Name) (a b : Atom) (l : List Atom)
    (h : a.conflicts b = true) : (M.fscmEnvRaw card).pr pop (a :: b :: l) = 0 := by
  simp only [Atom.conflicts, Bool.and_eq_true, beq_iff_eq, bne_iff_ne, ne_eq] at h
  obtain ⟨⟨h1, h2⟩, h3⟩ := h
  simp only [fscmEnvRaw_pr, List.map_cons]
  apply prob_eq_zero_of_never
  intro u
  simp only [List.all_cons, holds_atomConjRaw, h1, h2]
  by_cases e : solve M u b.dos b.name = a.val
  · have : ¬ solve M u b.dos b.name = b.val := fun e' => h3 (e.symm.trans e')
    simp [this]
  · simp [e]

/-- `pr_dos_perm` for raw worlds: exactly the single-valued ones -/
theorem fscmEnvRaw_pr_dos_perm (M : Model) (card : Name → Nat) (pop : Option Name) (a : Atom) (dos' : List (Name × Nat))
    (l : List Atom) (hfun : Functional a.dos) (h : a.dos.Perm dos') :
    (M.fscmEnvRaw card).pr pop ({ a with dos := dos' } :: l) = (M.fscmEnvRaw card).pr pop (a :: l) := by
  simp only [fscmEnvRaw_pr, List.map_cons]
  apply prob_congr
  intro u
  simp only [List.all_cons, holds_atomConjRaw]
  rw [solve_perm_of_functional M u hfun h]

/-- `pr_marg` for raw worlds whose used bindings are in range (no condition on the rest of the conjunction) -/
theorem fscmEnvRaw_pr_marg (hM : WellFormed M card) (pop : Option Name) (x : Name) (dos : List (Name × Nat))
    (l : List Atom) (hd : DoInRange card dos) :
    sumRange ((M.fscmEnvRaw card).card x) (fun k => (M.fscmEnvRaw card).pr pop (⟨x, dos, k⟩ :: l)) =
      (M.fscmEnvRaw card).pr pop l := by
  simp only [fscmEnvRaw_pr, List.map_cons]
  exact prob_marg M x dos (card x) _ (fun u => solve_lt hM u hd x)

theorem fscmEnvRaw_pr_range (hM : WellFormed M card) (pop : Option Name) (a : Atom) (l : List Atom)
    (hd : DoInRange card a.dos) (h : (M.fscmEnvRaw card).card a.name ≤ a.val) :
    (M.fscmEnvRaw card).pr pop (a :: l) = 0 := by
  simp only [fscmEnvRaw_pr, List.map_cons]
  apply prob_eq_zero_of_never
  intro u
  simp only [List.all_cons, holds_atomConjRaw]
  have := solve_lt hM u hd a.name
  have hne : ¬ solve M u a.dos a.name = a.val := by
    intro e; rw [e] at this; exact absurd this (Nat.not_lt.mpr h)
  simp [hne]

/-- the one-variable model `X := u₀`, `u₀` a fair coin -/
def coin : Model :=
  { order := [0], noise := [[1/2, 1/2]], pa := fun _ => [], lat := fun _ => [0], f := fun _ _ l => l.headD 0 % 2 }

theorem coin_wellFormed : WellFormed coin (fun _ => 2) := by
  refine ⟨fun _ => by decide, fun _ _ _ => Nat.mod_lt _ (by decide), ?_, ?_⟩
  · intro pmf hp p hpp
    simp only [coin, List.mem_singleton] at hp
    subst hp
    simp only [List.mem_cons, List.not_mem_nil, or_false, or_self] at hpp
    subst hpp
    norm_num
  · intro pmf hp
    simp only [coin, List.mem_singleton] at hp
    subst hp
    norm_num

/-- without the normal form `pr_dos_perm` fails on a two-valued world: `P(X_{x=1,x=0} = 0) = 0 ≠ 1 = P(X_{x=0,x=1} = 0)` -/
theorem raw_dos_perm_fails :
    (coin.fscmEnvRaw (fun _ => 2)).pr none [⟨0, [(0, 1), (0, 0)], 0⟩] ≠
      (coin.fscmEnvRaw (fun _ => 2)).pr none [⟨0, [(0, 0), (0, 1)], 0⟩] := by
  simp [Model.fscmEnvRaw, prob, space, coin, atomConjRaw, holds, solve, step, forced, update, List.zipIdx]
  norm_num

/-- without the normal form `pr_marg` fails on an out-of-range binding: `Σ_{k<2} P(X_{x=7} = k) = 0 ≠ 1` -/
theorem raw_marg_fails :
    sumRange 2 (fun k => (coin.fscmEnvRaw (fun _ => 2)).pr none [⟨0, [(0, 7)], k⟩]) ≠
      (coin.fscmEnvRaw (fun _ => 2)).pr none [] := by
  simp [sumRange, List.range_succ, Model.fscmEnvRaw, prob, space, coin, atomConjRaw, holds, solve, step, forced, update,
    List.zipIdx]
  norm_num

/-- ... and `pr_range`: `P(X_{x=7} = 7) = 1` -/
theorem raw_range_fails : (coin.fscmEnvRaw (fun _ => 2)).pr none [⟨0, [(0, 7)], 7⟩] ≠ 0 := by
  simp [Model.fscmEnvRaw, prob, space, coin, atomConjRaw, holds, solve, step, forced, update, List.zipIdx]
  norm_num

/-- with the normal form the three conjunctions above get the values the laws demand -/
example : (coin.fscmEnv (fun _ => 2)).pr none [⟨0, [(0, 1), (0, 0)], 0⟩] =
    (coin.fscmEnv (fun _ => 2)).pr none [⟨0, [(0, 0), (0, 1)], 0⟩] :=
  (fscmEnv_probFamily coin_wellFormed).pr_dos_perm none ⟨0, [(0, 0), (0, 1)], 0⟩ _ [] (List.Perm.swap _ _ _)

end raw

end Fscm
end Y0
