/-
  Y0.Lemmas.LatentPath — the walk formulation of d- and m-connection used by the C16 separation theorems
  (`LV.Reach`, `LV.MixedReach` of Spec/LatentSpec.lean) is the textbook simple-PATH formulation
  `MG.MConnPath` of Spec/SepSpec.lean, the definition property C04 is stated with.

  * `mixedReach_iff_mwalk`   : `MixedReach G (· ∈ C) a x s`  ⟺  `MG.MWalk G C a x (some mark)`
  * `mconnMixed_iff_mconnPath`: for `a ≠ b` outside `C`, `MConnMixed G (· ∈ C) a b ⟺ G.MConnPath a b C`
    (walk → path shortening is `mconnPath_iff_mconnWalk` of Lemmas/SepPath.lean)
  * `reach_iff_mixedReach_asMG`, `dconn_iff_mconnPath_asMG` : an LV-DAG is the mixed graph `D.asMG`
    (all nodes, latents included, no bidirected edge)
  * `readOff_wf` : the graph `from_latent_variable_dag` returns is well formed (what the C04 verdict
    theorems need).
-/
import Y0.Lemmas.LatentMsep
import Y0.Lemmas.SepPath
import Y0.Lemmas.SepWalk
import Y0.Lemmas.SepVerdict

namespace Y0.LV
open Relation MG

/-- the mark a walk state stands for: `true` = arrowhead at the current node -/
def markOf : Bool → Mark
  | true => .head
  | false => .tail

def isHead : Mark → Bool
  | .head => true
  | .tail => false

theorem markOf_isHead (m : Mark) : markOf (isHead m) = m := by cases m <;> rfl

theorem anZMixed_iff_anc (G : MG Nat) (C : List Nat) (x : Nat) :
    AnZMixed G (fun z => z ∈ C) x ↔ G.Anc C x := Iff.rfl

/-- walk state of `LatentSpec` → inductive open walk of `SepSpec` -/
theorem mwalk_of_mixedReach {G : MG Nat} {C : List Nat} {a x : Nat} {s : Bool}
    (h : MixedReach G (fun z => z ∈ C) a x s) : G.MWalk C a x (some (markOf s)) := by
  induction h with
  | startDown e => exact .snoc .nil (.fwd e) (fun h => by cases h.1) (fun h => absurd rfl h)
  | startUp e => exact .snoc .nil (.bwd e) (fun h => by cases h.1) (fun h => absurd rfl h)
  | startBi e => exact .snoc .nil (.bi e) (fun h => by cases h.1) (fun h => absurd rfl h)
  | chainDown _ hz e ih => exact .snoc ih (.fwd e) (fun h => by cases h.2) (fun _ _ => hz)
  | colliderUp _ han e ih => exact .snoc ih (.bwd e) (fun _ => han) (fun _ hn => absurd ⟨rfl, rfl⟩ hn)
  | colliderBi _ han e ih => exact .snoc ih (.bi e) (fun _ => han) (fun _ hn => absurd ⟨rfl, rfl⟩ hn)
  | chainUp _ hz e ih => exact .snoc ih (.bwd e) (fun h => by cases h.1) (fun _ _ => hz)
  | fork _ hz e ih => exact .snoc ih (.fwd e) (fun h => by cases h.1) (fun _ _ => hz)
  | tailBi _ hz e ih => exact .snoc ih (.bi e) (fun h => by cases h.1) (fun _ _ => hz)

/-- inductive open walk of `SepSpec` (with at least one edge) → walk state of `LatentSpec` -/
theorem mixedReach_of_mwalk {G : MG Nat} {C : List Nat} {a x : Nat} {m : Option Mark}
    (h : G.MWalk C a x m) : ∀ mk, m = some mk → MixedReach G (fun z => z ∈ C) a x (isHead mk) := by
  induction h with
  | nil => intro mk h; cases h
  | @snoc y z m my mz hw he h1 h2 ih =>
    intro mk hmk
    cases hmk
    cases m with
    | none =>
      have := mwalk_none_eq hw
      subst this
      cases he with
      | fwd e => exact .startDown e
      | bwd e => exact .startUp e
      | bi e => exact .startBi e
    | some mp =>
      have r := ih mp rfl
      cases mp with
      | head =>
        cases he with
        | fwd e => exact .chainDown r (h2 (by simp) (by simp)) e
        | bwd e => exact .colliderUp r (h1 ⟨rfl, rfl⟩) e
        | bi e => exact .colliderBi r (h1 ⟨rfl, rfl⟩) e
      | tail =>
        cases he with
        | fwd e => exact .fork r (h2 (by simp) (by simp)) e
        | bwd e => exact .chainUp r (h2 (by simp) (by simp)) e
        | bi e => exact .tailBi r (h2 (by simp) (by simp)) e

theorem mixedReach_iff_mwalk (G : MG Nat) (C : List Nat) (a x : Nat) (s : Bool) :
    MixedReach G (fun z => z ∈ C) a x s ↔ G.MWalk C a x (some (markOf s)) := by
  constructor
  · exact mwalk_of_mixedReach
  · intro h
    have := mixedReach_of_mwalk h (markOf s) rfl
    cases s <;> exact this

/-- m-connection by a `MixedReach` walk is the existence of an open `MWalk` -/
theorem mconnMixed_iff_mwalk (G : MG Nat) (C : List Nat) (a b : Nat) (hab : a ≠ b) :
    MConnMixed G (fun z => z ∈ C) a b ↔ ∃ m, G.MWalk C a b m := by
  constructor
  · rintro ⟨s, h⟩
    exact ⟨_, mwalk_of_mixedReach h⟩
  · rintro ⟨m, h⟩
    cases m with
    | none => exact absurd (mwalk_none_eq h).symm hab
    | some mk => exact ⟨_, mixedReach_of_mwalk h mk rfl⟩

/-- **walk formulation = list-of-steps walk of `SepSpec`** -/
theorem mconnMixed_iff_mconnWalk (G : MG Nat) (C : List Nat) (a b : Nat) (hab : a ≠ b)
    (ha : a ∉ C) (hb : b ∉ C) : MConnMixed G (fun z => z ∈ C) a b ↔ G.MConnWalk a b C := by
  rw [mconnWalk_iff_mwalk G C a b hab, mconnMixed_iff_mwalk G C a b hab]
  simp [ha, hb]

/-- **walk formulation = textbook path formulation** (`MG.MConnPath`: no node visited twice) -/
theorem mconnMixed_iff_mconnPath (G : MG Nat) (C : List Nat) (a b : Nat) (hab : a ≠ b)
    (ha : a ∉ C) (hb : b ∉ C) : MConnMixed G (fun z => z ∈ C) a b ↔ G.MConnPath a b C := by
  rw [mconnPath_iff_mconnWalk G C a b hab, mconnMixed_iff_mconnWalk G C a b hab ha hb]

/-! ### the LV-DAG as a mixed graph without bidirected edges -/

theorem asMG_diEdge (D : LV) (u v : Nat) : D.asMG.DiEdge u v ↔ D.Edge u v := Iff.rfl

theorem asMG_no_bi (D : LV) (u v : Nat) : ¬ D.asMG.BiEdge u v := by
  intro h; rcases h with h | h <;> simp [asMG] at h

theorem reach_iff_mixedReach_asMG (D : LV) (Z : Nat → Prop) (a x : Nat) (s : Bool) :
    Reach D Z a x s ↔ MixedReach D.asMG Z a x s := by
  constructor
  · intro h
    induction h with
    | startDown e => exact .startDown e
    | startUp e => exact .startUp e
    | chainDown _ hz e ih => exact .chainDown ih hz e
    | collider _ han e ih => exact .colliderUp ih han e
    | chainUp _ hz e ih => exact .chainUp ih hz e
    | fork _ hz e ih => exact .fork ih hz e
  · intro h
    induction h with
    | startDown e => exact .startDown e
    | startUp e => exact .startUp e
    | startBi e => exact absurd e (asMG_no_bi D _ _)
    | chainDown _ hz e ih => exact .chainDown ih hz e
    | colliderUp _ han e ih => exact .collider ih han e
    | colliderBi _ _ e _ => exact absurd e (asMG_no_bi D _ _)
    | chainUp _ hz e ih => exact .chainUp ih hz e
    | fork _ hz e ih => exact .fork ih hz e
    | tailBi _ _ e _ => exact absurd e (asMG_no_bi D _ _)

theorem dconn_iff_mconnMixed_asMG (D : LV) (Z : Nat → Prop) (a b : Nat) :
    D.DConn Z a b ↔ MConnMixed D.asMG Z a b := by
  constructor <;> rintro ⟨s, h⟩
  · exact ⟨s, (reach_iff_mixedReach_asMG D Z a b s).1 h⟩
  · exact ⟨s, (reach_iff_mixedReach_asMG D Z a b s).2 h⟩

/-- d-connection inside the LV-DAG in the walk formulation is d-connection by a simple path in the
directed graph `D.asMG` -/
theorem dconn_iff_mconnPath_asMG (D : LV) (C : List Nat) (a b : Nat) (hab : a ≠ b)
    (ha : a ∉ C) (hb : b ∉ C) : D.DConn (fun z => z ∈ C) a b ↔ D.asMG.MConnPath a b C := by
  rw [dconn_iff_mconnMixed_asMG, mconnMixed_iff_mconnPath D.asMG C a b hab ha hb]

theorem asMG_wf (D : LV) (hw : D.WF) : D.asMG.WF :=
  ⟨hw.nodes_nodup, hw.edges_nodup, hw.edge_mem, fun _ h => by simp [asMG] at h⟩

theorem asMG_acyclic (D : LV) (ha : D.Acyclic) : D.asMG.Acyclic := ha

/-! ### the read-off graph is well formed -/

theorem mg_wf_addNode (G : MG Nat) (hG : G.WF) (n : Nat) : (G.addNode n).WF := by
  refine ⟨nodup_addNode G n hG.nodup, by simpa using hG.di_nodup, ?_, ?_⟩
  · intro e he
    simp only [di_addNode] at he
    simp only [mem_nodes_addNode]
    exact ⟨Or.inl (hG.di_mem e he).1, Or.inl (hG.di_mem e he).2⟩
  · intro e he
    simp only [bi_addNode] at he
    simp only [mem_nodes_addNode]
    exact ⟨Or.inl (hG.bi_mem e he).1, Or.inl (hG.bi_mem e he).2⟩

theorem mg_wf_addDi (G : MG Nat) (hG : G.WF) (e : Nat × Nat) : (G.addDi e).WF := by
  refine ⟨nodup_addDi G e hG.nodup, nodup_di_addDi G e hG.di_nodup, ?_, ?_⟩
  · intro x hx
    simp only [mem_di_addDi] at hx
    simp only [mem_nodes_addDi]
    rcases hx with hx | rfl
    · exact ⟨Or.inl (hG.di_mem x hx).1, Or.inl (hG.di_mem x hx).2⟩
    · exact ⟨Or.inr (Or.inl rfl), Or.inr (Or.inr rfl)⟩
  · intro x hx
    simp only [bi_addDi] at hx
    simp only [mem_nodes_addDi]
    exact ⟨Or.inl (hG.bi_mem x hx).1, Or.inl (hG.bi_mem x hx).2⟩

theorem mg_wf_addBi (G : MG Nat) (hG : G.WF) (e : Nat × Nat) : (G.addBi e).WF := by
  refine ⟨nodup_addBi G e hG.nodup, by simpa using hG.di_nodup, ?_, ?_⟩
  · intro x hx
    simp only [di_addBi] at hx
    simp only [mem_nodes_addBi]
    exact ⟨Or.inl (hG.di_mem x hx).1, Or.inl (hG.di_mem x hx).2⟩
  · intro x hx
    simp only [mem_nodes_addBi]
    rcases mem_bi_addBi_sub G e x hx with hx | rfl
    · exact ⟨Or.inl (hG.bi_mem x hx).1, Or.inl (hG.bi_mem x hx).2⟩
    · exact ⟨Or.inr (Or.inl rfl), Or.inr (Or.inr rfl)⟩

theorem mg_wf_foldl {β : Type} (f : MG Nat → β → MG Nat) (hf : ∀ G b, G.WF → (f G b).WF)
    (l : List β) (G : MG Nat) (hG : G.WF) : (l.foldl f G).WF := by
  induction l generalizing G with
  | nil => exact hG
  | cons b l ih => exact ih _ (hf G b hG)

theorem mg_wf_empty : (MG.empty : MG Nat).WF :=
  ⟨by simp [MG.empty], by simp [MG.empty], fun _ h => by simp [MG.empty] at h, fun _ h => by simp [MG.empty] at h⟩

theorem fromStep_wf (D : LV) (G : MG Nat) (hG : G.WF) (v : Nat) : (fromStep D G v).WF := by
  unfold fromStep
  split
  · exact mg_wf_foldl _ (fun G e h => mg_wf_addBi G h e) _ _ hG
  · exact mg_wf_foldl _ (fun G e h => mg_wf_addDi G h e) _ _ hG

/-- the graph `from_latent_variable_dag` builds is well formed, whatever the LV-DAG -/
theorem readOff_wf (D : LV) : D.readOff.WF := by
  unfold readOff
  exact mg_wf_foldl _ (fun G v h => fromStep_wf D G h v) _ _
    (mg_wf_foldl _ (fun G n h => mg_wf_addNode G h n) _ _ mg_wf_empty)

theorem toMG?_wf (D : LV) (G : MG Nat) (h : D.toMG? = .ok G) : G.WF := by
  unfold toMG? at h
  split at h
  · cases h
  · cases h; exact readOff_wf D

end Y0.LV
