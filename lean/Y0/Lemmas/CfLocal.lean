/-
  Y0.Lemmas.CfLocal — the joint distribution of a parent-closed set of variables of a functional SCM in ONE world is the mass of
  the "local mechanism" events, one per variable (`prob_eq_local`):
      P(⋀_{V ∈ S} V_d = σ V) = mass { u | ∀ V ∈ S, f_V(σ pa(V), u lat(V)) = σ V }
  whenever every `V ∈ S` is unforced in `d` and every parent of `V` is in `S` or forced by `d` to its value under `σ`.
  The right-hand side does not mention the world; each local event only looks at the noise coordinates `lat V`
  (`localOK_dependsOn`), so the c-component factorisation is `mass_indep_list`.
-/
import Y0.Lemmas.CfProb

namespace Y0.Fscm

/-- a world matters only through what it forces -/
theorem solve_congr_forced (M : Model) (u : NoisePoint) (d₁ d₂ : Do) (h : ∀ v, forced d₁ v = forced d₂ v) :
    solve M u d₁ = solve M u d₂ := by
  unfold solve
  have : step M u d₁ = step M u d₂ := by
    funext σ v
    unfold step
    rw [h v]
  rw [this]

/-- the mechanism of `V`, fed with the values `σ` of its parents, yields `σ V` at the noise point `u` -/
def localOK (M : Model) (σ : Valuation) (u : NoisePoint) (V : Name) : Bool :=
  M.f V ((M.pa V).map σ) ((M.lat V).map fun j => u.getD j 0) == σ V

theorem localOK_dependsOn (M : Model) (σ : Valuation) (V : Name) :
    DependsOn (fun u => localOK M σ u V) (fun j => j ∈ M.lat V) := by
  intro u u' h
  have : ((M.lat V).map fun j => u.getD j 0) = ((M.lat V).map fun j => u'.getD j 0) :=
    List.map_congr_left (fun j hj => h j hj)
  show localOK M σ u V = localOK M σ u' V
  unfold localOK
  rw [this]

/-- the hypotheses on a set `S` of variables, a world `d` and a valuation `σ` -/
def LocalSet (M : Model) (d : Do) (σ : Valuation) (S : List Name) : Prop :=
  ∀ V ∈ S, V ∈ M.order ∧ forced d V = none ∧ ∀ p ∈ M.pa V, p ∈ S ∨ forced d p = some (σ p)

theorem solve_eq_iff_local (M : Model) (hM : TopoOrder M) (u : NoisePoint) (d : Do) (σ : Valuation) (S : List Name)
    (hS : LocalSet M d σ S) :
    (∀ V ∈ S, solve M u d V = σ V) ↔ (∀ V ∈ S, localOK M σ u V = true) := by
  have hpar : ∀ V ∈ S, ∀ p ∈ M.pa V, p ∈ M.order := by
    intro V hV p hp
    obtain ⟨l₁, l₂, hsplit⟩ := List.append_of_mem (hS V hV).1
    have := hM.2 l₁ V l₂ hsplit p hp
    rw [hsplit]; simp [this]
  constructor
  · intro h V hV
    obtain ⟨hVo, hVf, hVp⟩ := hS V hV
    unfold localOK
    have hmap : (M.pa V).map σ = (M.pa V).map (solve M u d) := by
      apply List.map_congr_left
      intro p hp
      rcases hVp p hp with hpS | hpf
      · exact (h p hpS).symm
      · exact (solve_forced M u d p (σ p) (hpar V hV p hp) hpf).symm
    rw [hmap, ← solve_unforced M hM u d V hVo hVf, h V hV]
    simp
  · intro h
    -- along the evaluation order
    have key : ∀ n, ∀ l₁ l₂, M.order = l₁ ++ l₂ → l₁.length = n → ∀ V ∈ S, V ∈ l₁ → solve M u d V = σ V := by
      intro n
      induction n with
      | zero =>
        intro l₁ l₂ _ hlen V _ hV1
        have : l₁ = [] := List.eq_nil_of_length_eq_zero hlen
        rw [this] at hV1; cases hV1
      | succ n ih =>
        intro l₁ l₂ hsplit hlen V hV hV1
        have hne : l₁ ≠ [] := by intro h0; rw [h0] at hlen; simp at hlen
        obtain ⟨l₁', x, rfl⟩ : ∃ l₁' x, l₁ = l₁' ++ [x] := ⟨l₁.dropLast, l₁.getLast hne, (List.dropLast_append_getLast hne).symm⟩
        have hlen' : l₁'.length = n := by simpa using hlen
        have hsplit' : M.order = l₁' ++ (x :: l₂) := by rw [hsplit]; simp
        rcases List.mem_append.1 hV1 with hV1' | hVx
        · exact ih l₁' (x :: l₂) hsplit' hlen' V hV hV1'
        · simp only [List.mem_singleton] at hVx
          subst hVx
          obtain ⟨hVo, hVf, hVp⟩ := hS V hV
          rw [solve_unforced M hM u d V hVo hVf]
          have hmap : (M.pa V).map (solve M u d) = (M.pa V).map σ := by
            apply List.map_congr_left
            intro p hp
            rcases hVp p hp with hpS | hpf
            · exact ih l₁' (V :: l₂) hsplit' hlen' p hpS (hM.2 l₁' V l₂ hsplit' p hp)
            · exact solve_forced M u d p (σ p) (hpar V hV p hp) hpf
          rw [hmap]
          have := h V hV
          unfold localOK at this
          simpa using this
    intro V hV
    exact key M.order.length M.order [] (by simp) rfl V hV (hS V hV).1

/-- **the joint distribution of a parent-closed set in one world** -/
theorem prob_eq_local (M : Model) (hM : TopoOrder M) (d : Do) (σ : Valuation) (S : List Name) (hS : LocalSet M d σ S) :
    prob M (S.map fun V => ⟨V, d, σ V⟩) = mass M.noise (fun u => S.all (localOK M σ u)) := by
  rw [prob_eq_mass]
  apply mass_congr
  intro u
  apply Bool.eq_iff_iff.2
  simp only [List.all_eq_true, List.mem_map, forall_exists_index, and_imp, forall_apply_eq_imp_iff₂]
  have := solve_eq_iff_local M hM u d σ S hS
  constructor
  · intro h
    apply this.1
    intro V hV
    have := h V hV
    simpa [holds] using this
  · intro h V hV
    have := this.2 h V hV
    simp [holds, this]

/-- two worlds that both make `S` a local set give `S` the same joint distribution -/
theorem prob_world_irrelevant (M : Model) (hM : TopoOrder M) (d₁ d₂ : Do) (σ : Valuation) (S : List Name)
    (h₁ : LocalSet M d₁ σ S) (h₂ : LocalSet M d₂ σ S) :
    prob M (S.map fun V => ⟨V, d₁, σ V⟩) = prob M (S.map fun V => ⟨V, d₂, σ V⟩) := by
  rw [prob_eq_local M hM d₁ σ S h₁, prob_eq_local M hM d₂ σ S h₂]

end Y0.Fscm
