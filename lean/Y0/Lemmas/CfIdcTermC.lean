/-
  Y0.Lemmas.CfIdcTermC — TERMINATION of IDC*'s line-4 recursion when outcomes and conditions may be copies of one variable.

  Measure (lexicographic):   ( number of variable names among the outcomes ,  number of conditions whose name is no outcome name ).
    * names never migrate: the re-associated outcomes are named like old outcomes, the re-associated conditions like old
      conditions (`reassoc_general`), the exchange keeps the names of the outcomes;
    * rule 2 never accepts a condition named like an outcome (`rule2_name_free`), so the exchanged condition is a "free" one;
    * for the names that are no outcome names the counterfactual graph construction never increases the number of keys
      (`cg_count_le`), so the re-association does not add free conditions; the exchange removes one.
  So either an outcome name disappears, or the number of free conditions drops: `idcStarO_step`, `idcStarO_terminates`.
  Hypotheses (`IdcInv`, preserved by the recursion): dicts of well-formed keys over the graph, no key self-intervened.
-/
import Y0.Lemmas.CfIdcTermB

namespace Y0
namespace Cf
open MG Fscm

/-- the invariant of the recursion -/
structure IdcInv (G : MG Name) (O C : Event) : Prop where
  okeys : O.keys.Nodup
  ckeys : C.keys.Nodup
  onames : ∀ p ∈ O, p.2.name = p.1.name
  cnames : ∀ p ∈ C, p.2.name = p.1.name
  keyOK : ∀ k, k ∈ O.keys ∨ k ∈ C.keys → KeyOK G k
  nsi : ∀ k, k ∈ O.keys ∨ k ∈ C.keys → isNotSelfIntervened k = true

/-- the variable names of the outcomes -/
def outNames (O : Event) : List Name := O.keys.map (·.name)

/-- first component of the measure: how many different variable names the outcomes have -/
def nOutNames (O : Event) : Nat := (dedup' (outNames O)).length

/-- second component: how many conditions are named like no outcome -/
def freeConds (O C : Event) : Nat := C.keys.countP (fun k => !elem' k.name (outNames O))

/-- the lexicographic order on the measure -/
def IdcLess (O' C' O C : Event) : Prop :=
  nOutNames O' < nOutNames O ∨ (nOutNames O' = nOutNames O ∧ freeConds O' C' < freeConds O C)

theorem subset_of_nodup_length_le {α} [DecidableEq α] {l₁ l₂ : List α} (hnd : l₁.Nodup) (hsub : ∀ x ∈ l₁, x ∈ l₂)
    (hlen : l₂.length ≤ l₁.length) : ∀ x ∈ l₂, x ∈ l₁ := by
  intro x hx
  exact ((List.subperm_of_subset hnd hsub).perm_of_length_le hlen).mem_iff.2 hx

theorem Event.keys_filter_ne (ev : Event) (k : Var) :
    Event.keys (ev.filter (fun p => p.1 ≠ k)) = ev.keys.filter (fun x => decide (x ≠ k)) := Event.keys_erase ev k

variable (ordf : List World → List World) (dordf kordf : List Var → List Var) (G : MG Name)

/-- **one level of IDC\***: either this level answers (for every fuel ≥ 1), or it recurses on a state that satisfies the
invariant again and is smaller in the lexicographic measure -/
theorem idcStarO_step (hk : SubsetOrder kordf) (hord : PermOrder ordf) (hG : G.WF) (hdl : ∀ e ∈ G.di, e.1 ≠ e.2)
    (hbl : ∀ e ∈ G.bi, e.1 ≠ e.2) (O C : Event) (hinv : IdcInv G O C) :
    (∀ fuel, (idcStarO ordf dordf kordf G (fuel + 1) O C).isSome = true) ∨
    ∃ O' C', IdcInv G O' C' ∧ IdcLess O' C' O C ∧
      (∃ cf nev c val, makeCounterfactualGraph ordf G (Event.ofList (O ++ C)) = .ok (cf, some nev) ∧
        firstExchangeable cf (newOutcomesAndConditions kordf nev O C).fst.keys
          (newOutcomesAndConditions kordf nev O C).snd.keys = .ok (some c) ∧
        (newOutcomesAndConditions kordf nev O C).snd.get? c = some val ∧
        exchangeStep cf (newOutcomesAndConditions kordf nev O C).fst c val
                    ((newOutcomesAndConditions kordf nev O C).snd.filter (fun p => p.1 ≠ c)) = .ok (some O') ∧
        C' = (newOutcomesAndConditions kordf nev O C).snd.filter (fun p => p.1 ≠ c)) ∧
      ∀ fuel, idcStarO ordf dordf kordf G (fuel + 1) O C = idcStarO ordf dordf kordf G fuel O' C' := by
  cases h1 : line1 (idStar ordf dordf G C) with
  | error err => left; intro fuel; unfold idcStarO; rw [h1]; rfl
  | ok u =>
    cases hcg : makeCounterfactualGraph ordf G (Event.ofList (O ++ C)) with
    | error err => left; intro fuel; unfold idcStarO; rw [h1]; simp only; rw [hcg]; rfl
    | ok v =>
      rcases v with ⟨cf, new⟩
      cases new with
      | none => left; intro fuel; unfold idcStarO; rw [h1]; simp only; rw [hcg]; rfl
      | some nev =>
        cases hf : firstExchangeable cf (newOutcomesAndConditions kordf nev O C).fst.keys
            (newOutcomesAndConditions kordf nev O C).snd.keys with
        | error err => left; intro fuel; unfold idcStarO; rw [h1]; simp only; rw [hcg]; simp only; rw [hf]; rfl
        | ok oc =>
          cases oc with
          | none => left; intro fuel; unfold idcStarO; rw [h1]; simp only; rw [hcg]; simp only; rw [hf]; rfl
          | some c =>
            cases hg : (newOutcomesAndConditions kordf nev O C).snd.get? c with
            | none =>
              left; intro fuel; unfold idcStarO; rw [h1]; simp only; rw [hcg]; simp only; rw [hf]; simp only; rw [hg]; rfl
            | some val =>
              cases hx0 : exchangeStep cf (newOutcomesAndConditions kordf nev O C).fst c val
                    ((newOutcomesAndConditions kordf nev O C).snd.filter (fun p => p.1 ≠ c)) with
              | error err =>
                left; intro fuel; unfold idcStarO; rw [h1]; simp only; rw [hcg]; simp only; rw [hf]; simp only; rw [hg]
                simp only; rw [hx0]; rfl
              | ok on =>
               cases on with
               | none =>
                left; intro fuel; unfold idcStarO; rw [h1]; simp only; rw [hcg]; simp only; rw [hf]; simp only; rw [hg]
                simp only; rw [hx0]; rfl
               | some no' =>
                have hx := exchangeStep_some _ _ _ _ _ _ hx0
                right
                set no := (newOutcomesAndConditions kordf nev O C).fst with hno
                set nc := (newOutcomesAndConditions kordf nev O C).snd with hnc
                refine ⟨no', nc.filter (fun p => p.1 ≠ c), ?_, ?_, ?_⟩
                rotate_left 2
                · refine ⟨⟨cf, nev, c, val, rfl, hf, hg, hx0, rfl⟩, ?_⟩
                  intro fuel
                  conv_lhs => rw [idcStarO]
                  rw [h1]; simp only; rw [hcg]; simp only; rw [hf]; simp only; rw [hg]; simp only; rw [hx0]
                all_goals
                  -- the facts shared by the invariant and the measure
                  have hEnd := (Event.ofList_spec (O ++ C)).1
                  have hEmem := mem_keys_ofList_append O C
                  have hEent := (Event.ofList_spec (O ++ C)).2
                  have hcmem : c ∈ nc.keys := firstExchangeable_mem _ _ _ _ hf
                  have hCne : C ≠ [] := by
                    intro h0
                    rw [hnc, h0, reassoc_no_conditions] at hcmem
                    cases hcmem
                  have hEne : Event.ofList (O ++ C) ≠ [] := by
                    intro h0
                    cases hC : C with
                    | nil => exact hCne hC
                    | cons p ps =>
                      have : p.1 ∈ (Event.ofList (O ++ C)).keys := (hEmem p.1).2 (Or.inr (by rw [hC]; simp [Event.keys]))
                      rw [h0] at this
                      cases this
                  have hEok : EvOK (Event.ofList (O ++ C)) := by
                    refine ⟨hEnd, fun p hp => ?_⟩
                    rcases List.mem_append.1 (hEent p hp) with h | h
                    · exact hinv.onames p h
                    · exact hinv.cnames p h
                  have hEkey : ∀ k ∈ (Event.ofList (O ++ C)).keys, KeyOK G k := fun k hk' => hinv.keyOK k ((hEmem k).1 hk')
                  have hEnsi : KeysNSI (Event.ofList (O ++ C)) :=
                    ⟨hEne, fun p hp => hinv.nsi p.1 ((hEmem p.1).1 ((mem_keys_iff' _ _).2 ⟨p, hp, rfl⟩))⟩
                  obtain ⟨⟨_, hnevnsi⟩, hnevok⟩ := cg_event_inv hord.good hcg hEnsi hEok
                  obtain ⟨_, hcnt⟩ := cg_count_le hcg hEnd
                  have hnodeOK := cg_nodeOK hord hG hdl hbl hEok hEkey hcg
                  have hnevnode := cg_event_in_nodes hcg
                  obtain ⟨hnond, hncnd, hnokeys, hnckeys, hnoent, hncent⟩ :=
                    reassoc_general hk nev O C hcnt hinv.okeys hinv.ckeys
                  rw [← hno] at hnond hnokeys hnoent
                  rw [← hnc] at hncnd hnckeys hncent
                  have hnevnsi' : ∀ k ∈ nev.keys, isNotSelfIntervened k = true := by
                    intro k hk'
                    obtain ⟨p, hp, rfl⟩ := (mem_keys_iff' _ _).1 hk'
                    exact hnevnsi p hp
                  have hr2 := firstExchangeable_rule2 _ _ _ _ hf
                  -- K1: no re-associated outcome is named like the exchanged condition
                  have hK1 : ∀ o ∈ no.keys, o.name ≠ c.name := by
                    intro o ho hname
                    exact rule2_name_free hord hG hdl hbl hEok hEkey hcg no.keys c _ hr2 o ho (hnokeys o ho).1
                      (hnckeys c hcmem).1 (hnevnsi' o (hnokeys o ho).1) (hnevnsi' c (hnckeys c hcmem).1) hname
                  obtain ⟨hno'nd, hno'ent⟩ := exchangeOutcomes_spec cf no c val no' hx
                  have hval : val.name = c.name := by
                    have hcv : (c, val) ∈ nc := Event.get?_mem hg
                    rcases hncent _ hcv with h | h
                    · exact hinv.cnames _ h
                    · exact hnevok.names _ h
                  -- every key of the exchanged outcomes comes from a key of `no` with the same name
                  have hno'key : ∀ k ∈ no'.keys, ∃ k0 ∈ no.keys, k.name = k0.name ∧
                      (k = k0 ∨ interveneWith k0 val = .ok k) := by
                    intro k hk'
                    obtain ⟨q, hq, rfl⟩ := (mem_keys_iff' _ _).1 hk'
                    obtain ⟨p, hp, _, hcase⟩ := hno'ent q hq
                    refine ⟨p.1, (mem_keys_iff' _ _).2 ⟨p, hp, rfl⟩, ?_, hcase⟩
                    rcases hcase with h | h
                    · rw [h]
                    · exact (interveneWith_spec _ _ _ h).1
                  have hC'keys : ∀ k ∈ Event.keys (nc.filter (fun p => p.1 ≠ c)), k ∈ nc.keys := by
                    intro k hk'
                    obtain ⟨p, hp, rfl⟩ := (mem_keys_iff' _ _).1 hk'
                    exact (mem_keys_iff' _ _).2 ⟨p, (List.mem_filter.1 hp).1, rfl⟩
                  have hno'names : ∀ n ∈ outNames no', n ∈ outNames O := by
                    intro n hn
                    obtain ⟨k, hk', rfl⟩ := List.mem_map.1 hn
                    obtain ⟨k0, hk0, hkn, _⟩ := hno'key k hk'
                    rw [hkn]
                    exact (hnokeys k0 hk0).2
                · -- the invariant
                  refine ⟨hno'nd, ?_, ?_, ?_, ?_, ?_⟩
                  · unfold Event.keys
                    exact List.Nodup.sublist (List.Sublist.map _ List.filter_sublist) hncnd
                  · intro q hq
                    obtain ⟨p, hp, hq2, hcase⟩ := hno'ent q hq
                    have hpn : p.2.name = p.1.name := by
                      rcases hnoent p hp with h | h
                      · exact hinv.onames p h
                      · exact hnevok.names p h
                    rw [hq2, hpn]
                    rcases hcase with h | h
                    · rw [h]
                    · exact (interveneWith_spec _ _ _ h).1.symm
                  · intro p hp
                    rcases hncent p (List.mem_filter.1 hp).1 with h | h
                    · exact hinv.cnames p h
                    · exact hnevok.names p h
                  · rintro k (hk' | hk')
                    · obtain ⟨k0, hk0, hkn, hcase⟩ := hno'key k hk'
                      have hok0 : KeyOK G k0 := hnodeOK k0 (hnevnode k0 (hnokeys k0 hk0).1)
                      rcases hcase with rfl | hi
                      · exact hok0
                      · obtain ⟨h1', h2', h3', _, h5'⟩ := interveneWith_spec _ _ _ hi
                        exact ⟨by rw [h2']; exact hok0.star, h3' hok0.notIv, by rw [h1']; exact hok0.inG, h5'⟩
                    · have := hC'keys k hk'
                      exact hnodeOK k (hnevnode k (hnckeys k this).1)
                  · rintro k (hk' | hk')
                    · obtain ⟨k0, hk0, hkn, hcase⟩ := hno'key k hk'
                      have hn0 := hnevnsi' k0 (hnokeys k0 hk0).1
                      rcases hcase with rfl | hi
                      · exact hn0
                      · obtain ⟨h1', _, _, h4', _⟩ := interveneWith_spec _ _ _ hi
                        unfold isNotSelfIntervened at hn0 ⊢
                        rw [List.all_eq_true] at hn0 ⊢
                        intro i hi'
                        rcases h4' i hi' with h | h
                        · rw [h1']; exact hn0 i h
                        · rw [h, h1', hval]
                          simpa using fun e => hK1 k0 hk0 e.symm
                    · exact hnevnsi' k (hnckeys k (hC'keys k hk')).1
                · -- the measure
                  have hle : nOutNames no' ≤ nOutNames O := by
                    unfold nOutNames
                    apply length_le_of_nodup_subset (nodup_dedup' _)
                    intro n hn
                    exact mem_dedup'.2 (hno'names n (mem_dedup'.1 hn))
                  rcases Nat.lt_or_ge (nOutNames no') (nOutNames O) with hlt | hge
                  · exact Or.inl hlt
                  · right
                    refine ⟨Nat.le_antisymm hle hge, ?_⟩
                    -- the outcomes have the same names as before
                    have hback : ∀ n ∈ outNames O, n ∈ outNames no' := by
                      intro n hn
                      have := subset_of_nodup_length_le (nodup_dedup' (outNames no'))
                        (fun x hx => mem_dedup'.2 (hno'names x (mem_dedup'.1 hx))) hge n (mem_dedup'.2 hn)
                      exact mem_dedup'.1 this
                    have hpeq : ∀ k : Var, (!elem' k.name (outNames no')) = (!elem' k.name (outNames O)) := by
                      intro k
                      congr 1
                      apply Bool.eq_iff_iff.2
                      rw [elem'_iff, elem'_iff]
                      exact ⟨hno'names _, hback _⟩
                    -- the exchanged condition is a free one
                    have hcfree : (!elem' c.name (outNames O)) = true := by
                      simp only [Bool.not_eq_true', ← Bool.not_eq_true, elem'_iff]
                      intro hmem
                      obtain ⟨k, hk', hkn⟩ := List.mem_map.1 (hback _ hmem)
                      obtain ⟨k0, hk0, hkn0, _⟩ := hno'key k hk'
                      exact hK1 k0 hk0 (by rw [← hkn0, hkn])
                    unfold freeConds
                    rw [Event.keys_filter_ne, List.countP_congr (fun k _ => by rw [hpeq k])]
                    have hstep := countP_filter_ne_add (fun k : Var => !elem' k.name (outNames O)) c nc.keys hcmem
                    rw [hcfree] at hstep
                    simp only [if_true] at hstep
                    -- the re-association does not add free conditions
                    have h1' : nc.keys.countP (fun k => !elem' k.name (outNames O)) ≤
                        nev.keys.countP (fun k => !elem' k.name (outNames O)) := by
                      rw [List.countP_eq_length_filter, List.countP_eq_length_filter]
                      apply length_le_of_nodup_subset (hncnd.filter _)
                      intro x hx
                      rw [List.mem_filter] at hx ⊢
                      exact ⟨(hnckeys x hx.1).1, hx.2⟩
                    have h2' := hcnt (fun n => !elem' n (outNames O))
                    have h3' : (Event.ofList (O ++ C)).keys.countP (fun k => !elem' k.name (outNames O)) ≤
                        C.keys.countP (fun k => !elem' k.name (outNames O)) := by
                      rw [List.countP_eq_length_filter, List.countP_eq_length_filter]
                      apply length_le_of_nodup_subset (hEnd.filter _)
                      intro x hx
                      rw [List.mem_filter] at hx ⊢
                      rcases (hEmem x).1 hx.1 with h | h
                      · exfalso
                        have hx2 := hx.2
                        simp only [Bool.not_eq_true', ← Bool.not_eq_true, elem'_iff] at hx2
                        exact hx2 (List.mem_map.2 ⟨x, h, rfl⟩)
                      · exact ⟨h, hx.2⟩
                    omega

/-- more fuel never turns an answer into an exhausted run -/
theorem idcStarO_mono : ∀ (fuel : Nat) (O C : Event) (r : Except Err Expr),
    idcStarO ordf dordf kordf G fuel O C = some r → idcStarO ordf dordf kordf G (fuel + 1) O C = some r := by
  intro fuel
  induction fuel with
  | zero => intro O C r h; simp [idcStarO] at h
  | succ n ih =>
    intro O C r h
    rw [idcStarO] at h ⊢
    cases h1 : line1 (idStar ordf dordf G C) with
    | error err => rw [h1] at h; exact h
    | ok u =>
      rw [h1] at h
      simp only at h ⊢
      cases hcg : makeCounterfactualGraph ordf G (Event.ofList (O ++ C)) with
      | error err => rw [hcg] at h; exact h
      | ok v =>
        rw [hcg] at h
        rcases v with ⟨cf, new⟩
        cases new with
        | none => exact h
        | some nev =>
          simp only at h ⊢
          cases hf : firstExchangeable cf (newOutcomesAndConditions kordf nev O C).fst.keys
              (newOutcomesAndConditions kordf nev O C).snd.keys with
          | error err => rw [hf] at h; exact h
          | ok oc =>
            rw [hf] at h
            cases oc with
            | none => exact h
            | some c =>
              simp only at h ⊢
              cases hg : (newOutcomesAndConditions kordf nev O C).snd.get? c with
              | none => rw [hg] at h; exact h
              | some val =>
                rw [hg] at h
                simp only at h ⊢
                cases hx : exchangeStep cf (newOutcomesAndConditions kordf nev O C).fst c val
                    ((newOutcomesAndConditions kordf nev O C).snd.filter (fun p => p.1 ≠ c)) with
                | error err => rw [hx] at h; exact h
                | ok on =>
                  rw [hx] at h
                  cases on with
                  | none => exact h
                  | some no' =>
                    simp only at h ⊢
                    exact ih _ _ r h

theorem idcStarO_mono_le (fuel k : Nat) (O C : Event) (r : Except Err Expr)
    (h : idcStarO ordf dordf kordf G fuel O C = some r) : idcStarO ordf dordf kordf G (fuel + k) O C = some r := by
  induction k with
  | zero => exact h
  | succ k ih => exact idcStarO_mono ordf dordf kordf G (fuel + k) O C r ih

/-- **IDC\*'s line-4 recursion terminates** on every state that satisfies the invariant: some amount of fuel is enough -/
theorem idcStarO_terminates (hk : SubsetOrder kordf) (hord : PermOrder ordf) (hG : G.WF) (hdl : ∀ e ∈ G.di, e.1 ≠ e.2)
    (hbl : ∀ e ∈ G.bi, e.1 ≠ e.2) :
    ∀ (a f : Nat) (O C : Event), IdcInv G O C → nOutNames O ≤ a → (nOutNames O = a → freeConds O C ≤ f) →
      ∃ N, (idcStarO ordf dordf kordf G N O C).isSome = true := by
  intro a
  induction a using Nat.strong_induction_on with
  | _ a iha =>
    intro f
    induction f using Nat.strong_induction_on with
    | _ f ihf =>
      intro O C hinv ha hf
      rcases idcStarO_step ordf dordf kordf G hk hord hG hdl hbl O C hinv with hdone | ⟨O', C', hinv', hless, _, hrec⟩
      · exact ⟨1, hdone 0⟩
      · have hN : ∃ N, (idcStarO ordf dordf kordf G N O' C').isSome = true := by
          rcases hless with hlt | ⟨heq, hlt⟩
          · exact iha (nOutNames O') (Nat.lt_of_lt_of_le hlt ha) (freeConds O' C') O' C' hinv' (Nat.le_refl _)
              (fun _ => Nat.le_refl _)
          · rcases Nat.lt_or_ge (nOutNames O) a with hlt' | hge
            · exact iha (nOutNames O') (by omega) (freeConds O' C') O' C' hinv' (Nat.le_refl _) (fun _ => Nat.le_refl _)
            · have hOa : nOutNames O = a := Nat.le_antisymm ha hge
              have hf' := hf hOa
              exact ihf (freeConds O' C') (by omega) O' C' hinv' (by omega) (fun _ => Nat.le_refl _)
        obtain ⟨N, hN⟩ := hN
        exact ⟨N + 1, by rw [hrec N]; exact hN⟩

end Cf
end Y0
