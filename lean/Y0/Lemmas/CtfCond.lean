/-
  Y0.Lemmas.CtfCond — helper lemmas for Def. 4.2 in full (Y0/Props/C19.lean, section 4): connectivity in the link graph
  of each merge pass is the relational closure of Y0/Spec/CtfSpec.lean, and two sublists of `Iv.lt`-sorted subscript
  lists with the same members are the same list (so `==` of the Python frozensets is structural equality of the model).
-/
import Y0.Lemmas.CtfComponents
import Mathlib.Data.List.Sort

namespace Y0.Ctf
open Relation Y0.MG

/-! ### connectivity of the two passes -/

theorem conn_common_iff (sets : List (List Var)) (s t : List Var) :
    Conn sets shareBase s t ↔ OverlapClass sets s t := by
  constructor
  · intro h
    induction h with
    | refl => exact .refl
    | tail _ hbc ih =>
      refine ReflTransGen.tail ih ?_
      obtain ⟨hb, hc, hR⟩ := (biEdge_linkGraph sets shareBase _ _).1 hbc
      refine ⟨hb, hc, ?_⟩
      rcases hR with hR | hR
      · exact (shareBase_iff _ _).1 hR
      · obtain ⟨a, ha, b, hb', hab⟩ := (shareBase_iff _ _).1 hR
        exact ⟨b, hb', a, ha, hab.symm⟩
  · intro h
    induction h with
    | refl => exact .refl
    | tail _ hbc ih =>
      obtain ⟨hb, hc, hov⟩ := hbc
      exact ReflTransGen.tail ih ((biEdge_linkGraph sets shareBase _ _).2 ⟨hb, hc, Or.inl ((shareBase_iff _ _).2 hov)⟩)

theorem conn_bi_iff (g : MG Name) (sets : List (List Var)) (s t : List Var) :
    Conn sets (biLinked g) s t ↔ BiClass g sets s t := by
  constructor
  · intro h
    induction h with
    | refl => exact .refl
    | tail _ hbc ih =>
      obtain ⟨hb, hc, hR⟩ := (biEdge_linkGraph sets (biLinked g) _ _).1 hbc
      rcases hR with hR | hR
      · rcases (biLinked_iff g _ _).1 hR with heq | hadj
        · rw [← heq]; exact ih
        · exact ReflTransGen.tail ih ⟨hb, hc, hadj⟩
      · rcases (biLinked_iff g _ _).1 hR with heq | ⟨a, ha, b, hb', hab⟩
        · rw [heq]; exact ih
        · exact ReflTransGen.tail ih ⟨hb, hc, b, hb', a, ha, hab.symm⟩
  · intro h
    induction h with
    | refl => exact .refl
    | tail _ hbc ih =>
      obtain ⟨hb, hc, hadj⟩ := hbc
      exact ReflTransGen.tail ih
        ((biEdge_linkGraph sets (biLinked g) _ _).2 ⟨hb, hc, Or.inl ((biLinked_iff g _ _).2 (Or.inr hadj))⟩)

/-! ### sorted subscript lists -/

theorem ivLt_irrefl (a : Iv) : Iv.lt a a = false := by
  cases a with
  | mk n s => cases s <;> simp [Iv.lt]

theorem ivLt_asymm (a b : Iv) (h : Iv.lt a b = true) : Iv.lt b a = false := by
  cases a with
  | mk n s =>
    cases b with
    | mk m t =>
      rcases Nat.lt_trichotomy n m with hlt | heq | hgt
      · have h1 : ¬ m < n := fun h2 => absurd (Nat.lt_trans hlt h2) (Nat.lt_irrefl n)
        have h2 : m ≠ n := fun h3 => by rw [h3] at hlt; exact absurd hlt (Nat.lt_irrefl n)
        simp [Iv.lt, h1, h2]
      · subst heq
        cases s <;> cases t <;> simp [Iv.lt] at h ⊢
      · have h1 : ¬ n < m := fun h2 => absurd (Nat.lt_trans hgt h2) (Nat.lt_irrefl m)
        have h2 : n ≠ m := fun h3 => by rw [h3] at hgt; exact absurd hgt (Nat.lt_irrefl m)
        simp [Iv.lt, h1, h2] at h

/-- two `Iv.lt`-sorted lists with the same members are equal -/
theorem sorted_ivs_ext (l₁ l₂ : List Iv) (h₁ : l₁.Pairwise (fun a b => Iv.lt a b = true))
    (h₂ : l₂.Pairwise (fun a b => Iv.lt a b = true)) (h : ∀ i, i ∈ l₁ ↔ i ∈ l₂) : l₁ = l₂ := by
  have : Std.Irrefl (fun a b : Iv => Iv.lt a b = true) := ⟨fun a h => by rw [ivLt_irrefl] at h; cases h⟩
  have : Std.Antisymm (fun a b : Iv => Iv.lt a b = true) :=
    ⟨fun a b hab hba => by rw [ivLt_asymm a b hab] at hba; cases hba⟩
  exact List.Pairwise.eq_of_mem_iff h₁ h₂ h

end Y0.Ctf
