/-
  Y0.Lemmas.PrintDenEval — evaluating the operator tree of ANY built expression (fractions of fractions, fraction
  factors, constants) with the DSL operators succeeds and yields an object with the same denotation.
-/
import Y0.Lemmas.PrintDen
import Y0.Lemmas.PrintEvalExpr
import Y0.Lemmas.Prob

namespace Y0
namespace PyEval
open Print

variable (lt : Expr → Expr → Bool)

/-- same denotation in every family of distributions, at every assignment -/
def DenEq (a b : Expr) : Prop := ∀ (env : Env) (σ' σ : Y0.Val), den env σ' a σ = den env σ' b σ

theorem DenEq.rfl' (a : Expr) : DenEq a a := fun _ _ _ => rfl

/-- a `Zero()`-free built expression: everything built except `Zero()` itself -/
theorem nz_of_built : ∀ e, built lt e = true → isZero e = false → nz e = true := by
  apply Expr.ind
  · intro _ _ _ _ _; rfl
  · intro fs ih hb _
    simp only [built, Bool.and_eq_true] at hb
    have hB := (builtFactors_iff lt fs).mp hb.1.2
    simp only [nz]
    rw [nzAll_iff]
    intro f hf
    exact ih f hf (hB f hf).1 (hB f hf).2.2.2
  · intro e rs ih hb _
    simp only [built, Bool.and_eq_true, Bool.not_eq_true'] at hb
    simpa [nz] using ih hb.1.2 hb.2
  · intro n d ihn ihd hb _
    simp only [built, Bool.and_eq_true, Bool.not_eq_true'] at hb
    simp [nz, ihn hb.1.1.1 hb.2, ihd hb.1.1.2 hb.1.2]
  · intro _ _; rfl
  · intro _ h; simp [isZero] at h
  · intro _ _ _ _; rfl

theorem eval_mulFold_den : ∀ (gs : List Expr) (accA : Ast) (accE : Expr), eval lt accA = .ok (.expr accE) →
    nz accE = true →
    (∀ g ∈ gs, ∃ g', eval lt (astOf g) = .ok (.expr g') ∧ nz g' = true ∧ DenEq g' g) →
    ∃ r, eval lt (gs.foldl (fun a g => .bin .mul a (astOf g)) accA) = .ok (.expr r) ∧ nz r = true ∧
      ∀ (env : Env) (σ' σ : Y0.Val), den env σ' r σ = den env σ' accE σ * denProd env σ' gs σ
  | [], accA, accE, h, hz, _ => ⟨accE, by simpa using h, hz, fun env σ' σ => by simp [denProd]⟩
  | g :: gs, accA, accE, h, hz, hg => by
    obtain ⟨g', hg', hgz, hgd⟩ := hg g (by simp)
    obtain ⟨c, hc, hcz, hcd⟩ := mul_ok lt accE hz g' hgz
    have hstep : eval lt (.bin .mul accA (astOf g)) = .ok (.expr c) := by
      simp only [eval, h, hg', bind, Except.bind, binop, hc]
      rfl
    obtain ⟨r, hr, hrz, hrd⟩ := eval_mulFold_den gs _ c hstep hcz (fun x hx => hg x (by simp [hx]))
    refine ⟨r, by simpa using hr, hrz, ?_⟩
    intro env σ' σ
    rw [hrd, hcd]
    simp only [hgd env σ' σ, denProd]
    ring

/-- **meaning is preserved**: evaluating the operator tree of a built, `Zero()`-free expression with the DSL operators
succeeds, and the object obtained denotes the same quantity -/
theorem eval_astOf_den : ∀ e, built lt e = true → nz e = true →
    ∃ e', eval lt (astOf e) = .ok (.expr e') ∧ nz e' = true ∧ DenEq e' e := by
  apply Expr.ind
  · intro pop c p hb hz
    exact ⟨_, eval_prob_step lt pop c p hb, hz, DenEq.rfl' _⟩
  · -- Product
    intro fs ih hb hz
    simp only [built, Bool.and_eq_true, decide_eq_true_eq] at hb
    obtain ⟨⟨hlen, hbf⟩, _⟩ := hb
    have hB := (builtFactors_iff lt fs).mp hbf
    have hZ := nz_factors hz
    match fs, hlen with
    | f :: gs, _ =>
      obtain ⟨f', hf', hfz, hfd⟩ := ih f (by simp) (hB f (by simp)).1 (hZ f (by simp))
      obtain ⟨r, hr, hrz, hrd⟩ := eval_mulFold_den lt gs (astOf f) f' hf' hfz
        (fun g hg => ih g (by simp [hg]) (hB g (by simp [hg])).1 (hZ g (by simp [hg])))
      refine ⟨r, ?_, hrz, ?_⟩
      · simpa [astOf, astOfs, mulChain, astOfs_eq_map, List.foldl_map] using hr
      · intro env σ' σ
        rw [hrd, hfd]
        simp [den, denProd]
  · -- Sum
    intro e rs ih hb hz
    simp only [built, Bool.and_eq_true, Bool.not_eq_true'] at hb
    obtain ⟨⟨⟨⟨hne, hinc⟩, hplain⟩, hbe⟩, _⟩ := hb
    simp only [nz] at hz
    obtain ⟨e', he', hez, hed⟩ := ih hbe hz
    refine ⟨.sum e' rs, eval_sum_step lt e e' rs hne hinc hplain he' (not_isZero_of_nz hez), by simpa [nz] using hez, ?_⟩
    intro env σ' σ
    simp only [den]
    exact sumVars_congr _ _ (fun τ => hed env σ' τ) σ
  · -- Fraction
    intro n d ihn ihd hb hz
    simp only [built, Bool.and_eq_true] at hb
    simp only [nz, Bool.and_eq_true] at hz
    obtain ⟨n', hn', hnz, hnd⟩ := ihn hb.1.1.1 hz.1
    obtain ⟨d', hd', hdz, hdd⟩ := ihd hb.1.1.2 hz.2
    obtain ⟨c, hc, hcz, hcd⟩ := div_ok lt n' d' hnz hdz
    refine ⟨c, ?_, hcz, ?_⟩
    · rw [eval_frac_step lt n d n' d' hn' hd', hc]
    · intro env σ' σ
      rw [hcd]
      simp only [hnd env σ' σ, hdd env σ' σ, den]
  · intro _ _; exact ⟨.one, rfl, rfl, DenEq.rfl' _⟩
  · intro _ hz; simp [nz] at hz
  · intro dom cod hb hz
    exact ⟨_, eval_q_step lt dom cod hb, hz, DenEq.rfl' _⟩

end PyEval
end Y0
