/-
  Y0.Lemmas.SepEnum — list facts behind C15: `combinations` / `powerset` enumerate exactly the sub-lists within the
  size bounds, in order of increasing size; the first-hit search; `pairs` of a duplicate-free vertex list; the pure
  form of `dSeparationsWith`.
-/
import Y0.Lemmas.SepModel
import Y0.Lemmas.SepSort
import Mathlib.Data.List.Sublists
import Mathlib.Data.List.Range

namespace Y0
open List

/-! ### `combinations`, `powerset` -/

theorem mem_combinations {α : Type} (l : List α) (r : Nat) (c : List α) :
    c ∈ combinations l r ↔ c <+ l ∧ c.length = r := by
  induction l generalizing r c with
  | nil =>
    cases r with
    | zero => simp [combinations]
    | succ k =>
      simp only [combinations, List.not_mem_nil, List.sublist_nil, false_iff, not_and]
      rintro rfl; simp
  | cons x xs ih =>
    cases r with
    | zero =>
      simp only [combinations, List.mem_singleton]
      constructor
      · rintro rfl; simp
      · rintro ⟨_, h⟩; exact List.length_eq_zero_iff.1 h
    | succ k =>
      simp only [combinations, List.mem_append, List.mem_map, ih, List.sublist_cons_iff]
      constructor
      · rintro (⟨c', ⟨hs, hl⟩, rfl⟩ | ⟨hs, hl⟩)
        · exact ⟨Or.inr ⟨c', rfl, hs⟩, by simp [hl]⟩
        · exact ⟨Or.inl hs, hl⟩
      · rintro ⟨hs | ⟨r, rfl, hs⟩, hl⟩
        · exact Or.inr ⟨hs, hl⟩
        · exact Or.inl ⟨r, ⟨hs, by simpa using hl⟩, rfl⟩

/-- the exclusive upper bound on sizes that `powerset s 0 stop` uses -/
def stopBound {α : Type} (s : List α) (stop : Option Nat) : Nat :=
  match stop with
  | none => s.length + 1
  | some k => k

theorem mem_powerset {α : Type} (s : List α) (stop : Option Nat) (c : List α) :
    c ∈ powerset s 0 stop ↔ c <+ s ∧ c.length < stopBound s stop := by
  have : powerset s 0 stop = (List.range' 0 (stopBound s stop)).flatMap (combinations s) := by
    unfold powerset stopBound; cases stop <;> simp
  rw [this]
  simp only [List.mem_flatMap, List.mem_range'_1, mem_combinations, Nat.zero_le, Nat.zero_add, true_and]
  constructor
  · rintro ⟨r, hr, hs, hl⟩; exact ⟨hs, hl ▸ hr⟩
  · rintro ⟨hs, hl⟩; exact ⟨c.length, hl, hs, rfl⟩

/-- `powerset` yields its sets in order of non-decreasing size -/
theorem powerset_sorted {α : Type} (s : List α) (stop : Option Nat) :
    (powerset s 0 stop).Pairwise (fun x y => x.length ≤ y.length) := by
  have : powerset s 0 stop = (List.range' 0 (stopBound s stop)).flatMap (combinations s) := by
    unfold powerset stopBound; cases stop <;> simp
  rw [this, List.pairwise_flatMap]
  constructor
  · intro r _
    apply List.pairwise_of_forall_mem_list
    intro x hx y hy
    rw [mem_combinations] at hx hy
    omega
  · apply (List.pairwise_lt_range' (s := 0) (n := stopBound s stop)).imp
    intro r₁ r₂ hlt x hx y hy
    rw [mem_combinations] at hx hy
    omega

/-! ### the inner search of `d_separations` -/

/-- pure form of `sepHits`: every hit, or only the first -/
def pureHits (t : List Nat → Bool) (returnAll : Bool) (cands : List (List Nat)) : List (List Nat) :=
  if returnAll then cands.filter t else (cands.find? t).toList

theorem sepHits_ok (test : List Nat → Except Err Bool) (t : List Nat → Bool) (returnAll : Bool)
    (cands : List (List Nat)) (h : ∀ c ∈ cands, test c = .ok (t c)) :
    sepHits test returnAll cands = .ok (pureHits t returnAll cands) := by
  induction cands with
  | nil => cases returnAll <;> simp [sepHits, pureHits]
  | cons c cs ih =>
    have hc := h c (by simp)
    have ih' := ih (fun x hx => h x (by simp [hx]))
    cases returnAll <;> cases htc : t c <;>
      simp_all [sepHits, pureHits, bind, Except.bind, pure, Except.pure, List.find?_cons, List.filter_cons]

theorem mem_pureHits {t : List Nat → Bool} {returnAll : Bool} {cands : List (List Nat)} {c : List Nat}
    (h : c ∈ pureHits t returnAll cands) : c ∈ cands ∧ t c = true := by
  unfold pureHits at h
  cases returnAll with
  | true => simpa using h
  | false =>
    simp only [Bool.false_eq_true, if_false, Option.mem_toList] at h
    exact ⟨List.mem_of_find?_eq_some h, List.find?_some h⟩

/-- some hit is reported whenever one exists -/
theorem pureHits_ne_nil {t : List Nat → Bool} (returnAll : Bool) {cands : List (List Nat)} {c : List Nat}
    (hc : c ∈ cands) (ht : t c = true) : ∃ c', c' ∈ pureHits t returnAll cands := by
  unfold pureHits
  cases returnAll with
  | true => exact ⟨c, by simp [hc, ht]⟩
  | false =>
    cases hf : cands.find? t with
    | none => exact absurd ht (List.find?_eq_none.1 hf c hc)
    | some c' => exact ⟨c', by simp⟩

/-- in a candidate list sorted by size, some reported hit is no larger than any given hit -/
theorem pureHits_min {t : List Nat → Bool} (returnAll : Bool) {cands : List (List Nat)}
    (hs : cands.Pairwise (fun x y => x.length ≤ y.length)) {c : List Nat} (hc : c ∈ cands) (ht : t c = true) :
    ∃ c', c' ∈ pureHits t returnAll cands ∧ c'.length ≤ c.length := by
  unfold pureHits
  cases returnAll with
  | true => exact ⟨c, by simp [hc, ht], Nat.le_refl _⟩
  | false =>
    cases hf : cands.find? t with
    | none => exact absurd ht (List.find?_eq_none.1 hf c hc)
    | some c' =>
      refine ⟨c', by simp, ?_⟩
      obtain ⟨_, as, bs, rfl, has⟩ := List.find?_eq_some_iff_append.1 hf
      rw [List.pairwise_append] at hs
      rcases List.mem_append.1 hc with h | h
      · have := has c h; simp [ht] at this
      · rcases List.mem_cons.1 h with rfl | h
        · exact Nat.le_refl _
        · exact (List.pairwise_cons.1 hs.2.1).1 c h

/-! ### `pairs` of a duplicate-free list -/

theorem pairs_ne {V : List Nat} (hV : V.Nodup) {x y : Nat} (h : (x, y) ∈ MG.pairs V) : x ≠ y := by
  induction V with
  | nil => simp [MG.pairs] at h
  | cons z zs ih =>
    rw [List.nodup_cons] at hV
    simp only [MG.pairs, List.mem_append, List.mem_map, Prod.mk.injEq] at h
    rcases h with ⟨w, hw, rfl, rfl⟩ | h
    · rintro rfl; exact hV.1 hw
    · exact ih hV.2 h

theorem pairs_no_swap {V : List Nat} (hV : V.Nodup) {x y : Nat} (h : (x, y) ∈ MG.pairs V) :
    (y, x) ∉ MG.pairs V := by
  induction V with
  | nil => simp [MG.pairs] at h
  | cons z zs ih =>
    rw [List.nodup_cons] at hV
    simp only [MG.pairs, List.mem_append, List.mem_map, Prod.mk.injEq] at h ⊢
    rintro (⟨w', hw', rfl, rfl⟩ | h')
    · rcases h with ⟨w, hw, rfl, rfl⟩ | h
      · exact hV.1 hw
      · exact hV.1 (MG.mem_pairs_sub h).2
    · rcases h with ⟨w, hw, rfl, rfl⟩ | h
      · exact hV.1 (MG.mem_pairs_sub h').2
      · exact ih hV.2 h h'

/-! ### pure form of `dSeparationsWith` -/

def restOf (V : List Nat) (p : Nat × Nat) : List Nat := V.filter (fun v => v ≠ p.1 ∧ v ≠ p.2)

def stopOf (maxC : Option Nat) : Option Nat :=
  match maxC with
  | none => none
  | some k => some (k + 1)

def hitsOf (s : Nat → Nat → List Nat → Bool) (V : List Nat) (maxC : Option Nat) (returnAll : Bool)
    (p : Nat × Nat) : List (List Nat) :=
  pureHits (s p.1 p.2) returnAll (powerset (restOf V p) 0 (stopOf maxC))

def pureSeps (s : Nat → Nat → List Nat → Bool) (V : List Nat) (maxC : Option Nat) (returnAll : Bool) :
    List Judgement :=
  (MG.pairs V).flatMap (fun p => (hitsOf s V maxC returnAll p).map (fun c => Judgement.create p.1 p.2 c true))

/-- the queries `d_separations` makes: two different vertices, conditions among the other vertices -/
def QueryOn (V : List Nat) (a b : Nat) (C : List Nat) : Prop :=
  a ∈ V ∧ b ∈ V ∧ a ≠ b ∧ ∀ c ∈ C, c ∈ V ∧ c ≠ a ∧ c ≠ b

theorem mem_restOf {V : List Nat} {p : Nat × Nat} {v : Nat} : v ∈ restOf V p ↔ v ∈ V ∧ v ≠ p.1 ∧ v ≠ p.2 := by
  simp [restOf]

theorem queryOn_of_powerset {V : List Nat} (hV : V.Nodup) {p : Nat × Nat} (hp : p ∈ MG.pairs V)
    {stop : Option Nat} {c : List Nat} (hc : c ∈ powerset (restOf V p) 0 stop) : QueryOn V p.1 p.2 c := by
  have hp' : (p.1, p.2) ∈ MG.pairs V := hp
  refine ⟨(MG.mem_pairs_sub hp').1, (MG.mem_pairs_sub hp').2, pairs_ne hV hp', fun x hx => ?_⟩
  exact mem_restOf.1 (((mem_powerset _ _ _).1 hc).1.subset hx)

theorem bind_mapM_flatten {α β : Type} (f : α → Except Err (List β)) (g : α → List β) (l : List α)
    (h : ∀ x ∈ l, f x = .ok (g x)) :
    (do let per ← l.mapM f; pure per.flatten : Except Err (List β)) = .ok (l.flatMap g) := by
  simp [mapM_ok_of_forall f g l h, bind, Except.bind, pure, Except.pure, List.flatMap_def]

theorem dSeparationsWith_ok (sep : Nat → Nat → List Nat → Except Err Bool) (s : Nat → Nat → List Nat → Bool)
    (V : List Nat) (hV : V.Nodup) (maxC : Option Nat) (returnAll : Bool)
    (hsep : ∀ a b C, QueryOn V a b C → sep a b C = .ok (s a b C)) :
    dSeparationsWith sep V maxC returnAll = .ok (pureSeps s V maxC returnAll) := by
  unfold dSeparationsWith pureSeps
  apply bind_mapM_flatten
  intro p hp
  have := sepHits_ok (sep p.1 p.2) (s p.1 p.2) returnAll (powerset (restOf V p) 0 (stopOf maxC))
    (fun c hc => hsep _ _ _ (queryOn_of_powerset hV hp hc))
  simp only [restOf, stopOf, hitsOf] at this ⊢
  simp only [bind, Except.bind, pure, Except.pure]
  generalize hx : sepHits _ _ _ = r
  have hr : r = .ok _ := hx.symm.trans this
  subst hr
  rfl

end Y0
