/-
  Y0.Lemmas.CtfTrAlg3Q — two invariants of the expressions that Tian's IDENTIFY (Y0.Model.Tian) builds from a domain's
  distribution, in inversion form (whenever a routine returns an expression …):
    * `IsQExpr`: the expression is a Probability, Sum, Product or Fraction — in particular never `Zero()`;
    * `Voc`: it mentions only variables of the given distribution and plain graph vertices from an allowed set.
  Used to discharge the hypothesis `QGood` of the totality theorem of Algorithm 3 (third final check, and the
  `Fraction` constructor of line 4).
-/
import Y0.Lemmas.TianTotal
import Y0.Model.Dsl

namespace Y0
namespace TianVoc
open Tian TianDen TianSpec TianGraph TianLemma1 TianIdentify TianTotal MG

/-! ### the vocabulary predicate -/

/-- an allowed variable: a variable of the distribution `pop0`, or a plain vertex from `N` -/
def VocP (pop0 : Expr) (N : List Name) (v : Var) : Prop := v ∈ Expr.iterVars pop0 ∨ ∃ n ∈ N, v = Var.plain n

def Voc (pop0 : Expr) (N : List Name) (e : Expr) : Prop := ∀ v ∈ Expr.iterVars e, VocP pop0 N v

/-- a list of (possibly counterfactual) variables all of whose constituents are allowed -/
def VarsOK (pop0 : Expr) (N : List Name) (L : List Var) : Prop := ∀ x ∈ L, ∀ v ∈ Var.iterVars x, VocP pop0 N v

variable {pop0 : Expr} {N : List Name}

theorem iterVars_prob (p : Option Var) (c pa : List Var) :
    Expr.iterVars (.prob p c pa) = (c ++ pa).flatMap Var.iterVars := by simp only [Expr.iterVars]

theorem voc_prob {p : Option Var} {c pa : List Var} : Voc pop0 N (.prob p c pa) ↔ VarsOK pop0 N c ∧ VarsOK pop0 N pa := by
  unfold Voc VarsOK
  rw [iterVars_prob]
  simp only [List.mem_flatMap, List.mem_append]
  constructor
  · intro h
    exact ⟨fun x hx v hv => h v ⟨x, Or.inl hx, hv⟩, fun x hx v hv => h v ⟨x, Or.inr hx, hv⟩⟩
  · rintro ⟨h1, h2⟩ v ⟨x, hx | hx, hv⟩
    · exact h1 x hx v hv
    · exact h2 x hx v hv

theorem varsOK_of_subset {L L' : List Var} (h : VarsOK pop0 N L) (hs : ∀ x ∈ L', x ∈ L) : VarsOK pop0 N L' :=
  fun x hx => h x (hs x hx)

theorem varsOK_append {L L' : List Var} (h : VarsOK pop0 N L) (h' : VarsOK pop0 N L') : VarsOK pop0 N (L ++ L') := by
  intro x hx
  rcases List.mem_append.1 hx with hx | hx
  · exact h x hx
  · exact h' x hx

theorem vocP_plain {n : Name} (hn : n ∈ N) : ∀ v ∈ Var.iterVars (Var.plain n), VocP pop0 N v := by
  intro v hv
  simp only [Var.iterVars, Var.plain, List.map_nil, List.mem_singleton] at hv
  subst hv
  exact Or.inr ⟨n, hn, rfl⟩

theorem varsOK_vars {ns : List Name} (h : ∀ n ∈ ns, n ∈ N) : VarsOK pop0 N (vars ns) := by
  intro x hx
  obtain ⟨n, hn, rfl⟩ := List.mem_map.1 hx
  exact vocP_plain (h n hn)

/-- the ranges of a sum are plain variables -/
theorem voc_ranges {ns : List Name} (h : ∀ n ∈ ns, n ∈ N) : ∀ v ∈ vars ns, VocP pop0 N v := by
  intro v hv
  obtain ⟨n, hn, rfl⟩ := List.mem_map.1 hv
  exact Or.inr ⟨n, h n hn, rfl⟩

theorem iterVars_sum' (e : Expr) (r : List Var) : Expr.iterVars (.sum e r) = Expr.iterVars e ++ r := by
  simp only [Expr.iterVars]

theorem iterVars_frac' (n d : Expr) : Expr.iterVars (.frac n d) = Expr.iterVars n ++ Expr.iterVars d := by
  simp only [Expr.iterVars]

theorem mem_iterVarsList (fs : List Expr) (v : Var) : v ∈ Expr.iterVarsList fs ↔ ∃ f ∈ fs, v ∈ Expr.iterVars f := by
  induction fs with
  | nil => simp [Expr.iterVarsList]
  | cons f fs ih =>
    simp only [Expr.iterVarsList, List.mem_append, ih, List.mem_cons]
    constructor
    · rintro (h | ⟨g, hg, hv⟩)
      · exact ⟨f, Or.inl rfl, h⟩
      · exact ⟨g, Or.inr hg, hv⟩
    · rintro ⟨g, rfl | hg, hv⟩
      · exact Or.inl hv
      · exact Or.inr ⟨g, hg, hv⟩

theorem iterVars_prod (fs : List Expr) : Expr.iterVars (.prod fs) = Expr.iterVarsList fs := by
  simp only [Expr.iterVars]

theorem voc_one : Voc pop0 N .one := by intro v hv; simp [Expr.iterVars] at hv
theorem voc_zero : Voc pop0 N .zero := by intro v hv; simp [Expr.iterVars] at hv

/-! ### the constructors -/

theorem voc_sumSafe {q e : Expr} {ns : List Name} (hq : Voc pop0 N q) (hns : ∀ n ∈ ns, n ∈ N)
    (h : TianDsl.sumSafe q (vars ns) = .ok e) : Voc pop0 N e := by
  unfold TianDsl.sumSafe at h
  simp only at h
  split at h
  · cases h; exact hq
  · split at h
    · cases h; exact hq
    · split at h
      · cases h
      · cases h
        intro v hv
        rw [iterVars_sum', List.mem_append] at hv
        rcases hv with hv | hv
        · exact hq v hv
        · exact voc_ranges hns v ((mem_upgradeOrdering _ _).1 hv)

theorem voc_mkFraction {n d e : Expr} (hn : Voc pop0 N n) (hd : Voc pop0 N d) (h : TianDsl.mkFraction n d = .ok e) :
    Voc pop0 N e := by
  unfold TianDsl.mkFraction at h
  split at h
  · cases h
  · cases h
    intro v hv
    rw [iterVars_frac', List.mem_append] at hv
    rcases hv with hv | hv
    · exact hn v hv
    · exact hd v hv

theorem voc_productSafe {fs : List Expr} (h : ∀ f ∈ fs, Voc pop0 N f) : Voc pop0 N (TianDsl.productSafe fs) := by
  unfold TianDsl.productSafe
  simp only
  split
  · exact voc_zero
  · have hfilt : ∀ f ∈ fs.filter (fun e => !TianDsl.isOne e), Voc pop0 N f := fun f hf => h f (List.mem_filter.1 hf).1
    split
    · exact voc_one
    · rename_i e he
      exact hfilt e (by rw [he]; simp)
    · intro v hv
      rw [iterVars_prod, mem_iterVarsList] at hv
      obtain ⟨f, hf, hvf⟩ := hv
      exact hfilt f ((sortStable_perm _ _).mem_iff.1 hf) v hvf

theorem voc_mkProb {pop : Option Var} {d : TianDsl.Dist} {e : Expr} (hc : VarsOK pop0 N d.children) (hp : VarsOK pop0 N d.parents)
    (h : TianDsl.mkProb pop d = .ok e) : Voc pop0 N e := by
  unfold TianDsl.mkProb at h
  cases pop with
  | some p =>
    simp only [pure, Except.pure, Except.ok.injEq] at h
    subst h
    exact voc_prob.2 ⟨hc, hp⟩
  | none =>
    simp only [TianDsl.Dist.check, bind, Except.bind] at h
    split at h
    · cases h
    · rename_i v heq
      split at heq
      · cases heq
      · cases heq
        simp only [pure, Except.pure, Except.ok.injEq] at h
        subst h
        exact voc_prob.2 ⟨varsOK_of_subset hc (fun x hx => (mem_sortedVariables _ _).1 hx),
          varsOK_of_subset hp (fun x hx => (mem_sortedVariables _ _).1 hx)⟩

/-! ### Lemma 4 -/

theorem voc_lowIndex {q e : Expr} {v : Name} {topo : List Name} (hq : Voc pop0 N q) (ht : ∀ n ∈ topo, n ∈ N)
    (h : lowIndex (some v) q topo = .ok e) : Voc pop0 N e := by
  simp only [lowIndex] at h
  split at h
  · cases h
  · cases hj : indexOf topo v with
    | error err => rw [hj] at h; simp [bind, Except.bind] at h
    | ok j =>
      rw [hj] at h
      exact voc_sumSafe hq (fun n hn => ht n (List.mem_of_mem_drop hn)) h

theorem voc_lemma4One {q e : Expr} {v : Name} {topo : List Name} (hq : Voc pop0 N q) (ht : ∀ n ∈ topo, n ∈ N)
    (h : lemma4One q topo v = .ok e) : Voc pop0 N e := by
  unfold lemma4One at h
  cases hi : indexOf topo v with
  | error err => rw [hi] at h; simp [bind, Except.bind] at h
  | ok i =>
    rw [hi] at h
    simp only [bind, Except.bind] at h
    unfold lemma4Factor at h
    cases hc : lowIndex (some v) q topo with
    | error err => rw [hc] at h; simp [bind, Except.bind] at h
    | ok cur =>
      rw [hc] at h
      simp only [bind, Except.bind] at h
      split at h
      · simp only [pure, Except.pure] at h; cases h; exact voc_lowIndex hq ht hc
      · split at h
        · cases h
        · rename_i u _
          cases hp : lowIndex (some u) q topo with
          | error err => rw [hp] at h; simp at h
          | ok prev =>
            rw [hp] at h
            simp only at h
            exact voc_mkFraction (voc_lowIndex hq ht hc) (voc_lowIndex hq ht hp) h

theorem voc_lemma4 {q e : Expr} {D topo : List Name} (hq : Voc pop0 N q) (ht : ∀ n ∈ topo, n ∈ N)
    (h : lemma4 D q topo = .ok e) : Voc pop0 N e := by
  unfold lemma4 at h
  cases hm : D.mapM (lemma4One q topo) with
  | error err => rw [hm] at h; simp [bind, Except.bind] at h
  | ok fs =>
    rw [hm] at h
    simp only [bind, Except.bind, pure, Except.pure] at h
    cases h
    have hall := mapM_ok_forall₂ _ _ _ hm
    apply voc_productSafe
    intro f hf
    obtain ⟨v, _, hvf⟩ := forall₂_exists_left hall f hf
    exact voc_lemma4One hq ht hvf

/-! ### Lemma 1 -/

theorem inWorld_cases (ch : List Var) (v : Name) : inWorld (world ch) v ∈ ch ∨ inWorld (world ch) v = Var.plain v := by
  unfold inWorld
  split
  · rename_i p hf
    left
    have hm := List.mem_reverse.1 (List.mem_of_find?_eq_some hf)
    unfold world at hm
    obtain ⟨c, hc, rfl⟩ := List.mem_map.1 hm
    exact hc
  · right; rfl

theorem varsOK_inWorld {ch : List Var} {ns : List Name} (hch : VarsOK pop0 N ch) (hns : ∀ n ∈ ns, n ∈ N) :
    VarsOK pop0 N (ns.map (inWorld (world ch))) := by
  intro x hx
  obtain ⟨n, hn, rfl⟩ := List.mem_map.1 hx
  rcases inWorld_cases ch n with h | h
  · exact hch _ h
  · rw [h]; exact vocP_plain (hns n hn)

theorem mem_of_indexOf {topo : List Name} {v : Name} {i : Nat} (h : indexOf topo v = .ok i) : v ∈ topo := by
  obtain ⟨p, s, rfl, _, _⟩ := indexOf_split h
  simp

theorem voc_lemma1Factor {pop : Option Var} {ch pa : List Var} {topo : List Name} {v : Name} {e : Expr}
    (hch : VarsOK pop0 N ch) (hpa : VarsOK pop0 N pa) (ht : ∀ n ∈ topo, n ∈ N)
    (h : lemma1Factor pop (world ch) pa topo v = .ok e) : Voc pop0 N e := by
  unfold lemma1Factor at h
  cases hi : indexOf topo v with
  | error err => rw [hi] at h; simp [bind, Except.bind] at h
  | ok i =>
    rw [hi] at h
    simp only [bind, Except.bind] at h
    have hv : v ∈ N := ht v (mem_of_indexOf hi)
    have hself : VarsOK pop0 N [inWorld (world ch) v] := by
      have := varsOK_inWorld (ns := [v]) hch (fun n hn => by simp at hn; subst hn; exact hv)
      simpa using this
    have hcond : VarsOK pop0 N (dedup' (pa ++ (topo.take i).map (inWorld (world ch)))) := by
      apply varsOK_of_subset (varsOK_append hpa (varsOK_inWorld hch (fun n hn => ht n (List.mem_of_mem_take hn))))
      intro x hx
      exact mem_dedup'.1 hx
    cases pop with
    | some p =>
      simp only at h
      exact voc_mkProb (d := { children := [inWorld (world ch) v], parents := _ }) hself
        (varsOK_of_subset hcond (fun x hx => (mem_upgradeOrdering _ _).1 hx)) h
    | none =>
      simp only [TianDsl.Dist.ofGiven, TianDsl.Dist.check, List.isEmpty_cons, Bool.false_eq_true, ↓reduceIte] at h
      exact voc_mkProb (d := { children := [inWorld (world ch) v], parents := _ }) hself
        (varsOK_of_subset hcond (fun x hx => (mem_upgradeOrdering _ _).1 hx)) h

theorem voc_lemma1 {pop : Option Var} {ch pa : List Var} {D topo : List Name} {e : Expr}
    (hq : Voc pop0 N (.prob pop ch pa)) (ht : ∀ n ∈ topo, n ∈ N)
    (h : lemma1 D (.prob pop ch pa) topo = .ok e) : Voc pop0 N e := by
  obtain ⟨hch, hpa⟩ := voc_prob.1 hq
  unfold lemma1 at h
  split at h
  · cases h
  · split at h
    · cases h
    · simp only [bind, Except.bind] at h
      cases hm : D.mapM (lemma1Factor pop (world ch) pa topo) with
      | error err => rw [hm] at h; cases h
      | ok fs =>
        rw [hm] at h
        simp only [pure, Except.pure, Except.ok.injEq] at h
        subst h
        have hall := mapM_ok_forall₂ _ _ _ hm
        apply voc_productSafe
        intro f hf
        obtain ⟨v, _, hvf⟩ := forall₂_exists_left hall f hf
        exact voc_lemma1Factor hch hpa ht hvf

/-- inversion form of `lemma1_ok` -/
theorem lemma1_qexpr {pop : Option Var} {ch pa : List Var} {D topo : List Name} {e : Expr}
    (h : lemma1 D (.prob pop ch pa) topo = .ok e) : IsQExpr e := by
  have hD : D ≠ [] := by
    intro h0; subst h0; simp [lemma1] at h
  have hsub : ∀ v ∈ D, v ∈ topo := by
    intro v hv
    by_contra hnot
    unfold lemma1 at h
    split at h
    · cases h
    · rename_i h1
      have : (D.any fun x => decide (x ∉ topo)) = true := List.any_eq_true.2 ⟨v, hv, by simpa using hnot⟩
      simp only [this, ↓reduceIte] at h
      cases h
  obtain ⟨e', he', hq⟩ := lemma1_ok (pop := pop) (ch := ch) (pa := pa) hD hsub
  rw [he'] at h
  cases h
  exact hq

/-! ### compute_c_factor -/

theorem computeCFactor_good {q e : Expr} {D H topo : List Name} (hqq : IsQExpr q) (hq : Voc pop0 N q)
    (hD : isFracProdSum q = true → D ≠ [])
    (ht : ∀ n ∈ topo, n ∈ H → n ∈ N) (h : computeCFactor D H q topo = .ok e) : IsQExpr e ∧ Voc pop0 N e := by
  have ht' : ∀ n ∈ topo.filter (· ∈ H), n ∈ N := by
    intro n hn
    obtain ⟨h1, h2⟩ := List.mem_filter.1 hn
    exact ht n h1 (by simpa using h2)
  unfold computeCFactor at h
  simp only at h
  split at h
  · rename_i hfps
    exact ⟨lemma4_qexpr (hD hfps) hfps h, voc_lemma4 hq ht' h⟩
  · split at h
    · cases h
    · rename_i hfps hp
      cases q with
      | prob pop ch pa => exact ⟨lemma1_qexpr h, voc_lemma1 hq ht' h⟩
      | _ => simp [isProb] at hp

/-! ### Lemma 3 and the marginal of a probability -/

def Good (pop0 : Expr) (N : List Name) (e : Expr) : Prop := IsQExpr e ∧ Voc pop0 N e

theorem sumSafe_qexpr {q e : Expr} {rs : List Var} (hq : IsQExpr q) (h : TianDsl.sumSafe q rs = .ok e) : IsQExpr e := by
  unfold TianDsl.sumSafe at h
  simp only at h
  split at h
  · cases h; exact hq
  · split at h
    · cases h; exact hq
    · split at h
      · cases h
      · cases h; exact Or.inl rfl

theorem ancestralQ_good {q e : Expr} {A T topo : List Name} (hq : Good pop0 N q) (hT : ∀ t ∈ T, t ∈ N)
    (h : ancestralQ A T q topo = .ok e) : Good pop0 N e := by
  unfold ancestralQ at h
  refine ⟨sumSafe_qexpr hq.1 h, voc_sumSafe hq.2 ?_ h⟩
  intro n hn
  have := (List.mem_filter.1 hn).2
  simp only [decide_eq_true_eq] at this
  exact hT n this.1

theorem ancestralProb_good {pop : Option Var} {ch pa : List Var} {oA : List Name} {e : Expr}
    (hch : VarsOK pop0 N ch) (hpa : VarsOK pop0 N pa) (hoA : ∀ n ∈ oA, n ∈ N)
    (h : ancestralProb pop ch pa oA = .ok e) : Good pop0 N e := by
  have hne : oA ≠ [] := by
    intro h0; subst h0; simp [ancestralProb] at h
  constructor
  · obtain ⟨e', he', hp⟩ := ancestralProb_ok pop ch pa oA hne
    rw [he'] at h; cases h
    exact Or.inr hp
  · unfold ancestralProb at h
    have hall := varsOK_inWorld (ch := ch) hch hoA
    cases hm : oA.map (inWorld (world ch)) with
    | nil => rw [hm] at h; cases h
    | cons a as =>
      rw [hm] at h hall
      simp only [TianDsl.Dist.ofJoint, TianDsl.Dist.check, bind, Except.bind, TianDsl.Dist.given] at h
      split at h
      · cases h
      · rename_i d1 hd1
        split at hd1
        · cases hd1
        · cases hd1
          simp only at h
          split at h
          · cases h
          · rename_i d2 hd2
            split at hd2
            · cases hd2
            · cases hd2
              exact voc_mkProb (d := { children := TianDsl.upgradeOrdering (a :: as), parents := _ })
                (varsOK_of_subset hall (fun x hx => (mem_upgradeOrdering _ _).1 hx))
                (varsOK_of_subset hpa (fun x hx => by simpa using (mem_upgradeOrdering _ _).1 hx)) h

theorem ancestralExpr_good {q e : Expr} {A T oA topo : List Name} (hq : Good pop0 N q) (hT : ∀ t ∈ T, t ∈ N)
    (hoA : ∀ n ∈ oA, n ∈ N) (h : ancestralExpr q A T oA topo = .ok e) : Good pop0 N e := by
  unfold ancestralExpr at h
  split at h
  · exact ancestralQ_good hq hT h
  · cases q with
    | prob pop ch pa =>
      obtain ⟨hch, hpa⟩ := voc_prob.1 hq.2
      exact ancestralProb_good hch hpa hoA h
    | _ => cases h

/-! ### IDENTIFY -/

theorem identifyAux_good (G : MG Name) (topo C : List Name) :
    ∀ (fuel : Nat) (T : List Name) (q r : Expr), Good pop0 N q → (∀ t ∈ T, t ∈ N) →
      identifyAux G topo C fuel T q = .ok (some r) → Good pop0 N r := by
  intro fuel
  induction fuel with
  | zero => intro T q r _ _ h; simp [identifyAux] at h
  | succ fuel ih =>
    intro T q r hq hT h
    simp only [identifyAux] at h
    split at h
    · cases h
    rename_i hCT
    split at h
    · cases h
    split at h
    · cases h
    split at h
    · cases h
    simp only [bind, Except.bind] at h
    cases hA : (G.subgraph T).ancestorsInclusive C with
    | error err => rw [hA] at h; cases h
    | ok A =>
      rw [hA] at h
      simp only at h
      have hCT' : ∀ c ∈ C, c ∈ T := TianGraph.subset'_iff.mp (by simpa using hCT)
      obtain ⟨_, hAT, _⟩ := anc_facts G C T A hCT' hA
      split at h
      · cases hr : ancestralQ A T q topo with
        | error err => rw [hr] at h; cases h
        | ok r' =>
          rw [hr] at h
          simp only [pure, Except.pure, Except.ok.injEq, Option.some.injEq] at h
          subst h
          exact ancestralQ_good hq hT hr
      · split at h
        · simp [pure, Except.pure] at h
        · split at h
          · split at h
            · cases h
            · rename_i T' hfind
              have hT'mem := List.mem_of_find?_eq_some hfind
              obtain ⟨_, hT'A, _, hT'ne⟩ := district_facts G _ T' hT'mem
              have hoA : ∀ n ∈ topo.filter (· ∈ A), n ∈ N := by
                intro n hn
                have := (List.mem_filter.1 hn).2
                exact hT n (hAT n (by simpa using this))
              cases hqA : ancestralExpr q A T (topo.filter (· ∈ A)) topo with
              | error err => rw [hqA] at h; cases h
              | ok qA =>
                rw [hqA] at h
                simp only at h
                have hgA := ancestralExpr_good hq hT hoA hqA
                cases hqT : computeCFactor T' A qA topo with
                | error err => rw [hqT] at h; cases h
                | ok qT' =>
                  rw [hqT] at h
                  simp only at h
                  have hgT := computeCFactor_good hgA.1 hgA.2 (fun _ => hT'ne)
                    (fun n _ hnA => hT n (hAT n hnA)) hqT
                  exact ih T' qT' r hgT (fun t ht => hoA t (hT'A t ht)) h
          · cases h

theorem identify_good (G : MG Name) (C T : List Name) (q r : Expr) (topo : List Name) (hq : Good pop0 N q)
    (hT : ∀ t ∈ T, t ∈ N) (h : identify G C T q topo = .ok (some r)) : Good pop0 N r :=
  identifyAux_good G topo C _ T q r hq hT h

end TianVoc
end Y0
