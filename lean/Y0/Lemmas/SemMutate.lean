/-
  Y0.Lemmas.SemMutate — denotation of the rewrite helpers of chain.py / contract.py (Y0.Model.Mutate).
-/
import Y0.Lemmas.SemPos
import Y0.Model.Mutate

namespace Y0
set_option linter.unusedSimpArgs false
set_option linter.unusedVariables false

variable {env : Env} {σ' : Val}

/-! ### fraction_expand -/

/-- **`fraction_expand(P(C | Pa))` = `P(C, Pa) / P(Pa)` denotes `P(C | Pa)`** — only the laws of probability, no positivity -/
theorem fraction_expand_den (hF : ProbFamily env) {p c : Expr} (h : fractionExpand p = .ok c) (σ : Val) :
    den env σ' c σ = den env σ' p σ := by
  unfold fractionExpand at h
  split at h
  · rename_i pop ch pa
    split at h
    · cases h; rfl
    · rw [den_mkFrac h, den_joint hF, den_joint hF, den_prob]
      congr 1
      apply pr_congr_set hF
      intro a
      simp only [List.mem_map, mem_upgradeOrdering]
  · cases h

/-! ### contract -/

theorem mem_sortByName {v : Var} {l : List Var} : v ∈ sortByName l ↔ v ∈ l := by
  unfold sortByName
  rw [(sortStable_perm _ _).mem_iff, mem_upgradeOrdering]

/-- **`contract(P(N) / P(D))` = `P(N∖D | D)` denotes the quotient** (for `D ⊂ N`, same population; otherwise the
expression is returned unchanged) -/
theorem contract_den (hF : ProbFamily env) (e : Expr) (σ : Val) :
    den env σ' (contract e) σ = den env σ' e σ := by
  unfold contract
  split
  · rename_i pop nc pop' dc
    split
    · rename_i hc
      obtain ⟨hpop, hsub, _⟩ := hc
      subst hpop
      have hsub' := subset'_iff.mp hsub
      rw [den_frac, den_joint hF, den_joint hF, den_prob]
      congr 1
      · apply pr_congr_set hF
        intro a
        simp only [List.mem_map, List.mem_append, mem_sortByName, mem_diff', mem_inter', mem_dedup']
        constructor
        · rintro ⟨v, hv, rfl⟩
          rcases hv with ⟨h1, _⟩ | ⟨h1, _⟩ <;> exact ⟨v, h1, rfl⟩
        · rintro ⟨v, hv, rfl⟩
          by_cases hd : v ∈ dc
          · exact ⟨v, Or.inr ⟨hv, hd⟩, rfl⟩
          · exact ⟨v, Or.inl ⟨hv, hd⟩, rfl⟩
      · apply pr_congr_set hF
        intro a
        simp only [List.mem_map, mem_sortByName, mem_inter', mem_dedup']
        constructor
        · rintro ⟨v, ⟨_, h2⟩, rfl⟩; exact ⟨v, h2, rfl⟩
        · rintro ⟨v, hv, rfl⟩; exact ⟨v, ⟨hsub' v hv, hv⟩, rfl⟩
    · rfl
  · rfl

mutual
/-- **`recursive_contract` preserves the denotation** -/
theorem recursive_contract_den (hF : ProbFamily env) : ∀ (e c : Expr), recursiveContract e = .ok c →
    ∀ σ, den env σ' c σ = den env σ' e σ
  | .sum e r, c, h, σ => by
    unfold recursiveContract at h
    obtain ⟨x, hx, h⟩ := bind_ok h
    cases h
    simp only [den_sum]
    exact sumVars_congr env.card _ (fun τ => recursive_contract_den hF e x hx τ) σ
  | .prod fs, c, h, σ => by
    unfold recursiveContract at h
    obtain ⟨x, hx, h⟩ := bind_ok h
    cases h
    rw [productSafe_den, den_prod]
    exact recursive_contractList_den hF fs x hx σ
  | .frac n d, c, h, σ => by
    unfold recursiveContract at h
    cases h
    exact contract_den hF _ σ
  | .prob _ _ _, c, h, σ => by unfold recursiveContract at h; cases h; rfl
  | .one, c, h, σ => by unfold recursiveContract at h; cases h; rfl
  | .zero, c, h, σ => by unfold recursiveContract at h; cases h; rfl
  | .q _ _, c, h, σ => by unfold recursiveContract at h; cases h; rfl
theorem recursive_contractList_den (hF : ProbFamily env) : ∀ (fs cs : List Expr), recursiveContractList fs = .ok cs →
    ∀ σ, denProd env σ' cs σ = denProd env σ' fs σ
  | [], cs, h, σ => by unfold recursiveContractList at h; cases h; rfl
  | e :: es, cs, h, σ => by
    unfold recursiveContractList at h
    obtain ⟨a, ha, h⟩ := bind_ok h
    obtain ⟨b, hb, h⟩ := bind_ok h
    cases h
    simp only [denProd_cons]
    rw [recursive_contract_den hF e a ha σ, recursive_contractList_den hF es b hb σ]
end

/-! ### bayes_expand -/

/-- side conditions of Bayes expansion of `P(C | Pa)`: pairwise distinct names, the children are not `+` values and
are not unstarred subscripts of the leaf (so that `Σ_C P(C, Pa)` really is `P(Pa)`) -/
structure BayesOK (c pa : List Var) : Prop where
  names : ((c ++ pa).map (·.name)).Nodup
  not_plus : ∀ v ∈ c, v.star ≠ some true
  not_sub : ∀ w ∈ c ++ pa, ∀ i ∈ w.ivs, i.star = false → i.name ∉ c.map (·.name)

/-- **`bayes_expand(P(C | Pa))` = `P(C, Pa) / Σ_C P(C, Pa)` denotes `P(C | Pa)`** -/
theorem bayes_expand_den (hF : ProbFamily env) {pop : Option Var} {ch pa : List Var} {c : Expr}
    (hok : BayesOK ch pa) (h : bayesExpand (.prob pop ch pa) = .ok c) (σ : Val) :
    den env σ' c σ = den env σ' (.prob pop ch pa) σ := by
  unfold bayesExpand at h
  simp only at h
  split at h
  · cases h; rfl
  · rw [normalize_marginalize_den _ _ _ h σ]
    simp only [den_joint hF]
    rw [den_prob]
    congr 1
    -- the ranges: the base variables of the children, pairwise distinct names
    have hcn : (ch.map (·.name)).Nodup := by
      have := hok.names; rw [List.map_append] at this; exact (List.nodup_append.mp this).1
    have hbn : (ch.map Var.base).Nodup := nodup_map_base hcn
    have hperm : ((upgradeOrdering (ch.map Var.base)).map (·.name)).Perm (ch.map (·.name)) := by
      have := (upgradeOrdering_perm_of_nodup hbn).map (·.name)
      rw [List.map_map] at this
      exact this
    rw [congrFun (sumVars_perm env.card hperm _) σ]
    rw [sumVars_pr_children hF _ (ch ++ pa) _ hcn (fun x hx => by simp [List.map_append, hx])
      ⟨hok.names, fun v hv hm => by
          rcases List.mem_append.mp hv with hv | hv
          · exact hok.not_plus v hv
          · exfalso
            have := hok.names
            rw [List.map_append] at this
            exact (List.nodup_append.mp this).2.2 _ hm _ (List.mem_map_of_mem hv) rfl,
        hok.not_sub⟩ σ]
    congr 2
    rw [List.filter_append]
    have h1 : ch.filter (fun v => decide (v.name ∉ ch.map (·.name))) = [] := by
      apply List.filter_eq_nil_iff.mpr
      intro v hv; simp [List.mem_map_of_mem hv]
    have h2 : pa.filter (fun v => decide (v.name ∉ ch.map (·.name))) = pa := by
      apply List.filter_eq_self.mpr
      intro v hv
      have := hok.names
      rw [List.map_append] at this
      have hd := (List.nodup_append.mp this).2.2
      simp only [decide_eq_true_eq]
      intro hm
      exact hd _ hm _ (List.mem_map_of_mem hv) rfl
    rw [h1, h2, List.nil_append]

/-! ### chain_expand -/

theorem den_kernel (hF : ProbFamily env) (pop : Option Var) (c : Var) (parents : List Var) (σ : Val) :
    den env σ' (kernel pop c parents) σ =
      env.pr (pop.map (·.name)) ((c :: parents).map (Var.atom σ σ')) /
        env.pr (pop.map (·.name)) (parents.map (Var.atom σ σ')) := by
  unfold kernel
  rw [den_prob]
  congr 1
  · apply pr_congr_set hF
    intro a
    simp only [List.mem_map, List.mem_append, List.mem_cons, List.mem_singleton, mem_upgradeOrdering, List.not_mem_nil,
      or_false]
  · apply pr_congr_set hF
    intro a
    simp only [List.mem_map, mem_upgradeOrdering]

/-- the chain rule telescopes: `Π_i P(c_i | c_{>i}, pa) = P(c, pa) / P(pa)` when no intermediate marginal vanishes -/
theorem denProd_chainFactors (hF : ProbFamily env) (pop : Option Var) (pa : List Var) (σ : Val) :
    ∀ (cs : List Var), cs ≠ [] →
      (∀ s : List Var, s <:+ cs → s ≠ cs → env.pr (pop.map (·.name)) ((s ++ pa).map (Var.atom σ σ')) ≠ 0) →
      denProd env σ' (chainFactors pop pa cs) σ =
        env.pr (pop.map (·.name)) ((cs ++ pa).map (Var.atom σ σ')) /
          env.pr (pop.map (·.name)) (pa.map (Var.atom σ σ')) := by
  intro cs
  induction cs with
  | nil => intro h; exact absurd rfl h
  | cons c rest ih =>
    intro _ hpos
    simp only [chainFactors, denProd_cons, den_kernel hF]
    by_cases hr : rest = []
    · subst hr; simp [chainFactors]
    · have hsuf : rest <:+ c :: rest := List.suffix_cons c rest
      have hne : rest ≠ c :: rest := fun e => by
        have := congrArg List.length e; simp at this
      rw [ih hr (fun s hs hn => hpos s (hs.trans hsuf) (fun e => by
        have h1 := hs.length_le
        rw [e] at h1; simp at h1))]
      have hT := hpos rest hsuf hne
      rw [List.cons_append, div_mul_div_cancel₀ hT]

/-- **`chain_expand(P(C | Pa))` denotes `P(C | Pa)`** when no marginal over a sub-collection of the children (given the
parents) vanishes (positivity) -/
theorem chain_expand_den (hF : ProbFamily env) {pop : Option Var} {ch pa : List Var} {reorder : Bool}
    {ordering : Option (List Var)} {c : Expr} (hne : ch ≠ [])
    (h : chainExpand (.prob pop ch pa) reorder ordering = .ok c) (σ : Val)
    (hpos : ∀ s : List Var, (∀ v ∈ s, v ∈ ch) → env.pr (pop.map (·.name)) ((s ++ pa).map (Var.atom σ σ')) ≠ 0) :
    den env σ' c σ = den env σ' (.prob pop ch pa) σ := by
  unfold chainExpand at h
  simp only at h
  split at h
  · split at h
    · cases h
    · rename_i hsub
      cases h
      simp only [Bool.not_eq_true', Bool.not_eq_false] at hsub
      have hsub' := subset'_iff.mp (by simpa using hsub)
      set o := ensureOrdering (.prob pop ch pa) ordering
      have hmem : ∀ v, v ∈ inter' o ch ↔ v ∈ ch := fun v => by
        rw [mem_inter']; exact ⟨fun h => h.2, fun h => ⟨hsub' v h, h⟩⟩
      have hne' : inter' o ch ≠ [] := by
        obtain ⟨v, hv⟩ := List.exists_mem_of_ne_nil ch hne
        exact List.ne_nil_of_mem ((hmem v).mpr hv)
      rw [productSafe_den, denProd_chainFactors hF pop pa σ _ hne'
        (fun s hs _ => hpos s (fun v hv => (hmem v).mp (hs.subset hv))), den_prob]
      congr 1
      apply pr_congr_set hF
      intro a
      simp only [List.mem_map, List.mem_append, hmem]
  · cases h
    rw [productSafe_den, denProd_chainFactors hF pop pa σ _ hne
      (fun s hs _ => hpos s (fun v hv => hs.subset hv)), den_prob]

/-- positivity discharges the hypothesis of `chain_expand_den` for a leaf with pairwise distinct names -/
theorem chain_pos_of_positive (hP : env.Positive) {pop : Option Var} {ch pa : List Var} {σ : Val}
    (hσ : InRange env σ) (hσ' : InRange env σ') (hn : ((ch ++ pa).map (·.name)).Nodup)
    (s : List Var) (hs : s.Sublist ch) : env.pr (pop.map (·.name)) ((s ++ pa).map (Var.atom σ σ')) ≠ 0 :=
  (atoms_pos hP _ _ σ hσ hσ' (hn.sublist ((hs.append (List.Sublist.refl pa)).map _))).ne'

theorem markov_kernels : ∀ (l : List Expr), (∀ e ∈ l, ∃ pop c ps, e = .prob pop [c] ps) →
    hasMarkovPostconditionList l = .ok true
  | [], _ => by unfold hasMarkovPostconditionList; rfl
  | e :: es, h => by
    obtain ⟨pop, c, ps, rfl⟩ := h e List.mem_cons_self
    unfold hasMarkovPostconditionList
    simp only [hasMarkovPostcondition, List.length_singleton, beq_self_eq_true, bind, Except.bind, pure, Except.pure]
    exact markov_kernels es (fun x hx => h x (List.mem_cons_of_mem _ hx))

theorem chainFactors_kernels (pop : Option Var) (pa : List Var) : ∀ (cs : List Var),
    ∀ e ∈ chainFactors pop pa cs, ∃ pop c ps, e = .prob pop [c] ps
  | [], e, he => by simp [chainFactors] at he
  | c :: rest, e, he => by
    simp only [chainFactors, List.mem_cons] at he
    rcases he with rfl | he
    · exact ⟨pop, c, _, rfl⟩
    · exact chainFactors_kernels pop pa rest e he

theorem chainFactors_ne_nil (pop : Option Var) (pa : List Var) {cs : List Var} (h : cs ≠ []) :
    chainFactors pop pa cs ≠ [] := by
  cases cs with
  | nil => exact absurd rfl h
  | cons c rest => simp [chainFactors]

/-- a product of single-child kernels satisfies `has_markov_postcondition` -/
theorem markov_productSafe_kernels {l : List Expr} (hne : l ≠ []) (h : ∀ e ∈ l, ∃ pop c ps, e = .prob pop [c] ps) :
    hasMarkovPostcondition (productSafe l) = .ok true := by
  unfold productSafe
  simp only
  have hf : l.filter (fun e => !e.isOne) = l := by
    apply List.filter_eq_self.mpr
    intro e he; obtain ⟨pop, c, ps, rfl⟩ := h e he; rfl
  rw [hf]
  have hz : l.any Expr.isZero = false := by
    rw [List.any_eq_false]
    intro e he; obtain ⟨pop, c, ps, rfl⟩ := h e he; simp [Expr.isZero]
  rw [hz]
  simp only [Bool.false_eq_true, if_false]
  match l, hne, h with
  | [e], _, h =>
    obtain ⟨pop, c, ps, rfl⟩ := h e (List.mem_singleton.mpr rfl)
    simp [hasMarkovPostcondition]
    rfl
  | a :: b :: r, _, h =>
    simp only [hasMarkovPostcondition]
    exact markov_kernels _ (fun e he => h e ((sortStable_perm _ _).subset he))

/-- **chain expansion yields only single-child conditional factors** (C13, last sentence) -/
theorem chain_expand_markov {pop : Option Var} {ch pa : List Var} {reorder : Bool} {ordering : Option (List Var)}
    {c : Expr} (hne : ch ≠ []) (h : chainExpand (.prob pop ch pa) reorder ordering = .ok c) :
    hasMarkovPostcondition c = .ok true := by
  unfold chainExpand at h
  simp only at h
  split at h
  · split at h
    · cases h
    · rename_i hsub
      cases h
      have hsub' := subset'_iff.mp (by simpa using hsub)
      apply markov_productSafe_kernels _ (chainFactors_kernels _ _ _)
      apply chainFactors_ne_nil
      obtain ⟨v, hv⟩ := List.exists_mem_of_ne_nil ch hne
      exact List.ne_nil_of_mem (mem_inter'.mpr ⟨hsub' v hv, hv⟩)
  · cases h
    exact markov_productSafe_kernels (chainFactors_ne_nil _ _ hne) (chainFactors_kernels _ _ _)

end Y0
