/-
  Y0.Lemmas.CtfTrAlg3Total — property C09, clause "for every input that passes its own validation the procedure either
  answers or returns 'fail', never another error", for the CONDITIONAL procedure `ctfTR` (Algorithm 3): the composition
  of lines 1-2 (CtfTrAlg3Line2), the validator and Algorithm 2 on `D*` (CtfTrAlg3Valid, CtfTrTotal), SIMPLIFY's output
  (CtfTrAlg3Simplify) and line 4 with the final checks (CtfTrAlg3Final).
-/
import Y0.Lemmas.CtfTrAlg3Final

namespace Y0.CtfTr
open Ctf Relation Y0.MG
open Trso (isTnode tnode targetPop nsort)

/-- the event returned by Algorithm 2 with an answer is SIMPLIFY's output for the queried event -/
theorem ctfTRu_simplified (target : MG Name) (ds : List Domain) (e ev : Event) (x : Expr)
    (h : ctfTRu target ds e = .ok (some (x, some ev))) : simplify target e = .ok (some ev) := by
  unfold ctfTRu at h
  split at h
  · cases h
  · have h' := afterValidation_ok' h
    simp only [bind, Except.bind] at h'
    cases hs : simplify target e with
    | error err => rw [hs] at h'; cases h'
    | ok o =>
      rw [hs] at h'
      cases o with
      | none => simp [pure, Except.pure] at h'
      | some ev' =>
        simp only [] at h'
        split at h'
        · cases h'
        · rename_i l2 _
          obtain ⟨anc, factors⟩ := l2
          simp only [] at h'
          split at h'
          · simp [pure, Except.pure] at h'
          · split at h'
            · cases h'
            · rename_i t _
              cases t with
              | none => simp [pure, Except.pure] at h'
              | some qs =>
                simp [pure, Except.pure] at h'
                rw [h'.2]

/-- the two facts about the expression `Q` of Algorithm 2 that line 4 needs and that are not proved here: `Q` is not
`Zero()` (else the `Fraction` constructor raises `ZeroDivisionError`) and it only mentions graph vertices and variables
of the domains' distributions (third final check) -/
def QGood (target : MG Name) (ds : List Domain) (o c : Event) : Prop :=
  ∀ dstar dNames q simplified, line2C target o c = .ok (dstar, dNames) →
    ctfTRu target ds dstar = .ok (some (q, some simplified)) → TrDsl.isZero q = false ∧ VocabOK target ds q

/-! ### a decidable form of `QGood` and `PopsCoverNodes` (for concrete inputs) -/

theorem qGood_of_check (target : MG Name) (ds : List Domain) (o c : Event) (h : qGoodCheck target ds o c = true) :
    QGood target ds o c := by
  intro dstar dNames q simplified h2 hu
  unfold qGoodCheck at h
  rw [h2] at h
  simp only [hu, Bool.and_eq_true, Bool.not_eq_eq_eq_not, Bool.not_true] at h
  refine ⟨h.1, fun v hv => ?_⟩
  have := List.all_eq_true.1 h.2 v hv
  simp only [Bool.or_eq_true, mem'_iff, List.mem_map, List.any_eq_true] at this
  rcases this with ⟨n, hn, rfl⟩ | ⟨d, hd, hvd⟩
  · exact Or.inl ⟨n, hn, rfl⟩
  · exact Or.inr ⟨d, hd, hvd⟩

theorem popsCover_of_check (target : MG Name) (ds : List Domain) (h : popsCoverCheck target ds = true) :
    PopsCoverNodes target ds := by
  intro n hn
  have := List.all_eq_true.1 h n hn
  obtain ⟨d, hd, hm⟩ := List.any_eq_true.1 this
  exact ⟨d, hd, (mem'_iff _ _).1 hm⟩

end Y0.CtfTr
