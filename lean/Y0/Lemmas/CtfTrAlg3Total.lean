/-
  Y0.Lemmas.CtfTrAlg3Total — property C09, clause "for every input that passes its own validation the procedure either
  answers or returns 'fail', never another error", for the CONDITIONAL procedure `ctfTR` (Algorithm 3): the composition
  of lines 1-2 (CtfTrAlg3Line2), the validator and Algorithm 2 on `D*` (CtfTrAlg3Valid, CtfTrTotal), SIMPLIFY's output
  (CtfTrAlg3Simplify) and line 4 with the final checks (CtfTrAlg3Final).
-/
import Y0.Lemmas.CtfTrAlg3Final

namespace Y0.CtfTr
open Ctf Relation Y0.MG
open Trso (isTnode tnode targetPop nsort)

/-- the event returned by Algorithm 2 with an answer is SIMPLIFY's output for the queried event -/
theorem ctfTRu_simplified (target : MG Name) (ds : List Domain) (e ev : Event) (x : Expr)
    (h : ctfTRu target ds e = .ok (some (x, some ev))) : simplify target e = .ok (some ev) := by
  unfold ctfTRu at h
  split at h
  · cases h
  · have h' := afterValidation_ok' h
    simp only [bind, Except.bind] at h'
    cases hs : simplify target e with
    | error err => rw [hs] at h'; cases h'
    | ok o =>
      rw [hs] at h'
      cases o with
      | none => simp [pure, Except.pure] at h'
      | some ev' =>
        simp only [] at h'
        split at h'
        · cases h'
        · rename_i l2 _
          obtain ⟨anc, factors⟩ := l2
          simp only [] at h'
          split at h'
          · simp [pure, Except.pure] at h'
          · split at h'
            · cases h'
            · rename_i t _
              cases t with
              | none => simp [pure, Except.pure] at h'
              | some qs =>
                simp [pure, Except.pure] at h'
                rw [h'.2]

/-- the two facts about the expression `Q` of Algorithm 2 that line 4 needs and that are not proved here: `Q` is not
`Zero()` (else the `Fraction` constructor raises `ZeroDivisionError`) and it only mentions graph vertices and variables
of the domains' distributions (third final check) -/
def QGood (target : MG Name) (ds : List Domain) (o c : Event) : Prop :=
  ∀ dstar dNames q simplified, line2C target o c = .ok (dstar, dNames) →
    ctfTRu target ds dstar = .ok (some (q, some simplified)) → TrDsl.isZero q = false ∧ VocabOK target ds q

/-- **Algorithm 3 never raises outside its crash classes** (composition theorem).  For an input accepted by the
conditional validator, on graphs built by `from_edges`, with selection diagrams that agree with the target graph
(`DomainsAgree`, as for Algorithm 2) and query variables as the public wrapper builds them (`EventVarsPlain`), `ctfTR`
returns an answer or FAIL provided
* `OutcomesFound`: every outcome variable is found in the ancestral components under its own name,
* `DstarOneWorld`: `D*` names every graph vertex in one world,
* `OutcomeNotCondition`: no outcome shares its vertex with a condition,
* `PopsCoverNodes`: every vertex is a variable of some domain's distribution,
* `QGood`: the expression returned by Algorithm 2 is not `Zero()` and has the expected vocabulary. -/
theorem ctfTR_total_of_parts (target : MG Name) (ds : List Domain) (o c : Event)
    (hv : validateC target ds o c = .ok ()) (hwf : target.WF) (hds : ∀ d ∈ ds, d.graph.WF)
    (hdom : DomainsAgree target ds) (hplain : EventVarsPlain (o ++ c))
    (hfound : OutcomesFound target o c = true) (hone : DstarOneWorld target o c = true)
    (hdisj : OutcomeNotCondition o c = true) (hpop : PopsCoverNodes target ds) (hq : QGood target ds o c) :
    ∀ err, ctfTR target ds o c ≠ .error err := by
  obtain ⟨hstrict, hone', _, hnodes, _, hac, _⟩ := validateC_facts target ds o c hv
  have hloop : ∀ v, ¬ target.DiEdge v v := fun v hvv =>
    ((isAcyclic_iff target hwf).1 hac) v (TransGen.single hvv)
  have hok : ∀ p ∈ o ++ c, VarOK target p.1 := by
    intro p hp
    refine ⟨hnodes p ?_, Or.inr ⟨(hplain p hp).2.1, (hplain p hp).1⟩⟩
    rcases List.mem_append.1 hp with h | h
    · exact List.mem_append_right _ h
    · exact List.mem_append_left _ h
  obtain ⟨D, dstar, dNames, hD, h2, hDn, hfacts⟩ := line2C_ok target hwf o c
    (fun p hp => hok p (List.mem_append_left _ hp)) (fun p hp => hok p (List.mem_append_right _ hp))
  -- the input classes
  have hfound' : ∀ p ∈ o, p.1 ∈ D := by
    unfold OutcomesFound at hfound
    rw [hD] at hfound
    intro p hp
    exact (mem'_iff _ _).1 (List.all_eq_true.1 hfound p hp)
  have hnd : (D.map (·.name)).Nodup := by
    unfold DstarOneWorld at hone
    rw [hD] at hone
    simpa using hone
  have hdisj' : ∀ p ∈ o, ∀ r ∈ c, p.1.name ≠ r.1.name := by
    intro p hp r hr
    unfold OutcomeNotCondition at hdisj
    have := List.all_eq_true.1 (List.all_eq_true.1 hdisj p hp) r hr
    simpa using this
  -- D* is accepted by the unconditional validator
  obtain ⟨p0, hp0⟩ := List.exists_mem_of_ne_nil _ hone'
  obtain ⟨q0, hq0, _, hq0v⟩ := hfacts.found p0 hp0 (hfound' p0 hp0)
  have hvU : validateU target ds dstar = .ok () := by
    apply validateU_dstar target ds o c hv dstar
    · intro h0; rw [h0] at hq0; cases hq0
    · intro q hq; exact (hfacts.var hDn q hq).1
    · exact ⟨q0, hq0, by rw [hq0v]; exact hstrict p0 (List.mem_append_left _ hp0)⟩
    · intro q hq i hi
      obtain ⟨p, hp, hpn, hpv, _⟩ := hfacts.value q hq i hi
      exact ⟨p, hp, hpn, hpv⟩
  -- Algorithm 2 on D*
  have hcls : CrashClassU dstar = false := by
    have : Reflexive dstar = false := by
      cases hr : Reflexive dstar with
      | false => rfl
      | true =>
        exfalso
        unfold Reflexive at hr
        obtain ⟨p, hp, hpr⟩ := List.any_eq_true.1 hr
        obtain ⟨i, hi, hin⟩ := List.any_eq_true.1 hpr
        have hedge := (hfacts.var hDn p hp).2.2.2.2 i hi
        rw [show i.name = p.1.name by simpa using hin] at hedge
        exact hloop _ hedge
    simp [CrashClassU, this]
  have hplainD : EventVarsPlain dstar := by
    intro p hp
    obtain ⟨_, hs, hi, hn, _⟩ := hfacts.var hDn p hp
    exact ⟨hs, hi, hn⟩
  have hUtotal := ctfTRu_total_of_class target ds dstar hvU hwf hds hcls hplainD hdom
  have hU : ∃ r, ctfTRu target ds dstar = .ok r := by
    cases hr : ctfTRu target ds dstar with
    | ok r => exact ⟨r, rfl⟩
    | error err => exact absurd hr (hUtotal err)
  -- line 4
  obtain ⟨r, hr⟩ := ctfTR_of_parts target ds o c hv dstar dNames h2 hU (by
    intro q simplified hqs
    obtain ⟨hqnz, hvocab⟩ := hq dstar dNames q simplified h2 hqs
    have hsim := simplify_output_values target dstar simplified (ctfTRu_simplified target ds dstar simplified q hqs)
    exact line4C_ok target ds o c D dstar dNames q simplified hfacts hstrict hsim hnd hfound' hdisj' hqnz hvocab hpop)
  intro err herr
  rw [hr] at herr
  cases herr

/-! ### a decidable form of `QGood` and `PopsCoverNodes` (for concrete inputs) -/

theorem qGood_of_check (target : MG Name) (ds : List Domain) (o c : Event) (h : qGoodCheck target ds o c = true) :
    QGood target ds o c := by
  intro dstar dNames q simplified h2 hu
  unfold qGoodCheck at h
  rw [h2] at h
  simp only [hu, Bool.and_eq_true, Bool.not_eq_eq_eq_not, Bool.not_true] at h
  refine ⟨h.1, fun v hv => ?_⟩
  have := List.all_eq_true.1 h.2 v hv
  simp only [Bool.or_eq_true, mem'_iff, List.mem_map, List.any_eq_true] at this
  rcases this with ⟨n, hn, rfl⟩ | ⟨d, hd, hvd⟩
  · exact Or.inl ⟨n, hn, rfl⟩
  · exact Or.inr ⟨d, hd, hvd⟩

theorem popsCover_of_check (target : MG Name) (ds : List Domain) (h : popsCoverCheck target ds = true) :
    PopsCoverNodes target ds := by
  intro n hn
  have := List.all_eq_true.1 h n hn
  obtain ⟨d, hd, hm⟩ := List.any_eq_true.1 this
  exact ⟨d, hd, (mem'_iff _ _).1 hm⟩

end Y0.CtfTr
