/-
  Y0.Lemmas.HedgeNonIdPair — the two models of a hedge skeleton and why they witness non-identifiability of `P_x(R)`.

  A skeleton (`Skel`) is the combinatorial content of a hedge in list form: a spanning tree of bidirected edges of `F'`
  (`es'`) extended to a spanning tree of `F` (`es'' ++ es'`), the root set `Rl ⊆ F'`, and a child map `ch` giving every
  non-root node of `F` a child in `F` along a directed edge, with children of `F'`-nodes in `F'`.
  M¹ = parity model on the whole of `F` (noise 1/2 everywhere), M² = parity model on `F'` alone, all other nodes fair
  coins, the noise of `root` adjusted so that both convolutions agree.
-/
import Y0.Lemmas.HedgeNonIdDo
import Y0.Lemmas.QFactor

namespace Y0
namespace NonId

structure Skel where
  root : Name
  es' : List (Name × Name)
  es'' : List (Name × Name)
  Rl : List Name
  ch : Name → Name

namespace Skel

def F (S : Skel) : List Name := nodesOf (S.es'' ++ S.es') S.root
def F' (S : Skel) : List Name := nodesOf S.es' S.root

structure Good (S : Skel) (G : MG Name) (X : List Name) : Prop where
  nodup_nodes : G.nodes.Nodup
  no_loop : ∀ v, (v, v) ∉ G.di
  di_nodes : ∀ e ∈ G.di, e.1 ∈ G.nodes
  tree : TreeSeq S.root (S.es'' ++ S.es')
  sub : ∀ v ∈ S.F, v ∈ G.nodes
  bi : ∀ e ∈ S.es'' ++ S.es', G.hasBi e.1 e.2 = true
  R_nodup : S.Rl.Nodup
  R_sub : ∀ r ∈ S.Rl, r ∈ S.F'
  R_ne : S.Rl ≠ []
  ch_F : ∀ p ∈ S.F, p ∉ S.Rl → S.ch p ∈ S.F
  ch_F' : ∀ p ∈ S.F', p ∉ S.Rl → S.ch p ∈ S.F'
  ch_edge : ∀ p ∈ S.F, p ∉ S.Rl → (p, S.ch p) ∈ G.di
  meetsX : ∃ x ∈ X, x ∈ S.F
  avoidsX : ∀ v ∈ S.F', v ∉ X

/-- latent of the tree edge that adds node `c`: a name above every node of the graph -/
def Lf (G : MG Name) (c : Name) : Name := c + (G.nodes.sum + 1)

def spec1 (S : Skel) (G : MG Name) : PSpec :=
  { root := S.root, es := S.es'' ++ S.es', L := Lf G, par := forestPar S.F S.Rl S.ch, rho := fun _ => 1 / 2 }

def spec2 (S : Skel) (G : MG Name) : PSpec :=
  { root := S.root, es := S.es', L := Lf G, par := forestPar S.F' S.Rl S.ch,
    rho := fun i => if i = S.root then (1 / 2) ^ (S.es''.length + 1) else 1 / 2 }

theorem le_sum_of_mem {l : List Nat} {a : Nat} (h : a ∈ l) : a ≤ l.sum := by
  induction l with
  | nil => cases h
  | cons b l ih =>
    simp only [List.sum_cons]
    rcases List.mem_cons.mp h with rfl | h'
    · omega
    · have := ih h'; omega

theorem Lf_fresh (G : MG Name) (c : Name) : Lf G c ∉ G.nodes := by
  intro h
  have := le_sum_of_mem h
  unfold Lf at this
  omega

theorem treeSeq_suffix {root : Name} : ∀ (es'' es' : List (Name × Name)), TreeSeq root (es'' ++ es') → TreeSeq root es'
  | [], _, h => h
  | _ :: es'', es', h => treeSeq_suffix es'' es' h.1

theorem F'_sub_F (S : Skel) : ∀ v ∈ S.F', v ∈ S.F := by
  intro v hv
  unfold F' nodesOf at hv
  unfold F nodesOf
  simp only [List.map_append, List.mem_append, List.mem_map, List.mem_singleton] at hv ⊢
  rcases hv with h | h
  · exact Or.inl (Or.inr h)
  · exact Or.inr h

theorem lats_nodup (G : MG Name) {root : Name} {es : List (Name × Name)} (h : TreeSeq root es) :
    (latsOf (Lf G) es).Nodup := by
  have hnd : (es.map Prod.fst).Nodup := by
    have := TreeSeq.nodup h
    unfold nodesOf at this
    exact (List.nodup_append.mp this).1
  have : latsOf (Lf G) es = (es.map Prod.fst).map (Lf G) := by simp [latsOf, List.map_map, Function.comp_def]
  rw [this]
  apply hnd.map
  intro a b hab
  exact Nat.add_right_cancel hab

theorem lats_fresh (G : MG Name) (es : List (Name × Name)) : ∀ u ∈ latsOf (Lf G) es, u ∉ G.nodes := by
  intro u hu
  obtain ⟨e, _, rfl⟩ := List.mem_map.mp hu
  exact Lf_fresh G _

variable {S : Skel} {G : MG Name} {X : List Name}

theorem mem_forestPar {T Rl : List Name} {ch : Name → Name} {p i : Name} :
    p ∈ forestPar T Rl ch i ↔ p ∈ T ∧ p ∉ Rl ∧ ch p = i := by
  simp [forestPar]

theorem spec1_good (h : S.Good G X) : (S.spec1 G).Good G := by
  refine ⟨h.tree, h.sub, lats_nodup G h.tree, lats_fresh G _, h.bi, ?_, ?_, ?_, fun _ => by simp [spec1],
    fun _ => by simp [spec1]; norm_num⟩
  · intro v p hp
    obtain ⟨h1, h2, h3⟩ := mem_forestPar.mp hp
    exact MG.mem_parents.mpr (h3 ▸ h.ch_edge p h1 h2)
  · intro v hv
    obtain ⟨h1, h2, h3⟩ := mem_forestPar.mp hv
    exact h.no_loop v (by have := h.ch_edge v h1 h2; rwa [h3] at this)
  · intro v p hp
    exact h.sub p (mem_forestPar.mp hp).1

theorem spec2_good (h : S.Good G X) : (S.spec2 G).Good G := by
  have ht := treeSeq_suffix _ _ h.tree
  refine ⟨ht, fun v hv => h.sub v (F'_sub_F S v hv), lats_nodup G ht, lats_fresh G _,
    fun e he => h.bi e (List.mem_append_right _ he), ?_, ?_, ?_, ?_, ?_⟩
  · intro v p hp
    obtain ⟨h1, h2, h3⟩ := mem_forestPar.mp hp
    exact MG.mem_parents.mpr (h3 ▸ h.ch_edge p (F'_sub_F S p h1) h2)
  · intro v hv
    obtain ⟨h1, h2, h3⟩ := mem_forestPar.mp hv
    exact h.no_loop v (by have := h.ch_edge v (F'_sub_F S v h1) h2; rwa [h3] at this)
  · intro v p hp
    exact h.sub p (F'_sub_F S p (mem_forestPar.mp hp).1)
  · intro v
    simp only [spec2]
    split
    · positivity
    · norm_num
  · intro v
    simp only [spec2]
    split
    · have : ((1 : Rat) / 2) ^ (S.es''.length + 1) ≤ (1 / 2) ^ 1 :=
        pow_le_pow_of_le_one (by norm_num) (by norm_num) (by omega)
      linarith
    · norm_num

end Skel
end NonId
end Y0
