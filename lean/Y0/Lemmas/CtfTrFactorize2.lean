/-
  Y0.Lemmas.CtfTrFactorize2 — the summation range of Algorithm 2 against the range of `Ctf.factorize`, and the event
  variables among the accumulated ancestors (continuation of Y0.Lemmas.CtfTrFactorize):

    `summedNames_eq_range`     the names Algorithm 2 sums over are the range of the sum of `factorize`;
    `event_vars_in_ancestors`  a minimised, unmarked event variable is a member of the accumulated ancestors;
    `simplify_output_minimal`  every variable of an event returned by SIMPLIFY is minimised.
-/
import Y0.Lemmas.CtfTrFactorize

namespace Y0.CtfTr
open Ctf Relation Y0.MG

/-! ### the derived `==` of `Iv`, `Var` and of event values is equality -/

theorem ivLawful : LawfulBEq Iv where
  rfl := by intro a; cases a; simp [BEq.beq, instBEqIv.beq]
  eq_of_beq := by
    intro a b h
    cases a; cases b
    simp [BEq.beq, instBEqIv.beq] at h
    simp [h]

theorem var_beq_iff (a b : Var) : (a == b) = true ↔ a = b := by
  have := ivLawful
  cases a; cases b
  simp only [BEq.beq, instBEqVar.beq, Bool.and_eq_true, decide_eq_true_eq, Var.mk.injEq]
  have h1 : ∀ s t : Option Bool, Option.instBEq.beq s t = true ↔ s = t := fun s t => by
    have := @beq_iff_eq _ _ _ s t
    exact this
  have h2 : ∀ s t : List Iv, s.beq t = true ↔ s = t := fun s t => by
    have := @beq_iff_eq _ _ _ s t
    exact this
  rw [h1, h2]

theorem val_beq_iff (a b : Ctf.Val) : (a == b) = true ↔ a = b := by
  have := ivLawful
  exact beq_iff_eq

/-! ### the value line 2 gives to an ancestor -/

/-- the value `withValues` attaches to the ancestor `v` -/
def l2ValueOf (ev : Event) (v : Var) : Ctf.Val :=
  match ev.find? (fun p => p.1 == v) with
  | some p => (ev.filter (fun q => q.1 == v)).getLast?.bind (·.2) |>.orElse fun _ => p.2
  | none => none

theorem withValues_eq (ev : Event) (D : List Var) : withValues ev D = D.map fun v => (v, l2ValueOf ev v) := by
  unfold withValues l2ValueOf
  apply List.map_congr_left
  intro v _
  cases ev.find? (fun p => p.1 == v) <;> rfl

/-- an ancestor that is an event variable gets a value under which it IS an item of the event: the value of its last
item, or, when that is `None`, the value of its first item -/
theorem l2ValueOf_mem (ev : Event) (v : Var) (q : Var × Ctf.Val) (hq : q ∈ ev) (hqv : q.1 = v) :
    (v, l2ValueOf ev v) ∈ ev := by
  unfold l2ValueOf
  cases hf : ev.find? (fun p => p.1 == v) with
  | none =>
    rw [List.find?_eq_none] at hf
    exact absurd ((var_beq_iff _ _).2 hqv) (hf q hq)
  | some p0 =>
    have hp0 : p0 ∈ ev := List.mem_of_find?_eq_some hf
    have hb0 : (p0.1 == v) = true := List.find?_some (p := fun p : Var × Ctf.Val => p.1 == v) hf
    have hp0v : p0.1 = v := (var_beq_iff _ _).1 hb0
    simp only
    cases hl : (ev.filter (fun q => q.1 == v)).getLast? with
    | none =>
      have : (v, p0.2) = p0 := by rw [← hp0v]
      show (v, p0.2) ∈ ev
      rw [this]; exact hp0
    | some r =>
      have hr : r ∈ ev.filter (fun q => q.1 == v) := List.mem_of_getLast? hl
      obtain ⟨hrev, hrv⟩ := List.mem_filter.1 hr
      have hrv' : r.1 = v := (var_beq_iff _ _).1 hrv
      cases hx : r.2 with
      | none =>
        have : (v, p0.2) = p0 := by rw [← hp0v]
        show (v, (Option.bind (some r) (·.2)).orElse fun _ => p0.2) ∈ ev
        simp only [Option.bind_some, hx]
        show (v, p0.2) ∈ ev
        rw [this]; exact hp0
      | some x =>
        have : (v, some x) = r := by rw [← hrv', ← hx]
        show (v, (Option.bind (some r) (·.2)).orElse fun _ => p0.2) ∈ ev
        simp only [Option.bind_some, hx]
        show (v, some x) ∈ ev
        rw [this]; exact hrev

theorem convertOne_mapM_names (g : MG Name) : ∀ (D cs : List Var), D.mapM (convertOne g) = .ok cs →
    cs.map (·.name) = D.map (·.name) := by
  intro D
  induction D with
  | nil =>
    intro cs h
    simp only [List.mapM_nil, pure, Except.pure, Except.ok.injEq] at h
    subst h; rfl
  | cons a l ih =>
    intro cs h
    simp only [List.mapM_cons, bind, Except.bind] at h
    cases ha : convertOne g a with
    | error e => rw [ha] at h; cases h
    | ok b =>
      rw [ha] at h
      simp only at h
      cases hl : l.mapM (convertOne g) with
      | error e => rw [hl] at h; cases h
      | ok bs =>
        rw [hl] at h
        simp only [pure, Except.pure, Except.ok.injEq] at h
        subst h
        simp only [List.map_cons, ih bs hl, (convertOne_spec g a b ha).1]

/-- **the summation range of Algorithm 2 is the summation range of the factorisation** (as sets of names): when no
vertex occurs in two worlds among the ancestors and every event variable is an ancestor, the ancestors that are not
items of the event are exactly the ancestors whose vertex is not an outcome. -/
theorem summedNames_eq_range (g : MG Name) (ev : Event) (D cs : List Var) (hcs : D.mapM (convertOne g) = .ok cs)
    (hsingle : ∀ a ∈ D, ∀ b ∈ D, a.name = b.name → a = b) (hself : ∀ p ∈ ev, p.1 ∈ D) :
    ∀ n, n ∈ summedNames (withValues ev D) ev ↔
      n ∈ (dedup' ((dedup' cs).map (·.name))).filter (fun n => decide (n ∉ dedup' (ev.map (·.1.name)))) := by
  intro n
  have hnames := convertOne_mapM_names g D cs hcs
  have hcsn : n ∈ (dedup' cs).map (·.name) ↔ n ∈ D.map (·.name) := by
    rw [← hnames]
    simp only [List.mem_map, mem_dedup']
  unfold summedNames
  rw [mem_dedup', List.mem_filter, mem_dedup', decide_eq_true_eq, mem_dedup', hcsn, withValues_eq]
  constructor
  · intro h
    obtain ⟨p, hp, rfl⟩ := List.mem_map.1 h
    obtain ⟨hpw, hpf⟩ := List.mem_filter.1 hp
    obtain ⟨v, hv, rfl⟩ := List.mem_map.1 hpw
    refine ⟨List.mem_map.2 ⟨v, hv, rfl⟩, ?_⟩
    intro hmem
    obtain ⟨q, hq, hqn⟩ := List.mem_map.1 hmem
    have hqv : q.1 = v := hsingle q.1 (hself q hq) v hv hqn
    have hin := l2ValueOf_mem ev v q hq hqv
    have : (ev.any fun q => q.1 == v && q.2 == l2ValueOf ev v) = true :=
      List.any_eq_true.2 ⟨_, hin, by
        rw [Bool.and_eq_true]; exact ⟨(var_beq_iff _ _).2 rfl, (val_beq_iff _ _).2 rfl⟩⟩
    simp only [this, Bool.not_true, Bool.false_eq_true] at hpf
  · rintro ⟨hn, hnot⟩
    obtain ⟨v, hv, rfl⟩ := List.mem_map.1 hn
    refine List.mem_map.2 ⟨(v, l2ValueOf ev v), List.mem_filter.2 ⟨List.mem_map.2 ⟨v, hv, rfl⟩, ?_⟩, rfl⟩
    rw [Bool.not_eq_true', List.any_eq_false]
    intro q hq hqq
    rw [Bool.and_eq_true] at hqq
    have hqv : q.1 = v := (var_beq_iff _ _).1 hqq.1
    exact hnot (List.mem_map.2 ⟨q, hq, by rw [hqv]⟩)

/-! ### a minimised event variable is its own counterfactual ancestor -/

/-- `get_ancestors_of_counterfactual(v)` contains `v` itself when `v` is minimised (`‖v‖ = v`) and, if counterfactual,
carries no value mark (the members of `An(Y_x)` are built by `Variable.intervene`, without a mark) -/
theorem ctfAncestors_self (g : MG Name) (hg : g.WF) (v : Var) (A : List Var) (hA : ctfAncestors g v = .ok A)
    (hmin : minimize g v = .ok v) (hstar : v.isCf = true → v.star = none) : v ∈ A := by
  classical
  by_cases hcf : v.isCf = true
  · obtain ⟨hs, hc⟩ := ctfAncestors_all g hg v A hA
    have hmin' := minimize_spec g v v hcf hmin
    have hiv : v.isIv = false := (minimize_wf g v v hmin).2.2.2.1 hcf
    obtain ⟨w', hw', hsame⟩ := hc
      { name := v.name, ivs := v.ivs.filter (fun i => decide (AncBar g (subNames v) v.name i.name)) }
      ⟨ReflTransGen.refl, rfl, rfl, fun i => by simp only [List.mem_filter, decide_eq_true_eq]⟩
    obtain ⟨_, P, hP⟩ := hs w' hw'
    obtain ⟨h1, h2, h3, h4⟩ := hsame
    have h5 : w'.ivs = v.ivs := by
      rw [hP]
      apply List.filter_eq_self.2
      intro i hi
      have : i ∈ w'.ivs := (h4 i).2 (List.mem_filter.2 ⟨hi, by
        simp only [decide_eq_true_eq]; exact ((hmin'.2.2 i).1 hi).2⟩)
      rw [hP] at this
      exact (List.mem_filter.1 this).2
    have : w' = v := by
      have hs' := hstar hcf
      cases w'; cases v
      simp only at h1 h2 h3 h5 hs' hiv
      simp only [Var.mk.injEq]
      exact ⟨h1, by rw [h2, hs'], by rw [h3, hiv], h5⟩
    rw [← this]; exact hw'
  · have hcf' : v.isCf = false := by simpa using hcf
    have hv := plain_of_ctfAncestors g v A hcf' hA
    rw [hv] at hA
    rw [hv]
    exact (ctf_ancestors_plain g hg v.name A hA _).2 ⟨v.name, ⟨v.name, by simp, ReflTransGen.refl⟩, rfl⟩

/-- **every event variable is a member of the accumulated ancestors** `D = ancestralSet g ev`, when it is minimised and
(if counterfactual) carries no value mark.  No hypothesis on the nodes is needed: the success of the accumulation loop
already says that `get_ancestors_of_counterfactual` accepted every event variable. -/
theorem event_vars_in_ancestors (g : MG Name) (hg : g.WF) (ev : Event) (D : List Var)
    (hmin : ∀ p ∈ ev, minimize g p.1 = .ok p.1) (hstar : ∀ p ∈ ev, p.1.isCf = true → p.1.star = none)
    (hD : ancestralSet g ev = .ok D) : ∀ p ∈ ev, p.1 ∈ D := by
  intro p hp
  obtain ⟨A, hA⟩ := ancFold_each g ev [] D hD p hp
  exact (ancFold_mem' g ev [] D hD p.1).2
    (Or.inr ⟨p, hp, A, hA, ctfAncestors_self g hg p.1 A hA (hmin p hp) (hstar p hp)⟩)

/-! ### the event returned by SIMPLIFY is minimised -/

/-- SIMPLIFY (after the minimisation) only regroups and drops items: on an event without self-intervened variables every
item of the returned event, whatever its value, is an item of the input -/
theorem simplifyCore_sub (me : Event) (h : ∀ p ∈ me, selfIntervened p.1 = false) (e' : Event)
    (hc : simplifyCore me = .ok (some e')) : ∀ k x, (k, x) ∈ e' → (k, x) ∈ me := by
  obtain ⟨hsplit₁, hsplit₂⟩ := splitReflexive_plain me h
  have hreflkeys : ∀ p ∈ removeRepeated (splitReflexive me).1, p.1.isCf = false := by
    intro p hp
    obtain ⟨q, hq, hk⟩ := removeRepeated_key _ p hp
    rw [← hk]; exact ((hsplit₁ q).1 hq).2
  have hred := reduceReflexive_plain _ hreflkeys
  have hredhas : ∀ k x, (dropNone (reducePlain (removeRepeated (splitReflexive me).1) [])).Has k x →
      (removeRepeated (splitReflexive me).1).Has k x := by
    intro k x hh
    rcases (reducePlain_has _ _ k x).1 (dropNone_has _ k x hh) with h0 | h0
    · exact absurd h0 (VMap.has_nil _ _)
    · exact h0
  have inMe₂ : ∀ k x, (removeRepeated (splitReflexive me).2).Has k x → (k, x) ∈ me :=
    fun k x hh => ((hsplit₂ _).1 (removeRepeated_has _ k x hh)).1
  have inMe₁ : ∀ k x, (removeRepeated (splitReflexive me).1).Has k x → (k, x) ∈ me :=
    fun k x hh => ((hsplit₁ _).1 (removeRepeated_has _ k x hh)).1
  unfold simplifyCore at hc
  simp only [bind, Except.bind, hred] at hc
  cases h1 : anyInconsistent (removeRepeated (splitReflexive me).2) (removeRepeated (splitReflexive me).1) with
  | error e => rw [h1] at hc; cases hc
  | ok b1 =>
    rw [h1] at hc
    cases b1 with
    | true => simp [pure, Except.pure] at hc
    | false =>
      simp only [Bool.false_eq_true, ↓reduceIte] at hc
      cases h2 : anyInconsistent (removeRepeated (splitReflexive me).2)
          (dropNone (reducePlain (removeRepeated (splitReflexive me).1) [])) with
      | error e => rw [h2] at hc; cases hc
      | ok b2 =>
        rw [h2] at hc
        cases b2 with
        | true => simp [pure, Except.pure] at hc
        | false =>
          simp only [Bool.false_eq_true, ↓reduceIte] at hc
          cases ha : popAll (removeRepeated (splitReflexive me).2) with
          | error e => rw [ha] at hc; cases hc
          | ok a =>
            rw [ha] at hc
            cases hb : popAll (dropNone (reducePlain (removeRepeated (splitReflexive me).1) [])) with
            | error e => rw [hb] at hc; cases hc
            | ok b =>
              rw [hb] at hc
              simp only [pure, Except.pure, Except.ok.injEq, Option.some.injEq] at hc
              subst hc
              intro k x hkx
              rw [List.mem_append, popAll_ok _ _ ha, popAll_ok _ _ hb] at hkx
              rcases hkx with ⟨rest, hp⟩ | ⟨rest, hp⟩
              · exact inMe₂ _ _ ⟨_, hp, by simp⟩
              · exact inMe₁ _ _ (hredhas _ _ ⟨_, hp, by simp⟩)

/-- **every variable of an event returned by SIMPLIFY is minimised** (`‖v‖ = v`), for an input event without
self-intervened variables whose variables are named after nodes: SIMPLIFY first minimises every variable, the rest of
the algorithm only regroups and drops items, and minimisation is idempotent -/
theorem simplify_output_minimal (g : MG Name) (hg : g.WF) (e ev : Event) (hs : simplify g e = .ok (some ev))
    (hrefl : ∀ p ∈ e, selfIntervened p.1 = false) (hnode : ∀ p ∈ e, p.1.name ∈ g.nodes) :
    ∀ p ∈ ev, minimize g p.1 = .ok p.1 := by
  unfold simplify at hs
  split at hs
  · simp [bind, Except.bind, throw, throwThe, MonadExceptOf.throw] at hs
  · simp only [bind, Except.bind] at hs
    cases hme : minimizeEvent g e with
    | error err => rw [hme] at hs; cases hs
    | ok me =>
      rw [hme] at hs
      simp only at hs
      have hmem := minimizeEvent_mem g e me hme
      have hrefl' : ∀ p ∈ me, selfIntervened p.1 = false := by
        rintro ⟨k, x⟩ hp
        obtain ⟨v, hv, hm⟩ := (hmem k x).1 hp
        have hwf := minimize_wf g v k hm
        have h0 := hrefl (v, x) hv
        simp only [selfIntervened, List.any_eq_false, beq_iff_eq] at h0 ⊢
        intro i hi
        rw [hwf.1]
        exact h0 i (hwf.2.2.1 i hi)
      rintro ⟨k, x⟩ hp
      obtain ⟨v, hv, hm⟩ := (hmem k x).1 (simplifyCore_sub me hrefl' ev hs k x hp)
      exact minimize_idem g hg v k (hnode (v, x) hv) hm

/-! ### non-vacuity: `Z → X → Y` with `X ↔ Y` (X=0, Y=1, Z=2), the events `Y = -y` and `Y_{-x} = -y` -/

def l2fG : MG Name := MG.fromEdges [0, 1, 2] [(2, 0), (0, 1)] [(0, 1)]
def l2fEv : Event := [(Var.plain 1, some ⟨1, false⟩)]
def l2fEvCf : Event := [({ name := 1, ivs := [⟨0, false⟩] }, some ⟨1, false⟩)]

-- the hypotheses of `line2_factorize`, `summedNames_eq_range`, `event_vars_in_ancestors`, `simplify_output_minimal`
example : (line2 l2fG l2fEv).isOk = true ∧ (line2 l2fG l2fEvCf).isOk = true := by decide
example : ancestralSet l2fG l2fEv = .ok [Var.plain 1, Var.plain 0, Var.plain 2] := by decide
example : ancestralSet l2fG l2fEvCf = .ok [{ name := 1, ivs := [⟨0, false⟩] }] := by decide
example : multiWorld [Var.plain 1, Var.plain 0, Var.plain 2] = false := by decide
example : (∀ p ∈ l2fEv, minimize l2fG p.1 = .ok p.1) ∧ (∀ p ∈ l2fEvCf, minimize l2fG p.1 = .ok p.1) := by decide
example : ∀ p ∈ l2fEvCf, p.1.isCf = true → p.1.star = none := by decide
example : simplify l2fG l2fEv = .ok (some l2fEv) ∧ simplify l2fG l2fEvCf = .ok (some l2fEvCf) := by decide
-- the two ancestors that are not the outcome are summed
example : summedNames (withValues l2fEv [Var.plain 1, Var.plain 0, Var.plain 2]) l2fEv = [0, 2] := by decide
-- the value mark matters in `event_vars_in_ancestors`: the members of `An(Y_x)` carry none
example : ancestralSet l2fG [({ name := 1, star := some true, ivs := [⟨0, false⟩] }, some ⟨1, true⟩)] =
    .ok [{ name := 1, ivs := [⟨0, false⟩] }] := by decide

end Y0.CtfTr
