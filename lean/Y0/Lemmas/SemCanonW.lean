/-
  Y0.Lemmas.SemCanonW — the canonicaliser preserves the denotation on the WIDENED class `Expr.wssW` (multi-world joint
  leaves, children sharing a base variable): `canonL_denW`.  Same induction as `canonL_den` (SemCanon.lean); the only
  leaf-level rewriting, `Sum.simplify`, rebuilds a joint only when its children have pairwise distinct base variables
  (the guard of the repaired code), and then the marginalisation law `pr_marg` of `ProbFamily` applies world by world.
-/
import Y0.Lemmas.SemCanon
import Y0.Lemmas.CanonScopeW

namespace Y0
set_option linter.unusedSimpArgs false
set_option linter.unusedVariables false
set_option linter.unusedTactic false
set_option linter.unreachableTactic false

variable {env : Env} {σ' : Val}

/-- the side conditions of `Sum.simplify` on a joint leaf of the widened class whose guard passes (`hn`) -/
theorem sumLeafOK_of_wssW {S : List Name} {pop : Option Var} {c r : List Var}
    (hw : Expr.wssW S (.prob pop c []) = true) (hr : rangesOK S r = true) (hn : (c.map (·.name)).Nodup) :
    SumLeafOK c (upgradeOrdering r) := by
  have hleaf : LeafOKWP S c [] := leafOKW_iff.mp (by simpa [Expr.wssW] using hw)
  obtain ⟨_, hr2⟩ := rangesOK_iff.mp hr
  have hmem : ∀ v, v ∈ upgradeOrdering r → v ∈ r := fun v hv => mem_upgradeOrdering.mp hv
  have hS : ∀ v : Var, v.base ∈ upgradeOrdering r → v.name ∈ S := by
    intro v hb
    have := (hr2 _ (hmem _ hb)).2
    simpa [Var.base] using this
  refine ⟨fun v hv => (hr2 v (hmem v hv)).1, nodup_upgradeOrdering r, hn, ?_, ?_⟩
  · intro v hv hb hst
    exact hleaf.plus v (by simpa using hv) hst (hS v hb)
  · intro w hw i hi hst v hv hb e
    rcases hleaf.subs v (by simpa using hv) w (by simpa using hw) i hi e with h | h
    · rw [hst] at h; cases h
    · exact h (hS v hb)

/-- `Sum.safe(e, r, simplify=b)` denotes the sum — side conditions needed only for a joint leaf whose guard passes -/
theorem sumSafe_den_w (hF : ProbFamily env) (e : Expr) (r : List Var) (b : Bool)
    (hleaf : ∀ pop c, e = .prob pop c [] → (c.map (·.name)).Nodup → SumLeafOK c (upgradeOrdering r)) (σ : Val) :
    den env σ' (sumSafe e r b) σ =
      sumVars env.card ((upgradeOrdering r).map (·.name)) (fun τ => den env σ' e τ) σ := by
  unfold sumSafe
  simp only
  by_cases h : (upgradeOrdering r).isEmpty = true
  · rw [if_pos h]
    have : upgradeOrdering r = [] := List.isEmpty_iff.mp h
    rw [this]; rfl
  · rw [if_neg h]
    cases e <;> simp only <;> first
      | (simp [sumVars_zero]; done)
      | (split
         · exact sumSimplify_den_w hF _ _ hleaf σ
         · simp)

/-! ### the canonicaliser preserves the denotation (widened class) -/

mutual
theorem canonL_denW (hF : ProbFamily env) {S : List Name} {lvl : Name → Option Nat} : ∀ (e e' : Expr),
    Expr.wssW S e = true → DenNZ env σ' e → canonL lvl e = .ok e' →
    (∀ σ, InRange env σ → den env σ' e' σ = den env σ' e σ) ∧ DenNZ env σ' e'
  | .prob pop c p, e', hw, hz, h => by
    unfold canonL at h
    obtain ⟨c', hc, h⟩ := bind_ok h
    obtain ⟨p', hp, h⟩ := bind_ok h
    cases h
    refine ⟨fun σ _ => ?_, by simp⟩
    have hcp := sortVars_perm hc
    have hpp := sortVars_perm hp
    simp only [den_prob]
    rw [hF.pr_perm _ _ _ ((hcp.append hpp).map (Var.atom σ σ')), hF.pr_perm _ _ _ (hpp.map (Var.atom σ σ'))]
  | .sum e r, e', hw, hz, h => by
    unfold canonL at h
    obtain ⟨x, hx, h⟩ := bind_ok h
    cases h
    obtain ⟨hr, hwe⟩ := wssW_sum_iff.mp hw
    obtain ⟨ih1, ih2⟩ := canonL_denW hF e x hwe (denNZ_sum_iff.mp hz) hx
    have hwx := wssW_canonL e x hwe hx
    refine ⟨fun σ hσ => ?_, denNZ_sumSafe true ih2⟩
    rw [sumSafe_den_w hF x r true (fun pop c hxe hn => sumLeafOK_of_wssW (hxe ▸ hwx) hr hn) σ, den_sum]
    rw [congrFun (sumVars_perm env.card ((upgradeOrdering_perm_of_nodup (nodup_of_rangesOK hr)).map _) _) σ]
    exact sumVars_congr_inRange _ ih1 σ hσ
  | .prod fs, e', hw, hz, h => by
    unfold canonL at h
    obtain ⟨x, hx, h⟩ := bind_ok h
    cases h
    obtain ⟨ih1, ih2⟩ := canonFactors_denW hF fs x (wssW_prod_iff.mp hw) (denNZ_prod_iff.mp hz) hx
    refine ⟨fun σ hσ => ?_, denNZ_productSafe (denNZ_flattenFactors x ih2)⟩
    rw [productSafe_den, denProd_flattenFactors, ih1 σ hσ, den_prod]
  | .frac n d, e', hw, hz, h => by
    unfold canonL at h
    obtain ⟨n', hn, h⟩ := bind_ok h
    obtain ⟨d', hd, h⟩ := bind_ok h
    obtain ⟨hwn, hwd⟩ := wssW_frac_iff.mp hw
    obtain ⟨hzn, hzd, hnz⟩ := denNZ_frac_iff.mp hz
    obtain ⟨in1, in2⟩ := canonL_denW hF n n' hwn hzn hn
    obtain ⟨id1, id2⟩ := canonL_denW hF d d' hwd hzd hd
    have hnz' : NZ env σ' d' := fun σ hσ => by rw [id1 σ hσ]; exact hnz σ hσ
    split at h
    · rename_i hone
      cases h
      refine ⟨fun σ hσ => ?_, in2⟩
      have := id1 σ hσ
      rw [Expr.isOne_iff.mp hone] at this
      rw [den_frac, in1 σ hσ, ← this]; simp
    · split at h
      · rename_i heq
        cases h
        refine ⟨fun σ hσ => ?_, by simp⟩
        have hnd : n' = d' := Expr.eqb_sound _ _ heq
        have e1 : den env σ' n σ = den env σ' d σ := by rw [← in1 σ hσ, ← id1 σ hσ, hnd]
        rw [den_frac, e1, div_self (hnz σ hσ)]; simp
      · obtain ⟨rv, hrv, h⟩ := bind_ok h
        cases h
        have hrvz := denNZ_div _ _ _ in2 id2 hnz' hrv
        refine ⟨fun σ hσ => ?_, denNZ_postFrac hrvz⟩
        rw [den_postFrac hrvz σ hσ, div_den _ _ _ hrv, in1 σ hσ, id1 σ hσ, den_frac]
  | .one, e', hw, hz, h => by unfold canonL at h; cases h; exact ⟨fun _ _ => rfl, by simp⟩
  | .zero, e', hw, hz, h => by unfold canonL at h; cases h; exact ⟨fun _ _ => rfl, by simp⟩
  | .q _ _, e', hw, hz, h => by simp [Expr.wssW] at hw
theorem canonFactors_denW (hF : ProbFamily env) {S : List Name} {lvl : Name → Option Nat} : ∀ (fs fs' : List Expr),
    (∀ e ∈ fs, Expr.wssW S e = true) → (∀ e ∈ fs, DenNZ env σ' e) → canonFactors lvl fs = .ok fs' →
    (∀ σ, InRange env σ → denProd env σ' fs' σ = denProd env σ' fs σ) ∧ (∀ e ∈ fs', DenNZ env σ' e)
  | [], fs', hw, hz, h => by
    unfold canonFactors at h; cases h
    exact ⟨fun _ _ => rfl, fun e he => by cases he⟩
  | .prod gs :: rest, fs', hw, hz, h => by
    unfold canonFactors at h
    obtain ⟨a, ha, h⟩ := bind_ok h
    obtain ⟨b, hb, h⟩ := bind_ok h
    cases h
    obtain ⟨i1, i2⟩ := canonFactors_denW hF gs a (wssW_prod_iff.mp (hw _ List.mem_cons_self))
      (denNZ_prod_iff.mp (hz _ List.mem_cons_self)) ha
    obtain ⟨j1, j2⟩ := canonFactors_denW hF rest b (fun x hx => hw x (List.mem_cons_of_mem _ hx))
      (fun x hx => hz x (List.mem_cons_of_mem _ hx)) hb
    refine ⟨fun σ hσ => ?_, fun e he => ?_⟩
    · rw [denProd_append, i1 σ hσ, j1 σ hσ, denProd_cons, den_prod]
    · rcases List.mem_append.mp he with he | he
      · exact i2 e he
      · exact j2 e he
  | .prob pop c p :: rest, fs', hw, hz, h => by
    unfold canonFactors at h
    obtain ⟨a, ha, h⟩ := bind_ok h
    obtain ⟨b, hb, h⟩ := bind_ok h
    cases h
    obtain ⟨i1, i2⟩ := canonL_denW hF _ a (hw _ List.mem_cons_self) (hz _ List.mem_cons_self) ha
    obtain ⟨j1, j2⟩ := canonFactors_denW hF rest b (fun x hx => hw x (List.mem_cons_of_mem _ hx))
      (fun x hx => hz x (List.mem_cons_of_mem _ hx)) hb
    refine ⟨fun σ hσ => ?_, fun e he => ?_⟩
    · rw [denProd_cons, denProd_cons, i1 σ hσ, j1 σ hσ]
    · rcases List.mem_cons.mp he with rfl | he
      · exact i2
      · exact j2 e he
  | .sum e0 r :: rest, fs', hw, hz, h => by
    unfold canonFactors at h
    obtain ⟨a, ha, h⟩ := bind_ok h
    obtain ⟨b, hb, h⟩ := bind_ok h
    cases h
    obtain ⟨i1, i2⟩ := canonL_denW hF _ a (hw _ List.mem_cons_self) (hz _ List.mem_cons_self) ha
    obtain ⟨j1, j2⟩ := canonFactors_denW hF rest b (fun x hx => hw x (List.mem_cons_of_mem _ hx))
      (fun x hx => hz x (List.mem_cons_of_mem _ hx)) hb
    refine ⟨fun σ hσ => ?_, fun e he => ?_⟩
    · rw [denProd_cons, denProd_cons, i1 σ hσ, j1 σ hσ]
    · rcases List.mem_cons.mp he with rfl | he
      · exact i2
      · exact j2 e he
  | .frac n d :: rest, fs', hw, hz, h => by
    unfold canonFactors at h
    obtain ⟨a, ha, h⟩ := bind_ok h
    obtain ⟨b, hb, h⟩ := bind_ok h
    cases h
    obtain ⟨i1, i2⟩ := canonL_denW hF _ a (hw _ List.mem_cons_self) (hz _ List.mem_cons_self) ha
    obtain ⟨j1, j2⟩ := canonFactors_denW hF rest b (fun x hx => hw x (List.mem_cons_of_mem _ hx))
      (fun x hx => hz x (List.mem_cons_of_mem _ hx)) hb
    refine ⟨fun σ hσ => ?_, fun e he => ?_⟩
    · rw [denProd_cons, denProd_cons, i1 σ hσ, j1 σ hσ]
    · rcases List.mem_cons.mp he with rfl | he
      · exact i2
      · exact j2 e he
  | .one :: rest, fs', hw, hz, h => by
    unfold canonFactors at h
    obtain ⟨a, ha, h⟩ := bind_ok h
    obtain ⟨b, hb, h⟩ := bind_ok h
    cases h
    obtain ⟨i1, i2⟩ := canonL_denW hF _ a (hw _ List.mem_cons_self) (hz _ List.mem_cons_self) ha
    obtain ⟨j1, j2⟩ := canonFactors_denW hF rest b (fun x hx => hw x (List.mem_cons_of_mem _ hx))
      (fun x hx => hz x (List.mem_cons_of_mem _ hx)) hb
    refine ⟨fun σ hσ => ?_, fun e he => ?_⟩
    · rw [denProd_cons, denProd_cons, i1 σ hσ, j1 σ hσ]
    · rcases List.mem_cons.mp he with rfl | he
      · exact i2
      · exact j2 e he
  | .zero :: rest, fs', hw, hz, h => by
    unfold canonFactors at h
    obtain ⟨a, ha, h⟩ := bind_ok h
    obtain ⟨b, hb, h⟩ := bind_ok h
    cases h
    obtain ⟨i1, i2⟩ := canonL_denW hF _ a (hw _ List.mem_cons_self) (hz _ List.mem_cons_self) ha
    obtain ⟨j1, j2⟩ := canonFactors_denW hF rest b (fun x hx => hw x (List.mem_cons_of_mem _ hx))
      (fun x hx => hz x (List.mem_cons_of_mem _ hx)) hb
    refine ⟨fun σ hσ => ?_, fun e he => ?_⟩
    · rw [denProd_cons, denProd_cons, i1 σ hσ, j1 σ hσ]
    · rcases List.mem_cons.mp he with rfl | he
      · exact i2
      · exact j2 e he
  | .q dd cc :: rest, fs', hw, hz, h => by
    have := hw _ List.mem_cons_self
    simp [Expr.wssW] at this
end


end Y0
