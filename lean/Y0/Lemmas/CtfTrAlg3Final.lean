/-
  Y0.Lemmas.CtfTrAlg3Final — line 4 of Algorithm 3 (`CtfTr.line4C`): the `Fraction` constructor and the five final
  checks of `_validate_transport_conditional_counterfactual_query_line_4_output` never raise under explicit hypotheses
  on `D*`, on the simplified event and on the expression `Q` returned by Algorithm 2.
-/
import Y0.Lemmas.CtfTrAlg3Simplify

namespace Y0.CtfTr
open Ctf Relation Y0.MG

/-! ### DSL facts -/

theorem mem_sortVars (vs : List Var) (v : Var) : v ∈ TrDsl.sortVars vs ↔ v ∈ vs := by
  unfold TrDsl.sortVars
  rw [(ssort_perm _ _).mem_iff, mem_dedup']

theorem iterVars_frac (n d : Expr) : Expr.iterVars (.frac n d) = Expr.iterVars n ++ Expr.iterVars d := by
  simp only [Expr.iterVars]

theorem iterVars_sum (e : Expr) (r : List Var) : Expr.iterVars (.sum e r) = Expr.iterVars e ++ r := by
  simp only [Expr.iterVars]

/-- the variables of `Sum.safe(q, R)` are those of `q` and the ranges -/
theorem mem_iterVars_sumSafe (q : Expr) (R : List Var) (v : Var) (h : v ∈ Expr.iterVars (TrDsl.sumSafe q R)) :
    v ∈ Expr.iterVars q ∨ v ∈ R := by
  unfold TrDsl.sumSafe at h
  simp only [Bool.false_eq_true, ↓reduceIte] at h
  split at h
  · exact Or.inl h
  · split at h
    · exact Or.inl h
    · rw [iterVars_sum, List.mem_append] at h
      rcases h with h | h
      · exact Or.inl h
      · exact Or.inr ((mem_sortVars R v).1 h)

/-- with a non-`Zero` summand every range is a variable of `Sum.safe(q, R)` -/
theorem range_mem_iterVars_sumSafe (q : Expr) (R : List Var) (hq : TrDsl.isZero q = false) (v : Var) (hv : v ∈ R) :
    v ∈ Expr.iterVars (TrDsl.sumSafe q R) := by
  have hne : (TrDsl.sortVars R).isEmpty = false := by
    cases hs : TrDsl.sortVars R with
    | nil => have := (mem_sortVars R v).2 hv; rw [hs] at this; cases this
    | cons a l => rfl
  unfold TrDsl.sumSafe
  simp only [hne, hq, Bool.false_eq_true, ↓reduceIte]
  rw [iterVars_sum, List.mem_append]
  exact Or.inr ((mem_sortVars R v).2 hv)

theorem isZero_sumSafe (q : Expr) (R : List Var) (hq : TrDsl.isZero q = false) :
    TrDsl.isZero (TrDsl.sumSafe q R) = false := by
  unfold TrDsl.sumSafe
  simp only [hq, Bool.false_eq_true, ↓reduceIte]
  split
  · exact hq
  · rfl

/-! ### the dict of the final checks -/

theorem lastValue_some (s : Event) (n : Name) (i : Iv) (h : lastValue s n = some i) :
    ∃ p ∈ s, p.1.name = n ∧ p.2 = some i := by
  unfold lastValue at h
  split at h
  · rename_i p hf
    refine ⟨p, List.mem_reverse.1 (List.mem_of_find?_eq_some hf), ?_, h⟩
    have := List.find?_some hf
    simpa using this
  · cases h

/-! ### the final checks -/

/-- the expression `Q` of Algorithm 2 only mentions graph vertices (as plain variables) and variables of the domains'
distributions -/
def VocabOK (target : MG Name) (ds : List Domain) (q : Expr) : Prop :=
  ∀ v ∈ Expr.iterVars q, (∃ n ∈ target.nodes, v = Var.plain n) ∨ ∃ d ∈ ds, v ∈ Expr.iterVars d.pop

/-- every graph vertex is a variable of some domain's distribution (true of `PP[π](V)`, the distributions the public
wrapper `CFTDomain` builds) -/
def PopsCoverNodes (target : MG Name) (ds : List Domain) : Prop :=
  ∀ n ∈ target.nodes, ∃ d ∈ ds, Var.plain n ∈ Expr.iterVars d.pop

theorem plainIn_iff (v : Var) (names : List Name) : plainIn v names = true ↔ ∃ n ∈ names, v = Var.plain n := by
  unfold plainIn
  rw [mem'_iff, List.mem_map]
  constructor
  · rintro ⟨n, hn, rfl⟩; exact ⟨n, hn, rfl⟩
  · rintro ⟨n, hn, rfl⟩; exact ⟨n, hn, rfl⟩

/-- **line 4 never raises**: the `Fraction` is built and the five final checks pass, when
* `Q` is not `Zero()` and only mentions graph vertices and variables of the domains' distributions,
* every entry of the simplified event carries the value of an entry of `D*` with the same vertex,
* `D*` names every vertex in one world, every outcome is found in it, all query values are present,
* no outcome shares its vertex with a condition. -/
theorem line4C_ok (target : MG Name) (ds : List Domain) (o c : Event) (D : List Var) (dstar : Event)
    (dNames : List Name) (q : Expr) (simplified : Event)
    (hfacts : DstarFacts target o D dstar dNames)
    (hstrict : ∀ p ∈ o ++ c, p.2.isSome = true)
    (hsim : ∀ p ∈ simplified, ∃ r ∈ dstar, r.1.name = p.1.name ∧ r.2 = p.2)
    (hone : (D.map (·.name)).Nodup) (hfound : ∀ p ∈ o, p.1 ∈ D)
    (hdisj : ∀ p ∈ o, ∀ r ∈ c, p.1.name ≠ r.1.name)
    (hqnz : TrDsl.isZero q = false) (hvocab : VocabOK target ds q) (hpop : PopsCoverNodes target ds) :
    ∃ a, line4C ds o c dNames q simplified = .ok a := by
  have hso : ∀ p ∈ o, p.2.isSome = true := fun p hp => hstrict p (List.mem_append_left _ hp)
  -- the expression
  have hden : TrDsl.isZero (TrDsl.sumSafe q ((diff' dNames (eventNames c)).map Var.plain)) = false :=
    isZero_sumSafe q _ hqnz
  have hexpr : line4Expr q dNames (eventNames (c ++ o)) (eventNames c) =
      .ok (.frac (TrDsl.sumSafe q ((diff' dNames (eventNames (c ++ o))).map Var.plain))
        (TrDsl.sumSafe q ((diff' dNames (eventNames c)).map Var.plain))) := by
    unfold line4Expr TrDsl.mkFrac
    simp only [hden, Bool.false_eq_true, ↓reduceIte]
  generalize hE : Expr.frac (TrDsl.sumSafe q ((diff' dNames (eventNames (c ++ o))).map Var.plain))
        (TrDsl.sumSafe q ((diff' dNames (eventNames c)).map Var.plain)) = expr at hexpr
  -- check 1
  have h1 : ¬ (simplified.any fun p => (lastValue simplified p.1.name).isSome &&
      decide (p.1.name ∉ eventNames (c ++ o))) = true := by
    intro h
    obtain ⟨p, hp, hcond⟩ := List.any_eq_true.1 h
    simp only [Bool.and_eq_true, decide_eq_true_eq] at hcond
    obtain ⟨hsome, hnot⟩ := hcond
    obtain ⟨i, hi⟩ := Option.isSome_iff_exists.1 hsome
    obtain ⟨p', hp', hn', hv'⟩ := lastValue_some simplified _ i hi
    obtain ⟨r, hr, hrn, hrv⟩ := hsim p' hp'
    obtain ⟨p0, hp0, hp0n, _, _⟩ := hfacts.value r hr i (by rw [hrv, hv'])
    apply hnot
    exact (mem_eventNames (c ++ o) _).2 ⟨p0, List.mem_append_right _ hp0, by rw [hp0n, hrn, hn']⟩
  -- check 2
  have h2 : ¬ (simplified.any fun p => (lastValue simplified p.1.name).isSome &&
      !mem' p.2 (namesToValues o c p.1.name)) = true := by
    intro h
    obtain ⟨p, hp, hcond⟩ := List.any_eq_true.1 h
    simp only [Bool.and_eq_true, Bool.not_eq_eq_eq_not, Bool.not_true] at hcond
    obtain ⟨hsome, hnot⟩ := hcond
    obtain ⟨i, hi⟩ := Option.isSome_iff_exists.1 hsome
    obtain ⟨p', hp', hn', hv'⟩ := lastValue_some simplified _ i hi
    obtain ⟨r, hr, hrn, hrv⟩ := hsim p hp
    obtain ⟨r', hr', hrn', hrv'⟩ := hsim p' hp'
    have hsame := hfacts.same_name hone hso r r' hr hr' (by rw [hrn, hrn', hn'])
    rw [hrv, hrv', hv'] at hsame
    cases hp2 : p.2 with
    | none => rw [hp2] at hsame; cases hsame
    | some j =>
      obtain ⟨p0, hp0, hp0n, hp0v, _⟩ := hfacts.value r hr j (by rw [hrv, hp2])
      have : mem' p.2 (namesToValues o c p.1.name) = true := by
        rw [mem'_iff, hp2]
        simp only [namesToValues, mem_dedup', List.mem_map, List.mem_filter, decide_eq_true_eq]
        exact ⟨p0, ⟨List.mem_append_left _ hp0, by rw [hp0n, hrn]⟩, hp0v⟩
      rw [this] at hnot; cases hnot
  -- check 3
  have hrange : ∀ n ∈ dNames, plainIn (Var.plain n) (diff' dNames (eventNames (c ++ o))) = true ∨
      plainIn (Var.plain n) (eventNames (c ++ o)) = true := by
    intro n hn
    by_cases hoc : n ∈ eventNames (c ++ o)
    · exact Or.inr ((plainIn_iff _ _).2 ⟨n, hoc, rfl⟩)
    · exact Or.inl ((plainIn_iff _ _).2 ⟨n, by simp [diff', hn, hoc], rfl⟩)
  have h3 : ¬ (!(Expr.iterVars expr).all (fun v => plainIn v (diff' dNames (eventNames (c ++ o))) ||
      plainIn v (eventNames (c ++ o)) || ds.any fun d => mem' v (Expr.iterVars d.pop))) = true := by
    suffices hall : (Expr.iterVars expr).all (fun v => plainIn v (diff' dNames (eventNames (c ++ o))) ||
        plainIn v (eventNames (c ++ o)) || ds.any fun d => mem' v (Expr.iterVars d.pop)) = true by
      rw [hall]; simp
    apply List.all_eq_true.2
    intro v hv
    have hq : ∀ w ∈ Expr.iterVars q, (plainIn w (diff' dNames (eventNames (c ++ o))) ||
        plainIn w (eventNames (c ++ o)) || ds.any fun d => mem' w (Expr.iterVars d.pop)) = true := by
      intro w hw
      rcases hvocab w hw with ⟨n, hn, rfl⟩ | ⟨d, hd, hwd⟩
      · obtain ⟨d, hd, hnd⟩ := hpop n hn
        simp only [Bool.or_eq_true]
        exact Or.inr (List.any_eq_true.2 ⟨d, hd, (mem'_iff _ _).2 hnd⟩)
      · simp only [Bool.or_eq_true]
        exact Or.inr (List.any_eq_true.2 ⟨d, hd, (mem'_iff _ _).2 hwd⟩)
    have hr : ∀ names : List Name, (∀ n ∈ names, n ∈ dNames) → ∀ w ∈ names.map Var.plain,
        (plainIn w (diff' dNames (eventNames (c ++ o))) || plainIn w (eventNames (c ++ o)) ||
          ds.any fun d => mem' w (Expr.iterVars d.pop)) = true := by
      intro names hsub w hw
      obtain ⟨n, hn, rfl⟩ := List.mem_map.1 hw
      simp only [Bool.or_eq_true]
      rcases hrange n (hsub n hn) with h | h
      · exact Or.inl (Or.inl h)
      · exact Or.inl (Or.inr h)
    rw [← hE, iterVars_frac, List.mem_append] at hv
    rcases hv with hv | hv
    · rcases mem_iterVars_sumSafe q _ v hv with h | h
      · exact hq v h
      · exact hr _ (fun n hn => (List.mem_filter.1 hn).1) v h
    · rcases mem_iterVars_sumSafe q _ v hv with h | h
      · exact hq v h
      · exact hr _ (fun n hn => (List.mem_filter.1 hn).1) v h
  -- check 4
  have h4 : ¬ ((line4Event expr o c).any fun p => p.2.isNone) = true := by
    intro h
    obtain ⟨p, hp, hnone⟩ := List.any_eq_true.1 h
    unfold line4Event at hp
    rcases List.mem_append.1 hp with hp | hp
    · obtain ⟨p0, hp0, rfl⟩ := List.mem_map.1 hp
      have := hstrict p0 (List.mem_append_left _ hp0)
      simp only at hnone
      cases h0 : p0.2 <;> simp_all
    · obtain ⟨p0, hp0, rfl⟩ := List.mem_map.1 hp
      have := hstrict p0 (List.mem_append_right _ (List.mem_filter.1 hp0).1)
      simp only at hnone
      cases h0 : p0.2 <;> simp_all
  -- check 5
  have h5 : ¬ (!(line4Event expr o c).all fun p => mem' p.1 (Expr.iterVars expr)) = true := by
    suffices hall : ((line4Event expr o c).all fun p => mem' p.1 (Expr.iterVars expr)) = true by
      rw [hall]; simp
    apply List.all_eq_true.2
    intro p hp
    unfold line4Event at hp
    rcases List.mem_append.1 hp with hp | hp
    · obtain ⟨p0, hp0, rfl⟩ := List.mem_map.1 hp
      simp only
      rw [mem'_iff, ← hE, iterVars_frac, List.mem_append]
      refine Or.inr (range_mem_iterVars_sumSafe q _ hqnz _ ?_)
      refine List.mem_map.2 ⟨p0.1.name, ?_, rfl⟩
      obtain ⟨r, hr, hrn, _⟩ := hfacts.found p0 hp0 (hfound p0 hp0)
      simp only [diff', List.mem_filter, decide_eq_true_eq]
      refine ⟨(hfacts.mem_names _).2 ⟨r, hr, hrn⟩, fun hc => ?_⟩
      obtain ⟨r0, hr0, hr0n⟩ := (mem_eventNames c _).1 hc
      exact hdisj p0 hp0 r0 hr0 hr0n.symm
    · obtain ⟨p0, hp0, rfl⟩ := List.mem_map.1 hp
      exact (List.mem_filter.1 hp0).2
  refine ⟨(expr, some (line4Event expr o c)), ?_⟩
  unfold line4C
  simp only [bind, Except.bind, hexpr]
  unfold finalChecks
  rw [if_neg h1, if_neg h2, if_neg h3, if_neg h4, if_neg h5]
  rfl

end Y0.CtfTr
