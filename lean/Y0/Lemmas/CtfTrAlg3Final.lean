/-
  Y0.Lemmas.CtfTrAlg3Final — line 4 of Algorithm 3 (`CtfTr.line4C`): the `Fraction` constructor and the five final
  checks of `_validate_transport_conditional_counterfactual_query_line_4_output` never raise under explicit hypotheses
  on `D*`, on the simplified event and on the expression `Q` returned by Algorithm 2.
-/
import Y0.Lemmas.CtfTrAlg3Simplify

namespace Y0.CtfTr
open Ctf Relation Y0.MG

/-! ### DSL facts -/

theorem mem_sortVars (vs : List Var) (v : Var) : v ∈ TrDsl.sortVars vs ↔ v ∈ vs := by
  unfold TrDsl.sortVars
  rw [(ssort_perm _ _).mem_iff, mem_dedup']

theorem iterVars_frac (n d : Expr) : Expr.iterVars (.frac n d) = Expr.iterVars n ++ Expr.iterVars d := by
  simp only [Expr.iterVars]

theorem iterVars_sum (e : Expr) (r : List Var) : Expr.iterVars (.sum e r) = Expr.iterVars e ++ r := by
  simp only [Expr.iterVars]

/-- the variables of `Sum.safe(q, R)` are those of `q` and the ranges -/
theorem mem_iterVars_sumSafe (q : Expr) (R : List Var) (v : Var) (h : v ∈ Expr.iterVars (TrDsl.sumSafe q R)) :
    v ∈ Expr.iterVars q ∨ v ∈ R := by
  unfold TrDsl.sumSafe at h
  simp only [Bool.false_eq_true, ↓reduceIte] at h
  split at h
  · exact Or.inl h
  · split at h
    · exact Or.inl h
    · rw [iterVars_sum, List.mem_append] at h
      rcases h with h | h
      · exact Or.inl h
      · exact Or.inr ((mem_sortVars R v).1 h)

/-- with a non-`Zero` summand every range is a variable of `Sum.safe(q, R)` -/
theorem range_mem_iterVars_sumSafe (q : Expr) (R : List Var) (hq : TrDsl.isZero q = false) (v : Var) (hv : v ∈ R) :
    v ∈ Expr.iterVars (TrDsl.sumSafe q R) := by
  have hne : (TrDsl.sortVars R).isEmpty = false := by
    cases hs : TrDsl.sortVars R with
    | nil => have := (mem_sortVars R v).2 hv; rw [hs] at this; cases this
    | cons a l => rfl
  unfold TrDsl.sumSafe
  simp only [hne, hq, Bool.false_eq_true, ↓reduceIte]
  rw [iterVars_sum, List.mem_append]
  exact Or.inr ((mem_sortVars R v).2 hv)

theorem isZero_sumSafe (q : Expr) (R : List Var) (hq : TrDsl.isZero q = false) :
    TrDsl.isZero (TrDsl.sumSafe q R) = false := by
  unfold TrDsl.sumSafe
  simp only [hq, Bool.false_eq_true, ↓reduceIte]
  split
  · exact hq
  · rfl

/-! ### the dict of the final checks -/

theorem lastValue_some (s : Event) (n : Name) (i : Iv) (h : lastValue s n = some i) :
    ∃ p ∈ s, p.1.name = n ∧ p.2 = some i := by
  unfold lastValue at h
  split at h
  · rename_i p hf
    refine ⟨p, List.mem_reverse.1 (List.mem_of_find?_eq_some hf), ?_, h⟩
    have := List.find?_some hf
    simpa using this
  · cases h

/-! ### the final checks -/

/-- the expression `Q` of Algorithm 2 only mentions graph vertices (as plain variables) and variables of the domains'
distributions -/
def VocabOK (target : MG Name) (ds : List Domain) (q : Expr) : Prop :=
  ∀ v ∈ Expr.iterVars q, (∃ n ∈ target.nodes, v = Var.plain n) ∨ ∃ d ∈ ds, v ∈ Expr.iterVars d.pop

/-- every graph vertex is a variable of some domain's distribution (true of `PP[π](V)`, the distributions the public
wrapper `CFTDomain` builds) -/
def PopsCoverNodes (target : MG Name) (ds : List Domain) : Prop :=
  ∀ n ∈ target.nodes, ∃ d ∈ ds, Var.plain n ∈ Expr.iterVars d.pop

theorem plainIn_iff (v : Var) (names : List Name) : plainIn v names = true ↔ ∃ n ∈ names, v = Var.plain n := by
  unfold plainIn
  rw [mem'_iff, List.mem_map]
  constructor
  · rintro ⟨n, hn, rfl⟩; exact ⟨n, hn, rfl⟩
  · rintro ⟨n, hn, rfl⟩; exact ⟨n, hn, rfl⟩

end Y0.CtfTr
