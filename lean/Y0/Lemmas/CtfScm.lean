/-
  Y0.Lemmas.CtfScm — semantic lemmas of property C19 over the functional SCMs of Y0/Spec/Fscm.lean (owned by the `cf`
  family): two worlds that agree on an ancestrally closed set of variables yield the same solution there.
-/
import Y0.Lemmas.CfFscm
import Y0.Lemmas.Ctf
import Y0.Spec.CtfSem

namespace Y0.Ctf
open Relation Y0.MG Y0.Fscm

/-- **Two worlds agree on a closed set.**  Let `InA` be a set of variables such that the two worlds force the same
value (or nothing) on each member, and the mechanism arguments of every unforced member are members.  Then the two
solutions coincide on `InA`, at every noise point. -/
theorem solve_agree (M : Model) (u : NoisePoint) (d₁ d₂ : Do) (InA : Name → Prop)
    (hforced : ∀ a, InA a → forced d₁ a = forced d₂ a)
    (hpa : ∀ a, InA a → forced d₁ a = none → ∀ p ∈ M.pa a, InA p)
    (hnodup : M.order.Nodup)
    (htopo : ∀ l₁ v l₂, M.order = l₁ ++ v :: l₂ → ∀ p ∈ M.pa v, p ∈ l₁) :
    ∀ a, InA a → solve M u d₁ a = solve M u d₂ a := by
  suffices H : ∀ (l₂ l₁ : List Name) (σ₁ σ₂ : Valuation), M.order = l₁ ++ l₂ →
      (∀ a, InA a → a ∉ l₂ → σ₁ a = σ₂ a) →
      ∀ a, InA a → (l₂.foldl (step M u d₁) σ₁) a = (l₂.foldl (step M u d₂) σ₂) a by
    exact H M.order [] _ _ rfl (fun _ _ _ => rfl)
  intro l₂
  induction l₂ with
  | nil => intro l₁ σ₁ σ₂ _ hinv a ha; exact hinv a ha (by simp)
  | cons v l₂ ih =>
    intro l₁ σ₁ σ₂ hord hinv
    simp only [List.foldl_cons]
    apply ih (l₁ ++ [v]) _ _ (by simp [hord])
    intro a ha hnot
    by_cases hav : a = v
    · subst hav
      unfold step
      rw [← hforced a ha]
      cases hf : forced d₁ a with
      | some x => simp [update]
      | none =>
        simp only [update, ↓reduceIte]
        congr 1
        apply List.map_congr_left
        intro p hp
        apply hinv p (hpa a ha hf p hp)
        have hp₁ : p ∈ l₁ := htopo l₁ a l₂ hord p hp
        rw [hord] at hnodup
        intro hmem
        exact (List.nodup_append.1 hnodup).2.2 p hp₁ p hmem rfl
    · rw [step_other M u d₁ σ₁ v a hav, step_other M u d₂ σ₂ v a hav]
      apply hinv a ha
      simp [hav, hnot]

/-- the value forced on `a` by a subscript set only depends on the subscripts named `a` -/
theorem forced_worldOf_filter (ν : BaseValues) (S : List Iv) (q : Name → Bool) (a : Name) (ha : q a = true) :
    forced (worldOf ν (S.filter (fun i => q i.name))) a = forced (worldOf ν S) a := by
  unfold forced worldOf
  induction S with
  | nil => rfl
  | cons j js ih =>
    by_cases hq : q j.name = true
    · simp only [List.filter_cons, hq, ↓reduceIte, List.map_cons, List.find?_cons]
      by_cases hj : j.name = a
      · simp [hj]
      · simp only [hj, decide_false]; exact ih
    · have hja : j.name ≠ a := by intro h; rw [h] at hq; exact hq ha
      simp only [List.filter_cons, hq, Bool.false_eq_true, ↓reduceIte, List.map_cons, List.find?_cons, hja,
        decide_false]
      exact ih

/-- a variable that is not intervened on is not forced -/
theorem forced_worldOf_none (ν : BaseValues) (S : List Iv) (a : Name) (ha : a ∉ S.map (·.name)) :
    forced (worldOf ν S) a = none := by
  unfold forced worldOf
  induction S with
  | nil => rfl
  | cons j js ih =>
    simp only [List.map_cons, List.mem_cons, not_or] at ha
    have hja : j.name ≠ a := fun h => ha.1 h.symm
    simp only [List.map_cons, List.find?_cons, hja, decide_false]
    exact ih ha.2

theorem forced_worldOf_mem (ν : BaseValues) (S : List Iv) (a : Name) (ha : a ∈ S.map (·.name)) :
    ∃ x, forced (worldOf ν S) a = some x := by
  unfold forced worldOf
  induction S with
  | nil => simp at ha
  | cons j js ih =>
    simp only [List.map_cons, List.find?_cons]
    by_cases hj : j.name = a
    · simp [hj]
    · simp only [hj, decide_false]
      apply ih
      simp only [List.map_cons, List.mem_cons] at ha
      rcases ha with ha | ha
      · exact absurd ha.symm hj
      · exact ha

theorem forced_worldOf_some_mem (ν : BaseValues) (S : List Iv) (a : Name) (x : Nat)
    (h : forced (worldOf ν S) a = some x) : a ∈ S.map (·.name) := by
  by_contra hn
  rw [forced_worldOf_none ν S a hn] at h; cases h

/-! ### the structural equations hold in the solution -/

theorem foldl_step_not_mem (M : Model) (u : NoisePoint) (d : Do) (l : List Name) (σ : Valuation) (a : Name)
    (ha : a ∉ l) : (l.foldl (step M u d) σ) a = σ a := by
  induction l generalizing σ with
  | nil => rfl
  | cons v l ih =>
    simp only [List.mem_cons, not_or] at ha
    simp only [List.foldl_cons]
    rw [ih _ ha.2, step_other M u d σ v a ha.1]

theorem step_unforced_self (M : Model) (u : NoisePoint) (d : Do) (σ : Valuation) (y : Name)
    (h : forced d y = none) :
    step M u d σ y y = M.f y ((M.pa y).map σ) ((M.lat y).map fun j => u.getD j 0) := by
  simp [step, h, update]

/-- **structural equation.**  A variable of the model that the world does not force takes the value its mechanism
computes from the solved values of its arguments. -/
theorem solve_unforced (M : Model) (u : NoisePoint) (d : Do) (y : Name)
    (hnodup : M.order.Nodup)
    (htopo : ∀ l₁ v l₂, M.order = l₁ ++ v :: l₂ → ∀ p ∈ M.pa v, p ∈ l₁)
    (hy : y ∈ M.order) (hunf : forced d y = none) :
    solve M u d y = M.f y ((M.pa y).map (solve M u d)) ((M.lat y).map fun j => u.getD j 0) := by
  obtain ⟨l₁, l₂, hord⟩ := List.append_of_mem hy
  have hnd := hnodup
  rw [hord] at hnd
  have hy₂ : y ∉ l₂ := by
    have := (List.nodup_append.1 hnd).2.1
    exact (List.nodup_cons.1 this).1
  have hdisj : ∀ p ∈ l₁, p ∉ y :: l₂ := fun p hp hmem => (List.nodup_append.1 hnd).2.2 p hp p hmem rfl
  -- the valuation after the prefix, after `y`, and at the end
  have hsolve : ∀ a, solve M u d a =
      (l₂.foldl (step M u d) (step M u d (l₁.foldl (step M u d) (fun _ => 0)) y)) a := by
    intro a
    unfold solve
    rw [hord, List.foldl_append, List.foldl_cons]
  rw [hsolve y, foldl_step_not_mem M u d l₂ _ y hy₂, step_unforced_self M u d _ y hunf]
  congr 1
  apply List.map_congr_left
  intro p hp
  have hp₁ : p ∈ l₁ := htopo l₁ y l₂ hord p hp
  have hpn := hdisj p hp₁
  simp only [List.mem_cons, not_or] at hpn
  rw [hsolve p, foldl_step_not_mem M u d l₂ _ p hpn.2, step_other M u d _ y p hpn.1]

theorem forced_map_self (P : List Name) (val : Name → Nat) (p : Name) (hp : p ∈ P) :
    forced (P.map (fun q => (q, val q))) p = some (val p) := by
  unfold forced
  induction P with
  | nil => cases hp
  | cons q P ih =>
    simp only [List.map_cons, List.find?_cons]
    by_cases hq : q = p
    · subst hq; simp
    · simp only [hq, decide_false]
      rcases List.mem_cons.1 hp with h | h
      · exact absurd h.symm hq
      · exact ih h

theorem forced_map_none (P : List Name) (val : Name → Nat) (y : Name) (hy : y ∉ P) :
    forced (P.map (fun q => (q, val q))) y = none := by
  unfold forced
  induction P with
  | nil => rfl
  | cons q P ih =>
    simp only [List.mem_cons, not_or] at hy
    have hq : q ≠ y := fun h => hy.1 h.symm
    simp only [List.map_cons, List.find?_cons, hq, decide_false]
    exact ih hy.2

/-- **composition / exclusion restriction.**  Fixing (at least) all mechanism arguments of an unforced variable `y` to the
values they take in the world `d` reproduces the value of `y` in the world `d`, at every noise point: `Y_d = Y_{pa}` with
`pa = Pa_d`.  This is the step of Eq. 12-13 that replaces every member of `An(Y_*)` by its ctf-factor form. -/
theorem parents_fix_value (M : Model) (u : NoisePoint) (d : Do) (y : Name) (P : List Name)
    (hnodup : M.order.Nodup)
    (htopo : ∀ l₁ v l₂, M.order = l₁ ++ v :: l₂ → ∀ p ∈ M.pa v, p ∈ l₁)
    (hy : y ∈ M.order) (hunf : forced d y = none) (hP : ∀ p ∈ M.pa y, p ∈ P) (hyP : y ∉ P) :
    solve M u (P.map (fun p => (p, solve M u d p))) y = solve M u d y := by
  rw [solve_unforced M u d y hnodup htopo hy hunf,
    solve_unforced M u _ y hnodup htopo hy (forced_map_none P _ y hyP)]
  congr 1
  apply List.map_congr_left
  intro p hp
  obtain ⟨l₁, l₂, hord⟩ := List.append_of_mem hy
  have hpo : p ∈ M.order := by rw [hord]; exact List.mem_append_left _ (htopo l₁ y l₂ hord p hp)
  exact solve_forced M u _ p _ hpo (forced_map_self P _ p (hP p hp))

/-- the Boolean conjunction over the conjuncts of an event is the relational `EventHolds` -/
theorem eventConjuncts_all (M : Model) (ν : BaseValues) (u : NoisePoint) (e : List (Var × Option Iv)) :
    (eventConjuncts ν e).all (holds M u) = true ↔ EventHolds M ν u e := by
  unfold eventConjuncts EventHolds
  simp only [List.all_eq_true, List.mem_filterMap, Option.map_eq_some_iff]
  constructor
  · intro h p hp i hi
    have := h (conjunctOf ν (p.1, i)) ⟨p, hp, i, hi, rfl⟩
    simpa [holds, conjunctOf] using this
  · rintro h c ⟨p, hp, i, hi, rfl⟩
    simpa [holds, conjunctOf] using h p hp i hi

theorem probEventOpt_zero (M : Model) (ν : BaseValues) (e : List (Var × Option Iv))
    (h : ∀ u, ¬ EventHolds M ν u e) : probEventOpt M ν e = 0 := by
  unfold probEventOpt
  apply prob_eq_zero_of_never
  intro u
  by_contra hc
  exact h u ((eventConjuncts_all M ν u e).1 (by simpa using hc))

theorem probEventOpt_congr (M : Model) (ν : BaseValues) (e e' : List (Var × Option Iv))
    (h : ∀ u, EventHolds M ν u e ↔ EventHolds M ν u e') : probEventOpt M ν e = probEventOpt M ν e' := by
  unfold probEventOpt
  apply prob_congr
  intro u
  rw [Bool.eq_iff_iff, eventConjuncts_all, eventConjuncts_all]
  exact h u

end Y0.Ctf
