/-
  Y0.Lemmas.CtfTrFactorValue — the factors `P(c_j)` of the ctf-factor factorisation (C19, `factorConjuncts` of
  Y0/Spec/CtfSem.lean) are c-factors `Q[C_j]` of the functional model (`Fscm.Model.cfactor`), evaluated at the valuation
  that gives every summed vertex its bound value and every other vertex the value the reading `σ` gives it.

    `factorConjuncts_eq_cfactor`   one factor, abstract reading conditions;
    `sumAssign_eq_sumVars`         the association-list sums of CtfSem are the `sumVars` of Y0/Spec/Prob.lean;
    `cfactor_congr_set`            `Q[C]` only depends on the members of `C`.
-/
import Y0.Lemmas.CtfDenValue
import Y0.Lemmas.CtfTrCfactor

namespace Y0.Ctf
open Relation Y0.MG Y0.Fscm

/-- `Q[C]` depends on `C` as a set only -/
theorem cfactor_congr_set (M : Model) {C C' : List Name} (h : ∀ v, v ∈ C ↔ v ∈ C') (τ : Y0.Val) :
    M.cfactor C τ = M.cfactor C' τ := by
  unfold Model.cfactor
  have hf : (M.order.filter fun x => decide (x ∉ C)) = (M.order.filter fun x => decide (x ∉ C')) := by
    apply List.filter_congr
    intro x _
    simp [h x]
  rw [hf]
  apply prob_congr
  intro u
  apply Bool.eq_iff_iff.mpr
  simp only [List.all_eq_true, List.mem_map]
  constructor
  · rintro hall _ ⟨v, hv, rfl⟩
    exact hall _ ⟨v, (h v).2 hv, rfl⟩
  · rintro hall _ ⟨v, hv, rfl⟩
    exact hall _ ⟨v, (h v).1 hv, rfl⟩

namespace QCtx
variable {g : MG Name} {q : Event} {D : List Var} (C : QCtx g q D)
include C

/-- **one factor of the factorisation is a c-factor.**  If, under the assignment `r` of the summed vertices, every
variable of the factor `F` is constrained to exactly the value `τ` gives its vertex and every subscript denotes the
value `τ` gives its name, then `P(F)` (the probability of the conjunction `factorConjuncts`) is `Q[V(F)](τ)`. -/
theorem factorConjuncts_eq_cfactor (M : Model) (hM : Compatible M g) (ν : BaseValues) (r : Do) (fev : Event)
    (F : List Var) (τ : Y0.Val)
    (hF : ∀ c ∈ F, ∃ w ∈ D, convertOne g w = .ok c)
    (hval1 : ∀ c ∈ F, ∃ k, k ∈ factorVarValues ν r fev c)
    (hval2 : ∀ c ∈ F, ∀ k ∈ factorVarValues ν r fev c, k = τ c.name)
    (hsub : ∀ c ∈ F, ∀ i ∈ c.ivs, boundIvValue ν r i = τ i.name) :
    prob M (factorConjuncts ν r fev F) = M.cfactor (F.map (·.name)) τ := by
  have hord : ∀ n ∈ F.map (·.name), n ∈ M.order := by
    intro n hn
    obtain ⟨c, hc, rfl⟩ := List.mem_map.1 hn
    obtain ⟨w, hw, hwc⟩ := hF c hc
    rw [(convertOne_spec' g w c hwc).1]
    exact (C.factorWorld M hM ν r w c hw hwc).1
  rw [cfactor_eq_local hM _ hord τ, prob_eq_wsum]
  apply wsum_congr
  intro u
  apply congrArg ind
  apply Bool.eq_iff_iff.mpr
  rw [factorConjuncts_all, List.all_eq_true]
  have key : ∀ c ∈ F, solve M u (boundWorld ν r c.ivs) c.name = M.mech u τ c.name := by
    intro c hc
    obtain ⟨w, hw, hwc⟩ := hF c hc
    obtain ⟨hcn, _, _, hex, _⟩ := convertOne_spec' g w c hwc
    obtain ⟨ho, hn, hp⟩ := C.factorWorld M hM ν r w c hw hwc
    rw [hcn, solve_parents_forced M u _ w.name hM.nodup hM.topo ho hn hp]
    unfold Model.mech
    congr 1
    apply List.map_congr_left
    intro p hp'
    have hedge : g.DiEdge p c.name := by rw [hcn]; exact hM.pa_sub w.name p hp'
    obtain ⟨i, hi, rfl⟩ := List.mem_map.1 ((hex p).2 hedge)
    rw [forced_boundWorld ν r c.ivs i hi (convertOne_consistent g w c hwc (C.consistent_member w hw))]
    exact hsub c hc i hi
  constructor
  · intro h n hn
    obtain ⟨c, hc, rfl⟩ := List.mem_map.1 hn
    obtain ⟨k, hk⟩ := hval1 c hc
    have h1 := h c hc k hk
    rw [key c hc, hval2 c hc k hk] at h1
    simpa using h1
  · intro h c hc k hk
    have h1 := h c.name (List.mem_map.2 ⟨c, hc, rfl⟩)
    rw [key c hc, hval2 c hc k hk]
    simpa using h1

end QCtx

/-! ### association-list sums and valuation sums -/

/-- the valuation `σ` overridden by the assignment `r` -/
def overrideVal (σ : Y0.Val) (r : Do) : Y0.Val := fun n => (forced r n).getD (σ n)

theorem overrideVal_nil (σ : Y0.Val) : overrideVal σ [] = σ := by
  funext n
  simp [overrideVal, forced]

theorem overrideVal_cons (σ : Y0.Val) (x : Name) (k : Nat) (r : Do) (hx : x ∉ r.map (·.1)) :
    overrideVal σ ((x, k) :: r) = overrideVal (σ.set x k) r := by
  funext n
  unfold overrideVal forced
  by_cases hn : n = x
  · subst hn
    have : r.find? (fun p => decide (p.1 = n)) = none := by
      rw [List.find?_eq_none]
      intro p hp hpn
      exact hx (List.mem_map.2 ⟨p, hp, by simpa using hpn⟩)
    simp [this, Val.set]
  · have h1 : decide (x = n) = false := by simpa using fun e => hn e.symm
    simp only [List.find?_cons, h1]
    cases r.find? (fun p => decide (p.1 = n)) with
    | none => simp [Val.set, hn]
    | some p => simp

/-- `sumAssign` (Y0/Spec/CtfSem.lean) is `sumVars` (Y0/Spec/Prob.lean) at the overridden valuation -/
theorem sumAssign_eq_sumVars (card : Name → Nat) : ∀ (xs : List Name), xs.Nodup → ∀ (F : Do → Rat) (f : Y0.Val → Rat)
    (σ : Y0.Val), (∀ r, r.map (·.1) = xs → F r = f (overrideVal σ r)) → sumAssign card xs F = sumVars card xs f σ
  | [], _, F, f, σ, h => by
    simp only [sumAssign, sumVars]
    rw [h [] rfl, overrideVal_nil]
  | x :: xs, hnd, F, f, σ, h => by
    simp only [sumAssign, sumVars, sumVar, sumRange]
    congr 1
    apply List.map_congr_left
    intro k _
    apply sumAssign_eq_sumVars card xs (List.nodup_cons.1 hnd).2
    intro r hr
    rw [h ((x, k) :: r) (by simp [hr])]
    rw [overrideVal_cons σ x k r (by rw [hr]; exact (List.nodup_cons.1 hnd).1)]

end Y0.Ctf
