/-
  Y0.Lemmas.SepMinimal — `minimal()`: one representative per `(left, right)` group, of minimum first key component
  (both built-in policies put the number of conditions there).
-/
import Y0.Lemmas.SepEnum

namespace Y0
open List

def keyOf (j : Judgement) : Nat × Nat := (j.left, j.right)

/-! ### `min(vs, key=policy)` -/

def pureMinBy (k : Judgement → Nat × List Nat) : Judgement → List Judgement → Judgement
  | best, [] => best
  | best, j :: js => if keyLe (k best) (k j) then pureMinBy k best js else pureMinBy k j js

theorem minBy_ok (key : Judgement → Except Err (Nat × List Nat)) (k : Judgement → Nat × List Nat)
    (best : Judgement) (js : List Judgement) (h : ∀ j ∈ best :: js, key j = .ok (k j)) :
    minBy key best js = .ok (pureMinBy k best js) := by
  induction js generalizing best with
  | nil => rfl
  | cons j js ih =>
    have hb := h best (by simp)
    have hj := h j (by simp)
    simp only [minBy, hb, hj, bind, Except.bind, pureMinBy]
    split
    · exact ih best (fun x hx => h x (by
        rcases List.mem_cons.1 hx with rfl | hx
        · simp
        · simp [hx]))
    · exact ih j (fun x hx => h x (by
        rcases List.mem_cons.1 hx with rfl | hx
        · simp
        · simp [hx]))

theorem pureMinBy_mem (k : Judgement → Nat × List Nat) (best : Judgement) (js : List Judgement) :
    pureMinBy k best js ∈ best :: js := by
  induction js generalizing best with
  | nil => simp [pureMinBy]
  | cons j js ih =>
    simp only [pureMinBy]
    split
    · rcases List.mem_cons.1 (ih best) with h | h
      · simp [h]
      · simp [h]
    · rcases List.mem_cons.1 (ih j) with h | h
      · simp [h]
      · simp [h]

theorem keyLe_fst {a b : Nat × List Nat} (h : keyLe a b = true) : a.1 ≤ b.1 := by
  simp only [keyLe, Bool.or_eq_true, decide_eq_true_eq, Bool.and_eq_true, beq_iff_eq] at h
  rcases h with h | ⟨h, _⟩ <;> omega

theorem keyLe_fst_of_false {a b : Nat × List Nat} (h : ¬ keyLe a b = true) : b.1 ≤ a.1 := by
  simp only [keyLe, Bool.or_eq_true, decide_eq_true_eq, Bool.and_eq_true, beq_iff_eq, not_or] at h
  omega

theorem pureMinBy_le (k : Judgement → Nat × List Nat) (best : Judgement) (js : List Judgement) :
    ∀ x ∈ best :: js, (k (pureMinBy k best js)).1 ≤ (k x).1 := by
  induction js generalizing best with
  | nil => intro x hx; simp at hx; subst hx; simp [pureMinBy]
  | cons j js ih =>
    intro x hx
    simp only [pureMinBy]
    split
    · rename_i hle
      have h1 := ih best
      rcases List.mem_cons.1 hx with rfl | hx
      · exact h1 _ (by simp)
      · rcases List.mem_cons.1 hx with rfl | hx
        · exact Nat.le_trans (h1 best (by simp)) (keyLe_fst hle)
        · exact h1 x (by simp [hx])
    · rename_i hle
      have h1 := ih j
      rcases List.mem_cons.1 hx with rfl | hx
      · exact Nat.le_trans (h1 j (by simp)) (keyLe_fst_of_false hle)
      · rcases List.mem_cons.1 hx with rfl | hx
        · exact h1 _ (by simp)
        · exact h1 x (by simp [hx])

/-! ### the sorted distinct keys -/

theorem insertPair_perm (x : Nat × Nat) (l : List (Nat × Nat)) : (insertPair x l).Perm (x :: l) := by
  induction l with
  | nil => simp [insertPair]
  | cons y ys ih =>
    simp only [insertPair]
    split
    · exact List.Perm.refl _
    · exact (List.Perm.cons y ih).trans (List.Perm.swap x y ys)

theorem foldr_insertPair_perm (l : List (Nat × Nat)) : (l.foldr insertPair []).Perm l := by
  induction l with
  | nil => simp
  | cons x xs ih => exact (insertPair_perm x _).trans (List.Perm.cons x ih)

def keysOf (js : List Judgement) : List (Nat × Nat) := (dedup' (js.map keyOf)).foldr insertPair []

theorem mem_keysOf {js : List Judgement} {k : Nat × Nat} : k ∈ keysOf js ↔ ∃ j ∈ js, keyOf j = k := by
  unfold keysOf
  rw [(foldr_insertPair_perm _).mem_iff, mem_dedup', List.mem_map]

theorem nodup_keysOf (js : List Judgement) : (keysOf js).Nodup :=
  (foldr_insertPair_perm _).nodup_iff.2 (nodup_dedup' _)

/-! ### `minimal` -/

def groupOf (js : List Judgement) (k : Nat × Nat) : List Judgement := js.filter (fun j => (j.left, j.right) = k)

/-- the representative `minimal` keeps for the group of key `k` -/
def pick (kf : Judgement → Nat × List Nat) (js : List Judgement) (k : Nat × Nat) : Judgement :=
  match groupOf js k with
  | [] => default
  | j :: rest => pureMinBy kf j rest

def pureMinimal (kf : Judgement → Nat × List Nat) (js : List Judgement) : List Judgement :=
  (keysOf js).map (pick kf js)

theorem minimalWith_ok (key : Judgement → Except Err (Nat × List Nat)) (kf : Judgement → Nat × List Nat)
    (js : List Judgement) (h : ∀ j ∈ js, key j = .ok (kf j)) :
    minimalWith key js = .ok (pureMinimal kf js) := by
  unfold minimalWith pureMinimal
  apply mapM_ok_of_forall
  intro k hk
  obtain ⟨j, hj, hjk⟩ := mem_keysOf.1 hk
  have hmem : j ∈ groupOf js k := by
    simp only [groupOf, List.mem_filter, decide_eq_true_eq]; exact ⟨hj, hjk⟩
  unfold pick
  have hg : groupOf js k = js.filter (fun j => (j.left, j.right) = k) := rfl
  rw [← hg]
  cases hgr : groupOf js k with
  | nil => rw [hgr] at hmem; simp at hmem
  | cons j0 rest =>
    simp only
    apply minBy_ok
    intro x hx
    have : x ∈ groupOf js k := hgr ▸ hx
    exact h x (List.mem_filter.1 this).1

theorem pick_spec (kf : Judgement → Nat × List Nat) (js : List Judgement) (k : Nat × Nat) (hk : k ∈ keysOf js) :
    pick kf js k ∈ js ∧ keyOf (pick kf js k) = k ∧
      ∀ j ∈ js, keyOf j = k → (kf (pick kf js k)).1 ≤ (kf j).1 := by
  obtain ⟨j, hj, hjk⟩ := mem_keysOf.1 hk
  have hmem : j ∈ groupOf js k := by
    simp only [groupOf, List.mem_filter, decide_eq_true_eq]; exact ⟨hj, hjk⟩
  unfold pick
  cases hgr : groupOf js k with
  | nil => rw [hgr] at hmem; simp at hmem
  | cons j0 rest =>
    simp only
    have hin : pureMinBy kf j0 rest ∈ groupOf js k := hgr ▸ pureMinBy_mem kf j0 rest
    have hin' := List.mem_filter.1 hin
    refine ⟨hin'.1, by simpa [keyOf] using hin'.2, fun x hx hxk => ?_⟩
    apply pureMinBy_le kf j0 rest x
    rw [← hgr]
    simp only [groupOf, List.mem_filter, decide_eq_true_eq]
    exact ⟨hx, hxk⟩

/-- the four facts about `minimal` that C15 needs -/
theorem pureMinimal_spec (kf : Judgement → Nat × List Nat) (js : List Judgement) :
    (∀ r ∈ pureMinimal kf js, r ∈ js) ∧
    ((pureMinimal kf js).map keyOf).Nodup ∧
    (∀ j ∈ js, ∃ r ∈ pureMinimal kf js, keyOf r = keyOf j) ∧
    (∀ r ∈ pureMinimal kf js, ∀ j ∈ js, keyOf j = keyOf r → (kf r).1 ≤ (kf j).1) := by
  refine ⟨?_, ?_, ?_, ?_⟩
  · intro r hr
    obtain ⟨k, hk, rfl⟩ := List.mem_map.1 hr
    exact (pick_spec kf js k hk).1
  · have : (pureMinimal kf js).map keyOf = keysOf js := by
      unfold pureMinimal
      rw [List.map_map]
      conv_rhs => rw [← List.map_id (keysOf js)]
      apply List.map_congr_left
      intro k hk
      exact (pick_spec kf js k hk).2.1
    rw [this]; exact nodup_keysOf js
  · intro j hj
    have hk : keyOf j ∈ keysOf js := mem_keysOf.2 ⟨j, hj, rfl⟩
    exact ⟨pick kf js (keyOf j), List.mem_map.2 ⟨_, hk, rfl⟩, (pick_spec kf js _ hk).2.1⟩
  · intro r hr j hj hjk
    obtain ⟨k, hk, rfl⟩ := List.mem_map.1 hr
    have hs := pick_spec kf js k hk
    exact hs.2.2 j hj (hjk.trans hs.2.1)


/-! ### when `minimal` returns, it returned the pure result (no totality assumption on the policy) -/

/-- the policy key as a total function: the value when the Python key function returns, a harmless default
(never used by a run that returns) otherwise -/
def keyFn (key : Judgement → Except Err (Nat × List Nat)) (j : Judgement) : Nat × List Nat :=
  match key j with
  | .ok k => k
  | .error _ => (j.conditions.length, [])

theorem keyFn_of_ok {key : Judgement → Except Err (Nat × List Nat)} {j : Judgement} {k : Nat × List Nat}
    (h : key j = .ok k) : keyFn key j = k := by simp [keyFn, h]

theorem minBy_eq_of_ok (key : Judgement → Except Err (Nat × List Nat)) (best : Judgement) (js : List Judgement)
    (r : Judgement) (h : minBy key best js = .ok r) : r = pureMinBy (keyFn key) best js := by
  induction js generalizing best with
  | nil => simp [minBy] at h; simp [pureMinBy, h]
  | cons j js ih =>
    simp only [minBy, bind, Except.bind] at h
    cases hb : key best with
    | error e => simp [hb] at h
    | ok kb =>
      cases hj : key j with
      | error e => simp [hb, hj] at h
      | ok kj =>
        simp only [hb, hj] at h
        simp only [pureMinBy, keyFn_of_ok hb, keyFn_of_ok hj]
        split
        · rename_i hle; simp only [hle, if_true] at h; exact ih best h
        · rename_i hle; simp only [hle] at h; exact ih j h

theorem mapM_eq_of_ok {α β : Type} (f : α → Except Err β) (g : α → β) (l : List α) (R : List β)
    (hfg : ∀ x ∈ l, ∀ y, f x = .ok y → y = g x) (h : l.mapM f = .ok R) : R = l.map g := by
  induction l generalizing R with
  | nil => simp [pure, Except.pure] at h; simp [h]
  | cons x xs ih =>
    rw [List.mapM_cons] at h
    simp only [bind, Except.bind, pure, Except.pure] at h
    cases hx : f x with
    | error e => simp [hx] at h
    | ok y =>
      cases hxs : xs.mapM f with
      | error e => simp [hx, hxs] at h
      | ok ys =>
        simp only [hx, hxs, Except.ok.injEq] at h
        subst h
        rw [hfg x (by simp) y hx, ih ys (fun z hz => hfg z (by simp [hz])) hxs]
        rfl

theorem minimalWith_eq_of_ok (key : Judgement → Except Err (Nat × List Nat)) (js R : List Judgement)
    (h : minimalWith key js = .ok R) : R = pureMinimal (keyFn key) js := by
  unfold minimalWith at h
  unfold pureMinimal
  apply mapM_eq_of_ok _ _ _ _ _ h
  intro k hk y hy
  obtain ⟨j, hj, hjk⟩ := mem_keysOf.1 hk
  have hmem : j ∈ groupOf js k := by
    simp only [groupOf, List.mem_filter, decide_eq_true_eq]; exact ⟨hj, hjk⟩
  unfold pick
  have hg : js.filter (fun j => (j.left, j.right) = k) = groupOf js k := rfl
  rw [hg] at hy
  cases hgr : groupOf js k with
  | nil => rw [hgr] at hmem; simp at hmem
  | cons j0 rest =>
    rw [hgr] at hy
    exact minBy_eq_of_ok key j0 rest y hy

end Y0
