/-
  Y0.Lemmas.TrsoIdCongr — "depends only on the members" congruence lemmas for graph surgery, ancestors and districts
  (on top of Props/C14 and Lemmas/IdGraph), and the forward computation of one pass of ID (`Y0.step`) on a valid
  input.  Used by Lemmas/TrsoIdSim (TRSO without experiments answers exactly when ID does).
-/
import Y0.Lemmas.IdTotal
import Y0.Lemmas.IdGraph
import Y0.Props.C14

namespace Y0

/-! ### lists as sets -/

theorem isEmpty_congr {l m : List Name} (h : ∀ v, v ∈ l ↔ v ∈ m) : l.isEmpty = m.isEmpty := by
  cases l with
  | nil =>
    cases m with
    | nil => rfl
    | cons b bs => exact absurd ((h b).2 List.mem_cons_self) (by simp)
  | cons a as =>
    cases m with
    | nil => exact absurd ((h a).1 List.mem_cons_self) (by simp)
    | cons b bs => rfl

theorem seteq'_iff {a b : List Name} : seteq' a b = true ↔ ∀ v, v ∈ a ↔ v ∈ b := by
  simp only [seteq', subset', Bool.and_eq_true, List.all_eq_true, decide_eq_true_eq]
  exact ⟨fun h v => ⟨h.1 v, h.2 v⟩, fun h => ⟨fun v => (h v).1, fun v => (h v).2⟩⟩

theorem mem_diff'_iff {a : Name} {l m : List Name} : a ∈ diff' l m ↔ a ∈ l ∧ a ∉ m := by simp [diff']
theorem mem_inter'_iff {a : Name} {l m : List Name} : a ∈ inter' l m ↔ a ∈ l ∧ a ∈ m := by simp [inter']
theorem mem_union'_iff {a : Name} {l m : List Name} : a ∈ union' l m ↔ a ∈ l ∨ a ∈ m := by
  simp only [union', List.mem_append, List.mem_filter, decide_eq_true_eq]
  tauto

theorem mapM_ok_all_iff {α β ε : Type} (f : α → Except ε β) (l : List α) :
    (∃ r, l.mapM f = .ok r) ↔ ∀ a ∈ l, ∃ b, f a = .ok b := by
  constructor
  · rintro ⟨r, hr⟩ a ha
    obtain ⟨b, _, hb⟩ := IdAux.forall₂_left ((IdAux.mapM_ok_iff _ _ _).mp hr) a ha
    exact ⟨b, hb⟩
  · exact IdAux.mapM_ok_of_forall f l

namespace MG
open Relation

variable {G H : MG Name}

/-! ### surgery on equal graphs with equal node sets as arguments -/

theorem equiv_subgraph_of_mem (h : G.equiv H = true) {S T : List Name} (hST : ∀ v, v ∈ S ↔ v ∈ T) :
    (G.subgraph S).equiv (H.subgraph T) = true := by
  rw [equiv_iff] at h ⊢
  obtain ⟨_, hd, hb⟩ := h
  exact ⟨fun v => by simp [mem_nodes_subgraph, hST], fun u v => by simp [diEdge_subgraph, hd, hST],
    fun u v => by simp [biEdge_subgraph, hb, hST]⟩

theorem equiv_removeNodes_of_mem (hG : G.WF) (hH : H.WF) (h : G.equiv H = true) {S T : List Name}
    (hST : ∀ v, v ∈ S ↔ v ∈ T) : (G.removeNodes S).equiv (H.removeNodes T) = true := by
  rw [equiv_iff] at h ⊢
  obtain ⟨hn, hd, hb⟩ := h
  exact ⟨fun v => by simp [mem_nodes_removeNodes, hG, hH, hn, hST],
    fun u v => by simp [diEdge_removeNodes, hd, hST], fun u v => by simp [biEdge_removeNodes, hb, hST]⟩

theorem equiv_removeInEdges_of_mem (hG : G.WF) (hH : H.WF) (h : G.equiv H = true) {S T : List Name}
    (hST : ∀ v, v ∈ S ↔ v ∈ T) : (G.removeInEdges S).equiv (H.removeInEdges T) = true := by
  rw [equiv_iff] at h ⊢
  obtain ⟨hn, hd, hb⟩ := h
  exact ⟨fun v => by simp [mem_nodes_removeInEdges, hG, hH, hn],
    fun u v => by simp [diEdge_removeInEdges, hd, hST], fun u v => by simp [biEdge_removeInEdges, hb, hST]⟩

/-! ### ancestors -/

theorem anc_congr_of_mem (hd : ∀ u v, G.DiEdge u v ↔ H.DiEdge u v) {S T : List Name} (hST : ∀ v, v ∈ S ↔ v ∈ T)
    (v : Name) : G.Anc S v ↔ H.Anc T v := by
  have : G.DiEdge = H.DiEdge := by funext u v; exact propext (hd u v)
  simp [Anc, this, hST]

/-- the ancestor sets of equal graphs from equal source sets have the same members -/
theorem ancestors_congr_of_mem (hG : G.WF) (hH : H.WF) (h : G.equiv H = true) {S T A B : List Name}
    (hST : ∀ v, v ∈ S ↔ v ∈ T) (hA : G.ancestorsInclusive S = .ok A) (hB : H.ancestorsInclusive T = .ok B)
    (v : Name) : v ∈ A ↔ v ∈ B := by
  rw [equiv_iff] at h
  rw [ancestorsInclusive_spec G hG S A hA, ancestorsInclusive_spec H hH T B hB]
  exact anc_congr_of_mem h.2.1 hST v

/-! ### districts -/

theorem sameDistrict_congr (hb : ∀ u v, G.BiEdge u v ↔ H.BiEdge u v) (u v : Name) :
    G.SameDistrict u v ↔ H.SameDistrict u v :=
  ⟨sameDistrict_mono (fun a b => (hb a b).1), sameDistrict_mono (fun a b => (hb a b).2)⟩

/-- exactly one district: there is a node and any two nodes are connected by bidirected edges -/
theorem districts_length_one_iff (hG : G.WF) :
    G.districts.length = 1 ↔ G.nodes ≠ [] ∧ ∀ u ∈ G.nodes, ∀ v ∈ G.nodes, G.SameDistrict u v := by
  constructor
  · intro hlen
    obtain ⟨S, hS⟩ : ∃ S, G.districts = [S] := by
      match hd : G.districts, hlen with
      | [S], _ => exact ⟨S, rfl⟩
    have hSm : S ∈ G.districts := by rw [hS]; simp
    have hall := single_district_all hG hS
    constructor
    · obtain ⟨s, hs⟩ := List.exists_mem_of_ne_nil _ (districts_nonempty G hG S hSm)
      exact List.ne_nil_of_mem ((hall s).1 hs)
    · intro u hu v hv
      exact (districts_spec G hG S hSm u ((hall u).2 hu) v).1 ((hall v).2 hv)
  · rintro ⟨hne, hconn⟩
    obtain ⟨u, hu⟩ := List.exists_mem_of_ne_nil _ hne
    obtain ⟨d, hd, hud⟩ := (districts_cover G hG u).1 hu
    by_contra hlen
    obtain ⟨D', hD', x, hxD', hxd⟩ := exists_other_district hG hd hlen
    have hx : x ∈ G.nodes := mem_nodes_of_mem_district hG hD' hxD'
    exact hxd ((districts_spec G hG d hd u hud x).2 (hconn u hu x hx))

/-- equal graphs have exactly one district together -/
theorem districts_length_one_congr (hG : G.WF) (hH : H.WF) (h : G.equiv H = true) :
    G.districts.length = 1 ↔ H.districts.length = 1 := by
  rw [districts_length_one_iff hG, districts_length_one_iff hH]
  rw [equiv_iff] at h
  obtain ⟨hn, _, hb⟩ := h
  have hne : G.nodes ≠ [] ↔ H.nodes ≠ [] := by
    have := isEmpty_congr hn
    cases hg : G.nodes <;> cases hh : H.nodes <;> simp_all
  constructor
  · rintro ⟨h1, h2⟩
    exact ⟨hne.1 h1, fun u hu v hv => (sameDistrict_congr hb u v).1 (h2 u ((hn u).2 hu) v ((hn v).2 hv))⟩
  · rintro ⟨h1, h2⟩
    exact ⟨hne.2 h1, fun u hu v hv => (sameDistrict_congr hb u v).2 (h2 u ((hn u).1 hu) v ((hn v).1 hv))⟩

/-- a graph with a node has a district -/
theorem districts_ne_nil (hG : G.WF) (hne : G.nodes ≠ []) : G.districts ≠ [] := by
  obtain ⟨u, hu⟩ := List.exists_mem_of_ne_nil _ hne
  obtain ⟨d, hd, _⟩ := (districts_cover G hG u).1 hu
  exact List.ne_nil_of_mem hd

/-- every district of a graph has a counterpart with the same members in an equal graph -/
theorem districts_corr (hG : G.WF) (hH : H.WF) (h : G.equiv H = true) {d : List Name} (hd : d ∈ G.districts) :
    ∃ e ∈ H.districts, ∀ v, v ∈ d ↔ v ∈ e := by
  obtain ⟨u, hu⟩ := List.exists_mem_of_ne_nil _ (districts_nonempty G hG d hd)
  have huG : u ∈ G.nodes := mem_nodes_of_mem_district hG hd hu
  have huH : u ∈ H.nodes := (((equiv_iff _ _).1 h).1 u).1 huG
  obtain ⟨e, he, hue⟩ := (districts_cover H hH u).1 huH
  exact ⟨e, he, equiv_congr_districts G H hG hH h d hd e he u hu hue⟩

/-- "the set `S` is (the member set of) a district" transfers between equal graphs -/
theorem any_seteq_congr (hG : G.WF) (hH : H.WF) (h : G.equiv H = true) {S T : List Name}
    (hST : ∀ v, v ∈ S ↔ v ∈ T) :
    G.districts.any (fun D => seteq' D S) = H.districts.any (fun D => seteq' D T) := by
  have key : ∀ {G H : MG Name} {S T : List Name}, G.WF → H.WF → G.equiv H = true → (∀ v, v ∈ S ↔ v ∈ T) →
      G.districts.any (fun D => seteq' D S) = true → H.districts.any (fun D => seteq' D T) = true := by
    intro G H S T hG hH h hST hany
    obtain ⟨D, hD, hDS⟩ := List.any_eq_true.1 hany
    obtain ⟨e, he, hDe⟩ := districts_corr hG hH h hD
    refine List.any_eq_true.2 ⟨e, he, seteq'_iff.2 (fun v => ?_)⟩
    rw [← hDe v, seteq'_iff.1 hDS v, hST v]
  cases h1 : G.districts.any (fun D => seteq' D S) with
  | true => exact (key hG hH h hST h1).symm
  | false =>
    cases h2 : H.districts.any (fun D => seteq' D T) with
    | false => rfl
    | true =>
      have := key hH hG (equiv_symm _ _ h) (fun v => (hST v).symm) h2
      rw [h1] at this; cases this

end MG

/-! ### one pass of ID, computed forwards -/

open IdDsl IdAux MG

section
variable {topo : MG Name → Except Err (List Name)} {I : IdIn}

theorem step_fwd_l1 (hX : I.X.isEmpty = true) :
    step topo I = .ok (.done (sumSafe I.est (diff' I.G.nodes I.Y))) := by
  unfold step; simp [hX]

theorem step_fwd_l2 {anc : List Name} (hX : I.X.isEmpty = false) (hanc : I.G.ancestorsInclusive I.Y = .ok anc)
    (hne : (diff' I.G.nodes anc).isEmpty = false) : step topo I = .ok (.tail (line2 I anc)) := by
  unfold step; simp [hX, hanc, hne]

theorem step_fwd_l3 {anc anc' : List Name} (hX : I.X.isEmpty = false) (hanc : I.G.ancestorsInclusive I.Y = .ok anc)
    (he : (diff' I.G.nodes anc).isEmpty = true)
    (hanc' : (I.G.removeInEdges I.X).ancestorsInclusive I.Y = .ok anc')
    (hne : (diff' (diff' I.G.nodes I.X) anc').isEmpty = false) :
    step topo I = .ok (.tail (line3 I (diff' (diff' I.G.nodes I.X) anc'))) := by
  unfold step; simp [hX, hanc, he, hanc', hne]

theorem step_fwd_B {anc anc' : List Name} (hX : I.X.isEmpty = false) (hanc : I.G.ancestorsInclusive I.Y = .ok anc)
    (he : (diff' I.G.nodes anc).isEmpty = true)
    (hanc' : (I.G.removeInEdges I.X).ancestorsInclusive I.Y = .ok anc')
    (he' : (diff' (diff' I.G.nodes I.X) anc').isEmpty = true) : step topo I = stepB topo I := by
  unfold step; simp [hX, hanc, he, hanc', he']

theorem isConnected_gx (hv : Valid I) :
    (I.G.removeNodes I.X).isConnected = .ok ((I.G.removeNodes I.X).districts.length == 1) := by
  unfold MG.isConnected
  have := valid_gx_ne hv
  simp [this]

theorem isConnected_g (hv : Valid I) : I.G.isConnected = .ok (I.G.districts.length == 1) := by
  unfold MG.isConnected
  have := valid_nodes_ne hv
  simp [this]

theorem stepB_fwd_l4 (hv : Valid I) (hlen : (I.G.removeNodes I.X).districts.length ≠ 1) :
    stepB topo I = .ok (line4 I (I.G.removeNodes I.X).districts) := by
  unfold stepB
  simp only [isConnected_gx hv]
  have : ((I.G.removeNodes I.X).districts.length == 1) = false := by simpa using hlen
  rw [this]

theorem stepB_fwd_l5 (hv : Valid I) (hlen : (I.G.removeNodes I.X).districts.length = 1)
    (hlen2 : I.G.districts.length = 1) : stepB topo I = .error .unidentifiable := by
  unfold stepB
  simp only [isConnected_gx hv, isConnected_g hv, hlen, hlen2]
  rfl

theorem stepB_fwd_l67 (hv : Valid I) {S : List Name} (hS : (I.G.removeNodes I.X).districts = [S])
    (hlen2 : I.G.districts.length ≠ 1) :
    stepB topo I = if I.G.districts.any (fun D => seteq' D S) then line6 topo I S else line7 topo I S := by
  unfold stepB
  have h2 : (I.G.districts.length == 1) = false := by simpa using hlen2
  have hgs : getSingleDistrict (I.G.removeNodes I.X) = .ok S := by unfold getSingleDistrict; rw [hS]
  simp only [isConnected_gx hv, isConnected_g hv, hS, h2, hgs]
  rfl

/-- the default estimand `P(V)` of `identify` exists when the graph has a node -/
theorem pJoint_ok {ns : List Name} (hne : ns ≠ []) : ∃ c, pJoint ns = .ok (.prob none c []) := by
  unfold pJoint
  cases hs : sortNames ns with
  | nil => exact absurd hs (sortNames_ne_nil hne)
  | cons a l => exact ⟨_, rfl⟩

/-! ### `idAlg` after one pass -/

theorem idAlg_of_done {e : Expr} (h : step topo I = .ok (.done e)) : idAlg topo I = .ok e := by
  rw [idAlg_eq, h]

theorem idAlg_of_error {e : Err} (h : step topo I = .error e) : idAlg topo I = .error e := by
  rw [idAlg_eq, h]

theorem idAlg_of_tail {J : IdIn} (h : step topo I = .ok (.tail J)) (hm : measureLt J.measure I.measure = true) :
    idAlg topo I = idAlg topo J := by
  rw [idAlg_eq, h]; simp [hm]

/-- line 4 of ID answers exactly when every sub-problem does -/
theorem idAlg_of_split {Js : List IdIn} {ranges : List Name} (h : step topo I = .ok (.split Js ranges))
    (hm : ∀ J ∈ Js, measureLt J.measure I.measure = true) :
    (∃ e, idAlg topo I = .ok e) ↔ ∀ J ∈ Js, ∃ e, idAlg topo J = .ok e := by
  have hall : Js.all (fun J => measureLt J.measure I.measure) = true := List.all_eq_true.mpr hm
  rw [idAlg_eq, h]
  simp only [hall, if_true]
  rw [← mapM_ok_all_iff]
  cases Js.mapM (idAlg topo) with
  | ok es => exact ⟨fun _ => ⟨es, rfl⟩, fun _ => ⟨_, rfl⟩⟩
  | error e => exact ⟨fun ⟨_, h⟩ => (by cases h), fun ⟨_, h⟩ => (by cases h)⟩

end
end Y0
