/-
  Y0.Lemmas.CfStarZero — where ID* returns `Zero()` and where it refuses.

  * `idStarFuel_ne_zero_sw`  : on a single-world event that does not violate effectiveness ID* never returns `Zero()`
  * `lines4to9_zero_origin`  : (any well-formed event) `Zero()` out of lines 4–9 comes from line 5 ('inconsistent'), or from line 6
                               with a district event that violates effectiveness (line 2 of the recursive call)
  * `lines4to9_unid_iff`     : (any well-formed event) lines 4–9 refuse exactly when the counterfactual graph is connected and
                               line 8 finds a conflict — the recursive calls never refuse
-/
import Y0.Lemmas.CfStarTop

namespace Y0.Cf
open Relation MG Fscm

theorem sKeys_starOf (ev : Event) : SKeys (starOf ev) ev := by
  intro n hn
  unfold starOf at hn
  rw [List.any_eq_true] at hn
  obtain ⟨p, hp, h⟩ := hn
  simp only [Bool.and_eq_true, beq_iff_eq] at h
  exact List.mem_map.2 ⟨p.1, (mem_keys_iff ev p.1).2 ⟨p.2, hp⟩, h.1⟩

theorem valBy_starOf {w : World} {ev : Event} (hok : EvOK ev) (hkw : KeysIn w ev) : ValBy (starOf ev) ev := by
  intro p hp
  have hname := hok.names p hp
  have hstar : p.2.star = starOf ev p.1.name := by
    unfold starOf
    cases hs : p.2.star with
    | true =>
      symm
      rw [List.any_eq_true]
      exact ⟨p, hp, by simp [hs]⟩
    | false =>
      symm
      rw [List.any_eq_false]
      intro q hq
      simp only [Bool.and_eq_true, beq_iff_eq, not_and, Bool.not_eq_true]
      intro hqn
      have hkq : q.1 ∈ ev.keys := (mem_keys_iff ev q.1).2 ⟨q.2, hq⟩
      have hkp : p.1 ∈ ev.keys := (mem_keys_iff ev p.1).2 ⟨p.2, hp⟩
      have hqp : q.1 = p.1 := by rw [hkw q.1 hkq, hkw p.1 hkp, hqn]
      have h1 := Event.get?_of_mem_nodup hok.nodup hq
      have h2 := Event.get?_of_mem_nodup hok.nodup hp
      rw [hqp, h2] at h1
      simp only [Option.some.injEq] at h1
      rw [← h1, hs]
  rcases p with ⟨k, ⟨n, b⟩⟩
  simp only at hname hstar ⊢
  rw [hname, hstar]

theorem frag2_of_sw {G : MG Name} {x : Event} (h : SW G x) : ∃ w, Frag2 G w (starOf x) x := by
  obtain ⟨w, hkw, _⟩ := h.world
  exact ⟨w, h.good, valBy_starOf h.ok hkw, hkw⟩

/-! ## Zero -/

theorem sumSafe_eq_zero {e : Expr} {rs : List Name} (h : sumSafe e rs = .zero) : e = .zero := by
  unfold sumSafe at h
  simp only at h
  split at h
  · exact h
  · split at h
    · exact h
    · cases h

theorem productSafe_eq_zero {fs : List Expr} (h : productSafe fs = .zero) : ∃ f ∈ fs, f = .zero := by
  unfold productSafe at h
  simp only at h
  split at h
  · rename_i hz
    rw [List.any_eq_true] at hz
    obtain ⟨z, hz, hzz⟩ := hz
    refine ⟨z, (List.mem_filter.1 hz).1, ?_⟩
    cases z <;> simp [isZeroE] at hzz
    rfl
  · rename_i hz
    split at h
    · cases h
    · rename_i e heq
      subst h
      have : Expr.zero ∈ fs.filter (fun e => !isOneE e) := by rw [heq]; simp
      exact ⟨.zero, (List.mem_filter.1 this).1, rfl⟩
    · cases h

theorem line9_ne_zero (g : MG Var) (e : Expr) (h : line9 g = .ok e) : e ≠ .zero := by
  unfold line9 probSafe at h
  simp only at h
  split at h
  · cases h
  · split at h
    · simp only [Except.ok.injEq] at h
      subst h
      intro h'; cases h'
    · simp only [Except.ok.injEq] at h
      subst h
      intro h'; cases h'

section
variable {G : MG Name}

theorem lines4to9_ne_zero_sw (hG : G.WF) (hdl : ∀ e ∈ G.di, e.1 ≠ e.2) (hbl : ∀ e ∈ G.bi, e.1 ≠ e.2)
    {ordf : List World → List World} (hord : PermOrder ordf) {dordf : List Var → List Var} (hdo : PermDistrict dordf)
    (rec : Event → Except Err Expr)
    (hrec : ∀ w' s' ev', Frag2 G w' s' ev' → violatesEffectiveness ev' = false → rec ev' ≠ .ok .zero)
    (w : World) (s : Name → Bool) (ev : Event) (hfr : Frag2 G w s ev) (hsk : SKeys s ev) (hk : KeysNSI ev) :
    idStarLines4to9 ordf dordf G rec ev ≠ .ok .zero := by
  intro h
  unfold49 at h
  cases hcg : makeCounterfactualGraph ordf G ev with
  | error err => rw [hcg] at h; cases h
  | ok v =>
    rw [hcg] at h
    simp only at h
    rcases v with ⟨cf, new⟩
    obtain ⟨nev, rfl, facts⟩ := frag_facts hord hG hdl hbl hfr hk.1 hcg
    simp only at h
    have hkeysnsi : ∀ k ∈ nev.keys, isNotSelfIntervened k = true := by
      obtain ⟨⟨_, hnsi⟩, _⟩ := cg_event_inv hord.good hcg hk hfr.good.ok
      intro k hkk
      obtain ⟨v, hv⟩ := (mem_keys_iff nev k).1 hkk
      exact hnsi _ hv
    cases hc : isConnected (nsiSubgraph cf) with
    | error err => rw [hc] at h; cases h
    | ok c =>
      rw [hc] at h
      simp only at h
      split at h
      · cases hevs : eventsOfEachDistrict dordf cf nev with
        | error err => rw [hevs] at h; cases h
        | ok evs =>
          rw [hevs] at h
          simp only at h
          split at h
          · cases h
          · cases hm : evs.mapM rec with
            | error err => rw [hm] at h; cases h
            | ok fs =>
              rw [hm] at h
              simp only [Except.ok.injEq] at h
              obtain ⟨f, hf, hfz⟩ := productSafe_eq_zero (sumSafe_eq_zero h)
              subst hfz
              obtain ⟨x, hx, hfx⟩ := mapM_ok_mem _ _ _ hm _ hf
              have hxD : ∃ D ∈ (nsiSubgraph cf).districts, eventsOfDistrict cf (dordf D) nev = .ok x := by
                unfold eventsOfEachDistrict at hevs
                exact mapM_ok_mem _ _ _ hevs x hx
              obtain ⟨D, hD, hDx⟩ := hxD
              obtain ⟨pillow, _, _, hfrx, _, hnoself, _⟩ :=
                frag_of_district hord hdo hG hdl hbl hfr.good hcg facts.toD (sKeys_nev facts hsk) hkeysnsi hevs D hD x hDx
              exact hrec _ _ x hfrx (violates_false_of_noSelf hfrx.keysIn hfrx.good.ok.names hnoself) hfx
      · split at h
        · cases h
        · cases h9 : line9 (nsiSubgraph cf) with
          | error err => rw [h9] at h; cases h
          | ok e9 =>
            rw [h9] at h
            simp only [Except.ok.injEq] at h
            exact line9_ne_zero _ e9 h9 (sumSafe_eq_zero h)

/-- **on a single-world event that does not violate effectiveness ID\* never returns Zero** -/
theorem idStarFuel_ne_zero_sw (hG : G.WF) (hdl : ∀ e ∈ G.di, e.1 ≠ e.2) (hbl : ∀ e ∈ G.bi, e.1 ≠ e.2)
    {ordf : List World → List World} (hord : PermOrder ordf) {dordf : List Var → List Var} (hdo : PermDistrict dordf) :
    ∀ (fuel : Nat) (w : World) (s : Name → Bool) (ev : Event), Frag2 G w s ev → violatesEffectiveness ev = false →
      idStarFuel ordf dordf G fuel ev ≠ .ok .zero := by
  intro fuel
  induction fuel with
  | zero => intro w s ev _ _ h; simp only [idStarFuel] at h; cases h
  | succ fuel ih =>
    intro w s ev hfr hviol h
    simp only [idStarFuel] at h
    unfold idStarBody at h
    split at h
    · cases h
    · rename_i hne
      rw [hviol] at h
      simp only [Bool.false_eq_true, ↓reduceIte] at h
      split at h
      · exact ih w s _ (frag2_removeTautologies hfr) (violates_removeTautologies' ev hviol) h
      · rename_i h3
        have hk : KeysNSI ev := keysNSI_of_lines123 ev (by intro h0; simp [h0] at hne) hviol
          (eqv_true_of_not _ _ h3) hfr.good.ok
        exact lines4to9_ne_zero_sw hG hdl hbl hord hdo _ (fun w' s' ev' hfr' hv' => ih w' s' ev' hfr' hv') w _ ev
          (frag2_restrictS hfr) (sKeys_restrictS s ev) hk h

/-! ## any well-formed event: the recursive calls are calls on single-world events -/

/-- a recursive call of line 6 returns Zero only through its own line 2, and never refuses -/
theorem district_call (hG : G.WF) (hdl : ∀ e ∈ G.di, e.1 ≠ e.2) (hbl : ∀ e ∈ G.bi, e.1 ≠ e.2)
    {ordf : List World → List World} (hord : PermOrder ordf) {dordf : List Var → List Var} (hdo : PermDistrict dordf)
    (x : Event) (hsw : SW G x) (f : Nat) :
    (idStarFuel ordf dordf G f x = .ok .zero → violatesEffectiveness x = true) ∧
      idStarFuel ordf dordf G f x ≠ .error .unidentifiable := by
  obtain ⟨w, hfr⟩ := frag2_of_sw hsw
  cases hv : violatesEffectiveness x with
  | false =>
    exact ⟨fun h => absurd h (idStarFuel_ne_zero_sw hG hdl hbl hord hdo f w _ x hfr hv),
      idStarFuel_not_unid_sw hG hdl hbl hord hdo f w _ x hfr hv⟩
  | true =>
    refine ⟨fun _ => rfl, ?_⟩
    cases f with
    | zero => intro h; simp only [idStarFuel] at h; cases h
    | succ f =>
      intro h
      simp only [idStarFuel] at h
      unfold idStarBody at h
      rw [hv] at h
      split at h <;> cases h

/-- **where Zero comes from** (lines 4–9, any well-formed event past lines 1–3): line 5, or line 6 with a district event that
violates effectiveness -/
theorem lines4to9_zero_origin (hG : G.WF) (hdl : ∀ e ∈ G.di, e.1 ≠ e.2) (hbl : ∀ e ∈ G.bi, e.1 ≠ e.2)
    {ordf : List World → List World} (hord : PermOrder ordf) {dordf : List Var → List Var} (hdo : PermDistrict dordf)
    (ev : Event) (hev : GoodEv G ev) (hk : KeysNSI ev) (f : Nat)
    (h : idStarLines4to9 ordf dordf G (idStarFuel ordf dordf G f) ev = .ok .zero) :
    (∃ g, makeCounterfactualGraph ordf G ev = .ok (g, none)) ∨
    (∃ g nev evs x, makeCounterfactualGraph ordf G ev = .ok (g, some nev) ∧ isConnected (nsiSubgraph g) = .ok false ∧
      eventsOfEachDistrict dordf g nev = .ok evs ∧ x ∈ evs ∧ violatesEffectiveness x = true) := by
  unfold49 at h
  cases hcg : makeCounterfactualGraph ordf G ev with
  | error err => rw [hcg] at h; cases h
  | ok v =>
    rw [hcg] at h
    simp only at h
    rcases v with ⟨cf, new⟩
    cases new with
    | none => exact Or.inl ⟨cf, rfl⟩
    | some nev =>
      right
      simp only at h
      obtain ⟨_, hnevok⟩ := cg_event_inv hord.good hcg hk hev.ok
      cases hc : isConnected (nsiSubgraph cf) with
      | error err => rw [hc] at h; cases h
      | ok c =>
        rw [hc] at h
        simp only at h
        split at h
        · rename_i hnc
          have hcfalse : c = false := by simpa using hnc
          subst hcfalse
          cases hevs : eventsOfEachDistrict dordf cf nev with
          | error err => rw [hevs] at h; cases h
          | ok evs =>
            rw [hevs] at h
            simp only at h
            split at h
            · cases h
            · cases hm : evs.mapM (idStarFuel ordf dordf G f) with
              | error err => rw [hm] at h; cases h
              | ok fs =>
                rw [hm] at h
                simp only [Except.ok.injEq] at h
                obtain ⟨z, hz, hzz⟩ := productSafe_eq_zero (sumSafe_eq_zero h)
                subst hzz
                obtain ⟨x, hx, hfx⟩ := mapM_ok_mem _ _ _ hm _ hz
                have hsw := sw_of_district hord hdo.subset hG hdl hbl hev hcg hnevok hevs x hx
                exact ⟨cf, nev, evs, x, rfl, hc, hevs, hx, (district_call hG hdl hbl hord hdo x hsw f).1 hfx⟩
        · split at h
          · cases h
          · cases h9 : line9 (nsiSubgraph cf) with
            | error err => rw [h9] at h; cases h
            | ok e9 =>
              rw [h9] at h
              simp only [Except.ok.injEq] at h
              exact absurd (sumSafe_eq_zero h) (line9_ne_zero _ e9 h9)

/-- **where a refusal comes from** (lines 4–9, any well-formed event past lines 1–3, acyclic graph): exactly from line 8 of THIS
call — the counterfactual graph is connected and a subscript of one of its nodes contradicts a value or a subscript of the
relabelled event.  The recursive calls of line 6 never refuse. -/
theorem lines4to9_unid_iff (hG : G.WF) (hA : G.Acyclic) (hdl : ∀ e ∈ G.di, e.1 ≠ e.2) (hbl : ∀ e ∈ G.bi, e.1 ≠ e.2)
    {ordf : List World → List World} (hord : PermOrder ordf) {dordf : List Var → List Var} (hdo : PermDistrict dordf)
    (ev : Event) (hev : GoodEv G ev) (hk : KeysNSI ev) (f : Nat) :
    idStarLines4to9 ordf dordf G (idStarFuel ordf dordf G f) ev = .error .unidentifiable ↔
      ∃ g nev, makeCounterfactualGraph ordf G ev = .ok (g, some nev) ∧ isConnected (nsiSubgraph g) = .ok true ∧
        conflicts (nsiSubgraph g) nev ≠ [] := by
  constructor
  · intro h
    unfold49 at h
    cases hcg : makeCounterfactualGraph ordf G ev with
    | error err =>
      rw [hcg] at h
      simp only [Except.error.injEq] at h
      subst h
      have ht := (cg_error_iff_cyclic ordf G ev _).1 hcg
      obtain ⟨l, hl⟩ := MG.topologicalSort_total G hG hA
      rw [hl] at ht; cases ht
    | ok v =>
      rw [hcg] at h
      simp only at h
      rcases v with ⟨cf, new⟩
      cases new with
      | none => cases h
      | some nev =>
        simp only at h
        obtain ⟨_, hnevok⟩ := cg_event_inv hord.good hcg hk hev.ok
        cases hc : isConnected (nsiSubgraph cf) with
        | error err =>
          rw [hc] at h
          simp only [Except.error.injEq] at h
          subst h
          have := isConnected_error _ _ hc
          cases this
        | ok c =>
          rw [hc] at h
          simp only at h
          split at h
          · cases hevs : eventsOfEachDistrict dordf cf nev with
            | error err =>
              obtain ⟨evs, hevs', _⟩ := eventsOfEachDistrict_ok hdo.subset cf nev
              rw [hevs'] at hevs; cases hevs
            | ok evs =>
              rw [hevs] at h
              simp only at h
              split at h
              · cases h
              · cases hm : evs.mapM (idStarFuel ordf dordf G f) with
                | error err =>
                  rw [hm] at h
                  simp only [Except.error.injEq] at h
                  subst h
                  obtain ⟨x, hx, hxe⟩ := mapM_error _ _ _ hm
                  have hsw := sw_of_district hord hdo.subset hG hdl hbl hev hcg hnevok hevs x hx
                  exact absurd hxe (district_call hG hdl hbl hord hdo x hsw f).2
                | ok fs => rw [hm] at h; cases h
          · rename_i hcn
            have hct : c = true := by simpa using hcn
            subst hct
            split at h
            · rename_i hconf
              refine ⟨cf, nev, rfl, hc, ?_⟩
              intro h0
              rw [h0] at hconf
              simp at hconf
            · cases h9 : line9 (nsiSubgraph cf) with
              | error err =>
                have hne : (nsiSubgraph cf).nodes ≠ [] := cg_nsi_nonempty hord.good hcg hk hev.ok
                obtain ⟨e9, he9⟩ := line9_ok _ hne
                rw [he9] at h9; cases h9
              | ok e9 => rw [h9] at h; cases h
  · rintro ⟨g, nev, hcg, hconn, hconf⟩
    unfold49
    rw [hcg]
    simp only
    rw [hconn]
    simp only [Bool.not_true, Bool.false_eq_true, ↓reduceIte]
    have : (conflicts (nsiSubgraph g) nev).isEmpty = false := by
      cases hcf : conflicts (nsiSubgraph g) nev with
      | nil => exact absurd hcf hconf
      | cons _ _ => rfl
    rw [this]
    rfl

end

end Y0.Cf

namespace Y0.Cf

/-- lines 1–3 at the top with at least two units of fuel: `One()`, or lines 4–9 on the event without its tautologies -/
theorem idStarFuel_top_shape2 (ordf : List World → List World) (dordf : List Var → List Var) (G : MG Name) (ev : Event)
    (hviol : violatesEffectiveness ev = false) (hok : EvOK ev) (hne : ev ≠ []) (fuel : Nat) :
    (removeTautologies ev = [] ∧ idStarFuel ordf dordf G (fuel + 2) ev = .ok .one) ∨
    ∃ f, removeTautologies ev ≠ [] ∧
      idStarFuel ordf dordf G (fuel + 2) ev =
        idStarLines4to9 ordf dordf G (idStarFuel ordf dordf G f) (removeTautologies ev) := by
  have hemp : ev.isEmpty = false := by cases ev with | nil => exact absurd rfl hne | cons _ _ => rfl
  simp only [idStarFuel]
  unfold idStarBody
  rw [hemp, hviol]
  simp only [Bool.false_eq_true, ↓reduceIte]
  split
  · rw [violates_removeTautologies' ev hviol, removeTautologies_idem'',
      eqv_self _ (evOK_removeTautologies ev hok).nodup]
    simp only [Bool.false_eq_true, ↓reduceIte, Bool.not_true]
    split
    · rename_i h0
      left
      exact ⟨by simpa using h0, rfl⟩
    · rename_i h0
      right
      exact ⟨fuel, by intro h1; rw [h1] at h0; simp at h0, rfl⟩
  · rename_i h3
    have heq := removeTautologies_eq_of_eqv ev hok (eqv_true_of_not _ _ h3)
    right
    exact ⟨fuel + 1, by rw [heq]; exact hne, by rw [heq]; rfl⟩

end Y0.Cf
