/-
  Y0.Lemmas.CfStarSubs — which unstarred subscripts an ID* estimand of a single-world event carries.

  Line 9 writes the subscripts of the event's world; line 6 turns the nodes of a district's Markov pillow into UNSTARRED
  subscripts (`_to_interventions`).  `Safe X` is any property of variable names (in Props/C07: "the event gives `X` the unstarred
  value, or none").  If
    * the unstarred subscripts of the event's world are safe,
    * whenever line 6 fires (`CleanAt`): the variables the event does not give a starred value are safe, no starred-valued key is
      a parent (in `G`) of a non-self-intervened node of the counterfactual graph (F10/M1 cannot occur), and no node of the graph
      is self-intervened on a starred subscript (F10/M2 cannot occur),
  then every unstarred subscript of the returned estimand is safe (`lines4to9_allSubs`, `idStarFuel_allSubs_sub` for the
  recursive calls).  With `cden2_eq_cden` (Lemmas/CfStarLit.lean) the literal reading of the estimand is its conflating reading.
-/
import Y0.Lemmas.CfFragC
import Y0.Lemmas.CfStarLit

namespace Y0.Cf
open Relation MG Fscm

/-- what line 6 needs of the counterfactual graph `g` and the relabelled event `nev` -/
structure CleanAt (Safe : Name → Prop) (G : MG Name) (w : World) (s : Name → Bool) (g : MG Var) (nev : Event) : Prop where
  nsiSafe : ∀ n ∈ (nsiSubgraph g).nodes, s n.name = false → Safe n.name
  c1 : ∀ k ∈ nev.keys, s k.name = true → ∀ n ∈ (nsiSubgraph g).nodes, (k.name, n.name) ∉ G.di
  c2 : ∀ n ∈ g.nodes, isNotSelfIntervened n = false → ∀ i ∈ w, i.name = n.name → i.star = false

/-- what the event line 6 builds for a district satisfies -/
structure SubOK (Safe : Name → Prop) (G : MG Name) (w : World) (s : Name → Bool) (ev : Event) : Prop where
  wUnst : ∀ i ∈ w, i.star = false
  wSafe : ∀ i ∈ w, Safe i.name
  noSelf : ∀ k ∈ ev.keys, k.name ∉ w.map (·.name)
  closed : ∀ b ∈ ev.keys.map (·.name), ∀ m, (m, b) ∈ G.di → m ∈ ev.keys.map (·.name) ∨ m ∈ w.map (·.name)
  cleanKeys : ∀ k ∈ ev.keys, s k.name = true → ∀ k' ∈ ev.keys, (k.name, k'.name) ∉ G.di
  unstSafe : ∀ k ∈ ev.keys, s k.name = false → Safe k.name

theorem atWorld_inj_world {n m : Name} {w w' : World} (h : atWorld n w = atWorld m w') : w = w' := by
  simp only [atWorld, Var.mk.injEq] at h
  exact h.2.2.2

theorem restrictS_eq_of_key {s : Name → Bool} {ev : Event} {k : Var} (hk : k ∈ ev.keys) :
    restrictS s ev k.name = s k.name := by
  have : k.name ∈ ev.keys.map (·.name) := List.mem_map.2 ⟨k, hk, rfl⟩
  simp [restrictS, this]

section
variable {Safe : Name → Prop} {G : MG Name}

theorem lines4to9_allSubs (hG : G.WF) (hdl : ∀ e ∈ G.di, e.1 ≠ e.2) (hbl : ∀ e ∈ G.bi, e.1 ≠ e.2)
    {ordf : List World → List World} (hord : PermOrder ordf) {dordf : List Var → List Var} (hdo : PermDistrict dordf)
    (rec : Event → Except Err Expr)
    (hrec : ∀ w' s' ev' e', Frag2 G w' s' ev' → SKeys s' ev' → SubOK Safe G w' s' ev' → rec ev' = .ok e' →
      ∀ X ∈ allSubs e', Safe X)
    (w : World) (s : Name → Bool) (ev : Event) (hfr : Frag2 G w s ev) (hsk : SKeys s ev) (hk : KeysNSI ev)
    (ha : ∀ i ∈ w, i.star = false → Safe i.name)
    (hclean : ∀ g nev, makeCounterfactualGraph ordf G ev = .ok (g, some nev) → isConnected (nsiSubgraph g) = .ok false →
      CleanAt Safe G w s g nev)
    (e : Expr) (h : idStarLines4to9 ordf dordf G rec ev = .ok e) : ∀ X ∈ allSubs e, Safe X := by
  intro X hX
  unfold49 at h
  cases hcg : makeCounterfactualGraph ordf G ev with
  | error err => rw [hcg] at h; cases h
  | ok v =>
    rw [hcg] at h
    simp only at h
    rcases v with ⟨cf, new⟩
    obtain ⟨nev, rfl, facts⟩ := frag_facts hord hG hdl hbl hfr hk.1 hcg
    simp only at h
    have hkeysnsi : ∀ k ∈ nev.keys, isNotSelfIntervened k = true := by
      obtain ⟨⟨_, hnsi⟩, _⟩ := cg_event_inv hord.good hcg hk hfr.good.ok
      intro k hkk
      obtain ⟨v, hv⟩ := (mem_keys_iff nev k).1 hkk
      exact hnsi _ hv
    have hwfn := wf_nsiSubgraph cf
    cases hc : isConnected (nsiSubgraph cf) with
    | error err => rw [hc] at h; cases h
    | ok c =>
      rw [hc] at h
      simp only at h
      split at h
      · -- line 6
        rename_i hnc
        have hcfalse : c = false := by simpa using hnc
        subst hcfalse
        have clean := hclean cf nev hcg hc
        cases hevs : eventsOfEachDistrict dordf cf nev with
        | error err => rw [hevs] at h; cases h
        | ok evs =>
          rw [hevs] at h
          simp only at h
          split at h
          · cases h
          · cases hm : evs.mapM rec with
            | error err => rw [hm] at h; cases h
            | ok fs =>
              rw [hm] at h
              simp only [Except.ok.injEq] at h
              subst h
              obtain ⟨f, hf, hXf⟩ := allSubs_productSafe fs X (allSubs_sumSafe _ _ X hX)
              obtain ⟨x, hx, hfx⟩ := mapM_ok_mem _ _ _ hm f hf
              have hxD : ∃ D ∈ (nsiSubgraph cf).districts, eventsOfDistrict cf (dordf D) nev = .ok x := by
                unfold eventsOfEachDistrict at hevs
                exact mapM_ok_mem _ _ _ hevs x hx
              obtain ⟨D, hD, hDx⟩ := hxD
              obtain ⟨pillow, hp, hxeq, hfrx, hwU, hnoself, hkD⟩ :=
                frag_of_district hord hdo hG hdl hbl hfr.good hcg facts.toD (sKeys_nev facts hsk) hkeysnsi hevs D hD x hDx
              have hsw := sw_of_district hord hdo.subset hG hdl hbl hfr.good hcg facts.nevOK hevs x hx
              have hpspec := markovPillow_spec cf (dordf D) pillow hp
              have hpnode : ∀ v ∈ pillow, v ∈ cf.nodes := by
                intro v hv
                obtain ⟨_, s', _, hvs⟩ := (hpspec v).1 hv
                exact (facts.wf.di_mem _ hvs).1
              have hmemw := mem_toInterventions_unst facts.toD pillow hpnode
              have hDn : ∀ n ∈ D, n ∈ (nsiSubgraph cf).nodes := fun n hn => (districts_cover _ hwfn n).2 ⟨D, hD, hn⟩
              -- a starred-valued non-self-intervened node is a key of the relabelled event
              have hstarkey : ∀ n ∈ (nsiSubgraph cf).nodes, s n.name = true → n ∈ nev.keys := by
                intro n hn hs
                obtain ⟨hng, hnnsi⟩ := (mem_nsiSubgraph_iff cf n).1 hn
                have hb : n.name ∈ nev.keys.map (·.name) := (facts.keyNames n.name).2 (hsk n.name hs)
                obtain ⟨k, hkk, hkn⟩ := List.mem_map.1 hb
                have : k = n := facts.inj k (facts.keysNodes k hkk) n hng (hkeysnsi k hkk) hnnsi hkn
                exact this ▸ hkk
              refine hrec _ _ x f (frag2_restrictS hfrx) (sKeys_restrictS s x) ⟨hwU, ?_, hnoself, ?_, ?_, ?_⟩ hfx X hXf
              · -- the subscripts made from the pillow are safe
                intro i hi
                obtain ⟨v, hv, rfl⟩ := (hmemw i).1 hi
                simp only
                obtain ⟨hvD, c', hc'D, hvc⟩ := (hpspec v).1 hv
                have hvg := hpnode v hv
                by_cases hvnsi : isNotSelfIntervened v = true
                · have hvN : v ∈ (nsiSubgraph cf).nodes := (mem_nsiSubgraph_iff cf v).2 ⟨hvg, hvnsi⟩
                  cases hs : s v.name with
                  | false => exact clean.nsiSafe v hvN hs
                  | true =>
                    exfalso
                    have hc'N := hDn c' ((hdo D).mem_iff.1 hc'D)
                    exact clean.c1 v (hstarkey v hvN hs) hs c' hc'N (facts.proj v c' hvc)
                · have hself := facts.selfIntervened v hvg (by simpa using hvnsi)
                  obtain ⟨i', hi', hi'n⟩ := List.mem_map.1 hself.2
                  have := clean.c2 v hvg (by simpa using hvnsi) i' hi' hi'n
                  rw [← hi'n]
                  exact ha i' hi' this
              · -- closed under parents up to the pillow
                intro b hb m hm
                obtain ⟨w'', hkw'', hcl⟩ := hsw.world
                obtain ⟨k, hkx, _⟩ := List.mem_map.1 hb
                have e1 := hkw'' k hkx
                have e2 := hfrx.keysIn k hkx
                have : w'' = ivsCanon (toInterventions pillow) := atWorld_inj_world (e1.symm.trans e2)
                rw [← this]
                exact hcl b hb m hm
              · intro k hkx hs k' hk'x
                obtain ⟨n, hnD, hnk⟩ := List.mem_map.1 (hkD k hkx)
                obtain ⟨n', hn'D, hn'k⟩ := List.mem_map.1 (hkD k' hk'x)
                have hs' : s n.name = true := by rw [hnk]; exact restrictS_true hs
                rw [← hnk, ← hn'k]
                exact clean.c1 n (hstarkey n (hDn n hnD) hs') hs' n' (hDn n' hn'D)
              · intro k hkx hs
                obtain ⟨n, hnD, hnk⟩ := List.mem_map.1 (hkD k hkx)
                rw [restrictS_eq_of_key hkx] at hs
                rw [← hnk]
                exact clean.nsiSafe n (hDn n hnD) (by rw [hnk]; exact hs)
      · split at h
        · cases h
        · -- line 9
          cases h9 : line9 (nsiSubgraph cf) with
          | error err => rw [h9] at h; cases h
          | ok e9 =>
            rw [h9] at h
            simp only [Except.ok.injEq] at h
            subst h
            have hX9 := allSubs_sumSafe _ _ X hX
            unfold line9 at h9
            obtain ⟨i, hi, his, rfl⟩ := allSubs_probSafe _ _ e9 h9 X hX9
            unfold cfInterventions at hi
            rw [mem_dedup', List.mem_flatMap] at hi
            obtain ⟨n, hn, hin⟩ := hi
            have hng := ((mem_nsiSubgraph_iff cf n).1 hn).1
            rcases facts.shape n hng with h' | h'
            · rw [h'] at hin; cases hin
            · rw [h'] at hin
              exact ha i hin his

/-- the recursive calls: on a district event every unstarred subscript of the answer is safe -/
theorem idStarFuel_allSubs_sub (hG : G.WF) (hdl : ∀ e ∈ G.di, e.1 ≠ e.2) (hbl : ∀ e ∈ G.bi, e.1 ≠ e.2)
    {ordf : List World → List World} (hord : PermOrder ordf) {dordf : List Var → List Var} (hdo : PermDistrict dordf) :
    ∀ (fuel : Nat) (w : World) (s : Name → Bool) (ev : Event) (e : Expr), Frag2 G w s ev → SKeys s ev → SubOK Safe G w s ev →
      idStarFuel ordf dordf G fuel ev = .ok e → ∀ X ∈ allSubs e, Safe X := by
  intro fuel
  induction fuel with
  | zero => intro w s ev e _ _ _ h; simp only [idStarFuel] at h; cases h
  | succ fuel ih =>
    intro w s ev e hfr hsk hsub h
    simp only [idStarFuel] at h
    unfold idStarBody at h
    split at h
    · simp only [Except.ok.injEq] at h
      subst h
      intro X hX
      simp [allSubs] at hX
    · rename_i hne
      have hviol := violates_false_of_noSelf hfr.keysIn hfr.good.ok.names hsub.noSelf
      rw [hviol] at h
      simp only [Bool.false_eq_true, ↓reduceIte] at h
      -- line 3 does nothing: no key is named in the world
      have hrt : removeTautologies ev = ev := by
        unfold removeTautologies
        apply List.filter_eq_self.2
        intro p hp
        have hkp : p.1 ∈ ev.keys := (mem_keys_iff ev p.1).2 ⟨p.2, hp⟩
        have hivs : p.1.ivs = w := by rw [hfr.keysIn p.1 hkp]; rfl
        simp only [Bool.not_eq_eq_eq_not, Bool.not_true]
        unfold isRedundant
        simp only [Bool.and_eq_false_iff, List.any_eq_false, Bool.and_eq_true, beq_iff_eq, not_and]
        right
        intro i hi hin
        exfalso
        rw [hivs] at hi
        exact hsub.noSelf p.1 hkp (List.mem_map.2 ⟨i, hi, by rw [hin, hfr.good.ok.names p hp]⟩)
      rw [hrt, eqv_self ev hfr.good.ok.nodup] at h
      simp only [Bool.not_true, Bool.false_eq_true, ↓reduceIte] at h
      have hevne : ev ≠ [] := by intro h0; simp [h0] at hne
      have hk : KeysNSI ev := by
        refine ⟨hevne, ?_⟩
        intro p hp
        have hkp : p.1 ∈ ev.keys := (mem_keys_iff ev p.1).2 ⟨p.2, hp⟩
        have hivs : p.1.ivs = w := by rw [hfr.keysIn p.1 hkp]; rfl
        unfold isNotSelfIntervened
        rw [List.all_eq_true]
        intro i hi
        simp only [ne_eq, decide_not, Bool.not_eq_eq_eq_not, Bool.not_true, decide_eq_false_iff_not]
        intro hin
        rw [hivs] at hi
        exact hsub.noSelf p.1 hkp (List.mem_map.2 ⟨i, hi, hin⟩)
      refine lines4to9_allSubs hG hdl hbl hord hdo _ (fun w' s' ev' e' hfr' hsk' hsub' h' => ih w' s' ev' e' hfr' hsk' hsub' h')
        w s ev hfr hsk hk (fun i hi _ => hsub.wSafe i hi) ?_ e h
      intro g nev hcg _
      obtain ⟨_, hnames⟩ := sw_structure hord hG hdl hbl hfr.good.ok hevne hfr.good.keys w hfr.keysIn hcg
      have hkeyname := hnames hsub.closed
      refine ⟨?_, ?_, ?_⟩
      · intro n hn hs
        obtain ⟨hng, hnnsi⟩ := (mem_nsiSubgraph_iff g n).1 hn
        obtain ⟨k, hkk, hkn⟩ := List.mem_map.1 (hkeyname n hng hnnsi)
        rw [← hkn]
        exact hsub.unstSafe k hkk (by rw [hkn]; exact hs)
      · intro k _ hs n hn
        obtain ⟨hng, hnnsi⟩ := (mem_nsiSubgraph_iff g n).1 hn
        obtain ⟨k', hk', hk'n⟩ := List.mem_map.1 (hkeyname n hng hnnsi)
        obtain ⟨k0, hk0, hk0n⟩ := List.mem_map.1 (hsk k.name hs)
        rw [← hk'n, ← hk0n]
        exact hsub.cleanKeys k0 hk0 (by rw [hk0n]; exact hs) k' hk'
      · intro _ _ _ i hi _
        exact hsub.wUnst i hi

end

end Y0.Cf
