/-
  Y0.Lemmas.PrintParse — generic facts about the fuel-bounded parser `Y0.PyParse`:
  unfolding equations, "what stops a loop", lifting a parse from level `lvl+1` to level `lvl`,
  left-associative operator chains, postfix (call / subscript) chains, comma lists.

  Fuel discipline: every statement has the form
      `8 * ts.length + c ≤ n → … → p n (ts ++ rest) = .ok (a, rest)`
  ("with at least 8 units of fuel per token to be consumed plus a constant, the parser consumes exactly `ts`
  and returns `a`").  `fuelFor` gives 16 per token.
-/
import Y0.Model.PyParse

namespace Y0
namespace PyParse

/-! ### what may follow a complete operand -/

/-- the next token does not open a call or a subscript -/
def NoPost : List Tok → Prop
  | .lpar :: _ => False
  | .lbr :: _ => False
  | _ => True

/-- the next token is not a binary operator of level `≥ lvl`, and does not open a call / subscript:
a parse at level `lvl` stops here -/
def StopFrom (lvl : Nat) : List Tok → Prop
  | [] => True
  | t :: ts => NoPost (t :: ts) ∧ ∀ op l, binInfo t = some (op, l) → l < lvl

theorem StopFrom.noPost {lvl rest} (h : StopFrom lvl rest) : NoPost rest := by
  cases rest with
  | nil => trivial
  | cons t ts => exact h.1

theorem StopFrom.mono {lvl lvl' rest} (h : StopFrom lvl rest) (hl : lvl ≤ lvl') : StopFrom lvl' rest := by
  cases rest with
  | nil => trivial
  | cons t ts => exact ⟨h.1, fun op l hb => Nat.lt_of_lt_of_le (h.2 op l hb) hl⟩

/-- a closing bracket or the end of input follows -/
def Closed : List Tok → Prop
  | [] => True
  | .rpar :: _ => True
  | .rbr :: _ => True
  | _ => False

theorem Closed.stopFrom {rest} (h : Closed rest) (lvl : Nat) : StopFrom lvl rest := by
  cases rest with
  | nil => trivial
  | cons t ts =>
    cases t <;> simp [Closed] at h <;> simp [StopFrom, NoPost, binInfo]

theorem stopFrom_comma (lvl : Nat) (ts : List Tok) : StopFrom lvl (.comma :: ts) := by
  simp [StopFrom, NoPost, binInfo]

theorem stopFrom_rpar (lvl : Nat) (ts : List Tok) : StopFrom lvl (.rpar :: ts) := by
  simp [StopFrom, NoPost, binInfo]

theorem stopFrom_rbr (lvl : Nat) (ts : List Tok) : StopFrom lvl (.rbr :: ts) := by
  simp [StopFrom, NoPost, binInfo]

/-- an operator token of level `l` stops every parse at a level above `l` -/
theorem stopFrom_op {t : Tok} {op : BOp} {l : Nat} (h : binInfo t = some (op, l)) (ts : List Tok) {lvl : Nat}
    (hl : l < lvl) : StopFrom lvl (t :: ts) := by
  refine ⟨?_, ?_⟩
  · cases t <;> simp [binInfo] at h <;> trivial
  · intro op' l' h'
    rw [h] at h'
    cases h'
    exact hl

/-! ### one-step unfoldings -/

/-- sequencing of parser results -/
def bindR {α β} (r : R α) (k : α → List Tok → R β) : R β :=
  match r with
  | .error e => .error e
  | .ok (a, rest) => k a rest

@[simp] theorem bindR_ok {α β} (a : α) (rest : List Tok) (k : α → List Tok → R β) : bindR (.ok (a, rest)) k = k a rest := rfl

theorem pBin_succ_lt {n lvl : Nat} (ts : List Tok) (h : lvl < 4) :
    pBin (n + 1) lvl ts = bindR (pBin n (lvl + 1) ts) (pLoop n lvl) := by
  rw [pBin]
  have : ¬ (lvl ≥ topLevel) := by simp [topLevel]; omega
  simp only [this, if_false]
  cases pBin n (lvl + 1) ts with
  | error e => rfl
  | ok p => cases p; rfl

theorem pBin_succ_top {n : Nat} (ts : List Tok) : pBin (n + 1) 4 ts = pUnary n ts := by
  rw [pBin]
  simp [topLevel]

/-- a loop stops (without consuming anything) when the next token is not one of its operators -/
theorem pLoop_stop {n lvl : Nat} (lhs : Ast) {rest : List Tok} (h : StopFrom lvl rest) :
    pLoop (n + 1) lvl lhs rest = .ok (lhs, rest) := by
  cases rest with
  | nil => rw [pLoop]
  | cons t ts =>
    rw [pLoop]
    cases hb : binInfo t with
    | none => rfl
    | some p =>
      obtain ⟨op, l⟩ := p
      have := h.2 op l hb
      have hne : ¬ (l = lvl) := by omega
      simp [hne]

/-- a loop consumes one operator of its level and the operand after it -/
theorem pLoop_step {n lvl : Nat} (lhs : Ast) {t : Tok} {op : BOp} (ts : List Tok) (h : binInfo t = some (op, lvl)) :
    pLoop (n + 1) lvl lhs (t :: ts) = bindR (pBin n (lvl + 1) ts) (fun r rest => pLoop n lvl (.bin op lhs r) rest) := by
  rw [pLoop]
  simp only [h, if_true]
  cases pBin n (lvl + 1) ts with
  | error e => rfl
  | ok p => cases p; rfl

theorem pPost_stop {n : Nat} (f : Ast) {rest : List Tok} (h : NoPost rest) : pPost (n + 1) f rest = .ok (f, rest) := by
  cases rest with
  | nil => rw [pPost] <;> simp
  | cons t ts =>
    cases t
    case lpar => exact absurd h (by simp [NoPost])
    case lbr => exact absurd h (by simp [NoPost])
    all_goals (rw [pPost] <;> simp)

/-! ### parse judgements -/

/-- `ts` is a complete operand of level `lvl` with syntax tree `a` (level 4: `factor`) -/
def ParsesAt (lvl : Nat) (ts : List Tok) (a : Ast) : Prop :=
  ∀ n rest, 8 * ts.length + (8 - lvl) ≤ n → StopFrom lvl rest → pBin n lvl (ts ++ rest) = .ok (a, rest)

/-- `ts` is a `factor` (unary operators, atom, postfix chain) with syntax tree `a` -/
def UnaryParses (ts : List Tok) (a : Ast) : Prop :=
  ∀ n rest, 8 * ts.length + 3 ≤ n → NoPost rest → pUnary n (ts ++ rest) = .ok (a, rest)

/-- `ts` is a non-empty comma-separated list of expressions with syntax trees `as` -/
def ListParses (ts : List Tok) (as : List Ast) : Prop :=
  ∀ n rest, 8 * ts.length + 9 ≤ n → Closed rest → pList n (ts ++ rest) = .ok (as, rest)

theorem ParsesAt.of_unary {ts a} (h : UnaryParses ts a) : ParsesAt 4 ts a := by
  intro n rest hn hr
  obtain ⟨m, rfl⟩ : ∃ m, n = m + 1 := ⟨n - 1, by omega⟩
  rw [pBin_succ_top]
  exact h m rest (by omega) hr.noPost

/-- a complete operand of level `lvl+1` is a complete operand of level `lvl` -/
theorem ParsesAt.lift {lvl ts a} (hl : lvl < 4) (h : ParsesAt (lvl + 1) ts a) : ParsesAt lvl ts a := by
  intro n rest hn hr
  obtain ⟨m, rfl⟩ : ∃ m, n = m + 1 := ⟨n - 1, by omega⟩
  rw [pBin_succ_lt _ hl, h m rest (by omega) (hr.mono (Nat.le_succ _)), bindR_ok]
  obtain ⟨k, rfl⟩ : ∃ k, m = k + 1 := ⟨m - 1, by omega⟩
  exact pLoop_stop a hr

theorem ParsesAt.lift_to {lvl lvl' ts a} (h : ParsesAt lvl' ts a) (hle : lvl ≤ lvl') (h4 : lvl' ≤ 4) :
    ParsesAt lvl ts a := by
  induction hle' : lvl' - lvl generalizing lvl with
  | zero =>
    have : lvl = lvl' := by omega
    subst this; exact h
  | succ k ih =>
    have := ih (lvl := lvl + 1) (by omega) (by omega)
    exact this.lift (by omega)

theorem UnaryParses.at {ts a} (h : UnaryParses ts a) (lvl : Nat) (hl : lvl ≤ 4) : ParsesAt lvl ts a :=
  (ParsesAt.of_unary h).lift_to hl (Nat.le_refl _)

/-! ### left-associative chains `x op y op z …` -/

/-- one `op operand` item of a chain at level `lvl` -/
structure ChainItem where
  tok : Tok
  op : BOp
  toks : List Tok
  ast : Ast

def chainToks : List ChainItem → List Tok
  | [] => []
  | it :: its => it.tok :: it.toks ++ chainToks its

def chainAst (lhs : Ast) : List ChainItem → Ast
  | [] => lhs
  | it :: its => chainAst (.bin it.op lhs it.ast) its

theorem pLoop_chain {lvl : Nat} (hl : lvl < 4) (its : List ChainItem)
    (hits : ∀ it ∈ its, binInfo it.tok = some (it.op, lvl) ∧ ParsesAt (lvl + 1) it.toks it.ast) :
    ∀ (lhs : Ast) n rest, 8 * (chainToks its).length + 1 ≤ n → StopFrom lvl rest →
      pLoop n lvl lhs (chainToks its ++ rest) = .ok (chainAst lhs its, rest) := by
  induction its with
  | nil =>
    intro lhs n rest hn hr
    obtain ⟨m, rfl⟩ : ∃ m, n = m + 1 := ⟨n - 1, by omega⟩
    simpa [chainToks, chainAst] using pLoop_stop lhs hr
  | cons it its ih =>
    intro lhs n rest hn hr
    obtain ⟨hop, hp⟩ := hits it (by simp)
    obtain ⟨m, rfl⟩ : ∃ m, n = m + 1 := ⟨n - 1, by omega⟩
    simp only [chainToks, List.cons_append, List.append_assoc, List.length_cons, List.length_append] at hn ⊢
    rw [pLoop_step lhs _ hop]
    have hstop : StopFrom (lvl + 1) (chainToks its ++ rest) := by
      cases its with
      | nil => simpa [chainToks] using hr.mono (Nat.le_succ _)
      | cons it' its' =>
        obtain ⟨hop', _⟩ := hits it' (by simp)
        simpa [chainToks] using stopFrom_op hop' _ (Nat.lt_succ_self _)
    rw [hp m _ (by omega) hstop, bindR_ok]
    exact ih (fun x hx => hits x (by simp [hx])) _ m rest (by omega) hr

/-- `first op₁ x₁ op₂ x₂ …` is a complete operand of level `lvl` with the left-nested tree -/
theorem ParsesAt.chain {lvl : Nat} (hl : lvl < 4) {first : List Tok} {a : Ast} (hfirst : ParsesAt (lvl + 1) first a)
    (its : List ChainItem)
    (hits : ∀ it ∈ its, binInfo it.tok = some (it.op, lvl) ∧ ParsesAt (lvl + 1) it.toks it.ast) :
    ParsesAt lvl (first ++ chainToks its) (chainAst a its) := by
  intro n rest hn hr
  obtain ⟨m, rfl⟩ : ∃ m, n = m + 1 := ⟨n - 1, by omega⟩
  simp only [List.length_append] at hn
  rw [List.append_assoc, pBin_succ_lt _ hl]
  have hstop : StopFrom (lvl + 1) (chainToks its ++ rest) := by
    cases its with
    | nil => simpa [chainToks] using hr.mono (Nat.le_succ _)
    | cons it' its' =>
      obtain ⟨hop', _⟩ := hits it' (by simp)
      simpa [chainToks] using stopFrom_op hop' _ (Nat.lt_succ_self _)
  rw [hfirst m _ (by omega) hstop, bindR_ok]
  exact pLoop_chain hl its hits a m rest (by omega) hr

/-! ### unary operators -/

theorem pUnary_fall {n : Nat} {t : Tok} (ts : List Tok) (h1 : t ≠ .plus) (h2 : t ≠ .minus) (h3 : t ≠ .tilde) :
    pUnary (n + 1) (t :: ts) = bindR (pAtom n (t :: ts)) (pPost n) := by
  rw [pUnary]
  · cases pAtom n (t :: ts) with
    | error e => rfl
    | ok p => cases p; rfl
  all_goals (intro ts' h; cases h; contradiction)

theorem UnaryParses.pos {ts a} (h : UnaryParses ts a) : UnaryParses (.plus :: ts) (.un .pos a) := by
  intro n rest hn hr
  obtain ⟨m, rfl⟩ : ∃ m, n = m + 1 := ⟨n - 1, by omega⟩
  simp only [List.length_cons] at hn
  rw [List.cons_append, pUnary, h m rest (by omega) hr]

theorem UnaryParses.neg {ts a} (h : UnaryParses ts a) : UnaryParses (.minus :: ts) (.un .neg a) := by
  intro n rest hn hr
  obtain ⟨m, rfl⟩ : ∃ m, n = m + 1 := ⟨n - 1, by omega⟩
  simp only [List.length_cons] at hn
  rw [List.cons_append, pUnary, h m rest (by omega) hr]

theorem UnaryParses.inv {ts a} (h : UnaryParses ts a) : UnaryParses (.tilde :: ts) (.un .inv a) := by
  intro n rest hn hr
  obtain ⟨m, rfl⟩ : ∃ m, n = m + 1 := ⟨n - 1, by omega⟩
  simp only [List.length_cons] at hn
  rw [List.cons_append, pUnary, h m rest (by omega) hr]

/-! ### comma lists -/

theorem ListParses.single {ts a} (h : ParsesAt 0 ts a) : ListParses ts [a] := by
  intro n rest hn hr
  obtain ⟨m, rfl⟩ : ∃ m, n = m + 1 := ⟨n - 1, by omega⟩
  rw [pList, h m rest (by omega) (hr.stopFrom 0)]
  cases rest with
  | nil => rfl
  | cons t ts' => cases t <;> simp [Closed] at hr <;> rfl

theorem ListParses.cons {ts a ts' as} (h : ParsesAt 0 ts a) (h' : ListParses ts' as) :
    ListParses (ts ++ .comma :: ts') (a :: as) := by
  intro n rest hn hr
  obtain ⟨m, rfl⟩ : ∃ m, n = m + 1 := ⟨n - 1, by omega⟩
  simp only [List.length_append, List.length_cons] at hn
  simp only [List.append_assoc, List.cons_append]
  rw [pList, h m _ (by omega) (stopFrom_comma 0 _)]
  simp only []
  rw [h' m rest (by omega) hr]

/-! ### postfix chains: calls and subscripts -/

inductive PostItem where
  | callEmpty
  | call (ts : List Tok) (args : List Ast)
  | sub (ts : List Tok) (xs : List Ast)

def PostItem.toks : PostItem → List Tok
  | .callEmpty => [.lpar, .rpar]
  | .call ts _ => .lpar :: ts ++ [.rpar]
  | .sub ts _ => .lbr :: ts ++ [.rbr]

def PostItem.apply (f : Ast) : PostItem → Ast
  | .callEmpty => .call f []
  | .call _ args => .call f args
  | .sub _ xs => .sub f (tupleOf xs)

/-- the bracketed token list parses as a comma list and does not begin with a closing parenthesis -/
def PostItem.Ok : PostItem → Prop
  | .callEmpty => True
  | .call ts args => ListParses ts args ∧ ∃ t ts', ts = t :: ts' ∧ t ≠ .rpar
  | .sub ts xs => ListParses ts xs

def postToks : List PostItem → List Tok
  | [] => []
  | it :: its => it.toks ++ postToks its

def postAst (f : Ast) : List PostItem → Ast
  | [] => f
  | it :: its => postAst (it.apply f) its

theorem pPost_callEmpty {n : Nat} (f : Ast) (ts : List Tok) :
    pPost (n + 1) f (.lpar :: .rpar :: ts) = pPost n (.call f []) ts := by
  rw [pPost]

theorem pPost_call {n : Nat} (f : Ast) {ts : List Tok} {args : List Ast} {more : List Tok}
    (hne : ∀ ts', ts ≠ .rpar :: ts') (h : pList n ts = .ok (args, .rpar :: more)) :
    pPost (n + 1) f (.lpar :: ts) = pPost n (.call f args) more := by
  rw [pPost]
  · simp [h]
  · intro ts' heq
    cases heq
    exact hne _ rfl

theorem pPost_sub {n : Nat} (f : Ast) {ts : List Tok} {xs : List Ast} {more : List Tok}
    (h : pList n ts = .ok (xs, .rbr :: more)) :
    pPost (n + 1) f (.lbr :: ts) = pPost n (.sub f (tupleOf xs)) more := by
  rw [pPost]
  simp [h]

theorem pPost_chain (its : List PostItem) (hits : ∀ it ∈ its, it.Ok) :
    ∀ (f : Ast) n rest, 8 * (postToks its).length + 1 ≤ n → NoPost rest →
      pPost n f (postToks its ++ rest) = .ok (postAst f its, rest) := by
  induction its with
  | nil =>
    intro f n rest hn hr
    obtain ⟨m, rfl⟩ : ∃ m, n = m + 1 := ⟨n - 1, by omega⟩
    simpa [postToks, postAst] using pPost_stop f hr
  | cons it its ih =>
    intro f n rest hn hr
    obtain ⟨m, rfl⟩ : ∃ m, n = m + 1 := ⟨n - 1, by omega⟩
    have hok := hits it (by simp)
    have ih' := ih (fun x hx => hits x (by simp [hx]))
    cases it with
    | callEmpty =>
      simp only [postToks, PostItem.toks, List.cons_append, List.nil_append, List.length_cons, List.length_append] at hn ⊢
      rw [pPost_callEmpty]
      exact ih' _ m rest (by omega) hr
    | call ts args =>
      obtain ⟨hl, t, ts0, rfl, hne⟩ := hok
      simp only [postToks, PostItem.toks, List.cons_append, List.append_assoc, List.nil_append, List.length_cons,
        List.length_append] at hn ⊢
      have hp := hl m (.rpar :: (postToks its ++ rest)) (by simp only [List.length_cons]; omega) (by simp [Closed])
      simp only [List.cons_append] at hp
      rw [pPost_call f ?_ hp]
      · exact ih' _ m rest (by omega) hr
      · intro ts' heq
        cases heq
        exact hne rfl
    | sub ts xs =>
      simp only [postToks, PostItem.toks, List.cons_append, List.append_assoc, List.nil_append, List.length_cons,
        List.length_append, List.length_nil] at hn ⊢
      have hp := hok m (.rbr :: (postToks its ++ rest)) (by omega) (by simp [Closed])
      rw [pPost_sub f hp]
      exact ih' _ m rest (by omega) hr

/-- an atom token (`NAME`) followed by a chain of calls / subscripts -/
theorem UnaryParses.atomPost {t : Tok} {a0 : Ast} (hat : ∀ n ts, pAtom (n + 1) (t :: ts) = .ok (a0, ts))
    (h1 : t ≠ .plus) (h2 : t ≠ .minus) (h3 : t ≠ .tilde)
    (its : List PostItem) (hits : ∀ it ∈ its, it.Ok) :
    UnaryParses (t :: postToks its) (postAst a0 its) := by
  intro n rest hn hr
  simp only [List.length_cons] at hn
  obtain ⟨m, rfl⟩ : ∃ m, n = m + 2 := ⟨n - 2, by omega⟩
  rw [List.cons_append, pUnary_fall _ h1 h2 h3, hat, bindR_ok]
  exact pPost_chain its hits a0 (m + 1) rest (by omega) hr

theorem pAtom_name (n : Nat) (x : Name) (ts : List Tok) : pAtom (n + 1) (.name x :: ts) = .ok (.name x, ts) := by
  rw [pAtom]

theorem pAtom_kw (n : Nat) (k : Kw) (ts : List Tok) : pAtom (n + 1) (.kw k :: ts) = .ok (.kw k, ts) := by
  rw [pAtom]

theorem UnaryParses.name (x : Name) (its : List PostItem) (hits : ∀ it ∈ its, it.Ok) :
    UnaryParses (.name x :: postToks its) (postAst (.name x) its) :=
  UnaryParses.atomPost (fun n ts => pAtom_name n x ts) (by simp) (by simp) (by simp) its hits

theorem UnaryParses.kw (k : Kw) (its : List PostItem) (hits : ∀ it ∈ its, it.Ok) :
    UnaryParses (.kw k :: postToks its) (postAst (.kw k) its) :=
  UnaryParses.atomPost (fun n ts => pAtom_kw n k ts) (by simp) (by simp) (by simp) its hits

/-- `( e₁, …, eₖ )` is an atom: `e₁` itself when `k = 1`, a tuple otherwise -/
theorem UnaryParses.paren {ts xs} (h : ListParses ts xs) : UnaryParses (.lpar :: ts ++ [.rpar]) (tupleOf xs) := by
  intro n rest hn hr
  simp only [List.length_cons, List.length_append, List.length_nil] at hn
  obtain ⟨m, rfl⟩ : ∃ m, n = m + 2 := ⟨n - 2, by omega⟩
  simp only [List.cons_append, List.append_assoc, List.nil_append]
  rw [pUnary_fall _ (by simp) (by simp) (by simp), pAtom]
  rw [h m (.rpar :: rest) (by omega) (by simp [Closed])]
  simp only [bindR_ok]
  exact pPost_stop _ hr

/-- a complete operand of level 0 is what `parse` returns -/
theorem ParsesAt.parse {ts a} (h : ParsesAt 0 ts a) : parse ts = .ok a := by
  have := h (fuelFor ts) [] (by simp only [fuelFor]; omega) trivial
  rw [List.append_nil] at this
  unfold PyParse.parse
  rw [this]

end PyParse
end Y0
