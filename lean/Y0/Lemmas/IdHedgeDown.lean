/-
  Y0.Lemmas.IdHedgeDown — the converse of `id_fail_hedge`, proved on the graph (no probability involved): a hedge
  `(F, F')` for `P_x(y)` in `G` survives every line of the recursion — it is a hedge of the sub-problem of lines 2, 3, 7
  and of ONE of the sub-problems of line 4 — and lines 1 and 6 cannot fire when a hedge exists.  Hence ID cannot return an
  estimand, and by totality it refuses.

    line 1  X = ∅ contradicts F ∩ X ≠ ∅
    line 2  every node of F reaches the root set inside F and the roots are ancestors of Y: F ⊆ An(Y)
    line 3  F' and the directed paths from the roots to Y avoid X, so they lie in An(Y)_{G_X̄} and miss the added treatments
    line 4  F' is connected by bidirected edges outside X: it lies in one district S of G ∖ X; the roots are in F' ⊆ S
    line 6  S = V ∖ X is a district of G: F, connected and containing F' ⊆ S, lies inside S and cannot meet X
    line 7  F lies inside the district S' ⊇ S of G; the paths from the roots to Y stay in V ∖ X = S ⊆ S'
-/
import Y0.Lemmas.IdHedgeTransport

namespace Y0
open IdDsl IdAux MG Relation

namespace IdAux

/-- restrict a path to a set that is closed backwards along it -/
theorem rtg_restrict_back {α : Type} {r : α → α → Prop} {P : α → Prop} (hP : ∀ a b, r a b → P b → P a) {a y : α}
    (h : ReflTransGen r a y) (hy : P y) : ReflTransGen (fun a b => r a b ∧ P a ∧ P b) a y := by
  have back : ∀ b, ReflTransGen r b y → P b := by
    intro b hb
    induction hb using ReflTransGen.head_induction_on with
    | refl => exact hy
    | head hbc _ ih' => exact hP _ _ hbc ih'
  induction h using ReflTransGen.head_induction_on with
  | refl => exact .refl
  | @head a' c' hab hby ih => exact .head ⟨hab, back a' (.head hab hby), back c' hby⟩ ih

/-- restrict a path to a set that is closed forwards along it -/
theorem rtg_restrict_fwd {α : Type} {r : α → α → Prop} {P : α → Prop} (hP : ∀ a b, r a b → P a → P b) {a y : α}
    (h : ReflTransGen r a y) (ha : P a) : ReflTransGen (fun a b => r a b ∧ P a ∧ P b) a y := by
  have key : ReflTransGen (fun a b => r a b ∧ P a ∧ P b) a y ∧ P y := by
    induction h with
    | refl => exact ⟨.refl, ha⟩
    | tail _ hbc ih => exact ⟨ih.1.tail ⟨hbc, ih.2, hP _ _ hbc ih.2⟩, hP _ _ hbc ih.2⟩
  exact key.1

theorem anc_edge {G : MG Name} {S : List Name} {u v : Name} (h : G.DiEdge u v) (hv : G.Anc S v) : G.Anc S u := by
  obtain ⟨s, hs, hvs⟩ := hv
  exact ⟨s, hs, .head h hvs⟩

theorem seteq_mem {a b : List Name} (h : seteq' a b = true) (v : Name) : v ∈ a ↔ v ∈ b := by
  unfold seteq' at h
  simp only [Bool.and_eq_true, subset'_iff] at h
  exact ⟨h.1 v, h.2 v⟩

/-- a hedge of `G` whose big forest lies inside `S` is a hedge of `G[S]` for the treatments `X ∩ S`, provided the
directed paths from the roots to `Y` can be taken inside `S` -/
theorem hedge_to_subgraph {G : MG Name} {X Y : List Name} {F F' : Name → Prop} (S : List Name)
    (h : G.Hedge X Y F F') (hFS : ∀ v, F v → v ∈ S)
    (hpath : ∀ r, F' r → (∃ y ∈ Y, ReflTransGen (fun a b => G.DiEdge a b ∧ b ∉ X) r y) →
      ∃ y ∈ Y, ReflTransGen (fun a b => (G.DiEdge a b ∧ b ∉ X) ∧ a ∈ S ∧ b ∈ S) r y) :
    (G.subgraph S).Hedge (inter' X S) Y F F' := by
  obtain ⟨R, hRF, hRY, hFR, hF'R⟩ := h.root
  have hF'S : ∀ v, F' v → v ∈ S := fun v hv => hFS v (h.sub v hv)
  refine ⟨h.sub, fun v hv => (mem_nodes_subgraph G S v).mpr (hFS v hv), ?_, ?_, h.nonempty, ?_, ?_, R, hRF, ?_, ?_, ?_⟩
  · obtain ⟨x, hx, hFx⟩ := h.meetsX
    exact ⟨x, mem_inter'.mpr ⟨hx, hFS x hFx⟩, hFx⟩
  · exact fun v hv hvX => h.avoidsX v hv (mem_inter'.mp hvX).1
  · intro u v hu hv
    exact rtg_mono (fun a b hab => ⟨(biEdge_subgraph G S a b).mpr ⟨hab.1, hFS a hab.2.1, hFS b hab.2.2⟩, hab.2⟩)
      (h.connF u v hu hv)
  · intro u v hu hv
    exact rtg_mono (fun a b hab => ⟨(biEdge_subgraph G S a b).mpr ⟨hab.1, hF'S a hab.2.1, hF'S b hab.2.2⟩, hab.2⟩)
      (h.connF' u v hu hv)
  · intro r hr
    obtain ⟨y, hy, hry⟩ := hpath r (hRF r hr) (hRY r hr)
    exact ⟨y, hy, rtg_mono (fun a b hab =>
      ⟨(diEdge_subgraph G S a b).mpr ⟨hab.1.1, hab.2.1, hab.2.2⟩, fun hb => hab.1.2 (mem_inter'.mp hb).1⟩) hry⟩
  · intro v hv
    obtain ⟨r, hr, hvr⟩ := hFR v hv
    exact ⟨r, hr, rtg_mono (fun a b hab =>
      ⟨(diEdge_subgraph G S a b).mpr ⟨hab.1, hFS a hab.2.1, hFS b hab.2.2⟩, hab.2⟩) hvr⟩
  · intro v hv
    obtain ⟨r, hr, hvr⟩ := hF'R v hv
    exact ⟨r, hr, rtg_mono (fun a b hab =>
      ⟨(diEdge_subgraph G S a b).mpr ⟨hab.1, hF'S a hab.2.1, hF'S b hab.2.2⟩, hab.2⟩) hvr⟩

end IdAux

section
variable {topo : MG Name → Except Err (List Name)} {I : IdIn}

/-- **one pass transports hedges downwards**: if the problem has a hedge, the pass does not return (lines 1, 6), and
the sub-problem it recurses on (one of them, at line 4) has the same hedge -/
theorem step_hedge_down (hv : Valid I) {s : Step} (h : step topo I = .ok s) {F F' : Name → Prop}
    (hh : I.G.Hedge I.X I.Y F F') :
    match s with
    | .done _ => False
    | .tail J => J.G.Hedge J.X J.Y F F'
    | .split Js _ => ∃ J ∈ Js, J.G.Hedge J.X J.Y F F' := by
  have hwf := hv.wf
  have hwfx := IdAux.wf_removeNodes I.G I.X
  have hwfi : (I.G.removeInEdges I.X).WF := wf_fromEdges _ _ _
  obtain ⟨R, hRF, hRY, hFR, hF'R⟩ := hh.root
  obtain ⟨v0, hv0⟩ := hh.nonempty
  have hF'V : ∀ v, F' v → v ∈ I.G.nodes ∧ v ∉ I.X := fun v hv' => ⟨hh.nodes v (hh.sub v hv'), hh.avoidsX v hv'⟩
  -- every node of `F` is an ancestor of `Y`; every node of `F'` is one in the graph with the edges into `X` removed
  have hFanc : ∀ v, F v → I.G.Anc I.Y v := by
    intro v hv'
    obtain ⟨r, hr, hvr⟩ := hFR v hv'
    obtain ⟨y, hy, hry⟩ := hRY r hr
    exact ⟨y, hy, (rtg_mono (fun a b hab => hab.1) hvr).trans (rtg_mono (fun a b hab => hab.1) hry)⟩
  have hF'anc : ∀ v, F' v → (I.G.removeInEdges I.X).Anc I.Y v := by
    intro v hv'
    obtain ⟨r, hr, hvr⟩ := hF'R v hv'
    obtain ⟨y, hy, hry⟩ := hRY r hr
    refine ⟨y, hy, (rtg_mono (fun a b hab => ?_) hvr).trans (rtg_mono (fun a b hab => ?_) hry)⟩
    · exact (diEdge_removeInEdges I.G I.X a b).mpr ⟨hab.1, hh.avoidsX b hab.2.2⟩
    · exact (diEdge_removeInEdges I.G I.X a b).mpr hab
  -- `F` lies in the district of `G` of any member of `F'`
  have hFdist : ∀ v, F v → I.G.SameDistrict v0 v := fun v hv' =>
    rtg_mono (fun a b hab => hab.1) (hh.connF v0 v (hh.sub v0 hv0) hv')
  cases step_ok h with
  | l1 hX =>
    obtain ⟨x, hx, _⟩ := hh.meetsX
    rw [hX] at hx
    cases hx
  | l2 anc _ hanc _ =>
    have hFS : ∀ v, F v → v ∈ anc := fun v hv' => (ancestorsInclusive_spec _ hwf I.Y anc hanc v).mpr (hFanc v hv')
    apply hedge_to_subgraph anc hh hFS
    rintro r _ ⟨y, hy, hry⟩
    refine ⟨y, hy, rtg_restrict_back (P := fun v => v ∈ anc) (fun a b hab hb => ?_) hry ?_⟩
    · exact (ancestorsInclusive_spec _ hwf I.Y anc hanc a).mpr
        (anc_edge hab.1 ((ancestorsInclusive_spec _ hwf I.Y anc hanc b).mp hb))
    · exact ancestorsInclusive_self hwf hanc y hy
  | l3 anc anc' _ _ _ hanc' _ =>
    have hspec := ancestorsInclusive_spec _ hwfi I.Y anc' hanc'
    refine ⟨hh.sub, hh.nodes, ?_, ?_, hh.nonempty, hh.connF, hh.connF', R, hRF, ?_, hFR, hF'R⟩
    · obtain ⟨x, hx, hFx⟩ := hh.meetsX
      exact ⟨x, mem_union'.mpr (Or.inl hx), hFx⟩
    · intro v hv' hvX
      rcases mem_union'.mp hvX with h1 | h1
      · exact hh.avoidsX v hv' h1
      · exact (mem_diff'.mp h1).2 ((hspec v).mpr (hF'anc v hv'))
    · intro r hr
      obtain ⟨y, hy, hry⟩ := hRY r hr
      have hry' := rtg_restrict_back (P := fun v => v ∈ anc') (fun a b hab hb =>
        (hspec a).mpr (anc_edge ((diEdge_removeInEdges I.G I.X a b).mpr hab) ((hspec b).mp hb))) hry
        (ancestorsInclusive_self hwfi hanc' y hy)
      refine ⟨y, hy, rtg_mono (fun a b hab => ⟨hab.1.1, fun hb => ?_⟩) hry'⟩
      rcases mem_union'.mp hb with h1 | h1
      · exact hab.1.2 h1
      · exact (mem_diff'.mp h1).2 hab.2.2
  | l4 anc anc' _ _ _ =>
    -- the district of `G ∖ X` that contains `F'`
    obtain ⟨S, hS, hv0S⟩ := (districts_cover _ hwfx v0).mp
      ((mem_nodes_removeNodes I.G hwf I.X v0).mpr (hF'V v0 hv0))
    have hF'S : ∀ v, F' v → v ∈ S := by
      intro v hv'
      apply (districts_spec _ hwfx S hS v0 hv0S v).mpr
      exact rtg_mono (fun a b hab => (biEdge_removeNodes I.G I.X a b).mpr
        ⟨hab.1, hh.avoidsX a hab.2.1, hh.avoidsX b hab.2.2⟩) (hh.connF' v0 v hv0 hv')
    have hSV : ∀ v ∈ S, v ∈ I.G.nodes ∧ v ∉ I.X := fun v hvS =>
      (mem_nodes_removeNodes I.G hwf I.X v).mp (mem_nodes_of_mem_district hwfx hS hvS)
    refine ⟨{ G := I.G, X := diff' I.G.nodes S, Y := S, est := I.est }, List.mem_map.mpr ⟨S, hS, rfl⟩, ?_⟩
    refine ⟨hh.sub, hh.nodes, ?_, ?_, hh.nonempty, hh.connF, hh.connF', R, hRF, ?_, hFR, hF'R⟩
    · obtain ⟨x, hx, hFx⟩ := hh.meetsX
      exact ⟨x, mem_diff'.mpr ⟨hh.nodes x hFx, fun hxS => (hSV x hxS).2 hx⟩, hFx⟩
    · exact fun v hv' hvX => (mem_diff'.mp hvX).2 (hF'S v hv')
    · exact fun r hr => ⟨r, hF'S r (hRF r hr), .refl⟩
  | l6 anc anc' S D order fs _ _ _ hS _ hD hDS _ _ =>
    have hSall := single_gx hv hS
    have hv0D : v0 ∈ D := (seteq_mem hDS v0).mpr ((hSall v0).mpr (hF'V v0 hv0))
    obtain ⟨x, hx, hFx⟩ := hh.meetsX
    have hxD : x ∈ D := (districts_spec _ hwf D hD v0 hv0D x).mpr (hFdist x hFx)
    exact ((hSall x).mp ((seteq_mem hDS x).mp hxD)).2 hx
  | l7 anc anc' S D order fs _ _ _ hS _ _ hfind _ _ =>
    have hD : D ∈ I.G.districts := List.mem_of_find?_eq_some hfind
    have hprop : properSubset S D = true := by
      have := List.find?_some hfind
      simpa using this
    unfold properSubset at hprop
    simp only [Bool.and_eq_true, Bool.not_eq_true'] at hprop
    have hSD : ∀ v ∈ S, v ∈ D := subset'_iff.mp hprop.1
    have hSall := single_gx hv hS
    have hv0D : v0 ∈ D := hSD v0 ((hSall v0).mpr (hF'V v0 hv0))
    have hFS : ∀ v, F v → v ∈ D := fun v hv' => (districts_spec _ hwf D hD v0 hv0D v).mpr (hFdist v hv')
    apply hedge_to_subgraph D hh hFS
    rintro r hr ⟨y, hy, hry⟩
    refine ⟨y, hy, rtg_restrict_fwd (P := fun v => v ∈ D) (fun a b hab _ => ?_) hry (hFS r (hh.sub r hr))⟩
    exact hSD b ((hSall b).mpr ⟨(hwf.di_mem _ hab.1).2, hab.2⟩)

/-- **hedge ⇒ refusal**: on a valid input with a hedge the recursion ends in the `unidentifiable` refusal -/
theorem idAlg_hedge_refuses (ht : TopoGood topo) {F F' : Name → Prop} :
    ∀ I, Valid I → I.G.Hedge I.X I.Y F F' → idAlg topo I = .error .unidentifiable := by
  intro I
  induction I using measure_wf.induction with
  | _ I ih =>
    intro hv hh
    rw [idAlg_eq]
    cases hs : step topo I with
    | error e => rw [step_error hv ht hs]
    | ok s =>
      have hg := step_good hv hs
      have hd := step_hedge_down hv hs hh
      cases s with
      | done e => exact hd.elim
      | tail J =>
        simp only [hg.2, if_true]
        exact ih J hg.2 hg.1 hd
      | split Js ranges =>
        have hall : Js.all (fun J => measureLt J.measure I.measure) = true :=
          List.all_eq_true.mpr (fun J hJ => (hg J hJ).2)
        simp only [hall, if_true]
        obtain ⟨J, hJ, hhJ⟩ := hd
        have hJr := ih J (hg J hJ).2 (hg J hJ).1 hhJ
        cases hm : Js.mapM (idAlg topo) with
        | ok es =>
          obtain ⟨e, _, he⟩ := forall₂_left ((mapM_ok_iff _ _ _).mp hm) J hJ
          rw [hJr] at he
          cases he
        | error e =>
          obtain ⟨K, hK, hKe⟩ := mapM_error _ _ _ hm
          have hKr : idAlg topo K = .error e := hKe
          -- every failing sub-problem refuses (totality of the recursion)
          have : e = .unidentifiable := by
            clear hJr
            by_contra hne
            -- `idAlg` on a valid input is `ok` or `unidentifiable`
            have hvK := (hg K hK).1
            have hst : ∀ I', Valid I' → ∀ e', idAlg topo I' = .error e' → e' = .unidentifiable := by
              intro I'
              induction I' using measure_wf.induction with
              | _ I' ih' =>
                intro hv' e' he'
                rw [idAlg_eq] at he'
                cases hs' : step topo I' with
                | error e'' =>
                  rw [hs'] at he'
                  simp only [Except.error.injEq] at he'
                  exact he' ▸ step_error hv' ht hs'
                | ok s' =>
                  rw [hs'] at he'
                  have hg' := step_good hv' hs'
                  cases s' with
                  | done _ => cases he'
                  | tail J' =>
                    simp only [hg'.2, if_true] at he'
                    exact ih' J' hg'.2 hg'.1 e' he'
                  | split Js' r' =>
                    have hall' : Js'.all (fun J => measureLt J.measure I'.measure) = true :=
                      List.all_eq_true.mpr (fun J hJ => (hg' J hJ).2)
                    simp only [hall', if_true] at he'
                    cases hm' : Js'.mapM (idAlg topo) with
                    | ok es => rw [hm'] at he'; cases he'
                    | error e'' =>
                      rw [hm'] at he'
                      simp only [Except.map, Except.error.injEq] at he'
                      obtain ⟨K', hK', hKe'⟩ := mapM_error _ _ _ hm'
                      exact he' ▸ ih' K' (hg' K' hK').2 (hg' K' hK').1 e'' hKe'
            exact hne (hst K hvK e hKr)
          rw [this]
          rfl

end
end Y0
