/-
  Y0.Lemmas.CtfTrSigma — Algorithm 4 of the counterfactual-transportability model (`sigmaTRDomain`, `sigmaTR`,
  `validateDistrict`, `transportFactors` of Y0.Model.CtfTr) never raises under explicit hypotheses (`DomainOK`).
-/
import Y0.Model.CtfTr
import Y0.Props.C17
import Y0.Lemmas.CtfFactor
import Y0.Lemmas.TrsoInv

namespace Y0.CtfTr
open Trso (isTnode tnode targetPop nsort mem_nsort)
open MG TianTotal

/-! ### graph helpers -/

/-- `(G.subgraph S).SameDistrict` only depends on the members of `S` (monotone form) -/
theorem sameDistrict_subgraph_mono (G : MG Name) {S S' : List Name} (hS : ∀ v ∈ S, v ∈ S') {a b : Name}
    (hab : (G.subgraph S).SameDistrict a b) : (G.subgraph S').SameDistrict a b := by
  apply TianTotal.sameDistrict_mono _ hab
  intro u v huv
  have := (biEdge_subgraph G S u v).mp huv
  exact (biEdge_subgraph G S' u v).mpr ⟨this.1, hS u this.2.1, hS v this.2.2⟩

/-- selection nodes carry no bidirected edge, so nothing bidirected-reachable from a regular node is one -/
theorem notT_of_sameDistrict (G : MG Name) (biT : ∀ a b, G.BiEdge a b → isTnode a = false) {a v : Name}
    (ha : isTnode a = false) (hav : G.SameDistrict a v) : isTnode v = false := by
  induction hav with
  | refl => exact ha
  | tail _ hbc _ => exact biT _ _ (biEdge_symm G hbc)

/-- a list with the members of a district of `G`, taken as a graph of its own, is a single district -/
theorem district_set_le_one (G : MG Name) (hG : G.WF) (D0 B : List Name) (hD0 : D0 ∈ G.districts)
    (hB : ∀ v, v ∈ B ↔ v ∈ D0) : (G.subgraph B).districts.length ≤ 1 := by
  apply districts_le_one _ (wf_subgraph G B)
  intro u hu v hv
  rw [mem_nodes_subgraph] at hu hv
  have hu0 := (hB u).1 hu
  have huv : G.SameDistrict u v := (districts_spec G hG D0 hD0 u hu0 v).mp ((hB v).1 hv)
  have key : ∀ b, G.SameDistrict u b → (G.subgraph B).SameDistrict u b ∧ b ∈ B := by
    intro b hb
    induction hb with
    | refl => exact ⟨.refl, hu⟩
    | tail hab hbc ih =>
      rename_i b c
      have hc : c ∈ B := (hB c).2 ((districts_spec G hG D0 hD0 u hu0 c).mpr (hab.tail hbc))
      exact ⟨ih.1.tail ((biEdge_subgraph G B b c).mpr ⟨hbc, ih.2, hc⟩), hc⟩
  exact (key v huv).1

/-! ### Algorithm 4 -/

/-- what Algorithm 4 needs from one domain for one district -/
structure DomainOK (district : List Name) (d : Domain) : Prop where
  wf : d.graph.WF
  reg : ∀ v ∈ district, v ∈ regular d.graph
  topo : ∀ v, v ∈ d.topo ↔ v ∈ d.graph.nodes
  pop : Tian.isProb d.pop = true
  /-- selection nodes carry no bidirected edge -/
  biT : ∀ a b, d.graph.BiEdge a b → isTnode a = false
  /-- the district is bidirected-connected inside itself in the domain graph -/
  conn : ∀ a ∈ district, ∀ b ∈ district, (d.graph.subgraph district).SameDistrict a b

theorem sigmaTRDomain_total (district : List Name) (d : Domain) (hne : district ≠ []) (h : DomainOK district d) :
    ∃ r, sigmaTRDomain district d = .ok r := by
  obtain ⟨a0, ha0⟩ := List.exists_mem_of_ne_nil _ hne
  have hnodes : ∀ v ∈ district, v ∈ d.graph.nodes := fun v hv => (List.mem_filter.1 (h.reg v hv)).1
  have hnotT : ∀ v ∈ district, isTnode v = false := fun v hv => by
    simpa using (List.mem_filter.1 (h.reg v hv)).2
  obtain ⟨dsl, hdsl⟩ := Ctf.mapM_ok_of_forall d.graph.getDistrict district
    (fun v hv => Ctf.getDistrict_total _ h.wf v (hnodes v hv))
  obtain ⟨D0, hD0⟩ := Ctf.getDistrict_total _ h.wf a0 (hnodes a0 ha0)
  obtain ⟨hD0d, ha0D0⟩ := Ctf.getDistrict_ok _ _ _ hD0
  have hsd : ∀ a ∈ district, ∀ b ∈ district, d.graph.SameDistrict a b := by
    intro a ha b hb
    apply TianTotal.sameDistrict_mono _ (h.conn a ha b hb)
    intro u v huv
    exact ((biEdge_subgraph _ _ u v).mp huv).1
  have hall : ∀ x ∈ dsl, x = D0 := by
    intro x hx
    obtain ⟨v, hv, hvx⟩ := (Ctf.mapM_ok_mem _ _ _ hdsl x).1 hx
    exact (Ctf.getDistrict_eq_iff _ h.wf v a0 x D0 hvx hD0).2 (hsd v hv a0 ha0)
  have hD0mem : D0 ∈ dsl := (Ctf.mapM_ok_mem _ _ _ hdsl D0).2 ⟨a0, ha0, hD0⟩
  have hB : ∀ v, v ∈ nsort dsl.flatten ↔ v ∈ D0 := by
    intro v
    rw [mem_nsort, List.mem_flatten]
    constructor
    · rintro ⟨x, hx, hvx⟩
      rw [hall x hx] at hvx
      exact hvx
    · intro hv
      exact ⟨D0, hD0mem, hv⟩
  have hany : dsl.any (fun x => !seteq' x (nsort dsl.flatten)) = false := by
    apply Bool.eq_false_iff.mpr
    intro hany
    rcases List.any_eq_true.mp hany with ⟨x, hx, hbad⟩
    have : seteq' x (nsort dsl.flatten) = true := by
      rw [hall x hx]
      exact TianGraph.seteq'_iff.mpr (fun v => (hB v).symm)
    rw [this] at hbad
    cases hbad
  -- members of the district of the graph
  have hdD0 : ∀ v ∈ district, v ∈ D0 := fun v hv =>
    (districts_spec _ h.wf D0 hD0d a0 ha0D0 v).mpr (hsd a0 ha0 v hv)
  have hBne : nsort dsl.flatten ≠ [] := by
    intro h0
    have := (hB a0).2 ha0D0
    rw [h0] at this
    cases this
  have hBsub : ∀ v ∈ nsort dsl.flatten, v ∈ d.topo.filter (· ∈ regular d.graph) := by
    intro v hv
    have hv0 := (hB v).1 hv
    have hvn : v ∈ d.graph.nodes := (districts_cover _ h.wf v).mpr ⟨D0, hD0d, hv0⟩
    have hvT : isTnode v = false :=
      notT_of_sameDistrict _ h.biT (hnotT a0 ha0) ((districts_spec _ h.wf D0 hD0d a0 ha0D0 v).mp hv0)
    refine List.mem_filter.mpr ⟨(h.topo v).2 hvn, ?_⟩
    simp only [decide_eq_true_eq]
    exact List.mem_filter.mpr ⟨hvn, by simp [hvT]⟩
  obtain ⟨q, hq, hqq⟩ := computeCFactor_ok (q := d.pop) (D := nsort dsl.flatten) (S := regular d.graph)
    (topo := d.topo) (Or.inr h.pop) hBne hBsub
  obtain ⟨r, hr⟩ := tian_total d.graph (nsort district) (nsort dsl.flatten) d.topo q
    (fun c hc => (hB c).2 (hdD0 c ((mem_nsort c _).1 hc)))
    (fun t ht => (List.mem_filter.mp (hBsub t ht)).1)
    (district_set_le_one _ h.wf D0 _ hD0d hB)
    (fun c1 h1 c2 h2 => sameDistrict_subgraph_mono _ (fun v hv => (mem_nsort v _).2 hv)
      (h.conn c1 ((mem_nsort c1 _).1 h1) c2 ((mem_nsort c2 _).1 h2)))
    hqq
  refine ⟨r, ?_⟩
  simp only [sigmaTRDomain, bind, Except.bind, hdsl, hany, Bool.false_eq_true, ↓reduceIte, hq]
  exact hr

theorem sigmaTR_total (district : List Name) (hne : district ≠ []) : ∀ ds : List Domain,
    (∀ d ∈ ds, domainUsable district d = true → DomainOK district d) → ∃ r, sigmaTR district ds = .ok r
  | [], _ => ⟨none, rfl⟩
  | d :: ds, h => by
    have ih := sigmaTR_total district hne ds (fun d' hd' => h d' (List.mem_cons_of_mem _ hd'))
    simp only [sigmaTR]
    split
    · rename_i hu
      obtain ⟨r, hr⟩ := sigmaTRDomain_total district d hne (h d List.mem_cons_self hu)
      rw [hr]
      cases r with
      | none => exact ih
      | some e => exact ⟨_, rfl⟩
    · exact ih

theorem validateDistrict_ok (district : List Name) (ds : List Domain) (hne : district ≠ [])
    (h : ∀ d ∈ ds, ∀ v ∈ district, v ∈ regular d.graph) : validateDistrict district ds = .ok () := by
  have h1 : district.isEmpty = false := by cases district <;> simp_all
  have h2 : ds.any (fun d => !district.all (· ∈ regular d.graph)) = false := by
    apply Bool.eq_false_iff.mpr
    intro hany
    rcases List.any_eq_true.mp hany with ⟨d, hd, hbad⟩
    have : district.all (· ∈ regular d.graph) = true := by
      rw [List.all_eq_true]
      intro v hv
      simpa using h d hd v hv
    rw [this] at hbad
    cases hbad
  simp only [validateDistrict, h1, h2, Bool.false_eq_true, ↓reduceIte]

theorem transportFactors_total (ds : List Domain) : ∀ fs : List Ctf.Event,
    (∀ f ∈ fs, f ≠ [] ∧ ∀ d ∈ ds, (∀ v ∈ dedup' (f.map (·.1.name)), v ∈ regular d.graph) ∧
        (domainUsable (dedup' (f.map (·.1.name))) d = true → DomainOK (dedup' (f.map (·.1.name))) d)) →
    ∃ r, transportFactors ds fs = .ok r
  | [], _ => ⟨some [], rfl⟩
  | f :: fs, h => by
    obtain ⟨rs, hrs⟩ := transportFactors_total ds fs (fun f' hf' => h f' (List.mem_cons_of_mem _ hf'))
    obtain ⟨hfne, hf⟩ := h f List.mem_cons_self
    have hne : dedup' (f.map (·.1.name)) ≠ [] := by
      cases f with
      | nil => exact absurd rfl hfne
      | cons p ps =>
        intro h0
        have : p.1.name ∈ dedup' ((p :: ps).map (·.1.name)) := mem_dedup'.mpr (by simp)
        rw [h0] at this
        cases this
    have hv := validateDistrict_ok _ ds hne (fun d hd => (hf d hd).1)
    obtain ⟨r, hr⟩ := sigmaTR_total _ hne ds (fun d hd => (hf d hd).2)
    simp only [transportFactors, bind, Except.bind, hv, hr, hrs]
    cases r with
    | none => exact ⟨_, rfl⟩
    | some q =>
      cases rs with
      | none => exact ⟨_, rfl⟩
      | some qs => exact ⟨_, rfl⟩

/-! ### soundness of one domain of Algorithm 4: composition of `cfactor_sound` and `tian_sound` -/

theorem insertStable_perm' {α} (lt : α → α → Bool) (x : α) (l : List α) :
    (TrDsl.insertStable lt x l).Perm (x :: l) := by
  induction l with
  | nil => exact List.Perm.refl _
  | cons y ys ih =>
    unfold TrDsl.insertStable
    split
    · exact (List.Perm.cons y ih).trans (List.Perm.swap x y ys)
    · exact List.Perm.refl _

theorem ssort_perm {α} (lt : α → α → Bool) (l : List α) : (TrDsl.ssort lt l).Perm l := by
  induction l with
  | nil => exact List.Perm.refl _
  | cons x xs ih =>
    show (TrDsl.insertStable lt x (TrDsl.ssort lt xs)).Perm (x :: xs)
    exact (insertStable_perm' lt x _).trans (List.Perm.cons x ih)

theorem nsort_nodup (l : List Name) : (nsort l).Nodup :=
  (ssort_perm _ _).nodup_iff.mpr (nodup_dedup' l)

open Tian TianSpec in
/-- **One domain of Algorithm 4 is sound.**  If the domain's distribution `d.pop` denotes `Q[V]` (`V` = the regular
nodes of the selection diagram, listed in the order `d.topo`) in a positive semi-Markovian model compatible with the
selection diagram, then whatever expression `sigmaTRDomain` returns denotes `Q[district]`. -/
theorem sigmaTRDomain_sound (M : Scm) (district : List Name) (d : Domain)
    (hM : M.Compatible d.graph) (hG : d.graph.WF) (hrank : d.graph.Ranked)
    (htnd : d.topo.Nodup) (hord : TopoOrdered d.graph d.topo) (hcov : ∀ v ∈ d.graph.nodes, v ∈ d.topo)
    (hne : district ≠ []) (hreg : ∀ v ∈ district, v ∈ regular d.graph)
    (biT : ∀ a b, d.graph.BiEdge a b → isTnode a = false)
    (σ' : Val)
    (hshape : ProbShape d.pop (d.topo.filter (· ∈ regular d.graph)))
    (hpop : ∀ σ, den (M.env d.graph) σ' d.pop σ = M.Q (d.topo.filter (· ∈ regular d.graph)) σ)
    (e : Expr) (h : sigmaTRDomain district d = .ok (some e)) :
    ∀ σ, den (M.env d.graph) σ' e σ = M.Q (nsort district) σ := by
  obtain ⟨a0, ha0⟩ := List.exists_mem_of_ne_nil _ hne
  have hnodes : ∀ v ∈ district, v ∈ d.graph.nodes := fun v hv => (List.mem_filter.1 (hreg v hv)).1
  have hnotT : ∀ v ∈ district, isTnode v = false := fun v hv => by
    simpa using (List.mem_filter.1 (hreg v hv)).2
  simp only [sigmaTRDomain, bind, Except.bind] at h
  cases hdsl : district.mapM d.graph.getDistrict with
  | error err => rw [hdsl] at h; cases h
  | ok dsl =>
    rw [hdsl] at h
    simp only at h
    split at h
    · cases h
    · rename_i hany
      cases hq : computeCFactor (nsort dsl.flatten) (regular d.graph) d.pop d.topo with
      | error err => rw [hq] at h; cases h
      | ok q =>
        rw [hq] at h
        simp only at h
        obtain ⟨D0, hD0⟩ := Ctf.getDistrict_total _ hG a0 (hnodes a0 ha0)
        obtain ⟨hD0d, ha0D0⟩ := Ctf.getDistrict_ok _ _ _ hD0
        have hD0mem : D0 ∈ dsl := (Ctf.mapM_ok_mem _ _ _ hdsl D0).2 ⟨a0, ha0, hD0⟩
        have hB : ∀ v, v ∈ nsort dsl.flatten ↔ v ∈ D0 := by
          have : seteq' D0 (nsort dsl.flatten) = true := by
            by_contra hcon
            apply hany
            exact List.any_eq_true.mpr ⟨D0, hD0mem, by simpa using hcon⟩
          exact fun v => ((TianGraph.seteq'_iff.mp this) v).symm
        have hBn : ∀ v ∈ nsort dsl.flatten, v ∈ d.graph.nodes := fun v hv =>
          (districts_cover _ hG v).mpr ⟨D0, hD0d, (hB v).1 hv⟩
        have hHn : ∀ v ∈ d.topo.filter (· ∈ regular d.graph), v ∈ d.graph.nodes := by
          intro v hv
          have := (List.mem_filter.mp hv).2
          simp only [decide_eq_true_eq] at this
          exact (List.mem_filter.mp this).1
        have hBsub : ∀ v ∈ nsort dsl.flatten, v ∈ d.topo.filter (· ∈ regular d.graph) := by
          intro v hv
          have hvn := hBn v hv
          have hvT : isTnode v = false :=
            notT_of_sameDistrict _ biT (hnotT a0 ha0) ((districts_spec _ hG D0 hD0d a0 ha0D0 v).mp ((hB v).1 hv))
          refine List.mem_filter.mpr ⟨hcov v hvn, ?_⟩
          simp only [decide_eq_true_eq]
          exact List.mem_filter.mpr ⟨hvn, by simp [hvT]⟩
        have hclosed : BiClosedIn d.graph (nsort dsl.flatten) (d.topo.filter (· ∈ regular d.graph)) := by
          intro v hv w _ hw
          apply Bool.eq_false_iff.mpr
          intro hbi
          apply hw
          rw [hB]
          have hvw : d.graph.BiEdge v w := (hasBi_iff _ v w).mp hbi
          exact (districts_spec _ hG D0 hD0d a0 ha0D0 w).mpr
            (((districts_spec _ hG D0 hD0d a0 ha0D0 v).mp ((hB v).1 hv)).tail hvw)
        have hBnd := nsort_nodup dsl.flatten
        have hdenq : ∀ σ, den (M.env d.graph) σ' q σ = M.Q (nsort dsl.flatten) σ :=
          cfactor_sound M d.graph hM hG hrank d.topo (regular d.graph) htnd hord hHn _ hBnd hBsub hclosed
            d.pop q σ' hshape hpop hq
        have hshapeq : ProbShape q (nsort dsl.flatten) := by
          unfold computeCFactor at hq
          simp only at hq
          split at hq
          · rename_i hfps
            exact TianIdentify.probShape_of_not_prob
              (TianIdentify.lemma4_not_prob (TianIdentify.isProb_of_fps hfps) hq)
          · split at hq
            · cases hq
            · rename_i hprob
              cases hp : d.pop with
              | prob pop ch pa =>
                rw [hp] at hq hshape
                obtain ⟨w, hs⟩ := TianLemma1.shape_of_probShape hshape
                exact TianIdentify.lemma1_probShape hs hHn hBsub hBnd hq _ (List.Perm.refl _)
              | _ => rw [hp] at hprob; simp [isProb] at hprob
        exact tian_sound M d.graph hM hG hrank d.topo htnd hord (nsort district) (nsort dsl.flatten)
          (nsort_nodup district) hBnd hBn q hshapeq σ' hdenq e h

end Y0.CtfTr
