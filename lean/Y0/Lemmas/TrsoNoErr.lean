/-
  Y0.Lemmas.TrsoNoErr — a TRSO run that never leaves the target domain (no source domain declares an experiment)
  never fails: assembly of the graph-level invariant (TrsoGraphInv / TrsoT234 / TrsoT610), the expression-level
  cleanliness (TrsoClean) and the measure argument for the recursion budget.
-/
import Y0.Lemmas.TrsoT234
import Y0.Lemmas.TrsoT610
import Y0.Lemmas.TrsoInit

namespace Y0
namespace Trso
open TrDsl MG

/-- outcome of a call that is good for the target phase: no error, and a clean estimand if any -/
def GoodOut (x : Except Err (Option Expr)) : Prop := ∃ o, x = .ok o ∧ ∀ e, o = some e → Clean e

theorem collectTerms_good : ∀ (rs : List (Except Err (Option Expr))), (∀ r ∈ rs, GoodOut r) →
    (∃ ts, collectTerms rs = .ok (some ts) ∧ ∀ t ∈ ts, Clean t) ∨ collectTerms rs = .ok none
  | [], _ => Or.inl ⟨[], rfl, by simp⟩
  | r :: rs, h => by
    obtain ⟨o, rfl, ho⟩ := h r (by simp)
    cases o with
    | none => exact Or.inr rfl
    | some t =>
      rcases collectTerms_good rs (fun r hr => h r (List.mem_cons_of_mem _ hr)) with ⟨ts, hts, hc⟩ | hn
      · refine Or.inl ⟨t :: ts, ?_, ?_⟩
        · simp [collectTerms, hts, bind, Except.bind, pure, Except.pure]
        · intro x hx
          rcases List.mem_cons.1 hx with rfl | hx
          · exact ho _ rfl
          · exact hc x hx
      · exact Or.inr (by simp [collectTerms, hn, bind, Except.bind, pure, Except.pure])

theorem noSurr_of_eq {q q' : Query} (hs : NoSurr q) (h : q'.surr = q.surr) : NoSurr q' := by
  unfold NoSurr; rw [h]; exact hs

theorem noSurr_nil {q : Query} (h : q.surr = []) : NoSurr q := by
  unfold NoSurr; rw [h]; intro p hp; cases hp

/-- **The target phase never fails.**  A query that satisfies the target-phase invariant, whose source domains declare
no experiment, whose carried expression is clean and whose measure is below the budget is answered by an estimand or
by "no estimand" - never by an error (in particular the budget is never exhausted). -/
theorem trsoF_target_ok (sep : SepTest) (M : Nat) :
    ∀ (fuel : Nat) (q : Query) (G : MG Name), TInv M q G → NoSurr q → Clean q.expr → mu M q G < fuel →
      GoodOut (trsoF sep fuel q)
  | 0, _, _, _, _, _, hmu => absurd hmu (Nat.not_lt_zero _)
  | fuel + 1, q, G, h, hs, hc, hmu => by
    have ih := trsoF_target_ok sep M fuel
    have hg : q.graph = .ok G := h.look
    unfold trsoF
    rw [hg, ok_bind]
    split
    · -- line 1
      obtain ⟨e, he, hce⟩ := step1_ok (q := q) (G := G) hc
      exact ⟨some e, he, fun e' h' => by cases h'; exact hce⟩
    · obtain ⟨anc, hanc⟩ := h.anc_ok
      rw [hanc, ok_bind]
      split
      · -- line 2
        rename_i hne
        have hne' : (diff' (regularNodes G) anc).isEmpty = false := by simpa using hne
        obtain ⟨q', G', hq', hinv', hmu', hc', hsurr'⟩ :=
          line2_ok h hanc hne' Clean (fun r => line2_expr_ok hc)
        unfold step2
        rw [hq', ok_bind]
        obtain ⟨r, hr, hrc⟩ := ih q' G' hinv' (noSurr_of_eq hs hsurr') hc' (by omega)
        rw [hr, ok_bind]
        obtain ⟨y, hy, hyc, _⟩ := c14nSafe_ok (x := r) hrc
        exact ⟨y, hy, hyc⟩
      · obtain ⟨extra, hex⟩ := h.noEffect_ok
        rw [hex, ok_bind]
        split
        · -- line 3
          rename_i hne
          have hne' : extra.isEmpty = false := by simpa using hne
          obtain ⟨hinv', hmu'⟩ := line3_inv h hex hne'
          unfold step3
          obtain ⟨r, hr, hrc⟩ := ih (line3 q extra) G hinv' (noSurr_of_eq hs rfl) hc (by omega)
          rw [hr, ok_bind]
          obtain ⟨y, hy, hyc, _⟩ := c14nSafe_ok (x := r) hrc
          exact ⟨y, hy, hyc⟩
        · simp only []
          split
          · -- line 4
            rename_i hlen
            have h4 := line4_inv h hlen
            have hall : ∀ r ∈ (line4 q G (G.removeNodes q.X).districts).map (trsoF sep fuel), GoodOut r := by
              intro r hr
              obtain ⟨s, hs', rfl⟩ := List.mem_map.1 hr
              obtain ⟨hinv', hmu', hexpr, hsurr'⟩ := h4 s hs'
              exact ih s G hinv' (noSurr_of_eq hs hsurr') (hexpr ▸ hc) (by omega)
            rcases collectTerms_good _ hall with ⟨ts, hts, hcl⟩ | hn
            · obtain ⟨e, he, hce⟩ := step4_ok hts hcl
              exact ⟨some e, he, fun e' h' => by cases h'; exact hce⟩
            · exact ⟨none, step4_none hn, fun e' h' => by cases h'⟩
          · -- lines 6-11
            rename_i hlen
            rw [step67_none sep (trsoF sep fuel) h hs, ok_bind]
            show GoodOut (step811 (trsoF sep fuel) q G (G.removeNodes q.X).districts)
            unfold step811
            split
            · exact ⟨none, rfl, fun e' h' => by cases h'⟩
            · rename_i hdl
              -- exactly one district in `G ∖ X`
              have hdne := h.dwi_ne
              cases hd : (G.removeNodes q.X).districts with
              | nil => exact absurd hd hdne
              | cons c rest =>
                have hrest : rest = [] := by
                  cases rest with
                  | nil => rfl
                  | cons a as => rw [hd] at hlen; simp at hlen
                subst hrest
                obtain ⟨hcmem, hYc, hcne⟩ := h.single_dwi hd
                obtain ⟨order, hord, hcomp⟩ := h.order_ok
                simp only []
                split
                · -- line 9
                  have hin : ∀ v ∈ nsort c, v ∈ order := fun v hv =>
                    hcomp v ((hcmem v).1 ((mem_nsort v c).1 hv)).1
                  obtain ⟨e9, he9, hc9⟩ := line9_ok hc hord hin hcne
                  rw [he9, ok_bind]
                  obtain ⟨e, he, hce⟩ := canonicalize_ok hc9
                  rw [he, ok_bind]
                  exact ⟨some e, rfl, fun e' h' => by cases h'; exact hce⟩
                · -- line 10
                  obtain ⟨c', hfil, hc'd, hcc', hc'n⟩ := h.super_district hd
                  rw [hfil]
                  simp only []
                  have hsurr10 : line10Surr q G c' = .ok (some []) := by
                    unfold line10Surr; simp [h.act]
                  rw [hsurr10, ok_bind]
                  simp only []
                  have hin : ∀ v ∈ nsort c', v ∈ order := fun v hv => hcomp v (hc'n v ((mem_nsort v c').1 hv))
                  obtain ⟨q', hq', hcq', hX, hYq, hact, hdom, hsurr, hgr⟩ :=
                    line10_ok (s := []) hc hord hin
                  rw [hq', ok_bind]
                  obtain ⟨hinv', hmu'⟩ := line10_tinv h hc'd (fun y hy => hcc' y (hYc y hy)) hdl hX hYq hact hdom hsurr hgr
                  obtain ⟨r, hr, hrc⟩ := ih q' _ hinv' (noSurr_nil hsurr) hcq' (by omega)
                  rw [hr, ok_bind]
                  obtain ⟨y, hy, hyc, _⟩ := c14nSafe_ok (x := r) hrc
                  exact ⟨y, hy, hyc⟩

end Trso
end Y0
