/-
  Y0.Lemmas.TrsoIdSim — when no source domain declares an experiment, TRSO (`Y0.Model.Trso`) returns an estimand
  exactly when ID (`Y0.Model.Id`) does.  The two recursions run in lock-step: TRSO lines 1/2/3/4/8/9/10 are ID lines
  1/2/3/4/5/6/7, and the queries handed to the recursive calls describe the same problem again (`Sim`).

  Built on the target-phase invariant (`TInv`, Lemmas/TrsoGraphInv ... TrsoNoErr), the totality development of ID
  (Lemmas/IdTotal) and the member-only congruence lemmas of Lemmas/TrsoIdCongr.
-/
import Y0.Lemmas.TrsoNoErr
import Y0.Lemmas.TrsoIdCongr

namespace Y0
namespace Trso
open TrDsl MG

/-- the ID state and the TRSO query describe the same problem: equal graphs up to insertion order, equal sets X and Y -/
def Sim (I : IdIn) (q : Query) (G : MG Name) : Prop :=
  I.G.equiv G = true ∧ (∀ v, v ∈ I.X ↔ v ∈ q.X) ∧ (∀ v, v ∈ I.Y ↔ v ∈ q.Y)

/-! ### plumbing on the TRSO side -/

/-- the final `canonicalize` of lines 2, 3 and 10 keeps "an estimand was found" -/
theorem c14n_iff {x : Except Err (Option Expr)} (hx : GoodOut x) :
    (∃ e, (x >>= c14nSafe) = .ok (some e)) ↔ ∃ e, x = .ok (some e) := by
  obtain ⟨r, rfl, hrc⟩ := hx
  rw [ok_bind]
  obtain ⟨y, hy, _, hsome⟩ := c14nSafe_ok (x := r) hrc
  rw [hy]
  cases r <;> cases y <;> simp at hsome ⊢

/-- line 4's loop finds all terms exactly when every sub-query has an estimand -/
theorem collectTerms_some_iff : ∀ (rs : List (Except Err (Option Expr))), (∀ r ∈ rs, GoodOut r) →
    ((∃ ts, collectTerms rs = .ok (some ts)) ↔ ∀ r ∈ rs, ∃ e, r = .ok (some e))
  | [], _ => ⟨fun _ r hr => (by cases hr), fun _ => ⟨[], rfl⟩⟩
  | r :: rs, h => by
    obtain ⟨o, rfl, ho⟩ := h r (by simp)
    have ih := collectTerms_some_iff rs (fun r hr => h r (List.mem_cons_of_mem _ hr))
    cases o with
    | none =>
      constructor
      · rintro ⟨ts, hts⟩; simp [collectTerms] at hts
      · intro hall
        obtain ⟨e, he⟩ := hall _ List.mem_cons_self
        cases he
    | some t =>
      constructor
      · rintro ⟨ts, hts⟩ r hr
        rcases List.mem_cons.1 hr with rfl | hr
        · exact ⟨t, rfl⟩
        · apply ih.1 _ r hr
          cases hrest : collectTerms rs with
          | error e => simp [collectTerms, hrest, bind, Except.bind] at hts
          | ok o' =>
            cases o' with
            | none => simp [collectTerms, hrest, bind, Except.bind, pure, Except.pure] at hts
            | some ts' => exact ⟨ts', rfl⟩
      · intro hall
        obtain ⟨ts, hts⟩ := ih.2 (fun r hr => hall r (List.mem_cons_of_mem _ hr))
        exact ⟨t :: ts, by simp [collectTerms, hts, bind, Except.bind, pure, Except.pure]⟩

/-- line 4 answers exactly when every sub-query does (all of them being free of errors) -/
theorem step4_iff {rec : Rec} {q : Query} {G : MG Name} {dwi : List (List Name)}
    (hall : ∀ r ∈ (line4 q G dwi).map rec, GoodOut r) :
    (∃ e, step4 rec q G dwi = .ok (some e)) ↔ ∀ s ∈ line4 q G dwi, ∃ e, rec s = .ok (some e) := by
  have hiff := collectTerms_some_iff _ hall
  rcases collectTerms_good _ hall with ⟨ts, hts, hcl⟩ | hn
  · obtain ⟨e, he, _⟩ := step4_ok hts hcl
    constructor
    · intro _ s hs
      exact hiff.1 ⟨ts, hts⟩ _ (List.mem_map.2 ⟨s, hs, rfl⟩)
    · intro _; exact ⟨e, he⟩
  · constructor
    · rintro ⟨e, he⟩
      rw [step4_none hn] at he
      cases he
    · intro hs
      obtain ⟨ts, hts⟩ := hiff.2 (fun r hr => by
        obtain ⟨s, hs', rfl⟩ := List.mem_map.1 hr
        exact hs s hs')
      rw [hn] at hts
      cases hts

/-- what line 2 hands to the recursion -/
theorem line2_shape {M q G} (h : TInv M q G) {anc : List Name} (hanc : G.ancestorsInclusive q.Y = .ok anc)
    {q' : Query} (hq' : line2 q anc = .ok q') :
    q'.X = inter' q.X anc ∧ q'.Y = q.Y ∧ lookup q'.graphs q'.domain = .ok (G.subgraph (nsort anc)) := by
  rw [line2_eq] at hq'
  obtain ⟨gs, hgs, hq'⟩ := bind_ok hq'
  obtain ⟨g, hg, hq'⟩ := bind_ok hq'
  obtain ⟨e, he, hq'⟩ := bind_ok hq'
  simp only [pure, Except.pure, Except.ok.injEq] at hq'
  subst hq'
  refine ⟨rfl, rfl, ?_⟩
  have hkey : ∀ p p', anc2 q.Y p = .ok p' → p'.1 = p.1 := by
    intro p p' hp
    obtain ⟨a, _, rfl⟩ := anc2_ok hp
    rfl
  obtain ⟨G', hG', hf⟩ := lookup_mapM hkey hgs h.look
  obtain ⟨a, ha, hpair⟩ := anc2_ok hf
  simp only at ha
  rw [hanc] at ha
  cases ha
  have hG'eq : G' = G.subgraph (nsort anc) := congrArg Prod.snd hpair
  subst hG'eq
  exact hG'

/-! ### the simulation -/

/-- **TRSO without experiments answers exactly when ID does** (recursion level).  `q` is a target-phase query with
current graph `G` whose measure is below the budget; `I` is a valid ID state describing the same problem. -/
theorem trsoF_iff_idAlg {topo : MG Name → Except Err (List Name)} (ht : TopoGood topo) (sep : SepTest) (M : Nat) :
    ∀ (fuel : Nat) (q : Query) (G : MG Name) (I : IdIn), TInv M q G → NoSurr q → Clean q.expr → mu M q G < fuel →
      Valid I → Sim I q G →
      ((∃ e, trsoF sep fuel q = .ok (some e)) ↔ (∃ e', idAlg topo I = .ok e'))
  | 0, _, _, _, _, _, _, hmu, _, _ => absurd hmu (Nat.not_lt_zero _)
  | fuel + 1, q, G, I, h, hs, hc, hmu, hv, hsim => by
    have ih := trsoF_iff_idAlg ht sep M fuel
    have tok := trsoF_target_ok sep M fuel
    have hg : q.graph = .ok G := h.look
    obtain ⟨hGe, hXe, hYe⟩ := hsim
    obtain ⟨hGn, hGd, hGb⟩ := (equiv_iff _ _).1 hGe
    have hreg := regularNodes_eq_of_noT h.noT
    have hIX : I.X.isEmpty = q.X.isEmpty := isEmpty_congr hXe
    unfold trsoF
    rw [hg, ok_bind]
    split
    · -- line 1 ~ line 1
      rename_i hX
      obtain ⟨e, he, _⟩ := step1_ok (q := q) (G := G) hc
      exact ⟨fun _ => ⟨_, idAlg_of_done (step_fwd_l1 (hIX.trans hX))⟩, fun _ => ⟨e, he⟩⟩
    · rename_i hX
      have hIX' : I.X.isEmpty = false := by rw [hIX]; simpa using hX
      obtain ⟨anc, hanc⟩ := h.anc_ok
      obtain ⟨ancI, hancI⟩ := ancestorsInclusive_total I.G I.Y hv.ysub
      have hancm : ∀ v, v ∈ ancI ↔ v ∈ anc := ancestors_congr_of_mem hv.wf h.wfG hGe hYe hancI hanc
      have hd2 : (diff' I.G.nodes ancI).isEmpty = (diff' (regularNodes G) anc).isEmpty := by
        apply isEmpty_congr
        intro v
        rw [hreg, mem_diff'_iff, mem_diff'_iff, hGn v, hancm v]
      rw [hanc, ok_bind]
      split
      · -- line 2 ~ line 2
        rename_i hne
        have hne' : (diff' (regularNodes G) anc).isEmpty = false := by simpa using hne
        obtain ⟨q', G', hq', hinv', hmu', hc', hsurr'⟩ :=
          line2_ok h hanc hne' Clean (fun r => line2_expr_ok hc)
        obtain ⟨hX', hY', hlook'⟩ := line2_shape h hanc hq'
        have hG' : G' = G.subgraph (nsort anc) := by
          have := hinv'.look
          rw [hlook'] at this
          cases this
          rfl
        subst hG'
        have hstep : step topo I = .ok (.tail (Y0.line2 I ancI)) := step_fwd_l2 hIX' hancI (hd2.trans hne')
        obtain ⟨hvJ, hmJ⟩ := step_good hv hstep
        rw [idAlg_of_tail hstep hmJ]
        have hsim' : Sim (Y0.line2 I ancI) q' (G.subgraph (nsort anc)) := by
          refine ⟨equiv_subgraph_of_mem hGe (fun v => by rw [mem_nsort]; exact hancm v), fun v => ?_, fun v => ?_⟩
          · show v ∈ inter' I.X ancI ↔ _
            rw [hX', mem_inter'_iff, mem_inter'_iff, hXe v, hancm v]
          · show v ∈ I.Y ↔ _
            rw [hY']
            exact hYe v
        have hns' := noSurr_of_eq hs hsurr'
        rw [← ih q' _ _ hinv' hns' hc' (by omega) hvJ hsim']
        unfold step2
        rw [hq', ok_bind]
        exact c14n_iff (tok q' _ hinv' hns' hc' (by omega))
      · rename_i he2
        have he2' : (diff' (regularNodes G) anc).isEmpty = true := by simpa using he2
        obtain ⟨extra, hex⟩ := h.noEffect_ok
        rw [hex, ok_bind]
        obtain ⟨ancI', hancI'⟩ := ancestorsInclusive_total (I.G.removeInEdges I.X) I.Y
          (fun y hy => (mem_nodes_removeInEdges I.G hv.wf I.X y).mpr (hv.ysub y hy))
        have hexm : ∀ v, v ∈ diff' (diff' I.G.nodes I.X) ancI' ↔ v ∈ extra := by
          unfold noEffectOnOutcomes at hex
          obtain ⟨a, ha, hex⟩ := bind_ok hex
          simp only [pure, Except.pure, Except.ok.injEq] at hex
          subst hex
          have ham : ∀ v, v ∈ ancI' ↔ v ∈ a :=
            ancestors_congr_of_mem (wf_removeInEdges _ _) (wf_removeInEdges _ _)
              (equiv_removeInEdges_of_mem hv.wf h.wfG hGe hXe) hYe hancI' ha
          intro v
          simp only [mem_diff'_iff, List.mem_filter, decide_eq_true_eq, hGn v, hXe v, ham v]
          tauto
        split
        · -- line 3 ~ line 3
          rename_i hne
          have hne' : extra.isEmpty = false := by simpa using hne
          obtain ⟨hinv', hmu'⟩ := line3_inv h hex hne'
          have hstep : step topo I = .ok (.tail (Y0.line3 I (diff' (diff' I.G.nodes I.X) ancI'))) :=
            step_fwd_l3 hIX' hancI (hd2.trans he2') hancI' ((isEmpty_congr hexm).trans hne')
          obtain ⟨hvJ, hmJ⟩ := step_good hv hstep
          rw [idAlg_of_tail hstep hmJ]
          have hsim' : Sim (Y0.line3 I (diff' (diff' I.G.nodes I.X) ancI')) (line3 q extra) G := by
            refine ⟨hGe, fun v => ?_, hYe⟩
            show v ∈ union' I.X _ ↔ v ∈ nsort (q.X ++ extra)
            rw [mem_union'_iff, mem_nsort, List.mem_append, hXe v, hexm v]
          rw [← ih (line3 q extra) G _ hinv' (noSurr_of_eq hs rfl) hc (by omega) hvJ hsim']
          unfold step3
          exact c14n_iff (tok (line3 q extra) G hinv' (noSurr_of_eq hs rfl) hc (by omega))
        · rename_i he3
          have he3' : extra.isEmpty = true := by simpa using he3
          have hstepB : step topo I = stepB topo I :=
            step_fwd_B hIX' hancI (hd2.trans he2') hancI' ((isEmpty_congr hexm).trans he3')
          have hGxe : (I.G.removeNodes I.X).equiv (G.removeNodes q.X) = true :=
            equiv_removeNodes_of_mem hv.wf h.wfG hGe hXe
          have hwI := wf_removeNodes I.G I.X
          have hwT := wf_removeNodes G q.X
          have hlen1 : (I.G.removeNodes I.X).districts.length = 1 ↔ (G.removeNodes q.X).districts.length = 1 :=
            districts_length_one_congr hwI hwT hGxe
          have hdne := h.dwi_ne
          have hdne' : (G.removeNodes q.X).districts.length ≠ 0 := by
            intro h0; exact hdne (List.length_eq_zero_iff.1 h0)
          simp only []
          split
          · -- line 4 ~ line 4
            rename_i hlen
            have hlenI : (I.G.removeNodes I.X).districts.length ≠ 1 := by
              intro h1; have := hlen1.1 h1; omega
            have hstep : step topo I =
                .ok (.split ((I.G.removeNodes I.X).districts.map fun S =>
                  { G := I.G, X := diff' I.G.nodes S, Y := S, est := I.est })
                  (diff' I.G.nodes (union' I.Y I.X))) := hstepB.trans (stepB_fwd_l4 hv hlenI)
            have hgood : ∀ J ∈ ((I.G.removeNodes I.X).districts.map fun S =>
                ({ G := I.G, X := diff' I.G.nodes S, Y := S, est := I.est } : IdIn)),
                Valid J ∧ measureLt J.measure I.measure = true := step_good hv hstep
            rw [idAlg_of_split hstep (fun J hJ => (hgood J hJ).2)]
            have h4 := line4_inv h hlen
            have hall : ∀ r ∈ (line4 q G (G.removeNodes q.X).districts).map (trsoF sep fuel), GoodOut r := by
              intro r hr
              obtain ⟨s, hs', rfl⟩ := List.mem_map.1 hr
              obtain ⟨hinv', hmu', hexpr, hsurr'⟩ := h4 s hs'
              exact tok s G hinv' (noSurr_of_eq hs hsurr') (hexpr ▸ hc) (by omega)
            rw [step4_iff hall]
            -- sub-problems of districts with the same members correspond
            have hcorr : ∀ S ∈ (I.G.removeNodes I.X).districts, ∀ c ∈ (G.removeNodes q.X).districts,
                (∀ v, v ∈ S ↔ v ∈ c) →
                ((∃ e, trsoF sep fuel { q with Y := nsort c, X := diff' (regularNodes G) c } = .ok (some e)) ↔
                  ∃ e', idAlg topo { G := I.G, X := diff' I.G.nodes S, Y := S, est := I.est } = .ok e') := by
              intro S hS c hcd hSc
              have hsmem : ({ q with Y := nsort c, X := diff' (regularNodes G) c } : Query) ∈
                  line4 q G (G.removeNodes q.X).districts := List.mem_map.2 ⟨c, hcd, rfl⟩
              obtain ⟨hinv', hmu', _, hsurr'⟩ := h4 _ hsmem
              have hJ := hgood _ (List.mem_map.2 ⟨S, hS, rfl⟩)
              refine ih _ G _ hinv' (noSurr_of_eq hs hsurr') hc (by omega) hJ.1 ⟨hGe, fun v => ?_, fun v => ?_⟩
              · show v ∈ diff' I.G.nodes S ↔ v ∈ diff' (regularNodes G) c
                rw [hreg, mem_diff'_iff, mem_diff'_iff, hGn v, hSc v]
              · show v ∈ S ↔ v ∈ nsort c
                rw [mem_nsort]
                exact hSc v
            constructor
            · intro hT J hJ
              obtain ⟨S, hS, rfl⟩ := List.mem_map.1 hJ
              obtain ⟨c, hcd, hSc⟩ := districts_corr hwI hwT hGxe hS
              exact (hcorr S hS c hcd hSc).1 (hT _ (List.mem_map.2 ⟨c, hcd, rfl⟩))
            · intro hI s hs'
              obtain ⟨c, hcd, rfl⟩ := List.mem_map.1 hs'
              obtain ⟨S, hS, hcS⟩ := districts_corr hwT hwI (equiv_symm _ _ hGxe) hcd
              exact (hcorr S hS c hcd (fun v => (hcS v).symm)).2 (hI _ (List.mem_map.2 ⟨S, hS, rfl⟩))
          · -- lines 6-11 ~ lines 5-7
            rename_i hlen
            have hlenT : (G.removeNodes q.X).districts.length = 1 := by omega
            have hlenI := hlen1.2 hlenT
            rw [step67_none sep (trsoF sep fuel) h hs, ok_bind]
            show (∃ e, step811 (trsoF sep fuel) q G (G.removeNodes q.X).districts = .ok (some e)) ↔ _
            have hlen2 : I.G.districts.length = 1 ↔ G.districts.length = 1 :=
              districts_length_one_congr hv.wf h.wfG hGe
            have hGdne : G.districts.length ≠ 0 := by
              intro h0
              obtain ⟨y, hy⟩ := List.exists_mem_of_ne_nil _ h.Yne
              exact districts_ne_nil h.wfG (List.ne_nil_of_mem (h.YinG y hy)) (List.length_eq_zero_iff.1 h0)
            unfold step811
            split
            · -- line 8 ~ line 5: both refuse
              rename_i hdl
              have hstep : step topo I = .error .unidentifiable :=
                hstepB.trans (stepB_fwd_l5 hv hlenI (hlen2.2 (by omega)))
              rw [idAlg_of_error hstep]
              exact ⟨fun ⟨_, h⟩ => (by cases h), fun ⟨_, h⟩ => (by cases h)⟩
            · rename_i hdl
              have hlen2I : I.G.districts.length ≠ 1 := by
                intro h1; have := hlen2.1 h1; omega
              obtain ⟨S, hS⟩ : ∃ S, (I.G.removeNodes I.X).districts = [S] := by
                match hd : (I.G.removeNodes I.X).districts, hlenI with
                | [S], _ => exact ⟨S, rfl⟩
              have hstep67 := hstepB.trans (stepB_fwd_l67 (topo := topo) hv hS hlen2I)
              cases hd : (G.removeNodes q.X).districts with
              | nil => exact absurd hd hdne
              | cons c rest =>
                have hrest : rest = [] := by
                  cases rest with
                  | nil => rfl
                  | cons a as => rw [hd] at hlenT; simp at hlenT
                subst hrest
                obtain ⟨hcmem, hYc, hcne⟩ := h.single_dwi hd
                obtain ⟨order, hord, hcomp⟩ := h.order_ok
                have hSc : ∀ v, v ∈ S ↔ v ∈ c := by
                  intro v
                  rw [single_gx hv hS v, hcmem v, hGn v, hXe v]
                have hany := any_seteq_congr hv.wf h.wfG hGe hSc
                simp only []
                split
                · -- line 9 ~ line 6: both answer
                  rename_i hanyT
                  have hin : ∀ v ∈ nsort c, v ∈ order := fun v hv' =>
                    hcomp v ((hcmem v).1 ((mem_nsort v c).1 hv')).1
                  obtain ⟨e9, he9, hc9⟩ := line9_ok hc hord hin hcne
                  rw [he9, ok_bind]
                  obtain ⟨e, he, hce⟩ := canonicalize_ok hc9
                  rw [he, ok_bind]
                  rw [hany, hanyT] at hstep67
                  simp only [if_true] at hstep67
                  obtain ⟨s6, hs6⟩ := line6_total hv ht (S := S) (fun v hvS => ((single_gx hv hS v).mp hvS).1)
                  obtain ⟨order', fs, _, _, rfl⟩ := line6_ok hs6
                  exact ⟨fun _ => ⟨_, idAlg_of_done (hstep67.trans hs6)⟩, fun _ => ⟨e, rfl⟩⟩
                · -- line 10 ~ line 7
                  rename_i hanyT
                  have hanyT' : G.districts.any (fun d => seteq' d c) = false := by simpa using hanyT
                  obtain ⟨c', hfil, hc'd, hcc', hc'n⟩ := h.super_district hd
                  rw [hfil]
                  simp only []
                  have hsurr10 : line10Surr q G c' = .ok (some []) := by
                    unfold line10Surr; simp [h.act]
                  rw [hsurr10, ok_bind]
                  simp only []
                  have hin : ∀ v ∈ nsort c', v ∈ order := fun v hv' => hcomp v (hc'n v ((mem_nsort v c').1 hv'))
                  obtain ⟨q', hq', hcq', hX, hYq, hact, hdom, hsurr, hgr⟩ :=
                    line10_ok (s := []) hc hord hin
                  rw [hq', ok_bind]
                  obtain ⟨hinv', hmu'⟩ :=
                    line10_tinv h hc'd (fun y hy => hcc' y (hYc y hy)) hdl hX hYq hact hdom hsurr hgr
                  -- the ID side
                  rw [hany, hanyT'] at hstep67
                  simp only [Bool.false_eq_true, if_false] at hstep67
                  have hnot : ∀ D' ∈ I.G.districts, seteq' D' S = false := by
                    intro D' hD'
                    cases hq : seteq' D' S with
                    | false => rfl
                    | true =>
                      have : I.G.districts.any (fun D => seteq' D S) = true := List.any_eq_true.mpr ⟨D', hD', hq⟩
                      rw [hany, hanyT'] at this
                      cases this
                  obtain ⟨s7, hs7⟩ := line7_total hv ht hS hnot
                  obtain ⟨D, order', fs, hfind, _, _, rfl⟩ := line7_ok hs7
                  have hstep := hstep67.trans hs7
                  obtain ⟨hvJ, hmJ⟩ := step_good hv hstep
                  rw [idAlg_of_tail hstep hmJ]
                  have hD : D ∈ I.G.districts := List.mem_of_find?_eq_some hfind
                  have hprop : properSubset S D = true := by
                    have := List.find?_some hfind
                    simpa using this
                  have hSD : ∀ v ∈ S, v ∈ D := by
                    unfold properSubset at hprop
                    simp only [Bool.and_eq_true] at hprop
                    exact IdAux.subset'_iff.mp hprop.1
                  obtain ⟨s0, hs0⟩ := List.exists_mem_of_ne_nil _ hcne
                  have hDc' : ∀ v, v ∈ D ↔ v ∈ c' :=
                    equiv_congr_districts I.G G hv.wf h.wfG hGe D hD c' hc'd s0 (hSD s0 ((hSc s0).2 hs0))
                      (hcc' s0 hs0)
                  have hsim' : Sim { G := I.G.subgraph D, X := inter' I.X D, Y := I.Y, est := IdDsl.productSafe fs }
                      q' (G.subgraph (nsort c')) := by
                    refine ⟨equiv_subgraph_of_mem hGe (fun v => by rw [mem_nsort]; exact hDc' v),
                      fun v => ?_, fun v => ?_⟩
                    · show v ∈ inter' I.X D ↔ _
                      rw [hX, mem_inter'_iff, mem_inter'_iff, hXe v, hDc' v]
                    · show v ∈ I.Y ↔ _
                      rw [hYq]
                      exact hYe v
                  rw [← ih q' _ _ hinv' (noSurr_nil hsurr) hcq' (by omega) hvJ hsim']
                  exact c14n_iff (tok q' _ hinv' (noSurr_nil hsurr) hcq' (by omega))

/-! ### the property -/

end Trso
end Y0
