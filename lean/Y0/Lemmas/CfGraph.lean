/-
  Y0.Lemmas.CfGraph — invariants of the counterfactual-graph construction (Y0/Model/Cg.lean):
  well-formedness, "every directed edge projects to an edge of the user's graph", and the facts about
  the final ancestral restriction.  Helper lemmas for Props/C18.lean (and C07).
-/
import Y0.Model.Cg
import Y0.Props.C14

namespace Y0
open Relation

namespace Cf

theorem elem'_iff {α} [DecidableEq α] (a : α) (l : List α) : elem' a l = true ↔ a ∈ l := by
  simp only [elem', List.any_eq_true, decide_eq_true_eq]
  constructor
  · rintro ⟨x, hx, rfl⟩; exact hx
  · intro h; exact ⟨a, h, rfl⟩

end Cf

namespace MG
variable {α : Type} [DecidableEq α]

theorem wf_addNode (G : MG α) (hG : G.WF) (n : α) : (G.addNode n).WF := by
  refine ⟨nodup_addNode G n hG.nodup, by simpa using hG.di_nodup, ?_, ?_⟩
  · intro e he
    simp only [di_addNode] at he
    simp only [mem_nodes_addNode]
    exact ⟨Or.inl (hG.di_mem e he).1, Or.inl (hG.di_mem e he).2⟩
  · intro e he
    simp only [bi_addNode] at he
    simp only [mem_nodes_addNode]
    exact ⟨Or.inl (hG.bi_mem e he).1, Or.inl (hG.bi_mem e he).2⟩

theorem wf_foldl_addNode (ns : List α) (G : MG α) (hG : G.WF) : (ns.foldl addNode G).WF := by
  induction ns generalizing G with
  | nil => exact hG
  | cons n ns ih => exact ih _ (wf_addNode G hG n)

theorem diEdge_foldl_addNode (ns : List α) (G : MG α) (u v : α) :
    (ns.foldl addNode G).DiEdge u v ↔ G.DiEdge u v := by
  simp [DiEdge, di_foldl_addNode]

/-- the ancestral restriction `G.subgraph (An_G(S))` with `S ⊆ nodes`: contains `S`, and its nodes are exactly the
ancestors of `S` computed INSIDE the restricted graph -/
theorem subgraph_ancestors_contains (G : MG α) (hG : G.WF) (S A : List α)
    (h : G.ancestorsInclusive S = .ok A) : ∀ s ∈ S, s ∈ (G.subgraph A).nodes := by
  intro s hs
  rw [mem_nodes_subgraph, ancestorsInclusive_spec G hG S A h]
  exact ⟨s, hs, .refl⟩

theorem subgraph_ancestors_exact (G : MG α) (hG : G.WF) (S A : List α)
    (h : G.ancestorsInclusive S = .ok A) (v : α) :
    v ∈ (G.subgraph A).nodes ↔ (G.subgraph A).Anc S v := by
  have spec := ancestorsInclusive_spec G hG S A h
  rw [mem_nodes_subgraph]
  constructor
  · intro hv
    obtain ⟨s, hs, hvs⟩ := (spec v).1 hv
    refine ⟨s, hs, ?_⟩
    -- every node on the path is an ancestor of `s`, hence in `A`
    have key : ∀ a, ReflTransGen G.DiEdge a s → ReflTransGen (G.subgraph A).DiEdge a s := by
      intro a ha
      induction ha using ReflTransGen.head_induction_on with
      | refl => exact .refl
      | head hab hbs ih =>
        rename_i a' b'
        refine ReflTransGen.head ?_ ih
        rw [diEdge_subgraph]
        exact ⟨hab, (spec _).2 ⟨s, hs, ReflTransGen.head hab hbs⟩, (spec _).2 ⟨s, hs, hbs⟩⟩
    exact key v hvs
  · rintro ⟨s, hs, hvs⟩
    rw [spec]
    refine ⟨s, hs, ?_⟩
    exact ReflTransGen.mono (fun a b hab => ((diEdge_subgraph G A a b).1 hab).1) _ _ hvs

end MG

namespace Cf

/-! ### edge projection -/

/-- every directed edge of the counterfactual graph lies over a directed edge of the user's graph -/
def EdgeProj (G : MG Name) (cf : MG Var) : Prop := ∀ a b, cf.DiEdge a b → G.DiEdge a.name b.name

theorem EdgeProj.acyclic {G : MG Name} {cf : MG Var} (h : EdgeProj G cf) (hG : G.Acyclic) : cf.Acyclic := by
  intro v hv
  exact hG v.name (TransGen.lift Var.name (fun a b hab => h a b hab) v v hv)

theorem edgeProj_pw (G : MG Name) (ws : List World) : EdgeProj G (makeParallelWorldsGraph G ws) := by
  intro a b hab
  unfold makeParallelWorldsGraph at hab
  simp only [MG.diEdge_fromEdges, List.mem_append, List.mem_map, pwDirectedEdges, List.mem_flatMap,
    List.mem_filter] at hab
  rcases hab with ⟨e, he, heq⟩ | ⟨w, _, e, ⟨he, _⟩, heq⟩
  · simp only [Prod.mk.injEq] at heq
    obtain ⟨rfl, rfl⟩ := heq
    exact he
  · simp only [Prod.mk.injEq] at heq
    obtain ⟨rfl, rfl⟩ := heq
    exact he

theorem edgeProj_copy {G : MG Name} {cf : MG Var} (h : EdgeProj G cf) :
    EdgeProj G (MG.fromEdges cf.nodes cf.di cf.bi) := by
  intro a b hab
  rw [MG.diEdge_fromEdges] at hab
  exact h a b hab

theorem mergeOrder_names (a b : Var) (h : a.name = b.name) :
    (mergeOrder a b).1.name = (mergeOrder a b).2.name := by
  unfold mergeOrder
  split
  · exact h.symm
  · split
    · exact h
    · split
      · exact h.symm
      · exact h

theorem mergeOrder_cases (a b : Var) :
    mergeOrder a b = (a, b) ∨ mergeOrder a b = (b, a) := by
  unfold mergeOrder
  split
  · exact Or.inr rfl
  · split
    · exact Or.inl rfl
    · split
      · exact Or.inr rfl
      · exact Or.inl rfl

theorem mergePw_graph (cf : MG Var) (a b : Var) :
    (mergePw cf a b).1 = MG.fromEdges
      (cf.nodes.filter (fun n => n ≠ (mergeOrder a b).2 &&
        !elem' n (diff' (cf.parents (mergeOrder a b).2) (cf.parents (mergeOrder a b).1))))
      (cf.di.filter (fun e => e.1 ≠ (mergeOrder a b).2 ∧ e.2 ≠ (mergeOrder a b).2)
        ++ (cf.di.filter (fun e => e.1 = (mergeOrder a b).2)).map (fun e => ((mergeOrder a b).1, e.2)))
      (cf.bi.filter (fun e => e.1 ≠ (mergeOrder a b).2 ∧ e.2 ≠ (mergeOrder a b).2)
        ++ (cf.bi.filter (fun e => e.1 = (mergeOrder a b).2 ∧ e.2 ≠ (mergeOrder a b).1)).map (fun e => ((mergeOrder a b).1, e.2))
        ++ (cf.bi.filter (fun e => e.2 = (mergeOrder a b).2 ∧ e.1 ≠ (mergeOrder a b).1)).map (fun e => (e.1, (mergeOrder a b).1))) := by
  unfold mergePw
  rfl

theorem wf_mergePw (cf : MG Var) (a b : Var) : (mergePw cf a b).1.WF := by
  rw [mergePw_graph]; exact MG.wf_fromEdges _ _ _

theorem edgeProj_mergePw {G : MG Name} {cf : MG Var} (h : EdgeProj G cf) (a b : Var) (hab : a.name = b.name) :
    EdgeProj G (mergePw cf a b).1 := by
  intro x y hxy
  rw [mergePw_graph, MG.diEdge_fromEdges] at hxy
  simp only [List.mem_append, List.mem_filter, List.mem_map] at hxy
  rcases hxy with ⟨he, _⟩ | ⟨e, ⟨he, h1⟩, heq⟩
  · exact h x y he
  · simp only [decide_eq_true_eq] at h1
    simp only [Prod.mk.injEq] at heq
    obtain ⟨rfl, rfl⟩ := heq
    have := h e.1 e.2 he
    rw [h1, ← mergeOrder_names a b hab] at this
    exact this

theorem lemma24Holds_names {cf : MG Var} {ev : Event} {a b : Var} (h : lemma24Holds cf ev a b = true) :
    a.name = b.name := by
  simp only [lemma24Holds, isPwEquivalent, hasSameFunction, Bool.and_eq_true, beq_iff_eq] at h
  exact h.2.1.1.1

theorem lemma24Holds_nodes {cf : MG Var} {ev : Event} {a b : Var} (h : lemma24Holds cf ev a b = true) :
    a ∈ cf.nodes ∧ b ∈ cf.nodes := by
  simp only [lemma24Holds, Bool.and_eq_true, elem'_iff] at h
  exact ⟨h.1.1, h.1.2⟩

/-! ### the loop state -/

def St.graph : St → MG Var
  | .run cf _ => cf
  | .stop cf => cf

/-- the invariant carried through the merge loop -/
structure Inv (G : MG Name) (st : St) : Prop where
  wf : st.graph.WF
  proj : EdgeProj G st.graph

theorem inv_mergeStep {G : MG Name} {st : St} (h : Inv G st) (a b : Var) : Inv G (mergeStep st a b) := by
  unfold mergeStep
  cases st with
  | stop cf => exact h
  | run cf ev =>
    simp only
    split
    · rename_i h24
      have hn := lemma24Holds_names h24
      split
      · exact ⟨wf_mergePw cf a b, edgeProj_mergePw h.proj a b hn⟩
      · exact ⟨wf_mergePw cf a b, edgeProj_mergePw h.proj a b hn⟩
    · exact h

theorem inv_foldl {β} {G : MG Name} (f : St → β → St) (hf : ∀ st x, Inv G st → Inv G (f st x))
    (l : List β) (st : St) (h : Inv G st) : Inv G (l.foldl f st) := by
  induction l generalizing st with
  | nil => exact h
  | cons x xs ih => exact ih _ (hf st x h)

theorem inv_nodeStep {G : MG Name} (ws : List World) {st : St} (h : Inv G st) (n : Name) :
    Inv G (nodeStep ws st n) := by
  unfold nodeStep
  have h1 := inv_foldl (fun st w => mergeStep st (Var.plain n) (atWorld n w))
    (fun st w hst => inv_mergeStep hst _ _) ws st h
  simp only
  split
  · exact inv_foldl (fun st (p : World × World) => mergeStep st (atWorld n p.1) (atWorld n p.2))
      (fun st p hst => inv_mergeStep hst _ _) _ _ h1
  · exact h1

theorem inv_mergeLoop {G : MG Name} (ws : List World) (topo : List Name) {st : St} (h : Inv G st) :
    Inv G (mergeLoop ws topo st) :=
  inv_foldl (nodeStep ws) (fun _ n hst => inv_nodeStep ws hst n) topo st h

theorem inv_init (G : MG Name) (ws : List World) (ev : Event) :
    Inv G (.run (MG.fromEdges (makeParallelWorldsGraph G ws).nodes (makeParallelWorldsGraph G ws).di
      (makeParallelWorldsGraph G ws).bi) ev) :=
  ⟨MG.wf_fromEdges _ _ _, edgeProj_copy (edgeProj_pw G ws)⟩

end Cf
end Y0

namespace Y0.Cf

/-! ### 'inconsistent' is only reported with a witness -/

/-- a stopped state carries a pair that passed the Lemma-24 test while the event gave it two different values -/
def Witnessed : St → Prop
  | .run _ _ => True
  | .stop _ => ∃ cf ev a b, lemma24Holds cf ev a b = true ∧ isInconsistent ev a b = true

theorem witnessed_mergeStep {st : St} (h : Witnessed st) (a b : Var) : Witnessed (mergeStep st a b) := by
  unfold mergeStep
  cases st with
  | stop cf => exact h
  | run cf ev =>
    simp only
    split
    · rename_i h24
      split
      · rename_i hinc
        exact ⟨cf, ev, a, b, h24, hinc⟩
      · trivial
    · trivial

theorem witnessed_foldl {β} (f : St → β → St) (hf : ∀ st x, Witnessed st → Witnessed (f st x))
    (l : List β) (st : St) (h : Witnessed st) : Witnessed (l.foldl f st) := by
  induction l generalizing st with
  | nil => exact h
  | cons x xs ih => exact ih _ (hf st x h)

theorem witnessed_nodeStep (ws : List World) {st : St} (h : Witnessed st) (n : Name) :
    Witnessed (nodeStep ws st n) := by
  unfold nodeStep
  have h1 := witnessed_foldl (fun st w => mergeStep st (Var.plain n) (atWorld n w))
    (fun st w hst => witnessed_mergeStep hst _ _) ws st h
  simp only
  split
  · exact witnessed_foldl (fun st (p : World × World) => mergeStep st (atWorld n p.1) (atWorld n p.2))
      (fun st p hst => witnessed_mergeStep hst _ _) _ _ h1
  · exact h1

theorem witnessed_mergeLoop (ws : List World) (topo : List Name) {st : St} (h : Witnessed st) :
    Witnessed (mergeLoop ws topo st) :=
  witnessed_foldl (nodeStep ws) (fun _ n hst => witnessed_nodeStep ws hst n) topo st h

end Y0.Cf
