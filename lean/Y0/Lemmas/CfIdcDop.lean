/-
  Y0.Lemmas.CfIdcDop — copies of one variable in different worlds stay adjacent in the counterfactual graph.

  `make_parallel_worlds_graph` joins every two copies `V_w`, `V_w'` (and `V`, `V_w`) of a variable that is intervened in neither
  world by a bidirected edge (they read the same exogenous noise).  `merge_pw` only redirects such an edge to the kept node, so
  in the graph the merge loop ends with any two DIFFERENT not-self-intervened nodes with the same variable name are still joined
  (`DopRep`).  Consequence for IDC* (`rule2_name_free`): `cf_rule_2_of_do_calculus_applies` never accepts a condition that has
  the variable name of an outcome (adjacent nodes are never d-separated).  The invariant is stated on graph AND event (`DopRep2`): the edge between two copies
  also keeps both of them in the graph (a node without any edge can be dropped by `merge_pw` and re-added as an isolated node).
-/
import Y0.Lemmas.CfIdcDsep
import Y0.Lemmas.CfIdcTerm
import Y0.Lemmas.CfFragA

namespace Y0.Cf
open Relation MG Fscm

/-- two different not-self-intervened nodes with the same variable name are joined by a bidirected edge -/
def DopRep (cf : MG Var) : Prop :=
  ∀ a ∈ cf.nodes, ∀ b ∈ cf.nodes, isNotSelfIntervened a = true → isNotSelfIntervened b = true → a ≠ b →
    a.name = b.name → cf.BiEdge a b

def DopRepSt : St → Prop
  | .run cf _ => DopRep cf
  | .stop _ => True

theorem mem_pairs_of_ne {α} : ∀ (l : List α) (x y : α), x ∈ l → y ∈ l → x ≠ y → (x, y) ∈ pairs l ∨ (y, x) ∈ pairs l
  | [], _, _, hx, _, _ => by cases hx
  | z :: zs, x, y, hx, hy, hxy => by
    simp only [pairs, List.mem_append, List.mem_map, Prod.mk.injEq]
    rcases List.mem_cons.1 hx with rfl | hx' <;> rcases List.mem_cons.1 hy with rfl | hy'
    · exact absurd rfl hxy
    · exact Or.inl (Or.inl ⟨y, hy', rfl, rfl⟩)
    · exact Or.inr (Or.inl ⟨x, hx', rfl, rfl⟩)
    · rcases mem_pairs_of_ne zs x y hx' hy' hxy with h | h
      · exact Or.inl (Or.inr h)
      · exact Or.inr (Or.inr h)

theorem atWorld_inj_world_c08 {n m : Name} {w1 w2 : World} (h : atWorld n w1 = atWorld m w2) : n = m ∧ w1 = w2 := by
  unfold atWorld at h
  simp only [Var.mk.injEq] at h
  exact ⟨h.1, h.2.2.2⟩

theorem dopRep_cfInit (G : MG Name) (hG : G.WF) (hbl : ∀ e ∈ G.bi, e.1 ≠ e.2) (ws : List World) (hnd : ws.Nodup)
    (hne : ∀ w ∈ ws, w ≠ []) : DopRep (cfInit G ws) := by
  intro a ha b hb hna hnb hab hname
  have hform := mem_nodes_cfInit G hG hbl ws hnd hne
  rw [biEdge_cfInit]
  unfold makeParallelWorldsGraph
  rw [MG.biEdge_fromEdges]
  rcases hform a ha with ⟨n, hn, rfl⟩ | ⟨w1, hw1, n, hn, rfl⟩ <;> rcases hform b hb with ⟨m, hm, rfl⟩ | ⟨w2, hw2, m, hm, rfl⟩
  · exfalso
    apply hab
    have : n = m := hname
    rw [this]
  · -- plain n, n @ w2
    have hnm : n = m := hname
    subst hnm
    left
    simp only [List.mem_append]
    refine Or.inr (Or.inl (Or.inl (Or.inr ?_)))
    simp only [stitchFactualAndDopplegangers, List.mem_flatMap, List.mem_map, List.mem_filter]
    exact ⟨w2, hw2, n, ⟨hn, notIntervenedIn_of_nsi n w2 hnb⟩, rfl⟩
  · have hnm : n = m := hname
    subst hnm
    right
    simp only [List.mem_append]
    refine Or.inr (Or.inl (Or.inl (Or.inr ?_)))
    simp only [stitchFactualAndDopplegangers, List.mem_flatMap, List.mem_map, List.mem_filter]
    exact ⟨w1, hw1, n, ⟨hn, notIntervenedIn_of_nsi n w1 hna⟩, rfl⟩
  · -- n @ w1, n @ w2 with w1 ≠ w2
    have hnm : n = m := hname
    subst hnm
    have hw12 : w1 ≠ w2 := fun e => hab (by rw [e])
    have hlen : ws.length > 1 := by
      rcases ws with _ | ⟨x, _ | ⟨y, t⟩⟩
      · cases hw1
      · simp only [List.mem_singleton] at hw1 hw2
        exact absurd (hw1.trans hw2.symm) hw12
      · simp
    have hni1 := notIntervenedIn_of_nsi n w1 hna
    have hni2 := notIntervenedIn_of_nsi n w2 hnb
    rcases mem_pairs_of_ne ws w1 w2 hw1 hw2 hw12 with hp | hp
    · -- the stitched pair is (n @ w2, n @ w1)
      right
      simp only [List.mem_append]
      refine Or.inr (Or.inr ?_)
      rw [if_pos hlen]
      simp only [List.mem_append]
      left
      simp only [stitchCounterfactualAndDopplegangers, List.mem_flatMap, List.mem_map, List.mem_filter, Bool.and_eq_true]
      exact ⟨(w1, w2), hp, n, ⟨hn, hni1, hni2⟩, rfl⟩
    · left
      simp only [List.mem_append]
      refine Or.inr (Or.inr ?_)
      rw [if_pos hlen]
      simp only [List.mem_append]
      left
      simp only [stitchCounterfactualAndDopplegangers, List.mem_flatMap, List.mem_map, List.mem_filter, Bool.and_eq_true]
      exact ⟨(w2, w1), hp, n, ⟨hn, hni2, hni1⟩, rfl⟩

theorem dopRep_mergePw (cf : MG Var) (hwf : cf.WF) (hnl : NoLoops cf) (h : DopRep cf) (a b : Var) (hab : a ≠ b)
    (ha : a ∈ cf.nodes) (hb : b ∈ cf.nodes) : DopRep (mergePw cf a b).1 := by
  intro x hx y hy hnx hny hxy hname
  have hx' := mem_nodes_mergePw cf hwf a b ha hb x hx
  have hy' := mem_nodes_mergePw cf hwf a b ha hb y hy
  have hxne : x ≠ (mergeOrder a b).2 := fun e => removed_not_mem_mergePw cf hnl a b hab (e ▸ hx)
  have hyne : y ≠ (mergeOrder a b).2 := fun e => removed_not_mem_mergePw cf hnl a b hab (e ▸ hy)
  have hold := h x hx' y hy' hnx hny hxy hname
  rw [mergePw_graph, MG.biEdge_fromEdges]
  simp only [List.mem_append, List.mem_filter, decide_eq_true_eq]
  rcases hold with h1 | h1
  · exact Or.inl (Or.inl (Or.inl ⟨h1, hxne, hyne⟩))
  · exact Or.inr (Or.inl (Or.inl ⟨h1, hyne, hxne⟩))

/-- the invariant on the loop STATE: two different not-self-intervened things with the same variable name — nodes of the graph
or keys of the current event — are nodes joined by a bidirected edge (so neither can be dropped from the graph by `merge_pw`) -/
def DopRep2 (cf : MG Var) (ev : Event) : Prop :=
  ∀ a b, (a ∈ cf.nodes ∨ a ∈ ev.keys) → (b ∈ cf.nodes ∨ b ∈ ev.keys) → isNotSelfIntervened a = true →
    isNotSelfIntervened b = true → a ≠ b → a.name = b.name → cf.BiEdge a b

def DopRep2St : St → Prop
  | .run cf ev => DopRep2 cf ev
  | .stop _ => True

theorem dopRep2_merge (cf : MG Var) (ev : Event) (hwf : cf.WF) (hnl : NoLoops cf) (h : DopRep2 cf ev) (a b : Var) (hab : a ≠ b)
    (ha : a ∈ cf.nodes) (hb : b ∈ cf.nodes) :
    DopRep2 (mergePw cf a b).1 (updateEvent ev (mergeOrder a b).1 (mergeOrder a b).2) := by
  have hmo := mergeOrder_mem a b cf ha hb
  have hne := mergeOrder_ne a b hab
  have hold_mem : ∀ x, (x ∈ (mergePw cf a b).1.nodes ∨ x ∈ (updateEvent ev (mergeOrder a b).1 (mergeOrder a b).2).keys) →
      (x ∈ cf.nodes ∨ x ∈ ev.keys) ∧ x ≠ (mergeOrder a b).2 := by
    rintro x (hx | hx)
    · exact ⟨Or.inl (mem_nodes_mergePw cf hwf a b ha hb x hx), fun e => removed_not_mem_mergePw cf hnl a b hab (e ▸ hx)⟩
    · rcases mem_keys_updateEvent ev _ _ x hx with rfl | ⟨h1, h2⟩
      · exact ⟨Or.inl hmo.1, hne⟩
      · exact ⟨Or.inr h1, h2⟩
  intro x y hx hy hnx hny hxy hname
  obtain ⟨hx', hxne⟩ := hold_mem x hx
  obtain ⟨hy', hyne⟩ := hold_mem y hy
  have hold := h x y hx' hy' hnx hny hxy hname
  rw [mergePw_graph, MG.biEdge_fromEdges]
  simp only [List.mem_append, List.mem_filter, decide_eq_true_eq]
  rcases hold with h1 | h1
  · exact Or.inl (Or.inl (Or.inl ⟨h1, hxne, hyne⟩))
  · exact Or.inr (Or.inl (Or.inl ⟨h1, hyne, hxne⟩))

theorem dopRep2St_mergeStep (c : Ctx) (st : St) (a b : Var) (hab : a ≠ b) (hf : FullInv c st)
    (h : DopRep2St st) : DopRep2St (mergeStep st a b) := by
  unfold mergeStep
  cases st with
  | stop cf => exact h
  | run cf ev =>
    obtain ⟨hrep, _⟩ := hf
    simp only
    split
    · rename_i h24
      obtain ⟨ha, hb⟩ := lemma24Holds_nodes h24
      split
      · trivial
      · have hr1 : (mergePw cf a b).2.1 = (mergeOrder a b).1 := by unfold mergePw; rfl
        have hr2 : (mergePw cf a b).2.2 = (mergeOrder a b).2 := by unfold mergePw; rfl
        show DopRep2 _ _
        rw [hr1, hr2]
        exact dopRep2_merge cf ev hrep.wf hrep.noLoops h a b hab ha hb
    · exact h

theorem dopRep2St_runPairs (c : Ctx) (hc : c.OK) (hGl : ∀ e ∈ c.G.di, e.1 ≠ e.2) (ps : List (Var × Var))
    (hne : ∀ p ∈ ps, p.1 ≠ p.2) (st : St) (hf : FullInv c st) (h : DopRep2St st) : DopRep2St (runPairs st ps) := by
  induction ps generalizing st with
  | nil => exact h
  | cons p ps ih =>
    unfold runPairs
    simp only [List.foldl_cons]
    exact ih (fun q hq => hne q (by simp [hq])) _ (fullInv_mergeStep c hc hGl st p.1 p.2 (hne p (by simp)) hf)
      (dopRep2St_mergeStep c st p.1 p.2 (hne p (by simp)) hf h)

theorem dopRepSt_mergeStep (c : Ctx) (st : St) (a b : Var) (hab : a ≠ b) (hf : FullInv c st)
    (h : DopRepSt st) : DopRepSt (mergeStep st a b) := by
  unfold mergeStep
  cases st with
  | stop cf => exact h
  | run cf ev =>
    obtain ⟨hrep, _⟩ := hf
    simp only
    split
    · rename_i h24
      obtain ⟨ha, hb⟩ := lemma24Holds_nodes h24
      split
      · trivial
      · exact dopRep_mergePw cf hrep.wf hrep.noLoops h a b hab ha hb
    · exact h

theorem dopRepSt_runPairs (c : Ctx) (hc : c.OK) (hGl : ∀ e ∈ c.G.di, e.1 ≠ e.2) (ps : List (Var × Var))
    (hne : ∀ p ∈ ps, p.1 ≠ p.2) (st : St) (hf : FullInv c st) (h : DopRepSt st) : DopRepSt (runPairs st ps) := by
  induction ps generalizing st with
  | nil => exact h
  | cons p ps ih =>
    unfold runPairs
    simp only [List.foldl_cons]
    exact ih (fun q hq => hne q (by simp [hq])) _ (fullInv_mergeStep c hc hGl st p.1 p.2 (hne p (by simp)) hf)
      (dopRepSt_mergeStep c st p.1 p.2 (hne p (by simp)) hf h)

/-- **two different not-self-intervened keys of the relabelled event that are copies of one variable are joined by a bidirected
edge in the returned counterfactual graph** -/
theorem cg_dop {ordf : List World → List World} (hord : PermOrder ordf) {G : MG Name} (hG : G.WF)
    (hdl : ∀ e ∈ G.di, e.1 ≠ e.2) (hbl : ∀ e ∈ G.bi, e.1 ≠ e.2) {ev : Event} (hev : EvOK ev)
    (hk : ∀ k ∈ ev.keys, KeyOK G k) {g : MG Var} {nev : Event}
    (h : makeCounterfactualGraph ordf G ev = .ok (g, some nev)) :
    ∀ a ∈ nev.keys, ∀ b ∈ nev.keys, isNotSelfIntervened a = true → isNotSelfIntervened b = true → a ≠ b →
      a.name = b.name → g.BiEdge a b := by
  intro a ha b hb hna hnb hab hname
  obtain ⟨topo, cf', anc, ht, hrep, _, _, hl, hanc, rfl⟩ := cg_run_inv hord hG hdl hbl hev hk h
  have hc := trivCtx_ok G hG topo ht ev
  have hgood := hord.good ev.keys
  have hwcs : ∀ w' ∈ ordf (extractInterventions ev.keys), ConsistentSubs w' := by
    intro w' hw'
    obtain ⟨k, hkk, _, rfl⟩ := (mem_extractInterventions _ w').1 ((hord _).mem_iff.1 hw')
    exact (hk k hkk).subs
  have hfull0 : FullInv (trivCtx G topo ev) (.run (cf0 G (ordf (extractInterventions ev.keys))) ev) :=
    ⟨repInv_cfInit (trivCtx G topo ev) hc hG hdl hbl _ hgood.1 hgood.2 hwcs, ⟨fun _ _ _ => Iff.rfl, hev⟩⟩
  -- every key of the input is a node of the parallel-worlds graph
  have hkeynode : ∀ k ∈ ev.keys, k ∈ (cfInit G (ordf (extractInterventions ev.keys))).nodes := by
    intro k hkk
    by_cases hcf : k.isCf = true
    · have hw : k.ivs ∈ ordf (extractInterventions ev.keys) :=
        (hord _).mem_iff.2 ((mem_extractInterventions _ _).2 ⟨k, hkk, hcf, rfl⟩)
      rw [(hk k hkk).eq_atWorld]
      exact atWorld_mem_cfInit G _ _ (hk k hkk).inG _ hw
    · have hivs : k.ivs = [] := by
        unfold Var.isCf at hcf
        simpa using hcf
      rw [(hk k hkk).eq_atWorld, hivs]
      exact plain_mem_cfInit G _ _ (hk k hkk).inG
  have hdop : DopRep2St (loopResult ordf G ev topo) := by
    unfold loopResult
    rw [mergeLoop_eq]
    refine dopRep2St_runPairs (trivCtx G topo ev) hc hdl _ (allPairs_ne _ hgood.1 hgood.2 topo) _ hfull0 ?_
    intro x y hx hy hnx hny hxy hn
    have hx' : x ∈ (cfInit G (ordf (extractInterventions ev.keys))).nodes := by
      rcases hx with h | h
      · exact h
      · exact hkeynode x h
    have hy' : y ∈ (cfInit G (ordf (extractInterventions ev.keys))).nodes := by
      rcases hy with h | h
      · exact h
      · exact hkeynode y h
    exact dopRep_cfInit G hG hbl _ hgood.1 hgood.2 x hx' y hy' hnx hny hxy hn
  rw [hl] at hdop
  have hwf'' := wf_foldl_addNode nev.keys cf' hrep.wf
  rw [MG.biEdge_subgraph]
  refine ⟨?_, (MG.mem_nodes_subgraph _ _ _).1 (subgraph_ancestors_contains _ hwf'' _ _ hanc a ha),
    (MG.mem_nodes_subgraph _ _ _).1 (subgraph_ancestors_contains _ hwf'' _ _ hanc b hb)⟩
  have := hdop a b (Or.inr ha) (Or.inr hb) hna hnb hab hname
  unfold MG.BiEdge at this ⊢
  rw [bi_foldl_addNode]
  exact this

end Y0.Cf
