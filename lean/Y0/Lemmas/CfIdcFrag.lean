/-
  Y0.Lemmas.CfIdcFrag — soundness of IDC* on the observational no-exchange fragment:

    outcomes and conditions are conjunctions of FACTUAL variables of `G` with unstarred values, no name on both sides, and the
    run takes the path "rule 2 applies to no condition" with a joint ID* estimand that mentions exactly the event's variables.

  Then IDC* returns `est / Σ_{outcome variables} est` where `est` is ID*'s answer for the joint event, and by ID*'s soundness
  on its fragment (`idStarFuel_sound_frag`) + marginalisation (`sumOver_prob`) this is P(outcomes, conditions) / P(conditions).
-/
import Y0.Lemmas.CfFragC
import Y0.Lemmas.CfIdcTerm

namespace Y0
namespace Cf
open Fscm

/-! ### the reading of `e / d` and of `est.conditional(…)` -/

theorem cden_divide (M : Model) (ν : BaseValues) (dom : Name → Nat) (e d x : Expr) (h : divide e d = .ok x) (σ : Valuation) :
    cden M ν dom x σ = cden M ν dom e σ / cden M ν dom d σ := by
  unfold divide at h
  split at h
  · cases h
  · cases h; simp [cden]
  · cases h; simp [cden]
  · cases h
  · cases h
  · cases h; simp [cden]

theorem cden_conditional (M : Model) (ν : BaseValues) (dom : Name → Nat) (est x : Expr) (rs : List Name)
    (h : conditional est rs = .ok x) (σ : Valuation) :
    cden M ν dom x σ = cden M ν dom est σ /
      sumOver dom ((upgradeOrdering ((diff' (dedup' (exprNames est)) rs).map Var.plain)).map (·.name))
        (fun τ => cden M ν dom est τ) σ := by
  unfold conditional at h
  rw [cden_divide M ν dom _ _ _ h σ, cden_sumSafe]

/-! ### dicts -/

theorem Event.ofList_eq_of_nodup (l : List (Var × Iv)) (h : (l.map (·.1)).Nodup) : Event.ofList l = l := by
  unfold Event.ofList
  suffices H : ∀ (acc : Event), ((acc ++ l).map (·.1)).Nodup →
      l.foldl (fun acc p => Event.set acc p.1 p.2) acc = acc ++ l by
    simpa using H [] (by simpa using h)
  clear h
  induction l with
  | nil => intro acc _; simp
  | cons q qs ih =>
    intro acc hnd
    simp only [List.foldl_cons]
    have hq : acc.has q.1 = false := by
      cases hh : acc.has q.1 with
      | false => rfl
      | true =>
        exfalso
        obtain ⟨p, hp, hpq⟩ := Event.has_iff.1 hh
        rw [List.map_append, List.nodup_append] at hnd
        exact hnd.2.2 p.1 (List.mem_map.2 ⟨p, hp, rfl⟩) q.1 (by simp) hpq
    have hset : acc.set q.1 q.2 = acc ++ [q] := by
      unfold Event.set
      rw [if_neg (by simp [hq])]
    rw [hset, ih (acc ++ [q]) (by simpa using hnd)]
    simp

theorem reassoc_id (kordf : List Var → List Var) (new O C : Event) (hO : ∀ p ∈ O, new.has p.1 = true)
    (hC : ∀ p ∈ C, new.has p.1 = true) : newOutcomesAndConditions kordf new O C = (O, C) := by
  have h1 : remainingAndMissing new O = (O, []) := by
    unfold remainingAndMissing
    rw [List.filter_eq_self.2 (fun p hp => hO p hp), List.filter_eq_nil_iff.2 (fun p hp => by simp [hO p hp])]
  have h2 : remainingAndMissing new C = (C, []) := by
    unfold remainingAndMissing
    rw [List.filter_eq_self.2 (fun p hp => hC p hp), List.filter_eq_nil_iff.2 (fun p hp => by simp [hC p hp])]
  unfold newOutcomesAndConditions
  rw [h1, h2]
  simp

/-! ### the fragment -/

/-- the static part: factual variables of `G`, unstarred values, dicts, no name on both sides, a condition exists -/
structure FragC (G : MG Name) (O C : Event) : Prop where
  okeys : O.keys.Nodup
  ckeys : C.keys.Nodup
  plain : ∀ p ∈ O ++ C, p.1 = Var.plain p.1.name
  unst : ∀ p ∈ O ++ C, p.2 = ⟨p.1.name, false⟩
  inG : ∀ p ∈ O ++ C, p.1.name ∈ G.nodes
  disj : ∀ o ∈ O.keys, ∀ c ∈ C.keys, o.name ≠ c.name
  cne : C ≠ []

theorem FragC.keys_nodup {G : MG Name} {O C : Event} (h : FragC G O C) : ((O ++ C).map (·.1)).Nodup := by
  rw [List.map_append, List.nodup_append]
  refine ⟨h.okeys, h.ckeys, ?_⟩
  intro a ha b hb hab
  exact h.disj a ha b hb (by rw [hab])

theorem FragC.ofList {G : MG Name} {O C : Event} (h : FragC G O C) : Event.ofList (O ++ C) = O ++ C :=
  Event.ofList_eq_of_nodup _ h.keys_nodup

/-- the joint event is in the fragment of ID* (the factual world) -/
theorem FragC.frag {G : MG Name} {O C : Event} (h : FragC G O C) : Frag G [] (O ++ C) := by
  refine ⟨⟨⟨h.keys_nodup, ?_⟩, ?_⟩, h.unst, ?_, by intro i hi; cases hi⟩
  · intro p hp
    rw [h.unst p hp]
  · intro k hk
    obtain ⟨v, hv⟩ := (mem_keys_iff _ k).1 hk
    have hp := h.plain _ hv
    simp only at hp
    refine ⟨by rw [hp]; rfl, by rw [hp]; rfl, h.inG _ hv, ?_⟩
    rw [hp]
    intro i hi
    cases hi
  · intro k hk
    obtain ⟨v, hv⟩ := (mem_keys_iff _ k).1 hk
    exact h.plain _ hv

/-! ### the path IDC* takes on the fragment -/

variable (ordf : List World → List World) (dordf kordf : List Var → List Var) (G : MG Name)

/-- on the fragment the counterfactual graph construction merges nothing and the re-association changes nothing; if rule 2
applies to no condition, IDC* is `est.conditional(condition names)` for ID*'s answer `est` to the joint event (or `est` itself
when that is Zero) -/
theorem idcStarFuel_frag_path (hord : PermOrder ordf) {O C : Event} (hfr : FragC G O C)
    (hnox : ∀ cf nev, makeCounterfactualGraph ordf G (O ++ C) = .ok (cf, some nev) →
      firstExchangeable cf O.keys C.keys = .ok none)
    (fuel : Nat) (e : Expr) (h : idcStarFuel ordf dordf kordf G (fuel + 1) O C = .ok e) :
    ∃ est, idStar ordf dordf G (O ++ C) = .ok est ∧
      ((isZeroE est = true ∧ e = est) ∨ (isZeroE est = false ∧ conditional est (C.keys.map (·.name)) = .ok e)) := by
  unfoldIdc at h
  rw [hfr.ofList] at h
  cases h1 : line1 (idStar ordf dordf G C) with
  | error err => rw [h1] at h; cases h
  | ok u =>
    rw [h1] at h
    simp only at h
    cases hcg : makeCounterfactualGraph ordf G (O ++ C) with
    | error err => rw [hcg] at h; cases h
    | ok v =>
      rw [hcg] at h
      simp only at h
      rcases v with ⟨cf, new⟩
      have hkw : KeysIn [] (O ++ C) := hfr.frag.keysIn
      have hws := worlds_of_keysIn_nil hord hkw
      cases new with
      | none =>
        exfalso
        obtain ⟨topo, _, hl⟩ := cg_none_shape hcg
        have hl' : loopResult ordf G (O ++ C) topo = .run (cfInit G []) (O ++ C) := by
          unfold loopResult
          rw [hws, mergeLoop_eq, allPairs_nil]
          rfl
        rw [hl] at hl'
        cases hl'
      | some nev =>
        simp only at h
        obtain ⟨topo, cf', anc, _, hl, _, _⟩ := cg_some_shape hcg
        have hl' : loopResult ordf G (O ++ C) topo = .run (cfInit G []) (O ++ C) := by
          unfold loopResult
          rw [hws, mergeLoop_eq, allPairs_nil]
          rfl
        rw [hl] at hl'
        simp only [St.run.injEq] at hl'
        obtain ⟨_, hnev⟩ := hl'
        subst hnev
        have hre : newOutcomesAndConditions kordf (O ++ C) O C = (O, C) := by
          apply reassoc_id
          · intro p hp
            exact Event.has_iff.2 ⟨p, by simp [hp], rfl⟩
          · intro p hp
            exact Event.has_iff.2 ⟨p, by simp [hp], rfl⟩
        rw [hre] at h
        simp only at h
        rw [hnox cf _ hcg] at h
        simp only at h
        cases hest : idStar ordf dordf G (Event.ofList (O ++ C)) with
        | error err => rw [hest] at h; cases h
        | ok est =>
          rw [hest] at h
          simp only at h
          rw [hfr.ofList] at hest
          refine ⟨est, hest, ?_⟩
          have hce : C.isEmpty = false := by
            cases hC : C with
            | nil => exact absurd hC hfr.cne
            | cons _ _ => rfl
          rw [hce] at h
          simp only [Bool.false_or] at h
          cases hz : isZeroE est with
          | true =>
            rw [hz] at h
            simp only [if_true, Except.ok.injEq] at h
            exact Or.inl ⟨rfl, h.symm⟩
          | false =>
            rw [hz] at h
            simp only [Bool.false_eq_true, if_false] at h
            exact Or.inr ⟨rfl, h⟩

/-! ### the value -/

theorem mem_names_upgrade_plain (l : List Name) (V : Name) :
    V ∈ (upgradeOrdering (l.map Var.plain)).map (·.name) ↔ V ∈ l := by
  simp only [List.mem_map, mem_upgradeOrdering]
  constructor
  · rintro ⟨x, ⟨a, ha, rfl⟩, rfl⟩
    exact ha
  · intro h
    exact ⟨Var.plain V, ⟨V, h, rfl⟩, rfl⟩

theorem nodup_names_upgrade_plain (l : List Name) : ((upgradeOrdering (l.map Var.plain)).map (·.name)).Nodup := by
  apply List.Nodup.map_on _ (nodup_upgradeOrdering _)
  intro x hx y hy hxy
  obtain ⟨a, _, rfl⟩ := List.mem_map.1 ((mem_upgradeOrdering _ _).1 hx)
  obtain ⟨b, _, rfl⟩ := List.mem_map.1 ((mem_upgradeOrdering _ _).1 hy)
  have : a = b := hxy
  rw [this]

/-- the joint event of the fragment, read under the valuation `τ`, is the conjunction `⋀ V = τ V` in the factual world -/
theorem probEvent_fragC (M : Model) (ν : BaseValues) {G : MG Name} {O C : Event} (hfr : FragC G O C) (τ : Valuation) :
    probEvent M (nuOf ν τ) (O ++ C) = prob M (((O ++ C).keys.map (·.name)).map fun V => ⟨V, [], τ V⟩) := by
  unfold probEvent Event.keys
  rw [List.map_map, List.map_map]
  congr 1
  apply List.map_congr_left
  intro p hp
  have h1 := hfr.plain p hp
  have h2 := hfr.unst p hp
  simp only [Function.comp, conjunctOf]
  rw [h2]
  have : p.1.ivs = [] := by rw [h1]; rfl
  rw [this]
  simp [worldOf, ivValue, nuOf]

/-- **IDC* is sound on the observational no-exchange fragment.** -/
theorem idcStarFuel_sound_fragC (M : Model) (ν : BaseValues) (dom : Name → Nat) (hM : Compatible M G)
    (hn : ∀ pmf ∈ M.noise, pmf.sum = 1) (hdom : ∀ v ps us, M.f v ps us < dom v) (hG : G.WF)
    (hdl : ∀ e ∈ G.di, e.1 ≠ e.2) (hbl : ∀ e ∈ G.bi, e.1 ≠ e.2)
    (hord : PermOrder ordf) (hdo : PermDistrict dordf) {O C : Event} (hfr : FragC G O C)
    (hnox : ∀ cf nev, makeCounterfactualGraph ordf G (O ++ C) = .ok (cf, some nev) →
      firstExchangeable cf O.keys C.keys = .ok none)
    (hnames : ∀ est, idStar ordf dordf G (O ++ C) = .ok est →
      ∀ n, n ∈ exprNames est ↔ n ∈ (O ++ C).keys.map (·.name))
    (fuel : Nat) (e : Expr) (h : idcStarFuel ordf dordf kordf G (fuel + 1) O C = .ok e) :
    cden M ν dom e (fun n => ν n false) = probEvent M ν (O ++ C) / probEvent M ν C := by
  obtain ⟨est, hest, hcase⟩ := idcStarFuel_frag_path ordf dordf kordf G hord hfr hnox fuel e h
  have hs : ∀ σ, cden M ν dom est σ = probEvent M (nuOf ν σ) (O ++ C) := by
    unfold idStar at hest
    exact idStarFuel_sound_frag M ν dom hM hn hdom hG hdl hbl hord hdo _ [] (O ++ C) est hfr.frag hest
  have hν0 : nuOf ν (fun n => ν n false) = ν := by
    funext n b
    cases b <;> rfl
  rcases hcase with ⟨hz, rfl⟩ | ⟨_, hc⟩
  · -- ID* says the joint event is impossible
    have h0 : cden M ν dom e (fun n => ν n false) = 0 := by
      cases e <;> simp [isZeroE] at hz
      simp [cden]
    have := hs (fun n => ν n false)
    rw [hν0, h0] at this
    rw [h0, ← this, zero_div]
  · rw [cden_conditional M ν dom est e _ hc, hs, hν0]
    congr 1
    -- the normaliser: Σ over the outcome variables of the joint = P(conditions)
    set T := (O ++ C).keys.map (·.name) with hT
    set rs := (upgradeOrdering ((diff' (dedup' (exprNames est)) (C.keys.map (·.name))).map Var.plain)).map (·.name) with hrs
    have hmem : ∀ V, V ∈ rs ↔ V ∈ T ∧ V ∉ C.keys.map (·.name) := by
      intro V
      rw [hrs, mem_names_upgrade_plain]
      simp only [diff', List.mem_filter, mem_dedup', hnames est hest V, decide_eq_true_eq, Bool.not_eq_true', decide_eq_false_iff_not]
    rw [sumOver_congr dom rs _ (fun τ => prob M (T.map fun V => ⟨V, [], τ V⟩))
      (fun τ => by rw [hs τ, probEvent_fragC M ν hfr τ])]
    have hbound : ∀ r ∈ rs, ∀ (σ : Valuation) (u : NoisePoint), solve M u [] r < dom r := by
      intro r hr σ u
      have hrT := ((hmem r).1 hr).1
      obtain ⟨k, hk, hkn⟩ := List.mem_map.1 hrT
      obtain ⟨v, hv⟩ := (mem_keys_iff _ k).1 hk
      have hro : r ∈ M.order := by
        rw [← hkn]
        exact (hM.perm.mem_iff).2 (hfr.inG _ hv)
      rw [solve_unforced M hM.topoOrder u [] r hro (by simp [forced])]
      exact hdom _ _ _
    rw [sumOver_prob M dom T (fun _ => []) rs hbound (nodup_names_upgrade_plain _) (fun r hr => ((hmem r).1 hr).1)
      (fun _ _ _ _ => rfl)]
    unfold probEvent
    apply prob_congr_conj
    · intro c hc'
      obtain ⟨V, hV, rfl⟩ := List.mem_map.1 hc'
      rw [List.mem_filter] at hV
      have hVC : V ∈ C.keys.map (·.name) := by
        by_contra hno
        have := (hmem V).2 ⟨hV.1, hno⟩
        simp [this] at hV
      obtain ⟨k, hk, rfl⟩ := List.mem_map.1 hVC
      obtain ⟨v, hv⟩ := (mem_keys_iff _ k).1 hk
      refine ⟨conjunctOf ν (k, v), List.mem_map.2 ⟨(k, v), hv, rfl⟩, fun u => ?_⟩
      have h1 := hfr.plain (k, v) (by simp [hv])
      have h2 := hfr.unst (k, v) (by simp [hv])
      simp only at h1 h2
      have hiv : k.ivs = [] := by rw [h1]; rfl
      simp [conjunctOf, h2, hiv, worldOf, ivValue]
    · intro c hc'
      obtain ⟨p, hp, rfl⟩ := List.mem_map.1 hc'
      have hpk : p.1 ∈ C.keys := (mem_keys_iff _ _).2 ⟨p.2, hp⟩
      refine ⟨⟨p.1.name, [], ν p.1.name false⟩, ?_, fun u => ?_⟩
      · refine List.mem_map.2 ⟨p.1.name, ?_, rfl⟩
        rw [List.mem_filter]
        refine ⟨List.mem_map.2 ⟨p.1, ?_, rfl⟩, ?_⟩
        · exact (mem_keys_iff _ _).2 ⟨p.2, by simp [hp]⟩
        · simp only [decide_eq_true_eq]
          intro hr
          exact ((hmem _).1 hr).2 (List.mem_map.2 ⟨p.1, hpk, rfl⟩)
      · have h1 := hfr.plain p (by simp [hp])
        have h2 := hfr.unst p (by simp [hp])
        have hiv : p.1.ivs = [] := by rw [h1]; rfl
        simp [conjunctOf, h2, hiv, worldOf, ivValue]

end Cf
end Y0
