/-
  Y0.Lemmas.CtfTrCondSem — the semantic core of Algorithm 3 (ctfTR), free of any syntax of the DSL, over the functional
  SCMs of Y0/Spec/Fscm.lean.

  An *item* `(n, s)` is the vertex `n` looked at in the world `s`.  `I` lists the members of the ancestral sets of the
  roots of a conditional query (each member in the FULL world of its root), `R ⊆ I` the roots themselves; `Rc ⊆ R` are the
  conditions.  Every mechanism argument `p` of a member `(n, s)` is
    * forced by `s` to the value the valuation `σ` gives it (a literal subscript of the root), or
    * the vertex of a CONDITION whose value in `s` is its value in its own world (an edge cut by Def. 4.2: the composition
      axiom turns the observed value into an intervention), or
    * itself a member `(p, s)`.
  `oneWorld`: two members with the same vertex have the same forced arguments.  Then

    `CondSem.consistent`   at a noise point where the roots hold, members with the same vertex take the same value;
    `CondSem.local_iff`    the local (ctf-factor) form of the joint event;
    `CondSem.prob_roots`   `P(roots = σ) = Σ_{V(I) ∖ V(R)} Q[V(I)]`.
-/
import Y0.Lemmas.CtfCompose
import Y0.Lemmas.CtfTrCfactor
import Y0.Lemmas.CtfTrFactorValue

namespace Y0.CtfTr
open Fscm Ctf

abbrev Item := Name × Do

/-- every root takes the value `σ` gives its vertex -/
def rootsHold (M : Model) (σ : Y0.Val) (R : List Item) (u : NoisePoint) : Bool :=
  R.all fun j => solve M u j.2 j.1 == σ j.1

/-- every mechanism of `N`, fed `τ`, returns `τ` -/
def localAll (M : Model) (τ : Y0.Val) (N : List Name) (u : NoisePoint) : Bool :=
  N.all fun n => M.mech u τ n == τ n

structure CondSem (M : Model) (σ : Y0.Val) (I R Rc : List Item) (range : List Name) : Prop where
  nodup : M.order.Nodup
  topo : ∀ l₁ v l₂, M.order = l₁ ++ v :: l₂ → ∀ p ∈ M.pa v, p ∈ l₁
  mem : ∀ i ∈ I, i.1 ∈ M.order ∧ forced i.2 i.1 = none
  root : ∀ j ∈ R, j ∈ I
  cond : ∀ j ∈ Rc, j ∈ R
  range_iff : ∀ n, n ∈ range ↔ (∃ i ∈ I, i.1 = n) ∧ ¬ ∃ j ∈ R, j.1 = n
  lit : ∀ i ∈ I, ∀ p ∈ M.pa i.1, ∀ x, forced i.2 p = some x → x = σ p ∧ p ∉ range
  parents : ∀ i ∈ I, ∀ p ∈ M.pa i.1, forced i.2 p = none →
      (∃ j ∈ Rc, j.1 = p ∧ ∀ u, solve M u i.2 p = solve M u j.2 p) ∨ (p, i.2) ∈ I
  oneWorld : ∀ i ∈ I, ∀ j ∈ I, i.1 = j.1 → ∀ p ∈ M.pa i.1, (forced i.2 p).isSome = (forced j.2 p).isSome

namespace CondSem
variable {M : Model} {σ : Y0.Val} {I R Rc : List Item} {range : List Name}

theorem pa_order (h : CondSem M σ I R Rc range) (i : Item) (hi : i ∈ I) (p : Name) (hp : p ∈ M.pa i.1) :
    p ∈ M.order :=
  mem_order_of_pa M h.topo i.1 (h.mem i hi).1 p hp

theorem root_holds (u : NoisePoint) (hE : rootsHold M σ R u = true) (j : Item) (hj : j ∈ R) :
    solve M u j.2 j.1 = σ j.1 := by
  unfold rootsHold at hE
  rw [List.all_eq_true] at hE
  simpa using hE j hj

theorem rootsHold_sub (u : NoisePoint) (R R' : List Item) (hsub : ∀ j ∈ R', j ∈ R) (hE : rootsHold M σ R u = true) :
    rootsHold M σ R' u = true := by
  unfold rootsHold at hE ⊢
  rw [List.all_eq_true] at hE ⊢
  exact fun j hj => hE j (hsub j hj)

/-- **consistency**: at a noise point where the CONDITIONS hold, two members with the same vertex take the same value -/
theorem consistent (h : CondSem M σ I R Rc range) (u : NoisePoint) (hE : rootsHold M σ Rc u = true) :
    ∀ i ∈ I, ∀ j ∈ I, i.1 = j.1 → solve M u i.2 i.1 = solve M u j.2 j.1 := by
  have key : ∀ (m : Nat) (l₁ : List Name) (n : Name) (l₂ : List Name), M.order = l₁ ++ n :: l₂ → l₁.length = m →
      ∀ i ∈ I, ∀ j ∈ I, i.1 = n → j.1 = n → solve M u i.2 n = solve M u j.2 n := by
    intro m
    induction m using Nat.strong_induction_on with
    | _ m ih =>
      intro l₁ n l₂ hord hlen i hi j hj hin hjn
      have hio := h.mem i hi
      have hjo := h.mem j hj
      rw [hin] at hio
      rw [hjn] at hjo
      rw [solve_unforced M u i.2 n h.nodup h.topo hio.1 hio.2, solve_unforced M u j.2 n h.nodup h.topo hjo.1 hjo.2]
      congr 1
      apply List.map_congr_left
      intro p hp
      have hpi : p ∈ M.pa i.1 := by rw [hin]; exact hp
      have hpj : p ∈ M.pa j.1 := by rw [hjn]; exact hp
      have hpo : p ∈ M.order := h.pa_order i hi p hpi
      have how := h.oneWorld i hi j hj (by rw [hin, hjn]) p hpi
      -- position of `p`
      have hp₁ : p ∈ l₁ := h.topo l₁ n l₂ hord p hp
      obtain ⟨a, b, hab⟩ := List.append_of_mem hp₁
      have hord' : M.order = a ++ p :: (b ++ n :: l₂) := by rw [hord, hab]; simp
      have hlt : a.length < m := by rw [← hlen, hab]; simp
      have IH := ih a.length hlt a p _ hord' rfl
      cases hfi : forced i.2 p with
      | some x =>
        cases hfj : forced j.2 p with
        | some y =>
          rw [solve_forced M u i.2 p x hpo hfi, solve_forced M u j.2 p y hpo hfj,
            (h.lit i hi p hpi x hfi).1, (h.lit j hj p hpj y hfj).1]
        | none => rw [hfi, hfj] at how; cases how
      | none =>
        cases hfj : forced j.2 p with
        | some y => rw [hfi, hfj] at how; cases how
        | none =>
          rcases h.parents i hi p hpi hfi with ⟨k, hk, hkp, hki⟩ | hmi
          · rcases h.parents j hj p hpj hfj with ⟨k', hk', hkp', hkj⟩ | hmj
            · rw [hki u, hkj u]
              have e1 := root_holds u hE k hk
              have e2 := root_holds u hE k' hk'
              rw [hkp] at e1
              rw [hkp'] at e2
              rw [e1, e2]
            · rw [hki u]
              exact IH k (h.root k (h.cond k hk)) (p, j.2) hmj hkp rfl
          · rcases h.parents j hj p hpj hfj with ⟨k', hk', hkp', hkj⟩ | hmj
            · rw [hkj u]
              exact IH (p, i.2) hmi k' (h.root k' (h.cond k' hk')) rfl hkp'
            · exact IH (p, i.2) hmi (p, j.2) hmj rfl rfl
  intro i hi j hj hij
  obtain ⟨l₁, l₂, hord⟩ := List.append_of_mem (h.mem i hi).1
  have := key l₁.length l₁ i.1 l₂ hord rfl i hi j hj rfl hij.symm
  rw [this, hij]

/-- from the local equations to the values of all members -/
theorem values_of_local (h : CondSem M σ I R Rc range) (u : NoisePoint) (τ : Y0.Val)
    (hτ : ∀ n, n ∉ range → τ n = σ n)
    (hloc : ∀ i ∈ I, M.mech u τ i.1 = τ i.1) :
    ∀ i ∈ I, solve M u i.2 i.1 = τ i.1 := by
  have key : ∀ (m : Nat) (l₁ : List Name) (n : Name) (l₂ : List Name), M.order = l₁ ++ n :: l₂ → l₁.length = m →
      ∀ i ∈ I, i.1 = n → solve M u i.2 n = τ n := by
    intro m
    induction m using Nat.strong_induction_on with
    | _ m ih =>
      intro l₁ n l₂ hord hlen i hi hin
      have hio := h.mem i hi
      rw [hin] at hio
      have hl := hloc i hi
      rw [hin] at hl
      rw [solve_unforced M u i.2 n h.nodup h.topo hio.1 hio.2, ← hl]
      unfold Model.mech
      congr 1
      apply List.map_congr_left
      intro p hp
      have hpi : p ∈ M.pa i.1 := by rw [hin]; exact hp
      have hpo : p ∈ M.order := h.pa_order i hi p hpi
      have hp₁ : p ∈ l₁ := h.topo l₁ n l₂ hord p hp
      obtain ⟨a, b, hab⟩ := List.append_of_mem hp₁
      have hord' : M.order = a ++ p :: (b ++ n :: l₂) := by rw [hord, hab]; simp
      have hlt : a.length < m := by rw [← hlen, hab]; simp
      have IH := ih a.length hlt a p _ hord' rfl
      cases hfi : forced i.2 p with
      | some x =>
        obtain ⟨hx, hr⟩ := h.lit i hi p hpi x hfi
        rw [solve_forced M u i.2 p x hpo hfi, hx, hτ p hr]
      | none =>
        rcases h.parents i hi p hpi hfi with ⟨k, hk, hkp, hki⟩ | hmi
        · rw [hki u]
          exact IH k (h.root k (h.cond k hk)) hkp
        · exact IH (p, i.2) hmi rfl
  intro i hi
  obtain ⟨l₁, l₂, hord⟩ := List.append_of_mem (h.mem i hi).1
  exact key l₁.length l₁ i.1 l₂ hord rfl i hi rfl

/-- from the values of all members to the local equations -/
theorem local_of_values (h : CondSem M σ I R Rc range) (u : NoisePoint) (τ : Y0.Val)
    (hτ : ∀ n, n ∉ range → τ n = σ n)
    (hval : ∀ i ∈ I, solve M u i.2 i.1 = τ i.1) :
    ∀ i ∈ I, M.mech u τ i.1 = τ i.1 := by
  intro i hi
  have hio := h.mem i hi
  rw [← hval i hi, solve_unforced M u i.2 i.1 h.nodup h.topo hio.1 hio.2]
  unfold Model.mech
  congr 1
  apply List.map_congr_left
  intro p hp
  have hpo : p ∈ M.order := h.pa_order i hi p hp
  cases hfi : forced i.2 p with
  | some x =>
    obtain ⟨hx, hr⟩ := h.lit i hi p hp x hfi
    rw [solve_forced M u i.2 p x hpo hfi, hx, hτ p hr]
  | none =>
    rcases h.parents i hi p hp hfi with ⟨k, hk, hkp, hki⟩ | hmi
    · rw [hki u]
      have := hval k (h.root k (h.cond k hk))
      rw [hkp] at this
      exact this.symm
    · exact (hval (p, i.2) hmi).symm

/-- **the local form of the joint event**: for a valuation `τ` that agrees with `σ` off the summation range, every
mechanism of `V(I)` fed `τ` returns `τ` exactly when the roots hold and every member with a summed vertex takes the value
`τ` gives it -/
theorem local_iff (h : CondSem M σ I R Rc range) (u : NoisePoint) (τ : Y0.Val)
    (hτ : ∀ n, n ∉ range → τ n = σ n) (N : List Name) (hN : ∀ n, n ∈ N ↔ ∃ i ∈ I, i.1 = n) :
    localAll M τ N u = true ↔
      (rootsHold M σ R u = true ∧ ∀ i ∈ I, i.1 ∈ range → solve M u i.2 i.1 = τ i.1) := by
  unfold localAll
  rw [List.all_eq_true]
  constructor
  · intro hl
    have hloc : ∀ i ∈ I, M.mech u τ i.1 = τ i.1 := by
      intro i hi
      simpa using hl i.1 ((hN i.1).2 ⟨i, hi, rfl⟩)
    have hv := h.values_of_local u τ hτ hloc
    refine ⟨?_, fun i hi _ => hv i hi⟩
    unfold rootsHold
    rw [List.all_eq_true]
    intro j hj
    have hjr : j.1 ∉ range := fun hr => ((h.range_iff j.1).1 hr).2 ⟨j, hj, rfl⟩
    rw [hv j (h.root j hj), hτ j.1 hjr]
    simp
  · rintro ⟨hE, hr⟩ n hn
    obtain ⟨i, hi, rfl⟩ := (hN n).1 hn
    have hval : ∀ i ∈ I, solve M u i.2 i.1 = τ i.1 := by
      intro i hi
      by_cases hir : i.1 ∈ range
      · exact hr i hi hir
      · have : ∃ j ∈ R, j.1 = i.1 := by
          by_contra hne
          exact hir ((h.range_iff i.1).2 ⟨⟨i, hi, rfl⟩, hne⟩)
        obtain ⟨j, hj, hji⟩ := this
        rw [h.consistent u (rootsHold_sub u R Rc h.cond hE) i hi j (h.root j hj) hji.symm, root_holds u hE j hj, hji,
          hτ i.1 hir]
    simpa using h.local_of_values u τ hτ hval i hi

end CondSem

/-! ### marginalisation: `P(roots) = Σ_{V(I) ∖ V(R)} Q[V(I)]` -/

/-- the world in which the first member naming `n` looks at it -/
def worldAt (I : List Item) (n : Name) : Do := ((I.find? fun i => i.1 == n).map (·.2)).getD []

theorem worldAt_mem (I : List Item) (n : Name) (h : ∃ i ∈ I, i.1 = n) : (n, worldAt I n) ∈ I := by
  obtain ⟨i, hi, hin⟩ := h
  unfold worldAt
  cases hf : I.find? (fun i => i.1 == n) with
  | none =>
    rw [List.find?_eq_none] at hf
    exact absurd (by simpa using hin) (hf i hi)
  | some j =>
    have hj := List.mem_of_find?_eq_some hf
    have hjn : j.1 = n := by simpa using List.find?_some hf
    simp only [Option.map_some, Option.getD_some]
    rw [← hjn]
    exact hj

theorem forced_none_of_not_mem (r : Do) (n : Name) (h : n ∉ r.map (·.1)) : forced r n = none := by
  unfold forced
  have : r.find? (fun p => decide (p.1 = n)) = none := by
    rw [List.find?_eq_none]
    intro p hp hpn
    exact h (List.mem_map.2 ⟨p, hp, by simpa using hpn⟩)
  rw [this]
  rfl

namespace CondSem
variable {M : Model} {σ : Y0.Val} {I R Rc : List Item} {range : List Name}

/-- **`P(roots = σ) = Σ_{V(I) ∖ V(R)} P(every mechanism of V(I) returns τ)`** -/
theorem prob_roots (h : CondSem M σ I R Rc range) (card : Name → Nat) (hcard : ∀ v pa lat, M.f v pa lat < card v)
    (hrn : range.Nodup) (N : List Name) (hN : ∀ n, n ∈ N ↔ ∃ i ∈ I, i.1 = n) :
    wsum M.noise (fun u => ind (rootsHold M σ R u)) =
      sumVars card range (fun τ => wsum M.noise (fun u => ind (localAll M τ N u))) σ := by
  let X : Name → NoisePoint → Nat := fun n u => solve M u (worldAt I n) n
  have hitem : ∀ n ∈ range, (n, worldAt I n) ∈ I := fun n hn => worldAt_mem I n ((h.range_iff n).1 hn).1
  have hX : ∀ x ∈ range, ∀ u, X x u < card x := by
    intro x hx u
    have hm := h.mem (x, worldAt I x) (hitem x hx)
    show solve M u (worldAt I x) x < card x
    rw [solve_unforced M u _ x h.nodup h.topo hm.1 hm.2]
    exact hcard _ _ _
  rw [wsum_marginals M.noise card X range hX]
  apply sumAssign_eq_sumVars card range hrn _ _ σ
  intro r hr
  apply wsum_congr
  intro u
  rw [← ind_and]
  apply ind_congr
  have hnd : (r.map (·.1)).Nodup := by rw [hr]; exact hrn
  have hτ : ∀ n, n ∉ range → overrideVal σ r n = σ n := by
    intro n hn
    unfold overrideVal
    rw [forced_none_of_not_mem r n (by rw [hr]; exact hn)]
    rfl
  rw [Bool.and_eq_true, h.local_iff u (overrideVal σ r) hτ N hN, assignHolds_iff X r hnd u]
  constructor
  · rintro ⟨hE, ha⟩
    refine ⟨hE, fun i hi hir => ?_⟩
    obtain ⟨k, hk⟩ := forced_of_mem_keys r i.1 (by rw [hr]; exact hir)
    have hx := ha i.1 k hk
    have hc := h.consistent u (rootsHold_sub u R Rc h.cond hE) i hi (i.1, worldAt I i.1) (hitem i.1 hir) rfl
    rw [hc]
    show solve M u (worldAt I i.1) i.1 = overrideVal σ r i.1
    unfold overrideVal
    rw [hk]
    exact hx
  · rintro ⟨hE, hv⟩
    refine ⟨hE, fun n k hk => ?_⟩
    have hnr : n ∈ range := by
      rw [← hr]
      exact List.mem_map.2 ⟨(n, k), forced_some_mem r n k hk, rfl⟩
    have := hv (n, worldAt I n) (hitem n hnr) hnr
    show solve M u (worldAt I n) n = k
    rw [this]
    unfold overrideVal
    rw [hk]
    rfl

end CondSem

end Y0.CtfTr
