/-
  Y0.Lemmas.CfMwA — MULTI-WORLD events, part A: what `make_counterfactual_graph(G, ev) = (g, nev)` guarantees IN A GIVEN functional SCM
  `M` (the invariants of C18's proof, read off at the end of the merge loop for the model at hand instead of the trivial model
  the termination argument uses):

  * `repSem` : every parent `p` (in `M`) of a non-self-intervened node `n` of `g` is represented by a parent node `x` of `n` named
               `p`, and `x` takes the value `p` takes in the world of `n` — at every noise point where the conjuncts of the ORIGINAL
               event about the variables processed before `p` hold;
  * `sup`    : the relabelled event and the original event hold at the same noise points, also when restricted to a set of
               variable names closed under "processed before".
-/
import Y0.Lemmas.CfFragC

namespace Y0.Cf
open Relation MG Fscm

structure MWFacts (M : Model) (ν : BaseValues) (G : MG Name) (topo : List Name) (ev : Event) (g : MG Var) (nev : Event) :
    Prop where
  wf : g.WF
  nodeOK : ∀ x ∈ g.nodes, KeyOK G x
  repSem : ∀ n ∈ g.nodes, isNotSelfIntervened n = true → ∀ p ∈ M.pa n.name,
    ∃ x, (x, n) ∈ g.di ∧ x.name = p ∧
      ∀ u, allHoldN M ν (Before topo p) ev u → valueOf M ν u x = solve M u (worldOf ν n.ivs) p
  repG : ∀ n ∈ g.nodes, isNotSelfIntervened n = true → ∀ m, (m, n.name) ∈ G.di → ∃ x, (x, n) ∈ g.di ∧ x.name = m
  sup : ∀ N : Name → Prop, (∀ v, N v → ∀ n, Before topo v n → N n) → ∀ u, allHoldN M ν N nev u ↔ allHoldN M ν N ev u
  nevOK : EvOK nev
  keysNodes : ∀ k ∈ nev.keys, k ∈ g.nodes
  proj : EdgeProj G g
  parentsFirst : ∀ v, ∀ p ∈ M.pa v, Before topo v p

theorem mw_facts (M : Model) (ν : BaseValues) (hν : ν.Distinct) {G : MG Name} (hM : Compatible M G) (hG : G.WF)
    (hdl : ∀ e ∈ G.di, e.1 ≠ e.2) (hbl : ∀ e ∈ G.bi, e.1 ≠ e.2) {ordf : List World → List World} (hord : PermOrder ordf)
    {ev : Event} (hev : GoodEv G ev) {g : MG Var} {nev : Event}
    (h : makeCounterfactualGraph ordf G ev = .ok (g, some nev)) : ∃ topo, MWFacts M ν G topo ev g nev := by
  obtain ⟨topo, cf', anc, ht, hl, ha, hg⟩ := cg_some_shape h
  refine ⟨topo, ?_⟩
  let c : Ctx := ⟨M, ν, G, topo, ev⟩
  have hpf := parentsFirst_of_topologicalSort hM hG ht
  have hc : c.OK := ⟨hM, hν, hpf⟩
  have hgood := hord.good ev.keys
  have hmemw : ∀ w ∈ ordf (extractInterventions ev.keys), ∃ k ∈ ev.keys, k.isCf = true ∧ k.ivs = w :=
    fun w hw => (mem_extractInterventions _ w).1 ((hord _).mem_iff.1 hw)
  have hwcs : ∀ w ∈ ordf (extractInterventions ev.keys), ConsistentSubs w := by
    intro w hw
    obtain ⟨k, hkk, _, rfl⟩ := hmemw w hw
    exact (hev.keys k hkk).subs
  have hperm : ∀ n, n ∈ G.nodes → n ∈ M.order := fun n hn => (hM.perm.mem_iff).2 hn
  have hinit : CombInv c (.run (cf0 G (ordf (extractInterventions ev.keys))) ev) := by
    refine ⟨⟨repInv_cfInit c hc hG hdl hbl _ hgood.1 hgood.2 hwcs, ⟨fun _ _ _ => Iff.rfl, hev.ok⟩⟩, ?_, ?_⟩
    · intro k hkk
      exact ⟨(hev.keys k hkk).star, (hev.keys k hkk).notIv, hperm _ (hev.keys k hkk).inG, (hev.keys k hkk).subs⟩
    · intro k hkk
      left
      show k ∈ (cfInit G _).nodes
      by_cases hcf : k.isCf = true
      · have hw : k.ivs ∈ ordf (extractInterventions ev.keys) :=
          (hord _).mem_iff.2 ((mem_extractInterventions _ _).2 ⟨k, hkk, hcf, rfl⟩)
        rw [(hev.keys k hkk).eq_atWorld]
        exact atWorld_mem_cfInit G _ _ (hev.keys k hkk).inG _ hw
      · have hivs : k.ivs = [] := by
          unfold Var.isCf at hcf
          simpa using hcf
        rw [(hev.keys k hkk).eq_atWorld, hivs]
        exact plain_mem_cfInit G _ _ (hev.keys k hkk).inG
  have hfin : CombInv c (loopResult ordf G ev topo) := by
    unfold loopResult
    rw [mergeLoop_eq]
    exact combInv_runPairs c hc hdl _ (allPairs_ne _ hgood.1 hgood.2 topo) _ hinit
  rw [hl] at hfin
  obtain ⟨⟨hrep, hsup⟩, hkey⟩ := hfin
  subst hg
  have hwf'' := wf_foldl_addNode nev.keys cf' hrep.wf
  have spec := ancestorsInclusive_spec _ hwf'' _ _ ha
  have hnodeOK := cg_nodeOK hord hG hdl hbl hev.ok hev.keys h
  have hproj'' : EdgeProj G (nev.keys.foldl MG.addNode cf') := by
    intro a b hab
    exact hrep.proj a b ((diEdge_foldl_addNode _ _ _ _).1 hab)
  refine ⟨wf_subgraph _ _, hnodeOK, ?_, cg_rep hord hG hdl hbl hev.ok hev.keys h, ?_, hsup.ok, ?_, ?_, hpf⟩
  · -- semantic representation of the parents
    intro n hn hnsi p hp
    rw [MG.mem_nodes_subgraph] at hn
    have hn' : n ∈ cf'.nodes := by
      obtain ⟨s, hs, hns⟩ := (spec n).1 hn
      have hnn : n ∈ (nev.keys.foldl MG.addNode cf').nodes := by
        rcases ReflTransGen.cases_head hns with rfl | ⟨y, hxy, _⟩
        · exact (mem_nodes_foldl_addNode _ _ _).2 (Or.inr hs)
        · exact (hwf''.di_mem _ hxy).1
      rcases (mem_nodes_foldl_addNode _ _ _).1 hnn with hx' | hx'
      · exact hx'
      · rcases hkey.inNodes n hx' with h1 | h1 | h1
        · exact h1
        · rw [hnsi] at h1; cases h1
        · have : p ∈ c.M.pa n.name := hp
          rw [h1] at this; cases this
    obtain ⟨x, hx, hxn, hval⟩ := hrep.rep n hn' hnsi p hp
    refine ⟨x, ?_, hxn, hval⟩
    have hx'' : (nev.keys.foldl MG.addNode cf').DiEdge x n := (diEdge_foldl_addNode _ _ _ _).2 hx
    have hxa : x ∈ anc := by
      obtain ⟨s, hs, hns⟩ := (spec n).1 hn
      exact (spec x).2 ⟨s, hs, ReflTransGen.head hx'' hns⟩
    exact (MG.diEdge_subgraph _ _ _ _).2 ⟨hx'', hxa, hn⟩
  · exact hsup.sup
  · intro k hkk
    exact subgraph_ancestors_contains _ hwf'' _ _ ha k hkk
  · intro a b hab
    exact hproj'' a b ((MG.diEdge_subgraph _ _ _ _).1 hab).1

end Y0.Cf
