/-
  Y0.Lemmas.FscmSpaceSum — the noise space of a functional SCM (`Fscm.space`: a list of positional tuples with weights)
  re-indexed as an iterated sum over NAMED variables (`sumVars`, Y0/Spec/Prob.lean):

     Σ_{(u,w) ∈ space ns} w · F u  =  Σ_{τ over the names o, o+1, …} Π_j ns[j][τ (o+j)] · F (τ o, τ (o+1), …)

  This is the bridge between the two ways probabilities are written in the specifications (Y0/Spec/Fscm.lean vs
  Y0/Spec/Scm.lean).
-/
import Y0.Lemmas.FscmEnv

namespace Y0
namespace Fscm
open Finset

/-- two integrands that agree on every valuation reachable by the sum give the same sum -/
theorem sumVars_congr_outside (card : Name → Nat) : ∀ (xs : List Name) (f g : Val → Rat) (σ : Val),
    (∀ τ, (∀ y, y ∉ xs → τ y = σ y) → f τ = g τ) → sumVars card xs f σ = sumVars card xs g σ
  | [], f, g, σ, h => h σ (fun _ _ => rfl)
  | x :: xs, f, g, σ, h => by
    simp only [sumVars]
    apply sumVar_congr
    intro k _
    apply sumVars_congr_outside card xs f g
    intro τ hτ
    apply h
    intro y hy
    simp only [List.mem_cons, not_or] at hy
    rw [hτ y hy.2, Val.set_other _ _ hy.1]

/-- congruence of sums on the valuations the sum actually visits: the summed variables take values in range, the others
are untouched -/
theorem sumVars_congr_reach (card : Name → Nat) : ∀ (xs : List Name) (f g : Val → Rat) (σ : Val),
    (∀ τ, (∀ y, y ∉ xs → τ y = σ y) → (∀ y ∈ xs, τ y < card y) → f τ = g τ) → sumVars card xs f σ = sumVars card xs g σ
  | [], f, g, σ, h => h σ (fun _ _ => rfl) (fun _ hy => by cases hy)
  | x :: xs, f, g, σ, h => by
    simp only [sumVars]
    apply sumVar_congr
    intro k hk
    apply sumVars_congr_reach card xs f g
    intro τ hτ hr
    apply h
    · intro y hy
      simp only [List.mem_cons, not_or] at hy
      rw [hτ y hy.2, Val.set_other _ _ hy.1]
    · intro y hy
      rcases List.mem_cons.mp hy with rfl | hy
      · by_cases hyx : y ∈ xs
        · exact hr y hyx
        · rw [hτ y hyx, Val.set_same]; exact hk
      · exact hr y hy

/-- names of the noise variables `o, o+1, …, o+n-1` -/
def noiseNames (o n : Nat) : List Name := (List.range n).map (o + ·)

theorem noiseNames_succ (o n : Nat) : noiseNames o (n + 1) = o :: noiseNames (o + 1) n := by
  unfold noiseNames
  rw [List.range_succ_eq_map, List.map_cons, List.map_map]
  simp only [Nat.add_zero, List.cons.injEq, true_and]
  apply List.map_congr_left
  intro j _
  simp only [Function.comp_apply]
  show (o + (j + 1) : Nat) = o + 1 + j
  omega

theorem mem_noiseNames {o n x : Nat} : x ∈ noiseNames o n ↔ o ≤ x ∧ x < o + n := by
  unfold noiseNames
  simp only [List.mem_map, List.mem_range]
  constructor
  · rintro ⟨j, hj, rfl⟩; omega
  · rintro ⟨h1, h2⟩; exact ⟨x - o, by omega, by omega⟩

/-- the noise point read off a valuation of the noise names -/
def pointOf (o n : Nat) (τ : Val) : NoisePoint := (List.range n).map fun j => τ (o + j)

theorem pointOf_succ (o n : Nat) (τ : Val) : pointOf o (n + 1) τ = τ o :: pointOf (o + 1) n τ := by
  unfold pointOf
  rw [List.range_succ_eq_map, List.map_cons, List.map_map]
  simp only [Nat.add_zero, List.cons.injEq, true_and]
  apply List.map_congr_left
  intro j _
  simp only [Function.comp_apply]
  congr 1
  show (o + (j + 1) : Nat) = o + 1 + j
  omega

/-- weight of the noise point read off a valuation -/
def weightOf (ns : List (List Rat)) (o : Nat) (τ : Val) : Rat :=
  ((List.range ns.length).map fun j => (ns.getD j []).getD (τ (o + j)) 1).prod

theorem weightOf_cons (pmf : List Rat) (rest : List (List Rat)) (o : Nat) (τ : Val) :
    weightOf (pmf :: rest) o τ = pmf.getD (τ o) 1 * weightOf rest (o + 1) τ := by
  unfold weightOf
  rw [List.length_cons, List.range_succ_eq_map, List.map_cons, List.prod_cons, List.map_map]
  simp only [Nat.add_zero, List.getD_cons_zero]
  congr 2
  apply List.map_congr_left
  intro j _
  simp only [Function.comp_apply, List.getD_cons_succ]
  congr 2
  show (o + (j + 1) : Nat) = o + 1 + j
  omega

theorem sum_zipIdx (d : Rat) (pmf : List Rat) (A : Nat → Rat) (n : Nat) :
    ((pmf.zipIdx n).map fun p => p.1 * A p.2).sum = ∑ k ∈ range pmf.length, pmf.getD k d * A (n + k) := by
  induction pmf generalizing n with
  | nil => simp
  | cons a l ih =>
    rw [List.zipIdx_cons, List.map_cons, List.sum_cons, ih, List.length_cons, Finset.sum_range_succ']
    simp only [List.getD_cons_succ, List.getD_cons_zero, Nat.add_zero]
    rw [add_comm]
    congr 1
    apply Finset.sum_congr rfl
    intro k _
    congr 2
    omega

/-- **the noise space as an iterated sum over named variables** -/
theorem space_sum (cardN : Name → Nat) : ∀ (ns : List (List Rat)) (o : Nat) (F : NoisePoint → Rat) (σ : Val),
    (∀ j, j < ns.length → cardN (o + j) = (ns.getD j []).length) →
    ((space ns).map fun pt => pt.2 * F pt.1).sum =
      sumVars cardN (noiseNames o ns.length) (fun τ => weightOf ns o τ * F (pointOf o ns.length τ)) σ
  | [], o, F, σ, _ => by
    simp [space, noiseNames, sumVars, weightOf, pointOf]
  | pmf :: rest, o, F, σ, hc => by
    have hc0 : cardN o = pmf.length := by simpa using hc 0 (by simp)
    have hcr : ∀ j, j < rest.length → cardN (o + 1 + j) = (rest.getD j []).length := by
      intro j hj
      have := hc (j + 1) (by simpa using hj)
      simpa [Nat.add_assoc, Nat.add_comm 1 j] using this
    rw [List.length_cons, noiseNames_succ]
    simp only [sumVars]
    rw [sumVar_eq_sum, hc0]
    -- left-hand side
    simp only [space]
    rw [sum_flatMap]
    have hinner : ∀ p : Rat × Nat,
        (((space rest).map fun q : NoisePoint × Rat => (p.2 :: q.1, p.1 * q.2)).map fun pt => pt.2 * F pt.1).sum =
          p.1 * ((space rest).map fun q => q.2 * F (p.2 :: q.1)).sum := by
      intro p
      rw [List.map_map, ← sum_map_mul_left]
      apply sum_map_congr
      intro q _
      simp only [Function.comp_apply]
      ring
    rw [List.map_congr_left (fun p _ => hinner p)]
    rw [sum_zipIdx 1 pmf (fun x => ((space rest).map fun q => q.2 * F (x :: q.1)).sum) 0]
    apply Finset.sum_congr rfl
    intro k hk
    simp only [Nat.zero_add]
    rw [space_sum cardN rest (o + 1) (fun pt => F (k :: pt)) (σ.set o k) hcr]
    rw [← sumVars_mul_left cardN _ (fun _ => pmf.getD k 1) _ _ (fun _ _ _ _ => rfl)]
    apply sumVars_congr_outside
    intro τ hτ
    have hτo : τ o = k := by
      rw [hτ o (by rw [mem_noiseNames]; omega)]
      simp
    rw [weightOf_cons, pointOf_succ, hτo]
    ring

end Fscm
end Y0
