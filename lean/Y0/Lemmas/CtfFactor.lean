/-
  Y0.Lemmas.CtfFactor — the grouping-by-district loop of `get_counterfactual_factors` (Y0.Model.CtfFactor:
  `addToDistrict`, `groupByDistrict`): the groups are exactly the classes of "same district".
-/
import Y0.Lemmas.CtfComponents

namespace Y0.Ctf
open Relation Y0.MG

/-! ### `get_district` -/

theorem getDistrict_ok {α : Type} [DecidableEq α] (G : MG α) (v : α) (d : List α) (h : G.getDistrict v = .ok d) :
    d ∈ G.districts ∧ v ∈ d := by
  unfold MG.getDistrict at h
  cases hf : G.districts.find? (fun d => decide (v ∈ d)) with
  | none => rw [hf] at h; cases h
  | some d' =>
    rw [hf] at h
    simp only [Except.ok.injEq] at h
    subst h
    exact ⟨List.mem_of_find?_eq_some hf, by simpa using List.find?_some hf⟩

theorem getDistrict_total {α : Type} [DecidableEq α] (G : MG α) (hG : G.WF) (v : α) (hv : v ∈ G.nodes) :
    ∃ d, G.getDistrict v = .ok d := by
  obtain ⟨d, hd, hvd⟩ := (districts_cover G hG v).1 hv
  unfold MG.getDistrict
  cases hf : G.districts.find? (fun d => decide (v ∈ d)) with
  | none =>
    rw [List.find?_eq_none] at hf
    exact absurd (by simpa using hvd) (hf d hd)
  | some d' => exact ⟨d', rfl⟩

/-- two nodes have the same `get_district` exactly when a chain of bidirected edges joins them -/
theorem getDistrict_eq_iff {α : Type} [DecidableEq α] (G : MG α) (hG : G.WF) (a b : α) (da db : List α)
    (ha : G.getDistrict a = .ok da) (hb : G.getDistrict b = .ok db) : da = db ↔ G.SameDistrict a b := by
  obtain ⟨hda, haa⟩ := getDistrict_ok G a da ha
  obtain ⟨hdb, hbb⟩ := getDistrict_ok G b db hb
  constructor
  · intro h
    subst h
    exact (districts_spec G hG da hda a haa b).1 hbb
  · intro h
    have hbda : b ∈ da := (districts_spec G hG da hda a haa b).2 h
    exact eq_of_common_mem _ (districts_disjoint G hG) da db hda hdb b hbda hbb

/-! ### the grouping loop -/

variable {β : Type} [DecidableEq β]

theorem mem_addToDistrict (m : List (List Name × List β)) (d : List Name) (x : β) (p : List Name × List β) :
    p ∈ addToDistrict m d x ↔
      (∃ q ∈ m, q.1 ≠ d ∧ p = q) ∨ (∃ q ∈ m, q.1 = d ∧ p = (q.1, if mem' x q.2 = true then q.2 else q.2 ++ [x])) ∨
      ((∀ q ∈ m, q.1 ≠ d) ∧ p = (d, [x])) := by
  unfold addToDistrict
  split
  · rename_i hex
    simp only [List.any_eq_true, beq_iff_eq] at hex
    simp only [List.mem_map, beq_iff_eq]
    constructor
    · rintro ⟨q, hq, rfl⟩
      by_cases hqd : q.1 = d
      · exact Or.inr (Or.inl ⟨q, hq, hqd, by simp [hqd]⟩)
      · exact Or.inl ⟨q, hq, hqd, by simp [hqd]⟩
    · rintro (⟨q, hq, hqd, hpq⟩ | ⟨q, hq, hqd, hpq⟩ | ⟨hall, _⟩)
      · exact ⟨q, hq, by simp [hqd, hpq]⟩
      · exact ⟨q, hq, by simp [hqd, hpq]⟩
      · obtain ⟨q, hq, hqd⟩ := hex
        exact absurd hqd (hall q hq)
  · rename_i hex
    simp only [List.any_eq_true, beq_iff_eq, not_exists, not_and] at hex
    simp only [List.mem_append, List.mem_singleton]
    constructor
    · rintro (hp | rfl)
      · exact Or.inl ⟨p, hp, hex p hp, rfl⟩
      · exact Or.inr (Or.inr ⟨hex, rfl⟩)
    · rintro (⟨q, hq, _, rfl⟩ | ⟨q, hq, hqd, _⟩ | ⟨_, rfl⟩)
      · exact Or.inl hq
      · exact absurd hqd (hex q hq)
      · exact Or.inr rfl

theorem keys_addToDistrict (m : List (List Name × List β)) (d : List Name) (x : β)
    (h : (m.map (·.1)).Nodup) : ((addToDistrict m d x).map (·.1)).Nodup := by
  unfold addToDistrict
  split
  · have : (m.map (fun p => if (p.1 == d) = true then (p.1, if mem' x p.2 = true then p.2 else p.2 ++ [x]) else p)).map
        (·.1) = m.map (·.1) := by
      rw [List.map_map]
      apply List.map_congr_left
      intro p _
      simp only [Function.comp]
      split <;> rfl
    rw [this]; exact h
  · rename_i hex
    simp only [List.any_eq_true, beq_iff_eq, not_exists, not_and] at hex
    rw [List.map_append, List.nodup_append]
    refine ⟨h, by simp, ?_⟩
    intro a ha b hb
    simp only [List.map_cons, List.map_nil, List.mem_singleton] at hb
    subst hb
    obtain ⟨q, hq, rfl⟩ := List.mem_map.1 ha
    exact hex q hq

/-- the invariant of the grouping loop -/
structure GroupInv (g : MG Name) (name : β → Name) (m : List (List Name × List β)) (done : List β) : Prop where
  sound : ∀ p ∈ m, ∀ x ∈ p.2, x ∈ done ∧ g.getDistrict (name x) = .ok p.1
  complete : ∀ x ∈ done, ∃ p ∈ m, g.getDistrict (name x) = .ok p.1 ∧ x ∈ p.2
  keys : (m.map (·.1)).Nodup

theorem groupInv_step (g : MG Name) (name : β → Name) (m : List (List Name × List β)) (done : List β) (x : β)
    (d : List Name) (hd : g.getDistrict (name x) = .ok d) (h : GroupInv g name m done) :
    GroupInv g name (addToDistrict m d x) (done ++ [x]) := by
  refine ⟨?_, ?_, keys_addToDistrict m d x h.keys⟩
  · intro p hp y hy
    rcases (mem_addToDistrict m d x p).1 hp with ⟨q, hq, _, rfl⟩ | ⟨q, hq, hqd, rfl⟩ | ⟨_, rfl⟩
    · obtain ⟨h1, h2⟩ := h.sound p hq y hy
      exact ⟨List.mem_append_left _ h1, h2⟩
    · simp only at hy ⊢
      split at hy
      · obtain ⟨h1, h2⟩ := h.sound q hq y hy
        exact ⟨List.mem_append_left _ h1, h2⟩
      · rcases List.mem_append.1 hy with hy | hy
        · obtain ⟨h1, h2⟩ := h.sound q hq y hy
          exact ⟨List.mem_append_left _ h1, h2⟩
        · simp only [List.mem_singleton] at hy
          subst hy
          exact ⟨by simp, by rw [hqd]; exact hd⟩
    · simp only [List.mem_singleton] at hy
      subst hy
      exact ⟨by simp, hd⟩
  · intro y hy
    rcases List.mem_append.1 hy with hy | hy
    · obtain ⟨q, hq, hq1, hq2⟩ := h.complete y hy
      by_cases hqd : q.1 = d
      · refine ⟨(q.1, if mem' x q.2 = true then q.2 else q.2 ++ [x]),
          (mem_addToDistrict m d x _).2 (Or.inr (Or.inl ⟨q, hq, hqd, rfl⟩)), hq1, ?_⟩
        simp only
        split
        · exact hq2
        · exact List.mem_append_left _ hq2
      · exact ⟨q, (mem_addToDistrict m d x q).2 (Or.inl ⟨q, hq, hqd, rfl⟩), hq1, hq2⟩
    · simp only [List.mem_singleton] at hy
      subst hy
      by_cases hex : ∃ q ∈ m, q.1 = d
      · obtain ⟨q, hq, hqd⟩ := hex
        refine ⟨(q.1, if mem' y q.2 = true then q.2 else q.2 ++ [y]),
          (mem_addToDistrict m d y _).2 (Or.inr (Or.inl ⟨q, hq, hqd, rfl⟩)), by rw [hqd]; exact hd, ?_⟩
        simp only
        split
        · rename_i hmem; exact (mem'_iff _ _).1 hmem
        · simp
      · simp only [not_exists, not_and] at hex
        exact ⟨(d, [y]), (mem_addToDistrict m d y _).2 (Or.inr (Or.inr ⟨hex, rfl⟩)), hd, by simp⟩

theorem groupInv_foldlM (g : MG Name) (name : β → Name) (xs : List β) (m : List (List Name × List β))
    (done : List β) (h : GroupInv g name m done) (m' : List (List Name × List β))
    (hf : xs.foldlM (groupStep g name) m = .ok m') :
    GroupInv g name m' (done ++ xs) := by
  induction xs generalizing m done with
  | nil =>
    simp only [List.foldlM_nil, pure, Except.pure, Except.ok.injEq] at hf
    subst hf; simpa using h
  | cons x xs ih =>
    simp only [List.foldlM_cons, bind, Except.bind] at hf
    cases hd : g.getDistrict (name x) with
    | error e => simp only [groupStep, bind, Except.bind, hd] at hf; cases hf
    | ok d =>
      simp only [groupStep, bind, Except.bind, hd, pure, Except.pure] at hf
      have := ih _ _ (groupInv_step g name m done x d hd h) hf
      simpa using this

/-- **grouping by district.**  The groups cover exactly the given elements, and a group consists of all elements whose
`get_district` equals that of any of its members. -/
theorem groupByDistrict_spec (g : MG Name) (name : β → Name) (xs : List β) (groups : List (List β))
    (h : groupByDistrict g name xs = .ok groups) :
    (∀ x, (∃ grp ∈ groups, x ∈ grp) ↔ x ∈ xs) ∧
    (∀ grp ∈ groups, ∀ a ∈ grp, ∀ b, b ∈ grp ↔ b ∈ xs ∧ g.getDistrict (name b) = g.getDistrict (name a)) := by
  unfold groupByDistrict at h
  simp only [bind, Except.bind] at h
  cases hf : xs.foldlM (groupStep g name) [] with
  | error e => rw [hf] at h; cases h
  | ok m =>
    rw [hf] at h
    simp only [pure, Except.pure, Except.ok.injEq] at h
    subst h
    have inv : GroupInv g name m xs := by
      have h0 : GroupInv g name ([] : List (List Name × List β)) [] := by
        refine ⟨?_, ?_, ?_⟩
        · intro p hp; cases hp
        · intro x hx; cases hx
        · simp
      have := groupInv_foldlM g name xs [] [] h0 m hf
      simpa using this
    constructor
    · intro x
      simp only [List.mem_map]
      constructor
      · rintro ⟨_, ⟨p, hp, rfl⟩, hx⟩; exact (inv.sound p hp x hx).1
      · intro hx
        obtain ⟨p, hp, _, hxp⟩ := inv.complete x hx
        exact ⟨p.2, ⟨p, hp, rfl⟩, hxp⟩
    · intro grp hgrp a ha b
      simp only [List.mem_map] at hgrp
      obtain ⟨p, hp, rfl⟩ := hgrp
      obtain ⟨_, hda⟩ := inv.sound p hp a ha
      constructor
      · intro hb
        obtain ⟨hbx, hdb⟩ := inv.sound p hp b hb
        exact ⟨hbx, by rw [hda, hdb]⟩
      · rintro ⟨hbx, hdb⟩
        obtain ⟨q, hq, hdq, hbq⟩ := inv.complete b hbx
        have hkey : q.1 = p.1 := by
          rw [hda, hdq] at hdb
          simpa using hdb
        -- distinct entries have distinct keys
        have : q = p := by
          have hinj : ∀ (l : List (List Name × List β)), (l.map (·.1)).Nodup → ∀ q ∈ l, ∀ p ∈ l, q.1 = p.1 → q = p := by
            intro l
            induction l with
            | nil => intro _ q hq; cases hq
            | cons r l ih =>
              intro hn q hq p hp hk
              simp only [List.map_cons, List.nodup_cons] at hn
              rcases List.mem_cons.1 hq with rfl | hq'
              · rcases List.mem_cons.1 hp with rfl | hp'
                · rfl
                · exact absurd (List.mem_map.2 ⟨p, hp', hk.symm⟩) hn.1
              · rcases List.mem_cons.1 hp with rfl | hp'
                · exact absurd (List.mem_map.2 ⟨q, hq', hk⟩) hn.1
                · exact ih hn.2 q hq' p hp' hk
          exact hinj m inv.keys q hq p hp hkey
        subst this
        exact hbq

/-- the groups are the values of a dictionary that satisfies the loop invariant -/
theorem groupByDistrict_inv (g : MG Name) (name : β → Name) (xs : List β) (groups : List (List β))
    (h : groupByDistrict g name xs = .ok groups) :
    ∃ m, groups = m.map (·.2) ∧ GroupInv g name m xs := by
  unfold groupByDistrict at h
  simp only [bind, Except.bind] at h
  cases hf : xs.foldlM (groupStep g name) [] with
  | error e => rw [hf] at h; cases h
  | ok m =>
    rw [hf] at h
    simp only [pure, Except.pure, Except.ok.injEq] at h
    refine ⟨m, h.symm, ?_⟩
    have h0 : GroupInv g name ([] : List (List Name × List β)) [] := by
      refine ⟨?_, ?_, ?_⟩
      · intro p hp; cases hp
      · intro x hx; cases hx
      · simp
    have := groupInv_foldlM g name xs [] [] h0 m hf
    simpa using this

/-- **the groups are pairwise disjoint** (two groups never share an element: they have different districts) -/
theorem groupByDistrict_pairwise (g : MG Name) (name : β → Name) (xs : List β) (groups : List (List β))
    (h : groupByDistrict g name xs = .ok groups) : groups.Pairwise (fun a b => ∀ x ∈ a, x ∉ b) := by
  obtain ⟨m, rfl, inv⟩ := groupByDistrict_inv g name xs groups h
  rw [List.pairwise_map]
  have hk : m.Pairwise (fun a b => a.1 ≠ b.1) := by
    have := inv.keys
    unfold List.Nodup at this
    rwa [List.pairwise_map] at this
  refine hk.imp_of_mem ?_
  intro a b ha hb hab x hxa hxb
  have h1 := (inv.sound a ha x hxa).2
  have h2 := (inv.sound b hb x hxb).2
  rw [h1] at h2
  exact hab (by simpa using h2)

end Y0.Ctf
