/-
  Y0.Lemmas.DslKey — Python's tuple comparison on sort keys (`Key.cmp`) is a total order, and the fixed `_get_key`
  (`Expr.key`) separates any two different expressions.  Hence `Expr.ltE` (`Expression.__lt__`) is a strict total order.
-/
import Y0.Model.Dsl
import Mathlib.Order.Defs.LinearOrder
import Mathlib.Order.Compare
import Mathlib.Data.Int.Order.Basic

namespace Y0
set_option linter.unusedSimpArgs false
set_option linter.unusedVariables false

/-! ### `Key.cmp` is a total order -/

theorem int_compare_swap (a b : Int) : compare b a = (compare a b).swap := by
  rcases lt_trichotomy a b with h | h | h
  · rw [compare_lt_iff_lt.mpr h, compare_gt_iff_gt.mpr h]; rfl
  · subst h; simp
  · rw [compare_gt_iff_gt.mpr h, compare_lt_iff_lt.mpr h]; rfl

mutual
theorem Key.cmp_eq_iff : ∀ (a b : Key), Key.cmp a b = .eq ↔ a = b
  | .atom a, .atom b => by simp [Key.cmp, compare_eq_iff_eq]
  | .atom _, .tup _ => by simp [Key.cmp]
  | .tup _, .atom _ => by simp [Key.cmp]
  | .tup as, .tup bs => by simp [Key.cmp, Key.cmpList_eq_iff as bs]
theorem Key.cmpList_eq_iff : ∀ (as bs : List Key), Key.cmpList as bs = .eq ↔ as = bs
  | [], [] => by simp [Key.cmpList]
  | [], _ :: _ => by simp [Key.cmpList]
  | _ :: _, [] => by simp [Key.cmpList]
  | a :: as, b :: bs => by
    simp only [Key.cmpList, List.cons.injEq]
    have h1 := Key.cmp_eq_iff a b
    have h2 := Key.cmpList_eq_iff as bs
    cases hc : Key.cmp a b with
    | lt => simp only [reduceCtorEq, false_iff]; intro ⟨e, _⟩; rw [h1.mpr e] at hc; cases hc
    | gt => simp only [reduceCtorEq, false_iff]; intro ⟨e, _⟩; rw [h1.mpr e] at hc; cases hc
    | eq => simp only; rw [h2]; exact ⟨fun h => ⟨h1.mp hc, h⟩, fun h => h.2⟩
end

mutual
theorem Key.cmp_swap : ∀ (a b : Key), Key.cmp b a = (Key.cmp a b).swap
  | .atom a, .atom b => by simp only [Key.cmp]; exact int_compare_swap a b
  | .atom _, .tup _ => by simp [Key.cmp, Ordering.swap]
  | .tup _, .atom _ => by simp [Key.cmp, Ordering.swap]
  | .tup as, .tup bs => by simp only [Key.cmp]; exact Key.cmpList_swap as bs
theorem Key.cmpList_swap : ∀ (as bs : List Key), Key.cmpList bs as = (Key.cmpList as bs).swap
  | [], [] => by simp [Key.cmpList, Ordering.swap]
  | [], _ :: _ => by simp [Key.cmpList, Ordering.swap]
  | _ :: _, [] => by simp [Key.cmpList, Ordering.swap]
  | a :: as, b :: bs => by
    simp only [Key.cmpList]
    rw [Key.cmp_swap a b, Key.cmpList_swap as bs]
    cases Key.cmp a b <;> simp [Ordering.swap]
end

mutual
theorem Key.cmp_trans : ∀ (a b c : Key), Key.cmp a b = .lt → Key.cmp b c = .lt → Key.cmp a c = .lt
  | .atom a, .atom b, .atom c, h1, h2 => by
    simp only [Key.cmp, compare_lt_iff_lt] at *; exact lt_trans h1 h2
  | .atom _, .atom _, .tup _, _, _ => by simp [Key.cmp]
  | .atom _, .tup _, .atom _, _, h2 => by simp [Key.cmp] at h2
  | .atom _, .tup _, .tup _, _, _ => by simp [Key.cmp]
  | .tup _, .atom _, _, h1, _ => by simp [Key.cmp] at h1
  | .tup _, .tup _, .atom _, _, h2 => by simp [Key.cmp] at h2
  | .tup as, .tup bs, .tup cs, h1, h2 => by
    simp only [Key.cmp] at *; exact Key.cmpList_trans as bs cs h1 h2
theorem Key.cmpList_trans : ∀ (as bs cs : List Key), Key.cmpList as bs = .lt → Key.cmpList bs cs = .lt →
    Key.cmpList as cs = .lt
  | [], [], _, h1, _ => by simp [Key.cmpList] at h1
  | [], _ :: _, [], _, h2 => by simp [Key.cmpList] at h2
  | [], _ :: _, _ :: _, _, _ => by simp [Key.cmpList]
  | _ :: _, [], _, h1, _ => by simp [Key.cmpList] at h1
  | _ :: _, _ :: _, [], _, h2 => by simp [Key.cmpList] at h2
  | a :: as, b :: bs, c :: cs, h1, h2 => by
    simp only [Key.cmpList] at *
    cases hab : Key.cmp a b with
    | gt => rw [hab] at h1; cases h1
    | lt =>
      cases hbc : Key.cmp b c with
      | gt => rw [hbc] at h2; cases h2
      | lt => rw [Key.cmp_trans a b c hab hbc]
      | eq =>
        have := (Key.cmp_eq_iff b c).mp hbc; subst this
        rw [hab]
    | eq =>
      have := (Key.cmp_eq_iff a b).mp hab; subst this
      rw [hab] at h1
      cases hbc : Key.cmp a c with
      | gt => rw [hbc] at h2; cases h2
      | lt => rfl
      | eq =>
        rw [hbc] at h2
        simp only at h1 h2 ⊢
        exact Key.cmpList_trans as bs cs h1 h2
end

theorem Key.lt_iff {a b : Key} : Key.lt a b = true ↔ Key.cmp a b = .lt := by
  unfold Key.lt; cases Key.cmp a b <;> simp

theorem Key.lt_irrefl (a : Key) : Key.lt a a = false := by
  have : Key.cmp a a = .eq := (Key.cmp_eq_iff a a).mpr rfl
  simp [Key.lt, this]

theorem Key.lt_trans {a b c : Key} (h1 : Key.lt a b = true) (h2 : Key.lt b c = true) : Key.lt a c = true :=
  Key.lt_iff.mpr (Key.cmp_trans a b c (Key.lt_iff.mp h1) (Key.lt_iff.mp h2))

theorem Key.lt_trichotomy (a b : Key) : Key.lt a b = true ∨ a = b ∨ Key.lt b a = true := by
  cases h : Key.cmp a b with
  | lt => exact Or.inl (Key.lt_iff.mpr h)
  | eq => exact Or.inr (Or.inl ((Key.cmp_eq_iff a b).mp h))
  | gt =>
    refine Or.inr (Or.inr (Key.lt_iff.mpr ?_))
    rw [Key.cmp_swap a b, h]; rfl

theorem Key.lt_asymm {a b : Key} (h : Key.lt a b = true) : Key.lt b a = false := by
  have h1 := Key.lt_iff.mp h
  have : Key.cmp b a = .gt := by rw [Key.cmp_swap a b, h1]; rfl
  simp [Key.lt, this]

/-! ### the keys separate variables and expressions -/

theorem starCode_inj {a b : Option Bool} (h : starCode a = starCode b) : a = b := by
  cases a with
  | none => cases b with
    | none => rfl
    | some y => cases y <;> simp [starCode] at h
  | some x => cases b with
    | none => cases x <;> simp [starCode] at h
    | some y => cases x <;> cases y <;> simp [starCode] at h <;> rfl

theorem ivKey_inj : ∀ (l m : List Iv),
    l.map (fun i => Key.tup [.atom i.name, .atom (if i.star then 1 else 0)]) =
      m.map (fun i => Key.tup [.atom i.name, .atom (if i.star then 1 else 0)]) → l = m
  | [], [], _ => rfl
  | [], _ :: _, h => by simp at h
  | _ :: _, [], h => by simp at h
  | a :: l, b :: m, h => by
    simp only [List.map_cons, List.cons.injEq, Key.tup.injEq, Key.atom.injEq, and_true] at h
    obtain ⟨⟨h1, h2⟩, h3⟩ := h
    have h1' : a.name = b.name := Int.ofNat_inj.mp h1
    have hs : a.star = b.star := by
      cases ha : a.star <;> cases hb : b.star <;> simp [ha, hb] at h2 <;> rfl
    have : a = b := by cases a; cases b; simp_all
    rw [this, ivKey_inj l m h3]

theorem Var.totalKey_inj {v w : Var} (h : v.totalKey = w.totalKey) : v = w := by
  unfold Var.totalKey at h
  simp only [Key.tup.injEq, List.cons.injEq, Key.atom.injEq, and_true] at h
  obtain ⟨h1, h2, h3, h4⟩ := h
  have h1' : v.name = w.name := Int.ofNat_inj.mp h1
  have hs := starCode_inj h2
  have hi : v.isIv = w.isIv := by
    cases hv : v.isIv <;> cases hw : w.isIv <;> simp [hv, hw] at h3 <;> rfl
  have hv := ivKey_inj _ _ h4
  cases v; cases w; simp_all

theorem map_totalKey_inj : ∀ (l m : List Var), l.map Var.totalKey = m.map Var.totalKey → l = m
  | [], [], _ => rfl
  | [], _ :: _, h => by simp at h
  | _ :: _, [], h => by simp at h
  | a :: l, b :: m, h => by
    simp only [List.map_cons, List.cons.injEq] at h
    rw [Var.totalKey_inj h.1, map_totalKey_inj l m h.2]

mutual
/-- **the fixed `_get_key` is injective**: two expressions with equal keys are equal -/
theorem Expr.key_inj : ∀ (a b : Expr), a.key = b.key → a = b
  | .prob none c p, .prob none c' p', h => by
    simp only [Expr.key, Key.tup.injEq, List.cons.injEq, and_true] at h
    rw [map_totalKey_inj _ _ h.2.2.1, map_totalKey_inj _ _ h.2.2.2]
  | .prob (some x) c p, .prob (some y) c' p', h => by
    simp only [Expr.key, Key.tup.injEq, List.cons.injEq, and_true] at h
    rw [Var.totalKey_inj h.2.1, map_totalKey_inj _ _ h.2.2.2.1, map_totalKey_inj _ _ h.2.2.2.2]
  | .prob none _ _, .prob (some _) _ _, h => by simp [Expr.key] at h
  | .prob (some _) _ _, .prob none _ _, h => by simp [Expr.key] at h
  | .prod fs, .prod gs, h => by
    simp only [Expr.key, Key.tup.injEq, List.cons.injEq, true_and] at h
    rw [Expr.keyList_inj fs gs h]
  | .sum e r, .sum e' r', h => by
    simp only [Expr.key, Key.tup.injEq, List.cons.injEq, true_and, and_true] at h
    rw [Expr.key_inj e e' h.1, map_totalKey_inj _ _ h.2]
  | .frac n d, .frac n' d', h => by
    simp only [Expr.key, Key.tup.injEq, List.cons.injEq, true_and, and_true] at h
    rw [Expr.key_inj n n' h.1, Expr.key_inj d d' h.2]
  | .one, .one, _ => rfl
  | .zero, .zero, _ => rfl
  | .q d c, .q d' c', h => by
    simp only [Expr.key, Key.tup.injEq, List.cons.injEq, true_and, and_true] at h
    rw [map_totalKey_inj _ _ h.2.2.1, map_totalKey_inj _ _ h.2.2.2]
  | .prob none _ _, .prod _, h | .prob none _ _, .sum _ _, h | .prob none _ _, .frac _ _, h | .prob none _ _, .one, h
  | .prob none _ _, .zero, h | .prob none _ _, .q _ _, h => by simp [Expr.key] at h
  | .prob (some _) _ _, .prod _, h | .prob (some _) _ _, .sum _ _, h | .prob (some _) _ _, .frac _ _, h
  | .prob (some _) _ _, .one, h | .prob (some _) _ _, .zero, h | .prob (some _) _ _, .q _ _, h => by
    simp [Expr.key] at h
  | .prod _, .prob none _ _, h | .prod _, .prob (some _) _ _, h | .prod _, .sum _ _, h | .prod _, .frac _ _, h
  | .prod _, .one, h | .prod _, .zero, h | .prod _, .q _ _, h => by simp [Expr.key] at h
  | .sum _ _, .prob none _ _, h | .sum _ _, .prob (some _) _ _, h | .sum _ _, .prod _, h | .sum _ _, .frac _ _, h
  | .sum _ _, .one, h | .sum _ _, .zero, h | .sum _ _, .q _ _, h => by simp [Expr.key] at h
  | .frac _ _, .prob none _ _, h | .frac _ _, .prob (some _) _ _, h | .frac _ _, .prod _, h | .frac _ _, .sum _ _, h
  | .frac _ _, .one, h | .frac _ _, .zero, h | .frac _ _, .q _ _, h => by simp [Expr.key] at h
  | .one, .prob none _ _, h | .one, .prob (some _) _ _, h | .one, .prod _, h | .one, .sum _ _, h | .one, .frac _ _, h
  | .one, .zero, h | .one, .q _ _, h => by simp [Expr.key] at h
  | .zero, .prob none _ _, h | .zero, .prob (some _) _ _, h | .zero, .prod _, h | .zero, .sum _ _, h
  | .zero, .frac _ _, h | .zero, .one, h | .zero, .q _ _, h => by simp [Expr.key] at h
  | .q _ _, .prob none _ _, h | .q _ _, .prob (some _) _ _, h | .q _ _, .prod _, h | .q _ _, .sum _ _, h
  | .q _ _, .frac _ _, h | .q _ _, .one, h | .q _ _, .zero, h => by simp [Expr.key] at h
theorem Expr.keyList_inj : ∀ (a b : List Expr), Expr.keyList a = Expr.keyList b → a = b
  | [], [], _ => rfl
  | [], _ :: _, h => by simp [Expr.keyList] at h
  | _ :: _, [], h => by simp [Expr.keyList] at h
  | x :: xs, y :: ys, h => by
    simp only [Expr.keyList, List.cons.injEq] at h
    rw [Expr.key_inj x y h.1, Expr.keyList_inj xs ys h.2]
end

/-! ### `Expression.__lt__` is a strict total order -/

theorem Expr.ltE_irrefl (a : Expr) : Expr.ltE a a = false := Key.lt_irrefl _
theorem Expr.ltE_trans {a b c : Expr} (h1 : Expr.ltE a b = true) (h2 : Expr.ltE b c = true) : Expr.ltE a c = true :=
  Key.lt_trans h1 h2
theorem Expr.ltE_asymm {a b : Expr} (h : Expr.ltE a b = true) : Expr.ltE b a = false := Key.lt_asymm h
theorem Expr.ltE_trichotomy (a b : Expr) : Expr.ltE a b = true ∨ a = b ∨ Expr.ltE b a = true := by
  rcases Key.lt_trichotomy a.key b.key with h | h | h
  · exact Or.inl h
  · exact Or.inr (Or.inl (Expr.key_inj a b h))
  · exact Or.inr (Or.inr h)

end Y0
