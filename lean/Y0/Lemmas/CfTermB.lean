/-
  Y0.Lemmas.CfTermB — termination of ID*, part B: `make_counterfactual_graph` on an event whose keys all live in ONE world `w`
  (every key is `n @ w`; `w = []` is the factual world).  The merge loop then only ever merges `Variable(n)` with `n @ w`, and
  it does so for `n` only after having done so for every parent of `n` and never for a variable named in `w`.  Consequences
  for the returned graph (`sw_injective`, `sw_names`): two non-self-intervened nodes never carry the same variable name, and
  when the key names are closed under parents in `G` (up to the names in `w`) every non-self-intervened node carries a key name.
-/
import Y0.Lemmas.CfTermA

namespace Y0.Cf
open Relation MG Fscm

theorem plain_ne_atWorld (m n : Name) {w : World} (hw : w ≠ []) : Var.plain m ≠ atWorld n w := by
  intro h
  simp only [Var.plain, atWorld, Var.mk.injEq] at h
  exact hw h.2.2.2.symm

theorem atWorld_isCf (n : Name) {w : World} (hw : w ≠ []) : (atWorld n w).isCf = true := by
  cases w with
  | nil => exact absurd rfl hw
  | cons i is => rfl

/-- `n` has been merged: its copy in world `w` is gone -/
def Mrg (w : World) (cf : MG Var) (n : Name) : Prop := atWorld n w ∉ cf.nodes

/-- the invariant of the merge loop for a single-world event (`B`: the variable names of the original keys) -/
structure TW (G : MG Name) (B : List Name) (w : World) (cf : MG Var) (ev : Event) : Prop where
  shape : ∀ x ∈ cf.nodes, x = Var.plain x.name ∨ x = atWorld x.name w
  plainPa : ∀ x n, (x, Var.plain n) ∈ cf.di → x = Var.plain x.name
  gEdges : ∀ a b, (a, b) ∈ G.di → (Var.plain a, Var.plain b) ∈ cf.di
  mixed : ∀ m y, (Var.plain m, y) ∈ cf.di → y ≠ Var.plain y.name → Mrg w cf m
  keyPlain : ∀ n, Var.plain n ∈ ev.keys → Mrg w cf n
  closed : ∀ n, n ∈ G.nodes → Mrg w cf n → n ∉ w.map (·.name) ∧ ∀ m, (m, n) ∈ G.di → Mrg w cf m
  tgtNsi : ∀ x y, (x, y) ∈ cf.di → isNotSelfIntervened y = true
  keysIn : ∀ k ∈ ev.keys, k ∈ cf.nodes
  keyNames : ∀ k ∈ ev.keys, k.name ∈ B

def TWSt (G : MG Name) (B : List Name) (w : World) : St → Prop
  | .run cf ev => TW G B w cf ev
  | .stop _ => True

/-- in the single-world setting `nodes_attain_same_value` never holds for a factual node and a different node -/
theorem nasv_plain_false {G : MG Name} {B : List Name} {w : World} (hw : w ≠ []) {cf : MG Var} {ev : Event}
    (htw : TW G B w cf ev) (m : Name) (y : Var) (hy : y ∈ cf.nodes) (hne : Var.plain m ≠ y)
    (h : nodesAttainSameValue cf ev (Var.plain m) y = true) : False := by
  unfold nodesAttainSameValue at h
  split at h
  · rename_i e; exact hne e
  · split at h
    · cases h
    · split at h
      · cases h
      · rename_i _ _ hname
        have hname : (Var.plain m).name = y.name := by simpa using hname
        have hym : y.name = m := hname.symm
        have hyw : y = atWorld m w := by
          rcases htw.shape y hy with h1 | h1
          · exfalso; apply hne; rw [h1, hym]
          · rw [h1, hym]
        cases hgx : ev.get? (Var.plain m) with
        | some va =>
          have hk : Var.plain m ∈ ev.keys := (mem_keys_iff ev _).2 ⟨va, Event.get?_mem hgx⟩
          exact htw.keyPlain m hk (hyw ▸ hy)
        | none =>
          cases hgy : ev.get? y with
          | some vb =>
            simp only [hgx, hgy, Bool.and_eq_true] at h
            have : (Var.plain m).isCf = false := rfl
            rw [this] at h
            exact absurd h.1 (by simp)
          | none =>
            simp only [hgx, hgy] at h
            rw [hyw, atWorld_isCf m hw] at h
            simp at h

/-- … hence `parents_attain_same_values` for `Variable(n)` and `n @ w` means: the two nodes have the SAME parents -/
theorem pasv_parents_eq {G : MG Name} {B : List Name} {w : World} (hw : w ≠ []) {cf : MG Var} {ev : Event}
    (htw : TW G B w cf ev) (hwf : cf.WF) (n : Name)
    (h : parentsAttainSameValues cf ev (Var.plain n) (atWorld n w) = true) (x : Var) :
    (x, Var.plain n) ∈ cf.di ↔ (x, atWorld n w) ∈ cf.di := by
  unfold parentsAttainSameValues at h
  split at h
  · cases h
  · simp only at h
    split at h
    · rename_i hset
      simp only [seteq', subset', Bool.and_eq_true, List.all_eq_true, decide_eq_true_eq, mem_dedup', mem_parents_iff]
        at hset
      exact ⟨hset.1 x, hset.2 x⟩
    · rename_i hset
      exfalso
      split at h
      · cases h
      · rename_i hlen
        have hlen : (diff' (dedup' (cf.parents (Var.plain n))) (dedup' (cf.parents (atWorld n w)))).length =
            (diff' (dedup' (cf.parents (atWorld n w))) (dedup' (cf.parents (Var.plain n)))).length := by simpa using hlen
        -- the first difference list is not empty
        have hra : ∃ xa, xa ∈ diff' (dedup' (cf.parents (Var.plain n))) (dedup' (cf.parents (atWorld n w))) := by
          by_contra hno
          have hra0 : diff' (dedup' (cf.parents (Var.plain n))) (dedup' (cf.parents (atWorld n w))) = [] :=
            List.eq_nil_iff_forall_not_mem.2 (fun a ha => hno ⟨a, ha⟩)
          have hrb0 : diff' (dedup' (cf.parents (atWorld n w))) (dedup' (cf.parents (Var.plain n))) = [] := by
            rw [hra0] at hlen
            exact List.eq_nil_of_length_eq_zero hlen.symm
          apply hset
          simp only [seteq', subset', Bool.and_eq_true, List.all_eq_true, decide_eq_true_eq]
          constructor
          · intro a ha
            by_contra hb
            have : a ∈ diff' (dedup' (cf.parents (Var.plain n))) (dedup' (cf.parents (atWorld n w))) := by
              simp only [diff', List.mem_filter, decide_eq_true_eq]; exact ⟨ha, hb⟩
            rw [hra0] at this; cases this
          · intro a ha
            by_contra hb
            have : a ∈ diff' (dedup' (cf.parents (atWorld n w))) (dedup' (cf.parents (Var.plain n))) := by
              simp only [diff', List.mem_filter, decide_eq_true_eq]; exact ⟨ha, hb⟩
            rw [hrb0] at this; cases this
        obtain ⟨xa, hxa⟩ := hra
        have hxa' : xa ∈ sortByBase (diff' (dedup' (cf.parents (Var.plain n))) (dedup' (cf.parents (atWorld n w)))) := by
          unfold sortByBase; rw [mem_sortBy]; exact hxa
        obtain ⟨y, hy⟩ := zip_partner _
          (sortByBase (diff' (dedup' (cf.parents (atWorld n w))) (dedup' (cf.parents (Var.plain n))))) (by
            unfold sortByBase; rw [length_sortBy, length_sortBy]; exact hlen) xa hxa'
        rw [List.all_eq_true] at h
        have hxy := h (xa, y) hy
        simp only at hxy
        have hyb : y ∈ diff' (dedup' (cf.parents (atWorld n w))) (dedup' (cf.parents (Var.plain n))) := by
          have := mem_zip_right _ _ _ _ hy
          unfold sortByBase at this
          rw [mem_sortBy] at this
          exact this
        simp only [diff', List.mem_filter, decide_eq_true_eq, mem_dedup', mem_parents_iff] at hxa hyb
        have hxplain : xa = Var.plain xa.name := htw.plainPa xa n hxa.1
        have hyn : y ∈ cf.nodes := (hwf.di_mem _ hyb.1).1
        have hne : Var.plain xa.name ≠ y := by
          intro e
          apply hyb.2
          rw [← e, ← hxplain]
          exact hxa.1
        rw [hxplain] at hxy
        exact nasv_plain_false hw htw xa.name y hyn hne hxy

theorem mergeOrder_plain_at (n : Name) {w : World} (hw : w ≠ []) :
    mergeOrder (Var.plain n) (atWorld n w) = (Var.plain n, atWorld n w) := by
  unfold mergeOrder
  have h1 : (Var.plain n).isCf = false := rfl
  have h2 : (atWorld n w).isCf = true := atWorld_isCf n hw
  simp [h1, h2]

/-- a key of the updated event: the preferred node (then the eliminated one was a key) or an old key -/
theorem mem_keys_updateEvent' (ev : Event) (pref elim k : Var) (hk : k ∈ (updateEvent ev pref elim).keys) :
    (k = pref ∧ elim ∈ ev.keys) ∨ (k ∈ ev.keys ∧ k ≠ elim) := by
  unfold updateEvent at hk
  cases he : ev.get? elim with
  | none =>
    rw [he] at hk
    right
    refine ⟨hk, ?_⟩
    rw [mem_keys_iff] at hk
    obtain ⟨v, hv⟩ := hk
    intro hke
    exact (Event.get?_none_iff.1 he) _ hv hke
  | some v =>
    rw [he] at hk
    simp only at hk
    rw [mem_keys_iff] at hk
    obtain ⟨v', hv'⟩ := hk
    rw [Event.mem_erase, Event.mem_set] at hv'
    rcases hv' with ⟨⟨hp, _⟩ | heq, hne⟩
    · right
      exact ⟨(mem_keys_iff ev k).2 ⟨v', hp⟩, hne⟩
    · left
      simp only [Prod.mk.injEq] at heq
      exact ⟨heq.1, (mem_keys_iff ev elim).2 ⟨v, Event.get?_mem he⟩⟩

/-- when the eliminated node has no parent that the kept node lacks, the merge removes exactly the eliminated node -/
theorem mem_nodes_mergePw_of_ne (cf : MG Var) (a b : Var)
    (hsub : ∀ x, (x, (mergeOrder a b).2) ∈ cf.di → (x, (mergeOrder a b).1) ∈ cf.di)
    (k : Var) (hk : k ∈ cf.nodes) (hne : k ≠ (mergeOrder a b).2) : k ∈ (mergePw cf a b).1.nodes := by
  rw [mergePw_graph, MG.mem_nodes_fromEdges]
  left
  simp only [List.mem_filter, Bool.and_eq_true, decide_eq_true_eq, Bool.not_eq_eq_eq_not, Bool.not_true]
  refine ⟨hk, hne, ?_⟩
  cases hel : elem' k (diff' (cf.parents (mergeOrder a b).2) (cf.parents (mergeOrder a b).1)) with
  | false => rfl
  | true =>
    exfalso
    rw [elem'_iff] at hel
    simp only [diff', List.mem_filter, decide_eq_true_eq, mem_parents_iff] at hel
    exact hel.2 (hsub k hel.1)

theorem tw_mergeStep {G : MG Name} {B : List Name} {w : World} (hw : w ≠ []) (c : Ctx) (st : St) (n : Name)
    (hf : FullInv c st) (h : TWSt G B w st) : TWSt G B w (mergeStep st (Var.plain n) (atWorld n w)) := by
  unfold mergeStep
  cases st with
  | stop cf => exact h
  | run cf ev =>
    obtain ⟨hrep, _⟩ := hf
    have htw : TW G B w cf ev := h
    simp only
    split
    · rename_i h24
      split
      · trivial
      · obtain ⟨ha, hb⟩ := lemma24Holds_nodes h24
        have hab : Var.plain n ≠ atWorld n w := plain_ne_atWorld n n hw
        have hmo := mergeOrder_plain_at n hw
        have hr1 : (mergePw cf (Var.plain n) (atWorld n w)).2.1 = Var.plain n := by
          have : (mergePw cf (Var.plain n) (atWorld n w)).2.1 = (mergeOrder (Var.plain n) (atWorld n w)).1 := by
            unfold mergePw; rfl
          rw [this, hmo]
        have hr2 : (mergePw cf (Var.plain n) (atWorld n w)).2.2 = atWorld n w := by
          have : (mergePw cf (Var.plain n) (atWorld n w)).2.2 = (mergeOrder (Var.plain n) (atWorld n w)).2 := by
            unfold mergePw; rfl
          rw [this, hmo]
        show TW G B w _ _
        rw [hr1, hr2]
        -- what the test gives
        have h24' := h24
        simp only [lemma24Holds, isPwEquivalent, hasSameFunction, Bool.and_eq_true, beq_iff_eq] at h24'
        obtain ⟨_, ⟨⟨_, hnsieq⟩, hpasv⟩, _⟩ := h24'
        have hnsib : isNotSelfIntervened (atWorld n w) = true := by
          rw [← hnsieq]; rfl
        have hpeq := pasv_parents_eq hw htw hrep.wf n hpasv
        -- nodes of the new graph
        have hnodes_sub : ∀ x, x ∈ (mergePw cf (Var.plain n) (atWorld n w)).1.nodes → x ∈ cf.nodes :=
          fun x hx => mem_nodes_mergePw cf hrep.wf _ _ ha hb x hx
        have hgone : atWorld n w ∉ (mergePw cf (Var.plain n) (atWorld n w)).1.nodes := by
          have := removed_not_mem_mergePw cf hrep.noLoops _ _ hab
          rw [hmo] at this; exact this
        have hkeep : ∀ k, k ∈ cf.nodes → k ≠ atWorld n w → k ∈ (mergePw cf (Var.plain n) (atWorld n w)).1.nodes := by
          intro k hk hne
          apply mem_nodes_mergePw_of_ne cf _ _ _ k hk (by rw [hmo]; exact hne)
          intro x hx
          rw [hmo] at hx ⊢
          exact (hpeq x).2 hx
        have hmono : ∀ m, Mrg w cf m → Mrg w (mergePw cf (Var.plain n) (atWorld n w)).1 m :=
          fun m hm hx => hm (hnodes_sub _ hx)
        have hdi : ∀ x y, (x, y) ∈ (mergePw cf (Var.plain n) (atWorld n w)).1.di ↔
            ((x, y) ∈ cf.di ∧ x ≠ atWorld n w ∧ y ≠ atWorld n w) ∨ (x = Var.plain n ∧ (atWorld n w, y) ∈ cf.di) := by
          intro x y
          have := mem_di_mergePw cf (Var.plain n) (atWorld n w) x y
          rw [hmo] at this
          exact this
        refine ⟨?_, ?_, ?_, ?_, ?_, ?_, ?_, ?_, ?_⟩
        · intro x hx
          exact htw.shape x (hnodes_sub x hx)
        · intro x m hx
          rcases (hdi x _).1 hx with ⟨hx', _, _⟩ | ⟨rfl, _⟩
          · exact htw.plainPa x m hx'
          · rfl
        · intro a b hab'
          exact (hdi _ _).2 (Or.inl ⟨htw.gEdges a b hab', plain_ne_atWorld a n hw, plain_ne_atWorld b n hw⟩)
        · intro m y hx hy
          rcases (hdi _ y).1 hx with ⟨hx', _, _⟩ | ⟨heq, _⟩
          · exact hmono m (htw.mixed m y hx' hy)
          · have : m = n := by
              simp only [Var.plain, Var.mk.injEq] at heq
              exact heq.1
            rw [this]
            exact hgone
        · intro m hk
          rcases mem_keys_updateEvent' ev _ _ _ hk with ⟨heq, _⟩ | ⟨hk', _⟩
          · have : m = n := by
              simp only [Var.plain, Var.mk.injEq] at heq
              exact heq.1
            rw [this]
            exact hgone
          · exact hmono m (htw.keyPlain m hk')
        · intro m hmG hm
          by_cases hold : atWorld m w ∈ cf.nodes
          · -- newly merged: `m = n`
            have hmn : m = n := by
              by_contra hne
              apply hm
              apply hkeep _ hold
              intro e
              simp only [atWorld, Var.mk.injEq] at e
              exact hne e.1
            subst hmn
            constructor
            · unfold isNotSelfIntervened at hnsib
              rw [List.all_eq_true] at hnsib
              intro hmem
              simp only [List.mem_map] at hmem
              obtain ⟨i, hi, hin⟩ := hmem
              have := hnsib i hi
              have hne : ¬ i.name = m := of_decide_eq_true this
              exact hne hin
            · intro p hp
              have h1 := htw.gEdges p m hp
              have h2 := (hpeq _).1 h1
              exact hmono p (htw.mixed p _ h2 (by
                intro e
                exact plain_ne_atWorld _ _ hw e.symm))
          · obtain ⟨h1, h2⟩ := htw.closed m hmG hold
            exact ⟨h1, fun p hp => hmono p (h2 p hp)⟩
        · intro x y hx
          rcases (hdi x y).1 hx with ⟨hx', _, _⟩ | ⟨_, hx'⟩
          · exact htw.tgtNsi x y hx'
          · exact htw.tgtNsi _ y hx'
        · intro k hk
          rcases mem_keys_updateEvent' ev _ _ _ hk with ⟨heq, _⟩ | ⟨hk', hkne⟩
          · rw [heq]
            exact hkeep _ ha hab
          · exact hkeep k (htw.keysIn k hk') hkne
        · intro k hk
          rcases mem_keys_updateEvent' ev _ _ _ hk with ⟨heq, helim⟩ | ⟨hk', _⟩
          · rw [heq]
            exact htw.keyNames (atWorld n w) helim
          · exact htw.keyNames k hk'
    · exact h

end Y0.Cf

namespace Y0.Cf
open Relation MG Fscm

/-! ## the whole loop -/

theorem tw_runPairs {G : MG Name} {B : List Name} {w : World} (hw : w ≠ []) (c : Ctx) (hc : c.OK)
    (hGl : ∀ e ∈ c.G.di, e.1 ≠ e.2) (ps : List (Var × Var)) (hps : ∀ p ∈ ps, ∃ n, p = (Var.plain n, atWorld n w))
    (st : St) (hf : FullInv c st) (h : TWSt G B w st) : TWSt G B w (runPairs st ps) := by
  induction ps generalizing st with
  | nil => exact h
  | cons p ps ih =>
    unfold runPairs
    simp only [List.foldl_cons]
    obtain ⟨n, rfl⟩ := hps p (by simp)
    exact ih (fun q hq => hps q (by simp [hq])) _
      (fullInv_mergeStep c hc hGl st _ _ (plain_ne_atWorld n n hw) hf)
      (tw_mergeStep hw c st n hf h)

/-- all keys of the event live in the world `w` -/
def KeysIn (w : World) (ev : Event) : Prop := ∀ k ∈ ev.keys, k = atWorld k.name w

theorem eq_singleton_of_nodup {α} {l : List α} {w : α} (hnd : l.Nodup) (hall : ∀ x ∈ l, x = w) (hmem : w ∈ l) :
    l = [w] := by
  cases l with
  | nil => cases hmem
  | cons a t =>
    have ha : a = w := hall a (by simp)
    cases t with
    | nil => rw [ha]
    | cons b t' =>
      exfalso
      have hb : b = w := hall b (by simp)
      rw [ha, hb] at hnd
      simp at hnd

theorem worlds_of_keysIn {ordf : List World → List World} (hord : PermOrder ordf) {w : World} {ev : Event}
    (hkw : KeysIn w ev) (hne : ev ≠ []) (hw : w ≠ []) : ordf (extractInterventions ev.keys) = [w] := by
  have hgood := hord.good ev.keys
  apply eq_singleton_of_nodup hgood.1
  · intro x hx
    obtain ⟨k, hk, _, rfl⟩ := (mem_extractInterventions _ x).1 ((hord _).mem_iff.1 hx)
    rw [hkw k hk]; rfl
  · cases ev with
    | nil => exact absurd rfl hne
    | cons p ps =>
      have hk : p.1 ∈ Event.keys (p :: ps) := by simp [Event.keys]
      apply (hord _).mem_iff.2
      rw [mem_extractInterventions]
      refine ⟨p.1, hk, ?_, ?_⟩
      · rw [hkw p.1 hk]; exact atWorld_isCf _ hw
      · rw [hkw p.1 hk]; rfl

theorem worlds_of_keysIn_nil {ordf : List World → List World} (hord : PermOrder ordf) {ev : Event}
    (hkw : KeysIn [] ev) : ordf (extractInterventions ev.keys) = [] := by
  apply List.eq_nil_iff_forall_not_mem.2
  intro x hx
  obtain ⟨k, hk, hcf, _⟩ := (mem_extractInterventions _ x).1 ((hord _).mem_iff.1 hx)
  rw [hkw k hk] at hcf
  cases hcf

theorem allPairs_single (w : World) (topo : List Name) :
    ∀ p ∈ allPairs [w] topo, ∃ n, p = (Var.plain n, atWorld n w) := by
  intro p hp
  unfold allPairs nodePairs at hp
  simp only [List.length_cons, List.length_nil, Nat.zero_add, gt_iff_lt, Nat.lt_irrefl, ↓reduceIte, List.append_nil,
    List.map_cons, List.map_nil, List.mem_flatMap, List.mem_singleton] at hp
  obtain ⟨n, _, rfl⟩ := hp
  exact ⟨n, rfl⟩

theorem allPairs_nil (topo : List Name) : allPairs [] topo = [] := by
  unfold allPairs nodePairs
  simp

/-- induction along a directed path into `s`: names stay inside a set closed under parents (up to the names of `w`) -/
theorem names_on_path {G : MG Name} {cf : MG Var} (hproj : EdgeProj G cf)
    (htgt : ∀ x y, cf.DiEdge x y → isNotSelfIntervened y = true) (B : List Name) (w : World)
    (hcl : ∀ b ∈ B, ∀ m, (m, b) ∈ G.di → m ∈ B ∨ m ∈ w.map (·.name)) (s : Var) (hs : s.name ∈ B)
    (hPA : ∀ z, ReflTransGen cf.DiEdge z s → isNotSelfIntervened z = true → z.name ∉ w.map (·.name)) :
    ∀ z, ReflTransGen cf.DiEdge z s → isNotSelfIntervened z = true → z.name ∈ B := by
  intro z hz
  induction hz using ReflTransGen.head_induction_on with
  | refl => exact fun _ => hs
  | head hzy hys ih =>
    rename_i z y
    intro hnsi
    have hy := ih (htgt z y hzy)
    rcases hcl y.name hy z.name (hproj z y hzy) with h | h
    · exact h
    · exact absurd h (hPA z (ReflTransGen.head hzy hys) hnsi)

theorem nsi_atWorld_of_mem {n : Name} {w : World} (hn : n ∈ w.map (·.name)) : isNotSelfIntervened (atWorld n w) = false := by
  simp only [List.mem_map] at hn
  obtain ⟨i, hi, hin⟩ := hn
  cases h : isNotSelfIntervened (atWorld n w) with
  | false => rfl
  | true =>
    unfold isNotSelfIntervened at h
    rw [List.all_eq_true] at h
    have := of_decide_eq_true (h i hi)
    exact absurd hin this

/-- the single-world invariant holds for the state the merge loop ends in -/
theorem tw_final {ordf : List World → List World} (hord : PermOrder ordf) {G : MG Name} (hG : G.WF)
    (hdl : ∀ e ∈ G.di, e.1 ≠ e.2) (hbl : ∀ e ∈ G.bi, e.1 ≠ e.2) {ev : Event} (hev : EvOK ev) (hne : ev ≠ [])
    (hk : ∀ k ∈ ev.keys, KeyOK G k) (w : World) (hkw : KeysIn w ev) (hw : w ≠ []) (topo : List Name)
    (ht : G.topologicalSort = .ok topo) {cf' : MG Var} {nev : Event}
    (hl : loopResult ordf G ev topo = .run cf' nev) : TW G (ev.keys.map (·.name)) w cf' nev := by
  have hc := trivCtx_ok G hG topo ht ev
  have hws := worlds_of_keysIn hord hkw hne hw
  have hinit : TWSt G (ev.keys.map (·.name)) w (.run (cfInit G [w]) ev) := by
    have hform := mem_nodes_cfInit G hG hbl [w] (by simp) (by simpa using hw)
    refine ⟨?_, ?_, ?_, ?_, ?_, ?_, ?_, ?_, ?_⟩
    · intro x hx
      rcases hform x hx with ⟨n, _, rfl⟩ | ⟨w', hw', n, _, rfl⟩
      · exact Or.inl rfl
      · simp only [List.mem_singleton] at hw'
        subst hw'
        exact Or.inr rfl
    · intro x n hx
      rcases (mem_di_cfInit G [w] x _).1 hx with ⟨e, _, rfl, _⟩ | ⟨w', hw', e, _, _, _, h2⟩
      · rfl
      · simp only [List.mem_singleton] at hw'
        subst hw'
        exact absurd h2 (plain_ne_atWorld _ _ hw)
    · intro a b hab
      exact (mem_di_cfInit G [w] _ _).2 (Or.inl ⟨(a, b), hab, rfl, rfl⟩)
    · intro m y hx hy
      rcases (mem_di_cfInit G [w] _ y).1 hx with ⟨e, _, _, rfl⟩ | ⟨w', hw', e, _, _, h1, _⟩
      · exact absurd rfl hy
      · simp only [List.mem_singleton] at hw'
        subst hw'
        exact absurd h1 (plain_ne_atWorld _ _ hw)
    · intro n hn
      have := hkw _ hn
      exact absurd this (plain_ne_atWorld _ _ hw)
    · intro n hn hm
      exact absurd (atWorld_mem_cfInit G [w] n hn w (by simp)) hm
    · intro x y hx
      rcases (mem_di_cfInit G [w] x y).1 hx with ⟨e, _, _, rfl⟩ | ⟨w', hw', e, _, hni, _, rfl⟩
      · rfl
      · unfold isNotSelfIntervened
        unfold notIntervenedIn at hni
        rw [List.all_eq_true] at hni ⊢
        intro i hi
        exact hni i hi
    · intro k hkk
      rw [hkw k hkk]
      exact atWorld_mem_cfInit G [w] _ (hk k hkk).inG w (by simp)
    · intro k hkk
      exact List.mem_map.2 ⟨k, hkk, rfl⟩
  have hfin : TWSt G (ev.keys.map (·.name)) w (loopResult ordf G ev topo) := by
    unfold loopResult
    rw [hws, mergeLoop_eq]
    refine tw_runPairs hw (trivCtx G topo ev) hc hdl _ (allPairs_single w topo) _ ?_ hinit
    have hwcs : ∀ w' ∈ [w], ConsistentSubs w' := by
      intro w' hw'
      simp only [List.mem_singleton] at hw'
      subst hw'
      cases ev with
      | nil => exact absurd rfl hne
      | cons p ps =>
        have hk0 : p.1 ∈ Event.keys (p :: ps) := by simp [Event.keys]
        have := (hk p.1 hk0).subs
        rw [hkw p.1 hk0] at this
        exact this
    exact ⟨repInv_cfInit (trivCtx G topo ev) hc hG hdl hbl [w] (by simp) (by simpa using hw) hwcs,
      ⟨fun _ _ _ => Iff.rfl, hev⟩⟩
  rw [hl] at hfin
  exact hfin

/-- **structure of the counterfactual graph of a single-world event.**  Let every key of the (non-empty, well-formed) event be
`n @ w` for one subscript set `w` (`w = []`: all keys factual).  Then in the returned graph
  * two non-self-intervened nodes with the same variable name are the same node, and
  * if the key names are closed under parents in `G` up to the names in `w`, every non-self-intervened node carries a key name. -/
theorem sw_structure {ordf : List World → List World} (hord : PermOrder ordf) {G : MG Name} (hG : G.WF)
    (hdl : ∀ e ∈ G.di, e.1 ≠ e.2) (hbl : ∀ e ∈ G.bi, e.1 ≠ e.2) {ev : Event} (hev : EvOK ev) (hne : ev ≠ [])
    (hk : ∀ k ∈ ev.keys, KeyOK G k) (w : World) (hkw : KeysIn w ev) {g : MG Var} {nev : Event}
    (h : makeCounterfactualGraph ordf G ev = .ok (g, some nev)) :
    (∀ x ∈ g.nodes, ∀ y ∈ g.nodes, isNotSelfIntervened x = true → isNotSelfIntervened y = true →
      x.name = y.name → x = y) ∧
    ((∀ b ∈ ev.keys.map (·.name), ∀ m, (m, b) ∈ G.di → m ∈ ev.keys.map (·.name) ∨ m ∈ w.map (·.name)) →
      ∀ x ∈ g.nodes, isNotSelfIntervened x = true → x.name ∈ ev.keys.map (·.name)) := by
  obtain ⟨topo, cf', anc, ht, hrep, hnevok, hkey, hl, ha, rfl⟩ := cg_run_inv hord hG hdl hbl hev hk h
  have hc := trivCtx_ok G hG topo ht ev
  have hwf'' := wf_foldl_addNode nev.keys cf' hrep.wf
  have spec := ancestorsInclusive_spec _ hwf'' _ _ ha
  have hgood := hord.good ev.keys
  have hinG : ∀ x ∈ cf'.nodes, x.name ∈ G.nodes := fun x hx => (hc.compat.perm.mem_iff).1 (hrep.nodes x hx).inModel
  have hproj'' : EdgeProj G (nev.keys.foldl MG.addNode cf') := by
    intro a b hab
    exact hrep.proj a b ((diEdge_foldl_addNode _ _ _ _).1 hab)
  by_cases hw : w = []
  · -- all keys factual: no counterfactual world, the loop does nothing
    subst hw
    have hws := worlds_of_keysIn_nil hord hkw
    have hl' : loopResult ordf G ev topo = .run (cfInit G []) ev := by
      unfold loopResult
      rw [hws, mergeLoop_eq, allPairs_nil]
      rfl
    rw [hl] at hl'
    simp only [St.run.injEq] at hl'
    obtain ⟨rfl, rfl⟩ := hl'
    have hplain : ∀ x ∈ (nev.keys.foldl MG.addNode (cfInit G [])).nodes, x = Var.plain x.name := by
      intro x hx
      rcases (mem_nodes_foldl_addNode _ _ _).1 hx with hx' | hx'
      · rcases mem_nodes_cfInit G hG hbl [] (by simp) (by simp) x hx' with ⟨n, _, rfl⟩ | ⟨w, hw, _⟩
        · rfl
        · cases hw
      · exact hkw x hx'
    have hancnode : ∀ x ∈ anc, x ∈ (nev.keys.foldl MG.addNode (cfInit G [])).nodes := by
      intro x hx
      obtain ⟨s, hs, hxs⟩ := (spec x).1 hx
      rcases ReflTransGen.cases_head hxs with rfl | ⟨y, hxy, _⟩
      · exact (mem_nodes_foldl_addNode _ _ _).2 (Or.inr hs)
      · exact (hwf''.di_mem _ hxy).1
    constructor
    · intro x hx y hy _ _ hxy
      rw [MG.mem_nodes_subgraph] at hx hy
      rw [hplain x (hancnode x hx), hplain y (hancnode y hy), hxy]
    · intro hcl x hx hnsi
      rw [MG.mem_nodes_subgraph] at hx
      obtain ⟨s, hs, hxs⟩ := (spec x).1 hx
      refine names_on_path hproj'' ?_ _ [] hcl s (List.mem_map.2 ⟨s, hs, rfl⟩) ?_ x hxs hnsi
      · intro a b hab
        rw [hplain b (hwf''.di_mem _ hab).2]
        rfl
      · intro z _ _ hz
        cases hz
  · -- one counterfactual world
    have htw : TW G (ev.keys.map (·.name)) w cf' nev :=
      tw_final hord hG hdl hbl hev hne hk w hkw hw topo ht hl
    -- adding the keys as nodes changes nothing
    have hnodes'' : ∀ x, x ∈ (nev.keys.foldl MG.addNode cf').nodes → x ∈ cf'.nodes := by
      intro x hx
      rcases (mem_nodes_foldl_addNode _ _ _).1 hx with hx' | hx'
      · exact hx'
      · exact htw.keysIn x hx'
    have hancnode : ∀ x ∈ anc, x ∈ cf'.nodes := by
      intro x hx
      obtain ⟨s, hs, hxs⟩ := (spec x).1 hx
      rcases ReflTransGen.cases_head hxs with rfl | ⟨y, hxy, _⟩
      · exact htw.keysIn _ hs
      · exact hnodes'' _ (hwf''.di_mem _ hxy).1
    -- a factual ancestor of a key has been merged
    have hPA : ∀ s ∈ nev.keys, ∀ z, ReflTransGen (nev.keys.foldl MG.addNode cf').DiEdge z s →
        ∀ m, z = Var.plain m → Mrg w cf' m := by
      intro s hs z hz
      induction hz using ReflTransGen.head_induction_on with
      | refl =>
        intro m hm
        exact htw.keyPlain m (hm ▸ hs)
      | head hzy hys ih =>
        rename_i z y
        intro m hm
        have hzy' : (z, y) ∈ cf'.di := (diEdge_foldl_addNode _ _ _ _).1 hzy
        by_cases hy : y = Var.plain y.name
        · have hmy := ih y.name hy
          have hyn : y ∈ cf'.nodes := (hrep.wf.di_mem _ hzy').2
          have hedge := hrep.proj z y hzy'
          rw [hm] at hedge
          exact (htw.closed y.name (hinG y hyn) hmy).2 m hedge
        · rw [hm] at hzy'
          exact htw.mixed m y hzy' hy
    constructor
    · intro x hx y hy hnx hny hxy
      rw [MG.mem_nodes_subgraph] at hx hy
      have key : ∀ a b : Var, a ∈ anc → b ∈ anc → a = Var.plain a.name → b = atWorld b.name w → a.name = b.name → False := by
        intro a b ha hb hap hbw hab
        obtain ⟨s, hs, has⟩ := (spec a).1 ha
        have := hPA s hs a has a.name hap
        apply this
        rw [hab, ← hbw]
        exact hancnode b hb
      rcases htw.shape x (hancnode x hx) with hx1 | hx1 <;> rcases htw.shape y (hancnode y hy) with hy1 | hy1
      · rw [hx1, hy1, hxy]
      · exact (key x y hx hy hx1 hy1 hxy).elim
      · exact (key y x hy hx hy1 hx1 hxy.symm).elim
      · rw [hx1, hy1, hxy]
    · intro hcl x hx hnsi
      rw [MG.mem_nodes_subgraph] at hx
      obtain ⟨s, hs, hxs⟩ := (spec x).1 hx
      refine names_on_path hproj'' ?_ _ w hcl s (htw.keyNames s hs) ?_ x hxs hnsi
      · intro a b hab
        exact htw.tgtNsi a b ((diEdge_foldl_addNode _ _ _ _).1 hab)
      · intro z hz hnz hmem
        have hzn : z ∈ cf'.nodes := hancnode z ((spec z).2 ⟨s, hs, hz⟩)
        rcases htw.shape z hzn with hz1 | hz1
        · have hm := hPA s hs z hz z.name hz1
          exact (htw.closed z.name (hinG z hzn) hm).1 hmem
        · rw [hz1, nsi_atWorld_of_mem hmem] at hnz
          cases hnz

end Y0.Cf
