/-
  Y0.Lemmas.SigmaAgree — on an acyclic mixed graph the (fixed) sigma-separation test finds a Z-σ-open simple path
  exactly when an m-connecting path exists.

  (A) every m-connecting path is a simple path of the skeleton all of whose triples pass `pHelper` (no backtracking,
      no acyclicity needed);
  (B) from a simple path all of whose triples pass `pTripleOk` an open walk is built edge by edge: each triple
      fixes the marks its middle node needs on both incident edges; in an acyclic graph the demands of the two ends
      of an edge are always met by one edge (a clash would be a 2-cycle); a backtrack `l, m, n, m, r` is walked
      literally.  σ(v) = {v} in an acyclic graph makes the σ side-conditions vacuous.
-/
import Y0.Lemmas.SigmaPure
import Y0.Lemmas.SepDag

namespace Y0.MG
variable {α : Type} [DecidableEq α]
open Relation

/-! ### closures of single nodes -/

theorem mem_descOf (G : MG α) (hG : G.WF) (m : α) (hm : m ∈ G.nodes) (x : α) :
    x ∈ G.descOf m ↔ ReflTransGen G.DiEdge m x := by
  have := descendantsInclusive_spec G hG [m] (G.descOf m) (descendantsInclusive_single G m hm) x
  rw [this]
  simp [Desc]

theorem mem_sigmaSet (G : MG α) (hG : G.WF) (v : α) (hv : v ∈ G.nodes) (x : α) :
    x ∈ G.sigmaSet v ↔ ReflTransGen G.DiEdge x v ∧ ReflTransGen G.DiEdge v x := by
  have h1 := ancestorsInclusive_spec G hG [v] _ (ancestorsInclusive_single G v hv) x
  have h2 := descendantsInclusive_spec G hG [v] (G.descOf v) (descendantsInclusive_single G v hv) x
  simp only [sigmaSet, inter', List.mem_filter, decide_eq_true_eq]
  rw [h1]
  have : x ∈ closure G.children (G.nodes.length + 1) (dedup' [v]) ↔ x ∈ G.descOf v := Iff.rfl
  rw [this, h2]
  simp [Anc, Desc]

/-- in an acyclic graph the strongly connected component of `v` is `{v}` -/
theorem sigmaSet_acyclic (G : MG α) (hG : G.WF) (hA : G.Acyclic) (v : α) (hv : v ∈ G.nodes) (x : α)
    (hx : x ∈ G.sigmaSet v) : x = v := by
  obtain ⟨h1, h2⟩ := (mem_sigmaSet G hG v hv x).1 hx
  by_contra hne
  rcases ReflTransGen.cases_head h1 with h | ⟨c, hxc, hcv⟩
  · exact hne h
  · exact hA x (TransGen.head' hxc (hcv.trans h2))

theorem anc_of_descOf_any (G : MG α) (hG : G.WF) (C : List α) (m : α) (hm : m ∈ G.nodes)
    (h : (G.descOf m).any (· ∈ C) = true) : G.Anc C m := by
  simp only [List.any_eq_true, decide_eq_true_eq] at h
  obtain ⟨c, hc, hcC⟩ := h
  exact ⟨c, hcC, (mem_descOf G hG m hm c).1 hc⟩

theorem descOf_any_of_anc (G : MG α) (hG : G.WF) (C : List α) (m : α) (hm : m ∈ G.nodes) (h : G.Anc C m) :
    (G.descOf m).any (· ∈ C) = true := by
  obtain ⟨c, hcC, hmc⟩ := h
  simp only [List.any_eq_true, decide_eq_true_eq]
  exact ⟨c, (mem_descOf G hG m hm c).2 hmc, hcC⟩

/-! ### (A) an m-connecting path passes the test -/

theorem hasEither_of_head {G : MG α} {l m : α} {ml : Mark} (h : G.EdgeM l ml .head m) : G.hasEither l m = true := by
  cases h with
  | fwd h => simp [hasEither, hasDi, DiEdge] at h ⊢; exact Or.inl h
  | bi h => simp only [hasEither, Bool.or_eq_true]; exact Or.inr ((hasBi_iff G l m).2 h)

theorem edgeM_symm {G : MG α} {u v : α} {mu mv : Mark} (h : G.EdgeM u mu mv v) : G.EdgeM v mv mu u := by
  cases h with
  | fwd h => exact .bwd h
  | bwd h => exact .fwd h
  | bi h => exact .bi (Or.symm h)

theorem onlyDirected_of_tail {G : MG α} {m r : α} {mr : Mark} (h : G.EdgeM m .tail mr r) :
    G.onlyDirected m r = true := by
  cases h with
  | fwd h => simpa [onlyDirected, hasDi, DiEdge] using h

/-- two consecutive steps of an open walk pass `pHelper` at their common node -/
theorem pHelper_of_openAt (G : MG α) (hG : G.WF) (C : List α) (s t : Step α)
    (hs : G.EdgeM s.src s.ms s.md s.dst) (ht : G.EdgeM t.src t.ms t.md t.dst) (ho : G.OpenAt C s t)
    (hm : s.dst ∈ G.nodes) : G.pHelper C s.src s.dst t.dst = true := by
  obtain ⟨hst, hcol, hnc⟩ := ho
  rw [← hst] at ht
  rcases s with ⟨l, msl, msd, m⟩
  rcases t with ⟨m', mts, mtd, r⟩
  simp only at hs ht hcol hnc hm hst ⊢
  simp only [pHelper, Bool.or_eq_true]
  cases msd with
  | head =>
    cases mts with
    | head =>
      left
      simp only [pCollider, Bool.and_eq_true]
      exact ⟨⟨hasEither_of_head hs, hasEither_of_head (edgeM_symm ht)⟩,
        descOf_any_of_anc G hG C m hm (hcol ⟨rfl, rfl⟩)⟩
    | tail =>
      right; right; left
      have hmC : m ∉ C := hnc (fun h => by cases h.2)
      simp only [pRight, Bool.and_eq_true, Bool.or_eq_true, decide_eq_true_eq]
      exact ⟨⟨hasEither_of_head hs, onlyDirected_of_tail ht⟩, Or.inl hmC⟩
  | tail =>
    have hmC : m ∉ C := hnc (fun h => by cases h.1)
    have hml : G.onlyDirected m l = true := onlyDirected_of_tail (edgeM_symm hs)
    cases mts with
    | head =>
      right; left
      simp only [pLeft, Bool.and_eq_true, Bool.or_eq_true, decide_eq_true_eq]
      exact ⟨⟨hml, hasEither_of_head (edgeM_symm ht)⟩, Or.inl hmC⟩
    | tail =>
      right; right; right
      simp only [pFork, Bool.and_eq_true, Bool.or_eq_true, decide_eq_true_eq]
      exact ⟨⟨hml, onlyDirected_of_tail ht⟩, Or.inl hmC⟩

theorem edgeM_adj {G : MG α} {u v : α} {mu mv : Mark} (h : G.EdgeM u mu mv v) : G.Adj u v := by
  cases h with
  | fwd h => exact Or.inl h
  | bwd h => exact Or.inr (Or.inl h)
  | bi h => exact Or.inr (Or.inr h)

/-- the node sequence of an open walk: consecutive nodes adjacent, every triple passes -/
theorem nodes_of_openWalk (G : MG α) (hG : G.WF) (C : List α) (st : List (Step α)) :
    ∀ a, (∀ s ∈ st, G.EdgeM s.src s.ms s.md s.dst) → (∀ s, st.head? = some s → s.src = a) →
      List.IsChain (G.OpenAt C) st →
      List.IsChain (fun x y => y ∈ G.disorient.biNbrs x) (a :: st.map Step.dst) ∧
      (triples (a :: st.map Step.dst)).all (fun t => G.pTripleOk C t.1 t.2.1 t.2.2) = true := by
  induction st with
  | nil => intro a _ _ _; simp [triples]
  | cons s st ih =>
    intro a hE hH hCh
    have hsa : s.src = a := hH s rfl
    have hs := hE s (by simp)
    have hadj : s.dst ∈ G.disorient.biNbrs a := by
      rw [mem_disorient_biNbrs, ← hsa]; exact edgeM_adj hs
    cases st with
    | nil =>
      simp only [List.map_cons, List.map_nil, triples, List.all_nil, and_true]
      exact List.IsChain.cons_cons hadj (List.isChain_singleton _)
    | cons t st' =>
      rw [List.isChain_cons_cons] at hCh
      have := ih s.dst (fun x hx => hE x (by simp [hx])) (fun x hx => by
        simp at hx; subst hx; exact hCh.1.1.symm) hCh.2
      refine ⟨List.IsChain.cons_cons hadj this.1, ?_⟩
      simp only [List.map_cons, triples, List.all_cons, Bool.and_eq_true]
      refine ⟨?_, by simpa [List.map_cons] using this.2⟩
      have ht := hE t (by simp)
      have hm : s.dst ∈ G.nodes := (adj_nodes G hG (edgeM_adj hs)).2
      have := pHelper_of_openAt G hG C s t hs ht hCh.1 hm
      simp only [pTripleOk, Bool.or_eq_true]
      left
      rw [← hsa]; exact this

/-- (A) -/
theorem open_path_of_mconnPath (G : MG α) (hG : G.WF) (C : List α) (a b : α) (h : G.MConnPath a b C) :
    ∃ p, IsSimplePath G.disorient.biNbrs a b p ∧ G.pOpen C p = true := by
  obtain ⟨ha, hb, st, ⟨hE, hH, hL, hCh⟩, hnd⟩ := h
  have hne : st ≠ [] := by rintro rfl; simp at hH
  have hfacts := nodes_of_openWalk G hG C st a hE (fun s hs => by simpa [hs] using hH) hCh
  have hlast : (a :: st.map Step.dst).getLast? = some b := by
    obtain ⟨q, s, rfl⟩ := exists_concat_of_ne_nil st hne
    have : a :: List.map Step.dst (q ++ [s]) = (a :: q.map Step.dst) ++ [s.dst] := by simp
    rw [this, List.getLast?_concat]
    simp at hL
    rw [hL]
  refine ⟨a :: st.map Step.dst, ⟨rfl, hlast, hnd, hfacts.1⟩, ?_⟩
  simp only [pOpen, List.head?_cons, hlast, ha, hb, decide_false, Bool.or_self, Bool.not_false, Bool.true_and]
  exact hfacts.2

/-! ### (B) an open simple path of an acyclic graph yields an open walk -/

section B
variable (G : MG α) (hG : G.WF) (hA : G.Acyclic) (C : List α)

/-- the mark `i` the triple's middle node `m` needs on the edge to its left neighbour `l` -/
def Bcon (l m : α) (i : Mark) : Prop :=
  (i = .tail ∧ G.DiEdge m l) ∨ (i = .head ∧ (G.DiEdge l m ∨ G.BiEdge l m))

/-- the mark `o` the triple's middle node `m` needs on the edge to its right neighbour `r` -/
def Acon (m r : α) (o : Mark) : Prop :=
  (o = .tail ∧ G.DiEdge m r) ∨ (o = .head ∧ (G.DiEdge r m ∨ G.BiEdge r m))

/-- what `pHelper` says about a triple whose middle node differs from its neighbours -/
def Kind (l m r : α) (i o : Mark) : Prop :=
  Bcon G l m i ∧ Acon G m r o ∧ (i = .head ∧ o = .head → G.Anc C m) ∧ (¬ (i = .head ∧ o = .head) → m ∉ C)

theorem hasEither_iff (u v : α) : G.hasEither u v = true ↔ G.DiEdge u v ∨ G.BiEdge u v := by
  simp [hasEither, hasDi, DiEdge, hasBi_iff]

theorem onlyDirected_iff (u v : α) : G.onlyDirected u v = true ↔ G.DiEdge u v := by
  simp [onlyDirected, hasDi, DiEdge]

include hG hA in
theorem kind_of_pHelper (l m r : α) (hl : l ∈ G.nodes) (hm : m ∈ G.nodes) (hr : r ∈ G.nodes) (hlm : l ≠ m)
    (hrm : r ≠ m) (h : G.pHelper C l m r = true) : ∃ i o, Kind G C l m r i o := by
  have hσl : m ∈ G.sigmaSet l → False := fun h => hlm (sigmaSet_acyclic G hG hA l hl m h).symm
  have hσr : m ∈ G.sigmaSet r → False := fun h => hrm (sigmaSet_acyclic G hG hA r hr m h).symm
  simp only [pHelper, Bool.or_eq_true] at h
  rcases h with h | h | h | h
  · simp only [pCollider, Bool.and_eq_true, hasEither_iff] at h
    exact ⟨.head, .head, Or.inr ⟨rfl, h.1.1⟩, Or.inr ⟨rfl, h.1.2⟩,
      fun _ => anc_of_descOf_any G hG C m hm h.2, fun hc => absurd ⟨rfl, rfl⟩ hc⟩
  · simp only [pLeft, Bool.and_eq_true, Bool.or_eq_true, decide_eq_true_eq, hasEither_iff, onlyDirected_iff] at h
    refine ⟨.tail, .head, Or.inl ⟨rfl, h.1.1⟩, Or.inr ⟨rfl, h.1.2⟩, (fun hc => by cases hc.1), fun _ => ?_⟩
    rcases h.2 with h' | h'
    · exact h'
    · exact absurd h' hσl
  · simp only [pRight, Bool.and_eq_true, Bool.or_eq_true, decide_eq_true_eq, hasEither_iff, onlyDirected_iff] at h
    refine ⟨.head, .tail, Or.inr ⟨rfl, h.1.1⟩, Or.inl ⟨rfl, h.1.2⟩, (fun hc => by cases hc.2), fun _ => ?_⟩
    rcases h.2 with h' | h'
    · exact h'
    · exact absurd h' hσr
  · simp only [pFork, Bool.and_eq_true, Bool.or_eq_true, decide_eq_true_eq, onlyDirected_iff] at h
    refine ⟨.tail, .tail, Or.inl ⟨rfl, h.1.1⟩, Or.inl ⟨rfl, h.1.2⟩, (fun hc => by cases hc.1), fun _ => ?_⟩
    rcases h.2 with h' | h'
    · exact h'
    · exact absurd h'.1.2 hσl

include hA in
theorem no_two_cycle {x y : α} (h1 : G.DiEdge x y) (h2 : G.DiEdge y x) : False :=
  hA x (TransGen.head h1 (TransGen.single h2))

include hA in
/-- in an acyclic graph the demands of the two ends of an edge are met by one and the same edge -/
theorem edge_compat {x y : α} {o i : Mark} (ha : Acon G x y o) (hb : Bcon G x y i) : G.EdgeM x o i y := by
  rcases ha with ⟨rfl, hxy⟩ | ⟨rfl, hyx⟩
  · rcases hb with ⟨rfl, hyx⟩ | ⟨rfl, _⟩
    · exact absurd hyx (fun h => no_two_cycle G hA hxy h)
    · exact .fwd hxy
  · rcases hb with ⟨rfl, hyx'⟩ | ⟨rfl, hxy⟩
    · exact .bwd hyx'
    · rcases hyx with hyx | hyx
      · rcases hxy with hxy | hxy
        · exact absurd hyx (fun h => no_two_cycle G hA hxy h)
        · exact .bi hxy
      · exact .bi (Or.symm hyx)

theorem edge_of_bcon {x y : α} {i : Mark} (hb : Bcon G x y i) : ∃ o, G.EdgeM x o i y := by
  rcases hb with ⟨rfl, hyx⟩ | ⟨rfl, hxy | hxy⟩
  · exact ⟨.head, .bwd hyx⟩
  · exact ⟨.tail, .fwd hxy⟩
  · exact ⟨.head, .bi hxy⟩

theorem edge_of_acon {x y : α} {o : Mark} (ha : Acon G x y o) : ∃ i, G.EdgeM x o i y := by
  rcases ha with ⟨rfl, hxy⟩ | ⟨rfl, hyx | hyx⟩
  · exact ⟨.head, .fwd hxy⟩
  · exact ⟨.tail, .bwd hyx⟩
  · exact ⟨.head, .bi (Or.symm hyx)⟩

theorem edge_of_adj {x y : α} (h : G.Adj x y) : ∃ o i, G.EdgeM x o i y := by
  rcases h with h | h | h
  · exact ⟨_, _, .fwd h⟩
  · exact ⟨_, _, .bwd h⟩
  · exact ⟨_, _, .bi h⟩

/-- `Kind` makes leaving `m` with mark `o` legal for a walk that arrived with mark `i` -/
theorem leaveOk_of_kind {l m r : α} {i o : Mark} (h : Kind G C l m r i o) : LeaveOk G C m (some i) o := by
  refine ⟨fun hc => h.2.2.1 ⟨Option.some.inj hc.1, hc.2⟩, fun _ hnc => h.2.2.2 (fun hc => hnc ⟨by rw [hc.1], hc.2⟩)⟩

include hG hA in
/-- a triple that passes (directly or by a backtrack) lets every walk arriving at its middle node with the demanded
mark continue — possibly after a detour `m, n, m` — to a state from which `m` can be left with the demanded mark -/
theorem through_of_pTripleOk (a l m r : α) (hl : l ∈ G.nodes) (hm : m ∈ G.nodes) (hr : r ∈ G.nodes)
    (hlm : l ≠ m) (hrm : r ≠ m) (h : G.pTripleOk C l m r = true) :
    ∃ i o, Bcon G l m i ∧ Acon G m r o ∧
      (G.MWalk C a m (some i) → ∃ μ, G.MWalk C a m μ ∧ LeaveOk G C m μ o) := by
  simp only [pTripleOk, Bool.or_eq_true, List.any_eq_true, List.mem_filter, decide_eq_true_eq] at h
  rcases h with h | ⟨n, ⟨hn, hnm⟩, hback⟩
  · obtain ⟨i, o, hk⟩ := kind_of_pHelper G hG hA C l m r hl hm hr hlm hrm h
    exact ⟨i, o, hk.1, hk.2.1, fun hw => ⟨some i, hw, leaveOk_of_kind G C hk⟩⟩
  · have hnn : n ∈ G.nodes := (adj_nodes G hG ((mem_disorient_biNbrs G m n).1 hn)).2
    simp only [pBack, Bool.and_eq_true] at hback
    obtain ⟨i1, o1, k1⟩ := kind_of_pHelper G hG hA C l m n hl hm hnn hlm hnm hback.1
    obtain ⟨i2, o2, k2⟩ := kind_of_pHelper G hG hA C m n m hm hnn hm (Ne.symm hnm) (Ne.symm hnm) hback.2.1
    obtain ⟨i3, o3, k3⟩ := kind_of_pHelper G hG hA C n m r hnn hm hr hnm hrm hback.2.2
    refine ⟨i1, o3, k1.1, k3.2.1, fun hw => ?_⟩
    have l1 := leaveOk_of_kind G C k1
    have w2 : G.MWalk C a n (some i2) := .snoc hw (edge_compat G hA k1.2.1 k2.1) l1.1 l1.2
    have l2 := leaveOk_of_kind G C k2
    have w3 : G.MWalk C a m (some i3) := .snoc w2 (edge_compat G hA k2.2.1 k3.1) l2.1 l2.2
    exact ⟨some i3, w3, leaveOk_of_kind G C k3⟩

include hG hA in
/-- walking a node path whose triples all pass -/
theorem mwalk_along (a : α) (q : List α) :
    ∀ (x : α) (μ : Option Mark), q.head? = some x → q.Nodup → (∀ v ∈ q, v ∈ G.nodes) →
      List.IsChain (fun u v => v ∈ G.disorient.biNbrs u) q →
      (triples q).all (fun t => G.pTripleOk C t.1 t.2.1 t.2.2) = true →
      G.MWalk C a x μ →
      (μ = none ∨ ∃ o, LeaveOk G C x μ o ∧ ∀ y, q.tail.head? = some y → Acon G x y o) →
      ∃ z μ', q.getLast? = some z ∧ G.MWalk C a z μ' := by
  induction q with
  | nil => intro x μ hh; simp at hh
  | cons x' rest ih =>
    intro x μ hh hnd hmem hch htr hw hst
    simp only [List.head?_cons, Option.some.injEq] at hh
    subst hh
    cases rest with
    | nil => exact ⟨x', μ, rfl, hw⟩
    | cons y rest' =>
      rw [List.isChain_cons_cons] at hch
      have hadj : G.Adj x' y := (mem_disorient_biNbrs G x' y).1 hch.1
      cases rest' with
      | nil =>
        -- last edge
        refine ⟨y, ?_⟩
        rcases hst with rfl | ⟨o, hlo, hac⟩
        · obtain ⟨o, i, he⟩ := edge_of_adj G hadj
          exact ⟨some i, rfl, .snoc hw he (fun h => by cases h.1) (fun h => absurd rfl h)⟩
        · obtain ⟨i, he⟩ := edge_of_acon G (hac y rfl)
          exact ⟨some i, rfl, .snoc hw he hlo.1 hlo.2⟩
      | cons z rest'' =>
        simp only [triples, List.all_cons, Bool.and_eq_true] at htr
        rw [List.nodup_cons] at hnd
        have hxy : x' ≠ y := fun h => hnd.1 (by simp [h])
        have hzy : z ≠ y := fun h => (List.nodup_cons.1 hnd.2).1 (by simp [h])
        obtain ⟨i, o', hb, hac', hthrough⟩ := through_of_pTripleOk G hG hA C a x' y z (hmem x' (by simp))
          (hmem y (by simp)) (hmem z (by simp)) hxy hzy htr.1
        have hwy : G.MWalk C a y (some i) := by
          rcases hst with rfl | ⟨o, hlo, hac⟩
          · obtain ⟨o, he⟩ := edge_of_bcon G hb
            exact .snoc hw he (fun h => by cases h.1) (fun h => absurd rfl h)
          · exact .snoc hw (edge_compat G hA (hac y rfl) hb) hlo.1 hlo.2
        obtain ⟨μ', hw', hl'⟩ := hthrough hwy
        have := ih y μ' rfl hnd.2 (fun v hv => hmem v (by simp [hv])) hch.2 htr.2 hw'
          (Or.inr ⟨o', hl', fun y' hy' => by simp at hy'; subst hy'; exact hac'⟩)
        simpa [List.getLast?_cons_cons] using this

end B

/-- (B) -/
theorem mwalk_of_open_path (G : MG α) (hG : G.WF) (hA : G.Acyclic) (C : List α) (a b : α) (ha : a ∈ G.nodes)
    (p : List α) (hp : IsSimplePath G.disorient.biNbrs a b p) (hopen : G.pOpen C p = true) :
    a ∉ C ∧ b ∉ C ∧ ∃ μ, G.MWalk C a b μ := by
  obtain ⟨h1, h2, h3, h4⟩ := hp
  have ha' : a ∈ G.disorient.nodes := (mem_nodes_disorient G hG a).2 ha
  have hclosed : ∀ x ∈ G.disorient.nodes, ∀ y ∈ G.disorient.biNbrs x, y ∈ G.disorient.nodes := by
    intro x _ y hy
    have hwf : G.disorient.WF := wf_fromEdges _ _ _
    rcases (mem_biNbrs_iff G.disorient x y).1 hy with h | h
    · exact (hwf.bi_mem _ h).2
    · exact (hwf.bi_mem _ h).1
  have hmem : ∀ v ∈ p, v ∈ G.nodes := fun v hv => (mem_nodes_disorient G hG v).1
    (isSimplePath_subset _ _ hclosed a b p ⟨h1, h2, h3, h4⟩ ha' v hv)
  simp only [pOpen, h1, h2, Bool.and_eq_true, Bool.not_eq_true', Bool.or_eq_false_iff, decide_eq_false_iff_not]
    at hopen
  obtain ⟨⟨haC, hbC⟩, htr⟩ := hopen
  obtain ⟨z, μ', hz, hw⟩ := mwalk_along G hG hA C a p a none h1 h3 hmem h4 htr .nil (Or.inl rfl)
  rw [h2] at hz
  cases hz
  exact ⟨haC, hbC, μ', hw⟩

end Y0.MG
