/-
  Y0.Lemmas.IdDen — what the DSL constructors of Y0.Model.IdDsl denote (`den`, Y0/Spec/Sem.lean), for any family of
  distributions; and sums / c-factors up to the order of the lists.
-/
import Y0.Lemmas.IdTotal
import Y0.Lemmas.QFactor

namespace Y0
open IdDsl IdAux

/-! ### sums and c-factors depend on the variable *sets* only -/

theorem IdAux.sumVars_congr_set (card : Name → Nat) {xs ys : List Name} (hx : xs.Nodup) (hy : ys.Nodup)
    (h : ∀ v, v ∈ xs ↔ v ∈ ys) (f : Val → Rat) : sumVars card xs f = sumVars card ys f :=
  sumVars_perm card ((List.perm_ext_iff_of_nodup hx hy).mpr h) f

theorem Scm.Q_congr_set (M : Scm) {S S' : List Name} (hS : S.Nodup) (hS' : S'.Nodup)
    (h : ∀ v, v ∈ S ↔ v ∈ S') : M.Q S = M.Q S' :=
  M.Q_perm ((List.perm_ext_iff_of_nodup hS hS').mpr h)

/-- split a sum over `xs` into the part satisfying `p` (outer) and the rest (inner) -/
theorem IdAux.sumVars_filter_split (card : Name → Nat) (xs : List Name) (p : Name → Bool) (f : Val → Rat) :
    sumVars card xs f = sumVars card (xs.filter p) (sumVars card (xs.filter (fun v => !p v)) f) := by
  rw [← sumVars_append]
  exact sumVars_perm card (List.filter_append_perm p xs).symm f

theorem IdAux.sumVars_zero (card : Name → Nat) (xs : List Name) (σ : Val) : sumVars card xs (fun _ => 0) σ = 0 := by
  induction xs generalizing σ with
  | nil => rfl
  | cons x xs ih =>
    simp only [sumVars]
    have : sumVars card xs (fun _ => (0 : Rat)) = fun _ => 0 := funext ih
    rw [this, sumVar_eq_sum]
    simp

/-! ### `sortNames` -/

theorem IdAux.insertNat_sorted_nodup {x : Name} {l : List Name} (h : l.Pairwise (· < ·)) :
    (insertNat x l).Pairwise (· < ·) := by
  induction l with
  | nil => simp [insertNat]
  | cons a l ih =>
    simp only [insertNat]
    have ha := List.pairwise_cons.mp h
    split
    · rename_i hxa
      refine List.pairwise_cons.mpr ⟨?_, h⟩
      intro b hb
      rcases List.mem_cons.mp hb with rfl | hb
      · exact hxa
      · exact Nat.lt_trans hxa (ha.1 b hb)
    · split
      · exact h
      · rename_i h1 h2
        refine List.pairwise_cons.mpr ⟨?_, ih ha.2⟩
        intro b hb
        rcases mem_insertNat.mp hb with rfl | hb
        · exact Nat.lt_of_le_of_ne (Nat.le_of_not_lt h1) (fun e => h2 e.symm)
        · exact ha.1 b hb

theorem IdAux.sortNames_sorted (l : List Name) : (sortNames l).Pairwise (· < ·) := by
  induction l with
  | nil => simp [sortNames]
  | cons a l ih =>
    unfold sortNames at ih ⊢
    simp only [List.foldr_cons]
    exact insertNat_sorted_nodup ih

theorem IdAux.sortNames_nodup (l : List Name) : (sortNames l).Nodup :=
  (sortNames_sorted l).imp (fun h => Nat.ne_of_lt h)

/-- summing over `sortNames r` is summing over any duplicate-free list with the same members -/
theorem IdAux.sumVars_sortNames (card : Name → Nat) {r xs : List Name} (hxs : xs.Nodup) (h : ∀ v, v ∈ r ↔ v ∈ xs)
    (f : Val → Rat) : sumVars card (sortNames r) f = sumVars card xs f :=
  sumVars_congr_set card (sortNames_nodup r) hxs (fun v => mem_sortNames.trans (h v)) f

/-! ### denotation of the constructors -/

variable (env : Env) (σ' : Val)

theorem den_sumSafe (e : Expr) (r : List Name) (σ : Val) :
    den env σ' (sumSafe e r) σ = sumVars env.card (sortNames r) (den env σ' e) σ := by
  unfold sumSafe
  split
  · rename_i h; rw [h]; rfl
  · rename_i a as h
    split
    · rename_i hz
      cases e <;> simp [isZero] at hz
      rw [h]
      simp only [den]
      exact (sumVars_zero env.card _ σ).symm
    · rw [h]
      simp only [den, List.map_map]
      congr 1
      simp [Var.plain, Function.comp_def]

theorem IdAux.denProd_eq (fs : List Expr) (σ : Val) : denProd env σ' fs σ = (fs.map (den env σ' · σ)).prod := by
  induction fs with
  | nil => simp [denProd]
  | cons a l ih => simp [denProd, ih]

theorem IdAux.perm_sortBy {α : Type} (lt : α → α → Bool) (l : List α) : (sortBy lt l).Perm l := by
  have ins : ∀ (x : α) (l : List α), (insertBy lt x l).Perm (x :: l) := by
    intro x l
    induction l with
    | nil => simp [insertBy]
    | cons b l ih =>
      simp only [insertBy]
      split
      · exact ((List.Perm.cons b ih).trans (List.Perm.swap x b l))
      · exact List.Perm.refl _
  induction l with
  | nil => simp [sortBy]
  | cons b l ih =>
    unfold sortBy at ih ⊢
    simp only [List.foldr_cons]
    exact (ins b _).trans (List.Perm.cons b ih)

theorem den_productSafe (es : List Expr) (σ : Val) :
    den env σ' (productSafe es) σ = (es.map (den env σ' · σ)).prod := by
  have hfilter : ((es.filter (fun e => !isOne e)).map (den env σ' · σ)).prod = (es.map (den env σ' · σ)).prod := by
    induction es with
    | nil => rfl
    | cons a l ih =>
      simp only [List.filter_cons]
      cases ha : isOne a with
      | true =>
        have : a = .one := by cases a <;> simp [isOne] at ha; rfl
        subst this
        simp [ih, den]
      | false => simp [ih]
  unfold productSafe
  simp only
  rw [← hfilter]
  split
  · rename_i hz
    obtain ⟨z, hzm, hz0⟩ := List.any_eq_true.mp hz
    have : z = .zero := by cases z <;> simp [isZero] at hz0; rfl
    subst this
    simp only [den]
    symm
    apply List.prod_eq_zero
    exact List.mem_map.mpr ⟨.zero, hzm, by simp [den]⟩
  · split
    · rename_i h; rw [h]; simp [den]
    · rename_i e h; rw [h]; simp
    · simp only [den, denProd_eq]
      exact ((perm_sortBy exprLt _).map _).prod_eq

theorem IdAux.den_mkFrac {n d e : Expr} (h : mkFrac n d = .ok e) (σ : Val) :
    den env σ' e σ = den env σ' n σ / den env σ' d σ := by
  unfold mkFrac at h
  split at h
  · cases h
  · cases h; simp [den]

theorem IdAux.den_prod_eq (fs : List Expr) (σ : Val) : den env σ' (.prod fs) σ = (fs.map (den env σ' · σ)).prod := by
  simp [den, denProd_eq]

theorem den_mul (a b : Expr) : ∀ e, mul a b = .ok e → ∀ σ, den env σ' e σ = den env σ' a σ * den env σ' b σ := by
  fun_induction mul a b
  all_goals (intro e h σ)
  all_goals first
    | (cases h
       first
        | (simp [den]; done)
        | (simp only [den_productSafe, den_prod_eq, List.map_append, List.prod_append, List.map_cons,
             List.prod_cons, List.map_nil, List.prod_nil, mul_one]; done)
        | (simp only [den_productSafe, den_prod_eq, List.map_append, List.prod_append, List.map_cons,
             List.prod_cons, List.map_nil, List.prod_nil, mul_one, den]; done))
    | skip
  · rename_i ih2 ih1
    obtain ⟨x, hx, h⟩ := bind_ok h
    obtain ⟨y, hy, h⟩ := bind_ok h
    rw [den_mkFrac env σ' h, ih2 x hx, ih1 y hy]
    simp only [den]
    rw [mul_div_mul_comm]
  · rename_i ih1
    obtain ⟨x, hx, h⟩ := bind_ok h
    rw [den_mkFrac env σ' h, ih1 x hx]
    simp only [den]
    rw [mul_div_right_comm]
  all_goals
    (rename_i ih1
     obtain ⟨x, hx, h⟩ := bind_ok h
     rw [den_mkFrac env σ' h, ih1 x hx]
     simp only [den]
     rw [mul_div_assoc])

theorem den_div (a b e : Expr) (h : div a b = .ok e) (σ : Val) :
    den env σ' e σ = den env σ' a σ / den env σ' b σ := by
  unfold div at h
  split at h
  · rename_i n d
    split at h
    · cases h; simp [den]
    · rename_i n2 d2
      obtain ⟨x, hx, h⟩ := bind_ok h
      obtain ⟨y, hy, h⟩ := bind_ok h
      rw [den_mkFrac env σ' h, den_mul env σ' _ _ x hx, den_mul env σ' _ _ y hy]
      simp only [den]
      rw [div_div_div_eq]
    · obtain ⟨x, hx, h⟩ := bind_ok h
      rw [den_mkFrac env σ' h, den_mul env σ' _ _ x hx]
      simp only [den]
      rw [div_div]
  · split at h
    · cases h
    · cases h; simp [den]
  · split at h
    · cases h; simp [den]
    · rename_i n2 d2
      obtain ⟨x, hx, h⟩ := bind_ok h
      rw [den_mkFrac env σ' h, den_mul env σ' _ _ x hx]
      simp only [den]
      rw [div_div_eq_mul_div]
    · exact den_mkFrac env σ' h σ

end Y0
