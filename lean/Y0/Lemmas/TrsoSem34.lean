/-
  Y0.Lemmas.TrsoSem34 — soundness of lines 3 and 4 of TRSO under the semantic invariant of Lemmas/TrsoSem.
-/
import Y0.Lemmas.TrsoSem

namespace Y0
namespace Trso
open TrDsl MG IdAux

/-- the invariant does not mention the outcomes / interventions of the query -/
theorem SemInv.congr {ctx : Ctx} {q s : Query} {G : MG Name} (h : SemInv ctx q G) (he : s.expr = q.expr)
    (hd : s.domain = q.domain) (hg : s.graphs = q.graphs) (ha : s.active = q.active) (hs : s.surr = q.surr) :
    SemInv ctx s G := by
  refine ⟨h.rsub, he ▸ h.good, he ▸ h.nd, he ▸ h.est, h.usum, h.ign, ?_, ?_⟩
  · rcases h.shape with ⟨pop, c, hexpr, jc⟩ | ⟨hnj, hwf⟩
    · exact Or.inl ⟨pop, c, he.trans hexpr,
        ⟨hd ▸ jc.okW, fun v hv => hd ▸ jc.okN v hv, jc.cover, jc.within, jc.ignIn, jc.plain, fun S hS σ => hd ▸ jc.marg S hS σ, jc.nodup⟩⟩
    · exact Or.inr ⟨fun pop c => he ▸ hnj pop c, he ▸ hwf⟩
  · intro ha' hs'
    obtain ⟨t1, t2, t3, t4, t5⟩ := h.t0 (ha ▸ ha') (hs ▸ hs')
    exact ⟨hg ▸ t1, t2, he ▸ t3, hg ▸ t4, hg ▸ t5⟩

/-! ### line 3 -/

/-- **line 3**: the nodes without effect on the outcomes become interventions; same carried expression, same
distribution asked for -/
theorem sound_line3 {ctx : Ctx} {Mb : Nat} {q : Query} {G : MG Name} {extra : List Name} (hq : QInv Mb q G)
    (h : SemInv ctx q G) (hex : noEffectOnOutcomes G q.X q.Y = .ok extra) :
    SemInv ctx (line3 q extra) G ∧
      ∀ σ, Spec ctx.M (regularNodes G) (line3 q extra).X (line3 q extra).Y σ = Spec ctx.M (regularNodes G) q.X q.Y σ := by
  refine ⟨h.congr rfl rfl rfl rfl rfl, fun σ => ?_⟩
  unfold noEffectOnOutcomes at hex
  obtain ⟨a, ha, hex⟩ := bind_ok hex
  simp only [pure, Except.pure, Except.ok.injEq] at hex
  subst hex
  have hwf' : (G.removeInEdges q.X).WF := wf_removeInEdges G q.X
  have hV := regularNodes_nodup hq.wfG
  show Spec ctx.M (regularNodes G) (nsort (q.X ++ _)) q.Y σ = _
  apply spec_line3 ctx.sctx (regularNodes G) q.X q.Y _ hV h.rsub.nodes (fun v => decide (v ∈ a))
  · intro x hx hxX hpx r hr _ hpr hrx
    have hedge : (G.removeInEdges q.X).DiEdge r x :=
      (diEdge_removeInEdges G q.X r x).2 ⟨h.rsub.di r x hr hx hrx, hxX⟩
    have : r ∈ a := anc_closed' hwf' ha (by simpa using hpx) hedge
    simp [this] at hpr
  · intro y hy
    simpa using ancestorsInclusive_self hwf' ha y hy
  · intro v hv
    rw [mem_nsort, List.mem_append, List.mem_filter]
    have hvG : v ∈ G.nodes := (mem_regularNodes.1 hv).1
    simp only [decide_eq_true_eq, decide_eq_false_iff_not]
    constructor
    · rintro (hx | ⟨_, _, hna⟩)
      · exact Or.inl hx
      · exact Or.inr hna
    · rintro (hx | hna)
      · exact Or.inl hx
      · by_cases hx : v ∈ q.X
        · exact Or.inl hx
        · exact Or.inr ⟨hvG, hx, hna⟩

/-! ### line 4 -/

/-- `collectTerms` returns the estimands of all sub-calls, in order -/
theorem collectTerms_some : ∀ (rs : List (Except Err (Option Expr))) (ts : List Expr),
    collectTerms rs = .ok (some ts) → List.Forall₂ (fun r t => r = .ok (some t)) rs ts
  | [], ts, h => by
    simp only [collectTerms, Except.ok.injEq, Option.some.injEq] at h
    subst h
    exact .nil
  | .error e :: _, ts, h => by simp [collectTerms] at h
  | .ok none :: _, ts, h => by simp [collectTerms] at h
  | .ok (some t) :: rest, ts, h => by
    simp only [collectTerms, bind, Except.bind] at h
    cases hr : collectTerms rest with
    | error e => rw [hr] at h; cases h
    | ok o =>
      rw [hr] at h
      cases o with
      | none => simp [pure, Except.pure] at h
      | some ts' =>
        simp only [pure, Except.pure, Except.ok.injEq, Option.some.injEq] at h
        subst h
        exact .cons rfl (collectTerms_some rest ts' hr)

/-- **line 4**: if every sub-call returns a sound estimand then the product summed over `V ∖ (X ∪ Y)` is sound.
`hT`: every selection node of the current graph is a target intervention (true when line 3 has nothing to add). -/
theorem sound_line4 {ctx : Ctx} {Mb : Nat} {q : Query} {G : MG Name} (hq : QInv Mb q G) (h : SemInv ctx q G)
    (hT : ∀ t ∈ G.nodes, isTnode t = true → t ∈ q.X) {terms : List Expr}
    (hterms : List.Forall₂ (fun s t => Sound ctx s G t) (line4 q G (G.removeNodes q.X).districts) terms)
    {summand e : Expr} (hs : canonicalize (productSafe terms) = .ok summand)
    (he : canonicalize (sumSafe summand (plainVars (diff' (regularNodes G) (q.X ++ q.Y)))) = .ok e) :
    Sound ctx q G e := by
  have hwf := hq.wfG
  have hV := regularNodes_nodup hwf
  have hwfx := MG.wf_removeNodes G q.X
  set ds := (G.removeNodes q.X).districts with hds
  have hdsV : ∀ d ∈ ds, ∀ v ∈ d, v ∈ regularNodes G ∧ v ∉ q.X := by
    intro d hd v hv
    obtain ⟨h1, h2⟩ := (mem_nodes_removeNodes G hwf q.X v).1 (mem_nodes_of_mem_district hwfx hd hv)
    exact ⟨mem_regularNodes.2 ⟨h1, regular_of_not_mem_X hT h1 h2⟩, h2⟩
  -- every term denotes the c-factor of its component
  have hfac : ∀ (l : List (List Name)) (ts : List Expr), (∀ d ∈ l, d ∈ ds) →
      List.Forall₂ (fun s t => Sound ctx s G t) (line4 q G l) ts →
      (∀ t ∈ ts, Good ctx.S t ∧ SumND t) ∧
      ∀ τ, ts.map (denL ctx.M.card ctx.leaf · τ) = l.map (fun d => ctx.M.Q d τ) := by
    intro l
    induction l with
    | nil =>
      intro ts _ hF
      cases hF
      exact ⟨fun t ht => (by cases ht), fun τ => rfl⟩
    | cons d l ih =>
      intro ts hl hF
      unfold line4 at hF
      rw [List.map_cons] at hF
      cases hF with
      | cons h1 h2 =>
        rename_i t ts'
        obtain ⟨ihg, ihd⟩ := ih ts' (fun d' hd' => hl d' (List.mem_cons_of_mem _ hd')) h2
        have hdds := hl d List.mem_cons_self
        refine ⟨?_, fun τ => ?_⟩
        · intro t' ht'
          rcases List.mem_cons.1 ht' with rfl | ht'
          · exact ⟨h1.1, h1.2.1⟩
          · exact ihg t' ht'
        · simp only [List.map_cons]
          rw [ihd τ, h1.2.2 τ]
          congr 1
          apply spec_component ctx.M (regularNodes G) d _ _ hV (nodup_of_mem_districts hdds)
            (fun v hv => (hdsV d hdds v hv).1)
          · intro v hv
            show v ∈ diff' (regularNodes G) d ↔ _
            rw [mem_diff']
            exact ⟨fun a => a.2, fun a => ⟨hv, a⟩⟩
          · intro v
            show v ∈ nsort d ↔ _
            exact mem_nsort v d
  obtain ⟨hgood, hden⟩ := hfac ds terms (fun _ hd => hd) hterms
  have hsep : ds.Pairwise (fun d1 d2 => ∀ v ∈ d1, ∀ w ∈ d2, ∀ u, u ∈ ctx.M.latOf v → u ∉ ctx.M.latOf w) := by
    apply (districts_disjoint _ hwfx).imp_of_mem
    intro d1 d2 hd1 hd2 hdisj v hv w hw u hu1 hu2
    have hne : v ≠ w := fun e => hdisj v hv (e ▸ hw)
    obtain ⟨hvV, hvX⟩ := hdsV d1 hd1 v hv
    obtain ⟨hwV, hwX⟩ := hdsV d2 hd2 w hw
    have hbi := ctx.sctx.hM.compat v (h.rsub.nodes v hvV) w (h.rsub.nodes w hwV) hne ⟨u, hu1, hu2⟩
    have hbi' : G.BiEdge v w := h.rsub.bi v w hvV hwV hbi
    have hbix : (G.removeNodes q.X).BiEdge v w := (biEdge_removeNodes G q.X v w).mpr ⟨hbi', hvX, hwX⟩
    exact hdisj w ((districts_spec _ hwfx d1 hd1 v hv w).mpr (.single hbix)) hw
  have hprodGood : Good ctx.S (productSafe terms) := good_productSafe ctx.S (fun t ht => (hgood t ht).1)
  have hprodND : SumND (productSafe terms) := sumND_productSafe (fun t ht => (hgood t ht).2)
  have hsumGood : Good ctx.S summand := good_canonicalize ctx.S hprodGood hs
  have hsumND : SumND summand := sumND_canonicalize hprodND hs
  have hprod : ∀ τ, denL ctx.M.card ctx.leaf summand τ = ctx.M.Q ((regularNodes G).filter (· ∉ q.X)) τ := by
    intro τ
    rw [denL_canonicalize ctx.S hprodGood hprodND hs τ, denL_productSafe, hden τ]
    apply Q_components ctx.sctx _ (hV.filter _) ds (fun d hd => nodup_of_mem_districts hd)
      ((districts_disjoint _ hwfx).imp (fun hh x hx => hh x hx)) _ _ hsep τ
    · intro v
      rw [List.mem_filter]
      constructor
      · rintro ⟨h1, h2⟩
        have h2' : v ∉ q.X := by simpa using h2
        exact (districts_cover _ hwfx v).1
          ((mem_nodes_removeNodes G hwf q.X v).2 ⟨(mem_regularNodes.1 h1).1, h2'⟩)
      · rintro ⟨d, hd, hvd⟩
        obtain ⟨h1, h2⟩ := hdsV d hd v hvd
        exact ⟨h1, by simpa using h2⟩
    · intro v hv
      exact h.rsub.nodes v (List.mem_filter.1 hv).1
  have hns : ∀ n ∈ diff' (regularNodes G) (q.X ++ q.Y), n ∈ regularNodes G := fun n hn => (mem_diff'.1 hn).1
  have hr := h.rng hns
  have good1 : Good ctx.S (sumSafe summand (plainVars (diff' (regularNodes G) (q.X ++ q.Y)))) :=
    good_sumSafe ctx.S false hsumGood hr
  have nd1 : SumND (sumSafe summand (plainVars (diff' (regularNodes G) (q.X ++ q.Y)))) := sumND_sumSafe false hsumND
  refine ⟨good_canonicalize ctx.S good1 he, sumND_canonicalize nd1 he, fun σ => ?_⟩
  rw [denL_canonicalize ctx.S good1 nd1 he σ, denL_sumSafe_false]
  unfold Spec
  rw [sumVars_plainVars_set ctx.M.card (fun n hn => regular_notT (hns n hn))
    (xs := (regularNodes G).filter (fun v => v ∉ q.X ∧ v ∉ q.Y)) (hV.filter _)
    (fun v => by simp [mem_diff', List.mem_filter, not_or])]
  exact congrFun (congrArg _ (funext hprod)) σ

end Trso
end Y0
