/-
  Y0.Lemmas.IdZeroFree — ID never produces the constant `Zero()`: the estimands it returns are zero-free, hence the
  final normalisation of IDC (`e / Σ_Y e`) cannot raise `ZeroDivisionError`.
-/
import Y0.Lemmas.IdTotal

namespace Y0
open IdDsl IdAux

/-- no `Zero()` anywhere in the expression -/
inductive ZF : Expr → Prop
  | prob (pop : Option Var) (c p : List Var) : ZF (.prob pop c p)
  | prod (fs : List Expr) : (∀ f ∈ fs, ZF f) → ZF (.prod fs)
  | sum (e : Expr) (r : List Var) : ZF e → ZF (.sum e r)
  | frac (n d : Expr) : ZF n → ZF d → ZF (.frac n d)
  | one : ZF .one
  | q (a b : List Var) : ZF (.q a b)

theorem ZF.not_zero {e : Expr} (h : ZF e) : isZero e = false := by
  cases h <;> rfl

theorem zf_prod_inv {es : List Expr} (h : ZF (.prod es)) : ∀ f ∈ es, ZF f := by
  cases h with | prod _ h => exact h

theorem zf_frac_inv {n d : Expr} (h : ZF (.frac n d)) : ZF n ∧ ZF d := by
  cases h with | frac _ _ h1 h2 => exact ⟨h1, h2⟩

theorem zf_sumSafe {e : Expr} (h : ZF e) (r : List Name) : ZF (sumSafe e r) := by
  unfold sumSafe
  split
  · exact h
  · split
    · exact h
    · exact .sum _ _ h

theorem zf_productSafe {es : List Expr} (h : ∀ e ∈ es, ZF e) : ZF (productSafe es) := by
  unfold productSafe
  simp only
  split
  · rename_i hz
    obtain ⟨z, hzm, hz0⟩ := List.any_eq_true.mp hz
    rw [(h z (List.mem_filter.mp hzm).1).not_zero] at hz0
    cases hz0
  · split
    · exact .one
    · rename_i e heq
      have : e ∈ es.filter (fun e => !isOne e) := by rw [heq]; simp
      exact h e (List.mem_filter.mp this).1
    · refine .prod _ ?_
      intro f hf
      rw [mem_sortBy] at hf
      exact h f (List.mem_filter.mp hf).1

theorem mkFrac_zf {n d : Expr} (hn : ZF n) (hd : ZF d) : mkFrac n d = .ok (.frac n d) ∧ ZF (.frac n d) := by
  unfold mkFrac
  simp [hd.not_zero, ZF.frac _ _ hn hd]

/-- on zero-free arguments `*` never fails and gives a zero-free result -/
theorem mul_zf (a b : Expr) : ZF a → ZF b → ∃ e, mul a b = .ok e ∧ ZF e := by
  fun_induction mul a b
  all_goals (intro ha hb)
  all_goals first
    | exact ⟨_, rfl, hb⟩
    | exact ⟨_, rfl, ha⟩
    | (cases ha; done)
    | (cases hb; done)
    | (refine ⟨_, rfl, zf_productSafe ?_⟩
       intro f hf
       simp only [List.mem_append, List.mem_cons, List.not_mem_nil, or_false] at hf
       rcases hf with hf | hf | hf <;>
         first
          | (subst hf; assumption)
          | exact zf_prod_inv ha f hf
          | exact zf_prod_inv hb f hf)
    | (refine ⟨_, rfl, zf_productSafe ?_⟩
       intro f hf
       simp only [List.mem_append, List.mem_cons, List.not_mem_nil, or_false] at hf
       rcases hf with hf | hf <;>
         first
          | (subst hf; assumption)
          | exact zf_prod_inv ha f hf
          | exact zf_prod_inv hb f hf)
    | skip
  · rename_i ih2 ih1
    obtain ⟨x, hx, hxz⟩ := ih2 (zf_frac_inv ha).1 (zf_frac_inv hb).1
    obtain ⟨y, hy, hyz⟩ := ih1 (zf_frac_inv ha).2 (zf_frac_inv hb).2
    exact ⟨_, by simp [hx, hy, bind, Except.bind, (mkFrac_zf hxz hyz).1], (mkFrac_zf hxz hyz).2⟩
  · rename_i ih1
    obtain ⟨x, hx, hxz⟩ := ih1 (zf_frac_inv ha).1 hb
    exact ⟨_, by simp [hx, bind, Except.bind, (mkFrac_zf hxz (zf_frac_inv ha).2).1],
      (mkFrac_zf hxz (zf_frac_inv ha).2).2⟩
  all_goals
    (rename_i ih1
     obtain ⟨x, hx, hxz⟩ := ih1 ha (zf_frac_inv hb).1
     exact ⟨_, by simp [hx, bind, Except.bind, (mkFrac_zf hxz (zf_frac_inv hb).2).1],
       (mkFrac_zf hxz (zf_frac_inv hb).2).2⟩)

/-- on zero-free arguments `/` never fails and gives a zero-free result -/
theorem div_zf (a b : Expr) (ha : ZF a) (hb : ZF b) : ∃ e, div a b = .ok e ∧ ZF e := by
  unfold div
  split
  · rename_i n d
    split
    · exact ⟨_, rfl, ha⟩
    · rename_i n2 d2
      obtain ⟨x, hx, hxz⟩ := mul_zf n d2 (zf_frac_inv ha).1 (zf_frac_inv hb).2
      obtain ⟨y, hy, hyz⟩ := mul_zf d n2 (zf_frac_inv ha).2 (zf_frac_inv hb).1
      exact ⟨_, by simp [hx, hy, bind, Except.bind, (mkFrac_zf hxz hyz).1], (mkFrac_zf hxz hyz).2⟩
    · obtain ⟨x, hx, hxz⟩ := mul_zf d b (zf_frac_inv ha).2 hb
      exact ⟨_, by simp [hx, bind, Except.bind, (mkFrac_zf (zf_frac_inv ha).1 hxz).1],
        (mkFrac_zf (zf_frac_inv ha).1 hxz).2⟩
  · cases ha
  · split
    · exact ⟨_, rfl, ha⟩
    · rename_i n2 d2
      obtain ⟨x, hx, hxz⟩ := mul_zf a d2 ha (zf_frac_inv hb).2
      exact ⟨_, by simp [hx, bind, Except.bind, (mkFrac_zf hxz (zf_frac_inv hb).1).1],
        (mkFrac_zf hxz (zf_frac_inv hb).1).2⟩
    · exact ⟨_, (mkFrac_zf ha hb).1, (mkFrac_zf ha hb).2⟩

theorem zf_pParents {order : List Name} {est : Expr} {child : Name} {e : Expr}
    (h : pParents order est child = .ok e) (hest : ZF est) : ZF e := by
  obtain ⟨_, i, _, h | h⟩ := pParents_ok h
  · rw [h.2]; exact .prob _ _ _
  · obtain ⟨e', he', hz⟩ := div_zf _ _ (zf_sumSafe hest (order.drop (i + 1))) (zf_sumSafe hest (order.drop i))
    rw [h.2] at he'
    cases he'
    exact hz

/-- every estimand ID returns is zero-free -/
theorem idAlg_zf (topo : MG Name → Except Err (List Name)) :
    ∀ I e, idAlg topo I = .ok e → ZF I.est → ZF e := by
  apply idAlg_ok_induct topo (fun I e => ZF I.est → ZF e)
  · intro I e hs hest
    cases step_ok hs with
    | l1 _ => exact zf_sumSafe hest _
    | l6 anc anc' S D order fs _ _ _ _ _ _ _ ho hf =>
      apply zf_sumSafe
      apply zf_productSafe
      intro f hfm
      obtain ⟨v, _, hv⟩ := forall₂_right ((mapM_ok_iff _ _ _).mp hf) f hfm
      exact zf_pParents hv hest
  · intro I J e hs _ ih hest
    cases step_ok hs with
    | l2 anc _ _ _ => exact ih (zf_sumSafe hest _)
    | l3 anc anc' _ _ _ _ _ => exact ih hest
    | l7 anc anc' S D order fs _ _ _ _ _ _ _ ho hf =>
      apply ih
      apply zf_productSafe
      intro f hfm
      obtain ⟨v, _, hv⟩ := forall₂_right ((mapM_ok_iff _ _ _).mp hf) f hfm
      exact zf_pParents hv hest
  · intro I Js ranges es hs hall hest
    cases step_ok hs with
    | l4 anc anc' _ _ _ =>
      apply zf_sumSafe
      apply zf_productSafe
      intro f hf
      obtain ⟨J, hJ, _, hP⟩ := forall₂_right hall f hf
      simp only [List.mem_map] at hJ
      obtain ⟨S, _, rfl⟩ := hJ
      exact hP hest

end Y0
