/-
  Y0.Lemmas.TrsoDenOps — what the constructors / operators of Y0.Model.TrDsl mean (`denL`, Lemmas/TrsoSemDefs):
  `Product.safe` is the product, `*` the product, `/` and `Fraction(...)` the quotient, `Sum.safe(simplify=False)` the
  iterated sum, `Fraction.simplify` keeps the value when every factor is non-zero (cancellation of equal factors), the
  re-check of trivial fractions and the flattening of products done by `canonicalize` keep the value.
  Division is field division (`x / 0 = 0`); lemmas that cancel need `Good S` (hence positivity) of the operands.
-/
import Y0.Lemmas.TrsoSemDefs
import Mathlib.Algebra.Order.Field.Basic
import Mathlib.Algebra.BigOperators.Group.List.Basic
import Mathlib.Tactic.FieldSimp
import Mathlib.Tactic.Ring

namespace Y0
namespace Trso
open TrDsl

variable {card : Name → Nat} {leaf : LeafFn}

/-! ### unfolding `denL` -/

@[simp] theorem TrsoAux.denL_prob (pop : Option Var) (c p : List Var) (σ : Val) :
    denL card leaf (.prob pop c p) σ = leaf pop c p σ := by simp [denL]
@[simp] theorem TrsoAux.denL_prod' (fs : List Expr) (σ : Val) :
    denL card leaf (.prod fs) σ = denLProd card leaf fs σ := by simp [denL]
@[simp] theorem TrsoAux.denL_sum (e : Expr) (r : List Var) (σ : Val) :
    denL card leaf (.sum e r) σ = sumVars card (r.map (·.name)) (fun τ => denL card leaf e τ) σ := by simp [denL]
@[simp] theorem TrsoAux.denL_frac (n d : Expr) (σ : Val) :
    denL card leaf (.frac n d) σ = denL card leaf n σ / denL card leaf d σ := by simp [denL]
@[simp] theorem TrsoAux.denL_one (σ : Val) : denL card leaf .one σ = 1 := by simp [denL]
@[simp] theorem TrsoAux.denL_zero (σ : Val) : denL card leaf .zero σ = 0 := by simp [denL]
@[simp] theorem TrsoAux.denL_q (d c : List Var) (σ : Val) : denL card leaf (.q d c) σ = 0 := by simp [denL]
@[simp] theorem TrsoAux.denLProd_nil (σ : Val) : denLProd card leaf [] σ = 1 := by simp [denLProd]
@[simp] theorem TrsoAux.denLProd_cons (e : Expr) (es : List Expr) (σ : Val) :
    denLProd card leaf (e :: es) σ = denL card leaf e σ * denLProd card leaf es σ := by simp [denLProd]

theorem denLProd_eq (fs : List Expr) (σ : Val) :
    denLProd card leaf fs σ = (fs.map (denL card leaf · σ)).prod := by
  induction fs with
  | nil => simp
  | cons a l ih => simp [ih]

theorem denL_prod (fs : List Expr) (σ : Val) :
    denL card leaf (.prod fs) σ = (fs.map (denL card leaf · σ)).prod := by
  rw [TrsoAux.denL_prod', denLProd_eq]

theorem TrsoAux.denLProd_append (l₁ l₂ : List Expr) (σ : Val) :
    denLProd card leaf (l₁ ++ l₂) σ = denLProd card leaf l₁ σ * denLProd card leaf l₂ σ := by
  induction l₁ with
  | nil => simp
  | cons a l ih => simp [ih, mul_assoc]

theorem TrsoAux.denLProd_perm {l₁ l₂ : List Expr} (h : l₁.Perm l₂) (σ : Val) :
    denLProd card leaf l₁ σ = denLProd card leaf l₂ σ := by
  induction h with
  | nil => rfl
  | cons x _ ih => simp [ih]
  | swap x y l => simp only [TrsoAux.denLProd_cons]; ring
  | trans _ _ ih₁ ih₂ => rw [ih₁, ih₂]

theorem TrsoAux.isOne_iff {e : Expr} : isOne e = true ↔ e = .one := by cases e <;> simp [isOne]
theorem TrsoAux.isZero_iff {e : Expr} : isZero e = true ↔ e = .zero := by cases e <;> simp [isZero]

mutual
theorem TrsoAux.exprEq_sound_aux : ∀ (a b : Expr), exprEq a b = true → a = b
  | .prob p1 c1 a1, .prob p2 c2 a2, h => by
    simp only [exprEq, Bool.and_eq_true, decide_eq_true_eq] at h
    obtain ⟨⟨h1, h2⟩, h3⟩ := h
    subst h1 h2 h3; rfl
  | .prod f, .prod g, h => by
    simp only [exprEq] at h
    rw [TrsoAux.exprsEq_sound f g h]
  | .sum e r, .sum e' r', h => by
    simp only [exprEq, Bool.and_eq_true, decide_eq_true_eq] at h
    rw [TrsoAux.exprEq_sound_aux e e' h.1, h.2]
  | .frac n d, .frac n' d', h => by
    simp only [exprEq, Bool.and_eq_true] at h
    rw [TrsoAux.exprEq_sound_aux n n' h.1, TrsoAux.exprEq_sound_aux d d' h.2]
  | .one, .one, _ => rfl
  | .zero, .zero, _ => rfl
  | .q d c, .q d' c', h => by
    simp only [exprEq, Bool.and_eq_true, decide_eq_true_eq] at h
    rw [h.1, h.2]
  | .prob _ _ _, .prod _, h | .prob _ _ _, .sum _ _, h | .prob _ _ _, .frac _ _, h | .prob _ _ _, .one, h
  | .prob _ _ _, .zero, h | .prob _ _ _, .q _ _, h => by simp [exprEq] at h
  | .prod _, .prob _ _ _, h | .prod _, .sum _ _, h | .prod _, .frac _ _, h | .prod _, .one, h
  | .prod _, .zero, h | .prod _, .q _ _, h => by simp [exprEq] at h
  | .sum _ _, .prob _ _ _, h | .sum _ _, .prod _, h | .sum _ _, .frac _ _, h | .sum _ _, .one, h
  | .sum _ _, .zero, h | .sum _ _, .q _ _, h => by simp [exprEq] at h
  | .frac _ _, .prob _ _ _, h | .frac _ _, .prod _, h | .frac _ _, .sum _ _, h | .frac _ _, .one, h
  | .frac _ _, .zero, h | .frac _ _, .q _ _, h => by simp [exprEq] at h
  | .one, .prob _ _ _, h | .one, .prod _, h | .one, .sum _ _, h | .one, .frac _ _, h
  | .one, .zero, h | .one, .q _ _, h => by simp [exprEq] at h
  | .zero, .prob _ _ _, h | .zero, .prod _, h | .zero, .sum _ _, h | .zero, .frac _ _, h
  | .zero, .one, h | .zero, .q _ _, h => by simp [exprEq] at h
  | .q _ _, .prob _ _ _, h | .q _ _, .prod _, h | .q _ _, .sum _ _, h | .q _ _, .frac _ _, h
  | .q _ _, .one, h | .q _ _, .zero, h => by simp [exprEq] at h
theorem TrsoAux.exprsEq_sound : ∀ (a b : List Expr), exprsEq a b = true → a = b
  | [], [], _ => rfl
  | x :: xs, y :: ys, h => by
    simp only [exprsEq, Bool.and_eq_true] at h
    rw [TrsoAux.exprEq_sound_aux x y h.1, TrsoAux.exprsEq_sound xs ys h.2]
  | [], _ :: _, h => by simp [exprsEq] at h
  | _ :: _, [], h => by simp [exprsEq] at h
end

/-- `exprEq` (dataclass `==`) decides equality -/
theorem exprEq_sound (a b : Expr) (h : exprEq a b = true) : a = b := TrsoAux.exprEq_sound_aux a b h

/-! ### positivity -/

/-- every admissible leaf is positive -/
theorem LeafSem.leaf_pos (S : LeafSem card leaf) {pop : Option Var} {c p : List Var} (h : S.Adm pop c p) (σ : Val) :
    0 < leaf pop c p σ := by
  obtain ⟨w, hw, hv⟩ := h
  rw [S.leaf_eq pop w c p hw hv σ]
  exact div_pos (S.pos _ _ _ hw σ) (S.pos _ _ _ hw σ)

theorem TrsoAux.sumVars_pos (card : Name → Nat) (xs : List Name) (f : Val → Rat) (σ : Val) (hc : ∀ x, 0 < card x)
    (h : ∀ τ, 0 < f τ) : 0 < sumVars card xs f σ := by
  induction xs generalizing σ with
  | nil => exact h σ
  | cons x xs ih => exact sumVar_pos card x _ σ (hc x) ih

mutual
theorem TrsoAux.pos_aux (S : LeafSem card leaf) : ∀ (e : Expr), Clean e → Wf S.Adm S.Rng e → ∀ σ, 0 < denL card leaf e σ
  | .prob (some pop) c p, _, hw, σ => by
    rw [TrsoAux.denL_prob]; exact S.leaf_pos hw σ
  | .prob none _ _, hc, _, _ => hc.elim
  | .prod fs, hc, hw, σ => by
    rw [TrsoAux.denL_prod']; exact TrsoAux.posList_aux S fs hc hw σ
  | .sum e r, hc, hw, σ => by
    rw [TrsoAux.denL_sum]
    exact TrsoAux.sumVars_pos card _ _ σ S.card_pos (fun τ => TrsoAux.pos_aux S e hc hw.1 τ)
  | .frac n d, hc, hw, σ => by
    rw [TrsoAux.denL_frac]
    exact div_pos (TrsoAux.pos_aux S n hc.1 hw.1 σ) (TrsoAux.pos_aux S d hc.2 hw.2 σ)
  | .one, _, _, σ => by rw [TrsoAux.denL_one]; exact zero_lt_one
  | .zero, hc, _, _ => hc.elim
  | .q _ _, hc, _, _ => hc.elim
theorem TrsoAux.posList_aux (S : LeafSem card leaf) : ∀ (es : List Expr), CleanList es → WfList S.Adm S.Rng es →
    ∀ σ, 0 < denLProd card leaf es σ
  | [], _, _, σ => by rw [TrsoAux.denLProd_nil]; exact zero_lt_one
  | e :: es, hc, hw, σ => by
    rw [TrsoAux.denLProd_cons]
    exact mul_pos (TrsoAux.pos_aux S e hc.1 hw.1 σ) (TrsoAux.posList_aux S es hc.2 hw.2 σ)
end

/-- a good expression denotes a positive number at every assignment -/
theorem good_pos (S : LeafSem card leaf) {e : Expr} (h : Good S e) (σ : Val) : 0 < denL card leaf e σ :=
  TrsoAux.pos_aux S e h.1 h.2 σ

theorem goodList_pos (S : LeafSem card leaf) {es : List Expr} (h : GoodList S es) (σ : Val) :
    0 < denLProd card leaf es σ :=
  TrsoAux.posList_aux S es h.1 h.2 σ

/-! ### constructors -/

theorem TrsoAux.denLProd_filter_notOne (es : List Expr) (σ : Val) :
    denLProd card leaf (es.filter (fun e => !isOne e)) σ = denLProd card leaf es σ := by
  induction es with
  | nil => rfl
  | cons a l ih =>
    by_cases h : isOne a = true
    · rw [List.filter_cons_of_neg (by simp [h]), ih]
      have ha : a = .one := TrsoAux.isOne_iff.mp h
      subst ha
      simp
    · rw [List.filter_cons_of_pos (by simp [h])]
      simp [ih]

theorem TrsoAux.denLProd_eq_zero_of_mem {es : List Expr} {e : Expr} (he : e ∈ es) (σ : Val)
    (h0 : denL card leaf e σ = 0) : denLProd card leaf es σ = 0 := by
  induction es with
  | nil => cases he
  | cons a l ih =>
    rcases List.mem_cons.mp he with rfl | h
    · simp [h0]
    · simp [ih h]

theorem TrsoAux.insertStable_perm {α} (lt : α → α → Bool) (x : α) (l : List α) : (insertStable lt x l).Perm (x :: l) := by
  induction l with
  | nil => exact List.Perm.refl _
  | cons y ys ih =>
    unfold insertStable
    split
    · exact (List.Perm.cons y ih).trans (List.Perm.swap x y ys)
    · exact List.Perm.refl _

theorem TrsoAux.ssort_perm {α} (lt : α → α → Bool) (l : List α) : (ssort lt l).Perm l := by
  induction l with
  | nil => exact List.Perm.refl _
  | cons x xs ih =>
    show (insertStable lt x (ssort lt xs)).Perm (x :: xs)
    exact (TrsoAux.insertStable_perm lt x _).trans (List.Perm.cons x ih)

/-- `Product.safe` denotes the product of its arguments (in `denLProd` form) -/
theorem TrsoAux.denL_productSafe' (es : List Expr) (σ : Val) :
    denL card leaf (productSafe es) σ = denLProd card leaf es σ := by
  unfold productSafe
  simp only
  rw [← TrsoAux.denLProd_filter_notOne es σ]
  generalize es.filter (fun e => !isOne e) = l
  by_cases hz : l.any isZero = true
  · rw [if_pos hz]
    obtain ⟨e, he, hez⟩ := List.any_eq_true.mp hz
    have : e = .zero := TrsoAux.isZero_iff.mp hez
    subst this
    rw [TrsoAux.denLProd_eq_zero_of_mem he σ (by simp)]
    simp
  · rw [if_neg hz]
    match l with
    | [] => simp
    | [e] => simp
    | a :: b :: r =>
      simp only [TrsoAux.denL_prod']
      exact TrsoAux.denLProd_perm (TrsoAux.ssort_perm _ _) σ

theorem denL_productSafe (es : List Expr) (σ : Val) :
    denL card leaf (productSafe es) σ = (es.map (denL card leaf · σ)).prod := by
  rw [TrsoAux.denL_productSafe', denLProd_eq]

theorem denL_mkFrac {n d e : Expr} (h : mkFrac n d = .ok e) (σ : Val) :
    denL card leaf e σ = denL card leaf n σ / denL card leaf d σ := by
  unfold mkFrac at h
  split at h
  · cases h
  · cases h; simp

theorem denL_mulF : ∀ (fuel : Nat) (a b e : Expr), mulF fuel a b = .ok e →
    ∀ σ, denL card leaf e σ = denL card leaf a σ * denL card leaf b σ := by
  intro fuel
  induction fuel with
  | zero => intro a b e h; simp [mulF] at h
  | succ fuel ih =>
    intro a b e h σ
    unfold mulF at h
    have fracStep : ∀ {x n d : Expr}, (do mkFrac (← mulF fuel x n) d) = Except.ok e →
        denL card leaf e σ = denL card leaf x σ * (denL card leaf n σ / denL card leaf d σ) := by
      intro x n d h
      obtain ⟨m, hm, hc⟩ := bind_ok h
      rw [denL_mkFrac hc, ih _ _ _ hm σ, mul_div_assoc]
    have fracStep' : ∀ {n d b : Expr}, (do mkFrac (← mulF fuel n b) d) = Except.ok e →
        denL card leaf e σ = denL card leaf n σ / denL card leaf d σ * denL card leaf b σ := by
      intro n d b h
      obtain ⟨m, hm, hc⟩ := bind_ok h
      rw [denL_mkFrac hc, ih _ _ _ hm σ, div_mul_eq_mul_div]
    cases a with
    | one => simp at h; cases h; simp
    | zero => simp at h; cases h; simp
    | prob pop c p =>
      cases b with
      | frac n d => simp only [] at h; rw [fracStep h]; simp
      | _ => simp at h; cases h; simp [TrsoAux.denL_productSafe']
    | prod fs =>
      cases b with
      | frac n d => simp only [] at h; rw [fracStep h]; simp
      | _ => simp at h; cases h; simp [TrsoAux.denL_productSafe', TrsoAux.denLProd_append]
    | sum s r =>
      cases b with
      | _ => simp at h; cases h; simp [TrsoAux.denL_productSafe']
    | frac n d =>
      cases b with
      | zero => simp at h; cases h; simp
      | frac n' d' =>
        simp only [] at h
        obtain ⟨x, hx, h⟩ := bind_ok h
        obtain ⟨y, hy, hc⟩ := bind_ok h
        rw [denL_mkFrac hc, ih _ _ _ hx σ, ih _ _ _ hy σ]
        simp [div_mul_div_comm]
      | _ => simp only [] at h; rw [fracStep' h]; simp
    | q dm cd =>
      cases b with
      | _ => simp at h; cases h; simp [TrsoAux.denL_productSafe']

theorem denL_mul {a b e : Expr} (h : mul a b = .ok e) (σ : Val) :
    denL card leaf e σ = denL card leaf a σ * denL card leaf b σ :=
  denL_mulF _ a b e h σ

theorem denL_truediv {a b e : Expr} (h : truediv a b = .ok e) (σ : Val) :
    denL card leaf e σ = denL card leaf a σ / denL card leaf b σ := by
  unfold truediv at h
  have base : ∀ {a : Expr},
      (match b with
        | .one => Except.ok a
        | .frac n' d' => do mkFrac (← mul a d') n'
        | _ => mkFrac a b) = Except.ok e → denL card leaf e σ = denL card leaf a σ / denL card leaf b σ := by
    intro a h
    cases b with
    | one => simp at h; cases h; simp
    | frac n' d' =>
      simp only [] at h
      obtain ⟨m, hm, hc⟩ := bind_ok h
      rw [denL_mkFrac hc, denL_mul hm]
      simp only [TrsoAux.denL_frac, div_div_eq_mul_div]
    | _ => exact denL_mkFrac h σ
  cases a with
  | zero => simp only [] at h; split at h <;> cases h; simp
  | frac n d =>
    have fr : ∀ {b : Expr}, (do mkFrac n (← mul d b)) = Except.ok e →
        denL card leaf e σ = denL card leaf n σ / denL card leaf d σ / denL card leaf b σ := by
      intro b h
      obtain ⟨m, hm, hc⟩ := bind_ok h
      rw [denL_mkFrac hc, denL_mul hm, div_div]
    cases b with
    | one => simp at h; cases h; simp
    | frac n' d' =>
      simp only [] at h
      obtain ⟨x, hx, h⟩ := bind_ok h
      obtain ⟨y, hy, hc⟩ := bind_ok h
      rw [denL_mkFrac hc, denL_mul hx, denL_mul hy]
      simp only [TrsoAux.denL_frac]
      rw [div_div_div_eq]
    | _ => rw [fr h]; simp
  | _ => exact base h

theorem TrsoAux.sumVars_zero (card : Name → Nat) (xs : List Name) (σ : Val) :
    sumVars card xs (fun _ => (0 : Rat)) σ = 0 := by
  induction xs generalizing σ with
  | nil => rfl
  | cons x xs ih =>
    simp only [sumVars]
    have : sumVars card xs (fun _ => (0 : Rat)) = fun _ => 0 := funext ih
    rw [this, sumVar_eq_sum]
    simp

/-- `Sum.safe(e, ranges)` without simplification denotes the iterated sum over the (sorted, duplicate-free) ranges -/
theorem denL_sumSafe_false (e : Expr) (rs : List Var) (σ : Val) :
    denL card leaf (sumSafe e rs false) σ =
      sumVars card ((sortVars rs).map (·.name)) (fun τ => denL card leaf e τ) σ := by
  unfold sumSafe
  simp only
  by_cases h : (sortVars rs).isEmpty = true
  · rw [if_pos h]
    have : sortVars rs = [] := List.isEmpty_iff.mp h
    rw [this]; rfl
  · rw [if_neg h]
    by_cases hz : isZero e = true
    · rw [if_pos hz]
      have : e = .zero := TrsoAux.isZero_iff.mp hz
      subst this
      simp [TrsoAux.sumVars_zero]
    · rw [if_neg hz]; simp

/-! ### Fraction.simplify -/

theorem TrsoAux.denLProd_eraseIdx (n : Expr) (σ : Val) : ∀ (den : List Expr) (j : Nat),
    den.findIdx? (fun d => exprEq n d) = some j →
    denLProd card leaf den σ = denL card leaf n σ * denLProd card leaf (den.eraseIdx j) σ := by
  intro den
  induction den with
  | nil => intro j h; simp at h
  | cons d ds ih =>
    intro j h
    rw [List.findIdx?_cons] at h
    split at h
    · rename_i hp
      cases h
      have := exprEq_sound n d hp
      subst this
      simp
    · cases hf : ds.findIdx? (fun d => exprEq n d) with
      | none => simp [hf] at h
      | some j' =>
        simp [hf] at h
        subst h
        simp only [List.eraseIdx_cons_succ, TrsoAux.denLProd_cons]
        rw [ih j' hf]; ring

theorem TrsoAux.cancelParts_den (σ : Val) : ∀ (num den : List Expr), (∀ f ∈ num, denL card leaf f σ ≠ 0) →
    denLProd card leaf (cancelParts num den).1 σ / denLProd card leaf (cancelParts num den).2 σ =
      denLProd card leaf num σ / denLProd card leaf den σ := by
  intro num
  induction num with
  | nil => intro den _; simp [cancelParts]
  | cons n ns ih =>
    intro den hnz
    have hn0 : denL card leaf n σ ≠ 0 := hnz n (by simp)
    have hns : ∀ f ∈ ns, denL card leaf f σ ≠ 0 := fun f hf => hnz f (by simp [hf])
    unfold cancelParts
    split
    · rename_i j hj
      rw [ih _ hns, TrsoAux.denLProd_eraseIdx n σ den j hj, TrsoAux.denLProd_cons, mul_div_mul_left _ _ hn0]
    · have := ih den hns
      generalize cancelParts ns den = c at this ⊢
      obtain ⟨a, b⟩ := c
      simp only [TrsoAux.denLProd_cons] at this ⊢
      rw [mul_div_assoc, this, mul_div_assoc]

theorem TrsoAux.simplifyParts_den {ns ds : List Expr} {e : Expr} (h : simplifyParts ns ds = .ok e) (σ : Val)
    (hnz : ∀ f ∈ ns, denL card leaf f σ ≠ 0) :
    denL card leaf e σ = denLProd card leaf ns σ / denLProd card leaf ds σ := by
  rw [← TrsoAux.cancelParts_den σ ns ds hnz]
  unfold simplifyParts at h
  generalize cancelParts ns ds = r at h ⊢
  obtain ⟨nn, dd⟩ := r
  simp only at h ⊢
  match nn, dd, h with
  | [], [], h => simp at h; cases h; simp
  | _ :: _, [], h => simp at h; cases h; simp [TrsoAux.denL_productSafe']
  | [], _ :: _, h => simp at h; rw [denL_truediv h]; simp [TrsoAux.denL_productSafe']
  | _ :: _, _ :: _, h => simp at h; rw [denL_mkFrac h]; simp [TrsoAux.denL_productSafe']

theorem TrsoAux.good_prod_ne (S : LeafSem card leaf) {ns : List Expr} (h : Good S (.prod ns)) (σ : Val) :
    ∀ f ∈ ns, denL card leaf f σ ≠ 0 :=
  fun f hf => ne_of_gt (good_pos S ((goodList_iff S ns).1 ⟨h.1, h.2⟩ f hf) σ)

theorem TrsoAux.denL_fracSimplifyF (S : LeafSem card leaf) : ∀ (fuel : Nat) {n d e : Expr}, Good S n → Good S d →
    fracSimplifyF fuel n d = .ok e → ∀ σ, denL card leaf e σ = denL card leaf n σ / denL card leaf d σ := by
  intro fuel
  induction fuel with
  | zero => intro n d e _ _ h; simp [fracSimplifyF] at h
  | succ fuel ih =>
    intro n d e hn hd h σ
    have hn0 : denL card leaf n σ ≠ 0 := ne_of_gt (good_pos S hn σ)
    have hd0 : denL card leaf d σ ≠ 0 := ne_of_gt (good_pos S hd σ)
    unfold fracSimplifyF at h
    split at h
    · rename_i h1
      cases h
      rw [TrsoAux.isOne_iff.mp h1]; simp
    · split at h
      · rename_i h2
        cases h
        rw [TrsoAux.isZero_iff.mp h2]; simp
      · split at h
        · rename_i h3
          have hn1 := TrsoAux.isOne_iff.mp h3
          subst hn1
          split at h
          · rename_i n' d'
            split at h
            · cases h
            · rw [ih ⟨hd.1.2, hd.2.2⟩ ⟨hd.1.1, hd.2.1⟩ h σ]
              simp
          · cases h; simp
        · split at h
          · rename_i h4
            cases h
            have := exprEq_sound _ _ h4
            subst this
            simp [div_self hn0]
          · split at h
            · rw [TrsoAux.simplifyParts_den h σ (TrsoAux.good_prod_ne S hn σ)]; simp
            · rw [TrsoAux.simplifyParts_den h σ (TrsoAux.good_prod_ne S hn σ)]; simp
            · rw [TrsoAux.simplifyParts_den h σ (by intro f hf; simp at hf; subst hf; exact hn0)]; simp
            · cases h; simp

theorem denL_fracSimplify (S : LeafSem card leaf) {n d e : Expr} (hn : Good S n) (hd : Good S d)
    (h : fracSimplify n d = .ok e) (σ : Val) :
    denL card leaf e σ = denL card leaf n σ / denL card leaf d σ :=
  TrsoAux.denL_fracSimplifyF S _ hn hd h σ

/-! ### the two repairs of `canonicalize` -/

theorem denL_postFrac (S : LeafSem card leaf) {e : Expr} (h : Good S e) (σ : Val) :
    denL card leaf (postFrac e) σ = denL card leaf e σ := by
  unfold postFrac
  split
  · rename_i a b
    split
    · rename_i h1
      rw [TrsoAux.isOne_iff.mp h1]; simp
    · split
      · rename_i h2
        have := exprEq_sound _ _ h2
        subst this
        have ha : denL card leaf a σ ≠ 0 := ne_of_gt (good_pos S (e := a) ⟨h.1.1, h.2.1⟩ σ)
        simp [div_self ha]
      · rfl
  · rfl

mutual
theorem TrsoAux.denLProd_flattenExprs_aux : ∀ (es : List Expr) (σ : Val),
    denLProd card leaf (flattenExprs es) σ = denLProd card leaf es σ
  | [], σ => by simp [flattenExprs]
  | e :: es, σ => by
    simp only [flattenExprs, TrsoAux.denLProd_append, TrsoAux.denLProd_cons]
    rw [TrsoAux.denLProd_flattenExpr e σ, TrsoAux.denLProd_flattenExprs_aux es σ]
theorem TrsoAux.denLProd_flattenExpr : ∀ (e : Expr) (σ : Val),
    denLProd card leaf (flattenExpr e) σ = denL card leaf e σ
  | .prod gs, σ => by
    simp only [flattenExpr, TrsoAux.denL_prod']; exact TrsoAux.denLProd_flattenExprs_aux gs σ
  | .prob _ _ _, σ => by simp [flattenExpr]
  | .sum _ _, σ => by simp [flattenExpr]
  | .frac _ _, σ => by simp [flattenExpr]
  | .one, σ => by simp [flattenExpr]
  | .zero, σ => by simp [flattenExpr]
  | .q _ _, σ => by simp [flattenExpr]
end

theorem denLProd_flattenExprs (es : List Expr) (σ : Val) :
    denLProd card leaf (flattenExprs es) σ = denLProd card leaf es σ :=
  TrsoAux.denLProd_flattenExprs_aux es σ

/-! ### `Good` is preserved (repackaging of Lemmas/TrsoVocab + TrsoClean) -/

theorem good_productSafe (S : LeafSem card leaf) {es : List Expr} (h : ∀ e ∈ es, Good S e) : Good S (productSafe es) := by
  have hl := (goodList_iff S es).2 h
  exact ⟨clean_productSafe hl.1, wf_productSafe hl.2⟩

theorem good_truediv (S : LeafSem card leaf) {a b e : Expr} (ha : Good S a) (hb : Good S b) (h : truediv a b = .ok e) :
    Good S e := by
  obtain ⟨e', he', ce'⟩ := truediv_ok ha.1 hb.1
  rw [h] at he'; cases he'
  exact ⟨ce', wf_truediv ha.2 hb.2 h⟩

theorem good_mul (S : LeafSem card leaf) {a b e : Expr} (ha : Good S a) (hb : Good S b) (h : mul a b = .ok e) :
    Good S e := by
  obtain ⟨e', he', ce'⟩ := mul_ok ha.1 hb.1
  rw [h] at he'; cases he'
  exact ⟨ce', wf_mul ha.2 hb.2 h⟩

theorem good_fracSimplify (S : LeafSem card leaf) {n d e : Expr} (hn : Good S n) (hd : Good S d)
    (h : fracSimplify n d = .ok e) : Good S e := by
  obtain ⟨e', he', ce'⟩ := fracSimplify_ok hn.1 hd.1
  rw [h] at he'; cases he'
  exact ⟨ce', wf_fracSimplify hn.2 hd.2 h⟩

theorem good_sumSafe (S : LeafSem card leaf) {e : Expr} {rs : List Var} (b : Bool) (he : Good S e)
    (hr : ∀ v ∈ rs, S.Rng v) : Good S (sumSafe e rs b) := by
  exact ⟨clean_sumSafe b he.1, wf_sumSafe S.adm_mono b he.2 hr⟩

theorem good_canonicalize (S : LeafSem card leaf) {e e' : Expr} (he : Good S e) (h : canonicalize e = .ok e') :
    Good S e' := by
  obtain ⟨e'', he'', ce''⟩ := canonicalize_ok he.1
  rw [h] at he''; cases he''
  exact ⟨ce'', wf_canonicalize S.adm_mono he.2 h⟩

end Trso
end Y0
