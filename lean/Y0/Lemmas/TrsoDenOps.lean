/-
  Y0.Lemmas.TrsoDenOps — what the constructors / operators of Y0.Model.TrDsl mean (`denL`, Lemmas/TrsoSemDefs):
  `Product.safe` is the product, `*` the product, `/` and `Fraction(...)` the quotient, `Sum.safe(simplify=False)` the
  iterated sum, `Fraction.simplify` keeps the value when every factor is non-zero (cancellation of equal factors), the
  re-check of trivial fractions and the flattening of products done by `canonicalize` keep the value.
  Division is field division (`x / 0 = 0`); lemmas that cancel need `Good S` (hence positivity) of the operands.
-/
import Y0.Lemmas.TrsoSemDefs
import Mathlib.Algebra.Order.Field.Basic
import Mathlib.Algebra.BigOperators.Group.List.Basic
import Mathlib.Tactic.FieldSimp
import Mathlib.Tactic.Ring

namespace Y0
namespace Trso
open TrDsl

variable {card : Name → Nat} {leaf : LeafFn}

theorem denLProd_eq (fs : List Expr) (σ : Val) :
    denLProd card leaf fs σ = (fs.map (denL card leaf · σ)).prod := by
  sorry

theorem denL_prod (fs : List Expr) (σ : Val) :
    denL card leaf (.prod fs) σ = (fs.map (denL card leaf · σ)).prod := by
  sorry

/-- `exprEq` (dataclass `==`) decides equality -/
theorem exprEq_sound (a b : Expr) (h : exprEq a b = true) : a = b := by
  sorry

/-! ### positivity -/

/-- every admissible leaf is positive -/
theorem LeafSem.leaf_pos (S : LeafSem card leaf) {pop : Option Var} {c p : List Var} (h : S.Adm pop c p) (σ : Val) :
    0 < leaf pop c p σ := by
  sorry

/-- a good expression denotes a positive number at every assignment -/
theorem good_pos (S : LeafSem card leaf) {e : Expr} (h : Good S e) (σ : Val) : 0 < denL card leaf e σ := by
  sorry

theorem goodList_pos (S : LeafSem card leaf) {es : List Expr} (h : GoodList S es) (σ : Val) :
    0 < denLProd card leaf es σ := by
  sorry

/-! ### constructors -/

theorem denL_productSafe (es : List Expr) (σ : Val) :
    denL card leaf (productSafe es) σ = (es.map (denL card leaf · σ)).prod := by
  sorry

theorem denL_mkFrac {n d e : Expr} (h : mkFrac n d = .ok e) (σ : Val) :
    denL card leaf e σ = denL card leaf n σ / denL card leaf d σ := by
  sorry

theorem denL_mulF : ∀ (fuel : Nat) (a b e : Expr), mulF fuel a b = .ok e →
    ∀ σ, denL card leaf e σ = denL card leaf a σ * denL card leaf b σ := by
  sorry

theorem denL_mul {a b e : Expr} (h : mul a b = .ok e) (σ : Val) :
    denL card leaf e σ = denL card leaf a σ * denL card leaf b σ := by
  sorry

theorem denL_truediv {a b e : Expr} (h : truediv a b = .ok e) (σ : Val) :
    denL card leaf e σ = denL card leaf a σ / denL card leaf b σ := by
  sorry

/-- `Sum.safe(e, ranges)` without simplification denotes the iterated sum over the (sorted, duplicate-free) ranges -/
theorem denL_sumSafe_false (e : Expr) (rs : List Var) (σ : Val) :
    denL card leaf (sumSafe e rs false) σ =
      sumVars card ((sortVars rs).map (·.name)) (fun τ => denL card leaf e τ) σ := by
  sorry

/-! ### Fraction.simplify -/

theorem denL_fracSimplify (S : LeafSem card leaf) {n d e : Expr} (hn : Good S n) (hd : Good S d)
    (h : fracSimplify n d = .ok e) (σ : Val) :
    denL card leaf e σ = denL card leaf n σ / denL card leaf d σ := by
  sorry

/-! ### the two repairs of `canonicalize` -/

theorem denL_postFrac (S : LeafSem card leaf) {e : Expr} (h : Good S e) (σ : Val) :
    denL card leaf (postFrac e) σ = denL card leaf e σ := by
  sorry

theorem denLProd_flattenExprs (es : List Expr) (σ : Val) :
    denLProd card leaf (flattenExprs es) σ = denLProd card leaf es σ := by
  sorry

/-! ### `Good` is preserved (repackaging of Lemmas/TrsoVocab + TrsoClean) -/

theorem good_productSafe (S : LeafSem card leaf) {es : List Expr} (h : ∀ e ∈ es, Good S e) : Good S (productSafe es) := by
  sorry

theorem good_truediv (S : LeafSem card leaf) {a b e : Expr} (ha : Good S a) (hb : Good S b) (h : truediv a b = .ok e) :
    Good S e := by
  sorry

theorem good_mul (S : LeafSem card leaf) {a b e : Expr} (ha : Good S a) (hb : Good S b) (h : mul a b = .ok e) :
    Good S e := by
  sorry

theorem good_fracSimplify (S : LeafSem card leaf) {n d e : Expr} (hn : Good S n) (hd : Good S d)
    (h : fracSimplify n d = .ok e) : Good S e := by
  sorry

theorem good_sumSafe (S : LeafSem card leaf) {e : Expr} {rs : List Var} (b : Bool) (he : Good S e)
    (hr : ∀ v ∈ rs, S.Rng v) : Good S (sumSafe e rs b) := by
  sorry

theorem good_canonicalize (S : LeafSem card leaf) {e e' : Expr} (he : Good S e) (h : canonicalize e = .ok e') :
    Good S e' := by
  sorry

end Trso
end Y0
