/-
  Y0.Lemmas.IdHedge — when ID refuses, the refusal is raised by line 5 on a sub-problem reached by the recursion, and
  that sub-problem has a hedge (Y0/Spec/Hedge.lean): `F = V`, `F' = V ∖ X`, common root set `V ∖ X`.
-/
import Y0.Lemmas.IdTotal
import Y0.Spec.Hedge

namespace Y0
open IdDsl IdAux MG Relation

theorem IdAux.rtg_mono {α : Type} {r p : α → α → Prop} (h : ∀ a b, r a b → p a b) {a b : α}
    (hab : ReflTransGen r a b) : ReflTransGen p a b := by
  induction hab with
  | refl => exact .refl
  | tail _ h2 ih => exact .tail ih (h _ _ h2)

/-- the sub-problems the recursion of `identify` visits -/
inductive Reach (topo : MG Name → Except Err (List Name)) : IdIn → IdIn → Prop
  | refl (I : IdIn) : Reach topo I I
  | tail {I J K : IdIn} : step topo I = .ok (.tail J) → Reach topo J K → Reach topo I K
  | split {I J K : IdIn} {Js : List IdIn} {r : List Name} : step topo I = .ok (.split Js r) → J ∈ Js →
      Reach topo J K → Reach topo I K

/-- the treatments are nodes of the current graph -/
def XSub (I : IdIn) : Prop := ∀ x ∈ I.X, x ∈ I.G.nodes

section
variable {topo : MG Name → Except Err (List Name)} {I : IdIn}

/-- the recursion keeps the treatments inside the graph -/
theorem step_xsub (hv : Valid I) (hx : XSub I) {s : Step} (h : step topo I = .ok s) :
    match s with
    | .done _ => True
    | .tail J => XSub J
    | .split Js _ => ∀ J ∈ Js, XSub J := by
  cases step_ok h with
  | l1 _ => trivial
  | l6 => trivial
  | l2 anc _ _ _ =>
    intro x hxm
    exact (mem_nodes_subgraph I.G anc x).mpr (mem_inter'.mp hxm).2
  | l3 anc anc' _ _ _ _ _ =>
    intro x hxm
    rcases mem_union'.mp hxm with h1 | h1
    · exact hx x h1
    · exact (mem_diff'.mp (mem_diff'.mp h1).1).1
  | l4 anc anc' _ _ _ =>
    intro J hJ
    simp only [List.mem_map] at hJ
    obtain ⟨S, _, rfl⟩ := hJ
    intro x hxm
    exact (mem_diff'.mp hxm).1
  | l7 anc anc' S D order fs _ _ _ _ _ _ _ _ _ =>
    intro x hxm
    exact (mem_nodes_subgraph I.G D x).mpr (mem_inter'.mp hxm).2

/-- **the hedge of a line-5 refusal**: if one pass on a valid input refuses, then `V` and `V ∖ X` form a hedge for
`P_x(y)` in the current graph -/
theorem line5_hedge (hv : Valid I) (hx : XSub I) (ht : TopoGood topo) {e : Err} (h : step topo I = .error e) :
    I.G.Hedge I.X I.Y (fun v => v ∈ I.G.nodes) (fun v => v ∈ I.G.nodes ∧ v ∉ I.X) := by
  obtain ⟨_, hXne, hlen, hlenx, anc, anc', hpre⟩ := step_error' hv ht h
  have hwf := hv.wf
  have hwfx := MG.wf_removeNodes I.G I.X
  have hwfi : (I.G.removeInEdges I.X).WF := wf_fromEdges _ _ _
  obtain ⟨D, hD⟩ : ∃ D, I.G.districts = [D] := by
    match hd : I.G.districts, hlen with
    | [D], _ => exact ⟨D, rfl⟩
  obtain ⟨S, hS⟩ : ∃ S, (I.G.removeNodes I.X).districts = [S] := by
    match hd : (I.G.removeNodes I.X).districts, hlenx with
    | [S], _ => exact ⟨S, rfl⟩
  have hDm : D ∈ I.G.districts := by rw [hD]; simp
  have hSm : S ∈ (I.G.removeNodes I.X).districts := by rw [hS]; simp
  have hDall := single_district_all hwf hD
  have hSall := single_gx hv hS
  have hVanc : ∀ v ∈ I.G.nodes, v ∈ anc := by
    intro v hvV
    by_contra hc
    have : v ∈ diff' I.G.nodes anc := mem_diff'.mpr ⟨hvV, hc⟩
    rw [hpre.hall] at this
    cases this
  have hVanc' : ∀ v, v ∈ I.G.nodes → v ∉ I.X → v ∈ anc' := by
    intro v hvV hvX
    by_contra hc
    have : v ∈ diff' (diff' I.G.nodes I.X) anc' := mem_diff'.mpr ⟨mem_diff'.mpr ⟨hvV, hvX⟩, hc⟩
    rw [hpre.hno] at this
    cases this
  obtain ⟨y0, hy0⟩ := List.exists_mem_of_ne_nil _ hv.yne
  refine ⟨fun v h => h.1, fun v h => h, ?_, fun v h => h.2, ⟨y0, hv.ysub y0 hy0, hv.disj y0 hy0⟩, ?_, ?_, ?_⟩
  · obtain ⟨x, hxm⟩ := List.exists_mem_of_ne_nil _ hXne
    exact ⟨x, hxm, hx x hxm⟩
  · -- the whole graph is one district
    intro u v hu hvv
    have := (districts_spec I.G hwf D hDm u ((hDall u).mpr hu) v).mp ((hDall v).mpr hvv)
    refine rtg_mono (fun a b hab => ⟨hab, ?_, ?_⟩) this
    · rcases hab with h1 | h1
      · exact (hwf.bi_mem _ h1).1
      · exact (hwf.bi_mem _ h1).2
    · rcases hab with h1 | h1
      · exact (hwf.bi_mem _ h1).2
      · exact (hwf.bi_mem _ h1).1
  · -- so is the graph without the treatments
    intro u v hu hvv
    have := (districts_spec _ hwfx S hSm u ((hSall u).mpr hu) v).mp ((hSall v).mpr hvv)
    refine rtg_mono (fun a b hab => ?_) this
    obtain ⟨hab', haX, hbX⟩ := (biEdge_removeNodes I.G I.X a b).mp hab
    have ha : a ∈ I.G.nodes := by
      rcases hab' with h1 | h1
      · exact (hwf.bi_mem _ h1).1
      · exact (hwf.bi_mem _ h1).2
    have hb : b ∈ I.G.nodes := by
      rcases hab' with h1 | h1
      · exact (hwf.bi_mem _ h1).2
      · exact (hwf.bi_mem _ h1).1
    exact ⟨hab', ⟨ha, haX⟩, ⟨hb, hbX⟩⟩
  · -- common root set: all of `V ∖ X`
    refine ⟨fun v => v ∈ I.G.nodes ∧ v ∉ I.X, fun r hr => hr, ?_, ?_, ?_⟩
    · intro r hr
      obtain ⟨y, hy, hry⟩ := (ancestorsInclusive_spec _ hwfi I.Y anc' hpre.hanc' r).mp (hVanc' r hr.1 hr.2)
      exact ⟨y, hy, rtg_mono (fun a b hab => (diEdge_removeInEdges I.G I.X a b).mp hab) hry⟩
    · intro v hvV
      by_cases hvX : v ∈ I.X
      · obtain ⟨y, hy, hvy⟩ := (ancestorsInclusive_spec _ hwf I.Y anc hpre.hanc v).mp (hVanc v hvV)
        exact ⟨y, ⟨hv.ysub y hy, hv.disj y hy⟩,
          rtg_mono (fun a b hab => ⟨hab, (hwf.di_mem _ hab).1, (hwf.di_mem _ hab).2⟩) hvy⟩
      · exact ⟨v, ⟨hvV, hvX⟩, .refl⟩
    · intro v hvF
      exact ⟨v, hvF, .refl⟩

/-- a refusal of the recursion comes from a refusing pass on a (valid) sub-problem the recursion reached -/
theorem idAlg_refusal (ht : TopoGood topo) :
    ∀ I, Valid I → XSub I → idAlg topo I = .error .unidentifiable →
      ∃ J, Reach topo I J ∧ Valid J ∧ XSub J ∧ step topo J = .error .unidentifiable := by
  intro I
  induction I using measure_wf.induction with
  | _ I ih =>
    intro hv hx h
    rw [idAlg_eq] at h
    cases hs : step topo I with
    | error e =>
      rw [hs] at h
      simp only at h
      cases h
      exact ⟨I, .refl I, hv, hx, hs⟩
    | ok s =>
      rw [hs] at h
      have hg := step_good hv hs
      have hxs := step_xsub hv hx hs
      cases s with
      | done e => cases h
      | tail J =>
        simp only [hg.2, if_true] at h
        obtain ⟨K, hK, hrest⟩ := ih J hg.2 hg.1 hxs h
        exact ⟨K, .tail hs hK, hrest⟩
      | split Js ranges =>
        have hall : Js.all (fun J => measureLt J.measure I.measure) = true :=
          List.all_eq_true.mpr (fun J hJ => (hg J hJ).2)
        simp only [hall, if_true] at h
        cases hm : Js.mapM (idAlg topo) with
        | ok es => rw [hm] at h; cases h
        | error e =>
          rw [hm] at h
          simp only [Except.map] at h
          cases h
          obtain ⟨J, hJ, hJe⟩ := mapM_error _ _ _ hm
          obtain ⟨K, hK, hrest⟩ := ih J (hg J hJ).2 (hg J hJ).1 (hxs J hJ) hJe
          exact ⟨K, .split hs hJ hK, hrest⟩

end
end Y0
