/-
  Y0.Lemmas.IdcFuel — the twin of `idcAlg` that calls the fuel version `idAlgF` of ID, so that the kernel can evaluate
  concrete runs of IDC; its successful runs are runs of `idc`.  Used for the non-vacuity examples of C03.
-/
import Y0.Lemmas.IdFuel
import Y0.Lemmas.IdcStep

namespace Y0
open IdDsl IdAux

def idcAlgF (sep : SepTest) (topo : MG Name → Except Err (List Name)) (n : Nat) (G : MG Name) (est : Expr) :
    Nat → List Name → List Name → List Name → Except Err Expr
  | fuel, X, Y, Z =>
    match firstApplicable sep G X Y Z Z with
    | .error e => .error e
    | .ok (some c) =>
      match fuel with
      | 0 => .error (.internal "measure")
      | fuel + 1 => idcAlgF sep topo n G est fuel (union' X [c]) Y (Z.filter (· ≠ c))
    | .ok none =>
      match idAlgF topo n { G := G, X := X, Y := union' Y Z, est := est } with
      | .error e => .error e
      | .ok e => normalizeMarginalize e Y

theorem idcAlgF_ok (sep : SepTest) (topo : MG Name → Except Err (List Name)) (n : Nat) (G : MG Name) (est : Expr)
    (Y : List Name) : ∀ (fuel : Nat) (X Z : List Name) (e : Expr),
      idcAlgF sep topo n G est fuel X Y Z = .ok e → idcAlg sep topo G est fuel X Y Z = .ok e := by
  intro fuel
  induction fuel with
  | zero =>
    intro X Z e h
    unfold idcAlgF at h
    unfold idcAlg
    cases hf : firstApplicable sep G X Y Z Z with
    | error err => rw [hf] at h; cases h
    | ok r =>
      rw [hf] at h
      cases r with
      | some c => cases h
      | none =>
        simp only at h
        cases hi : idAlgF topo n { G := G, X := X, Y := union' Y Z, est := est } with
        | error err => rw [hi] at h; cases h
        | ok e0 =>
          rw [hi] at h
          simp only [bind, Except.bind, idAlgF_ok topo n _ e0 hi]
          exact h
  | succ k ih =>
    intro X Z e h
    unfold idcAlgF at h
    unfold idcAlg
    cases hf : firstApplicable sep G X Y Z Z with
    | error err => rw [hf] at h; cases h
    | ok r =>
      rw [hf] at h
      cases r with
      | some c =>
        simp only [bind, Except.bind]
        exact ih _ _ e h
      | none =>
        simp only at h
        cases hi : idAlgF topo n { G := G, X := X, Y := union' Y Z, est := est } with
        | error err => rw [hi] at h; cases h
        | ok e0 =>
          rw [hi] at h
          simp only [bind, Except.bind, idAlgF_ok topo n _ e0 hi]
          exact h

/-- `idc` with fuel for the inner calls of ID -/
def idcF (sep : SepTest) (topo : MG Name → Except Err (List Name)) (n : Nat) (G : MG Name) (X Y Z : List Name) :
    Except Err Expr :=
  match pJoint G.nodes with
  | .error e => .error e
  | .ok est => idcAlgF sep topo n G est Z.length X Y Z

theorem idcF_ok (sep : SepTest) (topo : MG Name → Except Err (List Name)) (n : Nat) (G : MG Name) (X Y Z : List Name)
    (e : Expr) (h : idcF sep topo n G X Y Z = .ok e) : idc sep topo G X Y Z = .ok e := by
  unfold idcF at h
  unfold idc
  cases hj : pJoint G.nodes with
  | error err => rw [hj] at h; cases h
  | ok est =>
    rw [hj] at h
    exact idcAlgF_ok sep topo n G est Y _ X Z e h

end Y0
