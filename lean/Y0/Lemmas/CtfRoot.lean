/-
  Y0.Lemmas.CtfRoot — `Ctf.ancestralSetRoot` (the model of `get_ancestral_set_root_variable`, added by `fix:` f335599):
  the root of an ancestral set is a MEMBER of that set under the form `ancestralSetRoot` computes (`‖W_t‖` of the graph
  without the edges out of the conditioned ancestors).  This is what makes the lookup of the outcomes in the ancestral
  components of Algorithm 3 succeed for every validated query.
-/
import Y0.Lemmas.CtfTrAlg3

namespace Y0.Ctf
open Relation Y0.MG

/-- **`‖Y_x‖` is the member of `An(Y_x)` that stands for `Y_x` itself** (Def. 2.1 read at `W = Y`): for a variable
without a value mark, named after a node, `minimize` returns an element of the list `ctfAncestors` returns — as a Lean
object, not just up to `==`. -/
theorem minimize_mem_ctfAncestors (g : MG Name) (hg : g.WF) (v : Var) (hn : v.name ∈ g.nodes) (hstar : v.star = none)
    (hk : v.isCf = true ∨ v.isIv = false) :
    ∃ w A, minimize g v = .ok w ∧ ctfAncestors g v = .ok A ∧ w ∈ A ∧ w.name = v.name := by
  by_cases hcf : v.isCf = true
  · -- a counterfactual variable
    have hgin : (g.removeInEdges (ivNames v)).WF := wf_fromEdges _ _ _
    have hgout : (g.removeOutEdges (ivNames v)).WF := wf_fromEdges _ _ _
    obtain ⟨A1, hA1⟩ := ancestorsInclusive_total (g.removeInEdges (ivNames v)) [v.name]
      (by intro s hs; simp only [List.mem_singleton] at hs; subst hs
          exact (mem_nodes_removeInEdges g hg _ _).2 hn)
    obtain ⟨U, hU⟩ := ancestorsInclusive_total (g.removeOutEdges (ivNames v)) [v.name]
      (by intro s hs; simp only [List.mem_singleton] at hs; subst hs
          exact (mem_nodes_removeOutEdges g hg _ _).2 hn)
    obtain ⟨A, hA⟩ := ctf_ancestors_total g hg v hcf hn
    have hroot : v.name ∈ U := ancestorsInclusive_self hgout hU _ (by simp)
    -- the two filters agree
    have hfilter : v.ivs.filter (fun i => decide (i.name ∈ (ivNames v).filter (fun x => decide (x ∈ A1)))) =
        v.ivs.filter (fun i => decide (i.name ∈ A1)) := by
      apply List.filter_congr
      intro i hi
      have hix : i.name ∈ ivNames v := (mem_ivNames v _).2 (List.mem_map.2 ⟨i, hi, rfl⟩)
      simp only [List.mem_filter, decide_eq_true_eq, hix, true_and]
    -- the element `ctfAncestors` builds for the graph ancestor `v.name`
    have hav : ancestorVar (g.removeInEdges (ivNames v)) v v.name =
        .ok (if (v.ivs.filter (fun i => decide (i.name ∈ A1))).isEmpty then Var.plain v.name
          else { name := v.name, ivs := v.ivs.filter (fun i => decide (i.name ∈ A1)) }) := by
      unfold ancestorVar
      simp only [bind, Except.bind, hA1, pure, Except.pure]
    have hmemA : (if (v.ivs.filter (fun i => decide (i.name ∈ A1))).isEmpty then Var.plain v.name
          else { name := v.name, ivs := v.ivs.filter (fun i => decide (i.name ∈ A1)) } : Var) ∈ A := by
      have hA' := hA
      unfold ctfAncestors at hA'
      simp only [hcf, Bool.not_true, Bool.false_eq_true, ↓reduceIte, bind, Except.bind, hU] at hA'
      exact (mapM_ok_mem _ _ _ hA' _).2 ⟨v.name, hroot, hav⟩
    -- what `minimize` returns
    have hmin : minimize g v =
        .ok (if (v.ivs.filter (fun i => decide (i.name ∈ A1))).isEmpty then Var.plain v.name
          else { name := v.name, ivs := v.ivs.filter (fun i => decide (i.name ∈ A1)) }) := by
      unfold minimize
      simp only [hcf, Bool.not_true, Bool.false_eq_true, ↓reduceIte, bind, Except.bind, hA1, hfilter, hstar]
      split
      · rfl
      · rename_i hne
        unfold mkCf
        simp only [hne, Bool.false_eq_true, ↓reduceIte]
    refine ⟨_, A, hmin, hA, hmemA, ?_⟩
    split <;> rfl
  · -- a plain variable
    have hcf' : v.isCf = false := by simpa using hcf
    have hiv : v.isIv = false := by
      rcases hk with hk | hk
      · exact absurd hk hcf
      · exact hk
    obtain ⟨U, hU⟩ := ancestorsInclusive_total g [v.name]
      (by intro s hs; simp only [List.mem_singleton] at hs; subst hs; exact hn)
    have hivs : v.ivs = [] := by
      unfold Var.isCf at hcf'
      simpa using hcf'
    have hv : v = Var.plain v.name := by
      obtain ⟨n, s, i, l⟩ := v
      simp only at hstar hiv hivs
      subst hstar hiv hivs
      rfl
    refine ⟨v, U.map Var.plain, ?_, ?_, ?_, rfl⟩
    · unfold minimize
      simp only [hcf', Bool.not_false, ↓reduceIte]
    · unfold ctfAncestors
      simp only [hcf', Bool.not_false, ↓reduceIte, hiv, Bool.false_eq_true, hstar, Option.isSome_none, bind,
        Except.bind, hU, pure, Except.pure]
    · rw [hv]
      exact List.mem_map.2 ⟨v.name, ancestorsInclusive_self hg hU _ (by simp), rfl⟩

/-- **the root is a member of its own ancestral set under the form `ancestralSetRoot` computes** -/
theorem ancestralSetRoot_mem (g : MG Name) (hg : g.WF) (cond : List Var) (hc : ∀ x ∈ cond, x.name ∈ g.nodes)
    (root : Var) (hn : root.name ∈ g.nodes) (hstar : root.star = none) (hk : root.isCf = true ∨ root.isIv = false) :
    ∃ s A, ancestralSetRoot g cond root = .ok s ∧ ancestralSetAfter g cond root = .ok A ∧ s ∈ A ∧
      s.name = root.name := by
  obtain ⟨ms, hms⟩ := mapM_ok_of_forall (minimize g) cond (fun x hx => minimize_total g hg x (hc x hx))
  obtain ⟨A₀, hA₀, _⟩ := CtfTr.ctfAncestors_ok g hg root hn (by
    rcases hk with h | h
    · exact Or.inl h
    · exact Or.inr ⟨h, hstar⟩)
  have hcond : ∃ cs, condInAncestralSet g cond root = .ok cs := by
    unfold condInAncestralSet minimizeSet
    simp only [bind, Except.bind, hms, pure, Except.pure, hA₀]
    exact ⟨_, rfl⟩
  obtain ⟨cs, hcs⟩ := hcond
  obtain ⟨w, A, hw, hA, hwA, hwn⟩ := minimize_mem_ctfAncestors (g.removeOutEdges cs) (wf_fromEdges _ _ _) root
    ((mem_nodes_removeOutEdges g hg cs root.name).2 hn) hstar hk
  refine ⟨w, A, ?_, ?_, hwA, hwn⟩
  · unfold ancestralSetRoot
    simp only [bind, Except.bind, hcs]
    exact hw
  · unfold ancestralSetAfter
    simp only [bind, Except.bind, hcs]
    exact hA

end Y0.Ctf
