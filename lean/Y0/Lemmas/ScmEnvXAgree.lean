/-
  Y0.Lemmas.ScmEnvXAgree — the total environment `M.envX G` (Y0/Spec/ScmEnvX.lean) IS `M.env G` (Y0/Spec/Scm.lean) on
  everything single-world:

    * `envX_pr_eq_env`  : on a conjunction whose atoms all carry the same well-formed `dos` list, are about nodes of `G`
                          and have in-range values;
    * `den_envX_eq_env` : on every expression satisfying the decidable predicate `Expr.swOK G` (each leaf lives in one
                          world whose subscripts name pairwise distinct variables, and mentions nodes of `G` only), at
                          in-range valuations.

  So a statement about `den (M.env G)` (C01 `id_sound`, C03, C17, C05) and a statement about all `ProbFamily`
  environments (C10 `canon_den`, C13) compose through `M.envX G` (Y0/Props/C10Sem.lean).
-/
import Y0.Lemmas.ScmEnvXLaws
import Y0.Lemmas.SemCanon
import Y0.Spec.SingleWorld

namespace Y0
namespace Scm
open TianProb Fscm

variable {M : Scm} {G : MG Name}

/-! ### conjunctions in one world -/

theorem mem_kdos_valid {d : List (Name × Nat)} (hd : DoValid M.card d) {p : Name × Nat} :
    p ∈ kdos M.card G d ↔ p.1 ∈ G.nodes ∧ p ∈ d := by
  rw [mem_kdos, normDo_of_valid hd, forced_eq_some_iff hd.functional]

/-- the canonical form of a valid world gives the same interventional distribution on the nodes -/
theorem prDo_kdos (hC : XCtx M G) {d ev : List (Name × Nat)} (hd : DoValid M.card d) (hev : ∀ p ∈ ev, p.1 ∈ G.nodes) :
    M.prDo G (kdos M.card G d) ev = M.prDo G d ev := by
  set κ := kdos M.card G d with hκ
  have hsub : ∀ p, p ∈ κ ++ ev → p ∈ d ++ ev := by
    intro p hp
    rcases List.mem_append.mp hp with h | h
    · exact List.mem_append_left _ (mem_kdos_valid hd |>.mp h).2
    · exact List.mem_append_right _ h
  have hfun : Functional (κ ++ ev) ↔ Functional (d ++ ev) := by
    constructor
    · intro h p hp q hq e
      have lift : ∀ r, r ∈ d ++ ev → r.1 ∈ G.nodes → r ∈ κ ++ ev := by
        intro r hr hn
        rcases List.mem_append.mp hr with h1 | h1
        · exact List.mem_append_left _ ((mem_kdos_valid hd).mpr ⟨hn, h1⟩)
        · exact List.mem_append_right _ h1
      rcases List.mem_append.mp hp with hp1 | hp1
      · rcases List.mem_append.mp hq with hq1 | hq1
        · exact hd.functional p hp1 q hq1 e
        · have hqn := hev q hq1
          exact h p (lift p hp (e ▸ hqn)) q (lift q hq hqn) e
      · have hpn := hev p hp1
        exact h p (lift p hp hpn) q (lift q hq (e ▸ hpn)) e
    · intro h p hp q hq e
      exact h p (hsub p hp) q (hsub q hq) e
  by_cases hc : consistent (d ++ ev) = true
  · have hf := (consistent_iff _).mp hc
    have hr := rd_reads hf
    rw [prDo_of_reads hC.compat hC.wf (rd (d ++ ev)) d ev hr,
      prDo_of_reads hC.compat hC.wf (rd (d ++ ev)) κ ev (fun a ha => hr a (hsub a ha))]
    apply congrFun
    have hX : ∀ v ∈ G.nodes, (v ∈ κ.map (·.1) ↔ v ∈ d.map (·.1)) := by
      intro v hv
      simp only [List.mem_map]
      constructor
      · rintro ⟨p, hp, rfl⟩; exact ⟨p, ((mem_kdos_valid hd).mp hp).2, rfl⟩
      · rintro ⟨p, hp, rfl⟩; exact ⟨p, (mem_kdos_valid hd).mpr ⟨hv, hp⟩, rfl⟩
    apply F_congr2 hX
    intro v hv
    rw [hX v hv]
  · have hc' : consistent (d ++ ev) = false := by simpa using hc
    have hc'' : consistent (κ ++ ev) = false := by
      rw [Bool.eq_false_iff]
      intro h
      exact hc ((consistent_iff _).mpr (hfun.mp ((consistent_iff _).mp h)))
    rw [prDo_incons _ _ hc', prDo_incons _ _ hc'']

theorem prAtoms_sameWorld (d : List (Name × Nat)) : ∀ (l : List Atom), l ≠ [] → (∀ a ∈ l, a.dos = d) →
    M.prAtoms G l = M.prDo G d (l.map fun b => (b.name, b.val))
  | [], h, _ => absurd rfl h
  | a :: as, _, hl => by
    simp only [prAtoms]
    have hall : as.all (fun b => b.dos == a.dos) = true := by
      rw [List.all_eq_true]
      intro b hb
      rw [beq_iff_eq, hl b (List.mem_cons_of_mem _ hb), hl a List.mem_cons_self]
    rw [if_pos hall, hl a List.mem_cons_self]

/-- **`M.envX G` extends `M.env G`**: on a conjunction living in one well-formed world, about nodes of `G`, with
in-range values, the two environments agree -/
theorem envX_pr_eq_env (hC : XCtx M G) (pop : Option Name) (d : List (Name × Nat)) (hd : DoValid M.card d)
    (l : List Atom) (hdos : ∀ a ∈ l, a.dos = d) (hnode : ∀ a ∈ l, a.name ∈ G.nodes)
    (hval : ∀ a ∈ l, a.val < M.card a.name) : (M.envX G).pr pop l = (M.env G).pr pop l := by
  show M.prX G l = M.prAtoms G l
  by_cases hl : l = []
  · subst hl; simp [prX_def, udedup, prAtoms]
  rw [prAtoms_sameWorld d l hl hdos]
  set κ := kdos M.card G d with hκ
  have hkey : ∀ a ∈ l, akey M G a = κ := fun a ha => by simp only [akey, hdos a ha, hκ]
  rw [prX_eq_prod hC l [κ] (List.nodup_singleton _) (fun D hD => by
      rw [List.mem_singleton] at hD; subst hD; exact kdos_canon _)
    (fun a ha => by rw [hkey a ha]; exact List.mem_singleton_self _)]
  simp only [List.map_cons, List.map_nil, List.prod_cons, List.prod_nil, mul_one]
  have hev : evOf M.card G κ l = l.map fun b => (b.name, b.val) := by
    unfold evOf
    rw [List.filter_eq_self.mpr]
    intro a ha
    have := hkey a ha
    simp only [akey] at this
    simp [this]
  rw [hev, pw_def]
  have hok : evOK M G (l.map fun b => (b.name, b.val)) = true := by
    rw [evOK_iff]
    intro p hp
    obtain ⟨a, ha, rfl⟩ := List.mem_map.mp hp
    exact ⟨hval a ha, Or.inl (hnode a ha)⟩
  rw [if_pos hok]
  have hnd : nd G (l.map fun b => (b.name, b.val)) = l.map fun b => (b.name, b.val) := by
    unfold nd
    apply List.filter_eq_self.mpr
    intro p hp
    obtain ⟨a, ha, rfl⟩ := List.mem_map.mp hp
    simpa using hnode a ha
  rw [hnd]
  apply prDo_kdos hC hd
  intro p hp
  obtain ⟨a, ha, rfl⟩ := List.mem_map.mp hp
  exact hnode a ha

/-! ### single-world expressions -/

theorem doValid_of_ivs {σ σ' : Val} (hσ : ∀ x, σ x < M.card x) (hσ' : ∀ x, σ' x < M.card x) (w : List Iv)
    (hw : (w.map (·.name)).Nodup) : DoValid M.card (w.map (Iv.eval σ σ')) := by
  constructor
  · intro p hp
    obtain ⟨i, _, rfl⟩ := List.mem_map.mp hp
    simp only [Iv.eval]
    split
    · exact hσ' _
    · exact hσ _
  · intro p hp q hq e
    obtain ⟨i, hi, rfl⟩ := List.mem_map.mp hp
    obtain ⟨j, hj, rfl⟩ := List.mem_map.mp hq
    have hij : i = j := List.inj_on_of_nodup_map hw hi hj (by simpa [Iv.eval] using e)
    rw [hij]

theorem pr_atoms_leaf (hC : XCtx M G) {σ σ' : Val} (hσ : ∀ x, σ x < M.card x) (hσ' : ∀ x, σ' x < M.card x)
    (pop : Option Name) (vs : List Var) (hw : ∀ v ∈ vs, ∀ w ∈ vs, v.ivs = w.ivs)
    (hn : ∀ v ∈ vs, (v.ivs.map (·.name)).Nodup) (hnode : ∀ v ∈ vs, v.name ∈ G.nodes) :
    (M.envX G).pr pop (vs.map (Var.atom σ σ')) = (M.env G).pr pop (vs.map (Var.atom σ σ')) := by
  cases vs with
  | nil => simp [envX, env, prX_def, udedup, prAtoms]
  | cons v0 rest =>
    apply envX_pr_eq_env hC pop (v0.ivs.map (Iv.eval σ σ'))
      (doValid_of_ivs hσ hσ' _ (hn v0 List.mem_cons_self))
    · intro a ha
      obtain ⟨v, hv, rfl⟩ := List.mem_map.mp ha
      simp only [Var.atom]
      rw [hw v hv v0 List.mem_cons_self]
    · intro a ha
      obtain ⟨v, hv, rfl⟩ := List.mem_map.mp ha
      exact hnode v hv
    · intro a ha
      obtain ⟨v, hv, rfl⟩ := List.mem_map.mp ha
      simp only [Var.atom, Var.value]
      split
      · exact hσ' _
      · exact hσ _

theorem leafSW_iff {c p : List Var} : leafSW G c p = true ↔
    (∀ v ∈ c ++ p, ∀ w ∈ c ++ p, v.ivs = w.ivs) ∧ (∀ v ∈ c ++ p, (v.ivs.map (·.name)).Nodup) ∧
      (∀ v ∈ c ++ p, v.name ∈ G.nodes) := by
  unfold leafSW
  simp only [Bool.and_eq_true, List.all_eq_true, decide_eq_true_eq, namesNodup_iff, and_assoc]

mutual
/-- **on single-world expressions over the nodes of `G` the two environments give the same denotation** -/
theorem den_envX_eq_env (hC : XCtx M G) {σ' : Val} (hσ' : ∀ x, σ' x < M.card x) : ∀ (e : Expr), e.swOK G = true →
    ∀ σ, (∀ x, σ x < M.card x) → den (M.envX G) σ' e σ = den (M.env G) σ' e σ
  | .prob pop c p, h, σ, hσ => by
    obtain ⟨h1, h2, h3⟩ := leafSW_iff.mp (by simpa [Expr.swOK] using h)
    rw [den_prob, den_prob, pr_atoms_leaf hC hσ hσ' _ (c ++ p) h1 h2 h3,
      pr_atoms_leaf hC hσ hσ' _ p (fun v hv w hw => h1 v (List.mem_append_right _ hv) w (List.mem_append_right _ hw))
        (fun v hv => h2 v (List.mem_append_right _ hv)) (fun v hv => h3 v (List.mem_append_right _ hv))]
  | .prod fs, h, σ, hσ => by
    rw [den_prod, den_prod]
    exact denProd_envX_eq_env hC hσ' fs (by simpa [Expr.swOK] using h) σ hσ
  | .sum e r, h, σ, hσ => by
    rw [den_sum, den_sum]
    exact sumVars_congr_inRange (env := M.env G) _
      (fun τ hτ => den_envX_eq_env hC hσ' e (by simpa [Expr.swOK] using h) τ hτ) σ hσ
  | .frac n d, h, σ, hσ => by
    simp only [Expr.swOK, Bool.and_eq_true] at h
    rw [den_frac, den_frac, den_envX_eq_env hC hσ' n h.1 σ hσ, den_envX_eq_env hC hσ' d h.2 σ hσ]
  | .one, _, σ, _ => by simp
  | .zero, _, σ, _ => by simp
  | .q _ _, _, σ, _ => by simp [den, envX, env]
theorem denProd_envX_eq_env (hC : XCtx M G) {σ' : Val} (hσ' : ∀ x, σ' x < M.card x) : ∀ (fs : List Expr),
    Expr.swOKList G fs = true → ∀ σ, (∀ x, σ x < M.card x) → denProd (M.envX G) σ' fs σ = denProd (M.env G) σ' fs σ
  | [], _, σ, _ => by simp
  | e :: es, h, σ, hσ => by
    simp only [Expr.swOKList, Bool.and_eq_true] at h
    rw [denProd_cons, denProd_cons, den_envX_eq_env hC hσ' e h.1 σ hσ, denProd_envX_eq_env hC hσ' es h.2 σ hσ]
end

/-- the non-vanishing hypothesis of C10 transfers between the two environments -/
theorem nz_envX_iff_env (hC : XCtx M G) {σ' : Val} (hσ' : ∀ x, σ' x < M.card x) {d : Expr} (h : d.swOK G = true) :
    NZ (M.envX G) σ' d ↔ NZ (M.env G) σ' d := by
  unfold NZ
  constructor
  · intro hz σ hσ; rw [← den_envX_eq_env hC hσ' d h σ hσ]; exact hz σ hσ
  · intro hz σ hσ; rw [den_envX_eq_env hC hσ' d h σ hσ]; exact hz σ hσ

mutual
theorem denNZ_envX_iff_env (hC : XCtx M G) {σ' : Val} (hσ' : ∀ x, σ' x < M.card x) : ∀ (e : Expr), e.swOK G = true →
    (DenNZ (M.envX G) σ' e ↔ DenNZ (M.env G) σ' e)
  | .prob _ _ _, _ => by simp
  | .prod fs, h => by
    simp only [DenNZ]
    exact denNZList_envX_iff_env hC hσ' fs (by simpa [Expr.swOK] using h)
  | .sum e r, h => by
    rw [denNZ_sum_iff, denNZ_sum_iff]
    exact denNZ_envX_iff_env hC hσ' e (by simpa [Expr.swOK] using h)
  | .frac n d, h => by
    simp only [Expr.swOK, Bool.and_eq_true] at h
    rw [denNZ_frac_iff, denNZ_frac_iff, denNZ_envX_iff_env hC hσ' n h.1, denNZ_envX_iff_env hC hσ' d h.2,
      nz_envX_iff_env hC hσ' h.2]
  | .one, _ => by simp
  | .zero, _ => by simp
  | .q _ _, _ => by simp
theorem denNZList_envX_iff_env (hC : XCtx M G) {σ' : Val} (hσ' : ∀ x, σ' x < M.card x) : ∀ (fs : List Expr),
    Expr.swOKList G fs = true → (DenNZList (M.envX G) σ' fs ↔ DenNZList (M.env G) σ' fs)
  | [], _ => by simp [DenNZList]
  | e :: es, h => by
    simp only [Expr.swOKList, Bool.and_eq_true] at h
    simp only [DenNZList]
    rw [denNZ_envX_iff_env hC hσ' e h.1, denNZList_envX_iff_env hC hσ' es h.2]
end

mutual
/-- the all-valuations form implies the in-range form used by C10 -/
theorem denNZ_of_denNZA {env : Env} {σ' : Val} : ∀ (e : Expr), DenNZA env σ' e → DenNZ env σ' e
  | .prob _ _ _, _ => by simp
  | .prod fs, h => by
    simp only [DenNZ]
    exact denNZList_of_denNZAList fs (by simpa [DenNZA] using h)
  | .sum e r, h => by
    rw [denNZ_sum_iff]
    exact denNZ_of_denNZA e (by simpa [DenNZA] using h)
  | .frac n d, h => by
    simp only [DenNZA] at h
    rw [denNZ_frac_iff]
    exact ⟨denNZ_of_denNZA n h.1, denNZ_of_denNZA d h.2.1, fun σ _ => h.2.2 σ⟩
  | .one, _ => by simp
  | .zero, _ => by simp
  | .q _ _, _ => by simp
theorem denNZList_of_denNZAList {env : Env} {σ' : Val} : ∀ (fs : List Expr), DenNZAList env σ' fs → DenNZList env σ' fs
  | [], _ => by simp [DenNZList]
  | e :: es, h => by
    simp only [DenNZAList] at h
    simp only [DenNZList]
    exact ⟨denNZ_of_denNZA e h.1, denNZList_of_denNZAList es h.2⟩
end

end Scm
end Y0
