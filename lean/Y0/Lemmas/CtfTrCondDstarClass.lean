/-
  Y0.Lemmas.CtfTrCondDstarClass — **the class `ctfTRSoundClass` needs no clause about Algorithm 2's class**: for a validated
  conditional query in the graph-and-query class `ctfTRSoundClass`, the simplified derived event `D_*` of line 2 of
  Algorithm 3 (valueless items filled) is in the class `ctfSoundClass` of Algorithm 2's value theorem.

  Why: `D_*` is the ctf-factor form of the members of the ancestral components that hold an outcome; in the class the
  components name every vertex in one world only, so `D_*` holds ONE variable `W_{pa_W}` per vertex, with exactly the
  parents as subscripts.  SIMPLIFY keeps such a variable as it is (every direct parent is an ancestor in `G_{\overline X}`),
  the only counterfactual ancestor of `W_{pa_W}` is itself, and an event of such variables has none of the defects that
  `ctfSoundClass` excludes (Y0/Lemmas/CtfTrCondDstarClassCore.lean).

    `LinkClass.flat_consistent`   a member of a component carries consistent subscripts (they are among its root's);
    `minimize_factorForm`         minimising a ctf-factor-form variable keeps every subscript;
    `dstar_in_ctfSoundClass`      the theorem;
-/
import Y0.Lemmas.CtfTrCondLink3
import Y0.Lemmas.CtfTrCondJ
import Y0.Lemmas.CtfTrSoundFinal
import Y0.Lemmas.CtfTrCondDstarClassCore

namespace Y0.CtfTr
open Fscm Ctf Relation Y0.MG

/-- the subscripts of a member of an ancestral component are among those of its root, hence consistent in the class -/
theorem LinkClass.flat_consistent {g : MG Name} {o c : Event} {comps : List (List Var)} (hg : g.WF)
    (cls : LinkClass g o c comps) (w : Var) (hw : w ∈ comps.flatten) : ConsistentSubs w.ivs := by
  obtain ⟨sets, l1⟩ := line1_of g o c comps cls.comps_ok
  obtain ⟨C, hC, hwC⟩ := List.mem_flatten.1 hw
  obtain ⟨t, ht, hwt, _⟩ := l1.set_of C hC w hwC
  obtain ⟨r, hr⟩ := exists_zip_right _ sets l1.len t ht
  obtain ⟨cs, hs, _, _⟩ := root_facts g hg (eventVars c) r t (l1.each (r, t) hr)
  obtain ⟨p, hp, hpr⟩ := (mem_roots o c r).1 (List.of_mem_zip hr).1
  have hcons := cls.cons p hp
  rw [hpr] at hcons
  exact consistent_of_sub _ _ hcons (ctfAnc_ivs_sub (g.removeOutEdges cs) r w (hs w hwt))

/-- **SIMPLIFY's minimisation keeps a ctf-factor-form variable as it is**: every subscript is a direct parent, hence an
ancestor in `G_{\overline X}` -/
theorem minimize_factorForm (g : MG Name) (v k : Var) (hm : minimize g v = .ok k) (hff : ExactFactorForm g v)
    (hself : v.name ∉ subNames v) :
    k.name = v.name ∧ k.star = v.star ∧ (v.isIv = false → k.isIv = false) ∧ ∀ i, i ∈ k.ivs ↔ i ∈ v.ivs := by
  have hwf := minimize_wf g v k hm
  by_cases hcf : v.isCf = true
  · have hmin := minimize_spec g v k hcf hm
    refine ⟨hmin.1, hmin.2.1, fun _ => hwf.2.2.2.1 hcf, fun i => ⟨fun h => ((hmin.2.2 i).1 h).1, fun h => ?_⟩⟩
    exact (hmin.2.2 i).2 ⟨h, ReflTransGen.single ⟨(hff i.name).1 (List.mem_map.2 ⟨i, h, rfl⟩), hself⟩⟩
  · have hkv : k = v := hwf.2.2.2.2 (by simpa using hcf)
    subst hkv
    exact ⟨rfl, rfl, fun h => h, fun _ => Iff.rfl⟩

/-- **the simplified derived event of a query in `ctfTRSoundClass` is in the class of Algorithm 2's value theorem** -/
theorem dstar_in_ctfSoundClass (target : MG Name) (ds : List Domain) (o c : Event)
    (hv : validateC target ds o c = .ok ()) (hwf : target.WF) (hplain : EventVarsPlain (o ++ c))
    (hcls : ctfTRSoundClass target o c = true)
    (dstar : Event) (dNames : List Name) (h2 : line2C target o c = .ok (dstar, dNames))
    (q : Expr) (simplified : Event) (hu : ctfTRu target ds dstar = .ok (some (q, some simplified))) :
    ctfSoundClass target (fillEvent simplified) = .ok true := by
  obtain ⟨hrefl, _, _, _, hff, _⟩ := dstar_facts_j target ds o c hv hwf hplain dstar dNames h2
  obtain ⟨comps, cls⟩ := linkClass_of target o c hcls
  -- the description of `D_*` by lines 1-2
  obtain ⟨_, _, _, hnodes, _, _, _⟩ := validateC_facts target ds o c hv
  have hok : ∀ p ∈ o ++ c, VarOK target p.1 := by
    intro p hp
    refine ⟨hnodes p ?_, Or.inr ⟨(hplain p hp).2.1, (hplain p hp).1⟩⟩
    rcases List.mem_append.1 hp with h | h
    · exact List.mem_append_right _ h
    · exact List.mem_append_left _ h
  obtain ⟨lk, D, dstar', dNames', hlk, _, _, hDv, h2', hDn, hfacts⟩ := line2C_ok target hwf o c
    (fun p hp => hok p (List.mem_append_left _ hp)) (fun p hp => hok p (List.mem_append_right _ hp))
    (fun p hp => (hplain p (List.mem_append_left _ hp)).1)
  rw [h2] at h2'
  simp only [Except.ok.injEq, Prod.mk.injEq] at h2'
  obtain ⟨rfl, rfl⟩ := h2'
  have hDflat : ∀ w ∈ D, w ∈ comps.flatten := by
    rw [dstarVars_eq, cls.comps_ok, hlk] at hDv
    simp only [Except.bind, Except.ok.injEq] at hDv
    intro w hw
    rw [← hDv] at hw
    obtain ⟨C, hC, hwC, _⟩ := (mem_deriveVars comps _ w).1 hw
    exact List.mem_flatten.2 ⟨C, hC, hwC⟩
  -- the entries of `D_*`
  have hselfD : ∀ p ∈ dstar, p.1.name ∉ subNames p.1 := by
    intro p hp hmem
    have := hrefl p hp
    simp only [selfIntervened, List.any_eq_false, beq_iff_eq] at this
    obtain ⟨i, hi, hin⟩ := List.mem_map.1 hmem
    exact this i hi hin
  have hconsD : ∀ p ∈ dstar, ConsistentSubs p.1.ivs := by
    intro p hp
    obtain ⟨p', hp', hc', _⟩ := hfacts.origin p hp
    exact convertOne_consistent target p'.1 p.1 hc'
      (cls.flat_consistent hwf p'.1 (hDflat _ ((mem_deriveEvent lk D p').1 hp').1))
  have honeD : ∀ p ∈ dstar, ∀ p' ∈ dstar, p.1.name = p'.1.name → p.1 = p'.1 := by
    intro p hp p' hp' hn
    obtain ⟨a, ha, hca, _⟩ := hfacts.origin p hp
    obtain ⟨b, hb, hcb, _⟩ := hfacts.origin p' hp'
    have hab : a.1 = b.1 := by
      apply cls.oneWorld a.1 (hDflat _ ((mem_deriveEvent lk D a).1 ha).1) b.1 (hDflat _ ((mem_deriveEvent lk D b).1 hb).1)
      rw [← (convertOne_spec target a.1 p.1 hca).1, ← (convertOne_spec target b.1 p'.1 hcb).1]
      exact hn
    rw [hab, hcb] at hca
    exact (Except.ok.inj hca).symm
  -- the items of the simplified event
  have hs := ctfTRu_event_is_simplified target ds dstar simplified q hu
  have hitem : ∀ p ∈ fillEvent simplified, ∃ v x, (v, x) ∈ dstar ∧ minimize target v = .ok p.1 := by
    intro p hp
    unfold fillEvent at hp
    obtain ⟨p0, hp0, rfl⟩ := List.mem_map.1 hp
    obtain ⟨v, hvd, hm⟩ := simplify_item_origin target dstar simplified hs hrefl p0.1 p0.2 hp0
    exact ⟨v, p0.2, hvd, hm⟩
  -- `An(D_*)` exists: Algorithm 2 computed it in its line 2
  obtain ⟨anc, factors, _, _, _, hl2, _, _, _⟩ := ctfTRu_answer_shape target ds dstar simplified q hu
  by_cases hemp : simplified = []
  · subst hemp
    rfl
  · obtain ⟨D', _, _, _, hD', _⟩ := line2_factorize target hwf simplified anc factors hl2 hemp
    have hD'' : ancestralSet target (fillEvent simplified) = .ok D' := by
      rw [ancestralSet_congr_vars target simplified (fillEvent simplified) (fillEvent_vars simplified)]
      exact hD'
    apply ctfSoundClass_of_factorForm target hwf (fillEvent simplified) D' hD''
    · intro p hp a
      obtain ⟨v, x, hvd, hm⟩ := hitem p hp
      obtain ⟨hn, _, _, hivs⟩ := minimize_factorForm target v p.1 hm (hff _ hvd) (hselfD _ hvd)
      rw [hn, ← hff _ hvd a]
      simp only [subNames, List.mem_map]
      constructor
      · rintro ⟨i, hi, rfl⟩; exact ⟨i, (hivs i).1 hi, rfl⟩
      · rintro ⟨i, hi, rfl⟩; exact ⟨i, (hivs i).2 hi, rfl⟩
    · intro p hp hmem
      obtain ⟨v, x, hvd, hm⟩ := hitem p hp
      obtain ⟨hn, _, _, hivs⟩ := minimize_factorForm target v p.1 hm (hff _ hvd) (hselfD _ hvd)
      obtain ⟨i, hi, hin⟩ := List.mem_map.1 hmem
      exact hselfD _ hvd (List.mem_map.2 ⟨i, (hivs i).1 hi, by rw [hin, hn]⟩)
    · intro p hp
      obtain ⟨v, x, hvd, hm⟩ := hitem p hp
      obtain ⟨_, _, _, hivs⟩ := minimize_factorForm target v p.1 hm (hff _ hvd) (hselfD _ hvd)
      exact consistent_of_sub _ _ (hconsD _ hvd) (fun i hi => (hivs i).1 hi)
    · intro p hp
      obtain ⟨v, x, hvd, hm⟩ := hitem p hp
      obtain ⟨_, hst, _, _⟩ := minimize_factorForm target v p.1 hm (hff _ hvd) (hselfD _ hvd)
      rw [hst]
      exact (hfacts.var hDn _ hvd).2.1
    · intro p hp
      obtain ⟨v, x, hvd, hm⟩ := hitem p hp
      obtain ⟨_, _, hiv, _⟩ := minimize_factorForm target v p.1 hm (hff _ hvd) (hselfD _ hvd)
      exact hiv (hfacts.var hDn _ hvd).2.2.1
    · intro p hp p' hp' hn
      obtain ⟨v, x, hvd, hm⟩ := hitem p hp
      obtain ⟨v', x', hvd', hm'⟩ := hitem p' hp'
      have hvv : v = v' := by
        apply honeD _ hvd _ hvd'
        show v.name = v'.name
        rw [← (minimize_wf target v p.1 hm).1, ← (minimize_wf target v' p'.1 hm').1]
        exact hn
      rw [hvv, hm'] at hm
      exact (Except.ok.inj hm).symm

theorem exJ_linkClass : ctfTRSoundClass exFG exJO exJC = true := by decide +kernel

example : ctfSoundClass exFG (fillEvent exFEv) = .ok true :=
  dstar_in_ctfSoundClass exFG [exFDom] exJO exJC exJ_validated exJ_wf exJ_plain exJ_linkClass exFEvent [1] exJ_line2
    exFExpr exFEv exF_answer

end Y0.CtfTr
