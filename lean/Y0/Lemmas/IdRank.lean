/-
  Y0.Lemmas.IdRank — "acyclic" as used in the theorems about ID (`MG.Ranked`: the directed edges increase a rank
  function) is ordinary acyclicity (`MG.Acyclic`, Y0/Spec/GraphSpec.lean: no directed cycle) for the graphs the
  Python can build (`MG.WF`): rank a node by the number of its ancestors.
-/
import Y0.Lemmas.IdGraph

namespace Y0
namespace MG
open Relation

variable {G : MG Name}

theorem ranked_acyclic (h : G.Ranked) : G.Acyclic := by
  obtain ⟨rank, hr⟩ := h
  have key : ∀ u v, TransGen G.DiEdge u v → rank u < rank v := by
    intro u v huv
    induction huv with
    | single h => exact hr (_, _) h
    | tail _ h ih => exact Nat.lt_trans ih (hr (_, _) h)
  intro v hv
  exact Nat.lt_irrefl _ (key v v hv)

theorem nodup_ancestorsInclusive {S A : List Name} (h : G.ancestorsInclusive S = .ok A) : A.Nodup := by
  unfold ancestorsInclusive checkSources at h
  split at h
  · simp only [bind, Except.bind, pure, Except.pure, Except.ok.injEq] at h
    subst h
    exact nodup_closure _ _ _ (nodup_dedup' S)
  · simp [bind, Except.bind] at h

/-- the number of ancestors (inclusive) of a node -/
def ancCount (G : MG Name) (v : Name) : Nat :=
  match G.ancestorsInclusive [v] with
  | .ok A => A.length
  | .error _ => 0

/-- a well-formed graph without directed cycles has a rank function: the number of ancestors -/
theorem acyclic_ranked (hG : G.WF) (hac : G.Acyclic) : G.Ranked := by
  refine ⟨G.ancCount, ?_⟩
  intro e he
  obtain ⟨hu, hv⟩ := hG.di_mem e he
  obtain ⟨Au, hAu⟩ := ancestorsInclusive_total G [e.1] (by simpa using hu)
  obtain ⟨Av, hAv⟩ := ancestorsInclusive_total G [e.2] (by simpa using hv)
  have huv : G.DiEdge e.1 e.2 := he
  simp only [ancCount, hAu, hAv]
  have specu := ancestorsInclusive_spec G hG [e.1] Au hAu
  have specv := ancestorsInclusive_spec G hG [e.2] Av hAv
  refine length_lt_of_subset (nodup_ancestorsInclusive hAu) ?_ ((specv e.2).mpr ⟨e.2, by simp, .refl⟩) ?_
  · intro x hx
    obtain ⟨s, hs, hxs⟩ := (specu x).mp hx
    simp only [List.mem_singleton] at hs
    subst hs
    exact (specv x).mpr ⟨e.2, by simp, hxs.tail huv⟩
  · intro hc
    obtain ⟨s, hs, hvs⟩ := (specu e.2).mp hc
    simp only [List.mem_singleton] at hs
    subst hs
    exact hac e.2 (TransGen.tail' hvs huv)

/-- for the graphs the Python can build, the two notions of acyclicity coincide -/
theorem ranked_iff_acyclic (hG : G.WF) : G.Ranked ↔ G.Acyclic := ⟨ranked_acyclic, acyclic_ranked hG⟩

end MG
end Y0
