/-
  Y0.Lemmas.CtfTrCond — the normalisation step of Algorithm 3 (line 4) on top of the value clause of Algorithm 2.

    `eventReading_self`   for an event whose values are named after their variables, EVERY valuation `τ` is a reading of
                          the event under the value symbols `ν_τ n _ := τ n` — so the value clause of Algorithm 2 holds
                          as an identity between FUNCTIONS of the valuation;
    `ctfTRu_value_fun`    `den Q τ = P*_τ(D_* = τ)` for every in-range `τ`;
    `den_line4`           `den (Σ_A Q / Σ_B Q) σ = (Σ_A den Q) / (Σ_B den Q)`;
    `line4_normalise`     the algebra of the normalisation: if `Σ_A J · c = P(y, x)` and `Σ_B J · c = P(x)` with the same
                          non-zero `c` (the probability of the conditions outside `D_*`, independent of the rest), the
                          quotient is `P(y, x) / P(x)`.
-/
import Y0.Lemmas.CtfTrSoundFinal

namespace Y0.CtfTr
open Fscm Ctf
open Trso (isTnode tnode nsort mem_nsort)

/-- the value symbols read off a valuation: both `-X` and `+X` denote `τ X` -/
def nuOf (τ : Y0.Val) : BaseValues := fun n _ => τ n

theorem eventReading_self (τ : Y0.Val) (q : Event) (hval : ∀ p ∈ q, ∀ i, p.2 = some i → i.name = p.1.name) :
    EventReading (nuOf τ) τ q where
  value := by
    intro p hp i hi
    show τ p.1.name = τ i.name
    rw [hval p hp i hi]
  sub := by
    intro p _ i _
    rfl

theorem fillEvent_values (q : Event) (hval : ∀ p ∈ q, ∀ i, p.2 = some i → i.name = p.1.name) :
    ∀ p ∈ fillEvent q, ∀ i, p.2 = some i → i.name = p.1.name := by
  intro p hp i hi
  unfold fillEvent at hp
  obtain ⟨p0, hp0, rfl⟩ := List.mem_map.1 hp
  cases hv : p0.2 with
  | none =>
    simp only [hv, Option.some.injEq] at hi
    rw [← hi]
  | some j =>
    simp only [hv, Option.some.injEq] at hi
    rw [← hi]
    exact hval p0 hp0 j hv

/-- **the value clause of Algorithm 2 as an identity between functions of the valuation**: at every in-range valuation
`τ`, the answer denotes the target probability that every variable of the simplified event takes its value in `τ`
(in the world whose subscripts are read in `τ`) -/
theorem ctfTRu_value_fun (target : MG Name) (ds : List Domain) (e ev : Event) (x : Expr)
    (h : ctfTRu target ds e = .ok (some (x, some ev)))
    (hwf : target.WF) (hdecl : DomainsDeclared ds) (hplain : EventVarsPlain e)
    (hrefl : ∀ p ∈ e, selfIntervened p.1 = false)
    (hvalev : ∀ p ∈ ev, ∀ i, p.2 = some i → i.name = p.1.name)
    (hclass : ctfSoundClass target (fillEvent ev) = .ok true)
    (F : FscmFamily) (graphs : Option Name → MG Name) (hF : F.CompatibleWith target graphs (declsOf ds))
    (σ' : Y0.Val) :
    ∀ τ, (∀ x, τ x < F.card x) →
      den (F.env graphs) σ' x τ = probEventOpt F.target (nuOf τ) (fillEvent ev) := by
  intro τ hτ
  exact ctfTRu_value_filled target ds e ev x h hwf hdecl hplain hrefl hclass F graphs hF (nuOf τ) τ σ' hτ
    (eventReading_self τ (fillEvent ev) (fillEvent_values ev hvalev))

/-- denotation of line 4 of Algorithm 3 -/
theorem den_line4 (env : Env) (σ' σ : Y0.Val) (Q : Expr) (A B : List Name) (hA : A.Nodup) (hB : B.Nodup) :
    den env σ' (.frac (TrDsl.sumSafe Q (A.map Var.plain)) (TrDsl.sumSafe Q (B.map Var.plain))) σ =
      sumVars env.card A (fun τ => den env σ' Q τ) σ / sumVars env.card B (fun τ => den env σ' Q τ) σ := by
  rw [den_frac, den_trSumSafe, den_trSumSafe, sumVars_perm env.card (sortVars_plain_names A hA),
    sumVars_perm env.card (sortVars_plain_names B hB)]

/-- the algebra of the normalisation -/
theorem line4_normalise (num denom c Pjoint Pcond : Rat) (hc : c ≠ 0) (hnum : num * c = Pjoint)
    (hden : denom * c = Pcond) : num / denom = Pjoint / Pcond := by
  rw [← hnum, ← hden, mul_div_mul_right _ _ hc]

/-- the symbols (name, star) an event gives to names: event values and subscripts -/
def eventSyms (q : Event) : List Iv :=
  q.flatMap fun p => (match p.2 with | some i => [(⟨p.1.name, i.star⟩ : Iv)] | none => []) ++ p.1.ivs

/-- **`readingExists` is what it says**: if no name receives two different value symbols, then for every reading `ν`
of the value symbols some valuation carries the event's values -/
theorem eventReading_exists (q : Event) (hval : ∀ p ∈ q, ∀ i, p.2 = some i → i.name = p.1.name)
    (h : readingExists q = true) (ν : BaseValues) : ∃ σ, EventReading ν σ q := by
  have hall : ∀ a ∈ eventSyms q, ∀ b ∈ eventSyms q, a.name = b.name → a.star = b.star := by
    intro a ha b hb hab
    have h' : (eventSyms q).all (fun a => (eventSyms q).all fun b => a.name != b.name || a.star == b.star) = true := h
    rw [List.all_eq_true] at h'
    have h1 := h' a ha
    rw [List.all_eq_true] at h1
    have h2 := h1 b hb
    simp only [Bool.or_eq_true, bne_iff_ne, ne_eq, beq_iff_eq] at h2
    rcases h2 with h2 | h2
    · exact absurd hab h2
    · exact h2
  let σ : Y0.Val := fun n => match (eventSyms q).find? (fun a => a.name == n) with
    | some a => ν n a.star
    | none => 0
  have hσ : ∀ b ∈ eventSyms q, σ b.name = ν b.name b.star := by
    intro b hb
    show (match (eventSyms q).find? (fun a => a.name == b.name) with
      | some a => ν b.name a.star
      | none => 0) = _
    cases hf : (eventSyms q).find? (fun a => a.name == b.name) with
    | none =>
      rw [List.find?_eq_none] at hf
      exact absurd (by simp) (hf b hb)
    | some a =>
      have ha := List.mem_of_find?_eq_some hf
      have han : a.name = b.name := by simpa using List.find?_some hf
      simp only
      rw [hall a ha b hb han]
  refine ⟨σ, ⟨?_, ?_⟩⟩
  · intro p hp i hi
    have hmem : (⟨p.1.name, i.star⟩ : Iv) ∈ eventSyms q := by
      unfold eventSyms
      rw [List.mem_flatMap]
      exact ⟨p, hp, by rw [hi]; simp⟩
    have := hσ _ hmem
    simp only at this
    rw [this]
    show ν p.1.name i.star = ν i.name i.star
    rw [hval p hp i hi]
  · intro p hp i hi
    have hmem : i ∈ eventSyms q := by
      unfold eventSyms
      rw [List.mem_flatMap]
      exact ⟨p, hp, List.mem_append_right _ hi⟩
    exact hσ i hmem

end Y0.CtfTr
