/-
  Y0.Lemmas.CtfTrCond — the normalisation step of Algorithm 3 (line 4) on top of the value clause of Algorithm 2.

    `eventReading_self`   for an event whose values are named after their variables, EVERY valuation `τ` is a reading of
                          the event under the value symbols `ν_τ n _ := τ n` — so the value clause of Algorithm 2 holds
                          as an identity between FUNCTIONS of the valuation;
    `ctfTRu_value_fun`    `den Q τ = P*_τ(D_* = τ)` for every in-range `τ`;
    `den_line4`           `den (Σ_A Q / Σ_B Q) σ = (Σ_A den Q) / (Σ_B den Q)`;
    `line4_normalise`     the algebra of the normalisation: if `Σ_A J · c = P(y, x)` and `Σ_B J · c = P(x)` with the same
                          non-zero `c` (the probability of the conditions outside `D_*`, independent of the rest), the
                          quotient is `P(y, x) / P(x)`.
-/
import Y0.Lemmas.CtfTrSoundFinal

namespace Y0.CtfTr
open Fscm Ctf
open Trso (isTnode tnode nsort mem_nsort)

/-- the value symbols read off a valuation: both `-X` and `+X` denote `τ X` -/
def nuOf (τ : Y0.Val) : BaseValues := fun n _ => τ n

theorem eventReading_self (τ : Y0.Val) (q : Event) (hval : ∀ p ∈ q, ∀ i, p.2 = some i → i.name = p.1.name) :
    EventReading (nuOf τ) τ q where
  value := by
    intro p hp i hi
    show τ p.1.name = τ i.name
    rw [hval p hp i hi]
  sub := by
    intro p _ i _
    rfl

theorem fillEvent_values (q : Event) (hval : ∀ p ∈ q, ∀ i, p.2 = some i → i.name = p.1.name) :
    ∀ p ∈ fillEvent q, ∀ i, p.2 = some i → i.name = p.1.name := by
  intro p hp i hi
  unfold fillEvent at hp
  obtain ⟨p0, hp0, rfl⟩ := List.mem_map.1 hp
  cases hv : p0.2 with
  | none =>
    simp only [hv, Option.some.injEq] at hi
    rw [← hi]
  | some j =>
    simp only [hv, Option.some.injEq] at hi
    rw [← hi]
    exact hval p0 hp0 j hv

/-- **the value clause of Algorithm 2 as an identity between functions of the valuation**: at every in-range valuation
`τ`, the answer denotes the target probability that every variable of the simplified event takes its value in `τ`
(in the world whose subscripts are read in `τ`) -/
theorem ctfTRu_value_fun (target : MG Name) (ds : List Domain) (e ev : Event) (x : Expr)
    (h : ctfTRu target ds e = .ok (some (x, some ev)))
    (hwf : target.WF) (hdecl : DomainsDeclared ds) (hplain : EventVarsPlain e)
    (hrefl : ∀ p ∈ e, selfIntervened p.1 = false)
    (hvalev : ∀ p ∈ ev, ∀ i, p.2 = some i → i.name = p.1.name)
    (hclass : ctfSoundClass target (fillEvent ev) = .ok true)
    (F : FscmFamily) (graphs : Option Name → MG Name) (hF : F.CompatibleWith target graphs (declsOf ds))
    (σ' : Y0.Val) :
    ∀ τ, (∀ x, τ x < F.card x) →
      den (F.env graphs) σ' x τ = probEventOpt F.target (nuOf τ) (fillEvent ev) := by
  intro τ hτ
  exact ctfTRu_value_filled target ds e ev x h hwf hdecl hplain hrefl hclass F graphs hF (nuOf τ) τ σ' hτ
    (eventReading_self τ (fillEvent ev) (fillEvent_values ev hvalev))

/-- denotation of line 4 of Algorithm 3 -/
theorem den_line4 (env : Env) (σ' σ : Y0.Val) (Q : Expr) (A B : List Name) (hA : A.Nodup) (hB : B.Nodup) :
    den env σ' (.frac (TrDsl.sumSafe Q (A.map Var.plain)) (TrDsl.sumSafe Q (B.map Var.plain))) σ =
      sumVars env.card A (fun τ => den env σ' Q τ) σ / sumVars env.card B (fun τ => den env σ' Q τ) σ := by
  rw [den_frac, den_trSumSafe, den_trSumSafe, sumVars_perm env.card (sortVars_plain_names A hA),
    sumVars_perm env.card (sortVars_plain_names B hB)]

/-- the algebra of the normalisation -/
theorem line4_normalise (num denom c Pjoint Pcond : Rat) (hc : c ≠ 0) (hnum : num * c = Pjoint)
    (hden : denom * c = Pcond) : num / denom = Pjoint / Pcond := by
  rw [← hnum, ← hden, mul_div_mul_right _ _ hc]

end Y0.CtfTr
