/-
  Y0.Lemmas.TrsoPlumb — monadic plumbing for "the only possible error is the NotImplementedError of activate"
  (`OnlyNIE`, Lemmas/TrsoQInv) and the raw-vocabulary invariant of the carried expression in every phase.
-/
import Y0.Lemmas.TrsoQInv
import Y0.Lemmas.TrsoClean
import Y0.Props.C06Transport

namespace Y0
namespace Trso
open TrDsl MG

/-- outcome of a recursive call in any phase: the only possible error is `NotImplementedError`, an estimand is clean -/
def Good2 (x : Except Err (Option Expr)) : Prop := OnlyNIE x ∧ ∀ e, x = .ok (some e) → Clean e

theorem good2_ok {o : Option Expr} (h : ∀ e, o = some e → Clean e) : Good2 (.ok o) :=
  ⟨onlyNIE_ok _, fun e he => h e (by cases he; rfl)⟩

theorem good2_some {e : Expr} (h : Clean e) : Good2 (.ok (some e)) := good2_ok (fun e' he => by cases he; exact h)

theorem good2_none : Good2 (.ok none) := good2_ok (fun e he => by cases he)

theorem onlyNIE_error : OnlyNIE (Except.error (.internal "NotImplementedError") : Except Err α) := by
  intro e h; cases h; rfl

/-- `_c14n_safe(trso(new_query))` -/
theorem good2_c14n {x : Except Err (Option Expr)} (h : Good2 x) : Good2 (x >>= c14nSafe) := by
  cases x with
  | error e =>
    refine ⟨?_, ?_⟩
    · intro e' he'; simp [bind, Except.bind] at he'; subst he'; exact h.1 e rfl
    · intro e' he'; simp [bind, Except.bind] at he'
  | ok r =>
    obtain ⟨y, hy, hyc, _⟩ := c14nSafe_ok (x := r) (fun a ha => h.2 a (by rw [ha]))
    rw [ok_bind, hy]
    exact good2_ok hyc

/-- generic bind for `OnlyNIE` with a post-condition -/
theorem onlyNIE_bind_post {α β} {x : Except Err α} {f : α → Except Err β} {P : α → Prop} {Q : β → Prop}
    (hx : OnlyNIE x) (hxP : ∀ a, x = .ok a → P a) (hf : ∀ a, P a → OnlyNIE (f a) ∧ ∀ b, f a = .ok b → Q b) :
    OnlyNIE (x >>= f) ∧ ∀ b, (x >>= f) = .ok b → Q b := by
  cases x with
  | error e =>
    refine ⟨?_, ?_⟩
    · intro e' he'; simp [bind, Except.bind] at he'; subst he'; exact hx e rfl
    · intro b hb; simp [bind, Except.bind] at hb
  | ok a => rw [ok_bind]; exact hf a (hxP a rfl)

theorem mapM_onlyNIE {α β} {f : α → Except Err β} (P : β → Prop) :
    ∀ (l : List α), (∀ a ∈ l, OnlyNIE (f a) ∧ ∀ b, f a = .ok b → P b) →
      OnlyNIE (l.mapM f) ∧ ∀ r, l.mapM f = .ok r → ∀ b ∈ r, P b
  | [], _ => ⟨by intro e h; simp [pure, Except.pure] at h, by
      intro r h b hb; simp [pure, Except.pure] at h; subst h; cases hb⟩
  | a :: as, h => by
    rw [List.mapM_cons]
    have ha := h a (by simp)
    have ih := mapM_onlyNIE P as (fun x hx => h x (List.mem_cons_of_mem _ hx))
    refine onlyNIE_bind_post (P := P) ha.1 ha.2 (fun b hb => ?_)
    refine onlyNIE_bind_post (P := fun r => ∀ b ∈ r, P b) ih.1 ih.2 (fun bs hbs => ?_)
    refine ⟨onlyNIE_ok _, ?_⟩
    intro r hr x hx
    simp [pure, Except.pure] at hr; subst hr
    rcases List.mem_cons.1 hx with rfl | hx
    · exact hb
    · exact hbs x hx

/-- sequential collection of the line-4 sub-results -/
theorem collectTerms_good2 : ∀ (rs : List (Except Err (Option Expr))), (∀ r ∈ rs, Good2 r) →
    OnlyNIE (collectTerms rs) ∧ ∀ ts, collectTerms rs = .ok (some ts) → ∀ t ∈ ts, Clean t
  | [], _ => ⟨by intro e h; simp [collectTerms] at h, by
      intro ts h t ht; simp [collectTerms] at h; subst h; cases ht⟩
  | r :: rs, h => by
    have hr := h r (by simp)
    have ih := collectTerms_good2 rs (fun x hx => h x (List.mem_cons_of_mem _ hx))
    cases r with
    | error e =>
      have := hr.1 e rfl; subst this
      exact ⟨by intro e' he'; simp [collectTerms] at he'; exact he'.symm ▸ rfl, by intro ts hts; simp [collectTerms] at hts⟩
    | ok o =>
      cases o with
      | none => exact ⟨by intro e' he'; simp [collectTerms] at he', by intro ts hts; simp [collectTerms] at hts⟩
      | some t =>
        have ht : Clean t := hr.2 t rfl
        simp only [collectTerms]
        have key := onlyNIE_bind_post (x := collectTerms rs)
          (f := fun o => match o with
            | none => (pure none : Except Err (Option (List Expr)))
            | some ts => pure (some (t :: ts)))
          (P := fun o => ∀ ts, o = some ts → ∀ x ∈ ts, Clean x)
          (Q := fun o => ∀ ts, o = some ts → ∀ x ∈ ts, Clean x) ih.1
          (fun o ho ts hts => ih.2 ts (by rw [ho, hts])) (fun o ho => by
            cases o with
            | none => exact ⟨onlyNIE_ok _, by intro b hb ts hts; simp [pure, Except.pure] at hb; subst hb; cases hts⟩
            | some ts' =>
              refine ⟨onlyNIE_ok _, ?_⟩
              intro b hb ts hts x hx
              simp [pure, Except.pure] at hb; subst hb
              cases hts
              rcases List.mem_cons.1 hx with rfl | hx
              · exact ht
              · exact ho ts' rfl x hx)
        exact ⟨key.1, fun ts hts => key.2 (some ts) hts ts rfl⟩

/-! ### the carried expression stays raw (population-tagged leaves over plain non-selection variables) in every phase -/

/-- the mode "raw leaves everywhere, no condition on the query" -/
def modeR : Mode := ⟨RawLeaf, RawLeaf, fun _ => True⟩

theorem modeR_good : modeR.Good where
  monoC := modeS_good.monoC
  monoR := modeS_good.monoR
  sub := fun _ _ _ h => h
  plain := fun _ _ _ h => h.2
  fresh := fun _ _ _ _ h => ⟨rfl, h⟩
  stable := fun _ _ _ _ _ _ => trivial

theorem raw_line2 {q q' : Query} {anc : List Name} (he : Raw q.expr) (h : line2 q anc = .ok q') : Raw q'.expr :=
  (line2_inv modeR_good (q := q) trivial he h).1

theorem raw_line10 {q q' : Query} {G : MG Name} {c : List Name} {s : List (Pop × List Name)} (he : Raw q.expr)
    (hs : s = q.surr ∨ s = []) (h : line10 q G c s = .ok q') : Raw q'.expr :=
  (line10_inv modeR_good (q := q) trivial he hs h).1

end Trso
end Y0
