/-
  Y0.Lemmas.TrsoDenCanon — `Sum.simplify`, `Sum.safe(simplify=True)` and `canonicalize` (Y0.Model.TrDsl) keep the
  denotation `denL` (Lemmas/TrsoSemDefs) of every good expression: `Sum.simplify` on a joint leaf is marginalisation
  (`LeafSem.marg`), re-ordering the variables of a leaf does not change it (`LeafSem.congr`), `Product.safe`, `/` and the
  re-check of trivial fractions are covered by Lemmas/TrsoDenOps; `n / n = 1` needs positivity (`good_pos`).
-/
import Y0.Lemmas.TrsoDenOps

namespace Y0
namespace Trso
open TrDsl

variable {card : Name → Nat} {leaf : LeafFn}

namespace TrsoAux

/-! ### sorting is a permutation -/

theorem dc_insertStable_perm {α} (lt : α → α → Bool) (x : α) (l : List α) :
    (insertStable lt x l).Perm (x :: l) := by
  induction l with
  | nil => exact List.Perm.refl _
  | cons y ys ih =>
    unfold insertStable
    split
    · exact (List.Perm.cons y ih).trans (List.Perm.swap x y ys)
    · exact List.Perm.refl _

theorem dc_ssort_perm {α} (lt : α → α → Bool) (l : List α) : (ssort lt l).Perm l := by
  induction l with
  | nil => exact List.Perm.refl _
  | cons x xs ih =>
    show (insertStable lt x (ssort lt xs)).Perm (x :: xs)
    exact (dc_insertStable_perm lt x _).trans (List.Perm.cons x ih)

theorem sortVars_nodup (vs : List Var) : (sortVars vs).Nodup :=
  (dc_ssort_perm _ _).nodup_iff.2 (nodup_dedup' vs)

theorem nsort_nodup (l : List Name) : (nsort l).Nodup :=
  (dc_ssort_perm _ _).nodup_iff.2 (nodup_dedup' l)

/-- a plain variable is determined by its name -/
theorem plainReg_eq {v : Var} (h : PlainReg v) : v = Var.plain v.name := by
  obtain ⟨h1, h2, h3, _⟩ := h
  cases v
  simp_all [Var.plain]

theorem nodup_map_name {l : List Var} (hl : l.Nodup) (hp : ∀ v ∈ l, v = Var.plain v.name) :
    (l.map (·.name)).Nodup := by
  refine List.Nodup.map_on ?_ hl
  intro a ha b hb hab
  calc a = Var.plain a.name := hp a ha
    _ = Var.plain b.name := by rw [hab]
    _ = b := (hp b hb).symm

theorem sumVars_split (card : Name → Nat) (xs : List Name) (p : Name → Bool) (f : Val → Rat) :
    sumVars card xs f = sumVars card (xs.filter p) (sumVars card (xs.filter (fun v => !p v)) f) := by
  rw [← sumVars_append]
  exact sumVars_perm card (List.filter_append_perm p xs).symm f

theorem subset'_iff {α} [DecidableEq α] (a b : List α) : subset' a b = true ↔ ∀ x ∈ a, x ∈ b := by
  simp [subset']

/-! ### `childDict` -/

/-- one step of the `childDict` fold -/
def cdStep (acc : List (Name × Var)) (c : Var) : List (Name × Var) :=
  if acc.any (fun p => p.1 = c.name) then acc.map (fun p => if p.1 = c.name then (p.1, c) else p)
  else acc ++ [(c.name, c)]

theorem childDict_eq (cs : List Var) : childDict cs = cs.foldl cdStep [] := rfl

theorem cdStep_inv (acc : List (Name × Var)) (c : Var) (h1 : (acc.map (·.1)).Nodup)
    (h2 : ∀ p ∈ acc, p.2.name = p.1) :
    ((cdStep acc c).map (·.1)).Nodup ∧ (∀ p ∈ cdStep acc c, p.2.name = p.1) ∧
    (∀ n, n ∈ (cdStep acc c).map (·.1) ↔ n ∈ acc.map (·.1) ∨ n = c.name) := by
  unfold cdStep
  have hk : (acc.map (fun p => if p.1 = c.name then (p.1, c) else p)).map (·.1) = acc.map (·.1) := by
    rw [List.map_map]
    apply List.map_congr_left
    intro p _
    simp only [Function.comp]
    split <;> rfl
  split
  · rename_i h
    obtain ⟨q, hq, hqc⟩ := List.any_eq_true.1 h
    have hqc : q.1 = c.name := by simpa using hqc
    refine ⟨by rw [hk]; exact h1, ?_, ?_⟩
    · intro p hp
      obtain ⟨q', hq', rfl⟩ := List.mem_map.1 hp
      split
      · rename_i e; exact e.symm
      · exact h2 q' hq'
    · intro n
      rw [hk]
      constructor
      · exact Or.inl
      · rintro (h | rfl)
        · exact h
        · exact List.mem_map.2 ⟨q, hq, hqc⟩
  · rename_i h
    have hc : c.name ∉ acc.map (·.1) := by
      intro hm
      obtain ⟨q, hq, e⟩ := List.mem_map.1 hm
      exact h (List.any_eq_true.2 ⟨q, hq, by simpa using e⟩)
    refine ⟨?_, ?_, ?_⟩
    · rw [List.map_append]
      refine List.Nodup.append h1 (by simp) ?_
      intro a ha hb
      simp at hb
      subst hb
      exact hc ha
    · intro p hp
      rcases List.mem_append.1 hp with hp | hp
      · exact h2 p hp
      · simp at hp; subst hp; rfl
    · intro n
      simp

theorem cdFold_inv : ∀ (cs : List Var) (acc : List (Name × Var)), (acc.map (·.1)).Nodup →
    (∀ p ∈ acc, p.2.name = p.1) →
    ((cs.foldl cdStep acc).map (·.1)).Nodup ∧ (∀ p ∈ cs.foldl cdStep acc, p.2.name = p.1) ∧
    (∀ n, n ∈ (cs.foldl cdStep acc).map (·.1) ↔ n ∈ acc.map (·.1) ∨ ∃ c ∈ cs, c.name = n)
  | [], acc, h1, h2 => ⟨h1, h2, by simp⟩
  | c :: cs, acc, h1, h2 => by
    obtain ⟨s1, s2, s3⟩ := cdStep_inv acc c h1 h2
    obtain ⟨r1, r2, r3⟩ := cdFold_inv cs (cdStep acc c) s1 s2
    refine ⟨r1, r2, fun n => ?_⟩
    simp only [List.foldl_cons]
    rw [r3 n, s3 n]
    constructor
    · rintro ((h | rfl) | ⟨c', hc', rfl⟩)
      · exact Or.inl h
      · exact Or.inr ⟨c, by simp, rfl⟩
      · exact Or.inr ⟨c', by simp [hc'], rfl⟩
    · rintro (h | ⟨c', hc', rfl⟩)
      · exact Or.inl (Or.inl h)
      · rcases List.mem_cons.1 hc' with rfl | hc'
        · exact Or.inl (Or.inr rfl)
        · exact Or.inr ⟨c', hc', rfl⟩

theorem childDict_keys_nodup (cs : List Var) : ((childDict cs).map (·.1)).Nodup :=
  (cdFold_inv cs [] (by simp) (by simp)).1

theorem childDict_val_name (cs : List Var) : ∀ p ∈ childDict cs, p.2.name = p.1 :=
  (cdFold_inv cs [] (by simp) (by simp)).2.1

theorem mem_childDict_keys (cs : List Var) (n : Name) :
    n ∈ (childDict cs).map (·.1) ↔ ∃ c ∈ cs, c.name = n := by
  have := (cdFold_inv cs [] (by simp) (by simp)).2.2 n
  simpa [childDict_eq] using this

/-- children with pairwise distinct names: the dict has one entry per child, so the guard of the repaired `Sum.simplify`
(`len(children) != len(expression.children)`) does not fire -/
theorem childDict_length_of_nodup {cs : List Var} (h : (cs.map (·.name)).Nodup) : (childDict cs).length = cs.length := by
  have hp : ((childDict cs).map (·.1)).Perm (cs.map (·.name)) := by
    rw [List.perm_ext_iff_of_nodup (childDict_keys_nodup cs) h]
    intro n
    rw [mem_childDict_keys]
    simp
  simpa using hp.length_eq

/-- the names of the children kept by a filter on the keys -/
theorem mem_kept_names (cs : List Var) (f : Name × Var → Bool) (g : Name → Prop) (hf : ∀ p, f p = true ↔ g p.1)
    (n : Name) :
    n ∈ vnames (sortVars (((childDict cs).filter f).map (·.2))) ↔ n ∈ (childDict cs).map (·.1) ∧ g n := by
  simp only [vnames, List.mem_map, mem_sortVars, List.mem_filter]
  constructor
  · rintro ⟨v, ⟨p, ⟨hp, hfp⟩, rfl⟩, rfl⟩
    rw [childDict_val_name cs p hp]
    exact ⟨⟨p, hp, rfl⟩, (hf p).1 hfp⟩
  · rintro ⟨⟨p, hp, rfl⟩, hg⟩
    exact ⟨p.2, ⟨p, ⟨hp, (hf p).2 hg⟩, rfl⟩, childDict_val_name cs p hp⟩

/-! ### marginalising a joint leaf -/

/-- summing `Φ (xs ∪ E)` over the names `xs` leaves `Φ E` -/
theorem marg_list (S : LeafSem card leaf) {pop : Option Var} {w : List Iv} (hw : S.okW pop w) :
    ∀ (xs E : List Name), xs.Nodup → (∀ x ∈ xs, x ∉ E) → (∀ x ∈ xs, S.okN pop w x ∧ S.U x) →
      sumVars card xs (S.Φ pop w (xs ++ E)) = S.Φ pop w E
  | [], E, _, _, _ => rfl
  | x :: xs, E, hnd, hdis, hok => by
    have hnd' := List.nodup_cons.1 hnd
    have hcg : S.Φ pop w (x :: xs ++ E) = S.Φ pop w (xs ++ x :: E) :=
      S.congr pop w _ _ (by intro v; simp; tauto)
    have ih := marg_list S hw xs (x :: E) hnd'.2 (by
      intro y hy hmem
      rcases List.mem_cons.1 hmem with rfl | h
      · exact hnd'.1 hy
      · exact hdis y (List.mem_cons_of_mem _ hy) h) (fun y hy => hok y (List.mem_cons_of_mem _ hy))
    funext σ
    simp only [sumVars]
    rw [hcg, ih]
    exact S.marg pop w x E hw (hok x (by simp)).1 (hok x (by simp)).2 (hdis x (by simp)) σ

/-- summing the joint `Φ F` over `rsn`: the names in `F` are marginalised, the others stay as an outer sum -/
theorem sum_leaf_core (S : LeafSem card leaf) {pop : Option Var} {w : List Iv} (hw : S.okW pop w)
    (F keys rsn E : List Name) (hF : ∀ n, n ∈ keys ↔ n ∈ F) (hokF : ∀ n ∈ F, S.okN pop w n) (hnd : rsn.Nodup)
    (hU : ∀ n ∈ rsn, S.U n) (hE : ∀ n, n ∈ E ↔ n ∈ keys ∧ n ∉ rsn) :
    sumVars card rsn (S.Φ pop w F) =
      sumVars card (rsn.filter (fun n => decide (n ∉ keys))) (S.Φ pop w E) := by
  rw [sumVars_split card rsn (fun n => decide (n ∉ keys))]
  congr 1
  have hcg : S.Φ pop w F = S.Φ pop w (rsn.filter (fun v => !decide (v ∉ keys)) ++ E) := by
    apply S.congr
    intro v
    simp only [List.mem_append, List.mem_filter, hE, ← hF]
    by_cases h1 : v ∈ rsn <;> by_cases h2 : v ∈ keys <;> simp [h1, h2]
  rw [hcg]
  apply marg_list S hw
  · exact hnd.filter _
  · intro x hx hxE
    exact ((hE x).1 hxE).2 (List.mem_filter.1 hx).1
  · intro x hx
    have hx' := List.mem_filter.1 hx
    have hk : x ∈ keys := by simpa using hx'.2
    exact ⟨hokF x ((hF x).1 hk), hU x hx'.1⟩

end TrsoAux

/-- the names of `plainVars ns` are the names `ns`, each once -/
theorem sumVars_plainVars (ns : List Name) (f : Val → Rat) :
    sumVars card ((plainVars ns).map (·.name)) f = sumVars card (nsort ns) f := by
  apply sumVars_perm
  refine (List.perm_ext_iff_of_nodup ?_ (TrsoAux.nsort_nodup ns)).2 ?_
  · refine TrsoAux.nodup_map_name (TrsoAux.sortVars_nodup _) ?_
    intro v hv
    obtain ⟨n, _, rfl⟩ := (mem_plainVars v ns).1 hv
    rfl
  · intro a
    simp only [List.mem_map, mem_plainVars, mem_nsort]
    constructor
    · rintro ⟨v, ⟨n, hn, rfl⟩, rfl⟩; exact hn
    · intro h; exact ⟨Var.plain a, ⟨a, h, rfl⟩, rfl⟩

/-- `Sum(e, rs).simplify()` denotes the sum of `e` over `rs` (`rs`: plain summable variables with distinct names) -/
theorem denL_sumSimplify (S : LeafSem card leaf) {e : Expr} {rs : List Var} (he : Good S e)
    (hr : ∀ v ∈ rs, S.Rng v) (hnd : (rs.map (·.name)).Nodup) (σ : Val) :
    denL card leaf (sumSimplify e rs) σ = sumVars card (rs.map (·.name)) (fun τ => denL card leaf e τ) σ := by
  unfold sumSimplify
  split
  · rename_i pop children
    obtain ⟨w, hw, hall⟩ : S.Adm pop children [] := he.2
    -- every sub-leaf is the joint of its names
    have hleaf : ∀ cs : List Var, (∀ v ∈ cs, v ∈ children) → ∀ τ,
        denL card leaf (.prob pop cs []) τ = S.Φ pop w (vnames cs) τ := by
      intro cs hcs τ
      simp only [denL]
      rw [S.leaf_eq pop w cs [] hw (by
        intro v hv
        exact hall v (by simpa using hcs v (by simpa using hv))) τ]
      simp [vnames, S.nil pop w hw τ]
    have hfun : (fun τ => denL card leaf (.prob pop children []) τ) = S.Φ pop w (vnames children) :=
      funext (hleaf children (fun _ h => h))
    have hkeys : ∀ n, n ∈ (childDict children).map (·.1) ↔ n ∈ vnames children := by
      intro n
      rw [TrsoAux.mem_childDict_keys]
      simp [vnames]
    have hcore := TrsoAux.sum_leaf_core S hw (vnames children) ((childDict children).map (·.1))
      (rs.map (·.name)) (hF := hkeys)
      (hokF := by
        intro n hn
        obtain ⟨c, hc, rfl⟩ := List.mem_map.1 hn
        exact (hall c (by simpa using hc)).2.2.2)
      (hnd := hnd)
      (hU := by
        intro n hn
        obtain ⟨v, hv, rfl⟩ := List.mem_map.1 hn
        exact (hr v hv).2)
    have hsub : ∀ (f : Name × Var → Bool), ∀ v ∈ sortVars (((childDict children).filter f).map (·.2)), v ∈ children := by
      intro f v hv
      simp only [mem_sortVars, List.mem_map, List.mem_filter] at hv
      rcases hv with ⟨p, ⟨hp, _⟩, rfl⟩
      exact childDict_val_mem children p hp
    have hfilt : (rs.filter (fun r => decide (r.name ∉ (childDict children).map (·.1)))).map (·.name) =
        (rs.map (·.name)).filter (fun n => decide (n ∉ (childDict children).map (·.1))) := by
      rw [List.filter_map]; rfl
    rw [hfun]
    simp only []
    split
    · -- a name with several children: the sum is left alone
      rw [← hfun]; simp only [denL]
    split
    · -- every key is summed, nothing else
      rename_i hse
      simp only [seteq', Bool.and_eq_true, TrsoAux.subset'_iff] at hse
      rw [hcore [] (by
        intro n; simp only [List.not_mem_nil, false_iff, not_and, not_not]; exact hse.2 n)]
      have : (rs.map (·.name)).filter (fun n => decide (n ∉ (childDict children).map (·.1))) = [] := by
        rw [List.filter_eq_nil_iff]; intro a ha; simpa using hse.1 a ha
      rw [this]
      simp [denL, sumVars, S.nil pop w hw σ]
    · split
      · -- every key is summed, some ranges are left
        rename_i _ hsk
        rw [TrsoAux.subset'_iff] at hsk
        rw [hcore [] (by
          intro n; simp only [List.not_mem_nil, false_iff, not_and, not_not]; exact hsk n)]
        simp only [denL]
        rw [hfilt]
        exact sumVars_congr card _ (fun τ => (S.nil pop w hw τ).symm) σ
      · split
        · -- only keys are summed
          rename_i _ _ hsr
          rw [TrsoAux.subset'_iff] at hsr
          rw [hleaf _ (hsub _) σ]
          rw [hcore _ (TrsoAux.mem_kept_names children (fun p => decide (p.1 ∉ rs.map (·.name)))
            (fun n => n ∉ rs.map (·.name)) (by intro p; simp))]
          have : (rs.map (·.name)).filter (fun n => decide (n ∉ (childDict children).map (·.1))) = [] := by
            rw [List.filter_eq_nil_iff]; intro a ha; simpa using hsr a ha
          rw [this]
          rfl
        · -- general case
          have hsum : ∀ (e : Expr) (r : List Var), denL card leaf (.sum e r) σ =
              sumVars card (r.map (·.name)) (fun τ => denL card leaf e τ) σ := by
            intro e r; simp only [denL]
          rw [hsum, funext (hleaf _ (hsub _))]
          rw [hcore _ (fun n => (TrsoAux.mem_kept_names children
            (fun p => decide (p.1 ∉ (rs.map (·.name)).filter (fun x => decide (x ∈ (childDict children).map (·.1)))))
            (fun n => n ∉ (rs.map (·.name)).filter (fun x => decide (x ∈ (childDict children).map (·.1))))
            (by intro p; simp) n).trans (by simp only [List.mem_filter]; simp; tauto))]
          have hl : rs.filter (fun r => decide (r.name ∉ (rs.map (·.name)).filter
                (fun x => decide (x ∈ (childDict children).map (·.1))))) =
              rs.filter (fun r => decide (r.name ∉ (childDict children).map (·.1))) := by
            apply List.filter_congr
            intro r hr'
            have : r.name ∈ rs.map (·.name) := List.mem_map.2 ⟨r, hr', rfl⟩
            simp only [List.mem_filter, this, true_and, decide_eq_true_eq]
          rw [hl, hfilt]
  · simp only [denL]

/-- `Sum.safe(e, rs, simplify=b)` denotes the sum of `e` over the sorted, duplicate-free ranges -/
theorem denL_sumSafe (S : LeafSem card leaf) (b : Bool) {e : Expr} {rs : List Var} (he : Good S e)
    (hr : ∀ v ∈ rs, S.Rng v) (σ : Val) :
    denL card leaf (sumSafe e rs b) σ =
      sumVars card ((sortVars rs).map (·.name)) (fun τ => denL card leaf e τ) σ := by
  cases b with
  | false => exact denL_sumSafe_false e rs σ
  | true =>
    have hr' : ∀ v ∈ sortVars rs, S.Rng v := fun v hv => hr v ((mem_sortVars v rs).1 hv)
    unfold sumSafe
    simp only []
    split
    · rename_i hemp
      have : sortVars rs = [] := by simpa using hemp
      rw [this]; rfl
    · split
      · rename_i hz
        rw [clean_not_zero he.1] at hz; cases hz
      · simp only [if_true]
        exact denL_sumSimplify S he hr'
          (TrsoAux.nodup_map_name (TrsoAux.sortVars_nodup rs) (fun v hv => TrsoAux.plainReg_eq (hr' v hv).1)) σ

namespace TrsoAux

theorem dc_denLProd_append (as bs : List Expr) (σ : Val) :
    denLProd card leaf (as ++ bs) σ = denLProd card leaf as σ * denLProd card leaf bs σ := by
  rw [denLProd_eq, denLProd_eq, denLProd_eq, List.map_append, List.prod_append]

/-- re-ordering the variables of an admissible leaf does not change it -/
theorem denL_leaf_sort (S : LeafSem card leaf) {pop : Option Var} {c p : List Var} (h : S.Adm pop c p) (σ : Val) :
    denL card leaf (.prob pop (sortByName c) (sortByName p)) σ = denL card leaf (.prob pop c p) σ := by
  obtain ⟨w, hw, hall⟩ := h
  simp only [denL]
  rw [S.leaf_eq pop w c p hw hall σ,
    S.leaf_eq pop w _ _ hw (by intro v hv; exact hall v (by simpa using hv)) σ]
  rw [S.congr pop w (vnames (sortByName c ++ sortByName p)) (vnames (c ++ p)) (by intro v; simp [vnames]),
    S.congr pop w (vnames (sortByName p)) (vnames p) (by intro v; simp [vnames])]

/-- over a duplicate-free range the sorted range sums the same -/
theorem sumVars_sortVars_nodup (card : Name → Nat) {r : List Var} (hr : r.Nodup) (f : Val → Rat) :
    sumVars card ((sortVars r).map (·.name)) f = sumVars card (r.map (·.name)) f := by
  apply sumVars_perm
  exact ((List.perm_ext_iff_of_nodup (sortVars_nodup r) hr).2 (fun v => mem_sortVars v r)).map _

mutual
theorem denL_canon_aux (S : LeafSem card leaf) : ∀ (x e : Expr), Good S x → SumND x → canon x = .ok e →
    ∀ σ, denL card leaf e σ = denL card leaf x σ
  | .prob pop c p, e, hx, _, h => by
    simp [canon] at h; cases h
    intro σ; exact denL_leaf_sort S hx.2 σ
  | .prod fs, e, hx, hnd, h => by
    simp only [canon, bind, Except.bind] at h
    split at h
    · cases h
    · rename_i es hes; cases h
      intro σ
      rw [denL_productSafe, ← denLProd_eq, denLProd_flattenExprs,
        denL_canonFlat_aux S fs es ⟨hx.1, hx.2⟩ hnd hes σ]
      simp only [denL]
  | .sum x r, e, hx, hnd, h => by
    simp only [canon, bind, Except.bind] at h
    split at h
    · cases h
    · rename_i x' hx'; cases h
      intro σ
      have gx : Good S x := ⟨hx.1, hx.2.1⟩
      have gx' : Good S x' := good_canonicalize S gx hx'
      rw [denL_sumSafe S true gx' hx.2.2 σ]
      have : (fun τ => denL card leaf x' τ) = fun τ => denL card leaf x τ :=
        funext (denL_canon_aux S x x' gx hnd.1 hx')
      rw [this, sumVars_sortVars_nodup card hnd.2]
      simp only [denL]
  | .frac n d, e, hx, hnd, h => by
    simp only [canon, bind, Except.bind] at h
    split at h
    · cases h
    · rename_i n' hn'
      split at h
      · cases h
      · rename_i d' hd'
        simp only [pure, Except.pure] at h
        have gn : Good S n := ⟨hx.1.1, hx.2.1⟩
        have gd : Good S d := ⟨hx.1.2, hx.2.2⟩
        have gn' : Good S n' := good_canonicalize S gn hn'
        have gd' : Good S d' := good_canonicalize S gd hd'
        have ihn := denL_canon_aux S n n' gn hnd.1 hn'
        have ihd := denL_canon_aux S d d' gd hnd.2 hd'
        intro σ
        have hfrac : denL card leaf (.frac n d) σ = denL card leaf n σ / denL card leaf d σ := by
          simp only [denL]
        rw [hfrac, ← ihn σ, ← ihd σ]
        split at h
        · rename_i h1
          have he : n' = e := Except.ok.inj h
          subst he
          have hd1 : d' = .one := by cases d' <;> simp [isOne] at h1; rfl
          subst hd1
          simp [denL]
        · split at h
          · rename_i hq
            cases h
            have hnd' := exprEq_sound n' d' hq
            subst hnd'
            simp only [denL]
            exact (div_self (ne_of_gt (good_pos S gn' σ))).symm
          · split at h
            · cases h
            · rename_i rv hrv
              cases h
              rw [denL_postFrac S (good_truediv S gn' gd' hrv) σ, denL_truediv hrv σ]
  | .one, e, _, _, h => by simp [canon] at h; cases h; intro σ; rfl
  | .zero, e, hx, _, h => hx.1.elim
  | .q _ _, e, hx, _, h => hx.1.elim
theorem denL_canonFlat_aux (S : LeafSem card leaf) : ∀ (xs es : List Expr), GoodList S xs → SumNDList xs →
    canonFlat xs = .ok es → ∀ σ, denLProd card leaf es σ = denLProd card leaf xs σ
  | [], es, _, _, h => by simp [canonFlat] at h; cases h; intro σ; rfl
  | .prod gs :: xs, es, hx, hnd, h => by
    simp only [canonFlat, bind, Except.bind] at h
    split at h
    · cases h
    · rename_i gs' hgs
      split at h
      · cases h
      · rename_i xs' hxs
        cases h
        intro σ
        rw [dc_denLProd_append]
        simp only [denLProd, denL]
        rw [denL_canonFlat_aux S gs gs' ⟨hx.1.1, hx.2.1⟩ hnd.1 hgs σ,
          denL_canonFlat_aux S xs xs' ⟨hx.1.2, hx.2.2⟩ hnd.2 hxs σ]
  | .prob pop c p :: xs, es, hx, hnd, h => by
    simp only [canonFlat, bind, Except.bind] at h
    split at h
    · cases h
    · rename_i x' hx'
      split at h
      · cases h
      · rename_i xs' hxs
        cases h
        intro σ
        simp only [denLProd]
        rw [denL_canon_aux S _ x' ⟨hx.1.1, hx.2.1⟩ hnd.1 hx' σ,
          denL_canonFlat_aux S xs xs' ⟨hx.1.2, hx.2.2⟩ hnd.2 hxs σ]
  | .sum x r :: xs, es, hx, hnd, h => by
    simp only [canonFlat, bind, Except.bind] at h
    split at h
    · cases h
    · rename_i x' hx'
      split at h
      · cases h
      · rename_i xs' hxs
        cases h
        intro σ
        simp only [denLProd]
        rw [denL_canon_aux S _ x' ⟨hx.1.1, hx.2.1⟩ hnd.1 hx' σ,
          denL_canonFlat_aux S xs xs' ⟨hx.1.2, hx.2.2⟩ hnd.2 hxs σ]
  | .frac n d :: xs, es, hx, hnd, h => by
    simp only [canonFlat, bind, Except.bind] at h
    split at h
    · cases h
    · rename_i x' hx'
      split at h
      · cases h
      · rename_i xs' hxs
        cases h
        intro σ
        simp only [denLProd]
        rw [denL_canon_aux S _ x' ⟨hx.1.1, hx.2.1⟩ hnd.1 hx' σ,
          denL_canonFlat_aux S xs xs' ⟨hx.1.2, hx.2.2⟩ hnd.2 hxs σ]
  | .one :: xs, es, hx, hnd, h => by
    simp only [canonFlat, bind, Except.bind] at h
    split at h
    · cases h
    · rename_i x' hx'
      split at h
      · cases h
      · rename_i xs' hxs
        cases h
        intro σ
        simp only [denLProd]
        rw [denL_canon_aux S _ x' ⟨hx.1.1, hx.2.1⟩ hnd.1 hx' σ,
          denL_canonFlat_aux S xs xs' ⟨hx.1.2, hx.2.2⟩ hnd.2 hxs σ]
  | .zero :: _, _, hx, _, _ => hx.1.1.elim
  | .q _ _ :: _, _, hx, _, _ => hx.1.1.elim
end

end TrsoAux

/-- **`canonicalize` keeps the denotation of every good expression** -/
theorem denL_canon (S : LeafSem card leaf) {e e' : Expr} (he : Good S e) (hnd : SumND e) (h : canon e = .ok e') (σ : Val) :
    denL card leaf e' σ = denL card leaf e σ :=
  TrsoAux.denL_canon_aux S e e' he hnd h σ

theorem denL_canonicalize (S : LeafSem card leaf) {e e' : Expr} (he : Good S e) (hnd : SumND e)
    (h : canonicalize e = .ok e') (σ : Val) :
    denL card leaf e' σ = denL card leaf e σ := denL_canon S he hnd h σ

/-- `x.simplify()` on a fraction (the only use in TRSO: line 9) -/
theorem denL_simplifyCast_frac (S : LeafSem card leaf) {n d e : Expr} (hn : Good S n) (hd : Good S d)
    (h : simplifyCast (.frac n d) = .ok e) (σ : Val) :
    denL card leaf e σ = denL card leaf n σ / denL card leaf d σ :=
  denL_fracSimplify S hn hd h σ

theorem nodup_of_nodup_map_name' {c : List Var} (h : (c.map (·.name)).Nodup) : c.Nodup := List.Nodup.of_map _ h

/-- `Sum.safe(P[pop](c), rs, simplify=True)` when every range is (the name of) a child: `One()` or the joint of the
remaining children -/
theorem sumSafe_joint_sub (pop : Option Var) (c rs : List Var) (hplain : ∀ v ∈ rs, PlainReg v)
    (hcn : (c.map (·.name)).Nodup) (hsub : ∀ v ∈ rs, v.name ∈ c.map (·.name)) :
    sumSafe (.prob pop c []) rs true = .one ∨
    ∃ c', sumSafe (.prob pop c []) rs true = .prob pop c' [] ∧ (∀ v ∈ c', v ∈ c) ∧
      (∀ n, n ∈ c'.map (·.name) ↔ n ∈ c.map (·.name) ∧ n ∉ rs.map (·.name)) ∧ c'.Nodup := by
  have _ := hplain
  have hrsn : ∀ n, n ∈ (sortVars rs).map (·.name) ↔ n ∈ rs.map (·.name) := by intro n; simp
  have hkeys : ∀ n, n ∈ (childDict c).map (·.1) ↔ n ∈ c.map (·.name) := by
    intro n; rw [TrsoAux.mem_childDict_keys]; simp
  unfold sumSafe
  simp only []
  split
  · rename_i hemp
    have h0 : sortVars rs = [] := by simpa using hemp
    have : rs = [] := by
      by_contra hne; exact sortVars_nonempty hne h0
    subst this
    exact Or.inr ⟨c, rfl, fun _ h => h, by simp, nodup_of_nodup_map_name' hcn⟩
  · have hs : subset' ((sortVars rs).map (·.name)) ((childDict c).map (·.1)) = true := by
      rw [TrsoAux.subset'_iff]
      intro n hn
      rw [hkeys]
      rw [hrsn] at hn
      obtain ⟨v, hv, rfl⟩ := List.mem_map.1 hn
      exact hsub v hv
    simp only [isZero, Bool.false_eq_true, if_false, if_true]
    unfold sumSimplify
    have hg : ((childDict c).length != c.length) = false := by
      rw [TrsoAux.childDict_length_of_nodup hcn]; simp
    simp only [hg, Bool.false_eq_true, if_false]
    split
    · exact Or.inl rfl
    · rename_i hse
      have hks : ¬ subset' ((childDict c).map (·.1)) ((sortVars rs).map (·.name)) = true := by
        intro h; exact hse (by simp [seteq', hs, h])
      rw [if_neg hks]
      try rw [if_pos hs]
      refine Or.inr ⟨_, rfl, ?_, ?_, TrsoAux.sortVars_nodup _⟩
      · intro v hv
        simp only [mem_sortVars, List.mem_map, List.mem_filter] at hv
        rcases hv with ⟨p, ⟨hp, _⟩, rfl⟩
        exact childDict_val_mem c p hp
      · intro n
        refine (TrsoAux.mem_kept_names c (fun p => decide (p.1 ∉ (sortVars rs).map (·.name)))
          (fun n => n ∉ (sortVars rs).map (·.name)) (by intro p; simp) n).trans ?_
        rw [hkeys, hrsn]

end Trso
end Y0
