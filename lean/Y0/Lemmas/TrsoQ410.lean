/-
  Y0.Lemmas.TrsoQ410 — lines 4 and 8-11 of the TRSO recursion (`Y0.Model.Trso`) under the all-phase invariant `QInv`
  of `Y0.Lemmas.TrsoQInv`: the sub-queries of line 4 and the query of line 10 satisfy the invariant again and the
  measure `mu2` decreases; the topological order of lines 9/10 exists; the district used by line 10 is unique and
  regular; `line10Surr` succeeds.

  Same statements as `line4_inv`, `TInv.dwi_ne` (TrsoT234) and `TInv.order_ok`, `TInv.single_dwi`,
  `TInv.super_district`, `line10_tinv` (TrsoT610), but the current graph may contain selection nodes.
-/
import Y0.Lemmas.TrsoQInv
import Y0.Lemmas.TrsoT234
import Y0.Lemmas.TrsoT610

namespace Y0
namespace Trso
open TrDsl MG

/-! ### small facts -/

theorem mem_regularNodes_iff {G : MG Name} {v : Name} : v ∈ regularNodes G ↔ v ∈ G.nodes ∧ isTnode v = false := by
  unfold regularNodes
  rw [List.mem_filter]
  simp

/-- when every selection node of the graph is an intervention, a node outside `X` is regular -/
theorem regular_of_not_mem_X {G : MG Name} {X : List Name} (hT : ∀ t ∈ G.nodes, isTnode t = true → t ∈ X) {v : Name}
    (hv : v ∈ G.nodes) (hvX : v ∉ X) : isTnode v = false := by
  cases ht : isTnode v with
  | false => rfl
  | true => exact absurd (hT v hv ht) hvX

/-- a selection node without bidirected edges is alone in its district -/
theorem sameDistrict_tnode_eq {G : MG Name} (hbi : ∀ e ∈ G.bi, isTnode e.1 = false ∧ isTnode e.2 = false) {t v : Name}
    (ht : isTnode t = true) (h : G.SameDistrict t v) : t = v := by
  rcases Relation.ReflTransGen.cases_head h with h | ⟨w, hw, _⟩
  · exact h
  · rcases hw with hw | hw
    · have := (hbi _ hw).1
      simp only at this
      rw [ht] at this
      cases this
    · have := (hbi _ hw).2
      simp only at this
      rw [ht] at this
      cases this

/-- the edges of a sub-graph are edges of the graph -/
theorem mem_di_subgraph {G : MG Name} {S : List Name} {e : Name × Name} (he : e ∈ (G.subgraph S).di) :
    e ∈ G.di ∧ e.1 ∈ S ∧ e.2 ∈ S := by
  have : (G.subgraph S).DiEdge e.1 e.2 := he
  exact (diEdge_subgraph G S e.1 e.2).1 this

theorem mem_bi_subgraph {G : MG Name} {S : List Name} {e : Name × Name} (he : e ∈ (G.subgraph S).bi) :
    e ∈ G.bi := by
  unfold subgraph at he
  exact (List.mem_filter.1 (mem_bi_fromEdges_sub _ _ _ _ he)).1

theorem flag_eq_zero_of_active {q : Query} (h : q.active ≠ []) : flag q = 0 := by
  unfold flag
  cases ha : q.active with
  | nil => exact absurd ha h
  | cons a as => simp

theorem flag_eq_zero_of_surr {q : Query} (h : q.surr = []) : flag q = 0 := by
  unfold flag
  simp [h]

/-! ### line 4 -/

/-- the graph without the interventions has at least one district (the outcomes are there) -/
theorem QInv.dwi_ne {M q G} (h : QInv M q G) : (G.removeNodes q.X).districts ≠ [] := by
  obtain ⟨y, hy⟩ := List.exists_mem_of_ne_nil _ h.Yne
  have hyH : y ∈ (G.removeNodes q.X).nodes := (mem_nodes_removeNodes G h.wfG q.X y).2 ⟨h.YinG y hy, h.XY y hy⟩
  obtain ⟨d, hd, _⟩ := (districts_cover _ (wf_removeNodes G q.X) y).1 hyH
  intro hn
  rw [hn] at hd
  cases hd

theorem qline4_inv {M q G} (h : QInv M q G) (hT : ∀ t ∈ G.nodes, isTnode t = true → t ∈ q.X)
    (hlen : (G.removeNodes q.X).districts.length > 1) :
    ∀ s ∈ line4 q G (G.removeNodes q.X).districts,
      QInv M s G ∧ mu2 M s G < mu2 M q G ∧ s.expr = q.expr ∧ s.surr = q.surr ∧ s.active = q.active := by
  intro s hs
  unfold line4 at hs
  obtain ⟨c, hc, rfl⟩ := List.mem_map.1 hs
  have hH := wf_removeNodes G q.X
  have hcH : ∀ v ∈ c, v ∈ G.nodes ∧ v ∉ q.X := fun v hv =>
    (mem_nodes_removeNodes G h.wfG q.X v).1 ((districts_cover _ hH v).2 ⟨c, hc, hv⟩)
  have hcT : ∀ v ∈ c, isTnode v = false := fun v hv => regular_of_not_mem_X hT (hcH v hv).1 (hcH v hv).2
  refine ⟨?_, ?_, rfl, rfl, rfl⟩
  · refine
      { look := h.look, wf := h.wf, rk := h.rk, tpl := h.tpl, tbi := h.tbi, Yin := ?_, YT := ?_, Yne := ?_,
        Xin := ?_, XY := ?_, sub := h.sub, size := h.size, phase := ?_ }
    · intro p hp y hy
      have hy' : y ∈ c := (mem_nsort _ _).1 hy
      exact (h.sub p hp).1 y (hcH y hy').1 (hcT y hy')
    · intro y hy
      exact hcT y ((mem_nsort _ _).1 hy)
    · exact nsort_ne_nil (districts_nonempty _ hH c hc)
    · intro x hx
      have hx' : x ∈ regularNodes G ∧ x ∉ c := mem_diff'.1 hx
      exact regularNodes_sub hx'.1
    · intro y hy hyx
      have hy' : y ∈ c := (mem_nsort _ _).1 hy
      have hx' : y ∈ regularNodes G ∧ y ∉ c := mem_diff'.1 hyx
      exact hx'.2 hy'
    · rcases h.phase with hp | ⟨ha, he⟩
      · exact Or.inl hp
      · refine Or.inr ⟨ha, ?_⟩
        intro e heG ht
        apply mem_diff'.2
        refine ⟨mem_regularNodes_iff.2 ⟨(h.wfG.di_mem e heG).2, h.tplG e heG⟩, ?_⟩
        intro hec
        exact (hcH _ hec).2 (he e heG ht)
  · obtain ⟨D', hD', w, hwD, hwc⟩ := exists_other_district hH hc (by omega)
    have hwH : w ∈ G.nodes ∧ w ∉ q.X :=
      (mem_nodes_removeNodes G h.wfG q.X w).1 ((districts_cover _ hH w).2 ⟨D', hD', hwD⟩)
    have hwR : w ∈ regularNodes G := mem_regularNodes_iff.2 ⟨hwH.1, regular_of_not_mem_X hT hwH.1 hwH.2⟩
    have hlt : (diff' (regularNodes G) (diff' (regularNodes G) c)).length < (diff' (regularNodes G) q.X).length := by
      unfold diff'
      apply length_filter_lt_of_mem (w := w) _ hwR
      · simpa using hwH.2
      · have : w ∈ (regularNodes G).filter (fun x => decide (x ∉ c)) := List.mem_filter.2 ⟨hwR, by simpa using hwc⟩
        simpa using this
      · intro a haR ha
        have ha' : a ∉ regularNodes G ∨ a ∈ c := by simpa using ha
        have hac : a ∈ c := ha'.resolve_left (fun hn => hn haR)
        simpa using (hcH a hac).2
    apply mu2_lt_of_low (by rfl)
    have h1 := ind_le_one ({ q with Y := nsort c, X := diff' (regularNodes G) c } : Query) G
    show 2 * (diff' (regularNodes G) (diff' (regularNodes G) c)).length + _ < _
    omega

/-! ### the topological order of lines 9 / 10 -/

/-- the topological order used by lines 9/10 exists and lists every regular node of the current graph -/
theorem QInv.order_ok {M q G} (h : QInv M q G) :
    ∃ order, regularOrder G = .ok order ∧ ∀ v ∈ G.nodes, isTnode v = false → v ∈ order := by
  obtain ⟨l, hl⟩ := topologicalSort_total G h.wfG (MG.ranked_acyclic h.rkG)
  refine ⟨l.filter (fun n => !isTnode n), ?_, ?_⟩
  · unfold regularOrder
    rw [hl]
    rfl
  · intro v hv hvT
    apply List.mem_filter.2
    refine ⟨MG.topologicalSort_complete G h.wfG l hl v hv, ?_⟩
    simp [hvT]

/-! ### the districts of lines 8-11 -/

/-- the single district `c` of `G ∖ X` consists of the nodes outside `X`, contains the outcomes, is non-empty and
regular -/
theorem QInv.single_dwi {M q G} (h : QInv M q G) (hT : ∀ t ∈ G.nodes, isTnode t = true → t ∈ q.X) {c : List Name}
    (hc : (G.removeNodes q.X).districts = [c]) :
    (∀ v, v ∈ c ↔ v ∈ G.nodes ∧ v ∉ q.X) ∧ (∀ y ∈ q.Y, y ∈ c) ∧ c ≠ [] ∧ (∀ v ∈ c, isTnode v = false) := by
  have hm : ∀ v, v ∈ c ↔ v ∈ G.nodes ∧ v ∉ q.X := fun v => by
    rw [single_district_all (wf_removeNodes _ _) hc v, mem_nodes_removeNodes G h.wfG]
  have hY : ∀ y ∈ q.Y, y ∈ c := fun y hy => (hm y).2 ⟨h.YinG y hy, h.XY y hy⟩
  refine ⟨hm, hY, ?_, ?_⟩
  · obtain ⟨y, hy⟩ := List.exists_mem_of_ne_nil _ h.Yne
    intro h0
    have := hY y hy
    rw [h0] at this
    simp at this
  · intro v hv
    exact regular_of_not_mem_X hT ((hm v).1 hv).1 ((hm v).1 hv).2

/-- line 10: the district of `G` that contains `c` is unique, so the `filter` of the model returns exactly one; it
contains no selection node -/
theorem QInv.super_district {M q G} (h : QInv M q G) (hT : ∀ t ∈ G.nodes, isTnode t = true → t ∈ q.X) {c : List Name}
    (hc : (G.removeNodes q.X).districts = [c]) :
    ∃ c', G.districts.filter (fun d => subset' c d) = [c'] ∧ c' ∈ G.districts ∧ (∀ v ∈ c, v ∈ c') ∧
      (∀ v ∈ c', v ∈ G.nodes) ∧ (∀ v ∈ c', isTnode v = false) := by
  obtain ⟨hm, _, hne, hcT⟩ := h.single_dwi hT hc
  have hcm : c ∈ (G.removeNodes q.X).districts := by rw [hc]; simp
  obtain ⟨s, hs⟩ := List.exists_mem_of_ne_nil _ hne
  have hsV : s ∈ G.nodes := ((hm s).1 hs).1
  obtain ⟨D, hD, hsD⟩ := (districts_cover G h.wfG s).1 hsV
  have hcD : ∀ v ∈ c, v ∈ D := by
    intro v hv
    have h1 := (districts_spec _ (wf_removeNodes _ _) c hcm s hs v).1 hv
    have h2 : G.SameDistrict s v :=
      sameDistrict_mono (fun a b hab => ((biEdge_removeNodes G q.X a b).1 hab).1) h1
    exact (districts_spec G h.wfG D hD s hsD v).2 h2
  refine ⟨D, districts_filter_subset h.wfG hne hD hcD, hD, hcD,
    fun v hv => mem_nodes_of_mem_district h.wfG hD hv, ?_⟩
  intro t htD
  cases ht : isTnode t with
  | false => rfl
  | true =>
    have hts : G.SameDistrict t s := (districts_spec G h.wfG D hD t htD s).1 hsD
    have := sameDistrict_tnode_eq h.tbiG ht hts
    subst this
    rw [hcT t hs] at ht
    cases ht

/-! ### line 10 -/

/-- `line10Surr` succeeds; what it returns: the experiments stay as they are inside a source domain, they are
cleared in the target domain -/
theorem QInv.line10Surr_ok {M q G} (_h : QInv M q G) {c' : List Name} (hc' : ∀ v ∈ c', v ∈ G.nodes) :
    ∃ o, line10Surr q G c' = .ok o ∧
      ∀ s, o = some s → (s = q.surr ∧ q.active ≠ []) ∨ (s = [] ∧ q.active = []) := by
  unfold line10Surr
  cases ha : q.active with
  | nil =>
    refine ⟨some [], by simp, ?_⟩
    intro s hs
    cases hs
    exact Or.inr ⟨rfl, rfl⟩
  | cons a as =>
    obtain ⟨P, hP⟩ := (markovPillow_ok_iff G c').2 hc'
    have hp : pillowHasTransport G c' = .ok (P.any isTnode) := by
      unfold pillowHasTransport
      rw [hP]
      rfl
    rw [hp]
    cases P.any isTnode with
    | true =>
      refine ⟨none, by simp, ?_⟩
      intro s hs
      cases hs
    | false =>
      refine ⟨some q.surr, by simp, ?_⟩
      intro s hs
      cases hs
      exact Or.inl ⟨rfl, by simp⟩

/-- line 10 keeps the invariant and makes the graph smaller -/
theorem qline10_inv {M q G} (h : QInv M q G) {c' : List Name} (hc'd : c' ∈ G.districts) (hY : ∀ y ∈ q.Y, y ∈ c')
    (hc'T : ∀ v ∈ c', isTnode v = false) (hlen : ¬ G.districts.length ≤ 1) {q' : Query} {s : List (Pop × List Name)}
    (hX : q'.X = inter' q.X c') (hYq : q'.Y = q.Y) (hact : q'.active = q.active) (hdom : q'.domain = q.domain)
    (hsurr : q'.surr = s) (hs : (s = q.surr ∧ q.active ≠ []) ∨ (s = [] ∧ q.active = []))
    (hgr : q'.graphs = assign q.graphs q.domain (G.subgraph (nsort c'))) :
    QInv M q' (G.subgraph (nsort c')) ∧ mu2 M q' (G.subgraph (nsort c')) < mu2 M q G := by
  have hcV : ∀ v ∈ c', v ∈ G.nodes := fun v hv => mem_nodes_of_mem_district h.wfG hc'd hv
  have hSV : ∀ s ∈ nsort c', s ∈ G.nodes := fun s hs => hcV s ((mem_nsort s c').1 hs)
  have hmem : ∀ v, v ∈ (G.subgraph (nsort c')).nodes ↔ v ∈ c' := fun v => by
    rw [mem_nodes_subgraph, mem_nsort]
  have hnoT : ∀ v ∈ (G.subgraph (nsort c')).nodes, isTnode v = false := fun v hv => hc'T v ((hmem v).1 hv)
  have hcases : ∀ p ∈ q'.graphs, p = (q.domain, G.subgraph (nsort c')) ∨ p ∈ q.graphs := by
    intro p hp
    rw [hgr] at hp
    exact mem_assign hp
  constructor
  · refine
      { look := ?_, wf := ?_, rk := ?_, tpl := ?_, tbi := ?_, Yin := ?_, YT := ?_, Yne := ?_, Xin := ?_, XY := ?_,
        sub := ?_, size := ?_, phase := ?_ }
    · rw [hgr, hdom]; exact lookup_assign_self
    · intro p hp
      rcases hcases p hp with rfl | hp
      · exact wf_subgraph G _
      · exact h.wf p hp
    · intro p hp
      rcases hcases p hp with rfl | hp
      · exact Ranked.subgraph h.rkG _
      · exact h.rk p hp
    · intro p hp
      rcases hcases p hp with rfl | hp
      · intro e he
        exact h.tplG e (mem_di_subgraph he).1
      · exact h.tpl p hp
    · intro p hp
      rcases hcases p hp with rfl | hp
      · intro e he
        exact h.tbiG e (mem_bi_subgraph he)
      · exact h.tbi p hp
    · intro p hp y hy
      rw [hYq] at hy
      rcases hcases p hp with rfl | hp
      · exact (hmem y).2 (hY y hy)
      · exact h.Yin p hp y hy
    · rw [hYq]; exact h.YT
    · rw [hYq]; exact h.Yne
    · intro x hx
      rw [hX] at hx
      exact (hmem x).2 (mem_inter'.1 hx).2
    · intro y hy hyx
      rw [hYq] at hy
      rw [hX] at hyx
      exact h.XY y hy (mem_inter'.1 hyx).1
    · intro p hp
      rcases hcases p hp with rfl | hp
      · exact ⟨fun v hv _ => hv, fun e he _ => he⟩
      · refine ⟨fun v hv hvT => (h.sub p hp).1 v (hcV v ((hmem v).1 hv)) hvT,
          fun e he heT => (h.sub p hp).2 e (mem_di_subgraph he).1 heT⟩
    · intro p hp
      rcases hcases p hp with rfl | hp
      · exact Nat.le_trans (length_subgraph_le _ hSV) h.sizeG
      · exact h.size p hp
    · rcases hs with ⟨_, hane⟩ | ⟨hs0, ha0⟩
      · refine Or.inr ⟨by rw [hact]; exact hane, ?_⟩
        intro e he ht
        have h1 : e.1 ∈ c' := (mem_nsort _ _).1 (mem_di_subgraph he).2.1
        rw [hc'T _ h1] at ht
        cases ht
      · rcases h.phase with ⟨_, hd, _, _⟩ | ⟨hane, _⟩
        · exact Or.inl ⟨by rw [hact]; exact ha0, by rw [hdom]; exact hd, hnoT, Or.inl (by rw [hsurr]; exact hs0)⟩
        · exact absurd ha0 hane
  · obtain ⟨D', hD', x, hxD', hxc⟩ := exists_other_district h.wfG hc'd (by omega)
    have hxV : x ∈ G.nodes := mem_nodes_of_mem_district h.wfG hD' hxD'
    have hxS : x ∉ nsort c' := fun hx => hxc ((mem_nsort x c').1 hx)
    have hf : flag q' = 0 := by
      rcases hs with ⟨_, hane⟩ | ⟨hs0, _⟩
      · exact flag_eq_zero_of_active (by rw [hact]; exact hane)
      · exact flag_eq_zero_of_surr (by rw [hsurr]; exact hs0)
    exact mu2_lt_of_nodes h.sizeG (length_subgraph_lt _ hSV hxV hxS) (by rw [hf]; exact Nat.zero_le _)

end Trso
end Y0
