/-
  Y0.Lemmas.FscmToScmCompat — when the semi-Markovian model induced by a functional SCM is a member of the model class of
  C01 / C03 / C05 / C17 (`Scm.Compatible`, Y0/Spec/Scm.lean: positive kernels and priors, normalised, kernels read only
  parents and own latents, shared latent ⇒ bidirected edge):

      toScm_compatible :  ToScmOK M card base G → G.WF → M.Normalised → (kernels positive) → (M.toScm card base).Compatible G

  The positivity hypothesis `∀ v ∈ order, ∀ σ, 0 < kernOf v σ` says: whatever the parents and the shared noise, every
  value of `v` has positive probability under the private noise of `v` (e.g. `v := g(pa, shared) + private  mod |v|`
  with a full-support private noise).
-/
import Y0.Lemmas.FscmToScm

namespace Y0
namespace Fscm
open TianProb

variable {M : Model} {card : Name → Nat} {base : Nat} {G : MG Name}

theorem pmf_length_pos (hOK : ToScmOK M card base G) {j : Nat} (hj : j < M.noise.length) :
    0 < (M.noise.getD j []).length := by
  have hs := hOK.wf.noise_sum _ (noise_getD_mem hj)
  cases h : M.noise.getD j [] with
  | nil => rw [h] at hs; simp at hs
  | cons a l => simp

theorem not_mem_pa_self (hOK : ToScmOK M card base G) {v : Name} (hv : v ∈ M.order) : v ∉ M.pa v := by
  intro h
  obtain ⟨l₁, l₂, hord⟩ := List.append_of_mem hv
  have h1 := hOK.compat.topo l₁ v l₂ hord v h
  have hnd := hOK.compat.nodup
  rw [hord] at hnd
  exact (List.nodup_append.mp hnd).2.2 v h1 v List.mem_cons_self rfl

/-- the integrand of the push-forward kernel of `v` -/
def kInt (M : Model) (base : Nat) (v : Name) (τ : Val) : Rat := prL M base (M.privOf base v) τ * M.eqn base v τ

theorem kernOf_inRange {v : Name} {σ : Val} (h : σ v < card v) :
    M.kernOf card base v σ = sumVars (M.cardS card base) (M.privOf base v) (kInt M base v) σ := by
  unfold Model.kernOf
  rw [if_pos h]
  rfl

theorem privOf_sub (hOK : ToScmOK M card base G) (v : Name) : ∀ n ∈ M.privOf base v, n ∈ noiseNames base M.noise.length := by
  intro n hn
  obtain ⟨j, hj, _, rfl⟩ := mem_privOf.mp hn
  rw [mem_noiseNames]
  have := hOK.lat_lt v j hj
  omega

/-- summing the structural-equation indicator over the values of its own variable gives 1 -/
theorem sumVar_eqn (hOK : ToScmOK M card base G) {v : Name} (hv : v ∈ M.order) (τ : Val) :
    sumVar (M.cardS card base) v (M.eqn base v) τ = 1 := by
  have hvb : v < base := hOK.base_gt v hv
  rw [sumVar_eq_sum, cardS_node M card hvb]
  have hpa : ∀ k, (M.pa v).map (τ.set v k) = (M.pa v).map τ := by
    intro k
    apply List.map_congr_left
    intro p hp
    have : p ≠ v := fun e => not_mem_pa_self hOK hv (e ▸ hp)
    rw [Val.set_other _ _ this]
  have hlat : ∀ k, (M.lat v).map (fun j => (τ.set v k) (base + j)) = (M.lat v).map fun j => τ (base + j) := by
    intro k
    apply List.map_congr_left
    intro j _
    rw [Val.set_other _ _ (ne_base_add hvb).symm]
  set c := M.f v ((M.pa v).map τ) ((M.lat v).map fun j => τ (base + j)) with hc
  have hterm : ∀ k ∈ Finset.range (card v), M.eqn base v (τ.set v k) = if c = k then 1 else 0 := by
    intro k _
    unfold Model.eqn
    rw [hpa k, hlat k, Val.set_same]
  have hclt : c < card v := hOK.wf.f_range v _ _
  rw [Finset.sum_congr rfl hterm, Finset.sum_ite_eq]
  simp [hclt]

theorem toScm_kern_sum (hOK : ToScmOK M card base G) {v : Name} (hv : v ∈ M.order) (σ : Val) :
    sumVar (M.cardS card base) v (M.kernOf card base v) σ = 1 := by
  have hvb : v < base := hOK.base_gt v hv
  have hvP : v ∉ M.privOf base v := by
    intro h
    obtain ⟨j, _, _, e⟩ := mem_privOf.mp h
    exact ne_base_add hvb e
  have h1 : sumVar (M.cardS card base) v (M.kernOf card base v) σ =
      sumVar (M.cardS card base) v (sumVars (M.cardS card base) (M.privOf base v) (kInt M base v)) σ := by
    apply sumVar_congr
    intro k hk
    apply kernOf_inRange
    rw [Val.set_same]
    rwa [cardS_node M card hvb] at hk
  rw [h1, sumVar_sumVars_comm]
  have h2 : sumVar (M.cardS card base) v (kInt M base v) = prL M base (M.privOf base v) := by
    funext τ
    unfold kInt
    rw [sumVar_mul_left (M.cardS card base) v (prL M base (M.privOf base v)) (M.eqn base v) τ
      (prL_indep M base _ hvP), sumVar_eqn hOK hv τ, mul_one]
  rw [h2]
  exact sumVars_prL_one hOK _ (privOf_nodup hOK v) (privOf_sub hOK v) σ

theorem toScm_kern_dep (hOK : ToScmOK M card base G) (v : Name) :
    DependsOnly (M.kernOf card base v) (v :: G.parents v ++ (M.toScm card base).latOf v) := by
  set S := v :: G.parents v ++ (M.toScm card base).latOf v with hS
  have hK : DependsOnly (sumVars (M.cardS card base) (M.privOf base v) (kInt M base v)) S := by
    apply dependsOnly_restrict (M.privOf base v)
    · intro x hx _
      exact sumVars_indep_mem _ _ _ hx
    · apply sumVars_dependsOnly
      intro σ τ h
      unfold kInt
      have h1 : prL M base (M.privOf base v) σ = prL M base (M.privOf base v) τ := by
        unfold prL
        congr 1
        apply List.map_congr_left
        intro n hn
        rw [h n (List.mem_append_left _ hn)]
      have hv' : σ v = τ v := h v (List.mem_append_right _ (by rw [hS]; simp))
      have hpa : (M.pa v).map σ = (M.pa v).map τ := by
        apply List.map_congr_left
        intro p hp
        apply h p
        apply List.mem_append_right
        rw [hS]
        apply List.mem_cons_of_mem
        exact List.mem_append_left _ (MG.mem_parents.mpr (hOK.compat.pa_sub v p hp))
      have hlat : (M.lat v).map (fun j => σ (base + j)) = (M.lat v).map fun j => τ (base + j) := by
        apply List.map_congr_left
        intro j hj
        apply h
        by_cases hp : M.isPriv j = true
        · exact List.mem_append_left _ (mem_privOf.mpr ⟨j, hj, hp, rfl⟩)
        · apply List.mem_append_right
          rw [hS]
          apply List.mem_cons_of_mem
          apply List.mem_append_right
          simp only [Model.toScm, List.mem_map, List.mem_filter, Bool.not_eq_true']
          exact ⟨j, ⟨hj, by simpa using hp⟩, rfl⟩
      unfold Model.eqn
      rw [h1, hpa, hlat, hv']
  intro σ τ h
  have hv' : σ v = τ v := h v (by rw [hS]; simp)
  unfold Model.kernOf
  rw [hv']
  split
  · exact hK σ τ h
  · rfl

/-- **the induced model is a positive semi-Markovian model compatible with `G`** -/
theorem toScm_compatible (hOK : ToScmOK M card base G) (hnorm : M.Normalised)
    (hkpos : ∀ v ∈ M.order, ∀ σ, 0 < M.kernOf card base v σ) : (M.toScm card base).Compatible G where
  card_pos := fun x => by
    show 0 < M.cardS card base x
    unfold Model.cardS
    split
    · exact hOK.wf.card_pos x
    · split
      · rename_i h; exact pmf_length_pos hOK h
      · exact Nat.one_pos
  lat_nodup := toScm_lat_nodup
  lat_fresh := fun u hu hmem => by
    obtain ⟨j, _, _, rfl⟩ := mem_toScm_lat.mp hu
    exact ne_base_add (hOK.base_gt _ ((mem_nodes_iff hOK).mp hmem)) rfl
  prior_pos := fun u hu k => by
    obtain ⟨j, hj, _, rfl⟩ := mem_toScm_lat.mp hu
    show 0 < M.priorS base (base + j) k
    rw [priorS_noise]
    by_cases hk : k < (M.noise.getD j []).length
    · rw [List.getD_eq_getElem?_getD, List.getElem?_eq_getElem hk]
      exact (hnorm _ (noise_getD_mem hj)).1 _ (List.getElem_mem hk)
    · rw [List.getD_eq_getElem?_getD, List.getElem?_eq_none (by omega)]
      exact one_pos
  prior_sum := fun u hu => by
    obtain ⟨j, hj, _, rfl⟩ := mem_toScm_lat.mp hu
    show sumRange (M.cardS card base (base + j)) (M.priorS base (base + j)) = 1
    rw [sumRange_eq_sum, cardS_noise M card base hj]
    simp only [priorS_noise]
    rw [sum_range_getD]
    exact hOK.wf.noise_sum _ (noise_getD_mem hj)
  latOf_sub := fun v u hu => by
    simp only [Model.toScm, List.mem_map, List.mem_filter, Bool.not_eq_true'] at hu
    obtain ⟨j, ⟨hj, hs⟩, rfl⟩ := hu
    exact mem_toScm_lat.mpr ⟨j, hOK.lat_lt v j hj, hs, rfl⟩
  kern_dep := fun v _ => toScm_kern_dep hOK v
  kern_pos := fun v hv σ => hkpos v ((mem_nodes_iff hOK).mp hv) σ
  kern_sum := fun v hv σ => toScm_kern_sum hOK ((mem_nodes_iff hOK).mp hv) σ
  compat := fun v _ w _ hne h => by
    obtain ⟨u, hu1, hu2⟩ := h
    simp only [Model.toScm, List.mem_map, List.mem_filter, Bool.not_eq_true'] at hu1 hu2
    obtain ⟨j, ⟨hj, _⟩, rfl⟩ := hu1
    obtain ⟨j', ⟨hj', _⟩, e⟩ := hu2
    have : j' = j := Nat.add_left_cancel e
    subst this
    have := hOK.compat.lat_bi v w hne ⟨j', hj, hj'⟩
    unfold MG.hasBi
    rcases this with h | h
    · simp [h]
    · simp [h]

end Fscm
end Y0
