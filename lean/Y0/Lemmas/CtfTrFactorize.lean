/-
  Y0.Lemmas.CtfTrFactorize — the syntactic link between line 2 of Algorithm 2 (`CtfTr.line2`, which keeps the values of
  the event) and C19's `Ctf.factorize` (the model of `do_counterfactual_factor_factorization`, which drops them):

    `line2_factorize`          when line 2 succeeds, `factorize` succeeds on the same event, on the same ancestors, and
                               its ctf-factors are, IN THE SAME ORDER, the variable sets of the factors of line 2.

  (`summedNames_eq_range`, `event_vars_in_ancestors`, `simplify_output_minimal` are in Y0.Lemmas.CtfTrFactorize2.)

  Tools: `dedup'` keeps first occurrences (`l2f_dedup'_filter`, `l2f_dedup'_map_dedup'`); the grouping loop run on a list
  and on its image under a name-preserving map stay related entry by entry (`GroupRel`, `groupRel_fold`); an element
  that was grouped before is absorbed by the loop (`Absorbs`, `groupFold_dedup'`), so the loop may be run on the
  duplicate-free list.
-/
import Y0.Lemmas.CtfTrLine2
import Y0.Lemmas.CtfTrShape
import Y0.Lemmas.CtfDenValue
import Mathlib.Data.List.Forall2

namespace Y0.CtfTr
open Ctf Relation Y0.MG

/-! ### `dedup'` keeps first occurrences -/

section lists
variable {α β : Type} [DecidableEq α] [DecidableEq β]

theorem l2f_dedup'_filter (p : α → Bool) : ∀ l : List α, dedup' (l.filter p) = (dedup' l).filter p := by
  intro l
  induction l with
  | nil => rfl
  | cons x xs ih =>
    by_cases hp : p x = true
    · rw [List.filter_cons_of_pos hp]
      simp only [dedup']
      rw [List.filter_cons_of_pos hp, ih, List.filter_filter, List.filter_filter]
      congr 1
      apply List.filter_congr
      intro y _
      exact Bool.and_comm _ _
    · rw [List.filter_cons_of_neg hp]
      simp only [dedup']
      rw [List.filter_cons_of_neg hp, ih, List.filter_filter]
      apply List.filter_congr
      intro y _
      by_cases hy : y = x
      · subst hy
        simp [hp]
      · simp [hy]

theorem l2f_dedup'_map_dedup' (f : α → β) : ∀ l : List α, dedup' ((dedup' l).map f) = dedup' (l.map f) := by
  intro l
  induction l with
  | nil => rfl
  | cons x xs ih =>
    simp only [dedup', List.map_cons]
    congr 1
    rw [← ih]
    generalize dedup' xs = L
    rw [← l2f_dedup'_filter, ← l2f_dedup'_filter]
    congr 1
    rw [List.filter_map, List.filter_map, List.filter_filter]
    congr 1
    apply List.filter_congr
    intro y _
    by_cases hy : y = x
    · subst hy
      simp
    · by_cases hf : f y = f x
      · simp [hf]
      · simp [hf, hy]

theorem l2f_dedup'_idem (l : List α) : dedup' (dedup' l) = dedup' l := by
  have := l2f_dedup'_map_dedup' (id : α → α) l
  simpa using this

theorem l2f_mem_ins (x c : α) (l : List α) : c ∈ (if mem' x l = true then l else l ++ [x]) ↔ c ∈ l ∨ c = x := by
  split
  · rename_i h
    have hx : x ∈ l := (mem'_iff _ _).1 h
    constructor
    · exact Or.inl
    · rintro (h | rfl)
      · exact h
      · exact hx
  · simp

theorem l2f_forall₂_append {γ δ : Type} {R : γ → δ → Prop} {a₁ a₂ : List γ} {b₁ b₂ : List δ}
    (h₁ : List.Forall₂ R a₁ b₁) (h₂ : List.Forall₂ R a₂ b₂) : List.Forall₂ R (a₁ ++ a₂) (b₁ ++ b₂) := by
  induction h₁ with
  | nil => exact h₂
  | cons hab _ ih => exact List.Forall₂.cons hab ih

end lists

/-! ### the grouping loop on a list and on its image under a name-preserving map -/

section sim
variable {β γ : Type}

/-- two dictionaries of the grouping loop with the same keys in the same order, the second holding the images of the
first -/
def GroupRel (f : β → γ) (m : List (List Name × List β)) (m' : List (List Name × List γ)) : Prop :=
  List.Forall₂ (fun p p' => p.1 = p'.1 ∧ ∀ c, c ∈ p'.2 ↔ c ∈ p.2.map f) m m'

theorem groupRel_any (f : β → γ) (d : List Name) {m : List (List Name × List β)} {m' : List (List Name × List γ)}
    (h : GroupRel f m m') : (m.any fun p => p.1 == d) = (m'.any fun p => p.1 == d) := by
  unfold GroupRel at h
  induction h with
  | nil => rfl
  | cons hab _ ih =>
    simp only [List.any_cons, ih, hab.1]

variable [DecidableEq β] [DecidableEq γ]

theorem groupRel_add (f : β → γ) (d : List Name) (x : β) {m : List (List Name × List β)}
    {m' : List (List Name × List γ)} (h : GroupRel f m m') :
    GroupRel f (addToDistrict m d x) (addToDistrict m' d (f x)) := by
  unfold addToDistrict
  rw [← groupRel_any f d h]
  split
  · unfold GroupRel
    rw [List.forall₂_map_left_iff, List.forall₂_map_right_iff]
    refine List.Forall₂.imp ?_ h
    rintro p p' ⟨hk, hm⟩
    rw [← hk]
    by_cases hd : p.1 = d
    · have hb : (p.1 == d) = true := by simpa using hd
      simp only [hb, ↓reduceIte, true_and]
      intro c
      rw [l2f_mem_ins, List.mem_map]
      constructor
      · rintro (hc | rfl)
        · obtain ⟨y, hy, rfl⟩ := List.mem_map.1 ((hm c).1 hc)
          exact ⟨y, (l2f_mem_ins x y p.2).2 (Or.inl hy), rfl⟩
        · exact ⟨x, (l2f_mem_ins x x p.2).2 (Or.inr rfl), rfl⟩
      · rintro ⟨y, hy, rfl⟩
        rcases (l2f_mem_ins x y p.2).1 hy with hy | rfl
        · exact Or.inl ((hm _).2 (List.mem_map.2 ⟨y, hy, rfl⟩))
        · exact Or.inr rfl
    · have hb : (p.1 == d) = false := by simpa using hd
      simp only [hb, Bool.false_eq_true, ↓reduceIte]
      exact ⟨hk, hm⟩
  · exact l2f_forall₂_append h (List.Forall₂.cons ⟨rfl, by simp⟩ List.Forall₂.nil)

theorem groupRel_fold (g : MG Name) (nb : β → Name) (ng : γ → Name) (f : β → γ) (hn : ∀ x, ng (f x) = nb x) :
    ∀ (xs : List β) (m : List (List Name × List β)) (m' : List (List Name × List γ)) (r : List (List Name × List β)),
      GroupRel f m m' → xs.foldlM (groupStep g nb) m = .ok r →
      ∃ r', (xs.map f).foldlM (groupStep g ng) m' = .ok r' ∧ GroupRel f r r' := by
  intro xs
  induction xs with
  | nil =>
    intro m m' r hR h
    simp only [List.foldlM_nil, pure, Except.pure, Except.ok.injEq] at h
    subst h
    exact ⟨m', rfl, hR⟩
  | cons x xs ih =>
    intro m m' r hR h
    simp only [List.foldlM_cons, bind, Except.bind] at h
    cases hd : g.getDistrict (nb x) with
    | error e => simp only [groupStep, bind, Except.bind, hd] at h; cases h
    | ok d =>
      simp only [groupStep, bind, Except.bind, hd, pure, Except.pure] at h
      obtain ⟨r', hr', hRr⟩ := ih _ _ r (groupRel_add f d x hR) h
      refine ⟨r', ?_, hRr⟩
      simp only [List.map_cons, List.foldlM_cons, bind, Except.bind, groupStep, hn, hd, pure, Except.pure]
      exact hr'

/-! ### an element that was grouped before is absorbed -/

/-- `x` sits in every entry of the dictionary keyed by its district, and there is one -/
def Absorbs (g : MG Name) (name : γ → Name) (m : List (List Name × List γ)) (x : γ) : Prop :=
  ∃ d, g.getDistrict (name x) = .ok d ∧ (∃ p ∈ m, p.1 = d) ∧ ∀ p ∈ m, p.1 = d → x ∈ p.2

theorem absorbs_step_eq (g : MG Name) (name : γ → Name) (m : List (List Name × List γ)) (x : γ)
    (h : Absorbs g name m x) : groupStep g name m x = .ok m := by
  obtain ⟨d, hd, ⟨q, hq, hqd⟩, hall⟩ := h
  simp only [groupStep, bind, Except.bind, hd, pure, Except.pure, Except.ok.injEq]
  unfold addToDistrict
  have hany : (m.any fun p => p.1 == d) = true := by
    simp only [List.any_eq_true, beq_iff_eq]
    exact ⟨q, hq, hqd⟩
  simp only [hany, ↓reduceIte]
  conv => rhs; rw [← List.map_id m]
  apply List.map_congr_left
  intro p hp
  by_cases hpd : p.1 = d
  · have hb : (p.1 == d) = true := by simpa using hpd
    have hx : mem' x p.2 = true := (mem'_iff _ _).2 (hall p hp hpd)
    simp only [hb, hx, ↓reduceIte, id]
  · have hb : (p.1 == d) = false := by simpa using hpd
    simp only [hb, Bool.false_eq_true, ↓reduceIte, id]

theorem groupStep_ok (g : MG Name) (name : γ → Name) (m m2 : List (List Name × List γ)) (x : γ)
    (h : groupStep g name m x = .ok m2) : ∃ d, g.getDistrict (name x) = .ok d ∧ m2 = addToDistrict m d x := by
  cases hd : g.getDistrict (name x) with
  | error e => simp only [groupStep, bind, Except.bind, hd] at h; cases h
  | ok d =>
    simp only [groupStep, bind, Except.bind, hd, pure, Except.pure, Except.ok.injEq] at h
    exact ⟨d, rfl, h.symm⟩

theorem absorbs_self (g : MG Name) (name : γ → Name) (m m2 : List (List Name × List γ)) (x : γ)
    (h : groupStep g name m x = .ok m2) : Absorbs g name m2 x := by
  obtain ⟨d, hd, rfl⟩ := groupStep_ok g name m m2 x h
  refine ⟨d, hd, ?_, ?_⟩
  · by_cases hex : ∃ q ∈ m, q.1 = d
    · obtain ⟨q, hq, hqd⟩ := hex
      exact ⟨_, (mem_addToDistrict m d x _).2 (Or.inr (Or.inl ⟨q, hq, hqd, rfl⟩)), hqd⟩
    · simp only [not_exists, not_and] at hex
      exact ⟨(d, [x]), (mem_addToDistrict m d x _).2 (Or.inr (Or.inr ⟨hex, rfl⟩)), rfl⟩
  · intro p hp hpd
    rcases (mem_addToDistrict m d x p).1 hp with ⟨q, _, hqd, rfl⟩ | ⟨q, _, _, rfl⟩ | ⟨_, rfl⟩
    · exact absurd hpd hqd
    · exact (l2f_mem_ins x x q.2).2 (Or.inr rfl)
    · simp

theorem absorbs_mono (g : MG Name) (name : γ → Name) (m m2 : List (List Name × List γ)) (x y : γ)
    (hy : Absorbs g name m y) (h : groupStep g name m x = .ok m2) : Absorbs g name m2 y := by
  obtain ⟨d, _, rfl⟩ := groupStep_ok g name m m2 x h
  obtain ⟨dy, hdy, ⟨q, hq, hqd⟩, hall⟩ := hy
  refine ⟨dy, hdy, ?_, ?_⟩
  · by_cases hqx : q.1 = d
    · exact ⟨_, (mem_addToDistrict m d x _).2 (Or.inr (Or.inl ⟨q, hq, hqx, rfl⟩)), hqd⟩
    · exact ⟨q, (mem_addToDistrict m d x _).2 (Or.inl ⟨q, hq, hqx, rfl⟩), hqd⟩
  · intro p hp hpd
    rcases (mem_addToDistrict m d x p).1 hp with ⟨q', hq', _, rfl⟩ | ⟨q', hq', _, rfl⟩ | ⟨hno, rfl⟩
    · exact hall _ hq' hpd
    · exact (l2f_mem_ins x y q'.2).2 (Or.inl (hall q' hq' hpd))
    · exact absurd (hqd.trans hpd.symm) (hno q hq)

/-- the grouping loop gives the same dictionary on a list and on the list without its repetitions -/
theorem groupFold_dedup'_aux (g : MG Name) (name : γ → Name) :
    ∀ (l S : List γ) (m : List (List Name × List γ)), (∀ x ∈ S, Absorbs g name m x) →
      l.foldlM (groupStep g name) m =
        ((dedup' l).filter fun x => decide (x ∉ S)).foldlM (groupStep g name) m := by
  intro l
  induction l with
  | nil => intro S m _; rfl
  | cons x xs ih =>
    intro S m hS
    simp only [dedup']
    by_cases hx : x ∈ S
    · rw [List.foldlM_cons, absorbs_step_eq g name m x (hS x hx)]
      have hneg : ¬ (decide (x ∉ S) = true) := by simpa using hx
      rw [List.filter_cons_of_neg (p := fun y => decide (y ∉ S)) hneg, List.filter_filter]
      have : (List.filter (fun a => decide (a ∉ S) && decide (a ≠ x)) (dedup' xs)) =
          List.filter (fun a => decide (a ∉ S)) (dedup' xs) := by
        apply List.filter_congr
        intro y _
        by_cases hy : y = x
        · subst hy; simp [hx]
        · simp [hy]
      rw [this]
      exact ih S m hS
    · have hpos : decide (x ∉ S) = true := by simpa using hx
      rw [List.filter_cons_of_pos (p := fun y => decide (y ∉ S)) hpos, List.foldlM_cons, List.foldlM_cons, List.filter_filter]
      cases hstep : groupStep g name m x with
      | error e => rfl
      | ok m2 =>
        have hS2 : ∀ y ∈ x :: S, Absorbs g name m2 y := by
          intro y hy
          rcases List.mem_cons.1 hy with rfl | hy
          · exact absorbs_self g name m m2 y hstep
          · exact absorbs_mono g name m m2 x y (hS y hy) hstep
        have : (List.filter (fun a => decide (a ∉ S) && decide (a ≠ x)) (dedup' xs)) =
            List.filter (fun a => decide (a ∉ x :: S)) (dedup' xs) := by
          apply List.filter_congr
          intro y _
          by_cases hy : y = x
          · subst hy; simp
          · by_cases hyS : y ∈ S <;> simp [hy, hyS]
        rw [this]
        exact ih (x :: S) m2 hS2

theorem groupFold_dedup' (g : MG Name) (name : γ → Name) (l : List γ) :
    l.foldlM (groupStep g name) [] = (dedup' l).foldlM (groupStep g name) [] := by
  have := groupFold_dedup'_aux g name l [] [] (by intro x hx; cases hx)
  simpa using this

/-- **grouping commutes with a name-preserving map**: the groups of the duplicate-free image are, in the same order,
the images of the groups -/
theorem groupByDistrict_map (g : MG Name) (nb : β → Name) (ng : γ → Name) (f : β → γ) (hn : ∀ x, ng (f x) = nb x)
    (xs : List β) (groups : List (List β)) (h : groupByDistrict g nb xs = .ok groups) :
    ∃ fs, groupByDistrict g ng (dedup' (xs.map f)) = .ok fs ∧
      List.Forall₂ (fun (F : List γ) (grp : List β) => ∀ c, c ∈ F ↔ c ∈ grp.map f) fs groups := by
  unfold groupByDistrict at h
  simp only [bind, Except.bind] at h
  cases hf : xs.foldlM (groupStep g nb) [] with
  | error e => rw [hf] at h; cases h
  | ok m =>
    rw [hf] at h
    simp only [pure, Except.pure, Except.ok.injEq] at h
    subst h
    obtain ⟨r', hr', hR⟩ := groupRel_fold g nb ng f hn xs [] [] m List.Forall₂.nil hf
    refine ⟨r'.map (·.2), ?_, ?_⟩
    · unfold groupByDistrict
      rw [← groupFold_dedup', hr']
      rfl
    · rw [List.forall₂_map_left_iff, List.forall₂_map_right_iff]
      exact List.Forall₂.imp (fun p p' hpp => hpp.2) hR.flip

end sim

/-! ### the pieces of line 2 against the pieces of `factorize` -/

theorem ctfFactorsValues_unfold (g' : MG Name) (E : Event) (factors : List Event)
    (h : ctfFactorsValues g' E = .ok factors) :
    isCtfFactorForm g' (dedup' ((dedup' E).map (·.1))) = .ok true ∧
      groupByDistrict g' (·.1.name) (dedup' E) = .ok factors := by
  unfold ctfFactorsValues at h
  simp only [bind, Except.bind] at h
  cases hform : isCtfFactorForm g' (dedup' ((dedup' E).map (·.1))) with
  | error err => rw [hform] at h; cases h
  | ok b =>
    rw [hform] at h
    cases b with
    | false => simp [throw, throwThe, MonadExceptOf.throw] at h
    | true =>
      simp only [Bool.not_true, Bool.false_eq_true, ↓reduceIte] at h
      exact ⟨rfl, h⟩

theorem ctfFactors_of_parts (g' : MG Name) (C : List Var) (fs : List (List Var))
    (h1 : isCtfFactorForm g' (dedup' C) = .ok true) (h2 : groupByDistrict g' (·.name) (dedup' C) = .ok fs) :
    ctfFactors g' C = .ok fs := by
  unfold ctfFactors
  simp only [bind, Except.bind, h1, Bool.not_true, Bool.false_eq_true, ↓reduceIte]
  exact h2

theorem withValues_map_fst (ev : Event) (D : List Var) : (withValues ev D).map (·.1) = D := by
  unfold withValues
  rw [List.map_map]
  conv => rhs; rw [← List.map_id D]
  apply List.map_congr_left
  intro v _
  simp only [Function.comp, id]
  split <;> rfl

/-- the conversion loop of line 2 converts the variables with `convertOne` and keeps the values -/
theorem convStep_mapM (g : MG Name) : ∀ (l cv : Event), l.mapM (convStep g) = .ok cv →
    (l.map (·.1)).mapM (convertOne g) = .ok (cv.map (·.1)) ∧ cv.map (·.1.name) = l.map (·.1.name) := by
  intro l
  induction l with
  | nil =>
    intro cv h
    simp only [List.mapM_nil, pure, Except.pure, Except.ok.injEq] at h
    subst h
    exact ⟨rfl, rfl⟩
  | cons a l ih =>
    intro cv h
    simp only [List.mapM_cons, bind, Except.bind] at h
    cases ha : convStep g a with
    | error e => rw [ha] at h; cases h
    | ok b =>
      rw [ha] at h
      simp only at h
      cases hl : l.mapM (convStep g) with
      | error e => rw [hl] at h; cases h
      | ok bs =>
        rw [hl] at h
        simp only [pure, Except.pure, Except.ok.injEq] at h
        subst h
        obtain ⟨h1, h2⟩ := ih bs hl
        obtain ⟨hb, _⟩ := convStep_ok g a b ha
        refine ⟨?_, ?_⟩
        · simp only [List.map_cons, List.mapM_cons, bind, Except.bind, hb, h1, pure, Except.pure]
        · simp only [List.map_cons, h2, (convertOne_spec g a.1 b.1 hb).1]

theorem convertOne_ok_node (g : MG Name) (v w : Var) (h : convertOne g v = .ok w) : v.name ∈ g.nodes := by
  unfold convertOne at h
  by_cases hv : v.name ∈ g.nodes
  · exact hv
  · simp only [predecessors, hv, ↓reduceIte, bind, Except.bind] at h; cases h

/-- the member of the accumulated ancestors on the vertex of an event variable (`QCtx.selfVar` without the context) -/
theorem ancestralSet_selfName (g : MG Name) (hg : g.WF) (ev : Event) (D : List Var) (hD : ancestralSet g ev = .ok D)
    (p : Var × Ctf.Val) (hp : p ∈ ev) : ∃ w ∈ D, w.name = p.1.name := by
  classical
  obtain ⟨w, hw, _, hn⟩ := (ancestralSet_spec g hg ev D hD).2 p hp
    { name := p.1.name, ivs := p.1.ivs.filter (fun i => decide (AncBar g (subNames p.1) p.1.name i.name)) }
    ⟨ReflTransGen.refl, rfl, rfl, fun i => by simp only [List.mem_filter, decide_eq_true_eq]⟩
  exact ⟨w, hw, hn⟩

/-- **line 2 of Algorithm 2 computes the ctf-factor factorisation of C19.**  When line 2 succeeds on a non-empty event,
`do_counterfactual_factor_factorization` succeeds on it, over the same accumulated ancestors, and its ctf-factors are, in
the same order, the variable sets of the ctf-factors of line 2. -/
theorem line2_factorize (g : MG Name) (hg : g.WF) (ev anc : Event) (factors : List Event)
    (h : line2 g ev = .ok (anc, factors)) (hne : ev ≠ []) :
    ∃ (D cs : List Var) (fs : List (List Var)) (fev : Event),
      ancestralSet g ev = .ok D ∧ D.mapM (convertOne g) = .ok cs ∧ anc = withValues ev D ∧
      ctfFactors (g.subgraph (dedup' ((dedup' cs).map (·.name)))) (dedup' cs) = .ok fs ∧
      factorize g ev = .ok (Ctf.sumSafe (Ctf.productSafe (fs.map probOf))
        ((dedup' ((dedup' cs).map (·.name))).filter (fun n => decide (n ∉ dedup' (ev.map (·.1.name))))), fev) ∧
      convertEvent g ev = .ok fev ∧
      List.Forall₂ (fun (F : List Var) (f : Event) => ∀ c, c ∈ F ↔ c ∈ f.map (·.1)) fs factors := by
  rw [line2_eq] at h
  cases hD : ev.foldlM (ancStep g) [] with
  | error e => rw [hD] at h; cases h
  | ok D =>
  rw [hD] at h
  simp only [Except.bind] at h
  cases hcv : (withValues ev D).mapM (convStep g) with
  | error e => rw [hcv] at h; cases h
  | ok cv =>
  rw [hcv] at h
  simp only at h
  cases hfac : ctfFactorsValues (g.subgraph (dedup' (D.map (·.name)))) (dedup' cv) with
  | error e => rw [hfac] at h; cases h
  | ok factors' =>
  rw [hfac] at h
  simp only [Except.ok.injEq, Prod.mk.injEq] at h
  obtain ⟨hanc, hfeq⟩ := h
  subst hfeq
  -- the converted ancestors
  obtain ⟨hcs, hnames⟩ := convStep_mapM g (withValues ev D) cv hcv
  rw [withValues_map_fst] at hcs
  have hnm : (cv.map (·.1)).map (·.name) = D.map (·.name) := by
    rw [List.map_map]
    show cv.map (fun p => p.1.name) = _
    rw [hnames]
    conv => rhs; rw [← withValues_map_fst ev D, List.map_map]
    rfl
  -- the two subgraphs are the same
  have hsub : dedup' ((dedup' (cv.map (·.1))).map (·.name)) = dedup' (D.map (·.name)) := by
    rw [l2f_dedup'_map_dedup', hnm]
  -- the two tested lists are the same
  have hlist : dedup' ((dedup' (dedup' cv)).map (·.1)) = dedup' (dedup' (cv.map (·.1))) := by
    rw [l2f_dedup'_idem, l2f_dedup'_idem, l2f_dedup'_map_dedup']
  obtain ⟨hform, hgrp⟩ := ctfFactorsValues_unfold _ _ _ hfac
  rw [hlist] at hform
  obtain ⟨fs, hfs, hF2⟩ := groupByDistrict_map (g.subgraph (dedup' (D.map (·.name))))
    (fun x : Var × Ctf.Val => x.1.name) (fun v : Var => v.name) (fun x : Var × Ctf.Val => x.1) (fun _ => rfl)
    (dedup' (dedup' cv)) factors' hgrp
  rw [hlist] at hfs
  have hctf : ctfFactors (g.subgraph (dedup' ((dedup' (cv.map (·.1))).map (·.name)))) (dedup' (cv.map (·.1))) =
      .ok fs := by
    rw [hsub]
    exact ctfFactors_of_parts _ _ _ hform hfs
  -- the event itself converts
  have hD' : ancestralSet g ev = .ok D := hD
  obtain ⟨fev, hfev⟩ : ∃ fev, ev.mapM (convStep g) = .ok fev := by
    apply mapM_ok_of_forall
    intro p hp
    obtain ⟨w, hw, hwn⟩ := ancestralSet_selfName g hg ev D hD' p hp
    obtain ⟨c, hc⟩ := mapM_ok_each (convertOne g) D _ hcs w hw
    exact convStep_total g p (by rw [← hwn]; exact convertOne_ok_node g w c hc)
  have hfev' : convertEvent g ev = .ok fev := hfev
  refine ⟨D, cv.map (·.1), fs, fev, hD', hcs, hanc.symm, hctf, ?_, hfev', hF2⟩
  unfold factorize
  have hemp : ev.isEmpty = false := by
    cases ev with
    | nil => exact absurd rfl hne
    | cons _ _ => rfl
  simp only [hemp, Bool.false_eq_true, ↓reduceIte, bind, Except.bind, hfev', hD, hcs, hctf, pure, Except.pure]

end Y0.CtfTr
