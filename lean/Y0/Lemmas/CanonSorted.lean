/-
  Y0.Lemmas.CanonSorted — sorted lists are fixed points of the stable sort; `_upgrade_ordering` (sorting by
  `_variable_sort_key`) expressed through `Key`, its idempotence, and the bridge to the level order of the canonicaliser
  for orderings that are monotone in the variable name.
-/
import Y0.Lemmas.CanonPerm

namespace Y0
set_option linter.unusedSimpArgs false
set_option linter.unusedVariables false

section sorted
variable {α : Type} (key : α → Key)

theorem insertStable_of_le (x : α) : ∀ (l : List α), (∀ y ∈ l, kle key x y) →
    insertStable (fun a b => Key.lt (key a) (key b)) x l = x :: l
  | [], _ => rfl
  | y :: ys, h => by
    have : Key.lt (key y) (key x) = false := h y List.mem_cons_self
    simp [insertStable, this]

/-- a list that is already sorted is returned unchanged -/
theorem sortStable_of_pairwise : ∀ (l : List α), l.Pairwise (kle key) →
    sortStable (fun a b => Key.lt (key a) (key b)) l = l
  | [], _ => rfl
  | x :: xs, h => by
    rw [List.pairwise_cons] at h
    show insertStable _ x (sortStable _ xs) = x :: xs
    rw [sortStable_of_pairwise xs h.2]
    exact insertStable_of_le key x xs h.1

theorem sortStable_idem (l : List α) :
    sortStable (fun a b => Key.lt (key a) (key b)) (sortStable (fun a b => Key.lt (key a) (key b)) l) =
      sortStable (fun a b => Key.lt (key a) (key b)) l :=
  sortStable_of_pairwise key _ (pairwise_sortStable key l)

end sorted

/-! ### `_variable_sort_key` as a `Key` -/

def ivTok (p : Nat × Name) : Key := .tup [.atom p.1, .atom p.2]

/-- `_variable_sort_key` -/
def Var.sortKeyK (v : Var) : Key := .tup [.atom v.name, .tup (v.sortKey.2.map ivTok)]

theorem natCast_compare (a b : Nat) : compare (a : Int) (b : Int) = compare a b := by
  rcases Nat.lt_trichotomy a b with h | h | h
  · rw [compare_lt_iff_lt.mpr (by exact_mod_cast h), compare_lt_iff_lt.mpr h]
  · subst h; simp
  · rw [compare_gt_iff_gt.mpr (by exact_mod_cast h), compare_gt_iff_gt.mpr h]

theorem listLt_eq : ∀ (X Y : List (Nat × Name)), Var.listLt X Y = true ↔ Key.cmpList (X.map ivTok) (Y.map ivTok) = .lt
  | [], [] => by simp [Var.listLt, Key.cmpList]
  | [], _ :: _ => by simp [Var.listLt, Key.cmpList]
  | _ :: _, [] => by simp [Var.listLt, Key.cmpList]
  | (a1, a2) :: as, (b1, b2) :: bs => by
    have ih := listLt_eq as bs
    simp only [Var.listLt, List.map_cons, Key.cmpList, ivTok, Key.cmp, natCast_compare]
    rcases Nat.lt_trichotomy a1 b1 with h | h | h
    · simp [h, compare_lt_iff_lt.mpr h]
    · subst h
      simp only [lt_self_iff_false, if_false, compare_eq_iff_eq.mpr rfl]
      rcases Nat.lt_trichotomy a2 b2 with h2 | h2 | h2
      · simp [h2, compare_lt_iff_lt.mpr h2]
      · subst h2; simp [ih]
      · have : ¬ a2 < b2 := Nat.lt_asymm h2
        simp [h2, this, compare_gt_iff_gt.mpr h2]
    · have : ¬ a1 < b1 := Nat.lt_asymm h
      simp [h, this, compare_gt_iff_gt.mpr h]

theorem Var.keyLt_eq (a b : Var) : Var.keyLt a b = Key.lt a.sortKeyK b.sortKeyK := by
  rw [Bool.eq_iff_iff, Key.lt_iff]
  simp only [Var.keyLt, Var.sortKeyK, Key.cmp, Key.cmpList, natCast_compare, Bool.or_eq_true, Bool.and_eq_true,
    decide_eq_true_eq, beq_iff_eq, listLt_eq]
  rcases Nat.lt_trichotomy a.name b.name with h | h | h
  · simp [h, compare_lt_iff_lt.mpr h]
  · simp only [h, lt_self_iff_false, false_or, true_and, compare_eq_iff_eq.mpr rfl]
    cases hc : Key.cmpList (a.sortKey.2.map ivTok) (b.sortKey.2.map ivTok) <;> simp
  · have h1 : ¬ a.name < b.name := Nat.lt_asymm h
    have h2 : a.name ≠ b.name := Nat.ne_of_gt h
    simp [h1, h2, compare_gt_iff_gt.mpr h]

theorem upgradeOrdering_eq (l : List Var) :
    upgradeOrdering l = sortStable (fun a b => Key.lt a.sortKeyK b.sortKeyK) (dedup' l) := by
  unfold upgradeOrdering
  congr 1
  funext a b
  exact Var.keyLt_eq a b

theorem pairwise_upgradeOrdering (l : List Var) : (upgradeOrdering l).Pairwise (kle Var.sortKeyK) := by
  rw [upgradeOrdering_eq]; exact pairwise_sortStable _ _

/-- a duplicate-free list that is sorted by `_variable_sort_key` is a fixed point of `_upgrade_ordering` -/
theorem upgradeOrdering_of_sorted {l : List Var} (hn : l.Nodup) (hs : l.Pairwise (kle Var.sortKeyK)) :
    upgradeOrdering l = l := by
  rw [upgradeOrdering_eq, dedup'_of_nodup hn]
  exact sortStable_of_pairwise _ l hs

theorem upgradeOrdering_idem (l : List Var) : upgradeOrdering (upgradeOrdering l) = upgradeOrdering l :=
  upgradeOrdering_of_sorted (nodup_upgradeOrdering l) (pairwise_upgradeOrdering l)

theorem upgradeOrdering_sublist {l m : List Var} (h : m.Sublist (upgradeOrdering l)) : upgradeOrdering m = m :=
  upgradeOrdering_of_sorted ((nodup_upgradeOrdering l).sublist h) ((pairwise_upgradeOrdering l).sublist h)

/-! ### from `_variable_sort_key` order to level order -/

/-- levels are monotone in the variable name (what `ensure_ordering` guarantees: the ordering is sorted by name) -/
def NameMonotone (lvl : Name → Option Nat) : Prop :=
  ∀ a b la lb, lvl a = some la → lvl b = some lb → a < b → la < lb

theorem kle_sortKeyK_name {a b : Var} (h : kle Var.sortKeyK a b) : a.name ≤ b.name := by
  unfold kle at h
  by_contra hlt
  have hlt : b.name < a.name := Nat.lt_of_not_le hlt
  have : Key.lt b.sortKeyK a.sortKeyK = true := by
    rw [← Var.keyLt_eq]; simp [Var.keyLt, hlt]
  rw [h] at this; cases this

/-- variables with pairwise distinct names that are sorted by `_variable_sort_key` are sorted by level -/
theorem pairwise_level_of_sorted {lvl : Name → Option Nat} (hm : NameMonotone lvl) : ∀ {l : List Var},
    (∀ v ∈ l, (lvl v.name).isSome = true) → (l.map (·.name)).Nodup → l.Pairwise (kle Var.sortKeyK) →
    l.Pairwise (kle (levelKey lvl))
  | [], _, _, _ => List.Pairwise.nil
  | x :: xs, hc, hn, hs => by
    rw [List.map_cons, List.nodup_cons] at hn
    rw [List.pairwise_cons] at hs ⊢
    refine ⟨?_, pairwise_level_of_sorted hm (fun v hv => hc v (List.mem_cons_of_mem _ hv)) hn.2 hs.2⟩
    intro y hy
    have hle := kle_sortKeyK_name (hs.1 y hy)
    have hne : x.name ≠ y.name := fun e => hn.1 (e ▸ List.mem_map_of_mem hy)
    have hlt : x.name < y.name := Nat.lt_of_le_of_ne hle hne
    obtain ⟨lx, hlx⟩ := Option.isSome_iff_exists.mp (hc x List.mem_cons_self)
    obtain ⟨ly, hly⟩ := Option.isSome_iff_exists.mp (hc y (List.mem_cons_of_mem _ hy))
    have := hm _ _ _ _ hlx hly hlt
    unfold kle
    simp only [levelKey, hlx, hly]
    have hc : Key.cmp (.tup [.atom (lx : Int), x.totalKey]) (.tup [.atom (ly : Int), y.totalKey]) = .lt := by
      simp only [Key.cmp, Key.cmpList, natCast_compare, compare_lt_iff_lt.mpr this]
    exact Key.lt_asymm (Key.lt_iff.mpr hc)

/-- ... hence a fixed point of `Canonicalizer._sorted` -/
theorem sortVars_of_sorted {lvl : Name → Option Nat} (hm : NameMonotone lvl) {l : List Var}
    (hc : ∀ v ∈ l, (lvl v.name).isSome = true) (hn : (l.map (·.name)).Nodup) (hs : l.Pairwise (kle Var.sortKeyK)) :
    sortVars lvl l = .ok l := by
  rw [sortVars_eq hc, sortStable_of_pairwise _ l (pairwise_level_of_sorted hm hc hn hs)]

end Y0
