/-
  Y0.Lemmas.TianSemModel — the separating models of `tian_sound_semantic`: independent binary variables without
  latents, `P(v = a) = k v a` (`indep k`).  Such a model is compatible with EVERY graph, and everything is in closed
  form:

      Q[S] σ      = Π_{v ∈ S} k v (σ v)                                           (`Q_indep`)
      F X E ρ     = Π_{v ∈ V ∖ X, v ∈ E} k v (ρ v)                                (`F_indep`)

  `fair` is the all-fair-coins kernel, `bias t` is fair except `P(t = 0) = 1/3`; the two products differ by the factor
  `2 · P(t = ρ t)` exactly when `t` occurs (`prodOn_bias`).
-/
import Y0.Lemmas.TianSemWorld
import Mathlib.Tactic.NormNum.Inv
import Mathlib.Tactic.NormNum.Ineq
import Mathlib.Tactic.Ring

namespace Y0
namespace TianSem
open TianProb

/-- independent binary variables: `k v a = P(v = a)` -/
def indep (k : Name → Nat → Rat) : Scm :=
  { card := fun _ => 2, lat := [], prior := fun _ _ => 1, latOf := fun _ => [], kern := fun v σ => k v (σ v) }

/-- positive kernels that sum to one over the two values -/
structure Kern (k : Name → Nat → Rat) : Prop where
  pos : ∀ v a, 0 < k v a
  sum : ∀ v, k v 0 + k v 1 = 1

theorem range_two : List.range 2 = [0, 1] := by decide

theorem indep_compatible {k : Name → Nat → Rat} (hk : Kern k) (G : MG Name) : (indep k).Compatible G := by
  refine ⟨fun _ => by simp [indep], by simp [indep], by simp [indep], by simp [indep], by simp [indep],
    by simp [indep], ?_, ?_, ?_, ?_⟩
  · intro v _ σ τ h
    show k v (σ v) = k v (τ v)
    rw [h v (by simp)]
  · intro v _ σ
    exact hk.pos v _
  · intro v _ σ
    simp only [sumVar, sumRange, indep, range_two, List.map_cons, List.map_nil, List.sum_cons, List.sum_nil,
      Val.set_same, add_zero]
    exact hk.sum v
  · intro v _ w _ _ h
    obtain ⟨u, hu, _⟩ := h
    simp [indep] at hu

/-- `Π_{v ∈ L} k v (ρ v)` -/
def prodOn (k : Name → Nat → Rat) (L : List Name) (ρ : Val) : Rat := (L.map fun v => k v (ρ v)).prod

theorem prodOn_pos {k : Name → Nat → Rat} (hk : Kern k) (L : List Name) (ρ : Val) : 0 < prodOn k L ρ := by
  unfold prodOn
  apply List.prod_pos
  intro a ha
  obtain ⟨v, _, rfl⟩ := List.mem_map.mp ha
  exact hk.pos v _

theorem Q_indep (k : Name → Nat → Rat) (S : List Name) (σ : Val) : (indep k).Q S σ = prodOn k S σ := by
  simp [Scm.Q, Scm.weight, indep, sumVars, prodOn]

theorem prodOn_indepOf (k : Name → Nat → Rat) (L : List Name) {x : Name} (hx : x ∉ L) :
    IndepOf (prodOn k L) x := by
  apply Scm.indepOf_map_prod L (fun v σ => k v (σ v)) x
  intro v hv σ a
  have : v ≠ x := fun e => hx (e ▸ hv)
  show k v ((σ.set x a) v) = k v (σ v)
  rw [Val.set_other _ _ this]

/-- summing the variables outside `e` out of the product over a duplicate-free list leaves the product over `e` -/
theorem sum_prodOn_filter {k : Name → Nat → Rat} (hk : Kern k) (e : Name → Bool) :
    ∀ (N : List Name), N.Nodup → ∀ ρ : Val,
      sumVars (fun _ => 2) (N.filter fun v => !e v) (prodOn k N) ρ = prodOn k (N.filter e) ρ
  | [], _, ρ => by simp [sumVars, prodOn]
  | x :: N, hnd, ρ => by
    obtain ⟨hxN, hN⟩ := List.nodup_cons.mp hnd
    have hcons : prodOn k (x :: N) = fun τ => (fun τ => k x (τ x)) τ * prodOn k N τ := by
      funext τ; simp [prodOn]
    have hind : ∀ y ∈ N.filter (fun v => !e v), IndepOf (fun τ : Val => k x (τ x)) y := by
      intro y hy σ a
      have : x ≠ y := fun h => hxN (h ▸ (List.mem_filter.mp hy).1)
      show k x ((σ.set y a) x) = k x (σ x)
      rw [Val.set_other _ _ this]
    have hsum : sumVars (fun _ => 2) (N.filter fun v => !e v) (prodOn k (x :: N)) =
        fun τ => k x (τ x) * prodOn k (N.filter e) τ := by
      funext τ
      rw [hcons, sumVars_mul_left _ _ _ _ τ hind, sum_prodOn_filter hk e N hN τ]
    cases hex : e x with
    | true =>
      simp only [List.filter_cons, hex, Bool.not_true, Bool.false_eq_true, ↓reduceIte]
      rw [hsum]
      simp [prodOn]
    | false =>
      simp only [List.filter_cons, hex, Bool.not_false, ↓reduceIte, Bool.false_eq_true, sumVars]
      rw [hsum]
      rw [sumVar_mul_right _ x (fun τ => k x (τ x)) (prodOn k (N.filter e)) ρ
        (prodOn_indepOf k _ (fun h => hxN (List.mem_filter.mp h).1))]
      have : sumVar (fun _ => 2) x (fun τ => k x (τ x)) ρ = 1 := by
        simp only [sumVar, sumRange, range_two, List.map_cons, List.map_nil, List.sum_cons, List.sum_nil,
          Val.set_same, add_zero]
        exact hk.sum x
      rw [this, one_mul]

/-- **closed form of the single-world distribution** in a model of independent variables -/
theorem F_indep {k : Name → Nat → Rat} (hk : Kern k) {G : MG Name} (hG : G.WF) (X E : List Name) (ρ : Val) :
    F (indep k) G X E ρ = prodOn k (G.nodes.filter fun v => v ∉ X ∧ v ∈ E) ρ := by
  unfold F
  have h1 : (G.nodes.filter fun v => v ∉ X ∧ v ∉ E) =
      (G.nodes.filter (· ∉ X)).filter (fun v => !(decide (v ∈ E))) := by
    rw [List.filter_filter]
    apply List.filter_congr
    intro x _
    simp [Bool.and_comm]
  have h2 : (G.nodes.filter fun v => v ∉ X ∧ v ∈ E) =
      (G.nodes.filter (· ∉ X)).filter (fun v => decide (v ∈ E)) := by
    rw [List.filter_filter]
    apply List.filter_congr
    intro x _
    simp [Bool.and_comm]
  have h3 : (indep k).Q (G.nodes.filter (· ∉ X)) = prodOn k (G.nodes.filter (· ∉ X)) :=
    funext fun σ => Q_indep k _ σ
  rw [h1, h2, h3]
  exact sum_prodOn_filter hk (fun v => decide (v ∈ E)) _ (hG.nodup.filter _) ρ

/-- the probability of a conjunction of atoms in one world, read at `ρ`, in closed form (also for no atom) -/
theorem prAtoms_indep {k : Name → Nat → Rat} (hk : Kern k) {G : MG Name} (hG : G.WF) {ρ σ σ' : Val} {w : List Iv}
    {vs : List Var} (hw : ∀ v ∈ vs, v.ivs = w) (hr : Reads ρ σ σ' w vs) :
    (indep k).prAtoms G (vs.map (Var.atom σ σ')) =
      prodOn k (G.nodes.filter fun v => v ∉ w.map (·.name) ∧ v ∈ vs.map (·.name)) ρ := by
  by_cases hne : vs = []
  · subst hne
    simp [Scm.prAtoms, prodOn]
  · rw [prAtoms_reads (indep_compatible hk G) hG hne hw hr, F_indep hk hG]

/-! ### the two kernels -/

def fair : Name → Nat → Rat := fun _ _ => 1 / 2

/-- `P(t = 0) = 1/3`, every other variable a fair coin -/
def bias (t : Name) : Name → Nat → Rat := fun v a => if v = t then (if a = 0 then 1 / 3 else 2 / 3) else 1 / 2

theorem kern_fair : Kern fair := ⟨fun _ _ => by norm_num [fair], fun _ => by norm_num [fair]⟩

theorem kern_bias (t : Name) : Kern (bias t) := by
  constructor
  · intro v a
    unfold bias
    split
    · split <;> norm_num
    · norm_num
  · intro v
    unfold bias
    split <;> norm_num

/-- the factor by which the biased product differs from the fair one -/
def tilt (t : Name) (L : List Name) (ρ : Val) : Rat :=
  if t ∈ L then 2 * (if ρ t = 0 then 1 / 3 else 2 / 3) else 1

theorem prodOn_bias (t : Name) (ρ : Val) : ∀ L : List Name, L.Nodup →
    prodOn (bias t) L ρ = tilt t L ρ * prodOn fair L ρ
  | [], _ => by simp [prodOn, tilt]
  | x :: L, hnd => by
    obtain ⟨hxL, hL⟩ := List.nodup_cons.mp hnd
    have ih := prodOn_bias t ρ L hL
    have hc : ∀ k : Name → Nat → Rat, prodOn k (x :: L) ρ = k x (ρ x) * prodOn k L ρ := by
      intro k; simp [prodOn]
    rw [hc, hc, ih]
    by_cases hx : x = t
    · subst hx
      simp only [tilt, hxL, List.mem_cons, true_or, ↓reduceIte, bias, fair]
      ring
    · have hm : (t ∈ x :: L) ↔ t ∈ L := by
        simp only [List.mem_cons]
        constructor
        · rintro (h | h)
          · exact absurd h.symm hx
          · exact h
        · exact Or.inr
      simp only [tilt, hm, bias, hx, ↓reduceIte, fair]
      ring

theorem tilt_mem_ne_one {t : Name} {L : List Name} (h : t ∈ L) (ρ : Val) : tilt t L ρ ≠ 1 := by
  unfold tilt
  simp only [h, ↓reduceIte]
  split <;> norm_num

theorem tilt_not_mem {t : Name} {L : List Name} (h : t ∉ L) (ρ : Val) : tilt t L ρ = 1 := by
  simp [tilt, h]

theorem tilt_eq_iff {t : Name} {L L' : List Name} (h : t ∈ L) (h' : t ∈ L') (ρ σ : Val)
    (he : tilt t L ρ = tilt t L' σ) : (ρ t = 0 ↔ σ t = 0) := by
  unfold tilt at he
  simp only [h, h', ↓reduceIte] at he
  by_cases h1 : ρ t = 0 <;> by_cases h2 : σ t = 0 <;> simp [h1, h2] at he ⊢ <;> norm_num at he

end TianSem
end Y0
