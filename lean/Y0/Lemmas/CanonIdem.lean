/-
  Y0.Lemmas.CanonIdem — idempotence of the canonicaliser (C11 `canon_idem`).

  `IsCanon lvl a` characterises canonical forms syntactically: sorted leaves; products that are flat, free of One/Zero,
  sorted by the total key and made of canonical factors; sums over a canonical non-zero summand with normalised ranges
  on which `Sum.simplify` has nothing left to do; fractions with canonical non-fraction parts, a denominator that is
  neither One nor Zero, a non-zero numerator different from the denominator.

    (B) `canonL_of_isCanon` : IsCanon lvl a → canonL lvl a = ok a
    (A) `isCanon_canonL`    : wss S e → NameMonotone lvl → canonL lvl e = ok a → IsCanon lvl a
-/
import Y0.Lemmas.CanonSorted
import Y0.Lemmas.CanonScope

namespace Y0
set_option linter.unusedSimpArgs false
set_option linter.unusedVariables false
set_option linter.unusedTactic false
set_option linter.unreachableTactic false

/-- a factor of a canonical product: not itself a product, not `One()`, not `Zero()` -/
def Expr.isAtomic (e : Expr) : Bool := !e.isProd && !e.isOne && !e.isZero

mutual
def IsCanon (lvl : Name → Option Nat) : Expr → Prop
  | .prob _ c p => sortVars lvl c = .ok c ∧ sortVars lvl p = .ok p
  | .prod fs => IsCanonList lvl fs ∧ (∀ f ∈ fs, f.isAtomic = true) ∧ 2 ≤ fs.length ∧ sortStable Expr.ltE fs = fs
  | .sum e rs => IsCanon lvl e ∧ rs ≠ [] ∧ upgradeOrdering rs = rs ∧ e.isZero = false ∧ sumSimplify e rs = .sum e rs
  | .frac n d => IsCanon lvl n ∧ IsCanon lvl d ∧ n.isFrac = false ∧ d.isFrac = false ∧ d.isOne = false ∧
      d.isZero = false ∧ n.isZero = false ∧ n.eqb d = false
  | .one => True
  | .zero => True
  | .q _ _ => False
def IsCanonList (lvl : Name → Option Nat) : List Expr → Prop
  | [] => True
  | e :: es => IsCanon lvl e ∧ IsCanonList lvl es
end

variable {lvl : Name → Option Nat}

theorem isCanonList_iff {fs : List Expr} : IsCanonList lvl fs ↔ ∀ e ∈ fs, IsCanon lvl e := by
  induction fs with
  | nil => simp [IsCanonList]
  | cons a l ih => simp [IsCanonList, ih]

theorem isCanon_prod_iff {fs : List Expr} : IsCanon lvl (.prod fs) ↔
    (∀ e ∈ fs, IsCanon lvl e) ∧ (∀ f ∈ fs, f.isAtomic = true) ∧ 2 ≤ fs.length ∧ sortStable Expr.ltE fs = fs := by
  simp [IsCanon, isCanonList_iff]

/-! ### (B) canonical forms are fixed points -/

mutual
theorem flattenFactors_of_noprod : ∀ (fs : List Expr), (∀ f ∈ fs, f.isProd = false) → flattenFactors fs = fs
  | [], _ => rfl
  | a :: rest, h => by
    rw [flattenFactors_cons, flattenFactors_of_noprod rest (fun f hf => h f (List.mem_cons_of_mem _ hf))]
    have := h a List.mem_cons_self
    cases a <;> simp [flattenFactor, Expr.isProd] at this ⊢
end

theorem isProd_false_of_atomic {e : Expr} (h : e.isAtomic = true) : e.isProd = false := by
  unfold Expr.isAtomic at h; cases e <;> simp_all [Expr.isProd]

theorem productSafe_of_atomic {fs : List Expr} (ha : ∀ f ∈ fs, f.isAtomic = true) (hl : 2 ≤ fs.length) :
    productSafe fs = .prod (sortStable Expr.ltE fs) := by
  unfold productSafe
  simp only
  have hf : fs.filter (fun e => !e.isOne) = fs := by
    apply List.filter_eq_self.mpr
    intro e he; have := ha e he; unfold Expr.isAtomic at this; cases e <;> simp_all [Expr.isOne]
  have hz : fs.any Expr.isZero = false := by
    rw [List.any_eq_false]
    intro e he; have := ha e he; unfold Expr.isAtomic at this; cases e <;> simp_all [Expr.isZero]
  rw [hf, hz]
  match fs, hl with
  | a :: b :: r, _ => simp

mutual
/-- **(B)** -/
theorem canonL_of_isCanon : ∀ (a : Expr), IsCanon lvl a → canonL lvl a = .ok a
  | .prob pop c p, h => by
    unfold IsCanon at h
    unfold canonL; rw [h.1, h.2]; rfl
  | .prod fs, h => by
    obtain ⟨h1, h2, h3, h4⟩ := isCanon_prod_iff.mp h
    unfold canonL
    rw [canonFactors_eq_mapM, flattenFactors_of_noprod fs (fun f hf => isProd_false_of_atomic (h2 f hf)),
      mapM_of_isCanonList fs (by unfold IsCanon at h; exact h.1)]
    simp only [bind, Except.bind, pure, Except.pure]
    rw [flattenFactors_of_noprod fs (fun f hf => isProd_false_of_atomic (h2 f hf)), productSafe_of_atomic h2 h3, h4]
  | .sum e rs, h => by
    unfold IsCanon at h
    obtain ⟨h1, h2, h3, h4, h5⟩ := h
    unfold canonL
    rw [canonL_of_isCanon e h1]
    simp only [bind, Except.bind, pure, Except.pure]
    unfold sumSafe
    simp only [h3]
    have : rs.isEmpty = false := by cases rs <;> simp_all
    rw [this]
    cases e <;> simp_all [Expr.isZero]
  | .frac n d, h => by
    unfold IsCanon at h
    obtain ⟨h1, h2, h3, h4, h5, h6, h7, h8⟩ := h
    unfold canonL
    rw [canonL_of_isCanon n h1, canonL_of_isCanon d h2]
    simp only [bind, Except.bind, pure, Except.pure, h5, h8, Bool.false_eq_true, if_false]
    have hdiv : Expr.div n d = .ok (.frac n d) := by
      cases n <;> cases d <;> simp_all [Expr.div, mkFrac, Expr.isZero, Expr.isFrac, Expr.isOne] <;> rfl
    rw [hdiv]
    simp [postFrac, h5, h8]
  | .one, _ => by unfold canonL; rfl
  | .zero, _ => by unfold canonL; rfl
  | .q _ _, h => by unfold IsCanon at h; exact absurd h id
theorem mapM_of_isCanonList : ∀ (fs : List Expr), IsCanonList lvl fs → fs.mapM (canonL lvl) = .ok fs
  | [], _ => rfl
  | e :: es, h => by
    unfold IsCanonList at h
    exact mapM_ok_of_cons (canonL_of_isCanon e h.1) (mapM_of_isCanonList es h.2)
end

/-! ### (A) products -/

theorem ltE_eq : (Expr.ltE) = (fun a b => Key.lt (Expr.key a) (Expr.key b)) := rfl

theorem isCanon_prod_sorted {m : List Expr}
    (hm : ∀ e ∈ m, IsCanon lvl e ∧ e.isProd = false ∧ e.isOne = false ∧ e.isZero = false) (hl : 2 ≤ m.length) :
    IsCanon lvl (.prod (sortStable Expr.ltE m)) := by
  have hperm := sortStable_perm Expr.ltE m
  refine isCanon_prod_iff.mpr ⟨fun e he => (hm e (hperm.subset he)).1, ?_, ?_, ?_⟩
  · intro f hf
    obtain ⟨_, h2, h3, h4⟩ := hm f (hperm.subset hf)
    simp [Expr.isAtomic, h2, h3, h4]
  · rw [hperm.length_eq]; exact hl
  · rw [ltE_eq]; exact sortStable_idem Expr.key m

/-- `Product.safe` of canonical non-product expressions is canonical; how it can be Zero / One / a Fraction -/
theorem isCanon_productSafe {L : List Expr} (hL : ∀ e ∈ L, IsCanon lvl e ∧ e.isProd = false) :
    IsCanon lvl (productSafe L) ∧
    ((productSafe L).isZero = true → ∃ e ∈ L, e.isZero = true) ∧
    ((productSafe L).isOne = true → ∀ e ∈ L, e.isOne = true) ∧
    ((productSafe L).isFrac = true → ∃ e, L.filter (fun e => !e.isOne) = [e] ∧ e.isFrac = true) ∧
    ((productSafe L).isProd = true → 2 ≤ (L.filter (fun e => !e.isOne)).length) := by
  unfold productSafe
  simp only
  have hmem : ∀ e ∈ L.filter (fun e => !e.isOne), e ∈ L ∧ e.isOne = false := by
    intro e he
    have := List.mem_filter.mp he
    exact ⟨this.1, by simpa using this.2⟩
  generalize hm : L.filter (fun e => !e.isOne) = m at hmem
  by_cases hz : m.any Expr.isZero = true
  · rw [if_pos hz]
    obtain ⟨e, he, hez⟩ := List.any_eq_true.mp hz
    exact ⟨by simp [IsCanon], fun _ => ⟨e, (hmem e he).1, hez⟩, by simp [Expr.isOne], by simp [Expr.isFrac],
      by simp [Expr.isProd]⟩
  · rw [if_neg hz]
    have hz' : ∀ e ∈ m, e.isZero = false := by
      intro e he
      by_contra hc
      exact hz (List.any_eq_true.mpr ⟨e, he, by simpa using hc⟩)
    match m, hmem, hz' with
    | [], _, _ =>
      refine ⟨by simp [IsCanon], by simp [Expr.isZero], ?_, by simp [Expr.isFrac], by simp [Expr.isProd]⟩
      intro _ e he
      by_contra hc
      have : e ∈ L.filter (fun e => !e.isOne) := List.mem_filter.mpr ⟨he, by simpa using hc⟩
      rw [hm] at this; cases this
    | [e], hmem, hz' =>
      have he := hmem e (List.mem_singleton.mpr rfl)
      refine ⟨(hL e he.1).1, fun h => ⟨e, he.1, h⟩, ?_, fun h => ⟨e, rfl, h⟩, ?_⟩
      · intro h; rw [he.2] at h; cases h
      · intro h; rw [(hL e he.1).2] at h; cases h
    | a :: b :: r, hmem, hz' =>
      refine ⟨isCanon_prod_sorted (fun e he => ⟨(hL e (hmem e he).1).1, (hL e (hmem e he).1).2, (hmem e he).2, hz' e he⟩)
        (by simp), by simp [Expr.isZero], by simp [Expr.isOne], by simp [Expr.isFrac], fun _ => by simp⟩

/-- canonical and not a Fraction -/
def CNF (lvl : Name → Option Nat) (x : Expr) : Prop := IsCanon lvl x ∧ x.isFrac = false

theorem atomic_of_isCanon_prod {fs : List Expr} (h : IsCanon lvl (.prod fs)) :
    ∀ f ∈ fs, IsCanon lvl f ∧ f.isProd = false ∧ f.isOne = false ∧ f.isZero = false := by
  obtain ⟨h1, h2, _, _⟩ := isCanon_prod_iff.mp h
  intro f hf
  have := h2 f hf
  unfold Expr.isAtomic at this
  refine ⟨h1 f hf, ?_, ?_, ?_⟩ <;> cases f <;> simp_all [Expr.isProd, Expr.isOne, Expr.isZero]

/-- what we need to know about a product of canonical non-fractions -/
structure MulOK (lvl : Name → Option Nat) (x y z : Expr) : Prop where
  canon : IsCanon lvl z
  nf : z.isFrac = false
  zero : z.isZero = true → x.isZero = true ∨ y.isZero = true
  one : z.isOne = true → x.isOne = true ∧ y.isOne = true

/-- the generic step: `z = Product.safe L` where `L` lists the (canonical, non-product) factors of `x` and `y` -/
theorem mulOK_of_list {x y : Expr} {L : List Expr} (hL : ∀ e ∈ L, IsCanon lvl e ∧ e.isProd = false)
    (hzero : ∀ e ∈ L, e.isZero = true → x.isZero = true ∨ y.isZero = true)
    (hone : ∃ e ∈ L, e.isOne = false)
    (hfrac : ∀ e, L.filter (fun e => !e.isOne) = [e] → e.isFrac = false) : MulOK lvl x y (productSafe L) := by
  obtain ⟨h1, h2, h3, h4, _⟩ := isCanon_productSafe hL
  refine ⟨h1, ?_, ?_, ?_⟩
  · by_contra hc
    obtain ⟨e, he, hef⟩ := h4 (by simpa using hc)
    rw [hfrac e he] at hef; cases hef
  · intro hz
    obtain ⟨e, he, hez⟩ := h2 hz
    exact hzero e he hez
  · intro ho
    obtain ⟨e, he, hne⟩ := hone
    rw [h3 ho e he] at hne; cases hne

theorem filter_nonOne_two {L : List Expr} {a b : Expr} {l₁ l₂ l₃ : List Expr} (hL : L = l₁ ++ a :: l₂ ++ b :: l₃)
    (ha : a.isOne = false) (hb : b.isOne = false) (e : Expr) : L.filter (fun e => !e.isOne) ≠ [e] := by
  intro h
  have hlen : 2 ≤ (L.filter (fun e => !e.isOne)).length := by
    subst hL
    simp only [List.filter_append, List.length_append, List.filter_cons, ha, hb, Bool.not_false, if_true,
      List.length_cons]
    omega
  rw [h] at hlen; simp at hlen

/-- **`x * y` of canonical non-fractions is a canonical non-fraction** -/
theorem mulOK_mul : ∀ (x y z : Expr), CNF lvl x → CNF lvl y → Expr.mul x y = .ok z → MulOK lvl x y z := by
  intro x y z hx hy h
  obtain ⟨hxc, hxf⟩ := hx
  obtain ⟨hyc, hyf⟩ := hy
  -- the factor lists
  have hfs : ∀ fs, x = .prod fs → ∀ f ∈ fs, IsCanon lvl f ∧ f.isProd = false ∧ f.isOne = false ∧ f.isZero = false :=
    fun fs e => atomic_of_isCanon_prod (e ▸ hxc)
  have hgs : ∀ gs, y = .prod gs → ∀ f ∈ gs, IsCanon lvl f ∧ f.isProd = false ∧ f.isOne = false ∧ f.isZero = false :=
    fun gs e => atomic_of_isCanon_prod (e ▸ hyc)
  have two : ∀ fs, x = .prod fs → ∃ a b r, fs = a :: b :: r := by
    intro fs e
    have := (isCanon_prod_iff.mp (e ▸ hxc)).2.2.1
    match fs, this with
    | a :: b :: r, _ => exact ⟨a, b, r, rfl⟩
  have two' : ∀ gs, y = .prod gs → ∃ a b r, gs = a :: b :: r := by
    intro gs e
    have := (isCanon_prod_iff.mp (e ▸ hyc)).2.2.1
    match gs, this with
    | a :: b :: r, _ => exact ⟨a, b, r, rfl⟩
  cases x with
  | one => unfold Expr.mul at h; cases h; exact ⟨hyc, hyf, fun h => Or.inr h, fun h => ⟨rfl, h⟩⟩
  | zero => unfold Expr.mul at h; cases h; exact ⟨by simp [IsCanon], rfl, fun _ => Or.inl rfl, by simp [Expr.isOne]⟩
  | frac n d => simp [Expr.isFrac] at hxf
  | q dd cc => unfold IsCanon at hxc; exact absurd hxc id
  | prob pop ch pa =>
    unfold Expr.mul at h
    cases y with
    | frac n d => simp [Expr.isFrac] at hyf
    | q dd cc => unfold IsCanon at hyc; exact absurd hyc id
    | zero => unfold Expr.mulR at h; cases h; exact ⟨by simp [IsCanon], rfl, fun _ => Or.inr rfl, by simp [Expr.isOne]⟩
    | one => unfold Expr.mulR at h; cases h; exact ⟨hxc, rfl, by simp [Expr.isZero], by simp [Expr.isOne]⟩
    | prod gs =>
      unfold Expr.mulR at h; cases h
      obtain ⟨a, b, r, rfl⟩ := two' gs rfl
      have hg := hgs _ rfl
      refine mulOK_of_list ?_ ?_ ⟨_, List.mem_cons_self, rfl⟩ ?_
      · intro e he; rcases List.mem_cons.mp he with rfl | he
        · exact ⟨hxc, rfl⟩
        · exact ⟨(hg e he).1, (hg e he).2.1⟩
      · intro e he hz; rcases List.mem_cons.mp he with rfl | he
        · simp [Expr.isZero] at hz
        · rw [(hg e he).2.2.2] at hz; cases hz
      · intro e he
        exact absurd he (filter_nonOne_two (l₁ := []) (l₂ := []) (l₃ := b :: r) rfl rfl (hg a (by simp)).2.2.1 e)
    | prob pop2 ch2 pa2 =>
      unfold Expr.mulR at h; cases h
      refine mulOK_of_list ?_ ?_ ⟨_, List.mem_cons_self, rfl⟩ ?_
      · intro e he; simp at he; rcases he with rfl | rfl
        · exact ⟨hxc, rfl⟩
        · exact ⟨hyc, rfl⟩
      · intro e he hz; simp at he; rcases he with rfl | rfl <;> simp [Expr.isZero] at hz
      · intro e he; exact absurd he (filter_nonOne_two (l₁ := []) (l₂ := []) (l₃ := []) rfl rfl rfl e)
    | sum e0 r0 =>
      unfold Expr.mulR at h; cases h
      refine mulOK_of_list ?_ ?_ ⟨_, List.mem_cons_self, rfl⟩ ?_
      · intro e he; simp at he; rcases he with rfl | rfl
        · exact ⟨hxc, rfl⟩
        · exact ⟨hyc, rfl⟩
      · intro e he hz; simp at he; rcases he with rfl | rfl <;> simp [Expr.isZero] at hz
      · intro e he; exact absurd he (filter_nonOne_two (l₁ := []) (l₂ := []) (l₃ := []) rfl rfl rfl e)
  | sum e1 r1 =>
    unfold Expr.mul at h
    cases y with
    | frac n d => simp [Expr.isFrac] at hyf
    | q dd cc => unfold IsCanon at hyc; exact absurd hyc id
    | zero => unfold Expr.mulR at h; cases h; exact ⟨by simp [IsCanon], rfl, fun _ => Or.inr rfl, by simp [Expr.isOne]⟩
    | one =>
      unfold Expr.mulR at h; cases h
      refine mulOK_of_list ?_ ?_ ⟨_, List.mem_cons_self, rfl⟩ ?_
      · intro e he; simp at he; rcases he with rfl | rfl
        · exact ⟨hxc, rfl⟩
        · exact ⟨hyc, rfl⟩
      · intro e he hz; simp at he; rcases he with rfl | rfl <;> simp [Expr.isZero] at hz
      · intro e he
        simp [List.filter, Expr.isOne] at he
        subst he; rfl
    | prod gs =>
      unfold Expr.mulR at h; cases h
      obtain ⟨a, b, r, rfl⟩ := two' gs rfl
      have hg := hgs _ rfl
      refine mulOK_of_list ?_ ?_ ⟨_, List.mem_cons_self, rfl⟩ ?_
      · intro e he; rcases List.mem_cons.mp he with rfl | he
        · exact ⟨hxc, rfl⟩
        · exact ⟨(hg e he).1, (hg e he).2.1⟩
      · intro e he hz; rcases List.mem_cons.mp he with rfl | he
        · simp [Expr.isZero] at hz
        · rw [(hg e he).2.2.2] at hz; cases hz
      · intro e he
        exact absurd he (filter_nonOne_two (l₁ := []) (l₂ := []) (l₃ := b :: r) rfl rfl (hg a (by simp)).2.2.1 e)
    | prob pop2 ch2 pa2 =>
      unfold Expr.mulR at h; cases h
      refine mulOK_of_list ?_ ?_ ⟨_, List.mem_cons_self, rfl⟩ ?_
      · intro e he; simp at he; rcases he with rfl | rfl
        · exact ⟨hxc, rfl⟩
        · exact ⟨hyc, rfl⟩
      · intro e he hz; simp at he; rcases he with rfl | rfl <;> simp [Expr.isZero] at hz
      · intro e he; exact absurd he (filter_nonOne_two (l₁ := []) (l₂ := []) (l₃ := []) rfl rfl rfl e)
    | sum e0 r0 =>
      unfold Expr.mulR at h; cases h
      refine mulOK_of_list ?_ ?_ ⟨_, List.mem_cons_self, rfl⟩ ?_
      · intro e he; simp at he; rcases he with rfl | rfl
        · exact ⟨hxc, rfl⟩
        · exact ⟨hyc, rfl⟩
      · intro e he hz; simp at he; rcases he with rfl | rfl <;> simp [Expr.isZero] at hz
      · intro e he; exact absurd he (filter_nonOne_two (l₁ := []) (l₂ := []) (l₃ := []) rfl rfl rfl e)
  | prod fs =>
    unfold Expr.mul at h
    obtain ⟨a, b, r, rfl⟩ := two fs rfl
    have hf := hfs _ rfl
    have ha1 := (hf a (by simp)).2.2.1
    have hb1 := (hf b (by simp)).2.2.1
    cases y with
    | frac n d => simp [Expr.isFrac] at hyf
    | q dd cc => unfold IsCanon at hyc; exact absurd hyc id
    | zero => unfold Expr.mulR at h; cases h; exact ⟨by simp [IsCanon], rfl, fun _ => Or.inr rfl, by simp [Expr.isOne]⟩
    | one =>
      unfold Expr.mulR at h; cases h
      refine mulOK_of_list ?_ ?_ ⟨a, by simp, ha1⟩ ?_
      · intro e he; rcases List.mem_append.mp he with he | he
        · exact ⟨(hf e he).1, (hf e he).2.1⟩
        · simp at he; subst he; exact ⟨hyc, rfl⟩
      · intro e he hz; rcases List.mem_append.mp he with he | he
        · rw [(hf e he).2.2.2] at hz; cases hz
        · simp at he; subst he; simp [Expr.isZero] at hz
      · intro e he
        exact absurd he (filter_nonOne_two (l₁ := []) (l₂ := []) (l₃ := r ++ [.one]) (by simp) ha1 hb1 e)
    | prod gs =>
      unfold Expr.mulR at h; cases h
      have hg := hgs _ rfl
      refine mulOK_of_list ?_ ?_ ⟨a, by simp, ha1⟩ ?_
      · intro e he; rcases List.mem_append.mp he with he | he
        · exact ⟨(hf e he).1, (hf e he).2.1⟩
        · exact ⟨(hg e he).1, (hg e he).2.1⟩
      · intro e he hz; rcases List.mem_append.mp he with he | he
        · rw [(hf e he).2.2.2] at hz; cases hz
        · rw [(hg e he).2.2.2] at hz; cases hz
      · intro e he
        exact absurd he (filter_nonOne_two (l₁ := []) (l₂ := []) (l₃ := r ++ gs) (by simp) ha1 hb1 e)
    | prob pop2 ch2 pa2 =>
      unfold Expr.mulR at h; cases h
      refine mulOK_of_list ?_ ?_ ⟨a, by simp, ha1⟩ ?_
      · intro e he; rcases List.mem_append.mp he with he | he
        · exact ⟨(hf e he).1, (hf e he).2.1⟩
        · simp at he; subst he; exact ⟨hyc, rfl⟩
      · intro e he hz; rcases List.mem_append.mp he with he | he
        · rw [(hf e he).2.2.2] at hz; cases hz
        · simp at he; subst he; simp [Expr.isZero] at hz
      · intro e he
        exact absurd he (filter_nonOne_two (l₁ := []) (l₂ := []) (l₃ := r ++ [Expr.prob pop2 ch2 pa2]) (by simp) ha1 hb1 e)
    | sum e0 r0 =>
      unfold Expr.mulR at h; cases h
      refine mulOK_of_list ?_ ?_ ⟨a, by simp, ha1⟩ ?_
      · intro e he; rcases List.mem_append.mp he with he | he
        · exact ⟨(hf e he).1, (hf e he).2.1⟩
        · simp at he; subst he; exact ⟨hyc, rfl⟩
      · intro e he hz; rcases List.mem_append.mp he with he | he
        · rw [(hf e he).2.2.2] at hz; cases hz
        · simp at he; subst he; simp [Expr.isZero] at hz
      · intro e he
        exact absurd he (filter_nonOne_two (l₁ := []) (l₂ := []) (l₃ := r ++ [Expr.sum e0 r0]) (by simp) ha1 hb1 e)

/-! ### (A) fractions -/

theorem mkFrac_ok {n d c : Expr} (h : mkFrac n d = .ok c) : c = .frac n d ∧ d.isZero = false := by
  unfold mkFrac at h
  split at h
  · cases h
  · rename_i hz; cases h; exact ⟨rfl, by simpa using hz⟩

theorem isCanon_postFrac_frac {A B : Expr} (hA : CNF lvl A) (hB : CNF lvl B) (hAz : A.isZero = false)
    (hBz : B.isZero = false) : IsCanon lvl (postFrac (.frac A B)) := by
  unfold postFrac
  simp only
  split
  · exact hA.1
  · rename_i h1
    split
    · simp [IsCanon]
    · rename_i h2
      unfold IsCanon
      exact ⟨hA.1, hB.1, hA.2, hB.2, by simpa using h1, hBz, hAz, by simpa using h2⟩

theorem isCanon_frac_parts {a b : Expr} (h : IsCanon lvl (.frac a b)) :
    CNF lvl a ∧ CNF lvl b ∧ a.isZero = false ∧ b.isZero = false ∧ b.isOne = false := by
  unfold IsCanon at h
  obtain ⟨h1, h2, h3, h4, h5, h6, h7, _⟩ := h
  exact ⟨⟨h1, h3⟩, ⟨h2, h4⟩, h7, h6, h5⟩

/-- `n / d` for a numerator that is neither Zero nor a Fraction -/
theorem div_of_nf {n d : Expr} (h1 : n.isZero = false) (h2 : n.isFrac = false) :
    Expr.div n d = (match d with
      | .one => pure n
      | .frac n2 d2 => do mkFrac (← n.mul d2) n2
      | _ => mkFrac n d) := by
  cases n <;> simp_all [Expr.div, Expr.isZero, Expr.isFrac] <;> (cases d <;> rfl)

/-- **the Fraction branch of the canonicaliser produces canonical forms** -/
theorem isCanon_div_post {n d rv : Expr} (hn : IsCanon lvl n) (hd : IsCanon lvl d) (hd1 : d.isOne = false)
    (h : Expr.div n d = .ok rv) : IsCanon lvl (postFrac rv) := by
  by_cases hnz : n.isZero = true
  · have : n = .zero := by cases n <;> simp_all [Expr.isZero]
    subst this
    unfold Expr.div at h
    simp only at h
    split at h
    · cases h
    · cases h; simp [postFrac, IsCanon]
  have hnz : n.isZero = false := by simpa using hnz
  by_cases hnf : n.isFrac = true
  · -- n = a / b
    obtain ⟨a, b, rfl⟩ : ∃ a b, n = .frac a b := by cases n <;> simp_all [Expr.isFrac]
    obtain ⟨ha, hb, haz, hbz, hb1⟩ := isCanon_frac_parts hn
    cases d with
    | one => simp [Expr.isOne] at hd1
    | frac c e =>
      obtain ⟨hc, he, hcz, hez, he1⟩ := isCanon_frac_parts hd
      simp only [Expr.div] at h
      obtain ⟨x, hx, h⟩ := bind_ok h
      obtain ⟨y, hy, h⟩ := bind_ok h
      obtain ⟨rfl, hyz⟩ := mkFrac_ok h
      have mx := mulOK_mul a e x ha he hx
      have my := mulOK_mul b c y hb hc hy
      refine isCanon_postFrac_frac ⟨mx.canon, mx.nf⟩ ⟨my.canon, my.nf⟩ ?_ hyz
      by_contra hxz
      rcases mx.zero (by simpa using hxz) with h' | h'
      · rw [haz] at h'; cases h'
      · rw [hez] at h'; cases h'
    | q dd cc => unfold IsCanon at hd; exact absurd hd id
    | zero =>
      simp only [Expr.div] at h
      obtain ⟨y, hy, h⟩ := bind_ok h
      obtain ⟨rfl, hyz⟩ := mkFrac_ok h
      have my := mulOK_mul b .zero y hb ⟨by simp [IsCanon], rfl⟩ hy
      exact isCanon_postFrac_frac ha ⟨my.canon, my.nf⟩ haz hyz
    | prob pop ch pa =>
      simp only [Expr.div] at h
      obtain ⟨y, hy, h⟩ := bind_ok h
      obtain ⟨rfl, hyz⟩ := mkFrac_ok h
      have my := mulOK_mul b _ y hb ⟨hd, rfl⟩ hy
      exact isCanon_postFrac_frac ha ⟨my.canon, my.nf⟩ haz hyz
    | prod gs =>
      simp only [Expr.div] at h
      obtain ⟨y, hy, h⟩ := bind_ok h
      obtain ⟨rfl, hyz⟩ := mkFrac_ok h
      have my := mulOK_mul b _ y hb ⟨hd, rfl⟩ hy
      exact isCanon_postFrac_frac ha ⟨my.canon, my.nf⟩ haz hyz
    | sum e0 r0 =>
      simp only [Expr.div] at h
      obtain ⟨y, hy, h⟩ := bind_ok h
      obtain ⟨rfl, hyz⟩ := mkFrac_ok h
      have my := mulOK_mul b _ y hb ⟨hd, rfl⟩ hy
      exact isCanon_postFrac_frac ha ⟨my.canon, my.nf⟩ haz hyz
  · have hnf : n.isFrac = false := by simpa using hnf
    rw [div_of_nf hnz hnf] at h
    cases d with
    | one => simp [Expr.isOne] at hd1
    | frac c e =>
      obtain ⟨hc, he, hcz, hez, he1⟩ := isCanon_frac_parts hd
      simp only at h
      obtain ⟨x, hx, h⟩ := bind_ok h
      obtain ⟨rfl, _⟩ := mkFrac_ok h
      have mx := mulOK_mul n e x ⟨hn, hnf⟩ he hx
      refine isCanon_postFrac_frac ⟨mx.canon, mx.nf⟩ hc ?_ hcz
      by_contra hxz
      rcases mx.zero (by simpa using hxz) with h' | h'
      · rw [hnz] at h'; cases h'
      · rw [hez] at h'; cases h'
    | q dd cc => unfold IsCanon at hd; exact absurd hd id
    | zero => simp only [mkFrac, Expr.isZero] at h; cases h
    | prob pop ch pa =>
      simp only at h
      obtain ⟨rfl, hz⟩ := mkFrac_ok h
      exact isCanon_postFrac_frac ⟨hn, hnf⟩ ⟨hd, rfl⟩ hnz hz
    | prod gs =>
      simp only at h
      obtain ⟨rfl, hz⟩ := mkFrac_ok h
      exact isCanon_postFrac_frac ⟨hn, hnf⟩ ⟨hd, rfl⟩ hnz hz
    | sum e0 r0 =>
      simp only at h
      obtain ⟨rfl, hz⟩ := mkFrac_ok h
      exact isCanon_postFrac_frac ⟨hn, hnf⟩ ⟨hd, rfl⟩ hnz hz

/-! ### (A) sums -/

theorem sumSimplify_nonleaf {x : Expr} {rs : List Var} (h : ∀ pop c, x ≠ .prob pop c []) :
    sumSimplify x rs = .sum x rs := by
  unfold sumSimplify
  split
  · rename_i pop c; exact absurd rfl (h pop c)
  · rfl

theorem isCanon_sum_one {rs : List Var} (hne : rs ≠ []) (hrs : upgradeOrdering rs = rs) :
    IsCanon lvl (.sum .one rs) := by
  unfold IsCanon
  exact ⟨by simp [IsCanon], hne, hrs, rfl, sumSimplify_nonleaf (by intro pop c h; cases h)⟩

theorem isCanon_sumSafe0_one (l : List Var) : IsCanon lvl (sumSafe0 .one l) := by
  unfold sumSafe0
  simp only
  split
  · simp [IsCanon]
  · rename_i hne
    exact isCanon_sum_one (by intro h; rw [h] at hne; simp at hne) (upgradeOrdering_idem l)

/-- `Sum.simplify` has nothing left to do on a joint whose children are all outside the ranges -/
theorem sumSimplify_leaf_disjoint {pop : Option Var} {L rs : List Var} (hn : (L.map (·.name)).Nodup)
    (hL : upgradeOrdering L = L) (hLne : L ≠ []) (hrs : upgradeOrdering rs = rs) (hrne : rs ≠ [])
    (hdis : ∀ v ∈ L, v.base ∉ rs) : sumSimplify (.prob pop L []) rs = .sum (.prob pop L []) rs := by
  have hg : ((dedup' (L.map Var.base)).length != L.length) = false := dupBase_false_iff.mpr hn
  unfold sumSimplify
  simp only [hg, Bool.false_eq_true, if_false]
  have hvals := dictVals_eq_filter hn
  rw [dedup'_of_nodup (nodup_map_base hn)] at *
  have hkey : ∀ k ∈ L.map Var.base, k ∉ rs := by
    intro k hk; obtain ⟨v, hv, rfl⟩ := List.mem_map.mp hk; exact hdis v hv
  obtain ⟨r0, hr0⟩ := List.exists_mem_of_ne_nil rs hrne
  obtain ⟨v0, hv0⟩ := List.exists_mem_of_ne_nil L hLne
  have h1 : seteq' rs (L.map Var.base) = false := by
    by_contra hc
    have := (seteq'_iff.mp (by simpa using hc) r0).mp hr0
    exact hkey r0 this hr0
  have h2 : subset' (L.map Var.base) rs = false := by
    by_contra hc
    exact hkey _ (List.mem_map_of_mem hv0) (subset'_iff.mp (by simpa using hc) _ (List.mem_map_of_mem hv0))
  have h3 : subset' rs (L.map Var.base) = false := by
    by_contra hc
    exact hkey r0 (subset'_iff.mp (by simpa using hc) r0 hr0) hr0
  rw [h1, h2, h3]
  simp only [Bool.false_eq_true, if_false]
  have hinter : inter' rs (L.map Var.base) = [] := by
    apply List.filter_eq_nil_iff.mpr
    intro a ha; simp only [decide_eq_true_eq]; exact fun hk => hkey a hk ha
  rw [hinter]
  have hd1 : diff' (L.map Var.base) [] = L.map Var.base := by simp [diff']
  have hd2 : diff' rs [] = rs := by simp [diff']
  rw [hd1, hd2, hvals]
  have hall : L.filter (fun v => memb v.base (L.map Var.base)) = L := by
    apply List.filter_eq_self.mpr
    intro v hv; simp [memb, List.mem_map_of_mem hv]
  rw [hall, hL]
  unfold sumSafe0
  simp only [hrs]
  have : rs.isEmpty = false := by cases rs <;> simp_all
  rw [this]; rfl

theorem sortVars_nil : sortVars lvl [] = .ok [] := rfl

theorem isCanon_sumSimplify (hm : NameMonotone lvl) {x : Expr} {rs : List Var} (hx : IsCanon lvl x)
    (hrs : upgradeOrdering rs = rs) (hne : rs ≠ []) (hxz : x.isZero = false) :
    IsCanon lvl (sumSimplify x rs) := by
  by_cases hleafx : ∃ pop c, x = .prob pop c []
  · obtain ⟨pop, c, rfl⟩ := hleafx
    have hcov : ∀ v ∈ c, (lvl v.name).isSome = true := by
      unfold IsCanon at hx; exact sortVars_covered hx.1
    -- every sub-leaf that Sum.simplify builds from the children dict is canonical
    have hsub : ∀ (ks : List Var),
        IsCanon lvl (.prob pop (upgradeOrdering ((inter' (dedup' (c.map Var.base)) ks).filterMap (lastWithBase c))) []) := by
      intro ks
      unfold IsCanon
      refine ⟨?_, sortVars_nil⟩
      have hnn := dictVals_names_nodup c ks
      have hperm := upgradeOrdering_perm_of_nodup (nodup_of_nodup_map_name hnn)
      apply sortVars_of_sorted hm
      · intro v hv; exact hcov v (dictVals_mem (hperm.subset hv))
      · exact ((hperm.map _).nodup_iff).mpr hnn
      · exact pairwise_upgradeOrdering _
    unfold sumSimplify
    simp only
    split
    · -- a base variable with several children: the sum is left alone, and stays alone
      rename_i hd
      unfold IsCanon
      exact ⟨hx, hne, hrs, rfl, sumSimplify_dup (show dupBase c = true from hd)⟩
    split
    · simp [IsCanon]
    · split
      · exact isCanon_sumSafe0_one _
      · rename_i hnk
        split
        · exact hsub _
        · -- Sum.safe(P(kept children), rs - intersection)
          set keys := dedup' (c.map Var.base) with hkeys
          set V := (inter' keys (diff' keys (inter' rs keys))).filterMap (lastWithBase c) with hV
          have hVn : (V.map (·.name)).Nodup := dictVals_names_nodup c _
          have hVb : V.map Var.base = inter' keys (diff' keys (inter' rs keys)) := dictVals_map_base c _
          have hLperm := upgradeOrdering_perm_of_nodup (nodup_of_nodup_map_name hVn)
          have hLn : ((upgradeOrdering V).map (·.name)).Nodup := ((hLperm.map _).nodup_iff).mpr hVn
          have hLne : upgradeOrdering V ≠ [] := by
            intro h0
            apply hnk
            apply subset'_iff.mpr
            intro k hk
            by_contra hnot
            have hk2 : k ∈ inter' keys (diff' keys (inter' rs keys)) := by
              rw [mem_inter', mem_diff', mem_inter']
              exact ⟨hk, hk, fun h => hnot h.1⟩
            rw [← hVb] at hk2
            obtain ⟨v, hv, _⟩ := List.mem_map.mp hk2
            have := hLperm.symm.subset hv
            rw [h0] at this; cases this
          unfold sumSafe0
          simp only
          split
          · exact hsub _
          · rename_i hne4
            have hne4' : upgradeOrdering (diff' rs (inter' rs keys)) ≠ [] := by
              intro h; rw [h] at hne4; simp at hne4
            unfold IsCanon
            refine ⟨hsub _, hne4', upgradeOrdering_idem _, rfl, ?_⟩
            apply sumSimplify_leaf_disjoint hLn (upgradeOrdering_idem _) hLne (upgradeOrdering_idem _) hne4'
            intro v hv hb
            have hvV : v ∈ V := hLperm.subset hv
            have hvb : v.base ∈ inter' keys (diff' keys (inter' rs keys)) := by
              rw [← hVb]; exact List.mem_map_of_mem hvV
            rw [mem_inter', mem_diff'] at hvb
            have hb' := mem_diff'.mp (mem_upgradeOrdering.mp hb)
            exact hvb.2.2 (mem_inter'.mpr ⟨hb'.1, hvb.1⟩)
  · have hnl : ∀ pop c, x ≠ .prob pop c [] := fun pop c h => hleafx ⟨pop, c, h⟩
    rw [sumSimplify_nonleaf hnl]
    unfold IsCanon
    exact ⟨hx, hne, hrs, hxz, sumSimplify_nonleaf hnl⟩

theorem isCanon_sumSafe (hm : NameMonotone lvl) {x : Expr} {r : List Var} (hx : IsCanon lvl x) :
    IsCanon lvl (sumSafe x r true) := by
  unfold sumSafe
  simp only
  split
  · exact hx
  · rename_i hne
    have hne' : upgradeOrdering r ≠ [] := by intro h; rw [h] at hne; simp at hne
    cases x with
    | zero => simp [IsCanon]
    | prob pop c p => exact isCanon_sumSimplify hm hx (upgradeOrdering_idem r) hne' rfl
    | prod fs => exact isCanon_sumSimplify hm hx (upgradeOrdering_idem r) hne' rfl
    | sum e r0 => exact isCanon_sumSimplify hm hx (upgradeOrdering_idem r) hne' rfl
    | frac n d => exact isCanon_sumSimplify hm hx (upgradeOrdering_idem r) hne' rfl
    | one => exact isCanon_sumSimplify hm hx (upgradeOrdering_idem r) hne' rfl
    | q d c => exact isCanon_sumSimplify hm hx (upgradeOrdering_idem r) hne' rfl

/-! ### (A) the canonicaliser produces canonical forms -/

theorem isCanon_flatten {xs : List Expr} (h : ∀ x ∈ xs, IsCanon lvl x) :
    ∀ y ∈ flattenFactors xs, IsCanon lvl y ∧ y.isProd = false := by
  induction xs with
  | nil => intro y hy; simp [flattenFactors] at hy
  | cons a l ih =>
    intro y hy
    rw [flattenFactors_cons, List.mem_append] at hy
    rcases hy with hy | hy
    · have ha := h a List.mem_cons_self
      cases a with
      | prod gs =>
        have hat := atomic_of_isCanon_prod ha
        simp only [flattenFactor] at hy
        rw [flattenFactors_of_noprod gs (fun f hf => (hat f hf).2.1)] at hy
        exact ⟨(hat y hy).1, (hat y hy).2.1⟩
      | prob _ _ _ => simp only [flattenFactor, List.mem_singleton] at hy; subst hy; exact ⟨ha, rfl⟩
      | sum _ _ => simp only [flattenFactor, List.mem_singleton] at hy; subst hy; exact ⟨ha, rfl⟩
      | frac _ _ => simp only [flattenFactor, List.mem_singleton] at hy; subst hy; exact ⟨ha, rfl⟩
      | one => simp only [flattenFactor, List.mem_singleton] at hy; subst hy; exact ⟨ha, rfl⟩
      | zero => simp only [flattenFactor, List.mem_singleton] at hy; subst hy; exact ⟨ha, rfl⟩
      | q _ _ => simp only [flattenFactor, List.mem_singleton] at hy; subst hy; exact ⟨ha, rfl⟩
    · exact ih (fun x hx => h x (List.mem_cons_of_mem _ hx)) y hy

mutual
/-- **(A)** every result of the canonicaliser is canonical — all expressions, no scoping hypothesis -/
theorem isCanon_canonL (hm : NameMonotone lvl) : ∀ (e a : Expr), canonL lvl e = .ok a → IsCanon lvl a
  | .prob pop c p, a, h => by
    unfold canonL at h
    obtain ⟨c', hc, h⟩ := bind_ok h
    obtain ⟨p', hp, h⟩ := bind_ok h
    cases h
    unfold IsCanon
    exact ⟨sortVars_perm_eq (sortVars_perm hc).symm hc, sortVars_perm_eq (sortVars_perm hp).symm hp⟩
  | .sum e r, a, h => by
    unfold canonL at h
    obtain ⟨x, hx, h⟩ := bind_ok h
    cases h
    exact isCanon_sumSafe hm (isCanon_canonL hm e x hx)
  | .prod fs, a, h => by
    unfold canonL at h
    obtain ⟨xs, hxs, h⟩ := bind_ok h
    cases h
    exact (isCanon_productSafe (isCanon_flatten (isCanon_canonFactors hm fs xs hxs))).1
  | .frac n d, a, h => by
    unfold canonL at h
    obtain ⟨n', hn, h⟩ := bind_ok h
    obtain ⟨d', hd, h⟩ := bind_ok h
    have hn' := isCanon_canonL hm n n' hn
    have hd' := isCanon_canonL hm d d' hd
    split at h
    · cases h; exact hn'
    · rename_i hone
      split at h
      · cases h; simp [IsCanon]
      · obtain ⟨rv, hrv, h⟩ := bind_ok h
        cases h
        exact isCanon_div_post hn' hd' (by simpa using hone) hrv
  | .one, a, h => by unfold canonL at h; cases h; simp [IsCanon]
  | .zero, a, h => by unfold canonL at h; cases h; simp [IsCanon]
  | .q _ _, a, h => by unfold canonL at h; cases h
theorem isCanon_canonFactors (hm : NameMonotone lvl) : ∀ (fs xs : List Expr),
    canonFactors lvl fs = .ok xs → ∀ x ∈ xs, IsCanon lvl x
  | [], xs, h => by unfold canonFactors at h; cases h; intro x hx; cases hx
  | .prod gs :: rest, xs, h => by
    unfold canonFactors at h
    obtain ⟨a, ha, h⟩ := bind_ok h
    obtain ⟨b, hb, h⟩ := bind_ok h
    cases h
    intro x hx
    rcases List.mem_append.mp hx with hx | hx
    · exact isCanon_canonFactors hm gs a ha x hx
    · exact isCanon_canonFactors hm rest b hb x hx
  | .prob pop c p :: rest, xs, h => by
    unfold canonFactors at h
    obtain ⟨a, ha, h⟩ := bind_ok h
    obtain ⟨b, hb, h⟩ := bind_ok h
    cases h
    intro x hx
    rcases List.mem_cons.mp hx with rfl | hx
    · exact isCanon_canonL hm _ _ ha
    · exact isCanon_canonFactors hm rest b hb x hx
  | .sum e0 r :: rest, xs, h => by
    unfold canonFactors at h
    obtain ⟨a, ha, h⟩ := bind_ok h
    obtain ⟨b, hb, h⟩ := bind_ok h
    cases h
    intro x hx
    rcases List.mem_cons.mp hx with rfl | hx
    · exact isCanon_canonL hm _ _ ha
    · exact isCanon_canonFactors hm rest b hb x hx
  | .frac n d :: rest, xs, h => by
    unfold canonFactors at h
    obtain ⟨a, ha, h⟩ := bind_ok h
    obtain ⟨b, hb, h⟩ := bind_ok h
    cases h
    intro x hx
    rcases List.mem_cons.mp hx with rfl | hx
    · exact isCanon_canonL hm _ _ ha
    · exact isCanon_canonFactors hm rest b hb x hx
  | .one :: rest, xs, h => by
    unfold canonFactors at h
    obtain ⟨a, ha, h⟩ := bind_ok h
    obtain ⟨b, hb, h⟩ := bind_ok h
    cases h
    intro x hx
    rcases List.mem_cons.mp hx with rfl | hx
    · exact isCanon_canonL hm _ _ ha
    · exact isCanon_canonFactors hm rest b hb x hx
  | .zero :: rest, xs, h => by
    unfold canonFactors at h
    obtain ⟨a, ha, h⟩ := bind_ok h
    obtain ⟨b, hb, h⟩ := bind_ok h
    cases h
    intro x hx
    rcases List.mem_cons.mp hx with rfl | hx
    · exact isCanon_canonL hm _ _ ha
    · exact isCanon_canonFactors hm rest b hb x hx
  | .q dd cc :: rest, xs, h => by
    unfold canonFactors at h
    obtain ⟨a, ha, _⟩ := bind_ok h
    unfold canonL at ha; cases ha
end

/-- **idempotence**: for ALL expressions, under every ordering that is monotone in the variable name -/
theorem canonL_idem (hm : NameMonotone lvl) {e a : Expr} (h : canonL lvl e = .ok a) : canonL lvl a = .ok a :=
  canonL_of_isCanon a (isCanon_canonL hm e a h)

end Y0

namespace Y0
set_option linter.unusedVariables false

/-! ### the level table of a sorted ordering is monotone in the name -/

theorem levelOf_go_spec (n : Name) : ∀ (l : List Var) (k : Nat) (acc : Option Nat) (i : Nat),
    levelOf.go n l k acc = some i →
      acc = some i ∨ ∃ j, ∃ hj : j < l.length, i = k + j ∧ (l[j]'hj).name = n
  | [], k, acc, i, h => by simp [levelOf.go] at h; exact Or.inl h
  | v :: vs, k, acc, i, h => by
    unfold levelOf.go at h
    rcases levelOf_go_spec n vs (k + 1) _ i h with h1 | ⟨j, hj, e, hn⟩
    · by_cases hv : v.name = n
      · simp only [hv, if_true, Option.some.injEq] at h1
        exact Or.inr ⟨0, by simp, by omega, by simpa using hv⟩
      · simp only [hv, if_false] at h1
        exact Or.inl h1
    · exact Or.inr ⟨j + 1, by simp; omega, by omega, by simpa using hn⟩

theorem levelOf_spec {l : List Var} {n : Name} {i : Nat} (h : levelOf l n = some i) :
    ∃ hi : i < l.length, (l[i]'hi).name = n := by
  unfold levelOf at h
  rcases levelOf_go_spec n l 0 none i h with h1 | ⟨j, hj, e, hn⟩
  · cases h1
  · have : i = j := by omega
    subst this; exact ⟨hj, hn⟩

/-- `ensure_ordering` re-sorts the ordering, so levels increase with the variable name -/
theorem nameMonotone_levelOf (o : List Var) : NameMonotone (levelOf (upgradeOrdering o)) := by
  intro a b la lb ha hb hab
  obtain ⟨hia, hna⟩ := levelOf_spec ha
  obtain ⟨hib, hnb⟩ := levelOf_spec hb
  by_contra hlt
  have hle : lb ≤ la := Nat.le_of_not_lt hlt
  rcases Nat.lt_or_eq_of_le hle with h | h
  · have hp := (List.pairwise_iff_getElem.mp (pairwise_upgradeOrdering o)) lb la hib hia h
    have := kle_sortKeyK_name hp
    rw [hna, hnb] at this
    exact absurd hab (Nat.not_lt.mpr this)
  · subst h
    rw [hna] at hnb
    subst hnb
    exact absurd hab (Nat.lt_irrefl _)

end Y0
