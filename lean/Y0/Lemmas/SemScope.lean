/-
  Y0.Lemmas.SemScope — the decidable predicate `WellScoped` (the quantifier of C10: "well-scoped expressions built
  from probabilities (joint, conditional, interventional, population-tagged), products, sums, fractions, one and zero")
  and the valuations in range.  Core Lean only (executable: the driver exposes it so that the harness can compare it
  with `gen_expr.well_scoped`).

  WellScoped e :=
    * every leaf P(c | p): at least one child; the names of c and p pairwise distinct; all its variables carry the same
      intervention set (one world: joint / conditional / interventional); the intervened names are not among its own
      variables; (population tag: any)
    * no Q-factor;
    * the ranges of every Sum are plain variables;
    * a name that is a range of some Sum of the expression never occurs as a `+X` value (σ' is not bound by sums).
  Multi-world joint leaves are outside THIS predicate; the widened quantifier `WellScopedW` (SemScopeW.lean) admits them,
  and after the repair of `Sum.simplify` (several children per base variable: the sum is left alone) the C10 theorems
  hold there as well (Props/C10MW.lean).
-/
import Y0.Model.Dsl

namespace Y0

def namesNodup : List Name → Bool
  | [] => true
  | x :: xs => !xs.contains x && namesNodup xs

/-- the leaf clause, relative to the set `S` of names bound by sums -/
def leafOK (S : List Name) (c p : List Var) : Bool :=
  let vs := c ++ p
  !c.isEmpty
  && namesNodup (vs.map (·.name))
  && vs.all (fun v => vs.all (fun w => decide (v.ivs = w.ivs)))
  && vs.all (fun v => vs.all (fun w => w.ivs.all (fun i => i.name != v.name)))
  && vs.all (fun v => !(v.star == some true && S.contains v.name))

/-- the ranges of a Sum: a set (no repetition) of plain variables whose names are in `S` -/
def rangesOK (S : List Name) (r : List Var) : Bool :=
  namesNodup (r.map (·.name)) && r.all (fun v => v.isPlain && S.contains v.name)

mutual
/-- names bound by some Sum of the expression -/
def Expr.rangeNames : Expr → List Name
  | .prod fs => Expr.rangeNamesList fs
  | .sum e r => r.map (·.name) ++ Expr.rangeNames e
  | .frac n d => Expr.rangeNames n ++ Expr.rangeNames d
  | _ => []
def Expr.rangeNamesList : List Expr → List Name
  | [] => []
  | e :: es => Expr.rangeNames e ++ Expr.rangeNamesList es
end

mutual
def Expr.wss (S : List Name) : Expr → Bool
  | .prob _ c p => leafOK S c p
  | .prod fs => Expr.wssList S fs
  | .sum e r => rangesOK S r && Expr.wss S e
  | .frac n d => Expr.wss S n && Expr.wss S d
  | .one => true
  | .zero => true
  | .q _ _ => false
def Expr.wssList (S : List Name) : List Expr → Bool
  | [] => true
  | e :: es => Expr.wss S e && Expr.wssList S es
end

/-- the quantifier of C10 -/
def WellScoped (e : Expr) : Bool := e.wss e.rangeNames

mutual
/-- variables in event position (children and parents of the leaves) -/
def Expr.eventVars : Expr → List Var
  | .prob _ c p => c ++ p
  | .prod fs => Expr.eventVarsList fs
  | .sum e _ => Expr.eventVars e
  | .frac n d => Expr.eventVars n ++ Expr.eventVars d
  | _ => []
def Expr.eventVarsList : List Expr → List Var
  | [] => []
  | e :: es => Expr.eventVars e ++ Expr.eventVarsList es
end

/-- the ordering covers the expression: every event variable's name has a level -/
def Covers (lvl : Name → Option Nat) (e : Expr) : Prop := ∀ v ∈ e.eventVars, (lvl v.name).isSome = true

end Y0
