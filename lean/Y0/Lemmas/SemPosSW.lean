/-
  Y0.Lemmas.SemPosSW — SINGLE-WORLD positivity: the satisfiable replacement of `Env.Positive`.

  `Env.Positive` (Y0/Spec/Sem.lean) asks for positive probability of EVERY in-range conjunction without a syntactic
  conflict, in particular of `X_{x=0} = 1` and of cross-world conjunctions that the consistency axiom of counterfactuals
  forbids; no causal model with a non-constant variable satisfies it (Props/C10Sem.lean: `fscmEnv_not_positive`,
  `envX_not_positive`).  The proof of `denNZ_of_positive` (Y0/Lemmas/SemPos.lean) uses it only on the conjunctions that
  the leaves of a well-scoped expression denote.  `Env.PositiveSW V` asks for positivity of exactly those:

      all atoms in ONE world whose bindings are in range, about pairwise distinct variables of `V`, none of them
      intervened in that world, values in range.

  * `Env.Positive.positiveSW`       the old hypothesis implies the new one;
  * `den_pos_sw`, `denNZ_of_positiveSW`   the development of SemPos.lean under the weaker hypothesis;
  * `Scm.envX_positiveSW`           the total environment of EVERY compatible semi-Markovian model satisfies it over the
                                    nodes of the graph (compatible models have positive kernels).
-/
import Y0.Lemmas.SemPos
import Y0.Lemmas.ScmEnvXAgree

namespace Y0
set_option linter.unusedVariables false

variable {env : Env} {σ' : Val}

/-- single-world positivity over the vocabulary `V` -/
def Env.PositiveSW (env : Env) (V : List Name) : Prop :=
  ∀ (pop : Option Name) (d : List (Name × Nat)) (l : List Atom), (∀ a ∈ l, a.dos = d) → (∀ p ∈ d, p.2 < env.card p.1) →
    (l.map (·.name)).Nodup → (∀ a ∈ l, a.name ∈ V) → (∀ a ∈ l, a.val < env.card a.name) →
    (∀ a ∈ l, a.name ∉ d.map (·.1)) → 0 < env.pr pop l

theorem Env.Positive.positiveSW (h : env.Positive) (V : List Name) : env.PositiveSW V := by
  intro pop d l hd _ hn _ hval _
  apply h pop l hval
  intro a ha b hb
  by_cases e : a = b
  · subst e; simp [Atom.conflicts]
  · have : a.name ≠ b.name := fun hne => e (List.inj_on_of_nodup_map hn ha hb hne)
    simp [Atom.conflicts, this]

/-- the conjunction denoted by (part of) a well-scoped leaf is positive -/
theorem atoms_pos_sw {V : List Name} (hP : env.PositiveSW V) (pop : Option Name) (vs : List Var) (σ : Val)
    (hσ : InRange env σ) (hσ' : InRange env σ') (hn : (vs.map (·.name)).Nodup)
    (hw : ∀ v ∈ vs, ∀ w ∈ vs, v.ivs = w.ivs) (hs : ∀ v ∈ vs, ∀ w ∈ vs, ∀ i ∈ w.ivs, i.name ≠ v.name)
    (hV : ∀ v ∈ vs, v.name ∈ V) : 0 < env.pr pop (vs.map (Var.atom σ σ')) := by
  cases vs with
  | nil =>
    exact hP pop [] [] (by simp) (by simp) (by simp) (by simp) (by simp) (by simp)
  | cons v0 rest =>
    apply hP pop (v0.ivs.map (Iv.eval σ σ'))
    · intro a ha
      obtain ⟨v, hv, rfl⟩ := List.mem_map.mp ha
      simp only [Var.atom]
      rw [hw v hv v0 List.mem_cons_self]
    · intro p hp
      obtain ⟨i, _, rfl⟩ := List.mem_map.mp hp
      simp only [Iv.eval]
      split
      · exact hσ' _
      · exact hσ _
    · simpa [List.map_map, Function.comp_def, Var.atom] using hn
    · intro a ha
      obtain ⟨v, hv, rfl⟩ := List.mem_map.mp ha
      exact hV v hv
    · intro a ha
      obtain ⟨v, hv, rfl⟩ := List.mem_map.mp ha
      simp only [Var.atom, Var.value]
      split
      · exact hσ' _
      · exact hσ _
    · intro a ha hmem
      obtain ⟨v, hv, rfl⟩ := List.mem_map.mp ha
      simp only [List.map_map, List.mem_map, Function.comp_apply] at hmem
      obtain ⟨i, hi, hin⟩ := hmem
      exact hs v hv v0 List.mem_cons_self i hi (by simpa [Iv.eval, Var.atom] using hin)

theorem leaf_parts {S : List Name} {c p : List Var} (h : LeafOKP S c p) :
    ((p.map (·.name)).Nodup) ∧ (∀ v ∈ p, ∀ w ∈ p, v.ivs = w.ivs) ∧ (∀ v ∈ p, ∀ w ∈ p, ∀ i ∈ w.ivs, i.name ≠ v.name) := by
  have hn := h.names
  rw [List.map_append] at hn
  exact ⟨(List.nodup_append.mp hn).2.1,
    fun v hv w hw => h.world v (List.mem_append_right _ hv) w (List.mem_append_right _ hw),
    fun v hv w hw => h.subs v (List.mem_append_right _ hv) w (List.mem_append_right _ hw)⟩

mutual
theorem den_pos_sw {V : List Name} (hF : ProbFamily env) (hP : env.PositiveSW V) (hσ' : InRange env σ') {S : List Name} :
    ∀ (e : Expr), Expr.wss S e = true → e.zeroFree = true → (∀ v ∈ e.eventVars, v.name ∈ V) →
      ∀ σ, InRange env σ → 0 < den env σ' e σ
  | .prob pop c p, hw, _, hV, σ, hσ => by
    have hleaf : LeafOKP S c p := leafOK_iff.mp (by simpa [Expr.wss] using hw)
    obtain ⟨hpn, hpw, hps⟩ := leaf_parts hleaf
    rw [den_prob]
    apply div_pos
    · exact atoms_pos_sw hP _ _ σ hσ hσ' hleaf.names hleaf.world hleaf.subs (by simpa [Expr.eventVars] using hV)
    · exact atoms_pos_sw hP _ _ σ hσ hσ' hpn hpw hps
        (fun v hv => hV v (by simp only [Expr.eventVars]; exact List.mem_append_right _ hv))
  | .prod fs, hw, hz, hV, σ, hσ => by
    rw [den_prod]
    exact denProd_pos_sw hF hP hσ' fs (wss_prod_iff.mp hw) (by simpa [Expr.zeroFree] using hz)
      (by simpa [Expr.eventVars] using hV) σ hσ
  | .sum e r, hw, hz, hV, σ, hσ => by
    rw [den_sum]
    obtain ⟨_, hwe⟩ := wss_sum_iff.mp hw
    exact sumVars_pos env.card hF.card_pos _ _ (InRange env) (fun τ x k h hk => h.set x hk)
      (fun τ hτ => den_pos_sw hF hP hσ' e hwe (by simpa [Expr.zeroFree] using hz)
        (by simpa [Expr.eventVars] using hV) τ hτ) σ hσ
  | .frac n d, hw, hz, hV, σ, hσ => by
    rw [den_frac]
    obtain ⟨h1, h2⟩ := wss_frac_iff.mp hw
    simp only [Expr.zeroFree, Bool.and_eq_true] at hz
    have hVn : ∀ v ∈ n.eventVars, v.name ∈ V := fun v hv => hV v (by simp only [Expr.eventVars]; exact List.mem_append_left _ hv)
    have hVd : ∀ v ∈ d.eventVars, v.name ∈ V := fun v hv => hV v (by simp only [Expr.eventVars]; exact List.mem_append_right _ hv)
    exact div_pos (den_pos_sw hF hP hσ' n h1 hz.1 hVn σ hσ) (den_pos_sw hF hP hσ' d h2 hz.2 hVd σ hσ)
  | .one, _, _, _, σ, _ => by simp
  | .zero, _, hz, _, _, _ => by simp [Expr.zeroFree] at hz
  | .q _ _, hw, _, _, _, _ => by simp [Expr.wss] at hw
theorem denProd_pos_sw {V : List Name} (hF : ProbFamily env) (hP : env.PositiveSW V) (hσ' : InRange env σ') {S : List Name} :
    ∀ (fs : List Expr), (∀ e ∈ fs, Expr.wss S e = true) → Expr.zeroFreeList fs = true →
      (∀ v ∈ Expr.eventVarsList fs, v.name ∈ V) → ∀ σ, InRange env σ → 0 < denProd env σ' fs σ
  | [], _, _, _, σ, _ => by simp
  | e :: es, hw, hz, hV, σ, hσ => by
    simp only [Expr.zeroFreeList, Bool.and_eq_true] at hz
    rw [denProd_cons]
    exact mul_pos (den_pos_sw hF hP hσ' e (hw e List.mem_cons_self) hz.1
        (fun v hv => hV v (by simp only [Expr.eventVarsList]; exact List.mem_append_left _ hv)) σ hσ)
      (denProd_pos_sw hF hP hσ' es (fun x hx => hw x (List.mem_cons_of_mem _ hx)) hz.2
        (fun v hv => hV v (by simp only [Expr.eventVarsList]; exact List.mem_append_right _ hv)) σ hσ)
end

mutual
theorem denNZ_of_zeroFree_sw {V : List Name} (hF : ProbFamily env) (hP : env.PositiveSW V) (hσ' : InRange env σ')
    {S : List Name} : ∀ (e : Expr), Expr.wss S e = true → e.zeroFree = true → (∀ v ∈ e.eventVars, v.name ∈ V) →
      DenNZ env σ' e
  | .prob _ _ _, _, _, _ => by simp
  | .prod fs, hw, hz, hV => by
    simp only [DenNZ]
    exact denNZList_of_zeroFree_sw hF hP hσ' fs (wss_prod_iff.mp hw) (by simpa [Expr.zeroFree] using hz)
      (by simpa [Expr.eventVars] using hV)
  | .sum e r, hw, hz, hV => denNZ_sum_iff.mpr
      (denNZ_of_zeroFree_sw hF hP hσ' e (wss_sum_iff.mp hw).2 (by simpa [Expr.zeroFree] using hz)
        (by simpa [Expr.eventVars] using hV))
  | .frac n d, hw, hz, hV => by
    obtain ⟨h1, h2⟩ := wss_frac_iff.mp hw
    simp only [Expr.zeroFree, Bool.and_eq_true] at hz
    have hVn : ∀ v ∈ n.eventVars, v.name ∈ V := fun v hv => hV v (by simp only [Expr.eventVars]; exact List.mem_append_left _ hv)
    have hVd : ∀ v ∈ d.eventVars, v.name ∈ V := fun v hv => hV v (by simp only [Expr.eventVars]; exact List.mem_append_right _ hv)
    refine denNZ_frac_iff.mpr ⟨denNZ_of_zeroFree_sw hF hP hσ' n h1 hz.1 hVn, denNZ_of_zeroFree_sw hF hP hσ' d h2 hz.2 hVd, ?_⟩
    intro σ hσ; exact (den_pos_sw hF hP hσ' d h2 hz.2 hVd σ hσ).ne'
  | .one, _, _, _ => by simp
  | .zero, _, _, _ => by simp
  | .q _ _, _, _, _ => by simp
theorem denNZList_of_zeroFree_sw {V : List Name} (hF : ProbFamily env) (hP : env.PositiveSW V) (hσ' : InRange env σ')
    {S : List Name} : ∀ (fs : List Expr), (∀ e ∈ fs, Expr.wss S e = true) → Expr.zeroFreeList fs = true →
      (∀ v ∈ Expr.eventVarsList fs, v.name ∈ V) → DenNZList env σ' fs
  | [], _, _, _ => by simp [DenNZList]
  | a :: rest, hw, hz, hV => by
    simp only [Expr.zeroFreeList, Bool.and_eq_true] at hz
    simp only [DenNZList]
    exact ⟨denNZ_of_zeroFree_sw hF hP hσ' a (hw _ List.mem_cons_self) hz.1
        (fun v hv => hV v (by simp only [Expr.eventVarsList]; exact List.mem_append_left _ hv)),
      denNZList_of_zeroFree_sw hF hP hσ' rest (fun x hx => hw x (List.mem_cons_of_mem _ hx)) hz.2
        (fun v hv => hV v (by simp only [Expr.eventVarsList]; exact List.mem_append_right _ hv))⟩
end

mutual
/-- **single-world positivity discharges the non-vanishing hypothesis of C10** -/
theorem denNZ_of_positiveSW {V : List Name} (hF : ProbFamily env) (hP : env.PositiveSW V) (hσ' : InRange env σ')
    {S : List Name} : ∀ (e : Expr), Expr.wss S e = true → e.zfd = true → (∀ v ∈ e.eventVars, v.name ∈ V) → DenNZ env σ' e
  | .prob _ _ _, _, _, _ => by simp
  | .prod fs, hw, hz, hV => by
    simp only [DenNZ]
    exact denNZList_of_positiveSW hF hP hσ' fs (wss_prod_iff.mp hw) (by simpa [Expr.zfd] using hz)
      (by simpa [Expr.eventVars] using hV)
  | .sum e r, hw, hz, hV => denNZ_sum_iff.mpr
      (denNZ_of_positiveSW hF hP hσ' e (wss_sum_iff.mp hw).2 (by simpa [Expr.zfd] using hz)
        (by simpa [Expr.eventVars] using hV))
  | .frac n d, hw, hz, hV => by
    obtain ⟨h1, h2⟩ := wss_frac_iff.mp hw
    simp only [Expr.zfd, Bool.and_eq_true] at hz
    have hVn : ∀ v ∈ n.eventVars, v.name ∈ V := fun v hv => hV v (by simp only [Expr.eventVars]; exact List.mem_append_left _ hv)
    have hVd : ∀ v ∈ d.eventVars, v.name ∈ V := fun v hv => hV v (by simp only [Expr.eventVars]; exact List.mem_append_right _ hv)
    refine denNZ_frac_iff.mpr ⟨denNZ_of_positiveSW hF hP hσ' n h1 hz.1 hVn, ?_, ?_⟩
    · exact denNZ_of_zeroFree_sw hF hP hσ' d h2 hz.2 hVd
    · intro σ hσ; exact (den_pos_sw hF hP hσ' d h2 hz.2 hVd σ hσ).ne'
  | .one, _, _, _ => by simp
  | .zero, _, _, _ => by simp
  | .q _ _, _, _, _ => by simp
theorem denNZList_of_positiveSW {V : List Name} (hF : ProbFamily env) (hP : env.PositiveSW V) (hσ' : InRange env σ')
    {S : List Name} : ∀ (fs : List Expr), (∀ e ∈ fs, Expr.wss S e = true) → Expr.zfdList fs = true →
      (∀ v ∈ Expr.eventVarsList fs, v.name ∈ V) → DenNZList env σ' fs
  | [], _, _, _ => by simp [DenNZList]
  | a :: rest, hw, hz, hV => by
    simp only [Expr.zfdList, Bool.and_eq_true] at hz
    simp only [DenNZList]
    exact ⟨denNZ_of_positiveSW hF hP hσ' a (hw _ List.mem_cons_self) hz.1
        (fun v hv => hV v (by simp only [Expr.eventVarsList]; exact List.mem_append_left _ hv)),
      denNZList_of_positiveSW hF hP hσ' rest (fun x hx => hw x (List.mem_cons_of_mem _ hx)) hz.2
        (fun v hv => hV v (by simp only [Expr.eventVarsList]; exact List.mem_append_right _ hv))⟩
end

/-! ### semi-Markovian models are single-world positive -/

namespace Scm
open TianProb Fscm

variable {M : Scm} {G : MG Name}

/-- a conjunction living in one world: one factor -/
theorem prX_sameWorld (hC : XCtx M G) (d : List (Name × Nat)) (l : List Atom) (hdos : ∀ a ∈ l, a.dos = d) :
    M.prX G l = pw M G (kdos M.card G d) (l.map fun b => (b.name, b.val)) := by
  set κ := kdos M.card G d with hκ
  have hkey : ∀ a ∈ l, akey M G a = κ := fun a ha => by simp only [akey, hdos a ha, hκ]
  rw [prX_eq_prod hC l [κ] (List.nodup_singleton _) (fun D hD => by
      rw [List.mem_singleton] at hD; subst hD; exact kdos_canon _)
    (fun a ha => by rw [hkey a ha]; exact List.mem_singleton_self _)]
  simp only [List.map_cons, List.map_nil, List.prod_cons, List.prod_nil, mul_one]
  congr 1
  unfold evOf
  rw [List.filter_eq_self.mpr]
  intro a ha
  have := hkey a ha
  simp only [akey] at this
  simp [this]

/-- **the total environment of every compatible semi-Markovian model is single-world positive over the nodes** -/
theorem envX_positiveSW (hC : XCtx M G) : (M.envX G).PositiveSW G.nodes := by
  intro pop d l hdos hdr hn hV hval hfresh
  show 0 < M.prX G l
  rw [prX_sameWorld hC d l hdos]
  set ev := l.map fun b => (b.name, b.val) with hev
  have hok : evOK M G ev = true := by
    rw [evOK_iff]
    intro p hp
    obtain ⟨a, ha, rfl⟩ := List.mem_map.mp hp
    exact ⟨hval a ha, Or.inl (hV a ha)⟩
  have hnd : nd G ev = ev := by
    unfold nd
    apply List.filter_eq_self.mpr
    intro p hp
    obtain ⟨a, ha, rfl⟩ := List.mem_map.mp hp
    simpa using hV a ha
  have hcan := kdos_canon (M := M) (G := G) d
  have hfun : Functional (kdos M.card G d ++ nd G ev) := by
    rw [hnd]
    intro p hp q hq e
    rcases List.mem_append.mp hp with hp1 | hp1 <;> rcases List.mem_append.mp hq with hq1 | hq1
    · exact hcan.fn p hp1 q hq1 e
    · exfalso
      obtain ⟨a, ha, rfl⟩ := List.mem_map.mp hq1
      apply hfresh a ha
      have := (mem_normDo.mp (forced_mem (mem_kdos.mp hp1).2)).1
      exact List.mem_map.mpr ⟨(p.1, p.2), this, e⟩
    · exfalso
      obtain ⟨a, ha, rfl⟩ := List.mem_map.mp hp1
      apply hfresh a ha
      have := (mem_normDo.mp (forced_mem (mem_kdos.mp hq1).2)).1
      exact List.mem_map.mpr ⟨(q.1, q.2), this, e.symm⟩
    · obtain ⟨a, ha, rfl⟩ := List.mem_map.mp hp1
      obtain ⟨b, hb, rfl⟩ := List.mem_map.mp hq1
      have : a = b := List.inj_on_of_nodup_map hn ha hb e
      rw [this]
  rw [pw_of_reads hC (rd _) hok (rd_reads hfun)]
  exact F_pos hC.compat _ _ _

/-- ... whereas `Env.Positive` fails for it as soon as a node has two values: `P(X_{x=0} = 1) = 0` -/
theorem envX_not_positive (hC : XCtx M G) (x : Name) (hx : x ∈ G.nodes) (hc : 1 < M.card x) : ¬ (M.envX G).Positive := by
  intro hP
  have hpos := hP none [⟨x, [(x, 0)], 1⟩] (by intro a ha; rw [List.mem_singleton] at ha; subst ha; exact hc)
    (by simp [Atom.conflicts])
  have hz : (M.envX G).pr none [⟨x, [(x, 0)], 1⟩] = 0 := by
    show M.prX G [⟨x, [(x, 0)], 1⟩] = 0
    rw [prX_sameWorld hC [(x, 0)] _ (by simp)]
    apply pw_incons
    rw [Bool.eq_false_iff]
    intro h
    have hf := (consistent_iff _).mp h
    have hvalid : DoValid M.card [(x, 0)] := ⟨by simpa using Nat.lt_trans Nat.zero_lt_one hc, by simp⟩
    have h1 : (x, 0) ∈ kdos M.card G [(x, 0)] := (mem_kdos_valid hvalid).mpr ⟨hx, by simp⟩
    have h2 : (x, 1) ∈ nd G ([⟨x, [(x, 0)], 1⟩].map fun b : Atom => (b.name, b.val)) := by
      rw [mem_nd]; exact ⟨by simp, hx⟩
    have := hf (x, 0) (List.mem_append_left _ h1) (x, 1) (List.mem_append_right _ h2) rfl
    simp at this
  rw [hz] at hpos
  exact lt_irrefl _ hpos

end Scm


mutual
/-- single-world expressions over the nodes mention nodes only -/
theorem eventVars_of_swOK {G : MG Name} : ∀ (e : Expr), e.swOK G = true → ∀ v ∈ e.eventVars, v.name ∈ G.nodes
  | .prob _ c p, h, v, hv => by
    obtain ⟨_, _, h3⟩ := Scm.leafSW_iff.mp (by simpa [Expr.swOK] using h)
    exact h3 v (by simpa [Expr.eventVars] using hv)
  | .prod fs, h, v, hv => eventVarsList_of_swOK fs (by simpa [Expr.swOK] using h) v (by simpa [Expr.eventVars] using hv)
  | .sum e _, h, v, hv => eventVars_of_swOK e (by simpa [Expr.swOK] using h) v (by simpa [Expr.eventVars] using hv)
  | .frac n d, h, v, hv => by
    simp only [Expr.swOK, Bool.and_eq_true] at h
    simp only [Expr.eventVars, List.mem_append] at hv
    rcases hv with hv | hv
    · exact eventVars_of_swOK n h.1 v hv
    · exact eventVars_of_swOK d h.2 v hv
  | .one, _, v, hv => by simp [Expr.eventVars] at hv
  | .zero, _, v, hv => by simp [Expr.eventVars] at hv
  | .q _ _, _, v, hv => by simp [Expr.eventVars] at hv
theorem eventVarsList_of_swOK {G : MG Name} : ∀ (fs : List Expr), Expr.swOKList G fs = true →
    ∀ v ∈ Expr.eventVarsList fs, v.name ∈ G.nodes
  | [], _, v, hv => by simp [Expr.eventVarsList] at hv
  | e :: es, h, v, hv => by
    simp only [Expr.swOKList, Bool.and_eq_true] at h
    simp only [Expr.eventVarsList, List.mem_append] at hv
    rcases hv with hv | hv
    · exact eventVars_of_swOK e h.1 v hv
    · exact eventVarsList_of_swOK es h.2 v hv
end

end Y0
