/-
  Y0.Lemmas.CtfDenMain — the pointwise heart of `factorisation_den_partial`: for a query outside the three classes, at
  every noise point and for every assignment `r` of the summed vertices,

      the query holds and every summed member of `An(Y_*)` takes its value in `r`
        ⟺  every ctf-factor variable `W_{pa_W}` takes its value(s) under the reading of Y0/Spec/CtfSem.lean.
-/
import Y0.Lemmas.CtfDenFactor

namespace Y0.Ctf
open Relation Y0.MG Y0.Fscm

/-- the member of `D_*` on the vertex `n` -/
def wOf (D : List Var) (n : Name) : Var := (D.find? (fun w => decide (w.name = n))).getD (Var.plain n)

/-- its ctf-factor form -/
def cOf (g : MG Name) (D : List Var) (n : Name) : Var :=
  match convertOne g (wOf D n) with
  | .ok c => c
  | .error _ => Var.plain n

theorem wOf_of_name (D : List Var) (n : Name) (hn : n ∈ D.map (·.name)) : wOf D n ∈ D ∧ (wOf D n).name = n := by
  unfold wOf
  cases hf : D.find? (fun w => decide (w.name = n)) with
  | none =>
    rw [List.find?_eq_none] at hf
    obtain ⟨w, hw, hwn⟩ := List.mem_map.1 hn
    exact absurd (by simpa using hwn) (hf w hw)
  | some w =>
    simp only [Option.getD_some]
    exact ⟨List.mem_of_find?_eq_some hf, by simpa using List.find?_some hf⟩

theorem factorVarValues_mem (ν : BaseValues) (r : Do) (ev : Event) (c : Var) (k : Nat) :
    k ∈ factorVarValues ν r ev c ↔
      forced r c.name = some k ∨ (forced r c.name = none ∧ ∃ i, (c, some i) ∈ ev ∧ k = ivValue ν i) := by
  unfold factorVarValues
  cases hf : forced r c.name with
  | some k' => simp [eq_comm]
  | none =>
    simp only [List.mem_filterMap, reduceCtorEq, false_or, true_and]
    constructor
    · rintro ⟨⟨c', x⟩, hp, hk⟩
      simp only at hk
      split at hk
      · rename_i hc
        subst hc
        cases x with
        | none => simp at hk
        | some i =>
          simp only [Option.map_some, Option.some.injEq] at hk
          exact ⟨i, hp, hk.symm⟩
      · cases hk
    · rintro ⟨i, hp, rfl⟩
      exact ⟨(c, some i), hp, by simp⟩

namespace QCtx
variable {g : MG Name} {q : Event} {D : List Var} (C : QCtx g q D)
include C

theorem wOf_mem (w : Var) (hw : w ∈ D) : wOf D w.name = w := by
  obtain ⟨h1, h2⟩ := wOf_of_name D w.name (List.mem_map.2 ⟨w, hw, rfl⟩)
  exact C.single _ h1 _ hw h2

theorem cOf_mem (w c : Var) (hw : w ∈ D) (hc : convertOne g w = .ok c) : cOf g D w.name = c := by
  unfold cOf
  rw [C.wOf_mem w hw, hc]

/-- the ctf-factor form of a query variable is the ctf-factor form of the member of `D_*` on its vertex -/
theorem convert_query_var (p : Var × Val) (hp : p ∈ q) (w : Var) (hw : w ∈ D) (hname : w.name = p.1.name) :
    convertOne g w = convertOne g p.1 := by
  obtain ⟨w₀, hw₀, hanc, hn₀⟩ := C.selfVar p hp
  have : w₀ = w := C.single _ hw₀ _ hw (by rw [hn₀, hname])
  subst this
  obtain ⟨P, hP⟩ := hanc.2
  apply convertOne_congr g p.1 w₀ hname P hP
  intro i hi hedge
  have : i ∈ w₀.ivs := parent_sub_mem g p.1 (C.self p hp) w₀ hanc.1 i hi (by rw [hname]; exact hedge)
  rw [hP] at this
  exact (List.mem_filter.1 this).2

/-- **the pointwise equivalence.** -/
theorem pointwise (ev : Event) (hconv : ∀ w ∈ D, ∃ c, convertOne g w = .ok c) (hev : convertEvent g q = .ok ev)
    (M : Model) (hM : Compatible M g) (ν : BaseValues) (r : Do)
    (hr1 : ∀ n k, forced r n = some k → n ∈ D.map (·.name) ∧ n ∉ q.map (·.1.name))
    (hr2 : ∀ n ∈ D.map (·.name), n ∉ q.map (·.1.name) → ∃ k, forced r n = some k) (u : NoisePoint) :
    (EventHolds M ν u q ∧ ∀ n k, forced r n = some k → solve M u (worldOf ν (wOf D n).ivs) n = k) ↔
    (∀ w ∈ D, ∀ k ∈ factorVarValues ν r ev (cOf g D w.name),
        solve M u (boundWorld ν r (cOf g D w.name).ivs) w.name = k) := by
  -- the data of the composition lemma
  let N := D.map (·.name)
  let s : Name → Do := fun n => worldOf ν (wOf D n).ivs
  let t : Name → Do := fun n => boundWorld ν r (cOf g D n).ivs
  let cons : Name → List Nat := fun n => factorVarValues ν r ev (cOf g D n)
  -- facts about one member
  have hmember : ∀ n ∈ N, ∃ w ∈ D, w.name = n ∧ wOf D n = w ∧ ∃ c, convertOne g w = .ok c ∧ cOf g D n = c := by
    intro n hn
    obtain ⟨h1, h2⟩ := wOf_of_name D n hn
    obtain ⟨c, hc⟩ := hconv _ h1
    refine ⟨wOf D n, h1, h2, rfl, c, hc, ?_⟩
    have := C.cOf_mem _ c h1 hc
    rwa [h2] at this
  have hcons_w : ∀ w ∈ D, ConsistentSubs w.ivs := by
    intro w hw
    obtain ⟨p, hp, hanc⟩ := C.src w hw
    exact consistent_of_sub _ _ (C.cons p hp) (ctfAnc_ivs_sub g p.1 w hanc.1)
  -- values the event gives to the ctf-factor form of a member: exactly the values the query gives to its vertex
  have hvals : ∀ w ∈ D, ∀ c, convertOne g w = .ok c → ∀ i, (c, some i) ∈ ev ↔ ∃ v, (v, some i) ∈ q ∧ v.name = w.name := by
    intro w hw c hc i
    rw [convertEvent_mem g q ev hev]
    constructor
    · rintro ⟨v, hv, hvc⟩
      refine ⟨v, hv, ?_⟩
      rw [← (convertOne_spec' g v c hvc).1, ← (convertOne_spec' g w c hc).1]
    · rintro ⟨v, hv, hname⟩
      refine ⟨v, hv, ?_⟩
      rw [← C.convert_query_var (v, some i) hv w hw hname.symm]
      exact hc
  have hN : ∀ n ∈ N, n ∈ M.order ∧ forced (s n) n = none ∧ forced (t n) n = none := by
    intro n hn
    obtain ⟨w, hw, hwn, hwof, c, hc, hcof⟩ := hmember n hn
    refine ⟨?_, ?_, ?_⟩
    · rw [← hwn]
      exact (hM.perm.mem_iff).2 (convertOne_node g w c hc)
    · show forced (worldOf ν (wOf D n).ivs) n = none
      rw [hwof]
      apply forced_worldOf_none
      rw [← hwn]
      exact C.not_self w hw
    · show forced (boundWorld ν r (cOf g D n).ivs) n = none
      rw [hcof]
      apply forced_boundWorld_none
      obtain ⟨hcn, _, _, hex, _⟩ := convertOne_spec' g w c hc
      intro hmem
      have hedge : g.DiEdge n c.name := (hex n).1 hmem
      rw [hcn, hwn] at hedge
      have hno := C.noLoop w hw
      rw [hwn] at hno
      exact hno hedge
  have hpa : ∀ n ∈ N, ∀ p ∈ M.pa n, ∃ x, forced (t n) p = some x ∧
      (forced (s n) p = some x ∨
        (p ∈ N ∧ solve M u (s n) p = solve M u (s p) p ∧ cons p ≠ [] ∧ ∀ k ∈ cons p, k = x)) := by
    intro n hn p hp
    obtain ⟨w, hw, hwn, hwof, c, hc, hcof⟩ := hmember n hn
    obtain ⟨it, hit, hanc⟩ := C.src w hw
    have hedge : g.DiEdge p w.name := by rw [hwn]; exact hM.pa_sub n p hp
    obtain ⟨hcn, _, _, _, hcm⟩ := convertOne_spec' g w c hc
    have hcc : ConsistentSubs c.ivs := convertOne_consistent g w c hc (hcons_w w hw)
    by_cases hpX : p ∈ subNames it.1
    · -- kept subscript
      obtain ⟨i, hi, rfl⟩ := List.mem_map.1 hpX
      have hiw : i ∈ w.ivs := parent_sub_mem g it.1 (C.self it hit) w hanc.1 i hi hedge
      have hic : i ∈ c.ivs := (hcm i).2 ⟨hedge, Or.inl hiw⟩
      have hlit : boundIvValue ν r i = ivValue ν i := by
        unfold boundIvValue
        split
        · rfl
        · rename_i hstar
          cases hf : forced r i.name with
          | none => rfl
          | some k =>
            obtain ⟨hD, hout⟩ := hr1 _ _ hf
            exact absurd (C.lit it hit i hi (by simpa using hstar) hD) hout
      refine ⟨ivValue ν i, ?_, Or.inl ?_⟩
      · show forced (boundWorld ν r (cOf g D n).ivs) i.name = _
        rw [hcof, forced_boundWorld ν r c.ivs i hic hcc, hlit]
      · show forced (worldOf ν (wOf D n).ivs) i.name = _
        rw [hwof]
        exact forced_worldOf ν w.ivs i hiw (hcons_w w hw)
    · -- added subscript `-p`
      obtain ⟨w', hw', hanc', hname'⟩ := C.parentVar it hit w hanc.1 p hedge hpX
      have hpN : p ∈ N := List.mem_map.2 ⟨w', hw', hname'⟩
      have hnotw : ∀ j ∈ w.ivs, j.name ≠ p := by
        intro j hj hjp
        exact hpX (List.mem_map.2 ⟨j, ctfAnc_ivs_sub g it.1 w hanc.1 j hj, hjp⟩)
      have hic : (⟨p, false⟩ : Iv) ∈ c.ivs := (hcm ⟨p, false⟩).2 ⟨hedge, Or.inr ⟨rfl, hnotw⟩⟩
      refine ⟨boundIvValue ν r ⟨p, false⟩, ?_, Or.inr ⟨hpN, ?_, ?_⟩⟩
      · show forced (boundWorld ν r (cOf g D n).ivs) p = _
        rw [hcof]
        exact forced_boundWorld ν r c.ivs ⟨p, false⟩ hic hcc
      · show solve M u (worldOf ν (wOf D n).ivs) p = solve M u (worldOf ν (wOf D p).ivs) p
        rw [hwof, ← hname', C.wOf_mem w' hw']
        exact solve_parent_agree g it.1 ν (C.self it hit) (C.cons it hit) w w' hanc.1 hanc'.1
          (by rw [hname']; exact hedge) M hM u
      · -- the values of `p`
        obtain ⟨c', hc'⟩ := hconv w' hw'
        have hcof' : cOf g D p = c' := by rw [← hname']; exact C.cOf_mem w' c' hw' hc'
        have hcn' : c'.name = p := by rw [(convertOne_spec' g w' c' hc').1, hname']
        show factorVarValues ν r ev (cOf g D p) ≠ [] ∧ ∀ k ∈ factorVarValues ν r ev (cOf g D p), k = _
        rw [hcof']
        cases hf : forced r p with
        | some k0 =>
          have hval : boundIvValue ν r ⟨p, false⟩ = k0 := by simp [boundIvValue, hf]
          constructor
          · intro hnil
            have : k0 ∈ factorVarValues ν r ev c' :=
              (factorVarValues_mem ν r ev c' k0).2 (Or.inl (by rw [hcn']; exact hf))
            rw [hnil] at this; cases this
          · intro k hk
            rcases (factorVarValues_mem ν r ev c' k).1 hk with h1 | ⟨h1, _⟩
            · rw [hcn', hf] at h1; rw [hval]; exact (Option.some.inj h1).symm
            · rw [hcn', hf] at h1; cases h1
        | none =>
          have hval : boundIvValue ν r ⟨p, false⟩ = ν p false := by simp [boundIvValue, hf, ivValue]
          -- `p` is an outcome
          have hout : p ∈ q.map (·.1.name) := by
            by_contra hno
            obtain ⟨k, hk⟩ := hr2 p hpN hno
            rw [hk] at hf; cases hf
          obtain ⟨it', hit', hname''⟩ := List.mem_map.1 hout
          have hopv := C.opv w hw p hedge (by
            intro hmem
            obtain ⟨j, hj, hjp⟩ := List.mem_map.1 hmem
            exact hnotw j hj hjp) hpN
          constructor
          · intro hnil
            have hv' := hopv it' hit' hname''
            have : ν p false ∈ factorVarValues ν r ev c' := by
              apply (factorVarValues_mem ν r ev c' _).2 (Or.inr ⟨by rw [hcn']; exact hf, ⟨p, false⟩, ?_, rfl⟩)
              apply (hvals w' hw' c' hc' ⟨p, false⟩).2
              refine ⟨it'.1, ?_, by rw [hname'', hname']⟩
              rw [← hv']
              exact hit'
            rw [hnil] at this; cases this
          · intro k hk
            rcases (factorVarValues_mem ν r ev c' k).1 hk with h1 | ⟨_, i, hi, rfl⟩
            · rw [hcn', hf] at h1; cases h1
            · obtain ⟨v, hv, hvn⟩ := (hvals w' hw' c' hc' i).1 hi
              have := hopv (v, some i) hv (by rw [hvn, hname'])
              simp only [Option.some.injEq] at this
              subst this
              rw [hval]; rfl
  have key := ancestral_iff_factor M u hM.nodup hM.topo N s t cons hN hpa
  -- the query side
  have hsame : ∀ p ∈ q, ∀ w ∈ D, w.name = p.1.name →
      solve M u (worldOf ν p.1.ivs) p.1.name = solve M u (worldOf ν w.ivs) w.name := by
    intro p hp w hw hname
    obtain ⟨w₀, hw₀, hanc, hn₀⟩ := C.selfVar p hp
    have : w₀ = w := C.single _ hw₀ _ hw (by rw [hn₀, hname])
    subst this
    rw [← hn₀]
    exact sameRV_ctfAnc g p.1 ν (C.cons p hp) w₀ hanc.1 M hM u
  have hleft : (EventHolds M ν u q ∧ ∀ n k, forced r n = some k → solve M u (worldOf ν (wOf D n).ivs) n = k) ↔
      (∀ n ∈ N, ∀ k ∈ cons n, solve M u (s n) n = k) := by
    constructor
    · rintro ⟨hq, hr⟩ n hn k hk
      obtain ⟨w, hw, hwn, hwof, c, hc, hcof⟩ := hmember n hn
      have hcn : c.name = n := by rw [(convertOne_spec' g w c hc).1, hwn]
      have hk' : k ∈ factorVarValues ν r ev c := by rw [← hcof]; exact hk
      rcases (factorVarValues_mem ν r ev c k).1 hk' with h1 | ⟨_, i, hi, rfl⟩
      · rw [hcn] at h1; exact hr n k h1
      · obtain ⟨v, hv, hvn⟩ := (hvals w hw c hc i).1 hi
        show solve M u (worldOf ν (wOf D n).ivs) n = _
        rw [hwof, ← hwn, ← hsame (v, some i) hv w hw hvn.symm]
        exact hq (v, some i) hv i rfl
    · intro h
      constructor
      · intro p hp i hi
        obtain ⟨w, hw, _, hname⟩ := C.selfVar p hp
        obtain ⟨c, hc⟩ := hconv w hw
        have hn : w.name ∈ N := List.mem_map.2 ⟨w, hw, rfl⟩
        have hcn : c.name = w.name := (convertOne_spec' g w c hc).1
        have hnone : forced r w.name = none := by
          cases hf : forced r w.name with
          | none => rfl
          | some k =>
            exact absurd (List.mem_map.2 ⟨p, hp, hname.symm⟩) (hr1 _ _ hf).2
        have hmemk : ivValue ν i ∈ cons w.name := by
          show ivValue ν i ∈ factorVarValues ν r ev (cOf g D w.name)
          rw [C.cOf_mem w c hw hc]
          apply (factorVarValues_mem ν r ev c _).2 (Or.inr ⟨by rw [hcn]; exact hnone, i, ?_, rfl⟩)
          apply (hvals w hw c hc i).2
          refine ⟨p.1, ?_, hname.symm⟩
          rw [← hi]
          exact hp
        have := h w.name hn _ hmemk
        rw [hsame p hp w hw hname]
        show solve M u (worldOf ν w.ivs) w.name = _
        rw [← C.wOf_mem w hw] at this ⊢
        simpa [s, C.wOf_mem w hw] using this
      · intro n k hf
        obtain ⟨hn, _⟩ := hr1 n k hf
        obtain ⟨w, hw, hwn, hwof, c, hc, hcof⟩ := hmember n hn
        have hcn : c.name = n := by rw [(convertOne_spec' g w c hc).1, hwn]
        apply h n hn k
        show k ∈ factorVarValues ν r ev (cOf g D n)
        rw [hcof]
        exact (factorVarValues_mem ν r ev c k).2 (Or.inl (by rw [hcn]; exact hf))
  rw [hleft, key]
  constructor
  · intro h w hw k hk
    exact h w.name (List.mem_map.2 ⟨w, hw, rfl⟩) k hk
  · intro h n hn k hk
    obtain ⟨w, hw, rfl⟩ := List.mem_map.1 hn
    exact h w hw k hk

end QCtx

end Y0.Ctf
