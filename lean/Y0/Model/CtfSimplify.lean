/-
  Y0.Model.CtfSimplify — executable model of SIMPLIFY (Algorithm 1 of Correa, Lee, Bareinboim 2022) as implemented by
  `src/y0/algorithm/counterfactual_transport/api.py:93-147, 234-361, 364-540`:

    _any_variables_with_inconsistent_values, _remove_repeated_variables_and_values,
    _split_event_by_reflexivity, _reduce_reflexive_counterfactual_variables_to_interventions,
    _check_nonreflexive, simplify

  A `dict[Variable, set[Intervention | None]]` is an association list in insertion order whose value lists are
  duplicate free.  `simplify` returns `None` for an impossible event: `Option Event` inside `Except Err`.
  Core Lean only.
-/
import Y0.Model.Ctf

namespace Y0.Ctf
open Y0

abbrev VMap := List (Var × List Val)

/-- `d[variable].add(value)` on a `defaultdict(set)` -/
def VMap.add (m : VMap) (k : Var) (x : Val) : VMap :=
  if m.any (fun p => decide (p.1 = k)) then
    m.map (fun p => if p.1 = k then (p.1, if mem' x p.2 then p.2 else p.2 ++ [x]) else p)
  else m ++ [(k, [x])]

/-- `d[variable].update(values)` -/
def VMap.update (m : VMap) (k : Var) (xs : List Val) : VMap :=
  if m.any (fun p => decide (p.1 = k)) then xs.foldl (fun m x => VMap.add m k x) m
  else m ++ [(k, dedup' xs)]

/-- a `None` next to a proper value is dropped (`if len(values) > 1 and None in values: values.remove(None)`) -/
def dropNone (m : VMap) : VMap :=
  m.map (fun p => if p.2.length > 1 && mem' none p.2 then (p.1, p.2.filter (fun x => decide (x ≠ none))) else p)

/-- `_remove_repeated_variables_and_values`: collect the values of each variable; a `None` next to a proper value
is dropped -/
def removeRepeated (e : Event) : VMap :=
  let m : VMap := e.foldl (fun m p => VMap.add m p.1 p.2) []
  m.map (fun p => if p.2.length > 1 && mem' none p.2 then (p.1, p.2.filter (fun x => decide (x ≠ none))) else p)

/-- `Y_y`-like: a counterfactual variable one of whose interventions is on itself -/
def selfIntervened (v : Var) : Bool := v.ivs.any (fun i => i.name == v.name)

/-- `_split_event_by_reflexivity`: (reflexive or plain, non-reflexive counterfactual) -/
def splitReflexive (e : Event) : Event × Event :=
  (e.filter (fun p => (p.1.isCf && selfIntervened p.1) || !p.1.isCf),
   e.filter (fun p => p.1.isCf && !selfIntervened p.1))

/-- `_check_nonreflexive` -/
def checkNonreflexive (v : Var) : Bool := v.ivs.any (fun i => i.name != v.name)

/-- `_reduce_reflexive_counterfactual_variables_to_interventions` -/
def reduceReflexive (m : VMap) : Except Err VMap :=
  m.foldlM (fun r p =>
    if !p.1.isCf then pure (VMap.update r p.1 p.2)
    else if p.1.ivs.length ≠ 1 then throw (.invalidInput "ValueError")
    else if checkNonreflexive p.1 then throw (.invalidInput "ValueError")
    else pure (VMap.update r p.1.base p.2)) []

/-- two Python sets are equal -/
def valSetEq (a b : List Val) : Bool := seteq' a b

/-- `_any_variables_with_inconsistent_values` (Line 2 of Algorithm 1); raises `TypeError` on a `None` value that
survived next to a proper value, and on a self-intervened variable whose value is `None` -/
def anyInconsistent (nonrefl refl : VMap) : Except Err Bool :=
  if nonrefl.any (fun p => p.2.length > 1 && mem' none p.2)
      || refl.any (fun p => mem' none p.2 && !p.1.isCf && p.2.length > 1) then
    .error (.invalidInput "TypeError")
  else if nonrefl.any (fun p => p.2.length > 1) then .ok true
  else if refl.any (fun p => mem' none p.2 && p.1.isCf) then .error (.invalidInput "TypeError")
  else .ok (refl.any (fun p =>
    (!p.1.isCf && p.2.length > 1) || (p.1.isCf && p.1.ivs.any (fun i => !valSetEq [some i] p.2))))

/-- input validation of `simplify`: a plain `Variable` (or `Intervention`) carrying a star is a `TypeError` -/
def validEventVar (v : Var) : Bool := v.isCf || v.star.isNone

/-- `[(key, d[key].pop()) for key in d]`: after the consistency checks every value set is a singleton; `pop` on an
empty set would be a `KeyError` -/
def popAll (m : VMap) : Except Err Event :=
  m.mapM (fun p => match p.2 with
    | x :: _ => pure (p.1, x)
    | [] => throw (.internal "KeyError"))

/-- `simplify` after the validation and the minimisation of the event: Line 3 (first half), Line 2, Line 3 (second
half; after `fix:` c8cad49 a `None` that the merge of `Y_y` with `Y` put next to a proper value is dropped — before it
the second check raised `TypeError` for `[(Y_y, y), (Y, None)]`), Line 2 again, and the final list comprehension -/
def simplifyCore (me : Event) : Except Err (Option Event) := do
  let nonrefl := removeRepeated (splitReflexive me).2
  let refl := removeRepeated (splitReflexive me).1
  if ← anyInconsistent nonrefl refl then pure none
  else do
    let refl' := dropNone (← reduceReflexive refl)
    if ← anyInconsistent nonrefl refl' then pure none
    else do
      let a ← popAll nonrefl
      let b ← popAll refl'
      pure (some (a ++ b))

/-- `simplify(event, graph)` -/
def simplify (g : MG Name) (e : Event) : Except Err (Option Event) := do
  if !e.all (fun p => validEventVar p.1) then throw (.invalidInput "TypeError")
  let me ← minimizeEvent g e
  simplifyCore me

end Y0.Ctf
