/-
  Y0.Model.IdStar — executable model of `src/y0/algorithm/identify/id_star.py` (ID*, Shpitser & Pearl 2012,
  as implemented in y0) on top of the counterfactual-graph model (Y0.Model.Cg).

  * `ordf`  : iteration order of the `worlds` set inside `make_counterfactual_graph` (see Cg.lean)
  * `dordf` : iteration order of the nodes of a district (a `frozenset`) in the dict comprehension of
              `get_events_of_district` — when two nodes of a district have the same base variable the LATER one
              wins, so the order is observable.  The harness makes the real code iterate in the same order.
  * Recursion: line 3 recurses on a smaller event, line 6 recurses on the ORIGINAL graph with the events of each
    district.  The model is defined by structural recursion on a fuel; `idStar` supplies `idStarFuelBound`.
    "The fuel is never exhausted" is the termination claim (Props/C07.lean says what is proved about it);
    an exhausted fuel is reported as `internal "fuel"` and would show up as a correspondence disagreement.
  * DSL constructors used by ID* are modelled here branch for branch: `Probability.safe` (with `interventions=`),
    `Product.safe`, `Sum.safe`.  `Product.safe` sorts its factors by `_get_key`; the order of factors is NOT
    modelled (the harness compares products as multisets).
-/
import Y0.Model.Cg

namespace Y0
namespace Cf

/-! ### DSL constructors -/

/-- `_upgrade_ordering`: `_sorted_variables(set(variables))` -/
def upgradeOrdering (vs : List Var) : List Var := sortBy Var.keyLt (dedup' vs)

/-- `Variable.intervene(variables)` for a plain variable: every given variable becomes an `Intervention`
(`_to_interventions`: an `Intervention` is kept, anything else becomes the unstarred `-name`) -/
def toInterventions (vs : List Var) : List Iv :=
  vs.map fun v => if v.isIv then ⟨v.name, v.star.getD false⟩ else ⟨v.name, false⟩

def ivsCanon (is : List Iv) : List Iv := sortBy Iv.lt (dedup' is)

/-- `Variable(name).intervene(variables)`; `ValueError` (empty subscript set) is excluded by the callers -/
def interveneBase (n : Name) (is : List Iv) : Var := { name := n, ivs := ivsCanon is }

/-- `Probability.safe(bases, interventions=ivs)` (`ivs = []` models the call without `interventions`).
`Distribution.__post_init__` raises `ValueError` without children. -/
def probSafe (bases : List Name) (ivs : List Iv) : Except Err Expr :=
  let children := upgradeOrdering (bases.map Var.plain)
  if children.isEmpty then .error (.invalidInput "ValueError")
  else if ivs.isEmpty then .ok (.prob none children [])
  else .ok (.prob none (children.map fun c => interveneBase c.name ivs) [])

def isOneE : Expr → Bool
  | .one => true
  | _ => false
def isZeroE : Expr → Bool
  | .zero => true
  | _ => false

/-- `Product.safe(expressions)` for an iterable (factor order not modelled) -/
def productSafe (es : List Expr) : Expr :=
  let es := es.filter (fun e => !isOneE e)
  if es.any isZeroE then .zero
  else match es with
    | [] => .one
    | [e] => e
    | _ => .prod es

/-- `Sum.safe(expression, ranges)` for an iterable of plain variables -/
def sumSafe (e : Expr) (ranges : List Name) : Expr :=
  let rs := upgradeOrdering (ranges.map Var.plain)
  if rs.isEmpty then e
  else if isZeroE e then e
  else .sum e rs

/-! ### lines 2, 3 -/

/-- `violates_axiom_of_effectiveness(event)` -/
def violatesEffectiveness (ev : Event) : Bool :=
  ev.any fun (v, val) => v.isCf && v.ivs.any fun i => i.name == val.name && i.star != val.star

/-- `is_redundant_counterfactual(variable, value)` -/
def isRedundant (v : Var) (val : Iv) : Bool :=
  v.isCf && v.ivs.any fun i => i.name == val.name && i.star == val.star

/-- `remove_event_tautologies(event)` -/
def removeTautologies (ev : Event) : Event := ev.filter fun (v, val) => !isRedundant v val

/-- dict equality `reduced_event != event`: same keys with the same values (order irrelevant) -/
def Event.eqv (a b : Event) : Bool :=
  a.all (fun p => b.get? p.1 == some p.2) && b.all (fun p => a.get? p.1 == some p.2)

/-! ### line 6 -/

/-- `get_free_variables(cf_graph, event)` -/
def freeVariables (cf : MG Var) (ev : Event) : List Name :=
  diff' (dedup' ((cf.nodes.filter isNotSelfIntervened).map (·.name))) (ev.keys.map (·.name))

/-- `_get_node_event` -/
def nodeEvent (node : Var) (ev : Event) : Iv :=
  match ev.get? node with
  | some v => v
  | none => ⟨node.name, false⟩

/-- `get_events_of_district(graph, district, event)`; `district` in iteration order -/
def eventsOfDistrict (cf : MG Var) (district : List Var) (ev : Event) : Except Err Event := do
  let pillow ← cf.markovPillow district
  if pillow.isEmpty then
    pure (Event.ofList (district.map fun n => (Var.plain n.name, nodeEvent n ev)))
  else
    pure (Event.ofList (district.map fun n => (interveneBase n.name (toInterventions pillow), nodeEvent n ev)))

/-- the sub-graph on the nodes that are not self-intervened -/
def nsiSubgraph (cf : MG Var) : MG Var := cf.subgraph (cf.nodes.filter isNotSelfIntervened)

/-- `get_events_of_each_district(graph, event)`: the dict's values, one per district -/
def eventsOfEachDistrict (dordf : List Var → List Var) (cf : MG Var) (ev : Event) : Except Err (List Event) :=
  (nsiSubgraph cf).districts.mapM fun d => eventsOfDistrict cf (dordf d) ev

/-! ### lines 7-9 -/

/-- `get_cf_interventions(nodes)` -/
def cfInterventions (nodes : List Var) : List Iv := dedup' (nodes.flatMap (·.ivs))

/-- `get_evidence(event)` -/
def evidence (ev : Event) : List Iv := dedup' (ev.map (·.2) ++ cfInterventions ev.keys)

/-- `get_conflicts(cf_graph, event)` -/
def conflicts (cf : MG Var) (ev : Event) : List (Iv × Iv) :=
  (cfInterventions cf.nodes).flatMap fun i =>
    ((evidence ev).filter fun e => i.name == e.name && i.star != e.star).map fun e => (i, e)

/-- `id_star_line_9(cf_graph)` -/
def line9 (cf : MG Var) : Except Err Expr :=
  probSafe (cf.nodes.map (·.name)) (cfInterventions cf.nodes)

/-! ### ID* -/

/-- `nx.is_connected(undirected)`: `NetworkXPointlessConcept` on the null graph -/
def isConnected (g : MG Var) : Except Err Bool :=
  if g.nodes.isEmpty then .error (.internal "NetworkXPointlessConcept") else .ok (g.districts.length == 1)

/-- lines 4-9 of `id_star` on an event that passed lines 1-3; `rec` is the recursive call `id_star(graph, ·)` -/
def idStarLines4to9 (ordf : List World → List World) (dordf : List Var → List Var) (G : MG Name)
    (rec : Event → Except Err Expr) (ev : Event) : Except Err Expr := do
  -- line 4
  let (cf, new) ← makeCounterfactualGraph ordf G ev
  match new with
  -- line 5
  | none => pure .zero
  | some nev =>
    -- line 6
    let sub := nsiSubgraph cf
    if !(← isConnected sub) then
      let summand := freeVariables cf nev
      let evs ← eventsOfEachDistrict dordf cf nev
      if evs.length ≤ 1 then throw (.internal "RuntimeError")
      else
        let factors ← evs.mapM rec
        pure (sumSafe (productSafe factors) summand)
    -- lines 7, 8
    else if !(conflicts sub nev).isEmpty then throw .unidentifiable
    -- line 9 (after `fix:` the non-event variables of the graph are summed out as in line 6)
    else do
      let e ← line9 sub
      pure (sumSafe e (freeVariables sub nev))

/-- the body of `id_star`; `rec` is the recursive call -/
def idStarBody (ordf : List World → List World) (dordf : List Var → List Var) (G : MG Name)
    (rec : Event → Except Err Expr) (ev : Event) : Except Err Expr :=
  -- line 1
  if ev.isEmpty then .ok .one
  -- line 2
  else if violatesEffectiveness ev then .ok .zero
  -- line 3
  else if !(Event.eqv (removeTautologies ev) ev) then rec (removeTautologies ev)
  else idStarLines4to9 ordf dordf G rec ev

def idStarFuel (ordf : List World → List World) (dordf : List Var → List Var) (G : MG Name) :
    Nat → Event → Except Err Expr
  | 0, _ => .error (.internal "fuel")
  | fuel + 1, ev => idStarBody ordf dordf G (idStarFuel ordf dordf G fuel) ev

/-- enough fuel for every recursion the algorithm can perform (claim: see Props/C07.lean) -/
def idStarFuelBound (G : MG Name) (ev : Event) : Nat := 2 * G.nodes.length + ev.length + 4

/-- `id_star(graph, event)` -/
def idStar (ordf : List World → List World) (dordf : List Var → List Var) (G : MG Name) (ev : Event) :
    Except Err Expr :=
  idStarFuel ordf dordf G (idStarFuelBound G ev) ev


/-! ### decidable tests of the fragments on which soundness is proved (Props/C07.lean); the harness asks the driver for them -/

/-- the subscript set of the first key (the world of a single-world event) -/
def worldB (ev : Event) : World :=
  match ev with
  | [] => []
  | p :: _ => p.1.ivs

/-- the polarity the event gives the variable named `n` (starred iff some key over `n` has a starred value) -/
def starOf (ev : Event) : Name → Bool := fun n => ev.any fun p => p.1.name == n && p.2.star

/-- fragment 1 (`InFragment`): one subscript set, unstarred values and subscripts -/
def inFragmentB (G : MG Name) (ev : Event) : Bool :=
  match ev with
  | [] => true
  | p :: _ =>
    decide (ev.keys.Nodup) &&
    ev.all (fun q => decide (q.2 = ⟨q.1.name, false⟩) && decide (q.1.star = none) && !q.1.isIv &&
      decide (q.1.name ∈ G.nodes) && decide (q.1.ivs = p.1.ivs)) &&
    p.1.ivs.all (fun i => !i.star)

def consistentB (S : List Iv) : Bool := S.all fun i => S.all fun j => decide (i.name = j.name → i = j)

/-- `Clean2`: if line 6 fires, no starred-valued key is a parent (in `G`) of a non-self-intervened node of the counterfactual
graph and no node of the graph is self-intervened on a starred subscript -/
def cleanB (ordf : List World → List World) (G : MG Name) (w : World) (s : Name → Bool) (ev : Event) : Bool :=
  match makeCounterfactualGraph ordf G ev with
  | .ok (g, some nev) =>
    match isConnected (nsiSubgraph g) with
    | .ok false =>
      nev.all (fun q => !(s q.1.name) || (nsiSubgraph g).nodes.all (fun n => decide ((q.1.name, n.name) ∉ G.di))) &&
      g.nodes.all (fun n => isNotSelfIntervened n || w.all (fun i => decide (i.name = n.name → i.star = false)))
    | _ => true
  | _ => true

/-- fragment 2 (`InFragment2`): one subscript set, any polarity, line 6 keeps the polarities -/
def inFragment2B (ordf : List World → List World) (G : MG Name) (ev : Event) : Bool :=
  decide (ev.keys.Nodup) &&
  ev.all (fun q => decide (q.2 = ⟨q.1.name, starOf ev q.1.name⟩) && decide (q.1 = atWorld q.1.name (worldB ev)) &&
    decide (q.1.name ∈ G.nodes)) &&
  consistentB (worldB ev) &&
  (violatesEffectiveness ev || cleanB ordf G (worldB ev) (starOf ev) (removeTautologies ev))

/-- well-formed events (`GoodEv`): a dict whose keys are variables of the graph with consistent subscript sets, values named
after their variables -/
def goodEvB (G : MG Name) (ev : Event) : Bool :=
  decide (ev.keys.Nodup) &&
  ev.all (fun q => decide (q.2.name = q.1.name) && decide (q.1.star = none) && !q.1.isIv && decide (q.1.name ∈ G.nodes) &&
    consistentB q.1.ivs)

/-- fragment 2R (`InFragment2R`): a well-formed event (any number of worlds) that violates effectiveness, or whose conjuncts are all
tautologies, or that line 3 reduces to an event of fragment 2 -/
def inFragment2RB (ordf : List World → List World) (G : MG Name) (ev : Event) : Bool :=
  goodEvB G ev &&
  (violatesEffectiveness ev || (removeTautologies ev).isEmpty || inFragment2B ordf G (removeTautologies ev))

/-- `Frag3At` (Lemmas/CfMwC.lean): the condition on the counterfactual graph of an event that is still multi-world after line 3 -/
def frag3AtB (G : MG Name) (g : MG Var) (nev : Event) : Bool :=
  let N := (nsiSubgraph g).nodes
  N.all (fun a => N.all fun b => decide (a.name = b.name → a = b)) &&
  N.all (fun n => g.nodes.all fun x => x.ivs.all fun i => decide (i.name ≠ n.name)) &&
  consistentB (cfInterventions g.nodes) &&
  g.nodes.all (fun a => g.nodes.all fun b => !(isNotSelfIntervened a) || !(isNotSelfIntervened b) || decide (a = b) ||
    !(decide ((a.name, b.name) ∈ G.bi) || decide ((b.name, a.name) ∈ G.bi)) || g.hasBi a b) &&
  (match isConnected (nsiSubgraph g) with
   | .ok true => g.nodes.all fun x => isNotSelfIntervened x ||
       x.ivs.all fun i => decide (i.name ≠ x.name) || elem' i (cfInterventions N)
   | .ok false =>
       nev.all (fun q => !(starOf nev q.1.name) || N.all fun n => decide ((q.1.name, n.name) ∉ G.di)) &&
       g.nodes.all (fun x => isNotSelfIntervened x || x.ivs.all fun i => decide (i.name ≠ x.name) || !i.star)
   | .error _ => false)

/-- fragment 3 (`InFragment3`): a well-formed event that passes lines 1–3 with a non-empty remainder whose counterfactual graph
satisfies `Frag3At` -/
def inFragment3B (ordf : List World → List World) (G : MG Name) (ev : Event) : Bool :=
  goodEvB G ev && !violatesEffectiveness ev && !(removeTautologies ev).isEmpty &&
  match makeCounterfactualGraph ordf G (removeTautologies ev) with
  | .ok (g, some nev) => frag3AtB G g nev
  | _ => false

/-- single-world events (`OneWorld`) -/
def oneWorldB (G : MG Name) (ev : Event) : Bool :=
  decide (ev.keys.Nodup) &&
  ev.all (fun q => decide (q.2 = ⟨q.1.name, starOf ev q.1.name⟩) && decide (q.1 = atWorld q.1.name (worldB ev)) &&
    decide (q.1.name ∈ G.nodes)) &&
  consistentB (worldB ev)

/-- the orders of district nodes used by the correspondence: sorted by `_variable_sort_key`, or reversed -/
def orderDistrict (rev : Bool) (d : List Var) : List Var :=
  let s := sortBy Var.keyLt d
  if rev then s.reverse else s

end Cf
end Y0
