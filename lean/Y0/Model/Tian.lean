/-
  Y0.Model.Tian — executable model of src/y0/algorithm/tian_id.py (Tian & Pearl's IDENTIFY and the c-factor
  routines it relies on), branch for branch, with every place where the Python raises made explicit.

    identify_district_variables                                              identify (fuel = |T| + 1)
    compute_c_factor                                                         computeCFactor
    compute_c_factor_conditioning_on_topological_predecessors  (Lemma 1)     lemma1
    compute_c_factor_marginalizing_over_topological_successors (Lemma 4)     lemma4
    compute_q_value_of_variables_with_low_topological_ordering_indices       lowIndex
    compute_ancestral_set_q_value                              (Lemma 3)     ancestralQ

  Graph nodes, `input_variables`, `input_district` and `topo` are plain variables and are represented by their
  names; expressions are `Expr` over `Var` (so a probability may carry population tags and intervention subscripts).
  Python sets are lists read up to order; the order of the factors of a `Product` and of the parents of a
  population-tagged probability follows set iteration in Python and list order here (compared as multisets / sets).

  The model is the code AFTER the `fix:` commit "Lemma 1 keeps the intervention subscripts of the given
  probability" (`world`, `inWorld` below).
-/
import Y0.Model.Graph
import Y0.Model.TianDsl

namespace Y0
namespace Tian
open TianDsl

def vars (ns : List Name) : List Var := ns.map Var.plain

/-- `{child.get_base(): child for child in children}` -/
def world (children : List Var) : List (Name × Var) := children.map fun c => (c.name, c)

/-- `world.get(v, v)`: the child of the given probability whose base variable is `v` (the last one wins, as in a
dict comprehension), else the plain variable itself -/
def inWorld (w : List (Name × Var)) (v : Name) : Var :=
  match w.reverse.find? (fun p => p.1 == v) with
  | some p => p.2
  | none => Var.plain v

/-- `topo.index(v)`; `ValueError` when absent -/
def indexOf (topo : List Name) (v : Name) : Except Err Nat :=
  match topo.findIdx? (· == v) with
  | some i => .ok i
  | none => .error (.internal "ValueError")

/-! ### Equation 72: Q[H^(i)] -/

/-- `compute_q_value_of_variables_with_low_topological_ordering_indices(vertex, graph_probability, topo)` -/
def lowIndex (vertex : Option Name) (q : Expr) (topo : List Name) : Except Err Expr :=
  match vertex with
  | none => .ok .one
  | some v =>
    if v ∉ topo then .error (.internal "KeyError")
    else do
      let i ← indexOf topo v
      sumSafe q (vars (topo.drop (i + 1)))

/-! ### Lemma 4 (ii) -/

/-- `_get_expression_from_index(index)`: `Q[H^(i)] / Q[H^(i-1)]` where `index = topo.index(v)` -/
def lemma4Factor (q : Expr) (topo : List Name) (v : Name) (index : Nat) : Except Err Expr := do
  let cur ← lowIndex (some v) q topo            -- `topo[index]` is `v`
  if index == 0 then pure cur
  else
    match topo[index - 1]? with
    | none => .error (.internal "IndexError")
    | some u =>
      let prev ← lowIndex (some u) q topo
      mkFraction cur prev

/-- `compute_c_factor_marginalizing_over_topological_successors(district, graph_probability, topo)` -/
def lemma4One (q : Expr) (topo : List Name) (v : Name) : Except Err Expr := do
  let i ← indexOf topo v
  lemma4Factor q topo v i

def lemma4 (district : List Name) (q : Expr) (topo : List Name) : Except Err Expr := do
  let fs ← district.mapM (lemma4One q topo)
  pure (productSafe fs)

/-! ### Lemma 1 (i) -/

/-- one factor `P(v_i | parents ∪ v^(i-1))`, in the world of the given probability -/
def lemma1Factor (pop : Option Var) (w : List (Name × Var)) (parents : List Var) (topo : List Name) (v : Name) :
    Except Err Expr := do
  let i ← indexOf topo v
  let preceding := (topo.take i).map (inWorld w)
  -- `set(parents).union(preceding)`
  let conditioned := dedup' (parents ++ preceding)
  match pop with
  | some _ =>
      -- `Distribution(children=(v,), parents=tuple(conditioned))`: set order in Python, sorted here
      mkProb pop { children := [inWorld w v], parents := upgradeOrdering conditioned }
  | none => do
      let d ← Dist.ofGiven (inWorld w v) conditioned
      mkProb none d

/-- `compute_c_factor_conditioning_on_topological_predecessors(district, graph_probability, topo)`;
a `graph_probability` that is not a `Probability` has no `.parents` (`AttributeError`) -/
def lemma1 (district : List Name) (q : Expr) (topo : List Name) : Except Err Expr :=
  if district.isEmpty || topo.isEmpty then .error (.invalidInput "TypeError")
  else if district.any (· ∉ topo) then .error (.invalidInput "KeyError")
  else match q with
    | .prob pop children parents => do
        let fs ← district.mapM (lemma1Factor pop (world children) parents topo)
        pure (productSafe fs)
    | _ => .error (.internal "AttributeError")

/-! ### dispatch on the type of the expression -/

def isFracProdSum : Expr → Bool
  | .frac _ _ => true
  | .prod _ => true
  | .sum _ _ => true
  | _ => false

def isProb : Expr → Bool
  | .prob _ _ _ => true
  | _ => false

/-- `compute_c_factor(district, subgraph_variables, subgraph_probability, graph_topo)` -/
def computeCFactor (district H : List Name) (q : Expr) (graphTopo : List Name) : Except Err Expr :=
  let subTopo := graphTopo.filter (· ∈ H)
  if isFracProdSum q then lemma4 district q subTopo
  else if !isProb q then .error (.invalidInput "TypeError")
  else lemma1 district q subTopo

/-! ### Lemma 3 -/

/-- `compute_ancestral_set_q_value(ancestral_set, subgraph_variables, subgraph_probability, graph_topo)` -/
def ancestralQ (A H : List Name) (q : Expr) (graphTopo : List Name) : Except Err Expr :=
  sumSafe q (vars (graphTopo.filter (fun v => v ∈ H ∧ v ∉ A)))

/-! ### IDENTIFY -/

/-- the probability of the ancestral set when `Q[T]` is a `Probability`:
`(a₀.joint(a₁…) | parents)` in the world of the given probability, with the same population tag -/
def ancestralProb (pop : Option Var) (children parents : List Var) (orderedA : List Name) : Except Err Expr :=
  match orderedA.map (inWorld (world children)) with
  | [] => .error (.internal "IndexError")
  | a :: as => do
      let d ← Dist.ofJoint a as
      let d ← d.given parents
      mkProb pop d

/-- the expression for `Q[A]` in the recursive branch: Lemma 3 when `Q[T]` is a `Fraction | Product | Sum`,
the marginal of the given probability when it is a `Probability`; anything else is a `TypeError` -/
def ancestralExpr (q : Expr) (A T orderedA topo : List Name) : Except Err Expr :=
  if isFracProdSum q then ancestralQ A T q topo
  else match q with
    | .prob pop children parents => ancestralProb pop children parents orderedA
    | _ => .error (.invalidInput "TypeError")

/-- `identify_district_variables(input_variables=C, input_district=T, district_probability=q, graph=G, topo)`;
`none` is the Python `None` (FAIL).  Structural recursion on `fuel`; `identify` starts with `|T| + 1`, and
`Y0.tian_total` shows that the fuel never runs out. -/
def identifyAux (G : MG Name) (topo : List Name) (C : List Name) :
    Nat → List Name → Expr → Except Err (Option Expr)
  | 0, _, _ => .error (.internal "fuel")
  | fuel + 1, T, q =>
    if !subset' C T then .error (.invalidInput "KeyError")
    else if !subset' T topo then .error (.invalidInput "KeyError")
    else
      let GT := G.subgraph T
      if GT.districts.length > 1 then .error (.invalidInput "TypeError")
      else if !(isFracProdSum q || isProb q) then .error (.invalidInput "TypeError")
      else do
        let A ← GT.ancestorsInclusive C
        let orderedA := topo.filter (· ∈ A)
        if seteq' A C then
          let r ← ancestralQ A T q topo
          pure (some r)
        else if seteq' A T then pure none
        else if subset' C A && subset' A T then do
          let GA := G.subgraph orderedA
          -- `districts[[C ⊆ d for d in districts].index(True)]`
          match GA.districts.find? (fun d => subset' C d) with
          | none => .error (.internal "ValueError")
          | some T' =>
            let qA ← ancestralExpr q A T orderedA topo
            let qT' ← computeCFactor T' A qA topo
            identifyAux G topo C fuel T' qT'
        else .error (.internal "NotImplementedError")

def identify (G : MG Name) (C T : List Name) (q : Expr) (topo : List Name) : Except Err (Option Expr) :=
  identifyAux G topo C ((dedup' T).length + 1) T q

end Tian
end Y0
